(* C32: lemmas and proofs about Model/Ivf.v *)
From Coq Require Import String List Arith NArith Bool Lia ZifyBool ZifyNat ZifyN.
Import ListNotations.
From Verif Require Import Common.V Common.Base Model.Ivf.
Open Scope N_scope.

(* ---------- little-endian encode / decode ---------- *)

Lemma le_bytes_length : forall w n, length (le_bytes w n) = w.
Proof. induction w as [|w IH]; intros n; cbn [le_bytes length]; [reflexivity | now rewrite IH]. Qed.

Lemma le_roundtrip : forall w n, n < 2 ^ (8 * N.of_nat w) -> le_val (le_bytes w n) = n.
Proof.
  induction w as [|w IH]; intros n Hn.
  - cbn in *. lia.
  - cbn [le_bytes le_val].
    rewrite IH.
    + pose proof (N.div_mod n 256). lia.
    + replace (8 * N.of_nat (S w)) with (8 + 8 * N.of_nat w) in Hn by lia.
      rewrite N.pow_add_r in Hn. change (2 ^ 8) with 256 in Hn.
      apply N.div_lt_upper_bound; lia.
Qed.

Lemma le_bytes_2 : forall x, le_bytes 2 x = [x mod 256; (x / 256) mod 256].
Proof. reflexivity. Qed.
Lemma le_bytes_4 : forall x,
  le_bytes 4 x = [x mod 256; (x / 256) mod 256; (x / 256 / 256) mod 256; (x / 256 / 256 / 256) mod 256].
Proof. reflexivity. Qed.

Lemma le_val_2 : forall x, x < 65536 -> le_val [x mod 256; (x / 256) mod 256] = x.
Proof. intros x H. rewrite <- le_bytes_2. apply le_roundtrip. exact H. Qed.
Lemma le_val_4 : forall x, x < 4294967296 ->
  le_val [x mod 256; (x / 256) mod 256; (x / 256 / 256) mod 256; (x / 256 / 256 / 256) mod 256] = x.
Proof. intros x H. rewrite <- le_bytes_4. apply le_roundtrip. exact H. Qed.

(* ---------- list slicing ---------- *)

Lemma firstn_app_exact : forall (A : Type) (a b : list A), firstn (length a) (a ++ b) = a.
Proof.
  intros A a b. rewrite firstn_app, Nat.sub_diag, firstn_all. cbn. apply app_nil_r.
Qed.
Lemma skipn_app_exact : forall (A : Type) (a b : list A), skipn (length a) (a ++ b) = b.
Proof.
  intros A a b. rewrite skipn_app, Nat.sub_diag, skipn_all. reflexivity.
Qed.

Lemma read_full_app : forall a rest,
  read_full (N.of_nat (length a)) (a ++ rest) = RdOk a rest.
Proof.
  intros a rest. unfold read_full.
  rewrite app_length.
  replace (N.of_nat (length a) <=? N.of_nat (length a + length rest)) with true
    by (symmetry; apply N.leb_le; lia).
  rewrite Nnat.Nat2N.id, firstn_app_exact, skipn_app_exact. reflexivity.
Qed.

(* ---------- the file as header ++ frame records ---------- *)

Definition frame_record (f : frec) : list N :=
  frame_header (N.of_nat (length (f_bytes f))) (f_pts f) ++ f_bytes f.
Definition records (fs : list frec) : list N := flat_map frame_record fs.

Lemma records_app : forall a b, records (a ++ b) = records a ++ records b.
Proof. intros a b. unfold records. apply flat_map_app. Qed.

(* invariant of the writer: everything written so far is the header followed
   by one record per logged writeFrame call, and count counts them (mod 2^64) *)
Definition winv (o : opts) (s : wst) : Prop :=
  w_out s = ivf_header o header_count_placeholder ++ records (w_log s) /\
  w_count s = u64 (N.of_nat (length (w_log s))) /\
  Forall (fun f => f_pts f < 2 ^ 64) (w_log s).

Lemma winv_init : forall o, winv o (init_state o).
Proof.
  intros o. unfold winv, init_state, records. cbn [w_out w_log w_count flat_map length].
  split; [symmetry; apply app_nil_r|]. split; [reflexivity | constructor].
Qed.

Lemma u64_lt : forall x, u64 x < 2 ^ 64.
Proof. intros x. unfold u64. apply N.mod_lt. discriminate. Qed.

Lemma u64_succ : forall n, u64 (u64 n + 1) = u64 (n + 1).
Proof. intros n. unfold u64. rewrite N.add_mod_idemp_l by discriminate. reflexivity. Qed.

Lemma write_frame_inv : forall o s frame t s' st,
  winv o s -> t < 2 ^ 64 ->
  write_frame o s frame t = (s', st) -> winv o s'.
Proof.
  intros o s frame t s' st (Hout & Hcnt & Hpts) Ht H.
  unfold write_frame in H.
  destruct (o_direct o).
  - injection H as <- <-. unfold winv. cbn [w_out w_log w_count].
    rewrite records_app, Hout, <- app_assoc.
    repeat split.
    + do 2 f_equal. unfold records. cbn [flat_map]. rewrite app_nil_r. reflexivity.
    + rewrite Hcnt, app_length. cbn [length]. rewrite u64_succ. f_equal. lia.
    + apply Forall_app. split; [exact Hpts|]. constructor; [exact Ht | constructor].
  - unfold timestamp_to_pts in H. destruct (o_den o =? 0) eqn:Ed.
    + injection H as <- <-. unfold winv. auto.
    + injection H as <- <-. unfold winv. cbn [w_out w_log w_count].
      rewrite records_app, Hout, <- app_assoc.
      repeat split.
      * do 2 f_equal. unfold records. cbn [flat_map]. rewrite app_nil_r. reflexivity.
      * rewrite Hcnt, app_length. cbn [length]. rewrite u64_succ. f_equal. lia.
      * apply Forall_app. split; [exact Hpts|]. constructor; [| constructor].
        cbn [f_pts]. apply N.eqb_neq in Ed.
        eapply N.le_lt_trans; [apply N.div_le_upper_bound with (q := u64 (t * o_num o)) | apply u64_lt].
        -- exact Ed.
        -- nia.
Qed.

(* ---------- one WriteRTP call, by cases ---------- *)

Definition av1_is_key (p : pkt) : bool :=
  p_flag p ||
  match p_payload p with
  | [] => false
  | b0 :: _ => N.shiftr (N.land b0 120) 3 =? obu_sequence_header
  end.

(* the packet's payload is appended to currentFrame *)
Definition accepts (o : opts) (s : wst) (p : pkt) : bool :=
  negb (p_err p) &&
  match o_codec o with
  | VP8 => match p_payload p with
           | [] => false
           | b0 :: _ => (w_seen s || (N.land b0 1 =? 0)) && (negb (is_nil (w_cur s)) || p_start p)
           end
  | VP9 => (w_seen s || negb (p_flag p)) && (negb (is_nil (w_cur s)) || p_start p)
  | AV1 => w_seen s || av1_is_key p
  end.

Definition first_upd (s : wst) (p : pkt) : wst :=
  if w_count s =? 0 then set_first s (p_ts p) else s.

Definition time_of (o : opts) (s0 : wst) (p : pkt) : N :=
  let d := subw 4294967296 (p_ts p) (w_first s0) in
  if o_direct o then d else u64 (1000 * d) / clock_rate.

Definition prefix_of (c : codec) : list N :=
  match c with AV1 => av1_delimiter | _ => [] end.

Inductive step_case (o : opts) (s : wst) (p : pkt) (s' : wst) (st : status) : Prop :=
| SC_empty : p_raw_empty p = true -> s' = s -> st = SOk -> step_case o s p s' st
| SC_ignored : p_raw_empty p = false -> accepts o (first_upd s p) p = false ->
    s' = first_upd s p -> st <> SPanic -> step_case o s p s' st
| SC_kept : p_raw_empty p = false -> accepts o (first_upd s p) p = true ->
    s' = accept (first_upd s p) p -> st = SOk ->
    (p_marker p = false \/ (o_codec o <> AV1 /\ w_cur s' = [])) -> step_case o s p s' st
| SC_flushed : p_raw_empty p = false -> accepts o (first_upd s p) p = true ->
    p_marker p = true ->
    (o_codec o <> AV1 -> w_cur (accept (first_upd s p) p) <> []) ->
    write_frame o (accept (first_upd s p) p)
                (prefix_of (o_codec o) ++ w_cur (accept (first_upd s p) p))
                (time_of o (first_upd s p) p) = (s', st) ->
    step_case o s p s' st.

Lemma is_nil_true : forall l, is_nil l = true -> l = [].
Proof. intros [|x l] H; [reflexivity | discriminate]. Qed.
Lemma is_nil_false : forall l, is_nil l = false -> l <> [].
Proof. intros [|x l] H; [discriminate | discriminate]. Qed.

Lemma write_rtp_cases : forall o s p s' st,
  write_rtp o s p = (s', st) -> step_case o s p s' st.
Proof.
  intros o s p s' st H. unfold write_rtp in H.
  destruct (p_raw_empty p) eqn:Hre.
  { injection H as <- <-. apply SC_empty; auto. }
  fold (first_upd s p) in H.
  fold (time_of o (first_upd s p) p) in H.
  destruct (o_codec o) eqn:Hc.
  - (* VP8 *)
    unfold write_vp8 in H.
    destruct (p_err p) eqn:He.
    { injection H as <- <-. apply SC_ignored; auto; [unfold accepts; rewrite He; reflexivity | discriminate]. }
    destruct (p_payload p) as [|b0 rest] eqn:Hp.
    { injection H as <- <-. apply SC_ignored; auto; [unfold accepts; rewrite He, Hc, Hp; reflexivity | discriminate]. }
    destruct (negb (w_seen (first_upd s p)) && negb (N.land b0 1 =? 0)) eqn:Hg1.
    { injection H as <- <-. apply SC_ignored; auto; [|discriminate].
      unfold accepts. rewrite He, Hc, Hp. cbn [negb andb].
      destruct (w_seen (first_upd s p)), (N.land b0 1 =? 0); cbn in *; try discriminate; reflexivity. }
    destruct (is_nil (w_cur (first_upd s p)) && negb (p_start p)) eqn:Hg2.
    { injection H as <- <-. apply SC_ignored; auto; [|discriminate].
      unfold accepts. rewrite He, Hc, Hp. cbn [negb andb].
      destruct (is_nil (w_cur (first_upd s p))), (p_start p); cbn in *; try discriminate.
      apply andb_false_r. }
    assert (Hacc : accepts o (first_upd s p) p = true).
    { unfold accepts. rewrite He, Hc, Hp. cbn [negb andb].
      destruct (w_seen (first_upd s p)), (N.land b0 1 =? 0), (is_nil (w_cur (first_upd s p))), (p_start p); cbn in *; try discriminate; reflexivity. }
    destruct (negb (p_marker p)) eqn:Hm.
    { injection H as <- <-. apply SC_kept; auto. left. now destruct (p_marker p). }
    destruct (is_nil (w_cur (accept (first_upd s p) p))) eqn:Hn.
    { injection H as <- <-. apply SC_kept; auto. right. split; [congruence|]. now apply is_nil_true. }
    apply SC_flushed; auto.
    + now destruct (p_marker p).
    + intros _. now apply is_nil_false.
    + rewrite Hc. exact H.
  - (* VP9 *)
    unfold write_vp9 in H.
    destruct (p_err p) eqn:He.
    { injection H as <- <-. apply SC_ignored; auto; [unfold accepts; rewrite He; reflexivity | discriminate]. }
    destruct (negb (w_seen (first_upd s p)) && p_flag p) eqn:Hg1.
    { injection H as <- <-. apply SC_ignored; auto; [|discriminate].
      unfold accepts. rewrite He, Hc. cbn [negb andb].
      destruct (w_seen (first_upd s p)), (p_flag p); cbn in *; try discriminate; reflexivity. }
    destruct (is_nil (w_cur (first_upd s p)) && negb (p_start p)) eqn:Hg2.
    { injection H as <- <-. apply SC_ignored; auto; [|discriminate].
      unfold accepts. rewrite He, Hc. cbn [negb andb].
      destruct (is_nil (w_cur (first_upd s p))), (p_start p); cbn in *; try discriminate.
      apply andb_false_r. }
    assert (Hacc : accepts o (first_upd s p) p = true).
    { unfold accepts. rewrite He, Hc. cbn [negb andb].
      destruct (w_seen (first_upd s p)), (p_flag p), (is_nil (w_cur (first_upd s p))), (p_start p); cbn in *; try discriminate; reflexivity. }
    destruct (negb (p_marker p)) eqn:Hm.
    { injection H as <- <-. apply SC_kept; auto. left. now destruct (p_marker p). }
    destruct (is_nil (w_cur (accept (first_upd s p) p))) eqn:Hn.
    { injection H as <- <-. apply SC_kept; auto. right. split; [congruence|]. now apply is_nil_true. }
    apply SC_flushed; auto.
    + now destruct (p_marker p).
    + intros _. now apply is_nil_false.
    + rewrite Hc. exact H.
  - (* AV1 *)
    unfold write_av1 in H. fold (av1_is_key p) in H.
    destruct (p_err p) eqn:He.
    { injection H as <- <-. apply SC_ignored; auto; [unfold accepts; rewrite He; reflexivity | discriminate]. }
    destruct (negb (w_seen (first_upd s p)) && negb (av1_is_key p)) eqn:Hg1.
    { injection H as <- <-. apply SC_ignored; auto; [|discriminate].
      unfold accepts. rewrite He, Hc. cbn [negb andb].
      destruct (w_seen (first_upd s p)), (av1_is_key p); cbn in *; try discriminate; reflexivity. }
    assert (Hacc : accepts o (first_upd s p) p = true).
    { unfold accepts. rewrite He, Hc. cbn [negb andb].
      destruct (w_seen (first_upd s p)), (av1_is_key p); cbn in *; try discriminate; reflexivity. }
    destruct (negb (p_marker p)) eqn:Hm.
    { injection H as <- <-. apply SC_kept; auto. left. now destruct (p_marker p). }
    apply SC_flushed; auto.
    + now destruct (p_marker p).
    + rewrite Hc. exact H.
Qed.

(* ---------- the invariant along a run ---------- *)

Lemma subw_lt : forall m a b, m <> 0 -> subw m a b < m.
Proof. intros m a b Hm. unfold subw. apply N.mod_lt. exact Hm. Qed.

Lemma time_of_lt : forall o s p, time_of o s p < 2 ^ 64.
Proof.
  intros o s p. unfold time_of.
  pose proof (subw_lt 4294967296 (p_ts p) (w_first s)) as Hd.
  destruct (o_direct o).
  - eapply N.lt_trans; [apply Hd; discriminate|]. reflexivity.
  - eapply N.le_lt_trans; [| apply (u64_lt (1000 * subw 4294967296 (p_ts p) (w_first s)))].
    apply N.div_le_upper_bound; [discriminate|]. unfold clock_rate. nia.
Qed.

Lemma winv_first_upd : forall o s p, winv o s -> winv o (first_upd s p).
Proof. intros o s p H. unfold first_upd. destruct (w_count s =? 0); exact H. Qed.

Lemma winv_accept : forall o s p, winv o s -> winv o (accept s p).
Proof. intros o s p H. exact H. Qed.

Lemma write_rtp_inv : forall o s p s' st,
  winv o s -> write_rtp o s p = (s', st) -> winv o s'.
Proof.
  intros o s p s' st Hinv H. apply write_rtp_cases in H.
  destruct H as [_ -> _ | _ _ -> _ | _ _ -> _ _ | _ _ _ _ Hw].
  - exact Hinv.
  - now apply winv_first_upd.
  - now apply winv_accept, winv_first_upd.
  - eapply write_frame_inv; [| apply time_of_lt | exact Hw].
    now apply winv_accept, winv_first_upd.
Qed.

Lemma run_packets_inv : forall o ps s,
  winv o s -> winv o (fst (run_packets o s ps)).
Proof.
  intros o ps. induction ps as [|p rest IH]; intros s Hinv; cbn [run_packets fst].
  - exact Hinv.
  - destruct (write_rtp o s p) as [s1 st] eqn:Hw.
    pose proof (write_rtp_inv o s p s1 st Hinv Hw) as H1.
    destruct st.
    + specialize (IH s1 H1). destruct (run_packets o s1 rest). exact IH.
    + specialize (IH s1 H1). destruct (run_packets o s1 rest). exact IH.
    + exact H1.
Qed.

(* no panic when the denominator is non-zero (NewWith refuses zero) *)
Lemma write_rtp_no_panic : forall o s p,
  o_den o <> 0 -> snd (write_rtp o s p) <> SPanic.
Proof.
  intros o s p Hden. destruct (write_rtp o s p) as [s' st] eqn:H. cbn [snd].
  apply write_rtp_cases in H.
  destruct H as [_ _ -> | _ _ _ Hst | _ _ _ -> _ | _ _ _ _ Hw]; try discriminate; try exact Hst.
  unfold write_frame, timestamp_to_pts in Hw.
  apply N.eqb_neq in Hden. rewrite Hden in Hw.
  destruct (o_direct o); injection Hw as _ <-; discriminate.
Qed.

Lemma run_packets_no_panic : forall o ps s,
  o_den o <> 0 -> ~ In SPanic (snd (run_packets o s ps)).
Proof.
  intros o ps. induction ps as [|p rest IH]; intros s Hden; cbn [run_packets snd].
  - intros [].
  - pose proof (write_rtp_no_panic o s p Hden) as Hnp.
    destruct (write_rtp o s p) as [s1 st] eqn:Hw. cbn [snd] in Hnp.
    destruct st; try congruence.
    + specialize (IH s1 Hden). destruct (run_packets o s1 rest) as [s2 sts]. cbn [snd] in *.
      intros [E | Hin]; [discriminate | auto].
    + specialize (IH s1 Hden). destruct (run_packets o s1 rest) as [s2 sts]. cbn [snd] in *.
      intros [E | Hin]; [discriminate | auto].
Qed.

(* ---------- Close ---------- *)

Definition header_pre (o : opts) : list N :=
  sig_dkif ++ le_bytes 2 0 ++ le_bytes 2 32 ++ fourcc (o_codec o)
  ++ le_bytes 2 (o_width o) ++ le_bytes 2 (o_height o)
  ++ le_bytes 4 (o_den o) ++ le_bytes 4 (o_num o).

Lemma header_split : forall o c,
  ivf_header o c = header_pre o ++ le_bytes 4 c ++ le_bytes 4 0.
Proof.
  intros o c. unfold ivf_header, header_pre. repeat rewrite <- app_assoc. reflexivity.
Qed.

Lemma fourcc_length : forall c, length (fourcc c) = 4%nat.
Proof. intros []; reflexivity. Qed.

Lemma header_pre_length : forall o, length (header_pre o) = 24%nat.
Proof.
  intros o. unfold header_pre.
  repeat rewrite app_length. repeat rewrite le_bytes_length. rewrite fourcc_length. reflexivity.
Qed.

Lemma header_length : forall o c, length (ivf_header o c) = 32%nat.
Proof.
  intros o c. rewrite header_split. repeat rewrite app_length.
  rewrite header_pre_length. repeat rewrite le_bytes_length. reflexivity.
Qed.

Lemma patch_header : forall o c c' rest,
  patch (ivf_header o c ++ rest) 24 (le_bytes 4 c') = ivf_header o c' ++ rest.
Proof.
  intros o c c' rest. unfold patch. rewrite le_bytes_length.
  rewrite !header_split. repeat rewrite <- app_assoc.
  rewrite <- (header_pre_length o) at 1. rewrite firstn_app_exact.
  f_equal. f_equal.
  replace (24 + 4)%nat with (length (header_pre o ++ le_bytes 4 c))
    by (rewrite app_length, header_pre_length, le_bytes_length; reflexivity).
  rewrite (app_assoc (header_pre o)). rewrite skipn_app_exact. reflexivity.
Qed.

Definition count_field (seekable : bool) (s : wst) : N :=
  if seekable then u32 (w_count s) else header_count_placeholder.

Lemma close_shape : forall o seekable s,
  winv o s -> close seekable s = ivf_header o (count_field seekable s) ++ records (w_log s).
Proof.
  intros o seekable s (Hout & _ & _). unfold close, count_field.
  destruct seekable; [| exact Hout].
  rewrite Hout. apply patch_header.
Qed.

(* ---------- reader over a written file ---------- *)

Definition opts_ok (o : opts) : Prop :=
  o_width o < 65536 /\ o_height o < 65536 /\
  o_num o < 4294967296 /\ o_den o < 4294967296 /\ o_num o <> 0 /\ o_den o <> 0.

Definition header_read (o : opts) (c : N) : fhdr :=
  mkFhdr (fourcc (o_codec o)) (o_width o) (o_height o) (o_den o) (o_num o) c 32 0.

Lemma parse_header_written : forall o c rest,
  opts_ok o -> c < 4294967296 ->
  parse_header (ivf_header o c ++ rest) = Ok (header_read o c, rest).
Proof.
  intros o c rest (Hw & Hh & Hn & Hd & Hn0 & Hd0) Hc.
  unfold parse_header.
  replace 32 with (N.of_nat (length (ivf_header o c))) by (rewrite header_length; reflexivity).
  rewrite read_full_app.
  unfold ivf_header, sig_dkif, header_read.
  rewrite !le_bytes_2, !le_bytes_4.
  destruct (o_codec o); cbn [fourcc app sub firstn skipn Nat.sub].
  all: rewrite ?le_val_2, ?le_val_4 by (assumption || reflexivity).
  all: cbn [h_den h_num].
  all: apply N.eqb_neq in Hn0, Hd0; rewrite Hn0, Hd0; reflexivity.
Qed.

Definition read_back (o : opts) (f : frec) : rframe :=
  mkRframe (f_bytes f) (N.of_nat (length (f_bytes f))) (u64 (f_pts f * o_den o) / o_num o).

Lemma sub_app_l : forall (a b : list N) j, length a = j -> sub (a ++ b) 0 j = a.
Proof.
  intros a b j <-. unfold sub. cbn [skipn]. rewrite Nat.sub_0_r. apply firstn_app_exact.
Qed.
Lemma sub_app_r : forall (a b : list N) i j,
  length a = i -> length b = (j - i)%nat -> sub (a ++ b) i j = b.
Proof.
  intros a b i j <- Hb. unfold sub. rewrite skipn_app_exact, <- Hb. apply firstn_all.
Qed.

Lemma frame_header_length : forall len pts, length (frame_header len pts) = 12%nat.
Proof. intros. unfold frame_header. rewrite app_length, !le_bytes_length. reflexivity. Qed.

Lemma parse_frame_written : forall o f rest,
  o_num o <> 0 ->
  N.of_nat (length (f_bytes f)) < 4294967296 -> f_pts f < 2 ^ 64 ->
  parse_next_frame (o_den o) (o_num o) (frame_record f ++ rest) = Ok (read_back o f, rest).
Proof.
  intros o f rest Hn Hlen Hpts.
  unfold parse_next_frame, frame_record. rewrite <- app_assoc.
  replace 12 with (N.of_nat (length (frame_header (N.of_nat (length (f_bytes f))) (f_pts f))))
    by (rewrite frame_header_length; reflexivity).
  rewrite read_full_app.
  unfold frame_header.
  rewrite !sub_app_l by apply le_bytes_length.
  rewrite !sub_app_r by (rewrite le_bytes_length; reflexivity).
  assert (Hu : u32 (N.of_nat (length (f_bytes f))) = N.of_nat (length (f_bytes f))).
  { unfold u32. apply N.mod_small. exact Hlen. }
  rewrite !Hu. rewrite !(le_roundtrip 4) by exact Hlen. rewrite !(le_roundtrip 8) by exact Hpts.
  unfold pts_to_timestamp. apply N.eqb_neq in Hn. rewrite Hn.
  rewrite read_full_app. reflexivity.
Qed.

Lemma read_frames_written : forall o fs fuel,
  o_num o <> 0 ->
  Forall (fun f => N.of_nat (length (f_bytes f)) < 4294967296) fs ->
  Forall (fun f => f_pts f < 2 ^ 64) fs ->
  (length fs < fuel)%nat ->
  read_frames fuel (o_den o) (o_num o) (records fs) = (map (read_back o) fs, "EOF"%string).
Proof.
  intros o fs. induction fs as [|f fs IH]; intros fuel Hn Hl Hp Hfuel.
  - destruct fuel as [|fuel]; [inversion Hfuel|]. reflexivity.
  - destruct fuel as [|fuel]; [inversion Hfuel|].
    inversion Hl as [|? ? Hl1 Hl2]; subst. inversion Hp as [|? ? Hp1 Hp2]; subst.
    cbn [read_frames records flat_map]. fold (records fs).
    rewrite parse_frame_written by assumption.
    rewrite IH; [reflexivity | assumption | assumption | assumption | cbn [length] in Hfuel; lia].
Qed.

Lemma records_length : forall fs, (length fs <= length (records fs))%nat.
Proof.
  induction fs as [|f fs IH]; [apply Nat.le_refl|].
  cbn [records flat_map length]. fold (records fs).
  rewrite app_length. unfold frame_record. rewrite app_length, frame_header_length. lia.
Qed.

Lemma read_file_written : forall o c fs,
  opts_ok o -> c < 4294967296 ->
  Forall (fun f => N.of_nat (length (f_bytes f)) < 4294967296) fs ->
  Forall (fun f => f_pts f < 2 ^ 64) fs ->
  read_file (ivf_header o c ++ records fs)
  = Ok (header_read o c, map (read_back o) fs, "EOF"%string).
Proof.
  intros o c fs Hok Hc Hl Hp. unfold read_file.
  rewrite parse_header_written by assumption.
  cbn [header_read h_den h_num].
  rewrite read_frames_written; [reflexivity | apply Hok | assumption | assumption |].
  pose proof (records_length fs). lia.
Qed.

Lemma u32_lt : forall x, u32 x < 4294967296.
Proof. intros x. unfold u32. apply N.mod_lt. discriminate. Qed.

(* headline: whatever the packet stream, the file reads back as the frames
   handed to writeFrame *)
Lemma roundtrip : forall o ps seekable,
  opts_ok o ->
  Forall (fun f => N.of_nat (length (f_bytes f)) < 4294967296) (frames_of o ps) ->
  read_file (written o ps seekable)
  = Ok (header_read o (count_field seekable (fst (run_packets o (init_state o) ps))),
        map (read_back o) (frames_of o ps), "EOF"%string).
Proof.
  intros o ps seekable Hok Hl. unfold written, frames_of in *.
  pose proof (run_packets_inv o ps (init_state o) (winv_init o)) as Hinv.
  rewrite (close_shape o seekable _ Hinv).
  apply read_file_written; try assumption.
  - unfold count_field. destruct seekable; [apply u32_lt | reflexivity].
  - apply Hinv.
Qed.

Lemma u32_u64 : forall n, u32 (u64 n) = u32 n.
Proof.
  intros n. unfold u32, u64.
  change 18446744073709551616 with (4294967296 * 4294967296).
  rewrite N.mod_mul_r by discriminate.
  rewrite N.mul_comm, N.mod_add by discriminate. apply N.mod_mod. discriminate.
Qed.

Lemma count_field_frames : forall o ps seekable,
  count_field seekable (fst (run_packets o (init_state o) ps))
  = if seekable then N.of_nat (length (frames_of o ps)) mod 4294967296 else header_count_placeholder.
Proof.
  intros o ps seekable. unfold count_field, frames_of.
  destruct seekable; [| reflexivity].
  destruct (run_packets_inv o ps (init_state o) (winv_init o)) as (_ & Hc & _).
  rewrite Hc. apply u32_u64.
Qed.

Lemma roundtrip_header : forall o ps seekable,
  opts_ok o ->
  Forall (fun f => N.of_nat (length (f_bytes f)) < 4294967296) (frames_of o ps) ->
  read_file (written o ps seekable)
  = Ok (header_read o (if seekable then N.of_nat (length (frames_of o ps)) mod 4294967296
                       else header_count_placeholder),
        map (read_back o) (frames_of o ps), "EOF"%string).
Proof.
  intros o ps seekable Hok Hl. rewrite roundtrip by assumption.
  rewrite count_field_frames. reflexivity.
Qed.
