(* C32: lemmas and proofs about Model/Ivf.v *)
From Coq Require Import String List NArith Bool Lia ZifyBool ZifyNat ZifyN.
Import ListNotations.
From Verif Require Import Common.V Common.Base Model.Ivf.
Open Scope N_scope.

(* ---------- little-endian encode / decode ---------- *)

Lemma le_bytes_length : forall w n, length (le_bytes w n) = w.
Proof. induction w as [|w IH]; intros n; cbn [le_bytes length]; [reflexivity | now rewrite IH]. Qed.

Lemma le_roundtrip : forall w n, n < 2 ^ (8 * N.of_nat w) -> le_val (le_bytes w n) = n.
Proof.
  induction w as [|w IH]; intros n Hn.
  - cbn in *. lia.
  - cbn [le_bytes le_val].
    rewrite IH.
    + pose proof (N.div_mod n 256). lia.
    + replace (8 * N.of_nat (S w)) with (8 + 8 * N.of_nat w) in Hn by lia.
      rewrite N.pow_add_r in Hn. change (2 ^ 8) with 256 in Hn.
      apply N.div_lt_upper_bound; lia.
Qed.
