(* C32: lemmas and proofs about Model/Ivf.v *)
From Coq Require Import String List Arith NArith Bool Lia ZifyBool ZifyNat ZifyN.
Import ListNotations.
From Verif Require Import Common.V Common.Base Model.Ivf.
Open Scope N_scope.

(* ---------- little-endian encode / decode ---------- *)

Lemma le_bytes_length : forall w n, length (le_bytes w n) = w.
Proof. induction w as [|w IH]; intros n; cbn [le_bytes length]; [reflexivity | now rewrite IH]. Qed.

Lemma le_roundtrip : forall w n, n < 2 ^ (8 * N.of_nat w) -> le_val (le_bytes w n) = n.
Proof.
  induction w as [|w IH]; intros n Hn.
  - cbn in *. lia.
  - cbn [le_bytes le_val].
    rewrite IH.
    + pose proof (N.div_mod n 256). lia.
    + replace (8 * N.of_nat (S w)) with (8 + 8 * N.of_nat w) in Hn by lia.
      rewrite N.pow_add_r in Hn. change (2 ^ 8) with 256 in Hn.
      apply N.div_lt_upper_bound; lia.
Qed.

Lemma le_bytes_2 : forall x, le_bytes 2 x = [x mod 256; (x / 256) mod 256].
Proof. reflexivity. Qed.
Lemma le_bytes_4 : forall x,
  le_bytes 4 x = [x mod 256; (x / 256) mod 256; (x / 256 / 256) mod 256; (x / 256 / 256 / 256) mod 256].
Proof. reflexivity. Qed.

Lemma le_val_2 : forall x, x < 65536 -> le_val [x mod 256; (x / 256) mod 256] = x.
Proof. intros x H. rewrite <- le_bytes_2. apply le_roundtrip. exact H. Qed.
Lemma le_val_4 : forall x, x < 4294967296 ->
  le_val [x mod 256; (x / 256) mod 256; (x / 256 / 256) mod 256; (x / 256 / 256 / 256) mod 256] = x.
Proof. intros x H. rewrite <- le_bytes_4. apply le_roundtrip. exact H. Qed.

(* ---------- list slicing ---------- *)

Lemma firstn_app_exact : forall (A : Type) (a b : list A), firstn (length a) (a ++ b) = a.
Proof.
  intros A a b. rewrite firstn_app, Nat.sub_diag, firstn_all. cbn. apply app_nil_r.
Qed.
Lemma skipn_app_exact : forall (A : Type) (a b : list A), skipn (length a) (a ++ b) = b.
Proof.
  intros A a b. rewrite skipn_app, Nat.sub_diag, skipn_all. reflexivity.
Qed.

Lemma read_full_app : forall a rest,
  read_full (N.of_nat (length a)) (a ++ rest) = RdOk a rest.
Proof.
  intros a rest. unfold read_full.
  rewrite app_length.
  replace (N.of_nat (length a) <=? N.of_nat (length a + length rest)) with true
    by (symmetry; apply N.leb_le; lia).
  rewrite Nnat.Nat2N.id, firstn_app_exact, skipn_app_exact. reflexivity.
Qed.

(* ---------- the file as header ++ frame records ---------- *)

Definition frame_record (f : frec) : list N :=
  frame_header (N.of_nat (length (f_bytes f))) (f_pts f) ++ f_bytes f.
Definition records (fs : list frec) : list N := flat_map frame_record fs.

Lemma records_app : forall a b, records (a ++ b) = records a ++ records b.
Proof. intros a b. unfold records. apply flat_map_app. Qed.

(* invariant of the writer: everything written so far is the header followed
   by one record per logged writeFrame call, and count counts them (mod 2^64) *)
Definition winv (o : opts) (s : wst) : Prop :=
  w_out s = ivf_header o header_count_placeholder ++ records (w_log s) /\
  w_count s = u64 (N.of_nat (length (w_log s))) /\
  Forall (fun f => f_pts f < 2 ^ 64) (w_log s).

Lemma winv_init : forall o, winv o (init_state o).
Proof.
  intros o. unfold winv, init_state, records. cbn [w_out w_log w_count flat_map length].
  split; [symmetry; apply app_nil_r|]. split; [reflexivity | constructor].
Qed.

Lemma u64_lt : forall x, u64 x < 2 ^ 64.
Proof. intros x. unfold u64. apply N.mod_lt. discriminate. Qed.

Lemma u64_succ : forall n, u64 (u64 n + 1) = u64 (n + 1).
Proof. intros n. unfold u64. rewrite N.add_mod_idemp_l by discriminate. reflexivity. Qed.

Lemma write_frame_inv : forall o s frame t s' st,
  winv o s -> t < 2 ^ 64 ->
  write_frame o s frame t = (s', st) -> winv o s'.
Proof.
  intros o s frame t s' st (Hout & Hcnt & Hpts) Ht H.
  unfold write_frame in H.
  destruct (o_direct o).
  - injection H as <- <-. unfold winv. cbn [w_out w_log w_count].
    rewrite records_app, Hout, <- app_assoc.
    repeat split.
    + do 2 f_equal. unfold records. cbn [flat_map]. rewrite app_nil_r. reflexivity.
    + rewrite Hcnt, app_length. cbn [length]. rewrite u64_succ. f_equal. lia.
    + apply Forall_app. split; [exact Hpts|]. constructor; [exact Ht | constructor].
  - unfold timestamp_to_pts in H. destruct (o_den o =? 0) eqn:Ed.
    + injection H as <- <-. unfold winv. auto.
    + injection H as <- <-. unfold winv. cbn [w_out w_log w_count].
      rewrite records_app, Hout, <- app_assoc.
      repeat split.
      * do 2 f_equal. unfold records. cbn [flat_map]. rewrite app_nil_r. reflexivity.
      * rewrite Hcnt, app_length. cbn [length]. rewrite u64_succ. f_equal. lia.
      * apply Forall_app. split; [exact Hpts|]. constructor; [| constructor].
        cbn [f_pts]. apply N.eqb_neq in Ed.
        eapply N.le_lt_trans; [apply N.div_le_upper_bound with (q := u64 (t * o_num o)) | apply u64_lt].
        -- exact Ed.
        -- nia.
Qed.

(* ---------- one WriteRTP call, by cases ---------- *)

Definition av1_is_key (p : pkt) : bool :=
  p_flag p ||
  match p_payload p with
  | [] => false
  | b0 :: _ => N.shiftr (N.land b0 120) 3 =? obu_sequence_header
  end.

(* the packet's payload is appended to currentFrame *)
Definition accepts (o : opts) (s : wst) (p : pkt) : bool :=
  negb (p_err p) &&
  match o_codec o with
  | VP8 => match p_payload p with
           | [] => false
           | b0 :: _ => (w_seen s || (N.land b0 1 =? 0)) && (negb (is_nil (w_cur s)) || p_start p)
           end
  | VP9 => (w_seen s || negb (p_flag p)) && (negb (is_nil (w_cur s)) || p_start p)
  | AV1 => w_seen s || av1_is_key p
  end.

Definition first_upd (s : wst) (p : pkt) : wst :=
  if w_count s =? 0 then set_first s (p_ts p) else s.

Definition time_of (o : opts) (s0 : wst) (p : pkt) : N :=
  let d := subw 4294967296 (p_ts p) (w_first s0) in
  if o_direct o then d else u64 (1000 * d) / clock_rate.

Definition prefix_of (c : codec) : list N :=
  match c with AV1 => av1_delimiter | _ => [] end.

Inductive step_case (o : opts) (s : wst) (p : pkt) (s' : wst) (st : status) : Prop :=
| SC_empty : p_raw_empty p = true -> s' = s -> st = SOk -> step_case o s p s' st
| SC_ignored : p_raw_empty p = false -> accepts o (first_upd s p) p = false ->
    s' = first_upd s p -> st <> SPanic -> step_case o s p s' st
| SC_kept : p_raw_empty p = false -> accepts o (first_upd s p) p = true ->
    s' = accept (first_upd s p) p -> st = SOk ->
    (p_marker p = false \/ (o_codec o <> AV1 /\ w_cur s' = [])) -> step_case o s p s' st
| SC_flushed : p_raw_empty p = false -> accepts o (first_upd s p) p = true ->
    p_marker p = true ->
    (o_codec o <> AV1 -> w_cur (accept (first_upd s p) p) <> []) ->
    write_frame o (accept (first_upd s p) p)
                (prefix_of (o_codec o) ++ w_cur (accept (first_upd s p) p))
                (time_of o (first_upd s p) p) = (s', st) ->
    step_case o s p s' st.

Lemma is_nil_true : forall l, is_nil l = true -> l = [].
Proof. intros [|x l] H; [reflexivity | discriminate]. Qed.
Lemma is_nil_false : forall l, is_nil l = false -> l <> [].
Proof. intros [|x l] H; [discriminate | discriminate]. Qed.

Lemma write_rtp_cases : forall o s p s' st,
  write_rtp o s p = (s', st) -> step_case o s p s' st.
Proof.
  intros o s p s' st H. unfold write_rtp in H.
  destruct (p_raw_empty p) eqn:Hre.
  { injection H as <- <-. apply SC_empty; auto. }
  fold (first_upd s p) in H.
  fold (time_of o (first_upd s p) p) in H.
  destruct (o_codec o) eqn:Hc.
  - (* VP8 *)
    unfold write_vp8 in H.
    destruct (p_err p) eqn:He.
    { injection H as <- <-. apply SC_ignored; auto; [unfold accepts; rewrite He; reflexivity | discriminate]. }
    destruct (p_payload p) as [|b0 rest] eqn:Hp.
    { injection H as <- <-. apply SC_ignored; auto; [unfold accepts; rewrite He, Hc, Hp; reflexivity | discriminate]. }
    destruct (negb (w_seen (first_upd s p)) && negb (N.land b0 1 =? 0)) eqn:Hg1.
    { injection H as <- <-. apply SC_ignored; auto; [|discriminate].
      unfold accepts. rewrite He, Hc, Hp. cbn [negb andb].
      destruct (w_seen (first_upd s p)), (N.land b0 1 =? 0); cbn in *; try discriminate; reflexivity. }
    destruct (is_nil (w_cur (first_upd s p)) && negb (p_start p)) eqn:Hg2.
    { injection H as <- <-. apply SC_ignored; auto; [|discriminate].
      unfold accepts. rewrite He, Hc, Hp. cbn [negb andb].
      destruct (is_nil (w_cur (first_upd s p))), (p_start p); cbn in *; try discriminate.
      apply andb_false_r. }
    assert (Hacc : accepts o (first_upd s p) p = true).
    { unfold accepts. rewrite He, Hc, Hp. cbn [negb andb].
      destruct (w_seen (first_upd s p)), (N.land b0 1 =? 0), (is_nil (w_cur (first_upd s p))), (p_start p); cbn in *; try discriminate; reflexivity. }
    destruct (negb (p_marker p)) eqn:Hm.
    { injection H as <- <-. apply SC_kept; auto. left. now destruct (p_marker p). }
    destruct (is_nil (w_cur (accept (first_upd s p) p))) eqn:Hn.
    { injection H as <- <-. apply SC_kept; auto. right. split; [congruence|]. now apply is_nil_true. }
    apply SC_flushed; auto.
    + now destruct (p_marker p).
    + intros _. now apply is_nil_false.
    + rewrite Hc. exact H.
  - (* VP9 *)
    unfold write_vp9 in H.
    destruct (p_err p) eqn:He.
    { injection H as <- <-. apply SC_ignored; auto; [unfold accepts; rewrite He; reflexivity | discriminate]. }
    destruct (negb (w_seen (first_upd s p)) && p_flag p) eqn:Hg1.
    { injection H as <- <-. apply SC_ignored; auto; [|discriminate].
      unfold accepts. rewrite He, Hc. cbn [negb andb].
      destruct (w_seen (first_upd s p)), (p_flag p); cbn in *; try discriminate; reflexivity. }
    destruct (is_nil (w_cur (first_upd s p)) && negb (p_start p)) eqn:Hg2.
    { injection H as <- <-. apply SC_ignored; auto; [|discriminate].
      unfold accepts. rewrite He, Hc. cbn [negb andb].
      destruct (is_nil (w_cur (first_upd s p))), (p_start p); cbn in *; try discriminate.
      apply andb_false_r. }
    assert (Hacc : accepts o (first_upd s p) p = true).
    { unfold accepts. rewrite He, Hc. cbn [negb andb].
      destruct (w_seen (first_upd s p)), (p_flag p), (is_nil (w_cur (first_upd s p))), (p_start p); cbn in *; try discriminate; reflexivity. }
    destruct (negb (p_marker p)) eqn:Hm.
    { injection H as <- <-. apply SC_kept; auto. left. now destruct (p_marker p). }
    destruct (is_nil (w_cur (accept (first_upd s p) p))) eqn:Hn.
    { injection H as <- <-. apply SC_kept; auto. right. split; [congruence|]. now apply is_nil_true. }
    apply SC_flushed; auto.
    + now destruct (p_marker p).
    + intros _. now apply is_nil_false.
    + rewrite Hc. exact H.
  - (* AV1 *)
    unfold write_av1 in H. fold (av1_is_key p) in H.
    destruct (p_err p) eqn:He.
    { injection H as <- <-. apply SC_ignored; auto; [unfold accepts; rewrite He; reflexivity | discriminate]. }
    destruct (negb (w_seen (first_upd s p)) && negb (av1_is_key p)) eqn:Hg1.
    { injection H as <- <-. apply SC_ignored; auto; [|discriminate].
      unfold accepts. rewrite He, Hc. cbn [negb andb].
      destruct (w_seen (first_upd s p)), (av1_is_key p); cbn in *; try discriminate; reflexivity. }
    assert (Hacc : accepts o (first_upd s p) p = true).
    { unfold accepts. rewrite He, Hc. cbn [negb andb].
      destruct (w_seen (first_upd s p)), (av1_is_key p); cbn in *; try discriminate; reflexivity. }
    destruct (negb (p_marker p)) eqn:Hm.
    { injection H as <- <-. apply SC_kept; auto. left. now destruct (p_marker p). }
    apply SC_flushed; auto.
    + now destruct (p_marker p).
    + rewrite Hc. exact H.
Qed.

(* ---------- the invariant along a run ---------- *)

Lemma subw_lt : forall m a b, m <> 0 -> subw m a b < m.
Proof. intros m a b Hm. unfold subw. apply N.mod_lt. exact Hm. Qed.

Lemma time_of_lt : forall o s p, time_of o s p < 2 ^ 64.
Proof.
  intros o s p. unfold time_of.
  pose proof (subw_lt 4294967296 (p_ts p) (w_first s)) as Hd.
  destruct (o_direct o).
  - eapply N.lt_trans; [apply Hd; discriminate|]. reflexivity.
  - eapply N.le_lt_trans; [| apply (u64_lt (1000 * subw 4294967296 (p_ts p) (w_first s)))].
    apply N.div_le_upper_bound; [discriminate|]. unfold clock_rate. nia.
Qed.

Lemma winv_first_upd : forall o s p, winv o s -> winv o (first_upd s p).
Proof. intros o s p H. unfold first_upd. destruct (w_count s =? 0); exact H. Qed.

Lemma winv_accept : forall o s p, winv o s -> winv o (accept s p).
Proof. intros o s p H. exact H. Qed.

Lemma write_rtp_inv : forall o s p s' st,
  winv o s -> write_rtp o s p = (s', st) -> winv o s'.
Proof.
  intros o s p s' st Hinv H. apply write_rtp_cases in H.
  destruct H as [_ -> _ | _ _ -> _ | _ _ -> _ _ | _ _ _ _ Hw].
  - exact Hinv.
  - now apply winv_first_upd.
  - now apply winv_accept, winv_first_upd.
  - eapply write_frame_inv; [| apply time_of_lt | exact Hw].
    now apply winv_accept, winv_first_upd.
Qed.

Lemma run_packets_inv : forall o ps s,
  winv o s -> winv o (fst (run_packets o s ps)).
Proof.
  intros o ps. induction ps as [|p rest IH]; intros s Hinv; cbn [run_packets fst].
  - exact Hinv.
  - destruct (write_rtp o s p) as [s1 st] eqn:Hw.
    pose proof (write_rtp_inv o s p s1 st Hinv Hw) as H1.
    destruct st.
    + specialize (IH s1 H1). destruct (run_packets o s1 rest). exact IH.
    + specialize (IH s1 H1). destruct (run_packets o s1 rest). exact IH.
    + exact H1.
Qed.

(* no panic when the denominator is non-zero (NewWith refuses zero) *)
Lemma write_rtp_no_panic : forall o s p,
  o_den o <> 0 -> snd (write_rtp o s p) <> SPanic.
Proof.
  intros o s p Hden. destruct (write_rtp o s p) as [s' st] eqn:H. cbn [snd].
  apply write_rtp_cases in H.
  destruct H as [_ _ -> | _ _ _ Hst | _ _ _ -> _ | _ _ _ _ Hw]; try discriminate; try exact Hst.
  unfold write_frame, timestamp_to_pts in Hw.
  apply N.eqb_neq in Hden. rewrite Hden in Hw.
  destruct (o_direct o); injection Hw as _ <-; discriminate.
Qed.

Lemma run_packets_no_panic : forall o ps s,
  o_den o <> 0 -> ~ In SPanic (snd (run_packets o s ps)).
Proof.
  intros o ps. induction ps as [|p rest IH]; intros s Hden; cbn [run_packets snd].
  - intros [].
  - pose proof (write_rtp_no_panic o s p Hden) as Hnp.
    destruct (write_rtp o s p) as [s1 st] eqn:Hw. cbn [snd] in Hnp.
    destruct st; try congruence.
    + specialize (IH s1 Hden). destruct (run_packets o s1 rest) as [s2 sts]. cbn [snd] in *.
      intros [E | Hin]; [discriminate | auto].
    + specialize (IH s1 Hden). destruct (run_packets o s1 rest) as [s2 sts]. cbn [snd] in *.
      intros [E | Hin]; [discriminate | auto].
Qed.

(* ---------- Close ---------- *)

Definition header_pre (o : opts) : list N :=
  sig_dkif ++ le_bytes 2 0 ++ le_bytes 2 32 ++ fourcc (o_codec o)
  ++ le_bytes 2 (o_width o) ++ le_bytes 2 (o_height o)
  ++ le_bytes 4 (o_den o) ++ le_bytes 4 (o_num o).

Lemma header_split : forall o c,
  ivf_header o c = header_pre o ++ le_bytes 4 c ++ le_bytes 4 0.
Proof.
  intros o c. unfold ivf_header, header_pre. repeat rewrite <- app_assoc. reflexivity.
Qed.

Lemma fourcc_length : forall c, length (fourcc c) = 4%nat.
Proof. intros []; reflexivity. Qed.

Lemma header_pre_length : forall o, length (header_pre o) = 24%nat.
Proof.
  intros o. unfold header_pre.
  repeat rewrite app_length. repeat rewrite le_bytes_length. rewrite fourcc_length. reflexivity.
Qed.

Lemma header_length : forall o c, length (ivf_header o c) = 32%nat.
Proof.
  intros o c. rewrite header_split. repeat rewrite app_length.
  rewrite header_pre_length. repeat rewrite le_bytes_length. reflexivity.
Qed.

Lemma patch_header : forall o c c' rest,
  patch (ivf_header o c ++ rest) 24 (le_bytes 4 c') = ivf_header o c' ++ rest.
Proof.
  intros o c c' rest. unfold patch. rewrite le_bytes_length.
  rewrite !header_split. repeat rewrite <- app_assoc.
  rewrite <- (header_pre_length o) at 1. rewrite firstn_app_exact.
  f_equal. f_equal.
  replace (24 + 4)%nat with (length (header_pre o ++ le_bytes 4 c))
    by (rewrite app_length, header_pre_length, le_bytes_length; reflexivity).
  rewrite (app_assoc (header_pre o)). rewrite skipn_app_exact. reflexivity.
Qed.

Definition count_field (seekable : bool) (s : wst) : N :=
  if seekable then u32 (w_count s) else header_count_placeholder.

Lemma close_shape : forall o seekable s,
  winv o s -> close seekable s = ivf_header o (count_field seekable s) ++ records (w_log s).
Proof.
  intros o seekable s (Hout & _ & _). unfold close, count_field.
  destruct seekable; [| exact Hout].
  rewrite Hout. apply patch_header.
Qed.

(* ---------- reader over a written file ---------- *)

Definition opts_ok (o : opts) : Prop :=
  o_width o < 65536 /\ o_height o < 65536 /\
  o_num o < 4294967296 /\ o_den o < 4294967296 /\ o_num o <> 0 /\ o_den o <> 0.

Definition header_read (o : opts) (c : N) : fhdr :=
  mkFhdr (fourcc (o_codec o)) (o_width o) (o_height o) (o_den o) (o_num o) c 32 0.

Lemma parse_header_written : forall o c rest,
  opts_ok o -> c < 4294967296 ->
  parse_header (ivf_header o c ++ rest) = Ok (header_read o c, rest).
Proof.
  intros o c rest (Hw & Hh & Hn & Hd & Hn0 & Hd0) Hc.
  unfold parse_header.
  replace 32 with (N.of_nat (length (ivf_header o c))) by (rewrite header_length; reflexivity).
  rewrite read_full_app.
  unfold ivf_header, sig_dkif, header_read.
  rewrite !le_bytes_2, !le_bytes_4.
  destruct (o_codec o); cbn [fourcc app sub firstn skipn Nat.sub].
  all: rewrite ?le_val_2, ?le_val_4 by (assumption || reflexivity).
  all: cbn [h_den h_num].
  all: apply N.eqb_neq in Hn0, Hd0; rewrite Hn0, Hd0; reflexivity.
Qed.

Definition read_back (o : opts) (f : frec) : rframe :=
  mkRframe (f_bytes f) (N.of_nat (length (f_bytes f))) (u64 (f_pts f * o_den o) / o_num o).

Lemma sub_app_l : forall (a b : list N) j, length a = j -> sub (a ++ b) 0 j = a.
Proof.
  intros a b j <-. unfold sub. cbn [skipn]. rewrite Nat.sub_0_r. apply firstn_app_exact.
Qed.
Lemma sub_app_r : forall (a b : list N) i j,
  length a = i -> length b = (j - i)%nat -> sub (a ++ b) i j = b.
Proof.
  intros a b i j <- Hb. unfold sub. rewrite skipn_app_exact, <- Hb. apply firstn_all.
Qed.

Lemma frame_header_length : forall len pts, length (frame_header len pts) = 12%nat.
Proof. intros. unfold frame_header. rewrite app_length, !le_bytes_length. reflexivity. Qed.

Lemma parse_frame_written : forall o f rest,
  o_num o <> 0 ->
  N.of_nat (length (f_bytes f)) < 4294967296 -> f_pts f < 2 ^ 64 ->
  parse_next_frame (o_den o) (o_num o) (frame_record f ++ rest) = Ok (read_back o f, rest).
Proof.
  intros o f rest Hn Hlen Hpts.
  unfold parse_next_frame, frame_record. rewrite <- app_assoc.
  replace 12 with (N.of_nat (length (frame_header (N.of_nat (length (f_bytes f))) (f_pts f))))
    by (rewrite frame_header_length; reflexivity).
  rewrite read_full_app.
  unfold frame_header.
  rewrite !sub_app_l by apply le_bytes_length.
  rewrite !sub_app_r by (rewrite le_bytes_length; reflexivity).
  assert (Hu : u32 (N.of_nat (length (f_bytes f))) = N.of_nat (length (f_bytes f))).
  { unfold u32. apply N.mod_small. exact Hlen. }
  rewrite !Hu. rewrite !(le_roundtrip 4) by exact Hlen. rewrite !(le_roundtrip 8) by exact Hpts.
  unfold pts_to_timestamp. apply N.eqb_neq in Hn. rewrite Hn.
  rewrite read_full_app. reflexivity.
Qed.

Lemma read_frames_written : forall o fs fuel,
  o_num o <> 0 ->
  Forall (fun f => N.of_nat (length (f_bytes f)) < 4294967296) fs ->
  Forall (fun f => f_pts f < 2 ^ 64) fs ->
  (length fs < fuel)%nat ->
  read_frames fuel (o_den o) (o_num o) (records fs) = (map (read_back o) fs, "EOF"%string).
Proof.
  intros o fs. induction fs as [|f fs IH]; intros fuel Hn Hl Hp Hfuel.
  - destruct fuel as [|fuel]; [inversion Hfuel|]. reflexivity.
  - destruct fuel as [|fuel]; [inversion Hfuel|].
    inversion Hl as [|? ? Hl1 Hl2]; subst. inversion Hp as [|? ? Hp1 Hp2]; subst.
    cbn [read_frames records flat_map]. fold (records fs).
    rewrite parse_frame_written by assumption.
    rewrite IH; [reflexivity | assumption | assumption | assumption | cbn [length] in Hfuel; lia].
Qed.

Lemma records_length : forall fs, (length fs <= length (records fs))%nat.
Proof.
  induction fs as [|f fs IH]; [apply Nat.le_refl|].
  cbn [records flat_map length]. fold (records fs).
  rewrite app_length. unfold frame_record. rewrite app_length, frame_header_length. lia.
Qed.

Lemma read_file_written : forall o c fs,
  opts_ok o -> c < 4294967296 ->
  Forall (fun f => N.of_nat (length (f_bytes f)) < 4294967296) fs ->
  Forall (fun f => f_pts f < 2 ^ 64) fs ->
  read_file (ivf_header o c ++ records fs)
  = Ok (header_read o c, map (read_back o) fs, "EOF"%string).
Proof.
  intros o c fs Hok Hc Hl Hp. unfold read_file.
  rewrite parse_header_written by assumption.
  cbn [header_read h_den h_num].
  rewrite read_frames_written; [reflexivity | apply Hok | assumption | assumption |].
  pose proof (records_length fs). lia.
Qed.

Lemma u32_lt : forall x, u32 x < 4294967296.
Proof. intros x. unfold u32. apply N.mod_lt. discriminate. Qed.

(* headline: whatever the packet stream, the file reads back as the frames
   handed to writeFrame *)
Lemma roundtrip : forall o ps seekable,
  opts_ok o ->
  Forall (fun f => N.of_nat (length (f_bytes f)) < 4294967296) (frames_of o ps) ->
  read_file (written o ps seekable)
  = Ok (header_read o (count_field seekable (fst (run_packets o (init_state o) ps))),
        map (read_back o) (frames_of o ps), "EOF"%string).
Proof.
  intros o ps seekable Hok Hl. unfold written, frames_of in *.
  pose proof (run_packets_inv o ps (init_state o) (winv_init o)) as Hinv.
  rewrite (close_shape o seekable _ Hinv).
  apply read_file_written; try assumption.
  - unfold count_field. destruct seekable; [apply u32_lt | reflexivity].
  - apply Hinv.
Qed.

Lemma u32_u64 : forall n, u32 (u64 n) = u32 n.
Proof.
  intros n. unfold u32, u64.
  change 18446744073709551616 with (4294967296 * 4294967296).
  rewrite N.mod_mul_r by discriminate.
  rewrite N.mul_comm, N.mod_add by discriminate. apply N.mod_mod. discriminate.
Qed.

Lemma count_field_frames : forall o ps seekable,
  count_field seekable (fst (run_packets o (init_state o) ps))
  = if seekable then N.of_nat (length (frames_of o ps)) mod 4294967296 else header_count_placeholder.
Proof.
  intros o ps seekable. unfold count_field, frames_of.
  destruct seekable; [| reflexivity].
  destruct (run_packets_inv o ps (init_state o) (winv_init o)) as (_ & Hc & _).
  rewrite Hc. apply u32_u64.
Qed.

Lemma roundtrip_header : forall o ps seekable,
  opts_ok o ->
  Forall (fun f => N.of_nat (length (f_bytes f)) < 4294967296) (frames_of o ps) ->
  read_file (written o ps seekable)
  = Ok (header_read o (if seekable then N.of_nat (length (frames_of o ps)) mod 4294967296
                       else header_count_placeholder),
        map (read_back o) (frames_of o ps), "EOF"%string).
Proof.
  intros o ps seekable Hok Hl. rewrite roundtrip by assumption.
  rewrite count_field_frames. reflexivity.
Qed.

(* ---------- PTS ---------- *)

(* the timestamp argument of writeFrame for a packet with RTP timestamp ts when
   firstFrameTimestamp is first *)
Definition time_fn (o : opts) (ts first : N) : N :=
  let d := subw 4294967296 ts first in
  if o_direct o then d else u64 (1000 * d) / clock_rate.
(* what goes into the frame header *)
Definition pts_fn (o : opts) (t : N) : N :=
  if o_direct o then t else u64 (t * o_num o) / o_den o.

Definition frame_timed (o : opts) (first : N) (f : frec) : Prop :=
  exists a pl, f_src f = a ++ [pl] /\
               f_time f = time_fn o (p_ts pl) first /\ f_pts f = pts_fn o (f_time f).

Definition pinv (o : opts) (s : wst) : Prop :=
  w_count s = N.of_nat (length (w_log s)) /\
  Forall (frame_timed o (w_first s)) (w_log s) /\
  (forall f0 rest, w_log s = f0 :: rest -> exists a p0, f_src f0 = a ++ [p0] /\ w_first s = p_ts p0).

Lemma pinv_init : forall o, pinv o (init_state o).
Proof.
  intros o. unfold pinv, init_state. cbn [w_count w_log w_first length].
  repeat split; [constructor | intros f0 rest H; discriminate].
Qed.

Lemma pinv_first_upd : forall o s p, pinv o s -> pinv o (first_upd s p).
Proof.
  intros o s p (Hc & Hf & H0). unfold first_upd.
  destruct (w_count s =? 0) eqn:E; [| repeat split; assumption].
  apply N.eqb_eq in E. rewrite E in Hc.
  destruct (w_log s) as [|f l] eqn:Hl; [| cbn [length] in Hc; lia].
  unfold pinv, set_first. cbn [w_count w_log w_first]. rewrite Hl, E.
  repeat split; [constructor | intros f0 rest H; discriminate].
Qed.

Lemma pinv_step : forall o s p s' st,
  o_den o <> 0 -> N.of_nat (length (w_log s)) + 1 < 2 ^ 64 ->
  pinv o s -> write_rtp o s p = (s', st) ->
  pinv o s' /\ (length (w_log s') <= S (length (w_log s)))%nat.
Proof.
  intros o s p s' st Hden Hb Hinv H. apply write_rtp_cases in H.
  destruct H as [_ -> _ | _ _ -> _ | _ _ -> _ _ | _ _ _ _ Hw].
  - split; [exact Hinv | lia].
  - split; [now apply pinv_first_upd |].
    unfold first_upd. destruct (w_count s =? 0); cbn; lia.
  - split; [exact (pinv_first_upd o s p Hinv) |].
    unfold first_upd. destruct (w_count s =? 0); cbn; lia.
  - pose proof (pinv_first_upd o s p Hinv) as (Hc & Hf & H0).
    assert (Hlog : w_log (first_upd s p) = w_log s)
      by (unfold first_upd; destruct (w_count s =? 0); reflexivity).
    unfold write_frame, timestamp_to_pts in Hw.
    assert (Hpts : (if o_direct o then Some (time_of o (first_upd s p) p)
                    else if o_den o =? 0 then None
                         else Some (u64 (time_of o (first_upd s p) p * o_num o) / o_den o))
                   = Some (pts_fn o (time_of o (first_upd s p) p))).
    { unfold pts_fn. apply N.eqb_neq in Hden. rewrite Hden. destruct (o_direct o); reflexivity. }
    rewrite Hpts in Hw. injection Hw as <- <-.
    cbn [w_log w_count w_first accept]. rewrite Hlog in *.
    split; [| rewrite app_length; cbn; lia].
    unfold pinv. cbn [w_log w_count w_first accept].
    repeat split.
    + rewrite Hc, app_length. cbn [length]. unfold u64. rewrite N.mod_small by lia. lia.
    + apply Forall_app. split; [exact Hf|]. constructor; [| constructor].
      exists (w_cursrc (first_upd s p)), p. cbn [f_src f_time f_pts]. repeat split.
    + intros f0 rest Hl.
      destruct (w_log s) as [|g l] eqn:Hls.
      * cbn [app] in Hl. injection Hl as <- <-.
        exists (w_cursrc (first_upd s p)), p. cbn [f_src]. split; [reflexivity|].
        unfold first_upd. cbn [length] in Hc.
        unfold first_upd in Hc.
        destruct (w_count s =? 0) eqn:E; [reflexivity|].
        apply N.eqb_neq in E. exfalso. apply E. rewrite Hc. reflexivity.
      * cbn [app] in Hl. injection Hl as <- <-. apply (H0 g l). reflexivity.
Qed.

Lemma pinv_run : forall o ps s,
  o_den o <> 0 -> N.of_nat (length (w_log s) + length ps) < 2 ^ 64 ->
  pinv o s ->
  pinv o (fst (run_packets o s ps)).
Proof.
  intros o ps. induction ps as [|p rest IH]; intros s Hden Hb Hinv; cbn [run_packets fst].
  - exact Hinv.
  - cbn [length] in Hb.
    destruct (write_rtp o s p) as [s1 st] eqn:Hw.
    destruct (pinv_step o s p s1 st Hden ltac:(lia) Hinv Hw) as (H1 & Hlen).
    destruct st.
    + specialize (IH s1 Hden ltac:(lia) H1). destruct (run_packets o s1 rest). exact IH.
    + specialize (IH s1 Hden ltac:(lia) H1). destruct (run_packets o s1 rest). exact IH.
    + exact H1.
Qed.

Lemma pts_of_frames : forall o ps f0 rest,
  o_den o <> 0 -> N.of_nat (length ps) < 2 ^ 64 ->
  frames_of o ps = f0 :: rest ->
  exists a0 p0, f_src f0 = a0 ++ [p0] /\
                Forall (frame_timed o (p_ts p0)) (f0 :: rest).
Proof.
  intros o ps f0 rest Hden Hb Hfr. unfold frames_of in Hfr.
  destruct (pinv_run o ps (init_state o) Hden Hb (pinv_init o)) as (_ & Hf & H0).
  destruct (H0 f0 rest Hfr) as (a0 & p0 & Hsrc & Hfirst).
  exists a0, p0. split; [exact Hsrc|]. rewrite <- Hfirst, <- Hfr. exact Hf.
Qed.

(* ---------- gates ---------- *)

Lemma app_cons_snoc : forall (A : Type) (a b l : list A) (x y : A),
  a ++ x :: b = l ++ [y] ->
  (b = [] /\ a = l /\ x = y) \/ (exists b0, b = b0 ++ [y] /\ l = a ++ x :: b0).
Proof.
  intros A a b l x y H.
  destruct b as [|z b'].
  - left. apply app_inj_tail in H. destruct H; auto.
  - right. destruct (@exists_last A (z :: b') ltac:(discriminate)) as (b0 & w & Hb).
    rewrite Hb in H |- *.
    replace (a ++ x :: b0 ++ [w]) with ((a ++ x :: b0) ++ [w]) in H
      by (rewrite <- app_assoc; reflexivity).
    apply app_inj_tail in H. destruct H as [H1 H2]. subst. exists b0. auto.
Qed.

Definition effective (p : pkt) : Prop := p_raw_empty p = false /\ p_err p = false.

(* a marker on a packet that is not the last of its frame is only possible
   (VP8/VP9) while everything collected up to and including it is empty *)
Definition early_marker_ok (c : codec) (src : list pkt) : Prop :=
  forall a p b, src = a ++ p :: b -> p_marker p = true ->
                c <> AV1 /\ flat_map p_payload (a ++ [p]) = [].

Definition starts_ok (c : codec) (src : list pkt) : Prop :=
  c <> AV1 -> match src with [] => True | p :: _ => p_start p = true end.

Definition frame_ok (c : codec) (f : frec) : Prop :=
  f_bytes f = prefix_of c ++ flat_map p_payload (f_src f) /\
  Forall effective (f_src f) /\
  starts_ok c (f_src f) /\
  exists a pl, f_src f = a ++ [pl] /\ p_marker pl = true /\ early_marker_ok c a.

Definition ginv (o : opts) (s : wst) : Prop :=
  w_cur s = flat_map p_payload (w_cursrc s) /\
  Forall effective (w_cursrc s) /\
  starts_ok (o_codec o) (w_cursrc s) /\
  early_marker_ok (o_codec o) (w_cursrc s) /\
  (w_seen s = false -> w_cursrc s = [] /\ w_log s = []) /\
  Forall (frame_ok (o_codec o)) (w_log s).

Lemma ginv_init : forall o, ginv o (init_state o).
Proof.
  intros o. unfold ginv, init_state. cbn [w_cur w_cursrc w_seen w_log flat_map].
  split; [reflexivity|]. split; [constructor|]. split; [intros _; exact I|].
  split; [intros a p b H; destruct a; discriminate|].
  split; [intros _; split; reflexivity | constructor].
Qed.

Lemma ginv_first_upd : forall o s p, ginv o s -> ginv o (first_upd s p).
Proof. intros o s p H. unfold first_upd. destruct (w_count s =? 0); exact H. Qed.

Lemma accepts_effective : forall o s p, accepts o s p = true -> p_err p = false.
Proof. intros o s p H. unfold accepts in H. destruct (p_err p); [discriminate | reflexivity]. Qed.

Lemma accepts_start : forall o s p,
  accepts o s p = true -> o_codec o <> AV1 -> w_cur s = [] -> p_start p = true.
Proof.
  intros o s p H Hc Hcur. unfold accepts in H. rewrite Hcur in H. cbn [is_nil negb orb] in H.
  destruct (p_err p); [discriminate|]. cbn [negb andb] in H.
  destruct (o_codec o); [| | congruence].
  - destruct (p_payload p); [discriminate|].
    apply andb_prop in H. apply H.
  - apply andb_prop in H. apply H.
Qed.

Lemma starts_ok_snoc : forall o s p,
  ginv o s -> accepts o s p = true -> starts_ok (o_codec o) (w_cursrc s ++ [p]).
Proof.
  intros o s p (Hcur & _ & Hst & _) Hacc Hc.
  destruct (w_cursrc s) as [|q t] eqn:Hs.
  - cbn [app]. cbn [flat_map] in Hcur. eapply accepts_start; eauto.
  - cbn [app]. exact (Hst Hc).
Qed.

Lemma ginv_step : forall o s p s' st,
  o_den o <> 0 -> ginv o s -> write_rtp o s p = (s', st) -> ginv o s'.
Proof.
  intros o s p s' st Hden Hinv H. apply write_rtp_cases in H.
  destruct H as [_ -> _ | _ _ -> _ | Hre Hacc -> _ Hmk | Hre Hacc Hm Hne Hw].
  - exact Hinv.
  - now apply ginv_first_upd.
  - pose proof (ginv_first_upd o s p Hinv) as Hi.
    pose proof (starts_ok_snoc o _ p Hi Hacc) as Hso.
    destruct Hi as (Hcur & Heff & Hst & Hem & Hseen & Hlog).
    set (s0 := first_upd s p) in *.
    unfold ginv. cbn [accept w_cur w_cursrc w_seen w_log].
    split; [| split; [| split; [| split; [| split]]]].
    + rewrite flat_map_app, Hcur. cbn [flat_map]. rewrite app_nil_r. reflexivity.
    + apply Forall_app. split; [exact Heff|]. constructor; [| constructor].
      split; [exact Hre | eapply accepts_effective; eauto].
    + exact Hso.
    + intros a q b Hsplit Hq.
      symmetry in Hsplit.
      apply app_cons_snoc in Hsplit. destruct Hsplit as [(-> & -> & ->) | (b0 & -> & Hs)].
      * destruct Hmk as [Hmk | (Hc & Hnil)]; [congruence|].
        split; [exact Hc|]. cbn [accept w_cur] in Hnil.
        rewrite flat_map_app. cbn [flat_map]. rewrite app_nil_r, <- Hcur. exact Hnil.
      * exact (Hem a q b0 Hs Hq).
    + discriminate.
    + exact Hlog.
  - pose proof (ginv_first_upd o s p Hinv) as Hi.
    pose proof (starts_ok_snoc o _ p Hi Hacc) as Hso.
    destruct Hi as (Hcur & Heff & Hst & Hem & Hseen & Hlog).
    set (s0 := first_upd s p) in *.
    unfold write_frame, timestamp_to_pts in Hw.
    apply N.eqb_neq in Hden. rewrite Hden in Hw.
    assert (Hfr : frame_ok (o_codec o)
              (mkFrec (prefix_of (o_codec o) ++ w_cur (accept s0 p)) (time_of o s0 p)
                      (pts_fn o (time_of o s0 p)) (w_cursrc (accept s0 p)))).
    { unfold frame_ok. cbn [f_bytes f_src accept w_cur w_cursrc]. repeat split.
      - rewrite flat_map_app, Hcur. cbn [flat_map]. rewrite app_nil_r. reflexivity.
      - apply Forall_app. split; [exact Heff|]. constructor; [| constructor].
        split; [exact Hre | eapply accepts_effective; eauto].
      - exact Hso.
      - exists (w_cursrc s0), p. auto. }
    unfold pts_fn in Hfr.
    destruct (o_direct o); injection Hw as <- <-;
      unfold ginv; cbn [accept w_cur w_cursrc w_seen w_log flat_map];
      (split; [reflexivity|]; split; [constructor|]; split; [intros _; exact I|];
       split; [intros a q b H; destruct a; discriminate|];
       split; [discriminate|];
       apply Forall_app; split; [exact Hlog | constructor; [exact Hfr | constructor]]).
Qed.

Lemma ginv_run : forall o ps s,
  o_den o <> 0 -> ginv o s -> ginv o (fst (run_packets o s ps)).
Proof.
  intros o ps. induction ps as [|p rest IH]; intros s Hden Hinv; cbn [run_packets fst].
  - exact Hinv.
  - destruct (write_rtp o s p) as [s1 st] eqn:Hw.
    pose proof (ginv_step o s p s1 st Hden Hinv Hw) as H1.
    destruct st.
    + specialize (IH s1 Hden H1). destruct (run_packets o s1 rest). exact IH.
    + specialize (IH s1 Hden H1). destruct (run_packets o s1 rest). exact IH.
    + exact H1.
Qed.

Lemma frames_gate : forall o ps,
  o_den o <> 0 -> Forall (frame_ok (o_codec o)) (frames_of o ps).
Proof.
  intros o ps Hden. unfold frames_of.
  apply (ginv_run o ps (init_state o) Hden (ginv_init o)).
Qed.

(* nothing is written before a keyframe packet *)
Definition key_pkt (c : codec) (p : pkt) : bool :=
  negb (p_raw_empty p) && negb (p_err p) &&
  match c with
  | VP8 => match p_payload p with [] => false | b0 :: _ => N.land b0 1 =? 0 end
  | VP9 => negb (p_flag p)
  | AV1 => av1_is_key p
  end.

Lemma accepts_unseen_key : forall o s p,
  p_raw_empty p = false -> w_seen s = false -> accepts o s p = true -> key_pkt (o_codec o) p = true.
Proof.
  intros o s p Hre Hs H. unfold accepts in H. unfold key_pkt. rewrite Hre, Hs in *.
  destruct (p_err p); [discriminate|]. cbn [negb andb orb] in *.
  destruct (o_codec o).
  - destruct (p_payload p); [discriminate|]. apply andb_prop in H. apply H.
  - apply andb_prop in H. apply H.
  - exact H.
Qed.

Lemma unseen_step : forall o s p s' st,
  key_pkt (o_codec o) p = false -> w_seen s = false ->
  write_rtp o s p = (s', st) -> w_seen s' = false.
Proof.
  intros o s p s' st Hk Hs H. apply write_rtp_cases in H.
  assert (Hs0 : w_seen (first_upd s p) = false)
    by (unfold first_upd; destruct (w_count s =? 0); exact Hs).
  destruct H as [_ -> _ | _ _ -> _ | Hre Hacc _ _ _ | Hre Hacc _ _ _].
  - exact Hs.
  - exact Hs0.
  - rewrite (accepts_unseen_key o _ p Hre Hs0 Hacc) in Hk. discriminate.
  - rewrite (accepts_unseen_key o _ p Hre Hs0 Hacc) in Hk. discriminate.
Qed.

Lemma unseen_run : forall o ps s,
  Forall (fun p => key_pkt (o_codec o) p = false) ps -> w_seen s = false ->
  w_seen (fst (run_packets o s ps)) = false.
Proof.
  intros o ps. induction ps as [|p rest IH]; intros s Hk Hs; cbn [run_packets fst].
  - exact Hs.
  - inversion Hk as [|? ? Hk1 Hk2]; subst.
    destruct (write_rtp o s p) as [s1 st] eqn:Hw.
    pose proof (unseen_step o s p s1 st Hk1 Hs Hw) as H1.
    destruct st.
    + specialize (IH s1 Hk2 H1). destruct (run_packets o s1 rest). exact IH.
    + specialize (IH s1 Hk2 H1). destruct (run_packets o s1 rest). exact IH.
    + exact H1.
Qed.

Lemma nothing_before_key : forall o ps,
  o_den o <> 0 ->
  Forall (fun p => key_pkt (o_codec o) p = false) ps -> frames_of o ps = [].
Proof.
  intros o ps Hden Hk. unfold frames_of.
  pose proof (ginv_run o ps (init_state o) Hden (ginv_init o)) as (_ & _ & _ & _ & Hseen & _).
  apply Hseen. apply unseen_run; [exact Hk | reflexivity].
Qed.

(* the packets a frame was assembled from come from the stream *)
Definition iinv (pre : list pkt) (s : wst) : Prop :=
  incl (w_cursrc s) pre /\ Forall (fun f => incl (f_src f) pre) (w_log s).

Lemma iinv_weaken : forall pre p s, iinv pre s -> iinv (pre ++ [p]) s.
Proof.
  intros pre p s (H1 & H2). split.
  - apply incl_appl. exact H1.
  - eapply Forall_impl; [| exact H2]. intros f Hf. apply incl_appl. exact Hf.
Qed.

Lemma iinv_step : forall o pre s p s' st,
  iinv pre s -> write_rtp o s p = (s', st) -> iinv (pre ++ [p]) s'.
Proof.
  intros o pre s p s' st Hinv H. apply write_rtp_cases in H.
  assert (H0 : iinv (pre ++ [p]) (first_upd s p)).
  { apply iinv_weaken. unfold first_upd. destruct (w_count s =? 0); exact Hinv. }
  assert (Hacc : iinv (pre ++ [p]) (accept (first_upd s p) p)).
  { destruct H0 as (Ha & Hb). split; [| exact Hb]. cbn [accept w_cursrc].
    apply incl_app; [exact Ha|]. apply incl_appr. apply incl_refl. }
  destruct H as [_ -> _ | _ _ -> _ | _ _ -> _ _ | _ _ _ _ Hw].
  - now apply iinv_weaken.
  - exact H0.
  - exact Hacc.
  - unfold write_frame in Hw.
    destruct (if o_direct o then Some (time_of o (first_upd s p) p)
              else timestamp_to_pts o (time_of o (first_upd s p) p)).
    + injection Hw as <- <-. destruct Hacc as (Ha & Hb). split.
      * cbn [w_cursrc]. intros x [].
      * cbn [w_log]. apply Forall_app. split; [exact Hb|]. constructor; [exact Ha | constructor].
    + injection Hw as <- <-. exact Hacc.
Qed.

Lemma iinv_run : forall o ps pre s,
  iinv pre s -> iinv (pre ++ ps) (fst (run_packets o s ps)).
Proof.
  intros o ps. induction ps as [|p rest IH]; intros pre s Hinv; cbn [run_packets fst].
  - rewrite app_nil_r. exact Hinv.
  - destruct (write_rtp o s p) as [s1 st] eqn:Hw.
    pose proof (iinv_step o pre s p s1 st Hinv Hw) as H1.
    replace (pre ++ p :: rest) with ((pre ++ [p]) ++ rest) by (rewrite <- app_assoc; reflexivity).
    destruct st.
    + specialize (IH _ s1 H1). destruct (run_packets o s1 rest). exact IH.
    + specialize (IH _ s1 H1). destruct (run_packets o s1 rest). exact IH.
    + cbn [fst]. destruct H1 as (Ha & Hb). split.
      * apply incl_appl. exact Ha.
      * eapply Forall_impl; [| exact Hb]. intros f Hf. apply incl_appl. exact Hf.
Qed.

Lemma frames_from_stream : forall o ps,
  Forall (fun f => incl (f_src f) ps) (frames_of o ps).
Proof.
  intros o ps. unfold frames_of.
  assert (H : iinv [] (init_state o)) by (split; [intros x [] | constructor]).
  apply (iinv_run o ps [] _ H).
Qed.

(* ---------- statements as they appear in Properties/C32.v ---------- *)

Lemma gate_statement : forall o ps,
  o_den o <> 0 ->
  Forall (fun f =>
    incl (f_src f) ps /\
    f_bytes f = (match o_codec o with AV1 => [18; 0] | _ => [] end) ++ flat_map p_payload (f_src f) /\
    Forall (fun p => p_raw_empty p = false /\ p_err p = false) (f_src f) /\
    (o_codec o <> AV1 -> match f_src f with [] => True | p :: _ => p_start p = true end) /\
    exists a pl, f_src f = a ++ [pl] /\ p_marker pl = true /\
      forall a1 p b, a = a1 ++ p :: b -> p_marker p = true ->
                     o_codec o <> AV1 /\ flat_map p_payload (a1 ++ [p]) = [])
  (frames_of o ps).
Proof.
  intros o ps Hden.
  pose proof (frames_gate o ps Hden) as H1. pose proof (frames_from_stream o ps) as H2.
  rewrite Forall_forall in *. intros f Hf. split; [exact (H2 f Hf) | exact (H1 f Hf)].
Qed.

Lemma gate_keyframe_statement : forall o ps,
  o_den o <> 0 ->
  Forall (fun p => key_pkt (o_codec o) p = false) ps ->
  frames_of o ps = [] /\ written o ps false = ivf_header o 900.
Proof.
  intros o ps Hden Hk. pose proof (nothing_before_key o ps Hden Hk) as Hn.
  split; [exact Hn|]. unfold written.
  rewrite (close_shape o false _ (run_packets_inv o ps (init_state o) (winv_init o))).
  unfold frames_of in Hn. rewrite Hn. unfold count_field, records. cbn [flat_map]. apply app_nil_r.
Qed.

Lemma le_statement : forall w n,
  n < 2 ^ (8 * N.of_nat w) -> le_val (le_bytes w n) = n /\ length (le_bytes w n) = w.
Proof. intros w n H; split; [exact (le_roundtrip w n H) | exact (le_bytes_length w n)]. Qed.

Lemma roundtrip_statement : forall o ps seekable,
  opts_ok o ->
  Forall (fun f => N.of_nat (length (f_bytes f)) < 4294967296) (frames_of o ps) ->
  exists h,
    read_file (written o ps seekable)
    = Ok (h, map (read_back o) (frames_of o ps), "EOF"%string).
Proof. intros o ps seekable Hok Hl. eexists. exact (roundtrip o ps seekable Hok Hl). Qed.

Lemma header_statement : forall o ps seekable,
  opts_ok o ->
  Forall (fun f => N.of_nat (length (f_bytes f)) < 4294967296) (frames_of o ps) ->
  exists frs e,
    read_file (written o ps seekable)
    = Ok (mkFhdr (fourcc (o_codec o)) (o_width o) (o_height o) (o_den o) (o_num o)
                 (if seekable then N.of_nat (length (frames_of o ps)) mod 4294967296 else 900)
                 32 0, frs, e).
Proof. intros o ps seekable Hok Hl. do 2 eexists. exact (roundtrip_header o ps seekable Hok Hl). Qed.

Lemma no_panic_statement : forall o ps,
  o_den o <> 0 -> ~ In SPanic (snd (run_packets o (init_state o) ps)).
Proof. intros o ps H. exact (run_packets_no_panic o ps (init_state o) H). Qed.
