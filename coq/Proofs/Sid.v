(* C18: proofs about data-channel id allocation (Model/Sid.v). *)
From Coq Require Import List NArith ZArith Arith Bool String Lia ZifyBool ZifyNat ZifyN.
Import ListNotations.
From Verif Require Import Common.Base Model.Sid.
Open Scope N_scope.

Ltac Zify.zify_post_hook ::= Z.div_mod_to_equations.

Lemma memN_In x l : memN x l = true <-> In x l.
Proof.
  unfold memN. rewrite existsb_exists. split.
  - intros (y & Hy & He). apply N.eqb_eq in He. subst; auto.
  - intros H. exists x. split; auto. apply N.eqb_refl.
Qed.

Lemma memN_notIn x l : memN x l = false <-> ~ In x l.
Proof. rewrite <- memN_In. destruct (memN x l); split; congruence. Qed.

Lemma bound_le maxv : 1 <= maxv -> maxv <= 65535 -> bound_of maxv = maxv - 1.
Proof. intros H1 H2. unfold bound_of, subw. lia. Qed.

(* ---------- the loop ---------- *)

(* what the loop returns, whatever the fuel *)
Lemma alloc_loop_ok fuel id bound used r :
  bound <= 65534 -> alloc_loop fuel id bound used = Ok r ->
  id <= r /\ r < bound /\ ~ In r used /\ r mod 2 = id mod 2 /\
  (forall x, id <= x -> x < r -> x mod 2 = id mod 2 -> In x used).
Proof.
  intros Hb. revert id. induction fuel as [|f IH]; intros id H; simpl in H; [discriminate|].
  destruct (id <? bound) eqn:Hlt; [|discriminate].
  destruct (memN id used) eqn:Hm.
  - assert (Hu : u16 (id + 2) = id + 2) by (unfold u16; lia).
    rewrite Hu in H. destruct (IH _ H) as (A & B & C & D & E).
    repeat split; auto; try lia.
    intros x Hx1 Hx2 Hx3. destruct (N.eq_dec x id) as [->|Hne]; [apply memN_In; auto|].
    apply E; lia.
  - inversion H; subst. apply memN_notIn in Hm. repeat split; auto; try lia.
Qed.

Lemma alloc_loop_full fuel id bound used :
  bound <= 65534 -> alloc_loop fuel id bound used = Err "max-data-channel-id" ->
  forall x, id <= x -> x < bound -> x mod 2 = id mod 2 -> In x used.
Proof.
  intros Hb. revert id. induction fuel as [|f IH]; intros id H; simpl in H; [discriminate|].
  destruct (id <? bound) eqn:Hlt.
  - destruct (memN id used) eqn:Hm; [|discriminate].
    assert (Hu : u16 (id + 2) = id + 2) by (unfold u16; lia).
    rewrite Hu in H. intros x Hx1 Hx2 Hx3.
    destruct (N.eq_dec x id) as [->|Hne]; [apply memN_In; auto|]. apply (IH _ H); lia.
  - intros x Hx1 Hx2 _. lia.
Qed.

(* each fruitless probe consumes a member of [used] that later probes cannot see *)
Definition above (id : N) (used : list N) : nat := List.length (filter (fun x => id <=? x) used).

Lemma above_mono id used : (above (id + 2) used <= above id used)%nat.
Proof.
  unfold above. induction used as [|a t IH]; simpl; auto.
  destruct (id + 2 <=? a) eqn:E1; destruct (id <=? a) eqn:E2; simpl; lia.
Qed.

Lemma above_drop id used :
  In id used -> (above (id + 2) used < above id used)%nat.
Proof.
  induction used as [|h t IH]; [intros []|].
  pose proof (above_mono id t) as Hm. unfold above in *.
  intros [->|Hin]; simpl.
  - destruct (id + 2 <=? id) eqn:E1; [lia|]. destruct (id <=? id) eqn:E2; [|lia]. simpl. lia.
  - specialize (IH Hin). destruct (id + 2 <=? h) eqn:E1; destruct (id <=? h) eqn:E2; simpl; lia.
Qed.

Lemma above_le id used : (above id used <= List.length used)%nat.
Proof.
  unfold above. induction used as [|h t IH]; simpl; auto. destruct (id <=? h); simpl; lia.
Qed.

Lemma alloc_loop_fuel fuel id bound used :
  bound <= 65534 -> (above id used < fuel)%nat ->
  alloc_loop fuel id bound used <> Err "out-of-fuel".
Proof.
  intros Hb. revert id. induction fuel as [|f IH]; intros id Hf; [lia|]. simpl.
  destruct (id <? bound) eqn:Hlt; [|discriminate].
  destruct (memN id used) eqn:Hm; [|discriminate].
  assert (Hu : u16 (id + 2) = id + 2) by (unfold u16; lia). rewrite Hu.
  apply IH. apply memN_In in Hm. pose proof (above_drop _ _ Hm). lia.
Qed.

Lemma alloc_loop_err fuel id bound used e :
  alloc_loop fuel id bound used = Err e ->
  e = "out-of-fuel"%string \/ e = "max-data-channel-id"%string.
Proof.
  revert id. induction fuel as [|f IH]; intros id H; simpl in H; [inversion H; auto|].
  destruct (id <? bound); [|inversion H; auto].
  destruct (memN id used); [eauto|discriminate].
Qed.

Lemma alloc_loop_nopanic fuel id bound used : alloc_loop fuel id bound used <> Panic.
Proof.
  revert id. induction fuel as [|f IH]; intros id; simpl; [discriminate|].
  destruct (id <? bound); [|discriminate]. destruct (memN id used); [auto|discriminate].
Qed.

(* ---------- alloc ---------- *)

Definition parity_ok (cl : bool) (id : N) : Prop := id mod 2 = start_of cl.

Lemma alloc_spec cl maxv used :
  1 <= maxv -> maxv <= 65535 ->
  match alloc cl maxv used with
  | Ok id => parity_ok cl id /\ id < maxv - 1 /\ id < 65534 /\ ~ In id used /\
             (forall x, x < id -> parity_ok cl x -> In x used)
  | Err e => e = "max-data-channel-id"%string /\
             (forall x, x < maxv - 1 -> parity_ok cl x -> In x used)
  | Panic => False
  end.
Proof.
  intros H1 H2. unfold alloc. rewrite (bound_le _ H1 H2).
  assert (Hb : maxv - 1 <= 65534) by lia.
  assert (Hs : start_of cl mod 2 = start_of cl) by (destruct cl; reflexivity).
  destruct (alloc_loop (S (List.length used)) (start_of cl) (maxv - 1) used) as [id|e|] eqn:Ha.
  - destruct (alloc_loop_ok _ _ _ _ _ Hb Ha) as (A & B & C & D & E).
    unfold parity_ok. rewrite Hs in D, E. repeat split; auto; try lia.
    intros x Hx Hp. apply E; auto. destruct cl; simpl in *; lia.
  - assert (He : e = "max-data-channel-id"%string).
    { destruct (alloc_loop_err _ _ _ _ _ Ha) as [He|He]; subst e; auto. exfalso.
      eapply alloc_loop_fuel; [exact Hb| |exact Ha]. pose proof (above_le (start_of cl) used). lia. }
    subst e. split; auto. intros x Hx Hp.
    apply (alloc_loop_full _ _ _ _ Hb Ha); auto.
    + destruct cl; simpl in *; unfold parity_ok in Hp; simpl in Hp; lia.
    + unfold parity_ok in Hp. rewrite Hs. auto.
  - exfalso. eapply alloc_loop_nopanic; eauto.
Qed.

(* ---------- histories ---------- *)

Lemma cupd_nth l i x k :
  nth_error (cupd l i x) k =
  if (k =? i)%nat then (match nth_error l k with Some _ => Some x | None => None end)
  else nth_error l k.
Proof.
  revert i k. induction l as [|h t IH]; intros [|i] [|k]; simpl; auto;
    try (destruct (k =? i)%nat; auto; fail); try apply IH.
Qed.

Record SInv (m : N) (s : sst) : Prop := mkSInv {
  s_maxv : maxv s = m;
  s_sub : Forall (fun id => In id (used s)) (assigned s);
  s_nodup : NoDup (assigned s);
  s_conn : connected s = false -> assigned s = [];
  s_par : Forall (parity_ok (client s)) (assigned s);
  s_lt : Forall (fun id => id < 65534) (assigned s);
  s_chan : forall k c id, nth_error (chans s) k = Some c -> cid c = Some id -> In id (used s)
}.

Lemma sinit_inv m : SInv m (sinit m).
Proof.
  constructor; simpl; auto; try constructor.
  intros k c id H. destruct k; discriminate.
Qed.

Lemma Forall_In_cons (l u : list N) x :
  Forall (fun id => In id u) l -> Forall (fun id => In id (x :: u)) l.
Proof. intros H. eapply Forall_impl; [|exact H]. simpl. auto. Qed.

Lemma sstep_inv m s o :
  1 <= m -> m <= 65535 -> SInv m s -> SInv m (sstep s o).
Proof.
  intros M1 M2 I. destruct I. destruct o as [e|k|cl|id|k]; simpl; auto.
  - (* Create *)
    constructor; simpl; auto.
    + destruct e; auto. apply Forall_In_cons; auto.
    + intros k c id Hn Hc.
      assert (Hu : In id (used s) -> In id (match e with Some i => i :: used s | None => used s end)).
      { destruct e; simpl; auto. }
      destruct (Nat.lt_ge_cases k (List.length (chans s))) as [Hk|Hk].
      * rewrite nth_error_app1 in Hn by auto. apply Hu. eauto.
      * rewrite nth_error_app2 in Hn by auto.
        destruct (k - List.length (chans s))%nat; simpl in Hn; [|destruct n; discriminate].
        inversion Hn; subst. simpl in Hc. subst e. simpl. auto.
  - (* Open *)
    destruct (connected s) eqn:Hconn; simpl; [|constructor; auto; intro; congruence].
    assert (Hcf : connected s = false -> assigned s = []) by (intro; congruence).
    destruct (nth_error (chans s) k) as [c|] eqn:Hk; [|constructor; auto].
    destruct (opened c); [constructor; auto|].
    destruct (cid c) as [id|] eqn:Hcid.
    + constructor; simpl; auto.
      intros k' c' id' Hn Hc. rewrite cupd_nth in Hn. destruct (k' =? k)%nat eqn:E.
      * apply Nat.eqb_eq in E. subst k'. rewrite Hk in Hn. inversion Hn; subst. simpl in Hc.
        inversion Hc; subst. eauto.
      * eauto.
    + pose proof (alloc_spec (client s) (maxv s) (used s)) as Ha.
      rewrite s_maxv0 in Ha. specialize (Ha M1 M2). rewrite <- s_maxv0 in Ha.
      destruct (alloc (client s) (maxv s) (used s)) as [id|e|] eqn:Hal.
      * destruct Ha as (P1 & P2 & P3 & P4 & P5).
        constructor; simpl; auto.
        -- constructor; simpl; auto. apply Forall_In_cons; auto.
        -- constructor; auto. intros Hin. rewrite Forall_forall in s_sub0. apply P4. auto.
        -- intro; congruence.
        -- intros k' c' id' Hn Hc. rewrite cupd_nth in Hn. destruct (k' =? k)%nat eqn:E.
           ++ apply Nat.eqb_eq in E. subst k'. rewrite Hk in Hn. inversion Hn; subst. simpl in Hc.
              inversion Hc; subst. auto.
           ++ right. eauto.
      * constructor; simpl; auto.
        intros k' c' id' Hn Hc. rewrite cupd_nth in Hn. destruct (k' =? k)%nat eqn:E.
        -- apply Nat.eqb_eq in E. subst k'. rewrite Hk in Hn. inversion Hn; subst. discriminate.
        -- eauto.
      * destruct Ha.
  - (* Connect *)
    destruct (connected s) eqn:Hconn; [constructor; auto; intro; congruence|].
    rewrite (s_conn0 eq_refl) in *. constructor; simpl; auto; try discriminate.
  - (* RemoteOpen *)
    constructor; simpl; auto.
    + apply Forall_In_cons; auto.
    + intros k c id' Hn Hc.
      destruct (Nat.lt_ge_cases k (List.length (chans s))) as [Hk|Hk].
      * rewrite nth_error_app1 in Hn by auto. right. eauto.
      * rewrite nth_error_app2 in Hn by auto.
        destruct (k - List.length (chans s))%nat; simpl in Hn; [|destruct n; discriminate].
        inversion Hn; subst. simpl in Hc. inversion Hc; subst. auto.
  - constructor; auto.
Qed.

Lemma srun_inv m s ops : 1 <= m -> m <= 65535 -> SInv m s -> SInv m (srun s ops).
Proof.
  intros M1 M2. revert s. induction ops as [|o t IH]; intros s I; simpl; auto.
  apply IH. apply sstep_inv; auto.
Qed.

(* parity, never 65535 (or 65534), pairwise distinct, all in use *)
Lemma assigned_facts m ops :
  1 <= m -> m <= 65535 ->
  let s := srun (sinit m) ops in
  Forall (parity_ok (client s)) (assigned s) /\
  Forall (fun id => id < 65534) (assigned s) /\
  NoDup (assigned s) /\
  Forall (fun id => In id (used s)) (assigned s).
Proof.
  intros M1 M2 s. pose proof (srun_inv m (sinit m) ops M1 M2 (sinit_inv m)) as I. fold s in I.
  destruct I. auto.
Qed.

(* the role, once the association exists, and an id, once set, never change *)
Lemma sstep_stable s o :
  (connected s = true -> connected (sstep s o) = true /\ client (sstep s o) = client s) /\
  (forall k c id, nth_error (chans s) k = Some c -> cid c = Some id ->
     exists c', nth_error (chans (sstep s o)) k = Some c' /\ cid c' = Some id) /\
  (exists ext, used (sstep s o) = ext ++ used s) /\
  (exists ext, assigned (sstep s o) = ext ++ assigned s).
Proof.
  destruct o as [e|k|cl|id|k]; simpl.
  - repeat split; auto.
    + intros k c id Hn Hc. exists c. split; auto. rewrite nth_error_app1; auto.
      apply nth_error_Some. congruence.
    + destruct e; [exists [n]|exists []]; auto.
    + exists []; auto.
  - destruct (connected s) eqn:Hc; simpl.
    2:{ repeat split; auto; try discriminate; try (exists []; auto). intros k0 c id H1 H2; eauto. }
    destruct (nth_error (chans s) k) as [c|] eqn:Hk.
    2:{ repeat split; auto; try (exists []; auto). intros k0 c id H1 H2; eauto. }
    destruct (opened c).
    { repeat split; auto; try (exists []; auto). intros k0 c0 id H1 H2; eauto. }
    assert (Hkeep : forall x, (cid c = None \/ cid x = cid c) ->
              forall k0 c0 id, nth_error (chans s) k0 = Some c0 -> cid c0 = Some id ->
              exists c', nth_error (cupd (chans s) k x) k0 = Some c' /\ cid c' = Some id).
    { intros x Hx k0 c0 id H1 H2. rewrite cupd_nth. destruct (k0 =? k)%nat eqn:E.
      - apply Nat.eqb_eq in E. subst k0. rewrite H1. rewrite Hk in H1. inversion H1; subst c0.
        exists x. split; auto. destruct Hx as [Hx|Hx]; congruence.
      - eauto. }
    destruct (cid c) as [id|] eqn:Hcid.
    + simpl. repeat split; auto; try (exists []; auto). apply Hkeep. right. auto.
    + destruct (alloc (client s) (maxv s) (used s)) as [id|e|]; simpl;
        (repeat split; auto; [apply Hkeep; left; auto| |]);
        try (exists []; auto; fail); exists [id]; auto.
  - destruct (connected s) eqn:Hc; simpl.
    + repeat split; auto; try (exists []; auto). intros k c id H1 H2; eauto.
    + repeat split; auto; try discriminate; try (exists []; auto). intros k c id H1 H2; eauto.
  - repeat split; auto.
    + intros k c id' Hn Hc. exists c. split; auto. rewrite nth_error_app1; auto.
      apply nth_error_Some. congruence.
    + exists [id]; auto.
    + exists []; auto.
  - repeat split; auto; try (exists []; auto). intros k0 c id H1 H2; eauto.
Qed.

Lemma srun_stable s ops :
  (connected s = true -> client (srun s ops) = client s) /\
  (forall k c id, nth_error (chans s) k = Some c -> cid c = Some id ->
     exists c', nth_error (chans (srun s ops)) k = Some c' /\ cid c' = Some id) /\
  (forall id, In id (used s) -> In id (used (srun s ops))) /\
  (exists ext, assigned (srun s ops) = ext ++ assigned s).
Proof.
  revert s. induction ops as [|o t IH]; intros s; simpl.
  - repeat split; auto; eauto. exists []; auto.
  - destruct (sstep_stable s o) as (A & B & (e1 & C) & (e2 & D)).
    destruct (IH (sstep s o)) as (A' & B' & C' & (e3 & D')).
    repeat split.
    + intros Hc. destruct (A Hc) as (A1 & A2). rewrite A'; auto.
    + intros k c id H1 H2. destruct (B _ _ _ H1 H2) as (c' & H3 & H4). eauto.
    + intros id Hin. apply C'. rewrite C. apply in_or_app. auto.
    + exists (e3 ++ e2). rewrite D', D, app_assoc. auto.
Qed.

(* an id assigned by the connection differs from every id in use when it was assigned *)
Lemma open_fresh m s k :
  1 <= m -> m <= 65535 -> SInv m s ->
  forall id, assigned (sstep s (Open k)) = id :: assigned s ->
    ~ In id (used s) /\ parity_ok (client s) id /\ id < 65534 /\
    nth_error (chans (sstep s (Open k))) k = Some (mkchan (Some id) true) /\
    (exists c, nth_error (chans s) k = Some c /\ cid c = None).
Proof.
  intros M1 M2 I id. simpl.
  destruct (connected s); simpl; [|intros H; exfalso; apply (f_equal (@List.length N)) in H; simpl in H; lia].
  destruct (nth_error (chans s) k) as [c|] eqn:Hk;
    [|intros H; exfalso; apply (f_equal (@List.length N)) in H; simpl in H; lia].
  destruct (opened c); [intros H; exfalso; apply (f_equal (@List.length N)) in H; simpl in H; lia|].
  destruct (cid c) as [i0|] eqn:Hcid;
    [simpl; intros H; exfalso; apply (f_equal (@List.length N)) in H; simpl in H; lia|].
  pose proof (alloc_spec (client s) (maxv s) (used s)) as Ha.
  rewrite (s_maxv _ _ I) in Ha. specialize (Ha M1 M2). rewrite <- (s_maxv _ _ I) in Ha.
  destruct (alloc (client s) (maxv s) (used s)) as [i1|e|]; simpl;
    try (intros H; exfalso; apply (f_equal (@List.length N)) in H; simpl in H; lia).
  intros H. inversion H; subst i1. destruct Ha as (P1 & P2 & P3 & P4 & P5).
  repeat split; auto.
  - rewrite cupd_nth, Nat.eqb_refl, Hk. auto.
  - exists c. auto.
Qed.

(* exhaustion: the allocator reports an error exactly when every id of the
   role's parity below maxChannels-1 is in use, and then hands out nothing *)
Lemma open_exhausted m s k c :
  1 <= m -> m <= 65535 -> SInv m s ->
  connected s = true -> nth_error (chans s) k = Some c -> opened c = false -> cid c = None ->
  (forall x, x < m - 1 -> parity_ok (client s) x -> In x (used s)) ->
  let s' := sstep s (Open k) in
  used s' = used s /\ assigned s' = assigned s /\
  nth_error (chans s') k = Some (mkchan None true) /\
  alloc (client s) m (used s) = Err "max-data-channel-id".
Proof.
  intros M1 M2 I Hc Hk Ho Hcid Hfull. simpl. rewrite Hc, Hk, Ho, Hcid. simpl.
  pose proof (alloc_spec (client s) m (used s) M1 M2) as Ha. rewrite (s_maxv _ _ I).
  destruct (alloc (client s) m (used s)) as [id|e|]; simpl.
  - destruct Ha as (P1 & P2 & P3 & P4 & P5). exfalso. apply P4. apply Hfull; auto.
  - destruct Ha as (-> & _). repeat split; auto. rewrite cupd_nth, Nat.eqb_refl, Hk. auto.
  - destruct Ha.
Qed.
