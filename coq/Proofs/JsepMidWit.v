(* Boolean checkers with soundness lemmas, used to discharge the concrete
   witnesses of the refuted statements by computation. *)
From Coq Require Import List ZArith String Ascii Bool Lia.
Import ListNotations.
From Verif Require Import Common.Base Common.JsepNumeral Model.JsepMid Model.JsepMidSpec Proofs.JsepMid.
Open Scope string_scope.
Open Scope list_scope.

Fixpoint nodupb (l : list string) : bool :=
  match l with
  | [] => true
  | x :: rest => negb (str_in x rest) && nodupb rest
  end.

Lemma str_in_In x l : str_in x l = true <-> In x l.
Proof.
  unfold str_in. rewrite existsb_exists. split.
  - intros (y & Hy & E). apply String.eqb_eq in E. subst. exact Hy.
  - intro H. exists x. split; [exact H|apply String.eqb_refl].
Qed.

Lemma nodupb_sound l : nodupb l = true <-> NoDup l.
Proof.
  induction l as [|x rest IH]; cbn [nodupb].
  - split; [constructor|reflexivity].
  - rewrite andb_true_iff, negb_true_iff, IH. split.
    + intros [Hx Hr]. constructor; auto. intro Hc. apply str_in_In in Hc. congruence.
    + intro H. apply NoDup_cons_iff in H. destruct H as [Hx Hr]. split; auto.
      destruct (str_in x rest) eqn:E; auto. apply str_in_In in E. contradiction.
Qed.

(* every remote description of the history has pairwise distinct mids *)
Definition remote_okb (ops : list op) : bool :=
  forallb (fun o => match o with SetRemote _ d => nodupb (map r_mid (r_secs d)) | _ => true end) ops.

Lemma remote_okb_sound ops : remote_okb ops = true -> remote_ok ops.
Proof.
  unfold remote_okb, remote_ok. rewrite forallb_forall. intros H ty d Hin.
  specialize (H _ Hin). cbn in H. apply nodupb_sound. exact H.
Qed.

(* all sections carry a mid and the mids are pairwise distinct *)
Fixpoint all_some (l : list (option string)) : option (list string) :=
  match l with
  | [] => Some []
  | Some x :: rest => match all_some rest with Some r => Some (x :: r) | None => None end
  | None :: _ => None
  end.
Definition mids_okb (d : ldesc) : bool :=
  match all_some (sec_mids d) with Some l => nodupb l | None => false end.

Lemma all_some_map l r : all_some l = Some r -> l = map Some r.
Proof.
  revert r. induction l as [|[x|] rest IH]; intros r H; cbn [all_some] in H.
  - injection H as <-. reflexivity.
  - destruct (all_some rest) as [r0|]; [|discriminate]. injection H as <-. cbn. rewrite (IH _ eq_refl). reflexivity.
  - discriminate.
Qed.

Lemma all_some_none l : all_some l = None -> In None l.
Proof.
  induction l as [|[x|] rest IH]; cbn [all_some]; intro H.
  - discriminate.
  - destruct (all_some rest); [discriminate|]. right. apply IH. reflexivity.
  - left. reflexivity.
Qed.

Lemma c06_holds_mids_okb d : c06_holds d -> mids_okb d = true.
Proof.
  intros (Hsome & Hnd & _). unfold mids_okb. destruct (all_some (sec_mids d)) as [r|] eqn:E.
  - apply all_some_map in E. rewrite E in Hnd. apply nodupb_sound.
    clear - Hnd. induction r as [|x r IH]; [constructor|].
    cbn in Hnd. apply NoDup_cons_iff in Hnd. destruct Hnd as [Hx Hr]. constructor; auto.
    intro Hc. apply Hx. apply in_map. exact Hc.
  - apply all_some_none in E. unfold sec_mids in E. apply in_map_iff in E.
    destruct E as (x & Ex & Hx). exfalso. exact (Hsome x Hx Ex).
Qed.

(* a history whose remote descriptions are well-formed generates a description
   that violates C06's first clause *)
Lemma refute_c06 ops :
  remote_okb ops = true ->
  existsb (fun d => negb (mids_okb d)) (generated ops) = true ->
  remote_ok ops /\ exists d, In d (generated ops) /\ ~ c06_holds d.
Proof.
  intros Hr Hx. split; [apply remote_okb_sound; exact Hr|].
  apply existsb_exists in Hx. destruct Hx as (d & Hin & Hb). exists d. split; [exact Hin|].
  intro Hc. apply c06_holds_mids_okb in Hc. rewrite Hc in Hb. discriminate.
Qed.

(* ---------- the witnesses (replayed on the implementation by harness/c06.go) ---------- *)
Definition rs (k : kind) (mid : string) (d : option dir) : rsection :=
  {| r_kind := k; r_mid := mid; r_dir := d; r_port0 := false; r_codec := true |}.
Definition rd (secs : list rsection) (g : string) : rdesc := {| r_secs := secs; r_group := Some g |}.

(* remote offer: audio mid "1"; answer; data channel; offer => mids 1, 1 *)
Definition wit_data_mid : list op :=
  [SetRemote TOffer (rd [rs KAudio "1" (Some Sendrecv)] "BUNDLE 1"); CreateAnswer; SetLocal TAnswer;
   CreateDataChannel; CreateOffer].
(* a mid allocated by an offer that is never applied, later the remote's application mid *)
Definition wit_unsent_mid : list op :=
  [SetRemote TOffer (rd [rs KAudio "0" (Some Sendrecv)] "BUNDLE 0"); CreateAnswer; SetLocal TAnswer;
   AddTransceiver MVideo Sendrecv; CreateOffer;
   SetRemote TOffer (rd [rs KAudio "0" (Some Sendrecv); rs KApplication "1" None] "BUNDLE 0 1");
   CreateAnswer; SetLocal TAnswer; CreateOffer].
(* first video section without a known codec: rejected section without mid *)
Definition wit_no_mid : list op :=
  [SetRemote TOffer (rd [rs KAudio "0" (Some Sendrecv);
                         {| r_kind := KVideo; r_mid := "1"; r_dir := Some Sendrecv; r_port0 := false; r_codec := false |}]
                        "BUNDLE 0 1");
   CreateAnswer].
(* CreateOffer while a remote offer is pending: before the repair of the
   numbering loop the audio transceiver received the mid "0" of the video
   transceiver the pending offer had just created; now it is numbered "1" *)
Definition was_numbering : list op :=
  [AddTransceiver MAudio Recvonly; SetRemote TOffer (rd [rs KVideo "0" (Some Sendrecv)] "BUNDLE 0"); CreateOffer].
(* greaterMid wraps around *)
Definition wit_overflow : list op :=
  [SetRemote TOffer (rd [rs KVideo "9223372036854775806" (Some Sendrecv)] "BUNDLE 9223372036854775806");
   CreateAnswer; SetLocal TAnswer;
   AddTransceiver MAudio Recvonly; AddTransceiver MAudio Recvonly; CreateOffer;
   AddTransceiver MAudio Recvonly; CreateOffer].

Lemma wit_data_mid_refutes : remote_ok wit_data_mid /\ exists d, In d (generated wit_data_mid) /\ ~ c06_holds d.
Proof. apply refute_c06; vm_compute; reflexivity. Qed.
Lemma wit_unsent_mid_refutes : remote_ok wit_unsent_mid /\ exists d, In d (generated wit_unsent_mid) /\ ~ c06_holds d.
Proof. apply refute_c06; vm_compute; reflexivity. Qed.
Lemma wit_no_mid_refutes : remote_ok wit_no_mid /\ exists d, In d (generated wit_no_mid) /\ ~ c06_holds d.
Proof. apply refute_c06; vm_compute; reflexivity. Qed.
Lemma was_numbering_now :
  map sec_mids (generated was_numbering) = [[Some "1"; Some "0"]].
Proof. vm_compute. reflexivity. Qed.
Lemma wit_overflow_refutes : remote_ok wit_overflow /\ exists d, In d (generated wit_overflow) /\ ~ c06_holds d.
Proof. apply refute_c06; vm_compute; reflexivity. Qed.

(* what the data-mid witness generates: two sections with mid "1", BUNDLE "1 1" *)
Lemma wit_data_mid_shape :
  exists d, nth_error (generated wit_data_mid) 1 = Some d /\
            sec_mids d = [Some "1"; Some "1"] /\ l_bundle d = ["1"; "1"].
Proof. eexists. split; [vm_compute; reflexivity|split; reflexivity]. Qed.

(* ---------- boolean guards (to show the premises of the partial theorems are
   satisfiable on concrete histories) ---------- *)
Definition codecs_okb (s : st) : bool := has_codecs s MAudio && has_codecs s MVideo.
Definition offer_guardb (s : st) : bool :=
  let s1 := offer_alloc s in
  offer_nowrap s &&
  forallb (fun t => forallb (fun r => match r_kind r with
                                      | KApplication => negb (String.eqb (t_mid t) (r_mid r))
                                      | _ => true
                                      end) (remote_secs (offer_remote s1))) (trs s1) &&
  match offer_sections s1 with
  | (_, Ok (base, true, _)) => negb (str_in (data_mid base) (map msec_id base))
  | _ => true
  end &&
  codecs_okb s.
Definition gen_guardb (s : st) (o : op) : bool :=
  match o with CreateOffer => offer_guardb s | _ => codecs_okb s end.

Lemma codecs_okb_sound s : codecs_okb s = true -> codecs_ok s.
Proof. unfold codecs_okb. intro H. apply andb_true_iff in H. destruct H. intros []; assumption. Qed.

Lemma offer_guardb_sound s : offer_guardb s = true -> offer_guard s.
Proof.
  unfold offer_guardb, offer_guard. intro H.
  apply andb_true_iff in H. destruct H as [H H4]. apply andb_true_iff in H. destruct H as [H H3].
  apply andb_true_iff in H. destruct H as [H1 H2].
  split; [exact H1|]. split; [|split; [|apply codecs_okb_sound; exact H4]].
  - intros t r Ht Hr Hk E. rewrite forallb_forall in H2. specialize (H2 _ Ht).
    rewrite forallb_forall in H2. specialize (H2 _ Hr). rewrite Hk in H2.
    rewrite E, String.eqb_refl in H2. discriminate.
  - intros l base g E. rewrite E in H3. intro Hc. apply str_in_In in Hc. rewrite Hc in H3. discriminate.
Qed.

Lemma gen_guardb_sound s o : gen_guardb s o = true -> gen_guard s o.
Proof.
  destruct o; cbn [gen_guardb gen_guard]; try apply codecs_okb_sound. apply offer_guardb_sound.
Qed.

Definition all_guardsb (ops : list op) : bool :=
  forallb (fun e => match e with (s, o, _, _) => gen_guardb s o end) (trace ops).

Lemma all_guardsb_sound ops :
  all_guardsb ops = true ->
  nowrap_all ops /\ forall s o out s', In (s, o, out, s') (trace ops) -> gen_guard s o.
Proof.
  unfold all_guardsb. rewrite forallb_forall. intro H. split.
  - intros s out s' Hin. specialize (H _ Hin). cbn in H. apply offer_guardb_sound in H. exact (proj1 H).
  - intros s o out s' Hin. specialize (H _ Hin). cbn in H. apply gen_guardb_sound. exact H.
Qed.

(* a history inside the guards: audio + video + data channel, offer, remote
   answer, a remote re-offer adding a section, answer, another local offer *)
Definition ex_guarded : list op :=
  [AddTransceiver MAudio Sendrecv; AddTransceiver MVideo Recvonly; CreateDataChannel;
   CreateOffer; SetLocal TOffer;
   SetRemote TAnswer (rd [rs KAudio "0" (Some Sendrecv); rs KVideo "1" (Some Sendonly); rs KApplication "2" None] "BUNDLE 0 1 2");
   SetRemote TOffer (rd [rs KAudio "0" (Some Sendrecv); rs KVideo "1" (Some Sendonly); rs KApplication "2" None;
                         rs KVideo "cam2" (Some Sendonly)] "BUNDLE 0 1 2 cam2");
   CreateAnswer; SetLocal TAnswer;
   AddTransceiver MAudio Sendonly; CreateOffer].

Lemma ex_guarded_ok :
  remote_ok ex_guarded /\ nowrap_all ex_guarded /\
  (forall s o out s', In (s, o, out, s') (trace ex_guarded) -> gen_guard s o) /\
  map (fun d => List.length (l_secs d)) (generated ex_guarded) = [3; 4; 5]%nat.
Proof.
  split; [apply remote_okb_sound; vm_compute; reflexivity|].
  destruct (all_guardsb_sound ex_guarded) as [A B]; [vm_compute; reflexivity|].
  split; [exact A|]. split; [exact B|]. vm_compute. reflexivity.
Qed.
