(* Lemmas about Model/Codec.v: the C15 clauses. *)
From Coq Require Import List NArith String Ascii Bool.
Import ListNotations.
From Verif Require Import Common.Base Model.Fmtp Model.Codec.
Open Scope string_scope.

(* ---------- fuzzy search ---------- *)

Lemma fuzzy_search_exact : forall n hay c,
  fuzzy_search n hay = (c, MExact) -> In c hay /\ exact_ok n c = true.
Proof.
  intros n hay c H. unfold fuzzy_search in H.
  destruct (find (exact_ok n) hay) as [x|] eqn:Hf.
  - inversion H; subst. now apply find_some in Hf.
  - destruct (find (partial_ok n) hay); discriminate.
Qed.

Lemma fuzzy_search_partial : forall n hay c,
  fuzzy_search n hay = (c, MPartial) ->
  In c hay /\ partial_ok n c = true /\ forall x, In x hay -> exact_ok n x = false.
Proof.
  intros n hay c H. unfold fuzzy_search in H.
  destruct (find (exact_ok n) hay) as [x|] eqn:Hf; [discriminate|].
  destruct (find (partial_ok n) hay) as [y|] eqn:Hp; [|discriminate].
  inversion H; subst. apply find_some in Hp. destruct Hp as [Hin Hok].
  repeat split; auto. intros x Hx. exact (find_none _ _ Hf x Hx).
Qed.

Lemma fuzzy_search_none : forall n hay c,
  fuzzy_search n hay = (c, MNone) ->
  c = empty_codec /\ forall x, In x hay -> exact_ok n x = false /\ partial_ok n x = false.
Proof.
  intros n hay c H. unfold fuzzy_search in H.
  destruct (find (exact_ok n) hay) as [x|] eqn:Hf; [discriminate|].
  destruct (find (partial_ok n) hay) as [y|] eqn:Hp; [discriminate|].
  inversion H; subst. split; [reflexivity|]. intros x Hx. split.
  - exact (find_none _ _ Hf x Hx).
  - exact (find_none _ _ Hp x Hx).
Qed.

(* exact first: a partial result means no entry matches exactly *)
Lemma fuzzy_search_exact_first : forall n hay x,
  In x hay -> exact_ok n x = true -> snd (fuzzy_search n hay) = MExact.
Proof.
  intros n hay x Hin Hok. unfold fuzzy_search.
  destruct (find (exact_ok n) hay) as [y|] eqn:Hf; [reflexivity|].
  rewrite (find_none _ _ Hf x Hin) in Hok. discriminate.
Qed.

(* the fmtp line plays no part in the partial criterion; feedback and payload
   type play no part in matching at all *)
Lemma partial_ok_set_line : forall n l c, partial_ok (set_line n l) c = partial_ok n c.
Proof. reflexivity. Qed.
Lemma codec_fmtp_set_fb : forall c f, codec_fmtp (set_fb c f) = codec_fmtp c.
Proof. reflexivity. Qed.
Lemma apt_of_set_fb : forall c f, apt_of (set_fb c f) = apt_of c.
Proof. reflexivity. Qed.
Lemma c_pt_set_fb : forall c f, c_pt (set_fb c f) = c_pt c.
Proof. reflexivity. Qed.

Lemma same_but_fb_set_fb : forall r f, same_but_fb (set_fb r f) r.
Proof. intros. unfold same_but_fb. cbn. repeat split. Qed.

(* ---------- feedback ---------- *)

Lemma fb_eqb_eq : forall a b, fb_eqb a b = true <-> a = b.
Proof.
  intros [a1 a2] [b1 b2]. unfold fb_eqb. cbn [fst snd].
  rewrite andb_true_iff, !String.eqb_eq. split.
  - intros [-> ->]. reflexivity.
  - intros H. inversion H. auto.
Qed.

Lemma fb_intersection_filter : forall a b,
  fb_intersection a b = filter (fun f => existsb (fb_eqb f) b) a.
Proof.
  induction a as [|fa t IH]; intros b; [reflexivity|].
  cbn [fb_intersection filter]. rewrite IH. reflexivity.
Qed.

Lemma fb_intersection_in : forall a b f,
  In f (fb_intersection a b) <-> In f a /\ In f b.
Proof.
  intros a b f. rewrite fb_intersection_filter, filter_In, existsb_exists.
  split.
  - intros [Ha [g [Hg He]]]. apply fb_eqb_eq in He. subst. auto.
  - intros [Ha Hb]. split; [assumption|]. exists f. split; [assumption|]. now apply fb_eqb_eq.
Qed.

(* ---------- matchRemoteCodec ---------- *)

(* a match comes from a registered codec lc; the description compared with lc
   is the offered one, or (only when it has an apt parameter) the offered one
   with a rewritten fmtp line *)
Lemma match_remote_ok : forall locals rc ex pa lc m,
  match_remote locals rc ex pa = Ok (lc, m) -> m <> MNone ->
  In lc locals /\
  exists t, (t = rc \/ (apt_of rc <> None /\ exists l', t = set_line rc l')) /\
    ((m = MExact /\ exact_ok t lc = true) \/
     (m = MPartial /\ (exact_ok t lc = true \/ partial_ok rc lc = true))).
Proof.
  intros locals rc ex pa lc m H Hm. unfold match_remote in H. fold (apt_of rc) in H.
  destruct (apt_of rc) as [a|] eqn:Ha.
  - destruct (parse_uint8 a) as [p|]; [|discriminate].
    destruct (apt_lookup p ex pa) as [[ac am]|].
    + set (t := apt_rewrite locals rc ac am p) in H.
      assert (Ht : t = rc \/ (Some a <> None /\ exists l', t = set_line rc l')).
      { unfold t, apt_rewrite. destruct (fuzzy_search ac locals) as [x mx].
        destruct (mt_eqb mx am).
        - right. split; [discriminate|]. eexists. reflexivity.
        - left. reflexivity. }
      destruct (fuzzy_search t locals) as [lc' m'] eqn:Hfs.
      inversion H; subst lc m; clear H.
      assert (Hpart : forall c, partial_ok t c = partial_ok rc c).
      { intros c. destruct Ht as [->|[_ [l' ->]]]; reflexivity. }
      destruct m'.
      * exfalso. destruct am; apply Hm; reflexivity.
      * apply fuzzy_search_partial in Hfs. destruct Hfs as [Hin [Hp _]].
        split; [assumption|]. exists t. split; [exact Ht|].
        right. split; [destruct am; reflexivity|]. right. now rewrite <- Hpart.
      * apply fuzzy_search_exact in Hfs. destruct Hfs as [Hin He].
        split; [assumption|]. exists t. split; [exact Ht|].
        destruct am.
        -- left. split; [reflexivity|assumption].
        -- right. split; [reflexivity|]. left. assumption.
        -- left. split; [reflexivity|assumption].
    + inversion H; subst. exfalso. apply Hm. reflexivity.
  - inversion H as [Hfs]. destruct m.
    + exfalso. apply Hm. reflexivity.
    + apply fuzzy_search_partial in Hfs. destruct Hfs as [Hin [Hp _]].
      split; [assumption|]. exists rc. split; [left; reflexivity|].
      right. split; [reflexivity|]. right. assumption.
    + apply fuzzy_search_exact in Hfs. destruct Hfs as [Hin He].
      split; [assumption|]. exists rc. split; [left; reflexivity|].
      left. split; [reflexivity|assumption].
Qed.

(* exact only beside an exactly matched apt target *)
Lemma match_remote_apt : forall locals rc ex pa lc m a,
  match_remote locals rc ex pa = Ok (lc, m) -> m <> MNone -> apt_of rc = Some a ->
  exists p, parse_uint8 a = Some p /\
    (existsb (pt_is p) ex = true \/ (m = MPartial /\ existsb (pt_is p) pa = true)).
Proof.
  intros locals rc ex pa lc m a H Hm Ha. unfold match_remote in H. fold (apt_of rc) in H.
  rewrite Ha in H. destruct (parse_uint8 a) as [p|]; [|discriminate].
  exists p. split; [reflexivity|].
  unfold apt_lookup in H.
  destruct (find (pt_is p) ex) as [c|] eqn:Hfe.
  - left. apply find_some in Hfe. apply existsb_exists. exists c. exact Hfe.
  - destruct (find (pt_is p) pa) as [c|] eqn:Hfp.
    + right. split.
      * destruct (fuzzy_search (apt_rewrite locals rc c MPartial p) locals) as [lc' m'].
        inversion H; subst. destruct m'; try reflexivity. exfalso. apply Hm. reflexivity.
      * apply find_some in Hfp. apply existsb_exists. exists c. exact Hfp.
    + inversion H; subst. exfalso. apply Hm. reflexivity.
Qed.

Lemma match_remote_no_apt : forall locals rc ex pa,
  apt_of rc = None -> match_remote locals rc ex pa = Ok (fuzzy_search rc locals).
Proof. intros locals rc ex pa H. unfold match_remote. fold (apt_of rc). now rewrite H. Qed.

(* ---------- the two passes ---------- *)

Lemma add_if_new_in : forall l c x, In x (add_if_new l c) -> In x l \/ x = c.
Proof.
  intros l c x H. unfold add_if_new in H. destruct (existsb (pt_is (c_pt c)) l).
  - left. assumption.
  - apply in_app_or in H. destruct H as [H|[H|[]]]; auto.
Qed.

Lemma add_if_new_incl : forall l c x, In x l -> In x (add_if_new l c).
Proof.
  intros l c x H. unfold add_if_new. destruct (existsb (pt_is (c_pt c)) l); [assumption|].
  apply in_or_app. now left.
Qed.

Lemma add_if_new_has_pt : forall l c, existsb (pt_is (c_pt c)) (add_if_new l c) = true.
Proof.
  intros l c. unfold add_if_new. destruct (existsb (pt_is (c_pt c)) l) eqn:He; [assumption|].
  rewrite existsb_app, He. cbn. unfold pt_is. now rewrite N.eqb_refl.
Qed.

Lemma existsb_mono : forall (p : codec -> bool) l l',
  (forall x, In x l -> In x l') -> existsb p l = true -> existsb p l' = true.
Proof.
  intros p l l' Hincl H. apply existsb_exists in H. destruct H as [x [Hx Hp]].
  apply existsb_exists. exists x. split; auto.
Qed.

Lemma add_if_new_nonempty : forall l c, add_if_new l c <> [].
Proof.
  intros l c H. pose proof (add_if_new_has_pt l c) as Hp. rewrite H in Hp. discriminate.
Qed.

Section Passes.
  Variable locals : list codec.
  Variable rcs : list codec.

  (* what both lists hold at any time *)
  Definition lists_ok (ex pa : list codec) : Prop :=
    (forall c, In c ex -> entry_of locals rcs MExact c) /\
    (forall c, In c pa -> entry_of locals rcs MPartial c) /\
    (forall c a, In c ex -> apt_of c = Some a ->
       exists p, parse_uint8 a = Some p /\ existsb (pt_is p) ex = true) /\
    (forall c a, In c pa -> apt_of c = Some a ->
       exists p, parse_uint8 a = Some p /\
         (existsb (pt_is p) ex = true \/ existsb (pt_is p) pa = true)).

  Lemma match_pass_inv : forall rcs' ex pa ex' pa',
    (forall r, In r rcs' -> In r rcs) ->
    lists_ok ex pa ->
    match_pass locals rcs' ex pa = Ok (ex', pa') ->
    lists_ok ex' pa' /\ (forall x, In x ex -> In x ex') /\ (forall x, In x pa -> In x pa').
  Proof.
    induction rcs' as [|rc t IH]; intros ex pa ex' pa' Hsub Hok H.
    - cbn in H. inversion H; subst. auto.
    - cbn [match_pass] in H.
      destruct (match_remote locals rc ex pa) as [[lc m]|e|] eqn:Hm; try discriminate.
      assert (Hsub' : forall r, In r t -> In r rcs) by (intros r Hr; apply Hsub; now right).
      assert (Hrc : In rc rcs) by (apply Hsub; now left).
      set (rc' := set_fb rc (fb_intersection (c_fb lc) (c_fb rc))) in H.
      destruct Hok as [He [Hp [Hae Hap]]].
      destruct m.
      + (* none *) apply (IH ex pa ex' pa' Hsub'); [repeat split; assumption | exact H].
      + (* partial *)
        assert (Hok' : lists_ok ex (add_if_new pa rc')).
        { repeat split.
          - exact He.
          - intros c Hc. apply add_if_new_in in Hc. destruct Hc as [Hc|Hc]; [now apply Hp|].
            subst c. exists rc, ex, pa, lc. repeat split; assumption.
          - exact Hae.
          - intros c a Hc Ha. apply add_if_new_in in Hc. destruct Hc as [Hc|Hc].
            + destruct (Hap c a Hc Ha) as [p [Hpp [Hx|Hx]]]; exists p; split; auto.
              right. eapply existsb_mono; [|exact Hx]. intros x Hx'. now apply add_if_new_incl.
            + subst c. unfold rc' in Ha. rewrite apt_of_set_fb in Ha.
              destruct (match_remote_apt _ _ _ _ _ _ _ Hm ltac:(discriminate) Ha) as [p [Hpp [Hx|[_ Hx]]]];
                exists p; split; auto.
              right. eapply existsb_mono; [|exact Hx]. intros x Hx'. now apply add_if_new_incl. }
        destruct (IH ex (add_if_new pa rc') ex' pa' Hsub' Hok' H) as [Hr [Hie Hip]].
        split; [exact Hr|]. split; [exact Hie|]. intros x Hx. apply Hip. now apply add_if_new_incl.
      + (* exact *)
        assert (Hok' : lists_ok (add_if_new ex rc') pa).
        { repeat split.
          - intros c Hc. apply add_if_new_in in Hc. destruct Hc as [Hc|Hc]; [now apply He|].
            subst c. exists rc, ex, pa, lc. repeat split; assumption.
          - exact Hp.
          - intros c a Hc Ha. apply add_if_new_in in Hc. destruct Hc as [Hc|Hc].
            + destruct (Hae c a Hc Ha) as [p [Hpp Hx]]. exists p. split; [assumption|].
              eapply existsb_mono; [|exact Hx]. intros x Hx'. now apply add_if_new_incl.
            + subst c. unfold rc' in Ha. rewrite apt_of_set_fb in Ha.
              destruct (match_remote_apt _ _ _ _ _ _ _ Hm ltac:(discriminate) Ha) as [p [Hpp [Hx|[Hx _]]]];
                [|discriminate].
              exists p. split; [assumption|].
              eapply existsb_mono; [|exact Hx]. intros x Hx'. now apply add_if_new_incl.
          - intros c a Hc Ha. destruct (Hap c a Hc Ha) as [p [Hpp [Hx|Hx]]]; exists p; split; auto.
            left. eapply existsb_mono; [|exact Hx]. intros x Hx'. now apply add_if_new_incl. }
        destruct (IH (add_if_new ex rc') pa ex' pa' Hsub' Hok' H) as [Hr [Hie Hip]].
        split; [exact Hr|]. split; [|exact Hip]. intros x Hx. apply Hie. now apply add_if_new_incl.
  Qed.

  Lemma match_pass_grow : forall rs e0 p0 e1 p1,
    match_pass locals rs e0 p0 = Ok (e1, p1) ->
    (forall x, In x e0 -> In x e1) /\ (forall x, In x p0 -> In x p1).
  Proof.
    induction rs as [|q qs IHq]; intros e0 p0 e1 p1 Hq.
    - cbn in Hq. inversion Hq; subst. auto.
    - cbn [match_pass] in Hq.
      destruct (match_remote locals q e0 p0) as [[lq mq]|eq|]; try discriminate.
      destruct mq.
      + now apply IHq.
      + destruct (IHq _ _ _ _ Hq) as [H1 H2]. split; [exact H1|].
        intros x Hx. apply H2. now apply add_if_new_incl.
      + destruct (IHq _ _ _ _ Hq) as [H1 H2]. split; [|exact H2].
        intros x Hx. apply H1. now apply add_if_new_incl.
  Qed.

  (* an offered codec without apt parameter that matches exactly makes the
     exact list non-empty *)
  Lemma match_pass_exact_nonempty : forall rcs' ex pa ex' pa' r,
    match_pass locals rcs' ex pa = Ok (ex', pa') ->
    In r rcs' -> apt_of r = None -> snd (fuzzy_search r locals) = MExact ->
    ex' <> [].
  Proof.
    induction rcs' as [|rc t IH]; intros ex pa ex' pa' r H Hin Hapt Hex; [destruct Hin|].
    cbn [match_pass] in H.
    destruct (match_remote locals rc ex pa) as [[lc m]|e|] eqn:Hm; try discriminate.
    destruct Hin as [->|Hin].
    - rewrite (match_remote_no_apt _ _ _ _ Hapt) in Hm.
      destruct (fuzzy_search r locals) as [lc0 m0]. cbn in Hex. subst m0.
      inversion Hm; subst lc m.
      set (rc' := set_fb r (fb_intersection (c_fb lc0) (c_fb r))) in H.
      pose proof (add_if_new_has_pt ex rc') as Hhas.
      apply existsb_exists in Hhas. destruct Hhas as [x [Hx _]].
      destruct (match_pass_grow _ _ _ _ _ H) as [Hg _].
      specialize (Hg x Hx). intros ->. destruct Hg.
    - destruct m; eapply IH; eauto.
  Qed.

  Lemma lists_ok_nil : lists_ok [] [].
  Proof.
    unfold lists_ok. split; [|split; [|split]].
    - intros c [].
    - intros c [].
    - intros c a [].
    - intros c a [].
  Qed.

  Lemma match_passes_ok : forall ep,
    match_passes locals rcs = Ok ep -> lists_ok (fst ep) (snd ep).
  Proof.
    intros [ex2 pa2] H. unfold match_passes, rbind in H.
    destruct (match_pass locals rcs [] []) as [[ex1 pa1]|e|] eqn:H1; try discriminate.
    cbn [fst snd] in *.
    destruct (match_pass_inv rcs [] [] ex1 pa1 (fun r Hr => Hr) lists_ok_nil H1) as [Hok1 _].
    destruct (match_pass_inv rcs ex1 pa1 ex2 pa2 (fun r Hr => Hr) Hok1 H) as [Hok2 _].
    exact Hok2.
  Qed.

  Lemma match_passes_exact_nonempty : forall ep r,
    match_passes locals rcs = Ok ep ->
    In r rcs -> apt_of r = None -> snd (fuzzy_search r locals) = MExact ->
    fst ep <> [].
  Proof.
    intros [ex2 pa2] r H Hin Hapt Hex. unfold match_passes, rbind in H.
    destruct (match_pass locals rcs [] []) as [[ex1 pa1]|e|] eqn:H1; try discriminate.
    cbn [fst snd] in *.
    exact (match_pass_exact_nonempty rcs ex1 pa1 ex2 pa2 r H Hin Hapt Hex).
  Qed.

  (* chosen: the exact list when it is not empty, else the partial one *)
  Lemma chosen_cases : forall ep,
    (fst ep <> [] /\ chosen ep = fst ep) \/ (fst ep = [] /\ chosen ep = snd ep).
  Proof.
    intros [ex pa]. unfold chosen. cbn [fst snd]. destruct ex.
    - right. auto.
    - left. split; [discriminate|reflexivity].
  Qed.

  Lemma chosen_entry : forall ep c,
    match_passes locals rcs = Ok ep -> In c (chosen ep) ->
    exists m, m <> MNone /\ entry_of locals rcs m c.
  Proof.
    intros ep c H Hc. destruct (match_passes_ok ep H) as [He [Hp _]].
    destruct (chosen_cases ep) as [[_ Hch]|[_ Hch]]; rewrite Hch in Hc.
    - exists MExact. split; [discriminate|]. now apply He.
    - exists MPartial. split; [discriminate|]. now apply Hp.
  Qed.

  (* exact preferred *)
  Lemma chosen_exact_preferred : forall ep r,
    match_passes locals rcs = Ok ep ->
    In r rcs -> apt_of r = None -> snd (fuzzy_search r locals) = MExact ->
    chosen ep <> [] /\ forall c, In c (chosen ep) -> entry_of locals rcs MExact c.
  Proof.
    intros ep r H Hin Hapt Hex.
    pose proof (match_passes_exact_nonempty ep r H Hin Hapt Hex) as Hne.
    destruct (match_passes_ok ep H) as [He _].
    destruct (chosen_cases ep) as [[_ Hch]|[Hnil _]]; [|contradiction].
    rewrite Hch. split; [exact Hne|exact He].
  Qed.

  (* RTX follows its primary *)
  Lemma chosen_apt : forall ep c a,
    match_passes locals rcs = Ok ep -> In c (chosen ep) -> apt_of c = Some a ->
    exists p, parse_uint8 a = Some p /\ has_pt p (chosen ep).
  Proof.
    intros ep c a H Hc Ha. destruct (match_passes_ok ep H) as [_ [_ [Hae Hap]]].
    destruct (chosen_cases ep) as [[_ Hch]|[Hnil Hch]]; rewrite Hch in *.
    - destruct (Hae c a Hc Ha) as [p [Hp Hx]]. exists p. split; [assumption|].
      apply existsb_exists in Hx. destruct Hx as [q [Hq Hpt]]. exists q. split; [assumption|].
      unfold pt_is in Hpt. now apply N.eqb_eq.
    - destruct (Hap c a Hc Ha) as [p [Hp [Hx|Hx]]]; [rewrite Hnil in Hx; discriminate|].
      exists p. split; [assumption|].
      apply existsb_exists in Hx. destruct Hx as [q [Hq Hpt]]. exists q. split; [assumption|].
      unfold pt_is in Hpt. now apply N.eqb_eq.
  Qed.
End Passes.

(* ---------- entries: what an entry says about the offer and the registrations ---------- *)

Lemma entry_offered : forall locals rcs m c,
  entry_of locals rcs m c -> exists r, In r rcs /\ same_but_fb c r.
Proof.
  intros locals rcs m c [r [ex [pa [lc [Hin [_ ->]]]]]]. exists r. split; [assumption|].
  apply same_but_fb_set_fb.
Qed.

Lemma entry_matched : forall locals rcs m c,
  m <> MNone -> entry_of locals rcs m c ->
  exists r lc, In r rcs /\ same_but_fb c r /\ In lc locals /\
    c_fb c = filter (fun f => existsb (fb_eqb f) (c_fb r)) (c_fb lc) /\
    exists t, (t = r \/ (apt_of r <> None /\ exists l', t = set_line r l')) /\
      ((m = MExact /\ exact_ok t lc = true) \/
       (m = MPartial /\ (exact_ok t lc = true \/ partial_ok r lc = true))).
Proof.
  intros locals rcs m c Hm [r [ex [pa [lc [Hin [Hmr ->]]]]]].
  destruct (match_remote_ok _ _ _ _ _ _ Hmr Hm) as [Hlc Ht].
  exists r, lc. repeat split; try assumption.
  cbn [c_fb set_fb]. apply fb_intersection_filter.
Qed.

(* ---------- addCodec / pushCodecs ---------- *)

Lemma add_codec_in : forall l c x, In x (fst (add_codec l c)) -> In x l \/ x = c.
Proof.
  intros l c x H. unfold add_codec in H.
  destruct (find (fun y => N.eqb (c_pt y) (c_pt c)) l) as [y|].
  - destruct (same_codec_for_add y c); cbn in H; auto.
  - cbn in H. apply in_app_or in H. destruct H as [H|[H|[]]]; auto.
Qed.

Lemma add_codec_incl : forall l c x, In x l -> In x (fst (add_codec l c)).
Proof.
  intros l c x H. unfold add_codec.
  destruct (find (fun y => N.eqb (c_pt y) (c_pt c)) l) as [y|].
  - destruct (same_codec_for_add y c); cbn; assumption.
  - cbn. apply in_or_app. now left.
Qed.

Lemma add_codec_has_pt : forall l c, has_pt (c_pt c) (fst (add_codec l c)).
Proof.
  intros l c. unfold add_codec.
  destruct (find (fun y => N.eqb (c_pt y) (c_pt c)) l) as [y|] eqn:Hf.
  - apply find_some in Hf. destruct Hf as [Hin Hpt]. apply N.eqb_eq in Hpt.
    exists y. destruct (same_codec_for_add y c); cbn; auto.
  - exists c. cbn. split; [apply in_or_app; right; now left|reflexivity].
Qed.

Definition push_step (st : list codec * bool) (c : codec) : list codec * bool :=
  let '(l, e) := add_codec (fst st) c in (l, snd st || e).

Lemma push_codecs_fold : forall neg cs, push_codecs neg cs = fold_left push_step cs (neg, false).
Proof. reflexivity. Qed.

Lemma push_step_fst : forall st c, fst (push_step st c) = fst (add_codec (fst st) c).
Proof. intros st c. unfold push_step. now destruct (add_codec (fst st) c). Qed.

Lemma push_fold_in : forall cs st x,
  In x (fst (fold_left push_step cs st)) -> In x (fst st) \/ In x cs.
Proof.
  induction cs as [|c t IH]; intros st x H; [left; exact H|].
  cbn [fold_left] in H. apply IH in H. destruct H as [H|H]; [|right; now right].
  rewrite push_step_fst in H. apply add_codec_in in H.
  destruct H as [H| ->]; [now left|right; now left].
Qed.

Lemma push_fold_keeps : forall cs st x,
  In x (fst st) -> In x (fst (fold_left push_step cs st)).
Proof.
  induction cs as [|c t IH]; intros st x H; [exact H|].
  cbn [fold_left]. apply IH. rewrite push_step_fst. now apply add_codec_incl.
Qed.

Lemma push_codecs_in : forall cs neg x,
  In x (fst (push_codecs neg cs)) -> In x neg \/ In x cs.
Proof. intros cs neg x H. rewrite push_codecs_fold in H. exact (push_fold_in cs (neg, false) x H). Qed.

Lemma push_codecs_keeps : forall cs neg x, In x neg -> In x (fst (push_codecs neg cs)).
Proof. intros cs neg x H. rewrite push_codecs_fold. exact (push_fold_keeps cs (neg, false) x H). Qed.

Lemma has_pt_mono : forall p l l', (forall x, In x l -> In x l') -> has_pt p l -> has_pt p l'.
Proof. intros p l l' Hi [q [Hq Hp]]. exists q. auto. Qed.

(* every payload type pushed is a payload type of the negotiated list afterwards
   (addCodec refuses a codec only when its payload type is already there) *)
Lemma push_fold_has_pt : forall cs st c,
  In c cs -> has_pt (c_pt c) (fst (fold_left push_step cs st)).
Proof.
  induction cs as [|d t IH]; intros st c H; [destruct H|].
  cbn [fold_left]. destruct H as [->|H]; [|now apply IH].
  eapply has_pt_mono; [|exact (add_codec_has_pt (fst st) c)].
  intros x Hx. apply push_fold_keeps. now rewrite push_step_fst.
Qed.

Lemma push_codecs_has_pt : forall cs neg c,
  In c cs -> has_pt (c_pt c) (fst (push_codecs neg cs)).
Proof. intros cs neg c H. rewrite push_codecs_fold. now apply push_fold_has_pt. Qed.

(* ---------- updateFromRemoteDescription ---------- *)

(* where a negotiated codec of kind k can come from in one loop iteration *)
Definition from_section (locals : list codec) (k : kind) (s : rsection) (c : codec) : Prop :=
  exists ep, fst s = k /\ match_passes locals (snd s) = Ok ep /\ In c (chosen ep).

Lemma update_section_spec : forall e s e' x err,
  update_section e s = (e', x, err) ->
  e_video e' = e_video e /\ e_audio e' = e_audio e /\ e_multi e' = e_multi e /\
  (forall c, In c (e_nvideo e) -> In c (e_nvideo e')) /\
  (forall c, In c (e_naudio e) -> In c (e_naudio e')) /\
  (forall c, In c (e_nvideo e') -> In c (e_nvideo e) \/ from_section (e_video e) KVideo s c) /\
  (forall c, In c (e_naudio e') -> In c (e_naudio e) \/ from_section (e_audio e) KAudio s c).
Proof.
  intros e [k rcs] e' x err H. unfold update_section in H.
  destruct k; cbn [negb kind_eqb andb orb] in H.
  - (* unknown kind: never reaches the codecs *)
    rewrite andb_false_r in H. cbn in H. inversion H; subst.
    repeat split; auto.
  - (* audio *)
    destruct (e_negA e) eqn:HA; cbn [negb orb] in H.
    + rewrite andb_true_r in H. destruct (e_multi e) eqn:HM; cbn [negb] in H.
      * cbn [locals_of] in H.
        destruct (match_passes (e_audio e) rcs) as [ep|er|] eqn:Hmp.
        -- destruct (chosen ep) as [|c0 cs] eqn:Hch.
           ++ inversion H; subst. repeat split; auto.
           ++ destruct (push_codecs (e_naudio e) (c0 :: cs)) as [l bad] eqn:Hpush.
              assert (Hl : l = fst (push_codecs (e_naudio e) (c0 :: cs))) by now rewrite Hpush.
              destruct bad; inversion H; subst e' x err; cbn [e_video e_audio e_multi e_nvideo e_naudio];
                (repeat split; auto;
                 [ intros c Hc; rewrite Hl; now apply push_codecs_keeps
                 | intros c Hc; rewrite Hl in Hc; apply push_codecs_in in Hc;
                   destruct Hc as [Hc|Hc]; [now left|right; exists ep; cbn [fst snd]; rewrite Hch; auto] ]).
        -- inversion H; subst. repeat split; auto.
        -- inversion H; subst. repeat split; auto.
      * inversion H; subst. repeat split; auto.
    + cbn [locals_of e_audio] in H.
      destruct (match_passes (e_audio e) rcs) as [ep|er|] eqn:Hmp.
      * destruct (chosen ep) as [|c0 cs] eqn:Hch.
        -- inversion H; subst. cbn. repeat split; auto.
        -- cbn [e_naudio e_video e_audio e_negV e_negA e_multi e_nvideo] in H.
           destruct (push_codecs (e_naudio e) (c0 :: cs)) as [l bad] eqn:Hpush.
           assert (Hl : l = fst (push_codecs (e_naudio e) (c0 :: cs))) by now rewrite Hpush.
           destruct bad; inversion H; subst e' x err; cbn [e_video e_audio e_multi e_nvideo e_naudio];
             (repeat split; auto;
              [ intros c Hc; rewrite Hl; now apply push_codecs_keeps
              | intros c Hc; rewrite Hl in Hc; apply push_codecs_in in Hc;
                destruct Hc as [Hc|Hc]; [now left|right; exists ep; cbn [fst snd]; rewrite Hch; auto] ]).
      * inversion H; subst. cbn. repeat split; auto.
      * inversion H; subst. cbn. repeat split; auto.
  - (* video *)
    destruct (e_negV e) eqn:HV; cbn [negb orb] in H.
    + rewrite andb_true_r in H. destruct (e_multi e) eqn:HM; cbn [negb] in H.
      * cbn [locals_of] in H.
        destruct (match_passes (e_video e) rcs) as [ep|er|] eqn:Hmp.
        -- destruct (chosen ep) as [|c0 cs] eqn:Hch.
           ++ inversion H; subst. repeat split; auto.
           ++ destruct (push_codecs (e_nvideo e) (c0 :: cs)) as [l bad] eqn:Hpush.
              assert (Hl : l = fst (push_codecs (e_nvideo e) (c0 :: cs))) by now rewrite Hpush.
              destruct bad; inversion H; subst e' x err; cbn [e_video e_audio e_multi e_nvideo e_naudio];
                (repeat split; auto;
                 [ intros c Hc; rewrite Hl; now apply push_codecs_keeps
                 | intros c Hc; rewrite Hl in Hc; apply push_codecs_in in Hc;
                   destruct Hc as [Hc|Hc]; [now left|right; exists ep; cbn [fst snd]; rewrite Hch; auto] ]).
        -- inversion H; subst. repeat split; auto.
        -- inversion H; subst. repeat split; auto.
      * inversion H; subst. repeat split; auto.
    + cbn [locals_of e_video] in H.
      destruct (match_passes (e_video e) rcs) as [ep|er|] eqn:Hmp.
      * destruct (chosen ep) as [|c0 cs] eqn:Hch.
        -- inversion H; subst. cbn. repeat split; auto.
        -- cbn [e_naudio e_video e_audio e_negV e_negA e_multi e_nvideo] in H.
           destruct (push_codecs (e_nvideo e) (c0 :: cs)) as [l bad] eqn:Hpush.
           assert (Hl : l = fst (push_codecs (e_nvideo e) (c0 :: cs))) by now rewrite Hpush.
           destruct bad; inversion H; subst e' x err; cbn [e_video e_audio e_multi e_nvideo e_naudio];
             (repeat split; auto;
              [ intros c Hc; rewrite Hl; now apply push_codecs_keeps
              | intros c Hc; rewrite Hl in Hc; apply push_codecs_in in Hc;
                destruct Hc as [Hc|Hc]; [now left|right; exists ep; cbn [fst snd]; rewrite Hch; auto] ]).
      * inversion H; subst. cbn. repeat split; auto.
      * inversion H; subst. cbn. repeat split; auto.
Qed.

Lemma update_from_remote_spec : forall secs e e' res,
  update_from_remote e secs = (e', res) ->
  e_video e' = e_video e /\ e_audio e' = e_audio e /\
  (forall c, In c (e_nvideo e) -> In c (e_nvideo e')) /\
  (forall c, In c (e_naudio e) -> In c (e_naudio e')) /\
  (forall c, In c (e_nvideo e') ->
     In c (e_nvideo e) \/ exists s, In s secs /\ from_section (e_video e) KVideo s c) /\
  (forall c, In c (e_naudio e') ->
     In c (e_naudio e) \/ exists s, In s secs /\ from_section (e_audio e) KAudio s c).
Proof.
  induction secs as [|s t IH]; intros e e' res H.
  - cbn in H. inversion H; subst. repeat split; auto.
  - cbn [update_from_remote] in H.
    destruct (update_section e s) as [[e1 x] err] eqn:Hs.
    destruct (update_section_spec _ _ _ _ _ Hs) as [Hv [Ha [_ [Hkv [Hka [Hnv Hna]]]]]].
    destruct err as [msg|].
    + inversion H; subst e' res. repeat split; auto.
      * intros c Hc. destruct (Hnv c Hc) as [Hc'|Hc']; [now left|right]. exists s. split; [now left|assumption].
      * intros c Hc. destruct (Hna c Hc) as [Hc'|Hc']; [now left|right]. exists s. split; [now left|assumption].
    + destruct (IH _ _ _ H) as [Hv' [Ha' [Hkv' [Hka' [Hnv' Hna']]]]].
      rewrite Hv in Hv', Hnv'. rewrite Ha in Ha', Hna'.
      repeat split; auto.
      * intros c Hc. destruct (Hnv' c Hc) as [Hc'|[s' [Hs' Hf]]].
        -- destruct (Hnv c Hc') as [Hc''|Hc'']; [now left|right]. exists s. split; [now left|assumption].
        -- right. exists s'. split; [now right|assumption].
      * intros c Hc. destruct (Hna' c Hc) as [Hc'|[s' [Hs' Hf]]].
        -- destruct (Hna c Hc') as [Hc''|Hc'']; [now left|right]. exists s. split; [now left|assumption].
        -- right. exists s'. split; [now right|assumption].
Qed.

(* the statement for an engine that has negotiated nothing yet, by kind *)
Definition negotiated_of (e : engine) (k : kind) : list codec :=
  match k with KAudio => e_naudio e | _ => e_nvideo e end.

Lemma negotiated_from_offer : forall video audio multi secs e' res k c,
  k = KVideo \/ k = KAudio ->
  update_from_remote (new_engine video audio multi) secs = (e', res) ->
  In c (negotiated_of e' k) ->
  exists rcs m, In (k, rcs) secs /\ m <> MNone /\
    entry_of (locals_of (new_engine video audio multi) k) rcs m c.
Proof.
  intros video audio multi secs e' res k c Hk H Hc.
  destruct (update_from_remote_spec _ _ _ _ H) as [_ [_ [_ [_ [Hnv Hna]]]]].
  destruct Hk as [-> | ->]; cbn [negotiated_of locals_of new_engine e_video e_audio] in *.
  - destruct (Hnv c Hc) as [[]|[[k' rcs] [Hs [ep [Hk' [Hmp Hin]]]]]]. cbn [fst snd] in *. subst k'.
    destruct (chosen_entry _ _ _ _ Hmp Hin) as [m [Hm He]]. exists rcs, m. auto.
  - destruct (Hna c Hc) as [[]|[[k' rcs] [Hs [ep [Hk' [Hmp Hin]]]]]]. cbn [fst snd] in *. subst k'.
    destruct (chosen_entry _ _ _ _ Hmp Hin) as [m [Hm He]]. exists rcs, m. auto.
Qed.

(* ---------- getCodecByPayload ---------- *)

Lemma lookup_negotiated_video : forall e p c,
  e_negV e = true -> find (pt_is p) (e_nvideo e) = Some c ->
  get_codec_by_payload e p = Ok (c, KVideo).
Proof. intros e p c Hn Hf. unfold get_codec_by_payload. now rewrite Hn, Hf. Qed.

Lemma lookup_negotiated_audio : forall e p c,
  (e_negV e = true -> find (pt_is p) (e_nvideo e) = None) ->
  e_negA e = true -> find (pt_is p) (e_naudio e) = Some c ->
  get_codec_by_payload e p = Ok (c, KAudio).
Proof.
  intros e p c Hv Hn Hf. unfold get_codec_by_payload.
  destruct (e_negV e); [rewrite (Hv eq_refl)|]; now rewrite Hn, Hf.
Qed.

(* once a kind is negotiated its registered list is never consulted *)
Lemma lookup_source : forall e p c k,
  get_codec_by_payload e p = Ok (c, k) ->
  c_pt c = p /\
  ((k = KVideo /\ if e_negV e then In c (e_nvideo e) else In c (e_video e)) \/
   (k = KAudio /\ if e_negA e then In c (e_naudio e) else In c (e_audio e))).
Proof.
  intros e p c k H. unfold get_codec_by_payload in H.
  assert (F : forall l x, find (pt_is p) l = Some x -> In x l /\ c_pt x = p).
  { intros l x Hx. apply find_some in Hx. destruct Hx as [Hi Hp]. split; [assumption|].
    unfold pt_is in Hp. now apply N.eqb_eq. }
  destruct (e_negV e) eqn:HV; destruct (e_negA e) eqn:HA; cbn [negb] in H.
  - destruct (find (pt_is p) (e_nvideo e)) eqn:F1; [inversion H; subst; destruct (F _ _ F1); auto|].
    destruct (find (pt_is p) (e_naudio e)) eqn:F2; [inversion H; subst; destruct (F _ _ F2); auto|].
    discriminate.
  - destruct (find (pt_is p) (e_nvideo e)) eqn:F1; [inversion H; subst; destruct (F _ _ F1); auto|].
    destruct (find (pt_is p) (e_audio e)) eqn:F2; [inversion H; subst; destruct (F _ _ F2); auto|].
    discriminate.
  - destruct (find (pt_is p) (e_naudio e)) eqn:F1; [inversion H; subst; destruct (F _ _ F1); auto|].
    destruct (find (pt_is p) (e_video e)) eqn:F2; [inversion H; subst; destruct (F _ _ F2); auto|].
    discriminate.
  - destruct (find (pt_is p) (e_video e)) eqn:F1; [inversion H; subst; destruct (F _ _ F1); auto|].
    destruct (find (pt_is p) (e_audio e)) eqn:F2; [inversion H; subst; destruct (F _ _ F2); auto|].
    discriminate.
Qed.

(* the negotiated lists change only by pushing the chosen list of a section *)
Lemma update_section_push : forall e s e' x err,
  update_section e s = (e', x, err) ->
  (e_nvideo e' = e_nvideo e \/
   exists ep, fst s = KVideo /\ match_passes (e_video e) (snd s) = Ok ep /\
              e_nvideo e' = fst (push_codecs (e_nvideo e) (chosen ep))) /\
  (e_naudio e' = e_naudio e \/
   exists ep, fst s = KAudio /\ match_passes (e_audio e) (snd s) = Ok ep /\
              e_naudio e' = fst (push_codecs (e_naudio e) (chosen ep))).
Proof.
  intros e [k rcs] e' x err H. unfold update_section in H.
  destruct k; destruct (e_negA e) eqn:HA; destruct (e_negV e) eqn:HV; destruct (e_multi e) eqn:HM;
    cbn [negb kind_eqb andb orb locals_of e_video e_audio e_nvideo e_naudio e_negV e_negA e_multi] in H;
    repeat (match type of H with
            | context [match ?y with _ => _ end] => destruct y eqn:?
            end);
    inversion H; subst; cbn [e_nvideo e_naudio fst snd]; split; auto;
    right; eexists; (split; [reflexivity|]); (split; [eassumption|]);
    match goal with
    | Hc : chosen _ = _, Hp : push_codecs _ _ = _ |- _ => rewrite Hc, Hp; reflexivity
    end.
Qed.

Lemma section_rtx_follows_primary_video : forall e s e' x err c a,
  update_section e s = (e', x, err) ->
  In c (e_nvideo e') -> ~ In c (e_nvideo e) -> apt_of c = Some a ->
  exists p, parse_uint8 a = Some p /\ has_pt p (e_nvideo e').
Proof.
  intros e s e' x err c a H Hc Hn Ha.
  destruct (update_section_push _ _ _ _ _ H) as [[Heq|[ep [Hk [Hmp Heq]]]] _].
  - rewrite Heq in Hc. contradiction.
  - rewrite Heq in Hc. apply push_codecs_in in Hc. destruct Hc as [Hc|Hc]; [contradiction|].
    destruct (chosen_apt _ _ _ _ _ Hmp Hc Ha) as [p [Hp [q [Hq Hpt]]]].
    exists p. split; [assumption|]. rewrite Heq, <- Hpt. now apply push_codecs_has_pt.
Qed.

Lemma section_rtx_follows_primary_audio : forall e s e' x err c a,
  update_section e s = (e', x, err) ->
  In c (e_naudio e') -> ~ In c (e_naudio e) -> apt_of c = Some a ->
  exists p, parse_uint8 a = Some p /\ has_pt p (e_naudio e').
Proof.
  intros e s e' x err c a H Hc Hn Ha.
  destruct (update_section_push _ _ _ _ _ H) as [_ [Heq|[ep [Hk [Hmp Heq]]]]].
  - rewrite Heq in Hc. contradiction.
  - rewrite Heq in Hc. apply push_codecs_in in Hc. destruct Hc as [Hc|Hc]; [contradiction|].
    destruct (chosen_apt _ _ _ _ _ Hmp Hc Ha) as [p [Hp [q [Hq Hpt]]]].
    exists p. split; [assumption|]. rewrite Heq, <- Hpt. now apply push_codecs_has_pt.
Qed.

(* over whole descriptions: every negotiated codec with an apt parameter names
   the payload type of a negotiated codec *)
Definition apt_closed (l : list codec) : Prop :=
  forall c a, In c l -> apt_of c = Some a -> exists p, parse_uint8 a = Some p /\ has_pt p l.

Lemma push_apt_closed : forall locals rcs ep neg,
  match_passes locals rcs = Ok ep -> apt_closed neg ->
  apt_closed (fst (push_codecs neg (chosen ep))).
Proof.
  intros locals rcs ep neg Hmp Hcl c a Hc Ha.
  apply push_codecs_in in Hc. destruct Hc as [Hc|Hc].
  - destruct (Hcl c a Hc Ha) as [p [Hp Hh]]. exists p. split; [assumption|].
    eapply has_pt_mono; [|exact Hh]. intros x Hx. now apply push_codecs_keeps.
  - destruct (chosen_apt _ _ _ _ _ Hmp Hc Ha) as [p [Hp [q [Hq Hpt]]]].
    exists p. split; [assumption|]. rewrite <- Hpt. now apply push_codecs_has_pt.
Qed.

Lemma update_section_apt_closed : forall e s e' x err,
  update_section e s = (e', x, err) ->
  (apt_closed (e_nvideo e) -> apt_closed (e_nvideo e')) /\
  (apt_closed (e_naudio e) -> apt_closed (e_naudio e')).
Proof.
  intros e s e' x err H.
  destruct (update_section_push _ _ _ _ _ H) as [[Hv|[ep [_ [Hmp Hv]]]] [Ha|[ep' [_ [Hmp' Ha]]]]];
    rewrite Hv, Ha; split; auto; intros Hcl; eapply push_apt_closed; eauto.
Qed.

Lemma update_from_remote_apt_closed : forall secs e e' res,
  update_from_remote e secs = (e', res) ->
  (apt_closed (e_nvideo e) -> apt_closed (e_nvideo e')) /\
  (apt_closed (e_naudio e) -> apt_closed (e_naudio e')).
Proof.
  induction secs as [|s t IH]; intros e e' res H.
  - cbn in H. inversion H; subst. auto.
  - cbn [update_from_remote] in H.
    destruct (update_section e s) as [[e1 x] err] eqn:Hs.
    destruct (update_section_apt_closed _ _ _ _ _ Hs) as [H1 H2].
    destruct err.
    + inversion H; subst. auto.
    + destruct (IH _ _ _ H) as [H3 H4]. auto.
Qed.

Lemma rtx_follows_primary : forall video audio multi secs e' res k c a,
  update_from_remote (new_engine video audio multi) secs = (e', res) ->
  In c (negotiated_of e' k) -> apt_of c = Some a ->
  exists p, parse_uint8 a = Some p /\ has_pt p (negotiated_of e' k).
Proof.
  intros video audio multi secs e' res k c a H Hc Ha.
  destruct (update_from_remote_apt_closed _ _ _ _ H) as [Hv Hau].
  assert (Hnil : apt_closed []) by (intros ? ? []).
  destruct k; cbn [negotiated_of] in *.
  - exact (Hv Hnil c a Hc Ha).
  - exact (Hau Hnil c a Hc Ha).
  - exact (Hv Hnil c a Hc Ha).
Qed.

(* ---------- the C15 clauses over a fresh engine ---------- *)

Lemma negotiated_offered : forall video audio multi secs e' res k c,
  k = KVideo \/ k = KAudio ->
  update_from_remote (new_engine video audio multi) secs = (e', res) ->
  In c (negotiated_of e' k) ->
  exists rcs r, In (k, rcs) secs /\ In r rcs /\ same_but_fb c r.
Proof.
  intros video audio multi secs e' res k c Hk H Hc.
  destruct (negotiated_from_offer _ _ _ _ _ _ _ _ Hk H Hc) as [rcs [m [Hs [_ He]]]].
  destruct (entry_offered _ _ _ _ He) as [r [Hr Hsame]]. exists rcs, r. auto.
Qed.

Lemma negotiated_matched : forall video audio multi secs e' res k c,
  k = KVideo \/ k = KAudio ->
  update_from_remote (new_engine video audio multi) secs = (e', res) ->
  In c (negotiated_of e' k) ->
  exists rcs r lc, In (k, rcs) secs /\ In r rcs /\ same_but_fb c r /\
    In lc (match k with KAudio => audio | _ => video end) /\
    c_fb c = filter (fun f => existsb (fb_eqb f) (c_fb r)) (c_fb lc) /\
    exists t, (t = r \/ (apt_of r <> None /\ exists l', t = set_line r l')) /\
              (exact_ok t lc = true \/ partial_ok r lc = true).
Proof.
  intros video audio multi secs e' res k c Hk H Hc.
  destruct (negotiated_from_offer _ _ _ _ _ _ _ _ Hk H Hc) as [rcs [m [Hs [Hm He]]]].
  destruct (entry_matched _ _ _ _ Hm He) as [r [lc [Hr [Hsame [Hlc [Hfb [t [Ht Hmt]]]]]]]].
  exists rcs, r, lc.
  split; [exact Hs|]. split; [exact Hr|]. split; [exact Hsame|].
  split; [destruct Hk as [-> | ->]; exact Hlc|]. split; [exact Hfb|].
  exists t. split; [assumption|]. destruct Hmt as [[_ Hx]|[_ [Hx|Hx]]]; auto.
Qed.

(* what one section contributes comes from its chosen list *)
Lemma section_contribution : forall e s e' x err c,
  update_section e s = (e', x, err) ->
  (In c (e_nvideo e') -> In c (e_nvideo e) \/
     exists ep, fst s = KVideo /\ match_passes (e_video e) (snd s) = Ok ep /\ In c (chosen ep)) /\
  (In c (e_naudio e') -> In c (e_naudio e) \/
     exists ep, fst s = KAudio /\ match_passes (e_audio e) (snd s) = Ok ep /\ In c (chosen ep)).
Proof.
  intros e s e' x err c H.
  destruct (update_section_spec _ _ _ _ _ H) as [_ [_ [_ [_ [_ [Hv Ha]]]]]].
  split; intros Hc; [destruct (Hv c Hc)|destruct (Ha c Hc)]; auto.
Qed.

Lemma feedback_is_intersection : forall a b f,
  fb_intersection a b = filter (fun x => existsb (fb_eqb x) b) a /\
  (In f (fb_intersection a b) <-> In f a /\ In f b).
Proof. intros a b f. split; [apply fb_intersection_filter | apply fb_intersection_in]. Qed.

Lemma fuzzy_search_spec : forall n hay c,
  (fuzzy_search n hay = (c, MExact) -> In c hay /\ exact_ok n c = true) /\
  (fuzzy_search n hay = (c, MPartial) ->
     In c hay /\ partial_ok n c = true /\ forall x, In x hay -> exact_ok n x = false) /\
  (fuzzy_search n hay = (c, MNone) ->
     c = empty_codec /\ forall x, In x hay -> exact_ok n x = false /\ partial_ok n x = false).
Proof.
  intros n hay c. split; [apply fuzzy_search_exact|split; [apply fuzzy_search_partial|apply fuzzy_search_none]].
Qed.

Lemma lookup_order : forall e p,
  (forall c, e_negV e = true -> find (pt_is p) (e_nvideo e) = Some c ->
     get_codec_by_payload e p = Ok (c, KVideo)) /\
  (forall c, (e_negV e = true -> find (pt_is p) (e_nvideo e) = None) ->
     e_negA e = true -> find (pt_is p) (e_naudio e) = Some c ->
     get_codec_by_payload e p = Ok (c, KAudio)) /\
  (forall c k, get_codec_by_payload e p = Ok (c, k) ->
     c_pt c = p /\
     ((k = KVideo /\ if e_negV e then In c (e_nvideo e) else In c (e_video e)) \/
      (k = KAudio /\ if e_negA e then In c (e_naudio e) else In c (e_audio e)))).
Proof.
  intros e p. split; [|split].
  - intros c. apply lookup_negotiated_video.
  - intros c. apply lookup_negotiated_audio.
  - apply lookup_source.
Qed.
