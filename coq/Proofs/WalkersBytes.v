(* C30, part 2: the byte-level guards of the receive path never reach a
   panicking index or slice expression, under the reader contract stated in
   the theorems (bytes read fit the buffer; at least one byte was read; the
   buffer has the size of a sane receive MTU). *)
From Coq Require Import List ZArith NArith String Bool Lia Arith ZifyBool ZifyNat ZifyN.
Import ListNotations.
From Verif Require Import Common.V Common.Base Model.Walkers Proofs.Walkers.
Open Scope nat_scope.
Open Scope list_scope.

Lemma slice_ok {A} (l : list A) i j :
  i <= j -> j <= List.length l ->
  exists r, slice l i j = Some r /\ List.length r = j - i.
Proof.
  intros Hij Hj. unfold slice.
  assert (H1 : Nat.leb i j = true) by (apply Nat.leb_le; lia).
  assert (H2 : Nat.leb j (List.length l) = true) by (apply Nat.leb_le; lia).
  rewrite H1, H2. cbn [andb]. eexists. split; [reflexivity |].
  rewrite firstn_length, skipn_length. lia.
Qed.

Lemma slice2 {A} (l : list A) i :
  i + 2 <= List.length l -> exists x y, slice l i (i + 2) = Some [x; y].
Proof.
  intros H. destruct (slice_ok l i (i + 2)) as [r [Hr Hl]]; [lia | lia |].
  replace (i + 2 - i) with 2 in Hl by lia.
  destruct r as [| x [| y [| z r]]]; cbn in Hl; try lia. eauto.
Qed.

Lemma upd_nth_length {A} : forall (l : list A) i x, List.length (upd_nth i x l) = List.length l.
Proof.
  induction l as [| h t IH]; intros i x; cbn.
  - destruct i; reflexivity.
  - destruct i; cbn; [reflexivity | rewrite IH; reflexivity].
Qed.

Lemma land15 b0 : (N.land b0 15 <= 15)%N.
Proof.
  change 15%N with (N.ones 4) at 1. rewrite N.land_ones.
  pose proof (N.mod_lt b0 (2 ^ 4)%N). cbn in *. lia.
Qed.

Lemma u16_le x : (u16 x <= x)%N.
Proof. unfold u16. apply N.mod_le. discriminate. Qed.

(* peerconnection.go handleIncomingSSRC: if i < 4 { return errRTPTooShort };
   b[1] & 0x7f.  i bytes were peeked into b. *)
Theorem incoming_guard_no_panic : forall b i, i <= List.length b -> incoming_guard b i <> Panic.
Proof.
  intros b i Hi. unfold incoming_guard.
  destruct (Nat.ltb i 4) eqn:E; [discriminate |].
  apply Nat.ltb_ge in E.
  destruct (nth_error_lt b 1) as [x Hx]; [lia |]. rewrite Hx. discriminate.
Qed.

(* rtpreceiver.go maybeStartRepairStreamReader: the RTX rewrite.
   Reader contract: 1 <= i <= len(b) bytes were read into the pool buffer b;
   len(b) is the receive MTU, at least 76 (12 + 4*15 header bytes plus the
   extension header the code looks at before it knows the packet length). *)
Theorem rtx_unwrap_no_panic : forall b i pt ssrc,
  76 <= List.length b -> 1 <= i -> i <= List.length b -> List.length ssrc = 4 ->
  rtx_unwrap b i pt ssrc <> Panic.
Proof.
  intros b i pt ssrc Hb Hi1 Hi2 Hs. unfold rtx_unwrap.
  destruct (nth_error_lt b 0) as [b0 Hb0]; [lia |]. rewrite Hb0.
  set (hl0 := u16 (12 + 4 * N.land b0 15)).
  assert (Hhl0 : (hl0 <= 72)%N).
  { subst hl0. pose proof (u16_le (12 + 4 * N.land b0 15)). pose proof (land15 b0). lia. }
  apply rbind_no_panic.
  - destruct (N.ltb 0 (N.land b0 16)); [| discriminate].
    destruct (slice2 b (N.to_nat hl0 + 2)) as [x [y Hxy]]; [lia |].
    replace (N.to_nat hl0 + 4) with (N.to_nat hl0 + 2 + 2) by lia.
    rewrite Hxy. discriminate.
  - intros hl _. apply rbind_no_panic.
    + destruct (N.ltb 0 (N.land b0 32)); [| discriminate].
      destruct i as [| k]; [lia |].
      destruct (nth_error_lt b k) as [p Hp]; [lia |]. rewrite Hp. discriminate.
    + intros pad _.
      destruct (Z.ltb (Z.of_nat i - Z.of_N hl - Z.of_N pad) 2) eqn:Elt; [discriminate |].
      apply Z.ltb_ge in Elt.
      set (h := N.to_nat hl).
      assert (Hh : h + 2 <= i) by (subst h; lia).
      destruct (nth_error_lt b 1) as [b1 Hb1]; [lia |]. rewrite Hb1.
      destruct (slice2 b 2) as [s0 [s1 Hs01]]; [lia |].
      change (2 + 2) with 4 in Hs01. rewrite Hs01.
      destruct (slice_ok b 8 12) as [rs [Hrs _]]; [lia | lia |]. rewrite Hrs.
      set (c1 := upd_nth 1 _ b).
      assert (Hc1 : List.length c1 = List.length b) by (subst c1; apply upd_nth_length).
      destruct (nth_error_lt c1 h) as [o0 Ho0]; [lia |]. rewrite Ho0.
      set (c2 := upd_nth 2 o0 c1).
      assert (Hc2 : List.length c2 = List.length b) by (subst c2; rewrite upd_nth_length; exact Hc1).
      destruct (nth_error_lt c2 (h + 1)) as [o1 Ho1]; [lia |]. rewrite Ho1.
      set (c3 := upd_nth 3 o1 c2).
      assert (Hc3 : List.length c3 = List.length b) by (subst c3; rewrite upd_nth_length; exact Hc2).
      set (c4 := firstn 8 c3 ++ ssrc ++ skipn 12 c3).
      assert (Hc4 : List.length c4 = List.length b).
      { subst c4. rewrite !app_length, firstn_length, skipn_length. lia. }
      destruct (Nat.ltb i 2) eqn:E2; [apply Nat.ltb_lt in E2; lia |].
      destruct (slice_ok c4 h (i - 2)) as [dst [Hdst _]]; [lia | lia |]. rewrite Hdst.
      destruct (slice_ok c4 (h + 2) i) as [src [Hsrc Hsl]]; [lia | lia |]. rewrite Hsrc.
      set (c5 := firstn h c4 ++ src ++ skipn (i - 2) c4).
      assert (Hc5 : List.length c5 = List.length b).
      { subst c5. rewrite !app_length, firstn_length, skipn_length. lia. }
      destruct (slice_ok c5 0 (i - 2)) as [pkt [Hpkt _]]; [lia | lia |]. rewrite Hpkt.
      discriminate.
Qed.

(* the premises are needed: a reader that reports zero bytes on a buffer
   whose first byte has the padding bit set makes the code evaluate b[i-1] *)
Theorem rtx_unwrap_zero_read_panics :
  rtx_unwrap (32%N :: repeat 0%N 99) 0 96 [0; 0; 0; 1]%N = Panic.
Proof. vm_compute. reflexivity. Qed.
