(* proofs for C38 (Model/Serial.v) *)
From Coq Require Import List ZArith NArith String Ascii Bool Lia.
Import ListNotations.
From Verif Require Import Common.Base Model.Serial.
Open Scope string_scope.
Open Scope Z_scope.

(* ------------------------------------------------------------------ *)
(* enums: the finite table, by computation *)

Definition guard_text_b (e : enum) (v : Z) : bool :=
  negb (unknown_value e v && rejecting (e_text e)).
Definition guard_json_b (e : enum) (v : Z) : bool :=
  negb (unknown_value e v && rejecting (e_json e)).

Lemma text_roundtrip_b_spec e v : text_roundtrip_b e v = true <-> text_roundtrips e v.
Proof.
  unfold text_roundtrip_b, text_roundtrips, of_text.
  destruct (e_text e) as [d|]; [|split; [intros _ d' H; discriminate | reflexivity]].
  destruct (decode d (to_string e v)) as [v'| |] eqn:E; split; intro H.
  - intros d' Hd; inversion Hd; subst d'. rewrite E. f_equal. now apply Z.eqb_eq.
  - specialize (H d eq_refl). rewrite E in H. inversion H. apply Z.eqb_refl.
  - discriminate.
  - specialize (H d eq_refl). rewrite E in H. discriminate.
  - discriminate.
  - specialize (H d eq_refl). rewrite E in H. discriminate.
Qed.

Lemma json_roundtrip_b_spec e v : json_roundtrip_b e v = true <-> json_roundtrips e v.
Proof.
  unfold json_roundtrip_b, json_roundtrips.
  destruct (enum_of_json e (enum_to_json e v)) as [v'| |]; split; intro H;
    try discriminate.
  - f_equal. now apply Z.eqb_eq.
  - inversion H. apply Z.eqb_refl.
Qed.

Definition enum_cell_ok (e : enum) (v : Z) : bool :=
  implb (guard_text_b e v) (text_roundtrip_b e v)
  && implb (guard_json_b e v) (json_roundtrip_b e v)
  (* and the guard is exact: an excluded cell really fails *)
  && implb (negb (guard_text_b e v)) (negb (text_roundtrip_b e v))
  && implb (negb (guard_json_b e v)) (negb (json_roundtrip_b e v)).

Lemma enum_table_ok :
  forallb (fun e => forallb (enum_cell_ok e) (e_declared e)) all_enums = true.
Proof. vm_compute. reflexivity. Qed.

Lemma enum_cell e v : In e all_enums -> In v (e_declared e) -> enum_cell_ok e v = true.
Proof.
  intros He Hv. pose proof enum_table_ok as H.
  rewrite forallb_forall in H. specialize (H e He).
  rewrite forallb_forall in H. exact (H v Hv).
Qed.

Lemma unknown_rejected_b d e v :
  unknown_rejected d e v <-> (unknown_value e v && rejecting d) = true.
Proof. unfold unknown_rejected. rewrite andb_true_iff. tauto. Qed.

Lemma enum_roundtrip e v :
  In e all_enums -> In v (e_declared e) ->
  (~ unknown_rejected (e_text e) e v -> text_roundtrips e v) /\
  (~ unknown_rejected (e_json e) e v -> json_roundtrips e v).
Proof.
  intros He Hv. pose proof (enum_cell e v He Hv) as H.
  unfold enum_cell_ok in H. repeat rewrite andb_true_iff in H.
  destruct H as [[[Ht Hj] _] _]. split; intro G.
  - apply text_roundtrip_b_spec. unfold guard_text_b in Ht.
    rewrite unknown_rejected_b in G. destruct (unknown_value e v && rejecting (e_text e)).
    + exfalso; apply G; reflexivity.
    + exact Ht.
  - apply json_roundtrip_b_spec. unfold guard_json_b in Hj.
    rewrite unknown_rejected_b in G. destruct (unknown_value e v && rejecting (e_json e)).
    + exfalso; apply G; reflexivity.
    + exact Hj.
Qed.

Lemma enum_defect_fails e v :
  In e all_enums -> In v (e_declared e) ->
  (unknown_rejected (e_text e) e v -> ~ text_roundtrips e v) /\
  (unknown_rejected (e_json e) e v -> ~ json_roundtrips e v).
Proof.
  intros He Hv. pose proof (enum_cell e v He Hv) as H.
  unfold enum_cell_ok in H. repeat rewrite andb_true_iff in H.
  destruct H as [[_ Ht] Hj]. split; intros G R.
  - apply text_roundtrip_b_spec in R. rewrite unknown_rejected_b in G.
    unfold guard_text_b in Ht. rewrite G, R in Ht. discriminate.
  - apply json_roundtrip_b_spec in R. rewrite unknown_rejected_b in G.
    unfold guard_json_b in Hj. rewrite G, R in Hj. discriminate.
Qed.

(* which cells are excluded at all: exactly five *)
Definition rejected_cells : list (string * bool * Z) :=
  flat_map (fun e =>
    flat_map (fun v =>
      ((if guard_text_b e v then [] else [(e_name e, false, v)]) ++
       (if guard_json_b e v then [] else [(e_name e, true, v)]))%list) (e_declared e)) all_enums.

Lemma rejected_cells_are :
  rejected_cells = [("SDPType", true, 0); ("ICEProtocol", false, 0);
                    ("ICECandidateType", false, 0); ("ICECandidateType", true, 0);
                    ("NetworkType", false, 0)].
Proof. vm_compute. reflexivity. Qed.

(* every enum whose every declared value survives both forms *)
Definition clean_enum (e : enum) : bool :=
  forallb (fun v => guard_text_b e v && guard_json_b e v) (e_declared e).

Lemma clean_enums_are :
  map e_name (filter clean_enum all_enums) =
  ["SignalingState"; "ICEConnectionState"; "ICEGatheringState"; "ICEGathererState";
   "ICETransportState"; "ICERole"; "ICEComponent"; "ICECredentialType"; "ICETransportPolicy";
   "DTLSTransportState"; "DTLSRole"; "SCTPTransportState"; "DataChannelState";
   "PeerConnectionState"; "BundlePolicy"; "RTCPMuxPolicy"; "SDPSemantics";
   "RTPTransceiverDirection"; "ICETrickleCapability"; "RTPCodecType"].
Proof. vm_compute. reflexivity. Qed.

Lemma enum_roundtrip_clean e v :
  In e all_enums -> clean_enum e = true -> In v (e_declared e) ->
  text_roundtrips e v /\ json_roundtrips e v.
Proof.
  intros He Hc Hv. unfold clean_enum in Hc. rewrite forallb_forall in Hc.
  specialize (Hc v Hv). apply andb_true_iff in Hc. destruct Hc as [Gt Gj].
  destruct (enum_roundtrip e v He Hv) as [Ht Hj]. split.
  - apply Ht. rewrite unknown_rejected_b. unfold guard_text_b in Gt.
    destruct (unknown_value e v && rejecting (e_text e)); [discriminate | discriminate].
  - apply Hj. rewrite unknown_rejected_b. unfold guard_json_b in Gj.
    destruct (unknown_value e v && rejecting (e_json e)); [discriminate | discriminate].
Qed.

(* an integer that is no declared constant prints as "unknown" (all of Z) *)
Lemma val_lookup_in tbl v s : val_lookup tbl v = Some s -> In v (map fst tbl).
Proof.
  induction tbl as [|[v' s'] t IH]; simpl; [discriminate|].
  destruct (Z.eqb v v') eqn:E.
  - intros _. left. symmetry. now apply Z.eqb_eq.
  - intro H. right. now apply IH.
Qed.

Lemma names_are_declared :
  forallb (fun e => forallb (fun k => existsb (Z.eqb k) (e_declared e)) (map fst (e_strings e)))
          all_enums = true.
Proof. vm_compute. reflexivity. Qed.

Lemma undeclared_prints_unknown e v :
  In e all_enums -> ~ In v (e_declared e) -> to_string e v = unknown_str.
Proof.
  intros He Hv. unfold to_string.
  destruct (val_lookup (e_strings e) v) as [s|] eqn:E; [|reflexivity].
  exfalso. apply Hv. apply val_lookup_in in E.
  pose proof names_are_declared as H. rewrite forallb_forall in H.
  specialize (H e He). rewrite forallb_forall in H. specialize (H v E).
  apply existsb_exists in H. destruct H as [x [Hx Heq]].
  apply Z.eqb_eq in Heq. now subst.
Qed.

(* ------------------------------------------------------------------ *)
(* SessionDescription, ICECandidateInit *)

Lemma sd_roundtrip d : In (sd_type d) [1; 2; 3; 4] -> sd_decode (sd_encode d) = Ok d.
Proof.
  destruct d as [ty s]. simpl sd_type.
  intros [<-|[<-|[<-|[<-|[]]]]]; reflexivity.
Qed.

Lemma sd_unknown_fails s :
  sd_decode (sd_encode {| sd_type := 0; sd_sdp := s |}) = Err "unknown-type".
Proof. reflexivity. Qed.

Lemma ci_roundtrip c :
  (forall i, ci_idx c = Some i -> 0 <= i < 65536) -> ci_decode (ci_encode c) = Ok c.
Proof.
  destruct c as [cand mid idx ufrag]. simpl ci_idx. intro Hr.
  destruct mid, idx as [i|], ufrag; try reflexivity;
    unfold ci_decode, ci_encode; cbn [ci_candidate ci_mid ci_idx ci_ufrag opt_str_json opt_num_json];
    cbv [str_member opt_str_member opt_u16_member field String.eqb Ascii.eqb Bool.eqb rbind];
    destruct (Hr i eq_refl) as [H0 H1];
    replace (0 <=? i) with true by (symmetry; apply Z.leb_le; exact H0);
    replace (i <? 65536) with true by (symmetry; apply Z.ltb_lt; exact H1);
    reflexivity.
Qed.

(* ------------------------------------------------------------------ *)
(* ICEServer *)

Lemma all_strings_map l : all_strings (map JStr l) = Some l.
Proof. induction l as [|s t IH]; simpl; [reflexivity | now rewrite IH]. Qed.

Lemma server_roundtrip s :
  In (is_credtype s) [0; 1] ->
  credential_matches_type (is_credential s) (is_credtype s) ->
  server_decode (server_encode s) = Ok s.
Proof.
  destruct s as [urls user cred ct]. simpl is_credtype; simpl is_credential.
  intros Hct Hm.
  assert (Hu : forall l, unmarshal_urls (JArr (map JStr l)) = Ok (Some l)).
  { intro l. unfold unmarshal_urls. now rewrite all_strings_map. }
  destruct (String.eqb user "") eqn:Eu;
    [apply String.eqb_eq in Eu; subst user|];
    destruct Hct as [<-|[<-|[]]];
    destruct cred as [|c|m t|j]; simpl in Hm; try discriminate; try contradiction;
    destruct urls as [l|];
    unfold server_decode, server_encode;
    cbn [is_urls is_username is_credential is_credtype cred_json enum_to_json
         E_ICECredentialType e_json to_string e_strings val_lookup Z.eqb app String.eqb];
    try rewrite Eu;
    cbn [app field String.eqb Ascii.eqb Bool.eqb server_decode_fields];
    cbv [server_decode_fields field String.eqb Ascii.eqb Bool.eqb];
    try rewrite Hu; reflexivity.
Qed.

Lemma server_str_under_oauth_fails urls user p :
  server_decode (server_encode {| is_urls := urls; is_username := user;
                                  is_credential := CredStr p; is_credtype := 1 |})
  = Err err_invalid_server.
Proof.
  assert (Hu : forall l, unmarshal_urls (JArr (map JStr l)) = Ok (Some l)).
  { intro l. unfold unmarshal_urls. now rewrite all_strings_map. }
  destruct (String.eqb user "") eqn:Eu; destruct urls as [l|];
    unfold server_decode, server_encode;
    cbn [is_urls is_username is_credential is_credtype cred_json enum_to_json
         E_ICECredentialType e_json to_string e_strings val_lookup Z.eqb app String.eqb];
    try rewrite Eu;
    cbv [server_decode_fields field String.eqb Ascii.eqb Bool.eqb app];
    try rewrite Hu; reflexivity.
Qed.

Lemma server_oauth_under_password_differs urls user m t :
  exists s', server_decode (server_encode {| is_urls := urls; is_username := user;
                                             is_credential := CredOAuth m t; is_credtype := 0 |})
             = Ok s' /\ is_credential s' = CredRaw (cred_json (CredOAuth m t)).
Proof.
  assert (Hu : forall l, unmarshal_urls (JArr (map JStr l)) = Ok (Some l)).
  { intro l. unfold unmarshal_urls. now rewrite all_strings_map. }
  destruct (String.eqb user "") eqn:Eu; destruct urls as [l|];
    unfold server_decode, server_encode;
    cbn [is_urls is_username is_credential is_credtype cred_json enum_to_json
         E_ICECredentialType e_json to_string e_strings val_lookup Z.eqb app String.eqb];
    try rewrite Eu;
    cbv [server_decode_fields field String.eqb Ascii.eqb Bool.eqb app];
    try rewrite Hu; eexists; split; reflexivity.
Qed.

Lemma server_defect_fails s :
  In (is_credtype s) [0; 1] -> credential_is_value (is_credential s) ->
  ~ credential_matches_type (is_credential s) (is_credtype s) ->
  server_decode (server_encode s) <> Ok s.
Proof.
  destruct s as [urls user cred ct]. simpl is_credtype; simpl is_credential.
  intros Hct Hv Hm.
  destruct cred as [|p|m t|j]; simpl in Hv, Hm; try contradiction;
    try (exfalso; apply Hm; exact I).
  - destruct Hct as [<-|[<-|[]]]; [exfalso; apply Hm; reflexivity|].
    rewrite server_str_under_oauth_fails. discriminate.
  - destruct Hct as [<-|[<-|[]]]; [|exfalso; apply Hm; reflexivity].
    destruct (server_oauth_under_password_differs urls user m t) as [s' [E Hc]].
    rewrite E. intro H. inversion H. subst s'. simpl in Hc. discriminate.
Qed.

(* ------------------------------------------------------------------ *)
(* stats dispatch *)

Lemma stats_dispatch_own t tag req kind :
  In (tag, req) (stats_tags t) -> kind_ok req kind -> stats_dispatch tag kind = Ok t.
Proof.
  destruct t; simpl; intros H K;
    repeat (destruct H as [H|H]; [inversion H; subst; simpl in K; subst; reflexivity|]);
    contradiction.
Qed.

Lemma by_kind_inv kind a v t :
  by_kind kind a v = Ok t -> (kind = "audio" /\ t = a) \/ (kind = "video" /\ t = v).
Proof.
  unfold by_kind.
  destruct (String.eqb_spec kind "audio"); [intro H; inversion H; now left|].
  destruct (String.eqb_spec kind "video"); [intro H; inversion H; now right|].
  discriminate.
Qed.

Ltac dispatch_fin :=
  let H := fresh "H" in
  intro H;
  first [ inversion H; subst; (eexists; split; [simpl; eauto 10 | exact I])
        | apply by_kind_inv in H; destruct H as [[-> ->]|[-> ->]];
          (eexists; split; [simpl; eauto 10 | simpl; reflexivity]) ].

Ltac dispatch_step :=
  match goal with
  | |- (if String.eqb ?a ?c then _ else _) = _ -> _ =>
      destruct (String.eqb_spec a c) as [->|_]; [dispatch_fin|]
  | |- (if orb (String.eqb ?a ?c) (String.eqb ?a ?c2) then _ else _) = _ -> _ =>
      destruct (String.eqb_spec a c) as [->|_];
      [simpl; dispatch_fin
      |destruct (String.eqb_spec a c2) as [->|_]; [simpl; dispatch_fin | simpl]]
  end.

Lemma stats_dispatch_only tag kind t :
  stats_dispatch tag kind = Ok t ->
  exists req, In (tag, req) (stats_tags t) /\ kind_ok req kind.
Proof.
  unfold stats_dispatch.
  repeat dispatch_step.
  discriminate.
Qed.

Lemma stats_every_type_has_a_tag t : stats_tags t <> [].
Proof. destruct t; discriminate. Qed.

Lemma stats_ty_eqb_refl t : stats_ty_eqb t t = true.
Proof. destruct t; reflexivity. Qed.

(* a Stats value with its own tag and declared enum members comes back as its
   own type unless one member is a rejected Unknown *)
Lemma enums_roundtrip_ok es vs :
  Forall (fun e => In e all_enums) es ->
  Forall2 (fun e v => In v (e_declared e)) es vs ->
  ~ Exists (fun ev => unknown_rejected (e_json (fst ev)) (fst ev) (snd ev)) (combine es vs) ->
  enums_roundtrip es vs = Ok vs.
Proof.
  intros Hall H2. induction H2 as [|e v et vt Hv _ IH]; intro Hn; [reflexivity|].
  inversion Hall as [|? ? He Het]; subst.
  simpl. destruct (enum_roundtrip e v He Hv) as [_ Hj].
  rewrite Hj.
  - simpl. rewrite IH; [reflexivity | exact Het |].
    intro Hex. apply Hn. simpl. now apply Exists_cons_tl.
  - intro Hr. apply Hn. simpl. now apply Exists_cons_hd.
Qed.

Lemma stats_members_known t : Forall (fun e => In e all_enums) (stats_enum_members t).
Proof.
  destruct t; simpl; repeat apply Forall_cons; try apply Forall_nil;
    unfold all_enums; repeat (first [left; reflexivity | right]).
Qed.

Lemma stats_roundtrip_ok s :
  in_domain (PStats s) -> ~ defect (PStats s) -> roundtrips (PStats s).
Proof.
  destruct s as [t tag kind es]. simpl. intros [[req [Hin Hk]] H2] Hn.
  unfold stats_roundtrip. simpl.
  rewrite (stats_dispatch_own t tag req kind Hin Hk). simpl.
  rewrite stats_ty_eqb_refl.
  rewrite (enums_roundtrip_ok _ _ (stats_members_known t) H2 Hn). reflexivity.
Qed.

Lemma stats_defect_fails s :
  in_domain (PStats s) -> defect (PStats s) -> ~ roundtrips (PStats s).
Proof.
  destruct s as [t tag kind es]. simpl. intros [[req [Hin Hk]] H2] Hd.
  unfold stats_roundtrip. simpl.
  rewrite (stats_dispatch_own t tag req kind Hin Hk). simpl.
  rewrite stats_ty_eqb_refl. clear Hin Hk.
  destruct t; simpl in H2, Hd |- *;
    repeat match goal with
           | H : Forall2 _ _ _ |- _ => inversion H; clear H; subst
           end;
    simpl in Hd;
    repeat match goal with
           | H : Exists _ _ |- _ => inversion H; clear H; subst
           end;
    match goal with
    | H : unknown_rejected _ _ _ |- _ => destruct H as [Hu Hr]
    end;
    try (vm_compute in Hr; discriminate Hr).
  (* ICECandidateStats: the member is ICECandidateType's Unknown *)
  unfold unknown_value in Hu. apply andb_true_iff in Hu. destruct Hu as [Hz _].
  apply Z.eqb_eq in Hz. simpl in Hz. subst. vm_compute. discriminate.
Qed.

(* ------------------------------------------------------------------ *)
(* the whole property on the model *)

Lemma c38_partial_all x : in_domain x -> ~ defect x -> roundtrips x.
Proof.
  destruct x as [e v|e v|d|c|s|s]; simpl.
  - intros [He Hv] G. now apply (proj1 (enum_roundtrip e v He Hv)).
  - intros [He Hv] G. now apply (proj2 (enum_roundtrip e v He Hv)).
  - intros Hd G. apply sd_roundtrip.
    destruct d as [ty s]; simpl in *.
    destruct Hd as [<-|Hd]; [|exact Hd].
    exfalso. apply G. split; reflexivity.
  - intros Hr _. now apply ci_roundtrip.
  - intros [Hct Hv] G. apply server_roundtrip; [exact Hct|].
    destruct (is_credential s); simpl in *; try exact I; try contradiction.
    + destruct Hct as [E|[E|[]]]; [now symmetry|].
      exfalso. apply G. intro H. rewrite H in E. discriminate.
    + destruct Hct as [E|[E|[]]]; [|now symmetry].
      exfalso. apply G. intro H. rewrite H in E. discriminate.
  - intros D G. now apply stats_roundtrip_ok.
Qed.

Lemma c38_defect_fails_all x : in_domain x -> defect x -> ~ roundtrips x.
Proof.
  destruct x as [e v|e v|d|c|s|s]; simpl.
  - intros [He Hv] G. now apply (proj1 (enum_defect_fails e v He Hv)).
  - intros [He Hv] G. now apply (proj2 (enum_defect_fails e v He Hv)).
  - intros Hd [Hu _]. destruct d as [ty s]. cbn [sd_type] in Hu.
    unfold unknown_value in Hu. apply andb_true_iff in Hu. destruct Hu as [Hz _].
    apply Z.eqb_eq in Hz. subst ty.
    change (sd_decode (sd_encode {| sd_type := 0; sd_sdp := s |}) <> Ok {| sd_type := 0; sd_sdp := s |}).
    rewrite sd_unknown_fails. discriminate.
  - intros _ [].
  - intros [Hct Hv] G. now apply server_defect_fails.
  - intros D G. now apply stats_defect_fails.
Qed.

Lemma witnesses_fail :
  Forall (fun x => in_domain x /\ defect x /\ ~ roundtrips x) c38_witnesses.
Proof.
  assert (H : Forall (fun x => in_domain x /\ defect x) c38_witnesses).
  { unfold c38_witnesses. repeat apply Forall_cons; try apply Forall_nil; simpl.
    - split; [split; [tauto | simpl; tauto] | split; reflexivity].
    - split; [split; [unfold all_enums; repeat (first [left; reflexivity | right]) | simpl; tauto]
             | split; reflexivity].
    - split; [split; [unfold all_enums; repeat (first [left; reflexivity | right]) | simpl; tauto]
             | split; reflexivity].
    - split; [split; [unfold all_enums; repeat (first [left; reflexivity | right]) | simpl; tauto]
             | split; reflexivity].
    - split; [split; [unfold all_enums; repeat (first [left; reflexivity | right]) | simpl; tauto]
             | split; reflexivity].
    - split; [tauto | split; reflexivity].
    - split; [split; [tauto | exact I] | intro H; discriminate].
    - split; [split; [tauto | exact I] | intro H; discriminate].
    - split.
      + split; [exists None; split; [simpl; tauto | exact I]|].
        repeat constructor; simpl; tauto.
      + apply Exists_cons_hd. split; reflexivity. }
  eapply Forall_impl; [|exact H].
  intros x [D F]. repeat split; try assumption. now apply c38_defect_fails_all.
Qed.

(* ------------------------------------------------------------------ *)
(* the text layer (encoding/json assumed to print and parse trees faithfully) *)

Section TextLayer.
  Variable text : Type.
  Variable print : json -> text.
  Variable parse : text -> option json.
  Hypothesis parse_print : forall j, parse (print j) = Some j.

  Lemma via_text_print {A} (dec : json -> result A) (j : json) :
    via_text parse dec (print j) = dec j.
  Proof. unfold via_text. now rewrite parse_print. Qed.

  Lemma sd_text d : In (sd_type d) [1; 2; 3; 4] ->
    via_text parse sd_decode (print (sd_encode d)) = Ok d.
  Proof. intro H. rewrite via_text_print. now apply sd_roundtrip. Qed.

  Lemma ci_text c : (forall i, ci_idx c = Some i -> 0 <= i < 65536) ->
    via_text parse ci_decode (print (ci_encode c)) = Ok c.
  Proof. intro H. rewrite via_text_print. now apply ci_roundtrip. Qed.

  Lemma server_text s :
    In (is_credtype s) [0; 1] -> credential_matches_type (is_credential s) (is_credtype s) ->
    via_text parse server_decode (print (server_encode s)) = Ok s.
  Proof. intros H1 H2. rewrite via_text_print. now apply server_roundtrip. Qed.
End TextLayer.

(* ------------------------------------------------------------------ *)
(* PEM (encoding/pem, x509 and PKCS#8 assumed to invert their own output) *)

Section PEMProofs.
  Variables cert key : Type.
  Variable cert_raw : cert -> list N.
  Variable x509_parse : list N -> option cert.
  Variable pkcs8_marshal : key -> option (list N).
  Variable pkcs8_parse : list N -> option key.
  Variable b64_decode : list N -> option (list N).
  Hypothesis parse_raw : forall c, x509_parse (cert_raw c) = Some c.
  Hypothesis parse_key : forall k kb, pkcs8_marshal k = Some kb -> pkcs8_parse kb = Some k.

  Let from := from_pem cert key x509_parse pkcs8_parse b64_decode.
  Let to := to_pem cert key cert_raw pkcs8_marshal.

  Lemma pem_roundtrip k c bs : to k c = Ok bs -> from bs = Ok (k, c).
  Proof.
    unfold to, to_pem, from, from_pem.
    destruct (pkcs8_marshal k) as [kb|] eqn:E; [|discriminate].
    intro H. inversion H; subst bs. cbn.
    rewrite parse_raw. rewrite (parse_key k kb E). reflexivity.
  Qed.

  (* the reader does not depend on the order of the two blocks *)
  Lemma pem_swapped k c kb :
    pkcs8_marshal k = Some kb ->
    from [("PRIVATE KEY", kb); ("CERTIFICATE", cert_raw c)] = Ok (k, c).
  Proof.
    intro E. unfold from, from_pem. cbn.
    rewrite (parse_key k kb E). rewrite parse_raw. reflexivity.
  Qed.

  (* nor does it ever return a certificate without a key, or two of either *)
  Lemma pem_two_certs_rejected k c kb c2 :
    pkcs8_marshal k = Some kb ->
    from [("CERTIFICATE", cert_raw c); ("PRIVATE KEY", kb); ("CERTIFICATE", cert_raw c2)]
    = Err "multiple-cert".
  Proof.
    intro E. unfold from, from_pem. cbn.
    rewrite parse_raw. rewrite (parse_key k kb E). reflexivity.
  Qed.

  Lemma pem_missing_key c : from [("CERTIFICATE", cert_raw c)] = Err "missing".
  Proof. unfold from, from_pem. cbn. rewrite parse_raw. reflexivity. Qed.
End PEMProofs.
