(* C28: proofs about the WriteSample model (Model/SampleTrack.v). *)
From Coq Require Import String NArith ZArith Bool List Lia ZifyBool ZifyNat ZifyN.
Import ListNotations.
From Verif Require Import Common.V Common.Base Model.SampleTrack.

Ltac Zify.zify_post_hook ::= Z.div_mod_to_equations.

(* ------------------------------------------------ sequencer and packetizer *)
Section Generic.
  Variable a : arith.
  Variable rate : N.
  Open Scope N_scope.

  Lemma next_seq_mod : forall q, next_seq q = (q + 1) mod 65536.
  Proof. reflexivity. Qed.

  Lemma skip_seq_mod : forall n q, skip_seq n q mod 65536 = (q + n) mod 65536.
  Proof.
    intros n q. unfold skip_seq. induction n as [|n IH] using N.peano_ind.
    - cbn [N.iter]. now rewrite N.add_0_r.
    - rewrite N.iter_succ. rewrite next_seq_mod. rewrite N.mod_mod by discriminate.
      rewrite <- N.add_mod_idemp_l by discriminate. rewrite IH.
      rewrite N.add_mod_idemp_l by discriminate. f_equal. lia.
  Qed.

  (* Packetize: n packets, consecutive numbers after q, all with timestamp ts *)
  Lemma emit_spec : forall n q ts,
    length (snd (emit n q ts)) = n /\
    fst (emit n q ts) mod 65536 = (q + N.of_nat n) mod 65536 /\
    forall j p, nth_error (snd (emit n q ts)) j = Some p ->
                k_ts p = ts /\ k_seq p = (q + 1 + N.of_nat j) mod 65536.
  Proof.
    induction n as [|n IH]; intros q ts.
    - cbn [emit fst snd length]. split; [reflexivity|split; [now rewrite N.add_0_r|]].
      intros j p H. destruct j; discriminate.
    - cbn [emit]. specialize (IH (next_seq q) ts).
      destruct (emit n (next_seq q) ts) as [q2 l]. cbn [fst snd] in *.
      destruct IH as (Hlen & Hq & Hpk). split; [|split].
      + cbn [length]. now rewrite Hlen.
      + rewrite Hq, next_seq_mod, N.add_mod_idemp_l by discriminate. f_equal. lia.
      + intros j p H. destruct j as [|j]; cbn [nth_error] in H.
        * injection H as <-. cbn [k_seq k_ts]. split; [reflexivity|]. rewrite next_seq_mod. f_equal. lia.
        * destruct (Hpk j p H) as [Hts ->]. split; [exact Hts|].
          rewrite next_seq_mod. rewrite <- N.add_assoc, N.add_mod_idemp_l by discriminate. f_equal. lia.
  Qed.

  (* the timestamp all packets of one WriteSample carry, and the sequencer after it *)
  Definition sample_ts (s : st a) (x : sample) : N :=
    if 0 <? s_dropped x
    then u32 (st_ts a s + r_trunc a (r_add a (r_mul_n a (r_tick a (s_dur x) rate) (s_dropped x)) (st_rem a s)))
    else st_ts a s.

  Lemma write_sample_pkts : forall s x,
    let (s', pk) := write_sample a rate s x in
    length pk = s_npk x /\
    st_seq a s' mod 65536 = (st_seq a s + s_dropped x + N.of_nat (s_npk x)) mod 65536 /\
    forall j p, nth_error pk j = Some p ->
      k_ts p = sample_ts s x /\
      k_seq p = (st_seq a s + 1 + s_dropped x + N.of_nat j) mod 65536.
  Proof.
    intros s x. unfold write_sample, sample_ts.
    set (q1 := skip_seq (s_dropped x) (st_seq a s)).
    destruct (0 <? s_dropped x);
      match goal with |- context [emit (s_npk x) q1 ?t] =>
        pose proof (emit_spec (s_npk x) q1 t) as (Hlen & Hq & Hpk);
        destruct (emit (s_npk x) q1 t) as [q2 pk] end;
      cbn [fst snd st_seq] in *;
      (split; [exact Hlen|split]).
    1,3: rewrite Hq; rewrite <- N.add_mod_idemp_l by discriminate; unfold q1; rewrite skip_seq_mod;
         rewrite N.add_mod_idemp_l by discriminate; reflexivity.
    all: intros j p H; destruct (Hpk j p H) as [Hts Hseq]; split; [exact Hts|];
         rewrite Hseq; rewrite <- N.add_assoc, <- N.add_mod_idemp_l by discriminate; unfold q1; rewrite skip_seq_mod;
         rewrite N.add_mod_idemp_l by discriminate; f_equal; lia.
  Qed.

  (* GeneratePadding: as a sample of duration zero cut into n packets *)
  Lemma step_pkts : forall s o,
    let (s', pk) := step a rate s o in
    length pk = s_npk (as_sample o) /\
    st_seq a s' mod 65536 = (st_seq a s + s_dropped (as_sample o) + N.of_nat (s_npk (as_sample o))) mod 65536 /\
    forall j p, nth_error pk j = Some p ->
      k_ts p = sample_ts s (as_sample o) /\
      k_seq p = (st_seq a s + 1 + s_dropped (as_sample o) + N.of_nat j) mod 65536.
  Proof.
    intros s [x|n]; cbn [step as_sample]; [exact (write_sample_pkts s x)|].
    unfold gen_padding, sample_ts. cbn [s_dropped s_npk N.ltb N.compare].
    pose proof (emit_spec (N.to_nat n) (st_seq a s) (st_ts a s)) as (Hlen & Hq & Hpk).
    destruct (emit (N.to_nat n) (st_seq a s) (st_ts a s)) as [q2 pk]. cbn [fst snd st_seq] in *.
    split; [exact Hlen|split].
    - rewrite Hq. f_equal. lia.
    - intros j p H. destruct (Hpk j p H) as [Hts Hseq]. split; [exact Hts|]. rewrite Hseq. f_equal. lia.
  Qed.

  (* every packet of one sample carries the same timestamp *)
  Lemma same_ts : forall xs s k pk p p',
    nth_error (run a rate s xs) k = Some pk -> In p pk -> In p' pk -> k_ts p = k_ts p'.
  Proof.
    induction xs as [|x t IH]; intros s k pk p p' Hk Hp Hp'; [destruct k; discriminate|].
    cbn [run] in Hk. pose proof (step_pkts s x) as Hw.
    destruct (step a rate s x) as [s' pk0]. destruct k as [|k]; cbn [nth_error] in Hk.
    - injection Hk as <-. destruct Hw as (_ & _ & Hpk).
      apply In_nth_error in Hp, Hp'. destruct Hp as [j Hj], Hp' as [j' Hj'].
      destruct (Hpk j p Hj) as [-> _]. destruct (Hpk j' p' Hj') as [-> _]. reflexivity.
    - now apply (IH s' k pk).
  Qed.

  (* sequence numbers: consecutive within and across samples, except that a
     sample reporting N dropped packets first skips N numbers *)
  Lemma seq_from : forall xs s k pk j p,
    nth_error (run a rate s xs) k = Some pk -> nth_error pk j = Some p ->
    k_seq p = (st_seq a s + 1 + seq_before (map as_sample xs) k + N.of_nat j) mod 65536 /\
    (exists x, nth_error xs k = Some x /\ length pk = s_npk (as_sample x)).
  Proof.
    induction xs as [|x t IH]; intros s k pk j p Hk Hj; [destruct k; discriminate|].
    cbn [run] in Hk. pose proof (step_pkts s x) as Hw.
    destruct (step a rate s x) as [s' pk0]. destruct Hw as (Hlen & Hq & Hpk).
    destruct k as [|k]; cbn [nth_error] in Hk.
    - injection Hk as <-. split; [|exists x; split; [reflexivity|exact Hlen]].
      destruct (Hpk j p Hj) as [_ ->]. unfold seq_before. cbn [firstn map fold_right nth_error]. f_equal; lia.
    - destruct (IH s' k pk j p Hk Hj) as [Hs Hx]. split; [|exact Hx].
      rewrite Hs. unfold seq_before. cbn [firstn map fold_right nth_error].
      set (F := fold_right N.add 0 (map (fun x0 : sample => N.of_nat (s_npk x0) + s_dropped x0) (firstn k (map as_sample t)))).
      set (D := match nth_error (map as_sample t) k with Some x0 => s_dropped x0 | None => 0 end).
      replace (st_seq a s' + 1 + (F + D) + N.of_nat j) with (st_seq a s' + (1 + (F + D) + N.of_nat j)) by lia.
      rewrite <- N.add_mod_idemp_l by discriminate. rewrite Hq.
      rewrite N.add_mod_idemp_l by discriminate. f_equal. lia.
  Qed.

  Lemma seq_numbers : forall ts0 seq0 xs k pk j p,
    nth_error (run a rate (init a ts0 seq0) xs) k = Some pk -> nth_error pk j = Some p ->
    k_seq p = (seq0 + seq_before (map as_sample xs) k + N.of_nat j) mod 65536 /\
    (exists x, nth_error xs k = Some x /\ length pk = s_npk (as_sample x)).
  Proof.
    intros ts0 seq0 xs k pk j p Hk Hj. destruct (seq_from xs _ k pk j p Hk Hj) as [Hs Hx].
    split; [|exact Hx]. rewrite Hs. cbn [init st_seq]. unfold u16.
    rewrite <- !N.add_assoc, N.add_mod_idemp_l by discriminate.
    set (SB := seq_before (map as_sample xs) k).
    replace (seq0 + 65535 + (1 + (SB + N.of_nat j)))
      with (seq0 + (SB + N.of_nat j) + 1 * 65536) by lia.
    now rewrite N.mod_add by discriminate.
  Qed.
End Generic.

(* ------------------------------------------------------- exact arithmetic *)
Open Scope Z_scope.

(* a sample whose duration, and reported gap, stay below 2^32 - 1 ticks *)
Definition sample_ok (rate : N) (x : sample) : Prop :=
  0 <= s_dur x /\ nt rate x * (1 + Z.of_N (s_dropped x)) < 4294967295 * giga.

(* state invariant: [acc] = media time so far, in 10^-9 tick *)
Definition inv (rate ts0 : N) (s : st exact_arith) (acc : Z) : Prop :=
  0 <= acc /\ st_rem exact_arith s = acc mod giga /\
  Z.of_N (st_ts exact_arith s) = (Z.of_N ts0 + acc / giga) mod 4294967296.

Lemma giga_val : giga = 1000000000.
Proof. reflexivity. Qed.

Lemma exact_step : forall rate ts0 s acc x,
  inv rate ts0 s acc -> sample_ok rate x ->
  Z.of_N (sample_ts exact_arith rate s x)
    = (Z.of_N ts0 + (acc + nt rate x * Z.of_N (s_dropped x)) / giga) mod 4294967296 /\
  inv rate ts0 (fst (write_sample exact_arith rate s x)) (acc + nt_full rate x).
Proof.
  intros rate ts0 s acc x (Hacc & Hrem & Hts) (Hd & Hbound).
  unfold inv, nt_full, nt in *. unfold write_sample, sample_ts.
  cbn [exact_arith r_tick r_mul_n r_add r_trunc r_sub_n R].
  set (t := s_dur x * Z.of_N rate) in *.
  set (n := s_dropped x) in *.
  assert (Ht : 0 <= t) by (subst t; lia).
  set (tn := t * Z.of_N n) in *.
  replace (t * (1 + Z.of_N n)) with (t + tn) in * by (subst tn; ring).
  assert (Htn : 0 <= tn) by (subst tn; nia).
  rewrite giga_val in *.
  set (rem0 := st_rem exact_arith s) in *.
  set (tsS := st_ts exact_arith s) in *.
  destruct (0 <? n)%N eqn:En.
  - (* dropped packets reported *)
    set (dropTotal := tn + rem0) in *.
    assert (Hdt : 0 <= dropTotal / 1000000000 < 4294967296) by (subst dropTotal; lia).
    assert (Edt : Z.of_N (Z.to_N ((dropTotal / 1000000000) mod 4294967296)) = dropTotal / 1000000000).
    { rewrite Z.mod_small by lia. lia. }
    match goal with |- context [emit _ _ ?tsx] => set (ts1 := tsx) in * end.
    destruct (emit (s_npk x) (skip_seq n (st_seq exact_arith s)) ts1) as [q3 pk3].
    cbn [fst st_rem st_ts].
    assert (Ets1 : Z.of_N ts1 = (Z.of_N ts0 + (acc + tn) / 1000000000) mod 4294967296).
    { subst ts1. unfold u32. rewrite N2Z.inj_mod, N2Z.inj_add, Edt, Hts.
      change (Z.of_N 4294967296) with 4294967296.
      rewrite Z.add_mod_idemp_l by discriminate. f_equal. subst dropTotal. lia. }
    split; [exact Ets1|].
    rewrite Edt.
    set (rem1 := dropTotal - dropTotal / 1000000000 * 1000000000).
    assert (Erem1 : rem1 = (acc + tn) mod 1000000000) by (subst rem1 dropTotal; lia).
    assert (Hct : 0 <= (t + rem1) / 1000000000 < 4294967296) by lia.
    assert (Ect : Z.of_N (Z.to_N (((t + rem1) / 1000000000) mod 4294967296)) = (t + rem1) / 1000000000).
    { rewrite Z.mod_small by lia. lia. }
    rewrite Ect. split; [lia|split].
    + lia.
    + unfold u32. rewrite N2Z.inj_mod, N2Z.inj_add, Ect, Ets1.
      change (Z.of_N 4294967296) with 4294967296.
      rewrite Z.add_mod_idemp_l by discriminate. f_equal. lia.
  - (* no dropped packets *)
    assert (Hn : tn = 0) by (subst tn; lia).
    destruct (emit (s_npk x) (skip_seq n (st_seq exact_arith s)) tsS) as [q3 pk3].
    cbn [fst st_rem st_ts]. rewrite Hn in *.
    split; [rewrite Hts; f_equal; lia|].
    assert (Hct : 0 <= (t + rem0) / 1000000000 < 4294967296) by lia.
    assert (Ect : Z.of_N (Z.to_N (((t + rem0) / 1000000000) mod 4294967296)) = (t + rem0) / 1000000000).
    { rewrite Z.mod_small by lia. lia. }
    rewrite Ect. split; [lia|split].
    + lia.
    + unfold u32. rewrite N2Z.inj_mod, N2Z.inj_add, Ect, Hts.
      change (Z.of_N 4294967296) with 4294967296.
      rewrite Z.add_mod_idemp_l by discriminate. f_equal. lia.
Qed.

(* a call is in range when the sample it stands for is (padding always is) *)
Definition op_ok (rate : N) (o : op) : Prop := sample_ok rate (as_sample o).

Lemma pad_ok : forall rate n, op_ok rate (OPad n).
Proof. intros rate n. unfold op_ok, sample_ok, nt, giga. cbn [as_sample s_dur s_dropped]. lia. Qed.

Lemma exact_step_op : forall rate ts0 s acc o,
  inv rate ts0 s acc -> op_ok rate o ->
  Z.of_N (sample_ts exact_arith rate s (as_sample o))
    = (Z.of_N ts0 + (acc + nt rate (as_sample o) * Z.of_N (s_dropped (as_sample o))) / giga) mod 4294967296 /\
  inv rate ts0 (fst (step exact_arith rate s o)) (acc + nt_full rate (as_sample o)).
Proof.
  intros rate ts0 s acc [x|n] Hinv Hok; cbn [step as_sample]; [exact (exact_step rate ts0 s acc x Hinv Hok)|].
  unfold sample_ts, nt_full, nt, gen_padding. cbn [s_dur s_dropped N.ltb N.compare].
  destruct (emit (N.to_nat n) (st_seq exact_arith s) (st_ts exact_arith s)) as [q2 pk2]. cbn [fst].
  destruct Hinv as (Hacc & Hrem & Hts). rewrite !Z.mul_0_l, !Z.add_0_r.
  split; [exact Hts|]. unfold inv. cbn [st_rem st_ts]. auto.
Qed.

Lemma no_drift_from : forall rate ts0 xs s acc k pk p,
  inv rate ts0 s acc -> Forall (op_ok rate) xs ->
  nth_error (run exact_arith rate s xs) k = Some pk -> In p pk ->
  Z.of_N (k_ts p) = (Z.of_N ts0 + (acc + nt_before rate (map as_sample xs) k) / giga) mod 4294967296.
Proof.
  intros rate ts0. induction xs as [|x t IH]; intros s acc k pk p Hinv Hok Hk Hp; [destruct k; discriminate|].
  inversion Hok as [|? ? Hx Ht]; subst.
  destruct (exact_step_op rate ts0 s acc x Hinv Hx) as [Hts Hinv'].
  cbn [run] in Hk. pose proof (step_pkts exact_arith rate s x) as Hw.
  destruct (step exact_arith rate s x) as [s' pk0]. cbn [fst] in Hinv'.
  destruct k as [|k]; cbn [nth_error] in Hk.
  - injection Hk as <-. destruct Hw as (_ & _ & Hpk).
    apply In_nth_error in Hp. destruct Hp as [j Hj]. destruct (Hpk j p Hj) as [-> _].
    rewrite Hts. unfold nt_before. cbn [firstn map fold_right nth_error]. now rewrite Z.add_0_l.
  - rewrite (IH s' (acc + nt_full rate (as_sample x)) k pk p Hinv' Ht Hk Hp).
    unfold nt_before. cbn [firstn map fold_right nth_error]. do 3 f_equal. lia.
Qed.

Lemma init_inv : forall rate ts0 seq0, (ts0 < 4294967296)%N -> inv rate ts0 (init exact_arith ts0 seq0) 0.
Proof.
  intros rate ts0 seq0 Hts. unfold inv, init. cbn [st_rem st_ts exact_arith r_zero].
  split; [lia|split; [reflexivity|]]. unfold u32. rewrite giga_val. lia.
Qed.

Lemma no_drift : forall rate ts0 seq0 xs k pk p,
  (ts0 < 4294967296)%N -> Forall (op_ok rate) xs ->
  nth_error (run exact_arith rate (init exact_arith ts0 seq0) xs) k = Some pk -> In p pk ->
  k_ts p = ideal_ts rate ts0 (map as_sample xs) k.
Proof.
  intros rate ts0 seq0 xs k pk p Hts Hok Hk Hp.
  pose proof (no_drift_from rate ts0 xs _ 0 k pk p (init_inv rate ts0 seq0 Hts) Hok Hk Hp) as H.
  unfold ideal_ts. rewrite Z.add_0_l in H. rewrite <- H. now rewrite N2Z.id.
Qed.

Lemma ex_30fps :
  let xs := repeat (OSample (mkSample 33333333 0 2)) 4 in
  Forall (op_ok 90000) xs /\
  map (map k_ts) (run exact_arith 90000 (init exact_arith 1000 65535) xs)
    = [[1000; 1000]; [3999; 3999]; [6999; 6999]; [9999; 9999]]%N /\
  map (map k_ts) (run float_arith 90000 (init float_arith 1000 65535) xs)
    = [[1000; 1000]; [3999; 3999]; [6999; 6999]; [9999; 9999]]%N /\
  map (map k_seq) (run exact_arith 90000 (init exact_arith 1000 65535) xs)
    = [[65535; 0]; [1; 2]; [3; 4]; [5; 6]]%N.
Proof.
  cbn zeta. split; [|split; [|split]]; [|vm_compute; reflexivity..].
  assert (Hok : op_ok 90000 (OSample (mkSample 33333333 0 2))).
  { unfold op_ok, sample_ok, nt, giga. cbn [as_sample s_dur s_dropped]. lia. }
  cbn [repeat]. constructor; [exact Hok|]. constructor; [exact Hok|].
  constructor; [exact Hok|]. constructor; [exact Hok|]. constructor.
Qed.
