(* Proofs about the H.264/H.265 writer model (C35). *)
From Coq Require Import List ZArith NArith String Bool Lia ZifyBool ZifyNat ZifyN.
Import ListNotations.
From Verif Require Import Common.V Common.Base Common.Media1Util Model.AnnexB Model.H26xWriter
  Proofs.Media1Util Proofs.AnnexB Proofs.AnnexB4.
Open Scope N_scope.

(* ---------- the gate ---------- *)

Section Gate.
Variable D : Type.
Variable unm : unmarshal D.
Variable isk : list N -> bool.

Lemma write_open : forall ps d,
  fst (write_all unm isk {| has_kf := true; dep := d |} ps) = depack_all unm d (filter nonempty ps).
Proof.
  induction ps as [|p t IH]; intros d; [reflexivity|].
  cbn [write_all]. unfold write_rtp. destruct p as [|b p'].
  - cbn [filter nonempty fst snd app]. apply IH.
  - cbn [has_kf dep negb filter nonempty]. cbn [depack_all].
    destruct (unm d (b :: p')) as [d' [data|e|]]; cbn [fst snd]; rewrite IH; reflexivity.
Qed.

(* the bytes written are the depacketizer's output over the packets from the
   first non-empty one isKeyFrame accepts *)
Theorem gate : forall ps d0,
  fst (write_all unm isk {| has_kf := false; dep := d0 |} ps)
  = depack_all unm d0 (from_first isk (filter nonempty ps)).
Proof.
  induction ps as [|p t IH]; intros d0; [reflexivity|].
  cbn [write_all]. unfold write_rtp. destruct p as [|b p'].
  - cbn [filter nonempty fst snd app]. apply IH.
  - cbn [has_kf dep filter nonempty from_first].
    destruct (isk (b :: p')) eqn:Ek; cbn [negb].
    + cbn [depack_all].
      destruct (unm d0 (b :: p')) as [d' [data|e|]]; cbn [fst snd]; rewrite write_open; reflexivity.
    + cbn [fst snd app]. apply IH.
Qed.

End Gate.

(* ---------- composition with the reader (C34) ---------- *)

Section Contract.
Variable D : Type.
Variable unm : unmarshal D.
Variable d0 : D.
(* what the RTP payload format says a packet sequence carries, and which
   sequences are complete (whole aggregation packets, whole fragment groups) *)
Variable carried : list (list N) -> list (list N).
Variable complete : list (list N) -> Prop.
(* assumed contract of pion/rtp's depacketizer: single NAL -> start code + NAL,
   aggregation -> each NAL, fragments -> the NAL at its end fragment *)
Hypothesis depack_annexb : forall ps,
  complete ps -> depack_all unm d0 ps = frame (map (fun n => (true, n)) (carried ps)).

Theorem reader_sees_nals : forall isk ps cs,
  let suffix := from_first isk (filter nonempty ps) in
  complete suffix ->
  Forall (fun n => nal_ok4 n = true) (carried suffix) ->
  chunks_ok cs ->
  List.concat cs = fst (write_all unm isk {| has_kf := false; dep := d0 |} ps) ->
  read_all (fun _ => false) cs = (carried suffix, "eof"%string).
Proof.
  intros isk ps cs suffix Hc Hok Hcs Hcat.
  rewrite gate in Hcat. fold suffix in Hcat. rewrite depack_annexb in Hcat by exact Hc.
  exact (roundtrip_all4 (fun _ => false) cs (carried suffix) (fun _ => eq_refl) Hcs Hcat Hok).
Qed.

End Contract.

(* ---------- the AP walk never panics and its fuel suffices ---------- *)

Lemma byte_at_some : forall data i, i < lenN data -> exists b, byte_at data i = Some b.
Proof.
  intros data i H. unfold byte_at. pose proof (lenN_dropN data i) as Hl.
  destruct (dropN i data) as [|b t]; [cbn [lenN] in Hl; lia|]. eauto.
Qed.

Lemma ap_walk_total : forall fuel data offset,
  (N.to_nat (lenN data - offset) < fuel)%nat ->
  exists b, ap_walk fuel data (lenN data) offset = Ok b.
Proof.
  induction fuel as [|fuel IH]; intros data offset Hf; [lia|].
  cbn [ap_walk]. set (len := lenN data) in *.
  destruct (N.ltb_spec offset len) as [Hlt|Hge]; cbn [negb]; [|eauto].
  destruct (N.ltb_spec len (offset + 2)) as [|H2]; [eauto|].
  destruct (byte_at_some data offset ltac:(lia)) as (s0 & ->).
  destruct (byte_at_some data (offset + 1) ltac:(lia)) as (s1 & ->).
  set (size := be_val [s0; s1]).
  destruct (N.ltb_spec len (offset + 2 + size)) as [|H3]; [eauto|].
  destruct (N.ltb_spec 0 size) as [Hpos|Hz].
  - destruct (byte_at_some data (offset + 2) ltac:(lia)) as (b & ->).
    destruct (kf_nalu_265 (type265 b)); [eauto|].
    apply IH. lia.
  - apply IH. lia.
Qed.

Theorem is_key_frame_265_total : forall data, exists b, is_key_frame_265 data = Ok b.
Proof.
  intros data. unfold is_key_frame_265.
  destruct (N.ltb_spec (lenN data) 2) as [|H2]; [eauto|].
  destruct data as [|b0 t]; [cbn [lenN] in H2; lia|].
  destruct (kf_nalu_265 (type265 b0)); [eauto|].
  destruct (type265 b0 =? 48).
  - apply ap_walk_total. lia.
  - destruct (type265 b0 =? 49); [|eauto].
    destruct (N.ltb_spec (lenN (b0 :: t)) 3) as [|H3]; [eauto|].
    destruct (byte_at_some (b0 :: t) 2 ltac:(lia)) as (fu & ->). eauto.
Qed.

(* ---------- isKeyFrame against the property's definition ---------- *)

Lemma land_mod : forall x k, N.land x (N.ones k) = x mod 2 ^ k.
Proof. intros. apply N.land_ones. Qed.

Lemma word_fields : forall b0 b1 b2 b3,
  b0 < 256 -> b1 < 256 -> b2 < 256 -> b3 < 256 ->
  N.land (N.shiftr (be_val [b0; b1; b2; b3]) 24) 31 = N.land b0 31 /\
  N.land (be_val [b0; b1; b2; b3]) 31 = N.land b3 31.
Proof.
  intros b0 b1 b2 b3 H0 H1 H2 H3.
  unfold be_val. cbn [fold_left].
  change 31 with (N.ones 5). rewrite !land_mod. rewrite N.shiftr_div_pow2.
  change (2 ^ 24) with 16777216. change (2 ^ 5) with 32.
  split.
  - f_equal. symmetry. apply N.div_unique with (r := b1 * 65536 + b2 * 256 + b3); lia.
  - replace ((((0 * 256 + b0) * 256 + b1) * 256 + b2) * 256 + b3)
      with (b3 + (((b0 * 256 + b1) * 256 + b2) * 8) * 32) by lia.
    apply N.mod_add. lia.
Qed.

(* packets on which the H.264 gate agrees with the property's definition:
   at least four bytes; a single NAL other than an IDR; a STAP-A whose units
   parse, whose first unit is not empty and is the SPS if the packet carries an
   SPS or IDR at all; an FU-A that does not start an SPS or IDR *)
Definition guard264 (p : list N) : bool :=
  bytes_ok p &&
  match p with
  | b0 :: b1 :: b2 :: b3 :: _ =>
      let t := N.land b0 31 in
      if t =? 24 then
        match agg_units (S (List.length (tl p))) (tl p) with
        | Some ((u0 :: _) as u :: us) =>
            (N.land u0 31 =? 7) || negb (existsb (fun u => kf_type_264 (first_type_264 u)) (u :: us))
        | _ => false
        end
      else if t =? 28 then negb (prop_kf_264 p)
      else negb (t =? 5)
  | _ => false
  end.

Lemma agg_first_byte : forall fuel s0 s1 x rest u0 u us,
  agg_units fuel (s0 :: s1 :: x :: rest) = Some ((u0 :: u) :: us) -> u0 = x.
Proof.
  intros fuel s0 s1 x rest u0 u us H. destruct fuel as [|f]; [discriminate|].
  cbn [agg_units] in H.
  destruct (lenN (x :: rest) <? be_val [s0; s1]); [discriminate|].
  destruct (agg_units f (dropN (be_val [s0; s1]) (x :: rest))); [|discriminate].
  inversion H as [[H1 H2]]. cbn [takeN] in H1.
  destruct (be_val [s0; s1] =? 0); [discriminate|]. inversion H1. reflexivity.
Qed.

Theorem partial_264 : forall p, guard264 p = true -> is_key_frame_264 p = prop_kf_264 p.
Proof.
  intros p H. unfold guard264 in H. apply andb_prop in H. destruct H as [Hok H].
  destruct p as [|b0 [|b1 [|b2 [|b3 r]]]]; try discriminate.
  unfold bytes_ok in Hok. cbn [forallb] in Hok.
  destruct (word_fields b0 b1 b2 b3 ltac:(lia) ltac:(lia) ltac:(lia) ltac:(lia)) as [W1 W2].
  unfold is_key_frame_264. cbn [word32]. cbv zeta. rewrite W1, W2.
  unfold prop_kf_264. cbn [tl] in H.
  destruct (N.eqb_spec (N.land b0 31) 24) as [E24|E24].
  - cbn [andb]. rewrite E24. change (24 =? 7) with false. cbv iota.
    destruct (agg_units (S (List.length (b1 :: b2 :: b3 :: r))) (b1 :: b2 :: b3 :: r)) as [[|[|u0 u] us]|] eqn:Ea;
      try discriminate.
    pose proof (agg_first_byte _ _ _ _ _ _ _ _ Ea) as ->.
    destruct (N.eqb_spec (N.land b3 31) 7) as [E7|E7].
    + cbn [existsb first_type_264]. unfold kf_type_264 at 1. rewrite E7. reflexivity.
    + cbn [orb] in H. symmetry. apply negb_true_iff in H. exact H.
  - cbn [andb]. destruct (N.eqb_spec (N.land b0 31) 28) as [E28|E28].
    + destruct (N.eqb_spec (N.land b0 31) 7); [lia|].
      unfold prop_kf_264 in H. rewrite E28 in H. cbn [N.eqb Pos.eqb] in H.
      apply negb_true_iff in H. symmetry. exact H.
    + unfold kf_type_264. destruct (N.eqb_spec (N.land b0 31) 7); [reflexivity|].
      cbn [orb]. destruct (N.eqb_spec (N.land b0 31) 5); [discriminate|reflexivity].
Qed.

(* H.265: single NAL packets (not AP, not FU) *)
Definition guard265_single (p : list N) : bool :=
  match p with
  | b0 :: _ :: _ => negb (type265 b0 =? 48) && negb (type265 b0 =? 49)
  | _ => true
  end.

Theorem partial_265_single : forall p,
  guard265_single p = true -> is_key_frame_265 p = Ok (prop_kf_265 p).
Proof.
  intros p H. unfold is_key_frame_265, prop_kf_265.
  destruct p as [|b0 [|b1 r]]; try reflexivity.
  cbn [guard265_single] in H. apply andb_prop in H. destruct H as [H1 H2].
  apply negb_true_iff in H1. apply negb_true_iff in H2.
  destruct (N.ltb_spec (lenN (b0 :: b1 :: r)) 2) as [Hl|_]; [cbn [lenN] in Hl; lia|].
  rewrite H1, H2. destruct (kf_nalu_265 (type265 b0)); reflexivity.
Qed.

(* H.265 aggregation packets whose unit sizes fit: the walk finds a keyframe
   unit iff there is one *)
Lemma byte_at_app : forall pre x rest, byte_at (pre ++ x :: rest) (lenN pre) = Some x.
Proof. intros. unfold byte_at. rewrite dropN_app_exact by reflexivity. reflexivity. Qed.

Lemma byte_at_app1 : forall pre x y rest, byte_at (pre ++ x :: y :: rest) (lenN pre + 1) = Some y.
Proof.
  intros. unfold byte_at.
  replace (pre ++ x :: y :: rest) with ((pre ++ [x]) ++ y :: rest) by (rewrite <- app_assoc; reflexivity).
  rewrite dropN_app_exact; [reflexivity|]. rewrite lenN_app. cbn [lenN]. lia.
Qed.

Lemma ap_walk_units : forall f body us pre fuel,
  agg_units f body = Some us ->
  (N.to_nat (lenN body) < fuel)%nat ->
  ap_walk fuel (pre ++ body) (lenN (pre ++ body)) (lenN pre)
  = Ok (existsb (fun u => kf_nalu_265 (first_type_265 u)) us).
Proof.
  induction f as [|f IH]; intros body us pre fuel Ha Hf; [discriminate|].
  destruct fuel as [|fuel]; [lia|].
  cbn [agg_units] in Ha. cbn [ap_walk]. rewrite lenN_app.
  destruct body as [|s0 [|s1 rest]]; try discriminate.
  - inversion Ha; subst. cbn [lenN existsb].
    destruct (N.ltb_spec (lenN pre) (lenN pre + 0)); [lia|]. reflexivity.
  - set (size := be_val [s0; s1]) in *.
    destruct (N.ltb_spec (lenN rest) size) as [|Hfit]; [discriminate|].
    destruct (agg_units f (dropN size rest)) as [us'|] eqn:Er; [|discriminate].
    inversion Ha; subst us. clear Ha.
    cbn [lenN].
    destruct (N.ltb_spec (lenN pre) (lenN pre + N.succ (N.succ (lenN rest)))) as [_|]; [|lia].
    cbn [negb].
    destruct (N.ltb_spec (lenN pre + N.succ (N.succ (lenN rest))) (lenN pre + 2)) as [|_]; [lia|].
    rewrite byte_at_app, byte_at_app1. fold size.
    destruct (N.ltb_spec (lenN pre + N.succ (N.succ (lenN rest))) (lenN pre + 2 + size)) as [|_]; [lia|].
    (* the walk continues behind this unit *)
    assert (Hsplit : pre ++ s0 :: s1 :: rest = (pre ++ s0 :: s1 :: takeN size rest) ++ dropN size rest).
    { rewrite <- app_assoc. cbn [app]. rewrite takeN_dropN. reflexivity. }
    assert (Hlen : lenN (pre ++ s0 :: s1 :: takeN size rest) = lenN pre + 2 + size).
    { rewrite lenN_app. cbn [lenN]. rewrite lenN_takeN. lia. }
    assert (Hrec : ap_walk fuel (pre ++ s0 :: s1 :: rest) (lenN pre + N.succ (N.succ (lenN rest))) (lenN pre + 2 + size)
                   = Ok (existsb (fun u => kf_nalu_265 (first_type_265 u)) us')).
    { specialize (IH (dropN size rest) us' (pre ++ s0 :: s1 :: takeN size rest) fuel Er).
      rewrite <- Hsplit, Hlen in IH. rewrite lenN_app in IH. cbn [lenN] in IH.
      apply IH. rewrite lenN_dropN. cbn [lenN] in Hf. lia. }
    cbn [existsb].
    destruct (N.ltb_spec 0 size) as [Hpos|Hz].
    + destruct rest as [|x rest']; [cbn [lenN] in Hfit; lia|].
      replace (pre ++ s0 :: s1 :: x :: rest') with ((pre ++ [s0; s1]) ++ x :: rest')
        by (rewrite <- app_assoc; reflexivity).
      assert (Hb : byte_at ((pre ++ [s0; s1]) ++ x :: rest') (lenN pre + 2) = Some x).
      { unfold byte_at. rewrite dropN_app_exact; [reflexivity|]. rewrite lenN_app. cbn [lenN]. lia. }
      rewrite Hb.
      cbn [takeN]. destruct (N.eqb_spec size 0); [lia|]. cbn [first_type_265].
      destruct (kf_nalu_265 (type265 x)); [reflexivity|]. cbn [orb].
      rewrite <- app_assoc. cbn [app]. exact Hrec.
    + assert (size = 0) by lia.
      replace (takeN size rest) with (@nil N) by (rewrite H; symmetry; apply takeN_0).
      cbn [first_type_265]. change (kf_nalu_265 0) with false. cbn [orb]. exact Hrec.
Qed.

Definition guard265_ap (p : list N) : bool :=
  match p with
  | b0 :: b1 :: rest =>
      (type265 b0 =? 48) && negb (kf_nalu_265 (type265 b0)) &&
      match agg_units (S (List.length rest)) rest with Some _ => true | None => false end
  | _ => false
  end.

Theorem partial_265_ap : forall p,
  guard265_ap p = true -> is_key_frame_265 p = Ok (prop_kf_265 p).
Proof.
  intros p H. destruct p as [|b0 [|b1 rest]]; try discriminate.
  cbn [guard265_ap] in H. apply andb_prop in H. destruct H as [H Hu].
  apply andb_prop in H. destruct H as [H48 Hk]. apply negb_true_iff in Hk.
  unfold is_key_frame_265, prop_kf_265.
  destruct (N.ltb_spec (lenN (b0 :: b1 :: rest)) 2) as [Hl|_]; [cbn [lenN] in Hl; lia|].
  rewrite Hk, H48.
  destruct (agg_units (S (List.length rest)) rest) as [us|] eqn:Ea; [|discriminate].
  assert (Hf : (N.to_nat (lenN rest) < S (N.to_nat (lenN (b0 :: b1 :: rest))))%nat) by (cbn [lenN]; lia).
  exact (ap_walk_units _ rest us [b0; b1] _ Ea Hf).
Qed.

(* the recorded deviations: packets that are keyframe packets by the property's
   definition and are not accepted, and the converse *)
Definition idr_single : list N := [101; 136; 132; 33].                      (* 0x65: IDR *)
Definition sps_short : list N := [103; 66; 128].                            (* 3-byte SPS *)
Definition sps_fua_start : list N := [124; 135; 66; 0; 31].                 (* FU-A, S bit, type 7 *)
Definition stapa_sps_second : list N := [120; 0; 4; 65; 154; 2; 5; 0; 3; 103; 66; 128]. (* [P; SPS] *)
Definition idr_fu_start_265 : list N := [98; 1; 147; 175; 6].               (* FU, S bit, FuType 19 *)
Definition trail_fu_end_265 : list N := [98; 1; 65; 9; 9].                  (* FU, E bit, FuType 1 *)
Definition sei_fu_start_265 : list N := [98; 1; 167; 9; 9].                 (* FU, S bit, FuType 39 *)

Theorem keyframe_refuted :
  (prop_kf_264 idr_single = true /\ is_key_frame_264 idr_single = false) /\
  (prop_kf_264 sps_short = true /\ is_key_frame_264 sps_short = false) /\
  (prop_kf_264 sps_fua_start = true /\ is_key_frame_264 sps_fua_start = false) /\
  (prop_kf_264 stapa_sps_second = true /\ is_key_frame_264 stapa_sps_second = false) /\
  (prop_kf_265 idr_fu_start_265 = true /\ is_key_frame_265 idr_fu_start_265 = Ok false) /\
  (prop_kf_265 trail_fu_end_265 = false /\ is_key_frame_265 trail_fu_end_265 = Ok true) /\
  (prop_kf_265 sei_fu_start_265 = false /\ is_key_frame_265 sei_fu_start_265 = Ok true).
Proof. vm_compute. repeat split. Qed.

(* stream level: where every packet meets the guard, the gate opens at the
   property's first keyframe packet *)
Lemma from_first_ext : forall (f g : list N -> bool) ps,
  Forall (fun p => f p = g p) ps -> from_first f ps = from_first g ps.
Proof.
  induction ps as [|p t IH]; intros H; [reflexivity|].
  cbn [from_first]. rewrite (Forall_inv H). rewrite (IH (Forall_inv_tail H)). reflexivity.
Qed.

Theorem partial_264_stream : forall ps,
  Forall (fun p => guard264 p = true) ps ->
  from_first is_key_frame_264 ps = from_first prop_kf_264 ps.
Proof.
  intros ps H. apply from_first_ext. eapply Forall_impl; [|exact H].
  intros p Hp. apply partial_264. exact Hp.
Qed.
