(* C31: sequence-number order of the built samples.

   The ghost event log (evlog) records every change of active.head:
     EvAnchor a h _ active = filled: the head jumps from a to h = filled.head
     EvMove k h t   a run [h, t) was consumed (k = 0: a sample was built from it)
     EvSkip h       active.head++ in purgeBuffers
   log_ok says: after the first built sample, the forward distance (mod 2^16)
   the head has travelled since the end of the last built sample stays below
   32767.  A re-anchoring that lands behind the position reached (recorded
   causes consumed-packets-rebuilt-after-active-drained and
   stale-packet-accepted-after-buffer-drained) is a forward jump of 32768 or
   more and violates it.  Under log_ok the built samples are in order. *)
From Coq Require Import List ZArith NArith PArith Bool Lia ZifyBool ZifyNat ZifyN.
Import ListNotations.
From Verif Require Import Common.Base Model.SampleBuilder Model.SampleBuilderSpec
  Proofs.SampleBuilderArith Proofs.SampleBuilderIter Proofs.SampleBuilderMap Proofs.SampleBuilder
  Proofs.SampleBuilderScan Proofs.SampleBuilderBuild Proofs.SampleBuilderFuel
  Proofs.SampleBuilderNoPanic Proofs.SampleBuilderCases Proofs.SampleBuilderInside.
Open Scope N_scope.
Ltac Zify.zify_post_hook ::= Z.div_mod_to_equations.

(* the same as a boolean, for examples *)
Fixpoint log_okb (l : list ev) : bool :=
  match l with
  | [] => true
  | e :: l' => log_okb l' && (is_sample_ev e || match gapl l' with Some g => g + ev_len e <? 32767 | None => true end)
  end.
Lemma log_okb_ok : forall l, log_okb l = true -> log_ok l.
Proof.
  induction l as [|e l IH]; cbn [log_okb log_ok]; intro H; [exact I|].
  apply andb_true_iff in H. destruct H as [H1 H2]. split; [apply IH; exact H1|].
  intros He g Hg. rewrite He, Hg in H2. cbn [orb] in H2. apply N.ltb_lt. exact H2.
Qed.

Lemma gapl_bound : forall l g, log_ok l -> gapl l = Some g -> g < 32767.
Proof.
  intros [|e l] g Hok Hg; cbn [gapl log_ok] in *; [discriminate Hg|].
  destruct Hok as [_ Hc]. destruct (is_sample_ev e) eqn:Es.
  - injection Hg as <-. lia.
  - destruct (gapl l) as [g0|] eqn:E0; [|discriminate Hg]. injection Hg as <-. apply Hc; reflexivity.
Qed.

(* ---------- order of a list of samples, built newest first ---------- *)
Lemma in_order_snoc : forall l y x,
  in_order (l ++ [y]) -> seq_after (last_seq y) (first_seq x) -> in_order ((l ++ [y]) ++ [x]).
Proof.
  induction l as [|a l IH]; intros y x Ho Hs.
  - cbn. split; [exact Hs|exact I].
  - destruct l as [|b l].
    + cbn in *. destruct Ho as [H1 _]. split; [exact H1|]. split; [exact Hs|exact I].
    + change (((a :: b :: l) ++ [y]) ++ [x]) with (a :: ((b :: l) ++ [y]) ++ [x]).
      change ((a :: b :: l) ++ [y]) with (a :: b :: (l ++ [y])) in Ho.
      cbn [in_order] in Ho. destruct Ho as [H1 H2].
      change (((b :: l) ++ [y]) ++ [x]) with (b :: (l ++ [y]) ++ [x]).
      cbn [in_order]. split; [exact H1|].
      change (b :: (l ++ [y]) ++ [x]) with (((b :: l) ++ [y]) ++ [x]). apply IH; assumption.
Qed.

(* ---------- the part of a state the order argument looks at ---------- *)
Definition keys_ok (s : st) : Prop := forall k p, In (k, p) (buf s) -> p_seq p = k.

(* the position right after the last built sample, from which gapl is counted *)
Definition last_end (x : sample) : N := w16 (last_seq x + 1).

Definition oinv (s : st) : Prop :=
  log_ok (evlog s) ->
  in_order (rev (built s)) /\
  match built s with
  | [] => gapl (evlog s) = None
  | x :: _ => exists g, gapl (evlog s) = Some g /\ l_head (active s) = w16 (last_end x + g)
  end.

(* transitions that leave log, active.head and built alone *)
Definition same3 (s s' : st) : Prop :=
  evlog s' = evlog s /\ l_head (active s') = l_head (active s) /\ built s' = built s.
Lemma oinv_same3 : forall s s', same3 s s' -> oinv s -> oinv s'.
Proof. intros s s' (E1 & E2 & E3) H. unfold oinv in *. rewrite E1, E2, E3. exact H. Qed.
Lemma same3_refl : forall s, same3 s s.
Proof. intro. repeat split. Qed.
Lemma same3_trans : forall a b d, same3 a b -> same3 b d -> same3 a d.
Proof. intros a b d (H1 & H2 & H3) (G1 & G2 & G3). repeat split; congruence. Qed.

Lemma same3_raise : forall s f, same3 s (raise s f).
Proof. intros. unfold raise. destruct (fault s =? 0); repeat split. Qed.
Lemma same3_releasePacket : forall s i, same3 s (releasePacket s i).
Proof. intros. unfold releasePacket. destruct (bget i (buf s)); repeat split. Qed.
Lemma same3_release_filled_head : forall s, same3 s (release_filled_head s).
Proof.
  intro s. unfold release_filled_head. destruct (same3_releasePacket s (l_head (filled s))) as (H1 & H2 & H3).
  repeat split; cbn; assumption.
Qed.
Lemma same3_pcl : forall s l f, same3 s (purgeConsumedLocation s l f).
Proof.
  intros. unfold purgeConsumedLocation. destruct (negb _); [apply same3_refl|].
  destruct (compare _ _); try apply same3_refl; try apply same3_release_filled_head.
  destruct f; [apply same3_release_filled_head|apply same3_refl].
Qed.
Lemma same3_purge2 : forall s l, same3 s (purge2 s l).
Proof. intros. unfold purge2, purgeConsumedBuffers. eapply same3_trans; apply same3_pcl. Qed.

(* a logged move of the head that builds nothing *)
Lemma oinv_move : forall s s' e,
  evlog s' = e :: evlog s -> is_sample_ev e = false ->
  ev_src e = l_head (active s) -> l_head (active s') = ev_end e -> built s' = built s ->
  l_head (active s) < 65536 -> ev_end e < 65536 ->
  oinv s -> oinv s'.
Proof.
  intros s s' e El Es Hsrc Hend Hb Hh He H Hok. unfold oinv in *. rewrite El in Hok. cbn [log_ok] in Hok.
  destruct Hok as [Hok Hc]. specialize (H Hok). destruct H as [H1 H2]. rewrite Hb. split; [exact H1|].
  rewrite El. cbn [gapl]. rewrite Es.
  destruct (built s) as [|x bs].
  - rewrite H2. reflexivity.
  - destruct H2 as (g & Hg & Hpos). exists (g + ev_len e). rewrite Hg. split; [reflexivity|].
    rewrite Hend. unfold ev_len. rewrite Hsrc, Hpos.
    rewrite !w16_spec, sub16_spec. rewrite Hpos, w16_spec in Hh. lia.
Qed.

Section Order.
  Variable is_head : list N -> bool.
  Variable is_tail : bool -> list N -> bool.
  Variable unmarshal : list N -> option (list N).
  Variable c : cfg.
  Notation buildSample := (buildSample is_head is_tail unmarshal c).
  Notation purge_body := (purge_body is_head is_tail unmarshal c).
  Notation purge_step := (purge_step is_head is_tail unmarshal c).
  Notation purgeBuffers := (purgeBuffers is_head is_tail unmarshal c).
  Notation push := (push is_head is_tail unmarshal c).
  Notation flush := (flush is_head is_tail unmarshal c).
  Notation pop := (pop is_head is_tail unmarshal c).
  Notation step := (step is_head is_tail unmarshal c).
  Notation run := (run is_head is_tail unmarshal c).
  Notation rel := (rel is_head is_tail unmarshal).
  Notation scan := (scan is_tail).

  Lemma oinv_anchor : forall s, locs_ok s -> oinv s -> oinv (anchor s).
  Proof.
    intros s [[Hfh _] [Hah _]] H. unfold anchor. destruct (l_empty (active s)); [|exact H].
    eapply (oinv_move s _ (EvAnchor (l_head (active s)) (l_head (filled s)) (lagging s))); try reflexivity; try assumption.
  Qed.

  Lemma same3_extend : forall s, same3 s (extend s).
  Proof. intro s. unfold extend. destruct (cmp_eqb _ _); repeat split. Qed.

  Lemma same3_mark3 : forall s, same3 s (mark3 s).
  Proof. intro s. unfold mark3. destruct (snd _); [apply same3_refl|apply same3_raise]. Qed.

  (* the head moves over a consumed run without a sample being built *)
  Lemma oinv_moved : forall s consume k st',
    k <> 0 -> l_head consume = l_head (active s) -> loc_ok consume -> oinv s ->
    same3 (log_ev (moved s consume) (mv k consume)) st' -> oinv st'.
  Proof.
    intros s consume k st' Hk Hch [Hc1 Hc2] H Hs. apply (oinv_same3 _ _ Hs).
    destruct (same3_mark3 s) as (M1 & M2 & M3).
    eapply (oinv_move s _ (mv k consume)); try reflexivity.
    - cbn [log_ev moved set_active evlog]. rewrite M1. reflexivity.
    - destruct k; [contradiction|reflexivity].
    - cbn. exact Hch.
    - cbn [log_ev moved set_active built]. exact M3.
    - rewrite <- Hch. exact Hc1.
    - exact Hc2.
    - exact H.
  Qed.

  (* the packets of a collected run sit at the keys head, head+1, ... *)
  Lemma collected_keys : forall s consume col pkts,
    l_head consume < 65536 -> collect s consume = (col, false) -> all_some col = Some pkts ->
    l_tail consume = w16 (l_head consume + N.of_nat (List.length pkts)) /\
    forall j p, nth_error pkts j = Some p -> In (w16 (l_head consume + N.of_nat j), p) (buf s).
  Proof.
    intros s consume col pkts Hh Hcol Has.
    apply collect_spec in Hcol; [|exact Hh]. destruct Hcol as (len & Hc & Ht & _).
    apply all_some_spec in Has. rewrite Hc in Has.
    assert (Hl : List.length pkts = len).
    { apply (f_equal (@List.length _)) in Has. rewrite !map_length, keys_from_length in Has. lia. }
    split; [rewrite Hl; symmetry; exact Ht|].
    intros j p Hj. assert (Hjn : (j < len)%nat) by (rewrite <- Hl; apply nth_error_Some; congruence).
    assert (E : nth_error (map (fun k0 => bget k0 (buf s)) (keys_from (l_head consume) len)) j
                = nth_error (map Some pkts) j) by (rewrite Has; reflexivity).
    rewrite !nth_error_map, Hj, keys_from_nth in E by assumption. cbn in E. injection E as E.
    apply bget_In. exact E.
  Qed.

  (* a sample is built: it starts at active.head, the head ends up right after it *)
  Lemma oinv_sample : forall s consume col hp rest d0 ds st',
    keys_ok s -> l_head consume = l_head (active s) -> loc_ok consume ->
    collect s consume = (col, false) -> all_some col = Some (hp :: rest) ->
    oinv s ->
    same3 (sampled_state c s consume (new_sample c s consume d0 ds (hp :: rest))) st' -> oinv st'.
  Proof.
    intros s consume col hp rest d0 ds st' Hk Hch [Hc1 Hc2] Hcol Has H Hs. apply (oinv_same3 _ _ Hs).
    set (x := new_sample c s consume d0 ds (hp :: rest)).
    destruct (collected_keys s consume col (hp :: rest) Hc1 Hcol Has) as (Ht & Hnth).
    assert (Hfirst : first_seq x = l_head (active s)).
    { unfold first_seq, x, new_sample. cbn [s_pkts]. rewrite (Hk _ _ (Hnth 0%nat hp eq_refl)).
      rewrite <- Hch, w16_small by lia. lia. }
    assert (Hlast : last_seq x = w16 (l_head (active s) + N.of_nat (List.length rest))).
    { unfold last_seq, x, new_sample. cbn [s_pkts]. rewrite last_cons.
      rewrite (Hk _ _ (Hnth _ _ (nth_error_last rest hp))). rewrite Hch. reflexivity. }
    assert (Hend : l_tail consume = last_end x).
    { unfold last_end. rewrite Hlast, Ht, Hch. cbn [List.length]. rewrite !w16_spec. lia. }
    destruct (same3_mark3 s) as (M1 & M2 & M3).
    assert (Ev : evlog (sampled_state c s consume x) = mv 0 consume :: evlog s).
    { unfold sampled_state. cbv zeta. cbn [evlog]. f_equal.
      unfold handled. destruct (c_headHandler c); cbn [evlog set_headCalls moved set_active]; exact M1. }
    assert (Eb : built (sampled_state c s consume x) = x :: built s).
    { unfold sampled_state. cbv zeta. cbn [built]. f_equal.
      unfold handled. destruct (c_headHandler c); cbn [built set_headCalls moved set_active]; exact M3. }
    assert (Ea : l_head (active (sampled_state c s consume x)) = l_tail consume).
    { unfold sampled_state. cbv zeta. cbn [active].
      unfold handled. destruct (c_headHandler c); reflexivity. }
    unfold oinv in *. rewrite Ev, Eb, Ea. cbn [log_ok gapl is_sample_ev mv]. intros [Hok _].
    specialize (H Hok). destruct H as [H1 H2]. split.
    - cbn [rev]. destruct (built s) as [|y bs] eqn:Eb0; [exact I|].
      cbn [rev] in *. apply in_order_snoc; [exact H1|].
      destruct H2 as (g & Hg & Hpos).
      pose proof (gapl_bound _ _ Hok Hg) as Hgb.
      unfold seq_after. rewrite Hfirst, Hpos. unfold last_end.
      rewrite !w16_spec, sub16_spec. lia.
    - exists 0. split; [reflexivity|]. rewrite Hend, w16_spec, N.add_0_r.
      unfold last_end. rewrite w16_spec. rewrite N.mod_mod by lia. reflexivity.
  Qed.

  Lemma same3_handled_log : forall s e, same3 (log_ev s e) (log_ev (handled c s) e).
  Proof. intros. unfold handled. destruct (c_headHandler c); repeat split. Qed.

  Lemma same3_dropped_state : forall s consume pk,
    same3 (log_ev (moved s consume) (mv 1 consume)) (dropped_state s consume pk).
  Proof. intros. unfold dropped_state. cbv zeta. destruct (existsb _ _); repeat split. Qed.

  Definition oinv2 (s : st) : Prop := locs_ok s /\ keys_ok s /\ oinv s.

  Lemma keys_ok_rel : forall s s', rel s s' -> keys_ok s -> keys_ok s'.
  Proof. intros s s' R H k p Hin. apply H. apply (r_buf _ _ _ _ _ R). exact Hin. Qed.

  Lemma oinv_buildSample : forall purging s0, oinv2 s0 -> oinv (fst (buildSample purging s0)).
  Proof.
    intros purging s0 (Hok & Hk & H).
    pose proof (active_anchor_ok s0 Hok) as Hok1.
    pose proof (active_extend_ok _ Hok1) as Hok2.
    pose proof (oinv_anchor s0 Hok H) as H1.
    pose proof (oinv_same3 _ _ (same3_extend (anchor s0)) H1) as H2.
    assert (Hk2 : keys_ok (extend (anchor s0))).
    { intros k p Hin. apply Hk. pose proof (bf_extend (anchor s0)) as E1. pose proof (bf_anchor s0) as E0.
      unfold bf in E1, E0. injection E1 as E1 _. injection E0 as E0 _. rewrite E1, E0 in Hin. exact Hin. }
    destruct (buildSample_bcase is_head is_tail unmarshal c purging s0) as [E1|consume E1 Esc|consume E1 Esc Hw|consume r E1 Esc Ece Hw Hr];
      cbn [fst].
    - exact H1.
    - apply (oinv_same3 _ _ (same3_raise _ _) H2).
    - exact H2.
    - set (s2 := extend (anchor s0)) in *.
      destruct (run_facts is_tail s2 consume (proj2 Hok2) Esc Ece) as (k & _ & _ & Hcok & Hch & _).
      destruct Hr; cbn [fst].
      + apply (oinv_moved s2 consume 2 _ ltac:(discriminate) Hch Hcok H2). apply same3_raise.
      + apply (oinv_moved s2 consume 2 _ ltac:(discriminate) Hch Hcok H2). apply same3_raise.
      + apply (oinv_moved s2 consume 1 _ ltac:(discriminate) Hch Hcok H2).
        eapply same3_trans; [apply same3_dropped_state|apply same3_purge2].
      + apply (oinv_moved s2 consume 2 _ ltac:(discriminate) Hch Hcok H2). apply same3_refl.
      + apply (oinv_moved s2 consume 2 _ ltac:(discriminate) Hch Hcok H2). apply same3_handled_log.
      + apply (oinv_sample s2 consume col hp rest d0 ds _ Hk2 Hch Hcok H0 H3 H2). apply same3_purge2.
  Qed.

  Lemma oinv2_buildSample : forall purging s0, oinv2 s0 -> oinv2 (fst (buildSample purging s0)).
  Proof.
    intros purging s0 H. pose proof (proj1 (buildSample_rel is_head is_tail unmarshal c purging s0)) as R.
    destruct H as (Hok & Hk & Ho). split; [apply (r_ok _ _ _ _ _ R); exact Hok|].
    split; [eapply keys_ok_rel; eassumption|]. apply oinv_buildSample. exact (conj Hok (conj Hk Ho)).
  Qed.

  Lemma oinv2_anchor : forall s, oinv2 s -> oinv2 (anchor s).
  Proof.
    intros s (Hok & Hk & Ho). split; [apply active_anchor_ok; exact Hok|]. split; [|apply oinv_anchor; assumption].
    intros k p Hin. apply Hk. pose proof (bf_anchor s) as E0. unfold bf in E0. injection E0 as E0 _. rewrite E0 in Hin. exact Hin.
  Qed.

  Lemma oinv_skipped : forall s, locs_ok s -> oinv s -> oinv (SampleBuilderCases.skipped s).
  Proof.
    intros s [_ [Hah _]] H.
    eapply (oinv_move s _ (EvSkip (l_head (active s)))); try reflexivity; try assumption.
    cbn. apply inc16_lt.
  Qed.

  Lemma oinv2_purge_body : forall s, oinv2 s -> oinv2 (purge_body s).
  Proof.
    intros s H. pose proof (rel_purge_body is_head is_tail unmarshal c s) as R.
    destruct H as (Hok & Hk & Ho). split; [apply (r_ok _ _ _ _ _ R); exact Hok|].
    split; [eapply keys_ok_rel; eassumption|].
    pose proof (oinv2_anchor s (conj Hok (conj Hk Ho))) as Ha.
    pose proof (oinv2_buildSample true _ Ha) as (Hokb & _ & Hb).
    destruct (purge_body_pcase is_head is_tail unmarshal c s) as [x Hc Hs|Hc Hs|Hc].
    - exact Hb.
    - apply (oinv_same3 _ _ (same3_release_filled_head _)). apply oinv_skipped; assumption.
    - apply (oinv_same3 _ _ (same3_release_filled_head _)). apply Ha.
  Qed.

  Lemma oinv2_same : forall s s', rel s s' -> same3 s s' -> oinv2 s -> oinv2 s'.
  Proof.
    intros s s' R S (Hok & Hk & Ho). split; [apply (r_ok _ _ _ _ _ R); exact Hok|].
    split; [eapply keys_ok_rel; eassumption|eapply oinv_same3; eassumption].
  Qed.

  Lemma oinv2_purgeBuffers : forall fl s, oinv2 s -> oinv2 (purgeBuffers fl s).
  Proof.
    intros fl s H. unfold SampleBuilder.purgeBuffers.
    set (s1 := purgeConsumedBuffers s).
    assert (H1 : oinv2 s1).
    { apply (oinv2_same s s1); [apply rel_purgeConsumedBuffers|apply same3_pcl|exact H]. }
    rewrite iter_pos_nat.
    assert (H2 : oinv2 (fst (iter_nat (Pos.to_nat (N.succ_pos (purge_measure s1))) (purge_step fl) s1))).
    { apply (iter_nat_inv oinv2); [|exact H1].
      intros x Hx. unfold SampleBuilder.purge_step. destruct (purge_cond c fl x); cbn [fst]; [apply oinv2_purge_body|]; exact Hx. }
    destruct (snd (iter_nat _ _ _)); [|exact H2].
    eapply oinv2_same; [apply rel_raise; lia|apply same3_raise|exact H2].
  Qed.

  Lemma oinv2_push : forall pk s, oinv2 s -> p_seq pk < 65536 -> oinv2 (push pk s).
  Proof.
    intros pk s (Hok & Hk & Ho) Hq. unfold SampleBuilder.push. apply oinv2_purgeBuffers.
    set (s1 := set_buf s _).
    destruct Hok as [[Hfh Hft] Ha].
    assert (Hk1 : keys_ok s1).
    { intros k p [E|Hin]; [injection E as <- <-; reflexivity|]. apply In_bdel in Hin. apply Hk. tauto. }
    assert (Ho1 : oinv s1) by (apply (oinv_same3 s s1); [repeat split|exact Ho]).
    destruct (compare (filled s1) (p_seq pk));
      (split; [split; [split; cbn; try apply inc16_lt; assumption|exact Ha]|split; [exact Hk1|]]);
      try exact Ho1; apply (oinv_same3 s1 _); try exact Ho1; repeat split.
  Qed.

  Lemma oinv2_pop : forall s, oinv2 s -> oinv2 (fst (pop s)).
  Proof.
    intros s H. unfold SampleBuilder.pop.
    pose proof (oinv2_buildSample false s H) as H1.
    set (s1 := fst (buildSample false s)) in *.
    destruct (l_empty (prepared s1)); cbn [fst]; [exact H1|].
    destruct H1 as (Hok & Hk & Ho). split; [exact Hok|]. split; [exact Hk|].
    apply (oinv_same3 s1 _); [repeat split|exact Ho].
  Qed.

  Lemma oinv2_st0 : oinv2 st0.
  Proof.
    split; [split; split; cbn; lia|]. split; [intros k p []|].
    intros _. cbn. split; [exact I|reflexivity].
  Qed.

  Theorem built_in_order : forall ops, history_ok ops ->
    log_ok (evlog (fst (run ops))) -> in_order (rev (built (fst (run ops)))).
  Proof.
    intros ops [Hseq _] Hlog.
    assert (G : forall ops s outs, oinv2 s ->
              (forall pk, In pk (pushed_of ops) -> p_seq pk < 65536) ->
              oinv2 (fst (fold_left (fun acc o =>
                 let r := step (fst acc) o in
                 (fst r, match snd r with Some x => snd acc ++ [x] | None => snd acc end)) ops (s, outs)))).
    { clear. induction ops as [|o ops IH]; intros s outs Hg Hseq; cbn [fold_left]; [exact Hg|].
      destruct o as [pk| |]; cbn [SampleBuilder.step fst snd].
      - apply IH; [apply oinv2_push; [exact Hg|apply Hseq; left; reflexivity]|].
        intros q Hq. apply Hseq. right. exact Hq.
      - apply IH; [apply oinv2_pop; exact Hg|exact Hseq].
      - apply IH; [apply oinv2_purgeBuffers; exact Hg|exact Hseq]. }
    destruct (G ops st0 [] oinv2_st0 Hseq) as (_ & _ & Ho). apply Ho. exact Hlog.
  Qed.
End Order.

Lemma in_order_prefix : forall a b, in_order (a ++ b) -> in_order a.
Proof.
  induction a as [|x a IH]; intros b H; [exact I|].
  destruct a as [|y a]; [exact I|].
  change ((x :: y :: a) ++ b) with (x :: y :: (a ++ b)) in H. cbn [in_order] in *.
  destruct H as [H1 H2]. split; [exact H1|]. apply (IH b). exact H2.
Qed.
