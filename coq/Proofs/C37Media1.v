(* C37 (container readers never crash or hang), the part owned by the media1
   family: the rtpdump reader and the Annex-B readers (h264reader, h265reader)
   over ARBITRARY byte strings and arbitrary chunking (empty reads included).
   Per reader: no panic, and progress (a successful call strictly consumes
   input, so the number of successful calls is bounded by the input length and
   the fuel of the models provably suffices). *)
From Coq Require Import List ZArith NArith String Bool Lia ZifyBool ZifyNat ZifyN.
Import ListNotations.
From Verif Require Import Common.V Common.Base Common.Media1Util
  Model.RtpDump Model.AnnexB Proofs.Media1Util Proofs.RtpDump Proofs.AnnexB.
Open Scope N_scope.

(* ================= rtpdump ================= *)

Theorem rtpdump_no_panic : forall bytes : list N,
  new_reader bytes <> Panic /\ next bytes <> Panic /\ read_file bytes <> Panic.
Proof.
  intros. split; [apply new_reader_no_panic|]. split; [apply next_no_panic|].
  apply (proj1 (read_file_total bytes)).
Qed.

(* a successful Next consumes at least the 8-byte record header *)
Theorem rtpdump_progress : forall bytes p rest,
  next bytes = Ok (p, rest) -> lenN rest + 8 <= lenN bytes.
Proof. exact next_progress. Qed.

(* hence the loop of read_file ends by an error or EOF of the reader itself *)
Theorem rtpdump_fuel_suffices : forall bytes h ps e,
  read_file bytes = Ok (h, ps, e) -> e <> "out-of-fuel"%string /\ e <> "panic"%string.
Proof. intros bytes. exact (proj2 (read_file_total bytes)). Qed.

(* ================= h264reader / h265reader ================= *)

Section AnnexB.
Variable sk : N -> bool.

Lemma refill_bytes : forall cs k rb,
  match refill k rb cs with
  | (ok, rb', cs') =>
      (List.length rb' + List.length (List.concat cs') = List.length rb + List.length (List.concat cs))%nat
  end.
Proof.
  induction cs as [|c cs IH]; intros k rb; cbn [refill].
  - destruct (at_least k rb); reflexivity.
  - destruct (at_least k rb); [reflexivity|].
    destruct c as [|x c]; [reflexivity|].
    specialize (IH k (rb ++ x :: c)).
    destruct (refill k (rb ++ x :: c) cs) as [[ok rb'] cs'].
    rewrite IH. cbn [List.concat]. rewrite !app_length. lia.
Qed.

Lemma length_take_drop : forall {A} (l : list A) k,
  (List.length (takeN k l) + List.length (dropN k l) = List.length l)%nat.
Proof. intros. rewrite <- app_length, takeN_dropN. reflexivity. Qed.

(* read never loses bytes: what it returns is what leaves the pending input *)
Lemma read_remaining : forall k s,
  match read k s with
  | (r, s') =>
      nalrev s' = nalrev s /\ zeros s' = zeros s /\ parsed s' = parsed s /\
      (remaining s' + match r with Some d => List.length d | None => O end = remaining s)%nat
  end.
Proof.
  intros k s. unfold read. pose proof (refill_bytes (chunks s) k (rbuf s)) as H.
  destruct (refill k (rbuf s) (chunks s)) as [[ok rb'] cs'].
  destruct ok; unfold remaining; cbn [chunks rbuf nalrev zeros parsed]; repeat split.
  - pose proof (length_take_drop rb' k). lia.
  - lia.
Qed.

Lemma process_byte_found : forall b nb z nb' z',
  process_byte b nb z = (true, nb', z') -> nb' <> [].
Proof.
  intros b nb z nb' z' H. unfold process_byte in H.
  destruct (b =? 0); [discriminate|]. destruct (b =? 1); [|discriminate].
  destruct (2 <=? z); [|discriminate].
  set (p := if 2 <? z then 3 else 2) in *.
  destruct (N.ltb_spec p (lenN nb)) as [Hlt|]; [|discriminate].
  inversion H; subst. intros E. apply (f_equal lenN) in E. rewrite lenN_dropN in E. cbn [lenN] in E. lia.
Qed.

Lemma skip_unit_no_panic : forall nb, nb <> [] -> skip_unit sk nb <> Panic.
Proof.
  intros nb H. unfold skip_unit. rewrite rev_append_nil.
  destruct (rev nb) eqn:E; [|discriminate].
  apply (f_equal (@rev N)) in E. rewrite rev_involutive in E. contradiction.
Qed.

(* the loop of NextNAL: never panics, never runs out of fuel, never gains input *)
Lemma nal_loop_total : forall fuel s,
  (remaining s < fuel)%nat ->
  exists s2, nal_loop fuel sk s = Broke s2 /\ (remaining s2 <= remaining s)%nat /\
             (remaining s2 = remaining s -> nalrev s2 = nalrev s).
Proof.
  induction fuel as [|fuel IH]; intros s Hf; [lia|].
  cbn [nal_loop]. pose proof (read_remaining 1 s) as Hr.
  destruct (read 1 s) as [r s1]. destruct Hr as (R1 & R2 & R3 & R4).
  destruct r as [[|b [|b2 t]]|].
  - exists s1. cbn [List.length] in R4. split; [reflexivity|]. split; [lia|]. intros _. exact R1.
  - cbn [List.length] in R4.
    destruct (process_byte b (nalrev s1) (zeros s1)) as [[found nb] z] eqn:Ep.
    destruct found.
    + pose proof (skip_unit_no_panic nb (process_byte_found _ _ _ _ _ Ep)) as Hs.
      destruct (skip_unit sk nb) as [[|]| |] eqn:Es; try contradiction.
      * destruct (IH (set_nal s1 [] z)) as (s2 & I1 & I2 & I3).
        { change (remaining (set_nal s1 [] z)) with (remaining s1). lia. }
        change (remaining (set_nal s1 [] z)) with (remaining s1) in *.
        exists s2. split; [exact I1|]. split; [lia|]. intros E. lia.
      * exists (set_nal s1 nb z). change (remaining (set_nal s1 nb z)) with (remaining s1).
        split; [reflexivity|]. split; [lia|]. intros E. lia.
      * (* skip_unit returns Ok or Panic only *)
        unfold skip_unit in Es. destruct (rev_append nb []); discriminate.
    + destruct (IH (set_nal s1 (b :: nb) z)) as (s2 & I1 & I2 & I3).
      { change (remaining (set_nal s1 (b :: nb) z)) with (remaining s1). lia. }
      change (remaining (set_nal s1 (b :: nb) z)) with (remaining s1) in *.
      exists s2. split; [exact I1|]. split; [lia|]. intros E. lia.
  - exists s1. cbn [List.length] in R4. split; [reflexivity|]. split; [lia|]. intros E. lia.
  - exists s1. split; [reflexivity|]. split; [lia|]. intros _. exact R1.
Qed.

Lemma lenN_length : forall {A} (l : list A), N.to_nat (lenN l) = List.length l.
Proof. intros. rewrite lenN_nat. lia. Qed.

Lemma prefix_total : forall s,
  match starts_with_prefix s with
  | (r, s1) =>
      r <> Panic /\ parsed s1 = parsed s /\
      match r with
      | Ok _ => (remaining s1 < remaining s)%nat /\ nalrev s = [] -> nalrev s1 = [] \/ exists b, nalrev s1 = [b]
      | _ => True
      end /\
      (match r with Ok _ => (remaining s1 < remaining s)%nat | _ => (remaining s1 <= remaining s)%nat end)
  end.
Proof.
  intros s. unfold starts_with_prefix. pose proof (read_remaining 4 s) as Hr.
  destruct (read 4 s) as [r s1]. destruct Hr as (R1 & R2 & R3 & R4).
  destruct r as [pb|].
  - destruct (N.eqb_spec (lenN pb) 0); [repeat split; try discriminate; try assumption; lia|].
    destruct (N.ltb_spec (lenN pb) 3); [repeat split; try discriminate; try assumption; lia|].
    destruct (N.eqb_spec (lenN pb) 3).
    { destruct (bytes_eqb [0; 0; 1] (takeN 3 pb)); repeat split; try discriminate; try assumption; lia. }
    assert (Hl : (4 <= List.length pb)%nat) by (rewrite <- lenN_length; lia).
    destruct (bytes_eqb [0; 0; 1] (takeN 3 pb)).
    + pose proof (lenN_dropN pb 3) as Hd.
      destruct (dropN 3 pb) as [|b t]; [cbn [lenN] in Hd; lia|].
      change (remaining (set_nal s1 (b :: nalrev s1) (zeros s1))) with (remaining s1).
      cbn [set_nal nalrev parsed]. repeat split; try discriminate; try assumption; try lia.
      intros [_ E]. right. exists b. rewrite R1, E. reflexivity.
    + destruct (bytes_eqb [0; 0; 0; 1] pb); repeat split; try discriminate; try assumption; try lia.
      intros [_ E]. left. rewrite R1. exact E.
  - repeat split; try discriminate; try assumption; lia.
Qed.

Lemma prefix_err_class : forall s e s1,
  starts_with_prefix s = (Err e, s1) -> e = "eof"%string \/ e = "notstream"%string.
Proof.
  intros s e s1 H. unfold starts_with_prefix in H.
  destruct (read 4 s) as [[pb|] s']; [|inversion H; auto].
  repeat match type of H with
         | context [if ?c then _ else _] => destruct c
         | context [match ?l with [] => _ | _ :: _ => _ end] => destruct l
         end; inversion H; auto.
Qed.

(* NextNAL returns a value or an error class for every state *)
Theorem next_nal_no_panic : forall s,
  fst (next_nal sk s) <> Panic /\ fst (next_nal sk s) <> Err "out-of-fuel"%string.
Proof.
  intros s. unfold next_nal.
  assert (Hafter : forall s1,
    let r := match nal_loop (S (S (remaining s1))) sk s1 with
             | Broke s2 =>
                 match rev_append (nalrev s2) [] with
                 | [] => (Err "eof"%string, s2)
                 | b :: t => let s3 := set_nal s2 [] (zeros s2) in
                             if sk b then (Err "eof"%string, s3) else (Ok (b :: t), s3)
                 end
             | LoopPanic => (Panic, s1)
             | OutOfFuel => (Err "out-of-fuel"%string, s1)
             end in
    fst r <> Panic /\ fst r <> Err "out-of-fuel"%string).
  { intros s1. destruct (nal_loop_total (S (S (remaining s1))) s1 ltac:(lia)) as (s2 & -> & _).
    cbv zeta. destruct (rev_append (nalrev s2) []) as [|b t]; [split; discriminate|].
    destruct (sk b); split; discriminate. }
  destruct (parsed s); [apply Hafter|].
  pose proof (prefix_total s) as Hp. destruct (starts_with_prefix s) as [r s1] eqn:Es.
  destruct Hp as (P1 & _). destruct r as [[]|e|]; [apply Hafter| |contradiction].
  cbn [fst]. split; [discriminate|].
  destruct (prefix_err_class _ _ _ Es) as [-> | ->]; discriminate.
Qed.

(* progress: a call that returns a unit strictly consumes input (given the
   buffer is empty at the call, which every successful call re-establishes) *)
Theorem next_nal_progress : forall s n s',
  nalrev s = [] -> next_nal sk s = (Ok n, s') ->
  (remaining s' < remaining s)%nat /\ nalrev s' = [] /\ n <> [].
Proof.
  intros s n s' Hnb H. unfold next_nal in H.
  assert (Hafter : forall s1,
    (remaining s1 <= remaining s)%nat ->
    (remaining s1 = remaining s -> nalrev s1 = []) ->
    match nal_loop (S (S (remaining s1))) sk s1 with
    | Broke s2 =>
        match rev_append (nalrev s2) [] with
        | [] => (Err "eof"%string, s2)
        | b :: t => let s3 := set_nal s2 [] (zeros s2) in
                    if sk b then (Err "eof"%string, s3) else (Ok (b :: t), s3)
        end
    | LoopPanic => (Panic, s1)
    | OutOfFuel => (Err "out-of-fuel"%string, s1)
    end = (Ok n, s') ->
    (remaining s' < remaining s)%nat /\ nalrev s' = [] /\ n <> []).
  { intros s1 Hle Heq Hr.
    destruct (nal_loop_total (S (S (remaining s1))) s1 ltac:(lia)) as (s2 & E & L1 & L2).
    rewrite E in Hr. rewrite rev_append_nil in Hr.
    destruct (rev (nalrev s2)) as [|b t] eqn:Erev; [discriminate|].
    cbv zeta in Hr. destruct (sk b); [discriminate|]. inversion Hr; subst. clear Hr.
    change (remaining (set_nal s2 [] (zeros s2))) with (remaining s2).
    split; [|split; [reflexivity|discriminate]].
    destruct (Nat.eq_dec (remaining s2) (remaining s)) as [Eq|]; [|lia].
    exfalso. assert (E1 : remaining s2 = remaining s1) by lia.
    rewrite (L2 E1), (Heq ltac:(lia)) in Erev. discriminate. }
  destruct (parsed s).
  - apply (Hafter s); [lia|intros _; exact Hnb|exact H].
  - pose proof (prefix_total s) as Hp. destruct (starts_with_prefix s) as [r s1].
    destruct Hp as (P1 & P2 & P3 & P4). destruct r as [[]|e|]; try discriminate.
    apply (Hafter (set_parsed s1)).
    + change (remaining (set_parsed s1)) with (remaining s1). lia.
    + change (remaining (set_parsed s1)) with (remaining s1). lia.
    + exact H.
Qed.

(* successive calls: the fuel of read_nals suffices and no panic marker appears *)
Theorem read_nals_total : forall fuel s,
  nalrev s = [] -> (remaining s < fuel)%nat ->
  snd (read_nals fuel sk s) <> "out-of-fuel"%string /\ snd (read_nals fuel sk s) <> "panic"%string.
Proof.
  induction fuel as [|fuel IH]; intros s Hnb Hf; [lia|].
  cbn [read_nals]. pose proof (next_nal_no_panic s) as [N1 N2].
  destruct (next_nal sk s) as [r s1] eqn:En. cbn [fst] in N1, N2.
  destruct r as [n|e|]; [|cbn [snd]|contradiction].
  - destruct (next_nal_progress s n s1 Hnb En) as (P1 & P2 & _).
    cbn [snd]. apply IH; [exact P2|lia].
  - split; [congruence|].
    (* error classes of next_nal: eof, notstream, out-of-fuel (excluded) *)
    intros ->. unfold next_nal in En.
    destruct (parsed s).
    + destruct (nal_loop (S (S (remaining s))) sk s); try discriminate.
      destruct (rev_append (nalrev s0) []); [discriminate|].
      cbv zeta in En. destruct (sk n); discriminate.
    + destruct (starts_with_prefix s) as [r' s'] eqn:Es. destruct r' as [[]|e'|]; try discriminate.
      * destruct (nal_loop (S (S (remaining (set_parsed s')))) sk (set_parsed s')); try discriminate.
        destruct (rev_append (nalrev s0) []); [discriminate|].
        cbv zeta in En. destruct (sk n); discriminate.
      * inversion En; subst. destruct (prefix_err_class _ _ _ Es) as [E|E]; discriminate.
Qed.

End AnnexB.

(* the two readers, any chunking of any bytes (empty reads included) *)
Theorem h264reader_no_panic : forall (include_sei : bool) (cs : list (list N)),
  snd (read_all (sk264 include_sei) cs) <> "panic"%string /\
  snd (read_all (sk264 include_sei) cs) <> "out-of-fuel"%string.
Proof.
  intros. unfold read_all.
  destruct (read_nals_total (sk264 include_sei) (S (S (List.length (List.concat cs)))) (init cs) eq_refl) as [H1 H2].
  { unfold remaining. cbn [init rbuf chunks List.length]. lia. }
  split; assumption.
Qed.

Theorem h265reader_no_panic : forall (include_sei : bool) (cs : list (list N)),
  snd (read_all (sk265 include_sei) cs) <> "panic"%string /\
  snd (read_all (sk265 include_sei) cs) <> "out-of-fuel"%string.
Proof.
  intros. unfold read_all.
  destruct (read_nals_total (sk265 include_sei) (S (S (List.length (List.concat cs)))) (init cs) eq_refl) as [H1 H2].
  { unfold remaining. cbn [init rbuf chunks List.length]. lia. }
  split; assumption.
Qed.

Theorem h264reader_progress : forall include_sei s n s',
  nalrev s = [] -> next_nal (sk264 include_sei) s = (Ok n, s') ->
  (remaining s' < remaining s)%nat /\ nalrev s' = [] /\ n <> [].
Proof. intros include_sei. apply next_nal_progress. Qed.

Theorem h265reader_progress : forall include_sei s n s',
  nalrev s = [] -> next_nal (sk265 include_sei) s = (Ok n, s') ->
  (remaining s' < remaining s)%nat /\ nalrev s' = [] /\ n <> [].
Proof. intros include_sei. apply next_nal_progress. Qed.

Theorem h26x_next_nal_no_panic : forall sk s,
  fst (next_nal sk s) <> Panic /\ fst (next_nal sk s) <> Err "out-of-fuel"%string.
Proof. exact next_nal_no_panic. Qed.
