(* Laws of the text helpers in Common/NegoText.v *)
From Coq Require Import List ZArith NArith String Ascii Bool Lia.
From Coq Require Import DecimalString DecimalN DecimalPos Decimal.
Import ListNotations.
From Verif Require Import Common.NegoText.
Open Scope string_scope.

Lemma to_uint_nonnil : forall n, N.to_uint n <> Nil.
Proof.
  destruct n; cbn.
  - discriminate.
  - apply DecimalPos.Unsigned.to_uint_nonnil.
Qed.

Lemma string_of_uint_nonempty : forall d, d <> Nil -> NilEmpty.string_of_uint d <> "".
Proof. destruct d; cbn; congruence. Qed.

Lemma itoaN_nonempty : forall n, itoaN n <> "".
Proof. intro n. apply string_of_uint_nonempty, to_uint_nonnil. Qed.

Lemma itoaZ_nonempty : forall z, itoaZ z <> "".
Proof. destruct z; unfold itoaZ; try apply itoaN_nonempty. discriminate. Qed.

(* digits written by itoaN parse back to the number *)
Lemma digitsN_itoaN : forall n, digitsN (itoaN n) = Some n.
Proof.
  intro n. unfold digitsN. pose proof (itoaN_nonempty n) as Hne.
  destruct (itoaN n) eqn:E; [congruence|]. rewrite <- E. unfold itoaN.
  rewrite NilEmpty.usu. now rewrite DecimalN.Unsigned.of_to.
Qed.

Lemma parse_u32_itoaN : forall n, (n < 4294967296)%N -> parse_u32 (itoaN n) = Some n.
Proof.
  intros n H. unfold parse_u32. rewrite digitsN_itoaN.
  apply N.ltb_lt in H. now rewrite H.
Qed.

(* decimal digits contain no space *)
Lemma string_of_uint_no_space : forall d, no_space (NilEmpty.string_of_uint d) = true.
Proof. induction d; cbn; auto. Qed.

Lemma itoaN_no_space : forall n, no_space (itoaN n) = true.
Proof. intro n. apply string_of_uint_no_space. Qed.

(* strings.Split on a text without the separator, followed by a space *)
Lemma split_sp_no_space : forall a, no_space a = true -> split_sp a = [a].
Proof.
  induction a as [|c a IH]; cbn; intro H; auto.
  apply andb_true_iff in H. destruct H as [Hc Ha].
  destruct (is_space c); [discriminate|]. now rewrite (IH Ha).
Qed.

Lemma split_sp_app : forall a b, no_space a = true ->
  split_sp (a ++ String " " b) = a :: split_sp b.
Proof.
  induction a as [|c a IH]; cbn; intros b H.
  - reflexivity.
  - apply andb_true_iff in H. destruct H as [Hc Ha].
    destruct (is_space c); [discriminate|]. now rewrite (IH b Ha).
Qed.

Lemma no_space_app : forall a b, no_space (a ++ b) = no_space a && no_space b.
Proof. induction a; cbn; intro b; auto. rewrite IHa. now rewrite andb_assoc. Qed.

Lemma strip_prefix_app : forall p s, strip_prefix p (p ++ s) = Some s.
Proof. induction p; cbn; intro s; auto. now rewrite Ascii.eqb_refl. Qed.

Lemma append_assoc : forall a b c : string, (a ++ b) ++ c = a ++ (b ++ c).
Proof. induction a; cbn; intros; auto. now rewrite IHa. Qed.
