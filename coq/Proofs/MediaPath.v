(* C23: lemmas about Model/MediaPath.v *)
From Coq Require Import List ZArith NArith String Ascii Bool Lia ZifyBool ZifyNat ZifyN.
From Coq Require Import DecimalString DecimalN DecimalPos.
Import ListNotations.
From Verif Require Import Common.V Common.Base Model.MediaPath.
Open Scope string_scope.
Open Scope list_scope.
Open Scope N_scope.

(* ---------- strings ---------- *)

Lemma split_sp_nonempty : forall s, split_sp s <> [].
Proof.
  induction s as [|c r IH]; cbn; [discriminate|].
  destruct (is_space c); [discriminate|]. destruct (split_sp r); discriminate.
Qed.

Lemma split_sp_join : forall a b,
  no_space a = true -> split_sp (sp_join a b) = a :: split_sp b.
Proof.
  unfold sp_join. induction a as [|c r IH]; intros b Hn; cbn.
  - reflexivity.
  - cbn in Hn. apply andb_true_iff in Hn as [Hc Hr]. apply negb_true_iff in Hc.
    rewrite Hc. rewrite (IH b Hr). reflexivity.
Qed.

Lemma split_sp_nospace : forall a, no_space a = true -> split_sp a = [a].
Proof.
  induction a as [|c r IH]; intros Hn; cbn; [reflexivity|].
  cbn in Hn. apply andb_true_iff in Hn as [Hc Hr]. apply negb_true_iff in Hc.
  rewrite Hc, (IH Hr). reflexivity.
Qed.

Lemma no_space_app : forall a b,
  no_space a = true -> no_space b = true -> no_space (a ++ b)%string = true.
Proof.
  induction a as [|c r IH]; intros b Ha Hb; cbn; [exact Hb|].
  cbn in Ha. apply andb_true_iff in Ha as [Hc Hr]. rewrite Hc. cbn. apply IH; assumption.
Qed.

Lemma strip_prefix_app : forall p r, strip_prefix p (p ++ r)%string = Some r.
Proof.
  induction p as [|c p IH]; intros r; cbn; [destruct r; reflexivity|].
  rewrite Ascii.eqb_refl. apply IH.
Qed.

Lemma no_space_uint : forall d, no_space (NilEmpty.string_of_uint d) = true.
Proof. induction d; cbn; try reflexivity; exact IHd. Qed.

Lemma no_space_itoa : forall n, no_space (itoa n) = true.
Proof. intros n. apply no_space_uint. Qed.

Lemma itoa_nonempty : forall n, itoa n <> EmptyString.
Proof.
  intros n. unfold itoa. destruct n as [|p]; cbn; [discriminate|].
  pose proof (Unsigned.to_uint_nonnil p) as Hn.
  destruct (Pos.to_uint p); cbn; try discriminate. contradiction.
Qed.

Lemma parse_itoa : forall n, n < 4294967296 -> parse_u32 (itoa n) = Some n.
Proof.
  intros n Hn. unfold parse_u32. pose proof (itoa_nonempty n) as Hne.
  destruct (itoa n) eqn:He; [contradiction|]. rewrite <- He. unfold itoa.
  rewrite NilEmpty.usu, DecimalN.Unsigned.of_to.
  apply N.ltb_lt in Hn. rewrite Hn. reflexivity.
Qed.

(* ---------- the receiver's walk ---------- *)

Definition inert (attrs : list attr) : Prop :=
  forall a, In a attrs ->
    fst a <> "ssrc" /\ fst a <> "ssrc-group" /\ fst a <> "msid".

Lemma irrelevant_inert : forall l, irrelevant l -> inert l.
Proof. intros l H a Ha. destruct (H a Ha) as [? [? [? _]]]. auto. Qed.

Lemma sender_attrs_no_direction : forall ssrc rtx fec stream track,
  has_key "recvonly" (sender_attrs ssrc rtx fec stream track) = false /\
  has_key "inactive" (sender_attrs ssrc rtx fec stream track) = false.
Proof.
  intros. unfold sender_attrs, has_key, media_source.
  destruct (rtx =? 0), (fec =? 0); split; reflexivity.
Qed.

Lemma fold_inert : forall mid kind l st,
  inert l -> fold_left (step_attr mid kind) l st = st.
Proof.
  induction l as [|[k v] l IH]; intros st Hi; [reflexivity|].
  cbn [fold_left]. destruct (Hi (k, v) (or_introl eq_refl)) as [H1 [H2 H3]]. cbn in H1, H2, H3.
  unfold step_attr. apply String.eqb_neq in H1, H2, H3. rewrite H1, H2, H3.
  apply IH. intros a Ha. apply Hi. right. exact Ha.
Qed.

Lemma has_key_app : forall k a b, has_key k (a ++ b) = has_key k a || has_key k b.
Proof. intros. unfold has_key. apply existsb_app. Qed.

Lemma has_key_irrelevant : forall l,
  irrelevant l -> has_key "recvonly" l = false /\ has_key "inactive" l = false.
Proof.
  induction l as [|[k v] l IH]; intros Hi; [split; reflexivity|].
  destruct (Hi (k, v) (or_introl eq_refl)) as [_ [_ [_ [H4 H5]]]]. cbn in H4, H5.
  destruct IH as [I1 I2]; [intros a Ha; apply Hi; right; exact Ha|].
  apply String.eqb_neq in H4, H5. unfold has_key in *. cbn. rewrite H4, H5, I1, I2. split; reflexivity.
Qed.

(* a source-attribute line "ssrc:<x> <rest>" whose ssrc is a declared repair
   flow leaves the state alone *)
Lemma step_ssrc_repair : forall mid kind st x rest,
  x < 4294967296 -> map_has (ps_rtx st) x || map_has (ps_fec st) x = true ->
  step_attr mid kind st ("ssrc", sp_join (itoa x) rest) = st.
Proof.
  intros mid kind st x rest Hx Hm. unfold step_attr. cbn [String.eqb Ascii.eqb Bool.eqb].
  change (String.eqb "ssrc" "ssrc-group") with false. change (String.eqb "ssrc" "msid") with false.
  change (String.eqb "ssrc" "ssrc") with true. cbn iota.
  unfold step_ssrc. rewrite split_sp_join by apply no_space_itoa.
  cbn [nth_s nth]. rewrite parse_itoa by exact Hx.
  apply orb_true_iff in Hm. destruct (map_has (ps_rtx st) x); [reflexivity|].
  destruct Hm as [Hm|Hm]; [discriminate|]. rewrite Hm. reflexivity.
Qed.

Lemma fold_media_source_repair : forall mid kind st x stream track,
  x < 4294967296 -> map_has (ps_rtx st) x || map_has (ps_fec st) x = true ->
  fold_left (step_attr mid kind) (media_source x stream track) st = st.
Proof.
  intros. unfold media_source. cbn [fold_left].
  do 4 (rewrite (step_ssrc_repair mid kind st) by assumption). reflexivity.
Qed.

Lemma step_ssrc_line : forall mid kind st x rest,
  x < 4294967296 -> map_has (ps_rtx st) x = false -> map_has (ps_fec st) x = false ->
  step_attr mid kind st ("ssrc", sp_join (itoa x) rest) =
  apply_ssrc mid kind st x (itoa x :: split_sp rest).
Proof.
  intros mid kind st x rest Hx Hr Hf. unfold step_attr.
  change (String.eqb "ssrc" "ssrc-group") with false. change (String.eqb "ssrc" "msid") with false.
  change (String.eqb "ssrc" "ssrc") with true. cbn iota.
  unfold step_ssrc. rewrite split_sp_join by apply no_space_itoa.
  cbn [nth_s nth]. rewrite parse_itoa by exact Hx. rewrite Hr, Hf. reflexivity.
Qed.

Lemma step_group_fid : forall mid kind st a b,
  a < 4294967296 -> b < 4294967296 ->
  step_attr mid kind st ("ssrc-group", sp_join "FID" (sp_join (itoa a) (itoa b))) =
  apply_group st true a b.
Proof.
  intros mid kind st a b Ha Hb. unfold step_attr.
  change (String.eqb "ssrc-group" "ssrc-group") with true. cbn iota.
  unfold step_group.
  rewrite split_sp_join by reflexivity. rewrite split_sp_join by apply no_space_itoa.
  rewrite split_sp_nospace by apply no_space_itoa.
  cbn [nth_s nth List.length Nat.eqb]. rewrite !parse_itoa by assumption.
  change (String.eqb "FID" "FID") with true. reflexivity.
Qed.

Lemma step_group_fec : forall mid kind st a b,
  a < 4294967296 -> b < 4294967296 ->
  step_attr mid kind st ("ssrc-group", sp_join "FEC-FR" (sp_join (itoa a) (itoa b))) =
  apply_group st false a b.
Proof.
  intros mid kind st a b Ha Hb. unfold step_attr.
  change (String.eqb "ssrc-group" "ssrc-group") with true. cbn iota.
  unfold step_group.
  rewrite split_sp_join by reflexivity. rewrite split_sp_join by apply no_space_itoa.
  rewrite split_sp_nospace by apply no_space_itoa.
  cbn [nth_s nth List.length Nat.eqb]. rewrite !parse_itoa by assumption.
  change (String.eqb "FEC-FR" "FID") with false. change (String.eqb "FEC-FR" "FEC-FR") with true.
  reflexivity.
Qed.

Lemma step_msid_line : forall mid kind st s t,
  no_space s = true -> no_space t = true ->
  step_attr mid kind st ("msid", sp_join s t) =
  {| ps_tracks := ps_tracks st; ps_rtx := ps_rtx st; ps_fec := ps_fec st; ps_sid := s; ps_tid := t |}.
Proof.
  intros mid kind st s t Hs Ht. unfold step_attr.
  change (String.eqb "msid" "ssrc-group") with false. change (String.eqb "msid" "msid") with true.
  cbn iota. unfold step_msid. rewrite split_sp_join by exact Hs. rewrite split_sp_nospace by exact Ht.
  reflexivity.
Qed.

Lemma repair_for_const_or_id : forall (m : list (N * N)) (x : N) (cur : option N),
  repair_for m x cur = cur \/ forall c2 : option N, repair_for m x c2 = repair_for m x cur.
Proof.
  unfold repair_for. induction m as [|e m IH]; intros x cur; cbn [fold_left]; [left; reflexivity|].
  destruct (snd e =? x) eqn:He.
  - right. intros c2. reflexivity.
  - apply IH.
Qed.

Lemma repair_for_idem : forall m x cur,
  repair_for m x (repair_for m x cur) = repair_for m x cur.
Proof.
  intros m x cur. destruct (repair_for_const_or_id m x cur) as [Heq | Hall].
  - rewrite Heq. exact Heq.
  - apply Hall.
Qed.

(* the four source-attribute lines of a not-yet-seen primary ssrc, starting
   from a section state without tracks *)
Lemma fold_media_source_fresh : forall mid kind st x stream track,
  x < 4294967296 -> no_space stream = true -> no_space track = true ->
  ps_tracks st = [] -> map_has (ps_rtx st) x = false -> map_has (ps_fec st) x = false ->
  fold_left (step_attr mid kind) (media_source x stream track) st =
  {| ps_tracks := [ {| td_mid := mid; td_kind := kind; td_stream := stream; td_id := track;
                       td_ssrc := x; td_rtx := repair_for (ps_rtx st) x None;
                       td_fec := repair_for (ps_fec st) x None |} ];
     ps_rtx := ps_rtx st; ps_fec := ps_fec st; ps_sid := stream; ps_tid := track |}.
Proof.
  intros mid kind st x stream track Hx Hs Ht Hnil Hr Hf.
  unfold media_source. cbn [fold_left].
  (* line 1: cname *)
  rewrite (step_ssrc_line mid kind st) by assumption.
  rewrite (split_sp_nospace ("cname:" ++ stream)%string) by (apply no_space_app; [reflexivity|exact Hs]).
  unfold apply_ssrc at 1. cbn [List.length Nat.eqb]. rewrite Hnil. cbn [existsb app].
  (* line 2: msid *)
  match goal with |- context [step_attr mid kind ?s ("ssrc", sp_join (itoa x) (sp_join _ _))] =>
    rewrite (step_ssrc_line mid kind s) by (cbn; assumption) end.
  rewrite split_sp_join by (apply no_space_app; [reflexivity|exact Hs]).
  rewrite (split_sp_nospace track) by exact Ht.
  unfold apply_ssrc at 1. cbn [List.length Nat.eqb nth_s nth]. rewrite strip_prefix_app.
  cbn [ps_tracks ps_rtx ps_fec ps_sid ps_tid existsb map td_ssrc td_rtx td_fec]. rewrite N.eqb_refl. cbn [orb].
  (* line 3: mslabel *)
  match goal with |- context [step_attr mid kind ?s ("ssrc", sp_join (itoa x) ("mslabel:" ++ stream)%string)] =>
    rewrite (step_ssrc_line mid kind s) by (cbn; assumption) end.
  rewrite (split_sp_nospace ("mslabel:" ++ stream)%string) by (apply no_space_app; [reflexivity|exact Hs]).
  unfold apply_ssrc at 1. cbn [List.length Nat.eqb].
  cbn [ps_tracks ps_rtx ps_fec ps_sid ps_tid existsb map td_ssrc td_rtx td_fec]. rewrite N.eqb_refl. cbn [orb].
  (* line 4: label *)
  match goal with |- context [step_attr mid kind ?s ("ssrc", sp_join (itoa x) ("label:" ++ track)%string)] =>
    rewrite (step_ssrc_line mid kind s) by (cbn; assumption) end.
  rewrite (split_sp_nospace ("label:" ++ track)%string) by (apply no_space_app; [reflexivity|exact Ht]).
  unfold apply_ssrc at 1. cbn [List.length Nat.eqb].
  cbn [ps_tracks ps_rtx ps_fec ps_sid ps_tid existsb map td_ssrc td_rtx td_fec]. rewrite N.eqb_refl. cbn [orb].
  rewrite !repair_for_idem. reflexivity.
Qed.

(* keep the kernel from unfolding the decimal printer during conversion *)
Opaque itoa parse_u32 split_sp strip_prefix sp_join media_source step_attr.

Ltac fresh_src x :=
  match goal with
  | |- context [fold_left (step_attr ?mid ?kind) (media_source x ?s ?t) ?st] =>
      rewrite (fold_media_source_fresh mid kind st x s t)
  end.
Ltac repair_src x :=
  match goal with
  | |- context [fold_left (step_attr ?mid ?kind) (media_source x ?s ?t) ?st] =>
      rewrite (fold_media_source_repair mid kind st x s t)
  end.

Lemma sender_fold : forall mid kind ssrc rtx fec stream track,
  ssrc < 4294967296 -> rtx < 4294967296 -> fec < 4294967296 ->
  (rtx <> 0 -> ssrc <> rtx) -> (fec <> 0 -> ssrc <> fec) ->
  no_space stream = true -> no_space track = true ->
  ps_tracks (fold_left (step_attr mid kind) (sender_attrs ssrc rtx fec stream track) ps_init)
  = [expected_td mid kind ssrc rtx fec stream track].
Proof.
  intros mid kind ssrc rtx fec stream track Hs Hr Hf Hnr Hnf Hst Htr.
  unfold sender_attrs, expected_td, opt_nz.
  destruct (rtx =? 0) eqn:Er; destruct (fec =? 0) eqn:Ef; cbn [app fold_left];
    rewrite ?fold_left_app; cbn [fold_left].
  - (* neither *)
    rewrite fold_media_source_fresh by (try assumption; reflexivity).
    rewrite step_msid_line by assumption. reflexivity.
  - (* fec only *)
    apply N.eqb_neq in Ef. specialize (Hnf Ef).
    rewrite step_group_fec by assumption. unfold apply_group; cbn [ps_tracks ps_rtx ps_fec filter map map_set ps_sid ps_tid ps_init].
    assert (Hm : (fec =? ssrc) = false) by (apply N.eqb_neq; congruence).
    fresh_src ssrc; [| assumption | assumption | assumption | reflexivity | reflexivity
                     | cbn [ps_fec map_has existsb fst]; rewrite Hm; reflexivity].
    cbn [ps_rtx ps_fec repair_for fold_left snd fst].
    repair_src fec; [| assumption | cbn [ps_rtx ps_fec map_has existsb fst]; rewrite N.eqb_refl; reflexivity].
    rewrite step_msid_line by assumption. cbn [ps_tracks]. rewrite ?N.eqb_refl. reflexivity.
  - (* rtx only *)
    apply N.eqb_neq in Er. specialize (Hnr Er).
    rewrite step_group_fid by assumption. unfold apply_group; cbn [ps_tracks ps_rtx ps_fec filter map map_set ps_sid ps_tid ps_init].
    assert (Hm : (rtx =? ssrc) = false) by (apply N.eqb_neq; congruence).
    fresh_src ssrc; [| assumption | assumption | assumption | reflexivity
                     | cbn [ps_rtx map_has existsb fst]; rewrite Hm; reflexivity | reflexivity].
    cbn [ps_rtx ps_fec repair_for fold_left snd fst].
    repair_src rtx; [| assumption | cbn [ps_rtx ps_fec map_has existsb fst]; rewrite N.eqb_refl; reflexivity].
    rewrite step_msid_line by assumption. cbn [ps_tracks]. rewrite ?N.eqb_refl. reflexivity.
  - (* both *)
    apply N.eqb_neq in Er, Ef. specialize (Hnr Er). specialize (Hnf Ef).
    rewrite step_group_fid by assumption. unfold apply_group at 1; cbn [ps_tracks ps_rtx ps_fec filter map map_set ps_sid ps_tid ps_init].
    rewrite step_group_fec by assumption. unfold apply_group; cbn [ps_tracks ps_rtx ps_fec filter map map_set ps_sid ps_tid].
    assert (Hm1 : (rtx =? ssrc) = false) by (apply N.eqb_neq; congruence).
    assert (Hm2 : (fec =? ssrc) = false) by (apply N.eqb_neq; congruence).
    fresh_src ssrc; [| assumption | assumption | assumption | reflexivity
                     | cbn [ps_rtx map_has existsb fst]; rewrite Hm1; reflexivity
                     | cbn [ps_fec map_has existsb fst]; rewrite Hm2; reflexivity].
    cbn [ps_rtx ps_fec repair_for fold_left snd fst].
    repair_src rtx; [| assumption | cbn [ps_rtx ps_fec map_has existsb fst]; rewrite N.eqb_refl; reflexivity].
    repair_src fec; [| assumption | cbn [ps_rtx ps_fec map_has existsb fst]; rewrite N.eqb_refl, orb_true_r; reflexivity].
    rewrite step_msid_line by assumption. cbn [ps_tracks]. rewrite ?N.eqb_refl. reflexivity.
Qed.

Transparent step_attr.

Lemma section_roundtrip : forall s,
  sender_ok s -> section_details (fst (render_sec s)) (snd (render_sec s)) = [expected_of s].
Proof.
  intros s (Hk & Hmid & Hattr & Hpre & Hpost & Hs & Hr & Hf & Hnr & Hnf & Hst & Htr).
  unfold section_details. cbn [fst snd render_sec] in *.
  destruct (has_key_irrelevant _ Hpre) as [P1 P2]. destruct (has_key_irrelevant _ Hpost) as [Q1 Q2].
  destruct (sender_attrs_no_direction (ss_ssrc s) (ss_rtx s) (ss_fec s) (ss_stream s) (ss_track s)) as [S1 S2].
  rewrite !has_key_app, P1, P2, Q1, Q2, S1, S2. cbn [orb].
  rewrite Hattr.
  apply String.eqb_neq in Hmid. rewrite Hmid.
  apply N.eqb_neq in Hk. rewrite Hk.
  rewrite !fold_left_app.
  rewrite (fold_inert _ _ (ss_pre s)) by (apply irrelevant_inert; exact Hpre).
  rewrite (fold_inert _ _ (ss_post s)) by (apply irrelevant_inert; exact Hpost).
  unfold expected_of. apply sender_fold; assumption.
Qed.

Lemma track_details_app : forall a b, track_details (a ++ b) = track_details a ++ track_details b.
Proof. intros. unfold track_details. apply flat_map_app. Qed.

Lemma description_roundtrip : forall l,
  Forall sender_ok l -> track_details (map render_sec l) = map expected_of l.
Proof.
  induction l as [|s l IH]; intros H; [reflexivity|].
  inversion H as [|? ? Hs Hl]; subst. cbn [map].
  change (render_sec s :: map render_sec l) with ([render_sec s] ++ map render_sec l).
  rewrite track_details_app, (IH Hl). unfold track_details at 1. cbn [flat_map].
  rewrite app_nil_r, (section_roundtrip s Hs). reflexivity.
Qed.

(* decidable form of [irrelevant], to discharge it on concrete sections *)
Definition irrelevantb (l : list attr) : bool :=
  forallb (fun a => negb (String.eqb (fst a) "ssrc" || String.eqb (fst a) "ssrc-group" ||
                          String.eqb (fst a) "msid" || String.eqb (fst a) "recvonly" ||
                          String.eqb (fst a) "inactive")) l.

Lemma irrelevantb_sound : forall l, irrelevantb l = true -> irrelevant l.
Proof.
  intros l H a Ha. unfold irrelevantb in H. rewrite forallb_forall in H. specialize (H a Ha).
  apply negb_true_iff in H. repeat (apply orb_false_iff in H; destruct H as [H ?]).
  repeat split; apply String.eqb_neq; assumption.
Qed.

(* sections that announce nothing to receive are skipped whatever else they hold *)
Lemma section_skipped : forall media attrs,
  has_key "recvonly" attrs = true \/ has_key "inactive" attrs = true \/
  attr_value "mid" attrs = None \/ attr_value "mid" attrs = Some "" \/ kind_of_media media = 0 ->
  section_details media attrs = [].
Proof.
  intros media attrs H. unfold section_details.
  destruct (has_key "recvonly" attrs); [reflexivity|].
  destruct (has_key "inactive" attrs); [reflexivity|].
  destruct H as [H|[H|[H|[H|H]]]]; try discriminate.
  - rewrite H. reflexivity.
  - rewrite H. reflexivity.
  - destruct (attr_value "mid" attrs) as [m|]; [|reflexivity].
    destruct (String.eqb m ""); [reflexivity|]. rewrite H. reflexivity.
Qed.

(* ---------- payload type: Bind / writeRTP / getCodecByPayload ---------- *)

Lemma first_class_spec : forall c hay pt,
  first_class c hay = Some pt ->
  exists l1 l2, hay = l1 ++ (pt, c) :: l2 /\ forall e, In e l1 -> snd e <> c.
Proof.
  induction hay as [|[p k] hay IH]; intros pt H; [discriminate|].
  cbn in H. destruct (k =? c) eqn:Ek.
  - inversion H; subst. apply N.eqb_eq in Ek; subst. exists [], hay. split; [reflexivity|]. intros e [].
  - destruct (IH pt H) as [l1 [l2 [Heq Hall]]]. exists ((p, k) :: l1), l2. split; [rewrite Heq; reflexivity|].
    intros e [He|He]; [subst; cbn; apply N.eqb_neq; exact Ek | apply Hall; exact He].
Qed.

Lemma first_class_none : forall c hay,
  first_class c hay = None -> forall e, In e hay -> snd e <> c.
Proof.
  induction hay as [|[p k] hay IH]; intros H e He; [destruct He|].
  cbn in H. destruct (k =? c) eqn:Ek; [discriminate|].
  destruct He as [He|He]; [subst; cbn; apply N.eqb_neq; exact Ek | apply IH; assumption].
Qed.

(* the payload type a bound static track writes: that of the first exact
   match of its codec in the sender's negotiated list, else of the first
   partial match; everything but SSRC and payload type passes unchanged *)
Lemma bind_write : forall ctx_ssrc hay b p,
  bind ctx_ssrc hay = Some b -> ctx_ssrc < 4294967296 ->
  let q := write_rtp b p in
  k_ssrc q = ctx_ssrc /\ k_pt q = u8 (b_pt b) /\
  k_payload q = k_payload p /\ k_seq q = k_seq p /\ k_ts q = k_ts p /\ k_marker q = k_marker p /\
  ((exists l1 l2, hay = l1 ++ (b_pt b, 2) :: l2 /\ forall e, In e l1 -> snd e <> 2) \/
   ((forall e, In e hay -> snd e <> 2) /\
    exists l1 l2, hay = l1 ++ (b_pt b, 1) :: l2 /\ forall e, In e l1 -> snd e <> 1)).
Proof.
  intros ctx hay b p Hb Hc q. unfold bind, fuzzy_pt in Hb.
  destruct (first_class 2 hay) as [pt|] eqn:E2.
  - inversion Hb; subst b. unfold q, write_rtp; cbn.
    repeat split; try reflexivity.
    + unfold u32. apply N.mod_small. exact Hc.
    + left. apply first_class_spec. exact E2.
  - destruct (first_class 1 hay) as [pt|] eqn:E1; [|discriminate].
    inversion Hb; subst b. unfold q, write_rtp; cbn.
    repeat split; try reflexivity.
    + unfold u32. apply N.mod_small. exact Hc.
    + right. split; [apply first_class_none; exact E2 | apply first_class_spec; exact E1].
Qed.

Lemma bind_none : forall ctx hay,
  bind ctx hay = None <-> (forall e, In e hay -> snd e <> 2 /\ snd e <> 1).
Proof.
  intros ctx hay. unfold bind, fuzzy_pt. split.
  - intros H. destruct (first_class 2 hay) eqn:E2; [discriminate|].
    destruct (first_class 1 hay) eqn:E1; [discriminate|].
    intros e He. split; [eapply first_class_none; eauto | eapply first_class_none; eauto].
  - intros H.
    destruct (first_class 2 hay) as [pt|] eqn:E2.
    { destruct (first_class_spec _ _ _ E2) as [l1 [l2 [Heq _]]].
      destruct (H (pt, 2)) as [Hx _]; [rewrite Heq; apply in_or_app; right; left; reflexivity|].
      exfalso. apply Hx. reflexivity. }
    destruct (first_class 1 hay) as [pt|] eqn:E1; [|reflexivity].
    destruct (first_class_spec _ _ _ E1) as [l1 [l2 [Heq _]]].
    destruct (H (pt, 1)) as [_ Hx]; [rewrite Heq; apply in_or_app; right; left; reflexivity|].
    exfalso. apply Hx. reflexivity.
Qed.

Lemma find_by_pt_spec : forall l pt c,
  find_by_pt l pt = Some c ->
  cd_pt c = pt /\ exists l1 l2, l = l1 ++ c :: l2 /\ forall x, In x l1 -> cd_pt x <> pt.
Proof.
  induction l as [|x l IH]; intros pt c H; [discriminate|].
  cbn in H. destruct (cd_pt x =? pt) eqn:E.
  - inversion H; subst. apply N.eqb_eq in E. split; [exact E|].
    exists [], l. split; [reflexivity|]. intros y [].
  - destruct (IH pt c H) as [Hp [l1 [l2 [Heq Hall]]]]. split; [exact Hp|].
    exists (x :: l1), l2. split; [rewrite Heq; reflexivity|].
    intros y [Hy|Hy]; [subst; apply N.eqb_neq; exact E | apply Hall; exact Hy].
Qed.

(* getCodecByPayload: a payload type is resolved in the negotiated list of a
   kind before anything else, video before audio; registered lists are
   consulted only for kinds not yet negotiated *)
Lemma lookup_order : forall e pt,
  get_codec_by_payload e pt =
  match (if e_neg_video e then find_by_pt (e_neg_video_codecs e) pt else None) with
  | Some c => Some (c, 2)
  | None =>
    match (if e_neg_audio e then find_by_pt (e_neg_audio_codecs e) pt else None) with
    | Some c => Some (c, 1)
    | None =>
      match (if e_neg_video e then None else find_by_pt (e_video e) pt) with
      | Some c => Some (c, 2)
      | None =>
        match (if e_neg_audio e then None else find_by_pt (e_audio e) pt) with
        | Some c => Some (c, 1)
        | None => None
        end
      end
    end
  end.
Proof.
  intros e pt. unfold get_codec_by_payload.
  destruct (e_neg_video e), (e_neg_audio e); cbn;
    repeat match goal with |- context [find_by_pt ?l pt] => destruct (find_by_pt l pt) end; reflexivity.
Qed.

Lemma lookup_negotiated : forall e pt c,
  (e_neg_video e = true -> find_by_pt (e_neg_video_codecs e) pt = Some c ->
     get_codec_by_payload e pt = Some (c, 2)) /\
  (e_neg_audio e = true ->
     (e_neg_video e = true -> find_by_pt (e_neg_video_codecs e) pt = None) ->
     find_by_pt (e_neg_audio_codecs e) pt = Some c ->
     get_codec_by_payload e pt = Some (c, 1)).
Proof.
  intros e pt c. rewrite lookup_order. split.
  - intros Hn Hf. rewrite Hn, Hf. reflexivity.
  - intros Hn Hv Hf. rewrite Hn, Hf.
    destruct (e_neg_video e); [rewrite (Hv eq_refl)|]; reflexivity.
Qed.

(* ---------- composition ---------- *)

Section Carriage.
  (* SRTP / ICE / DTLS: a written packet either reaches the read stream of its
     SSRC unchanged or not at all (assumed, outside /repo) *)
  Variable carry : rtp_pkt -> option rtp_pkt.
  Hypothesis carry_intact : forall p q, carry p = Some q -> q = p.

  Lemma media_path : forall s hay b p q e,
    sender_ok s ->
    bind (ss_ssrc s) hay = Some b ->
    carry (write_rtp b p) = Some q ->
    exists d, section_details (fst (render_sec s)) (snd (render_sec s)) = [d] /\
      k_ssrc q = td_ssrc d /\ td_ssrc d = ss_ssrc s /\
      k_pt q = u8 (b_pt b) /\ k_payload q = k_payload p /\
      let rt := remote_track_of d e (k_pt q) in
      rt_stream rt = ss_stream s /\ rt_id rt = ss_track s /\ rt_ssrc rt = ss_ssrc s /\
      rt_rtx rt = opt_nz (ss_rtx s) /\ rt_kind rt = kind_of_media (ss_media s) /\
      rt_codec rt = option_map fst (get_codec_by_payload e (u8 (b_pt b))).
  Proof.
    intros s hay b p q e Hok Hb Hc.
    exists (expected_of s). split; [apply section_roundtrip; exact Hok|].
    apply carry_intact in Hc. subst q.
    destruct Hok as (_ & _ & _ & _ & _ & Hs & _).
    destruct (bind_write _ _ _ p Hb Hs) as (H1 & H2 & H3 & _).
    unfold expected_of, expected_td, remote_track_of; cbn.
    repeat split; try assumption; try reflexivity.
  Qed.
End Carriage.
