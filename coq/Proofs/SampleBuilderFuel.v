(* C31: the purge loop of purgeBuffers ends within its fuel: every iteration
   strictly decreases  |buffer| * 65536 + (filled.tail - filled.head). *)
From Coq Require Import List ZArith NArith PArith Bool Lia ZifyBool ZifyNat ZifyN.
Import ListNotations.
From Verif Require Import Common.Base Model.SampleBuilder Model.SampleBuilderSpec
  Proofs.SampleBuilderArith Proofs.SampleBuilderIter Proofs.SampleBuilderMap Proofs.SampleBuilder
  Proofs.SampleBuilderScan Proofs.SampleBuilderBuild.
Open Scope N_scope.
Ltac Zify.zify_post_hook ::= Z.div_mod_to_equations.

Notation blen s := (List.length (buf s)).

Lemma len_releasePacket : forall s i,
  (blen (releasePacket s i) <= blen s)%nat /\
  (forall p, bget i (buf s) = Some p -> (blen (releasePacket s i) < blen s)%nat) /\
  filled (releasePacket s i) = filled s.
Proof.
  intros s i. unfold releasePacket. destruct (bget i (buf s)) as [p|] eqn:E; cbn [buf filled].
  - split; [apply length_bdel_le|]. split; [|reflexivity]. intros q _. eapply length_bdel_lt. exact E.
  - split; [lia|]. split; [intros; discriminate|reflexivity].
Qed.

Lemma len_release_filled_head : forall s,
  (blen (release_filled_head s) <= blen s)%nat /\
  (forall p, bget (l_head (filled s)) (buf s) = Some p -> (blen (release_filled_head s) < blen s)%nat) /\
  filled (release_filled_head s) = mkLoc (inc16 (l_head (filled s))) (l_tail (filled s)).
Proof.
  intro s. unfold release_filled_head. destruct (len_releasePacket s (l_head (filled s))) as (H1 & H2 & H3).
  cbn [set_filled buf filled]. rewrite H3. repeat split; assumption.
Qed.

Lemma len_purgeConsumedLocation : forall s l f,
  (blen (purgeConsumedLocation s l f) <= blen s)%nat /\
  loc_ok (filled s) -> (blen (purgeConsumedLocation s l f) <= blen s)%nat.
Proof. tauto. Qed.

Lemma len_pcl : forall s l f, (blen (purgeConsumedLocation s l f) <= blen s)%nat.
Proof.
  intros s l f. unfold purgeConsumedLocation.
  destruct (negb (l_hasData (filled s))); [lia|].
  destruct (compare l (l_head (filled s))); try lia; try apply len_release_filled_head.
  destruct f; [apply len_release_filled_head|lia].
Qed.

(* a forced purge of a consumed run that starts at filled.head, whose first packet is
   buffered, removes that packet *)
Lemma len_pcl_force : forall s l p,
  loc_ok l -> l_head l <> l_tail l -> l_hasData (filled s) = true ->
  l_head l = l_head (filled s) -> bget (l_head (filled s)) (buf s) = Some p ->
  (blen (purgeConsumedLocation s l true) < blen s)%nat.
Proof.
  intros s l p Hl Hne Hd Hh Hb. unfold purgeConsumedLocation. rewrite Hd. cbn [negb].
  rewrite <- Hh. rewrite compare_head by assumption.
  eapply len_release_filled_head. exact Hb.
Qed.

Section Fuel.
  Variable is_head : list N -> bool.
  Variable is_tail : bool -> list N -> bool.
  Variable unmarshal : list N -> option (list N).
  Variable c : cfg.
  Notation buildSample := (buildSample is_head is_tail unmarshal c).
  Notation purge_body := (purge_body is_head is_tail unmarshal c).
  Notation purge_step := (purge_step is_head is_tail unmarshal c).
  Notation purgeBuffers := (purgeBuffers is_head is_tail unmarshal c).
  Notation rel := (rel is_head is_tail unmarshal).

  (* buildSample(true) entered with active.head = filled.head: either it leaves buffer and
     filled alone, or it shrinks the buffer; when it returns a sample it shrinks it *)
  Lemma build_measure : forall s0,
    locs_ok s0 -> l_hasData (filled s0) = true ->
    (l_empty (active s0) = true \/ l_head (active s0) = l_head (filled s0)) ->
    let r := buildSample true s0 in
    ((buf (fst r) = buf s0 /\ filled (fst r) = filled s0 /\ snd r = None) \/
     (blen (fst r) < blen s0)%nat).
  Proof.
    intros s0 Hok Hd Hhd. unfold SampleBuilder.buildSample.
    set (s1 := if l_empty (active s0) then _ else s0).
    assert (B1 : buf s1 = buf s0 /\ filled s1 = filled s0 /\ l_head (active s1) = l_head (filled s0) /\ locs_ok s1).
    { subst s1. destruct (l_empty (active s0)) eqn:E.
      - cbn. repeat split; try apply Hok.
      - destruct Hhd as [Hhd|Hhd]; [discriminate|]. repeat split; try assumption; apply Hok. }
    destruct B1 as (Eb1 & Ef1 & Eh1 & Hok1).
    destruct (l_empty (active s1)) eqn:E1; [cbn [fst snd]; left; repeat split; assumption|].
    set (s2 := if cmp_eqb _ CInside then _ else s1).
    assert (B2 : buf s2 = buf s0 /\ filled s2 = filled s0 /\ l_head (active s2) = l_head (filled s0) /\ loc_ok (active s2)).
    { subst s2. destruct (cmp_eqb _ CInside); cbn; repeat split; try assumption; try apply Hok1;
        try (rewrite Ef1; apply Hok). }
    destruct B2 as (Eb2 & Ef2 & Eh2 & Hoka2).
    destruct (scan is_tail s2) as [consume oof] eqn:Esc. cbn [fst snd].
    destruct oof.
    { cbn [fst snd]. left. unfold raise. destruct (fault s2 =? 0); cbn; repeat split; assumption. }
    destruct (l_empty consume) eqn:Ece; [cbn [fst snd]; left; repeat split; assumption|].
    cbn [negb andb].
    set (ht := fetchTimestamp s2 (active s2)).
    set (s2r := if snd ht then s2 else raise s2 3).
    assert (B2r : buf s2r = buf s0 /\ filled s2r = filled s0).
    { subst s2r. destruct (snd ht); [split; assumption|]. unfold raise. destruct (fault s2 =? 0); cbn; split; assumption. }
    destruct B2r as (Eb2r & Ef2r).
    set (s3 := set_active s2r _).
    assert (B3 : buf s3 = buf s0 /\ filled s3 = filled s0) by (subst s3; cbn; split; assumption).
    destruct B3 as (Eb3 & Ef3).
    (* consume starts at active.head = filled.head and is in range *)
    assert (Hc : l_head consume = l_head (filled s0) /\ loc_ok consume).
    { unfold SampleBuilder.scan in Esc.
      destruct (iter_pos 65537 (scan_step is_tail s2) (l_head (active s2), mkLoc 0 0)) as [r b] eqn:Eit.
      rewrite iter_pos_nat in Eit. cbn [fst snd] in Esc. injection Esc as Er Eb. subst b.
      assert (Hh : l_head (active s2) < 65536) by apply Hoka2.
      apply scan_iter in Eit; [|exact Hh]. rewrite Er in Eit.
      destruct Eit as [Eit|(k & _ & _ & (q & _ & _ & [[_ ->]|(_ & _ & _ & ->)]))].
      - cbn in Eit. subst consume. cbn in Ece. discriminate.
      - cbn. split; [exact Eh2|]. split; cbn; [exact Hh|apply inc16_lt].
      - cbn. split; [exact Eh2|]. split; cbn; [exact Hh|apply w16_lt]. }
    destruct Hc as (Hch & Hcok).
    assert (Hcne : l_head consume <> l_tail consume) by (apply N.eqb_neq; exact Ece).
    destruct (collect s2 consume) as [col oof2] eqn:Ecol. cbn [fst snd].
    destruct oof2.
    { cbn [fst snd]. left. unfold raise. cbn. destruct (fault s2r =? 0); cbn; repeat split; assumption. }
    destruct (all_some col) as [[|hp rest]|] eqn:Eas;
      try (cbn [fst snd]; left; unfold raise; cbn; destruct (fault s2r =? 0); cbn; repeat split; assumption).
    (* the head packet is buffered at filled.head *)
    assert (Hhp : bget (l_head (filled s0)) (buf s0) = Some hp).
    { apply collect_spec in Ecol; [|apply Hcok]. destruct Ecol as (len & Hcol & _ & _).
      apply all_some_spec in Eas. rewrite Hcol in Eas. destruct len; [discriminate Eas|].
      cbn in Eas. injection Eas as E _. rewrite Hch, Eb2 in E. exact E. }
    destruct (negb (is_head (p_payload hp))) eqn:Ehd.
    { cbn [fst snd]. right.
      match goal with |- (blen (purgeConsumedBuffers (purgeConsumedLocation ?s5 _ _)) < _)%nat =>
        assert (B5 : buf s5 = buf s0 /\ filled s5 = filled s0) end.
      { match goal with |- buf (if ?b then _ else _) = _ /\ _ => destruct b end; cbn; split; assumption. }
      destruct B5 as (Eb5 & Ef5).
      eapply Nat.le_lt_trans; [apply len_pcl|].
      rewrite <- Eb5. eapply len_pcl_force; try eassumption.
      - rewrite Ef5. exact Hd.
      - rewrite Ef5. exact Hch.
      - rewrite Ef5, Eb5. exact Hhp. }
    destruct (unmarshal (p_payload hp)) as [d0|] eqn:Eu;
      [|cbn [fst snd]; left; repeat split; assumption].
    set (s4 := if c_headHandler c then _ else s3).
    assert (B4 : buf s4 = buf s0 /\ filled s4 = filled s0) by (subst s4; destruct (c_headHandler c); cbn; split; assumption).
    destruct B4 as (Eb4 & Ef4).
    destruct (all_some (map _ rest)) as [ds|] eqn:Eds;
      [|cbn [fst snd]; left; repeat split; assumption].
    cbn [fst snd]. right.
    eapply Nat.le_lt_trans; [apply len_pcl|].
    match goal with |- (blen (purgeConsumedLocation ?s5 _ _) < _)%nat =>
      change (buf s0) with (buf s0); assert (B5 : buf s5 = buf s0 /\ filled s5 = filled s0) by (cbn; split; assumption) end.
    destruct B5 as (Eb5 & Ef5).
    match goal with |- (blen (purgeConsumedLocation ?s5 _ _) < _)%nat =>
      rewrite <- Eb5; eapply (len_pcl_force s5 consume hp); try eassumption end.
    - rewrite Ef5. exact Hd.
    - rewrite Ef5. exact Hch.
    - rewrite Ef5, Eb5. exact Hhp.
  Qed.

  Lemma measure_release_filled_head : forall s,
    loc_ok (filled s) -> l_hasData (filled s) = true ->
    purge_measure (release_filled_head s) < purge_measure s.
  Proof.
    intros s [Hh Ht] Hd. unfold purge_measure.
    destruct (len_release_filled_head s) as (H1 & _ & H3). rewrite H3. cbn [l_head l_tail].
    apply negb_true_iff, N.eqb_neq in Hd.
    pose proof (sub16_step (l_tail (filled s)) (l_head (filled s)) Ht Hh Hd). lia.
  Qed.

  Lemma measure_release_after_shrink : forall s s',
    (blen s' < blen s)%nat -> purge_measure (release_filled_head s') < purge_measure s.
  Proof.
    intros s s' Hl. unfold purge_measure.
    destruct (len_release_filled_head s') as (H1 & _ & H3).
    pose proof (sub16_lt (l_tail (filled (release_filled_head s'))) (l_head (filled (release_filled_head s')))). lia.
  Qed.

  Lemma purge_body_measure : forall s0,
    locs_ok s0 -> l_hasData (filled s0) = true ->
    purge_measure (purge_body s0) < purge_measure s0.
  Proof.
    intros s0 Hok Hd. unfold SampleBuilder.purge_body.
    set (s1 := if l_empty (active s0) then _ else s0).
    assert (B1 : buf s1 = buf s0 /\ filled s1 = filled s0 /\ locs_ok s1).
    { subst s1. destruct (l_empty (active s0)); cbn; repeat split; try apply Hok. }
    destruct B1 as (Eb1 & Ef1 & Hok1).
    assert (M1 : purge_measure s1 = purge_measure s0) by (unfold purge_measure; rewrite Eb1, Ef1; reflexivity).
    destruct (l_hasData (active s1) && (l_head (active s1) =? l_head (filled s1))) eqn:Ec.
    - apply andb_true_iff in Ec. destruct Ec as [_ Ec]. apply N.eqb_eq in Ec.
      pose proof (build_measure s1 Hok1 ltac:(rewrite Ef1; exact Hd) (or_intror Ec)) as Hb. cbv zeta in Hb.
      destruct Hb as [(Hb1 & Hb2 & Hb3)|Hb].
      + rewrite Hb3.
        match goal with |- purge_measure (release_filled_head ?x) < _ =>
          assert (Bx : buf x = buf s0 /\ filled x = filled s0) by (cbn; rewrite Hb1, Hb2; split; assumption) end.
        destruct Bx as (Ebx & Efx).
        match goal with |- purge_measure (release_filled_head ?x) < _ =>
          replace (purge_measure s0) with (purge_measure x) by (unfold purge_measure; rewrite Ebx, Efx; reflexivity);
          apply measure_release_filled_head end.
        * rewrite Efx. apply Hok.
        * rewrite Efx. exact Hd.
      + destruct (snd (buildSample true s1)).
        * unfold purge_measure. rewrite Eb1 in Hb.
          pose proof (sub16_lt (l_tail (filled (fst (buildSample true s1)))) (l_head (filled (fst (buildSample true s1))))). lia.
        * apply measure_release_after_shrink. cbn [buf set_dropped log_ev set_active]. rewrite <- Eb1. exact Hb.
    - rewrite <- M1. apply measure_release_filled_head; [apply Hok1|rewrite Ef1; exact Hd].
  Qed.

  (* the loop of purgeBuffers never runs out of its fuel *)
  Theorem purge_fuel : forall fl s, locs_ok s ->
    snd (iter_pos (N.succ_pos (purge_measure s)) (purge_step fl) s) = false.
  Proof.
    intros fl s Hok. rewrite iter_pos_nat.
    apply (iter_nat_terminates_inv locs_ok (fun x => N.to_nat (purge_measure x))).
    - intros x Hx. apply (r_ok _ _ _ _ _ (rel_purge_step is_head is_tail unmarshal c fl x)). exact Hx.
    - intros x Hx Hc. unfold SampleBuilder.purge_step in *. destruct (purge_cond c fl x) eqn:Ep; [|discriminate Hc].
      cbn [fst]. unfold purge_cond in Ep. apply andb_true_iff in Ep. destruct Ep as [_ Ep].
      pose proof (purge_body_measure x Hx Ep). lia.
    - exact Hok.
    - rewrite <- positive_N_nat, N.succ_pos_spec. lia.
  Qed.

  Corollary purgeBuffers_no_fuel_fault : forall fl s, locs_ok s ->
    purgeBuffers fl s =
    fst (iter_pos (N.succ_pos (purge_measure (purgeConsumedBuffers s))) (purge_step fl) (purgeConsumedBuffers s)).
  Proof.
    intros fl s Hok. unfold SampleBuilder.purgeBuffers.
    rewrite purge_fuel; [reflexivity|].
    apply (r_ok _ _ _ _ _ (rel_purgeConsumedBuffers is_head is_tail unmarshal s)). exact Hok.
  Qed.
End Fuel.
