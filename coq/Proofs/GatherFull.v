(* C24 proofs, part 4: the statements *)
From Coq Require Import List Arith Bool Lia.
Import ListNotations.
From Verif Require Import Model.Gather Proofs.Gather Proofs.GatherTok Proofs.GatherOrder.

(* ---------- structure that no step changes ---------- *)
Lemma fl_length_finish : forall s j, length (fl (flush_finish s j)) = length (fl s).
Proof.
  intros s j. unfold flush_finish.
  destruct (nilp s); [destruct (Nat.eqb (pred (flushing s)) 0)|]; cbn; apply length_set_nth.
Qed.

Lemma step_fl_length : forall fx s t s', step fx s t = Some s' -> length (fl s') = length (fl s).
Proof.
  intros fx s t s' H. destruct t as [|j|]; cbn [step] in H.
  - unfold agent_step in H.
    destruct (a_ph s); [destruct (a_queue s) as [|[k [c|]] r]; [discriminate|destruct (pool_active s)|]| |
                         destruct (pool_active s || (fx && Nat.ltb 0 (flushing s)))|];
      apply Some_inj in H; subst s'; reflexivity.
  - unfold flush_step in H. destruct (nth_error (fl s) j) as [[|cs na|k|]|]; try discriminate.
    + destruct fx.
      * destruct (match pool s with Some l => l | None => [] end); apply Some_inj in H; subst s'.
        -- rewrite fl_length_finish. cbn. apply length_set_nth.
        -- cbn. apply length_set_nth.
      * apply Some_inj in H. subst s'. cbn. apply length_set_nth.
    + destruct cs as [|c r].
      * apply Some_inj in H. subst s'. cbn. apply length_set_nth.
      * destruct fx.
        -- destruct r; apply Some_inj in H; subst s'.
           ++ rewrite fl_length_finish. reflexivity.
           ++ cbn. apply length_set_nth.
        -- apply Some_inj in H. subst s'. cbn. apply length_set_nth.
    + apply Some_inj in H. subst s'. cbn. apply length_set_nth.
  - unfold restart_step in H. destruct (cycles s); [discriminate|].
    apply Some_inj in H. subst s'. reflexivity.
Qed.

Lemma run_fl_length : forall fx sch s, length (fl (run fx s sch)) = length (fl s).
Proof.
  intros fx. induction sch as [|t rest IH]; intros s; [reflexivity|].
  cbn. destruct (step fx s t) as [s'|] eqn:Hs; [|apply IH].
  rewrite IH. eapply step_fl_length. exact Hs.
Qed.

Lemma pool_none_finish : forall s j, pool (flush_finish s j) = pool s.
Proof.
  intros s j. unfold flush_finish.
  destruct (nilp s); [destruct (Nat.eqb (pred (flushing s)) 0)|]; reflexivity.
Qed.

Lemma step_pool_none : forall s t s', step true s t = Some s' -> pool s = None -> pool s' = None.
Proof.
  intros s t s' H Hp. destruct t as [|j|]; cbn [step] in H.
  - unfold agent_step, pool_active in H. rewrite Hp in H.
    destruct (a_ph s); [destruct (a_queue s) as [|[k [c|]] r]; [discriminate| |]| |
                         destruct (false || (true && Nat.ltb 0 (flushing s)))|];
      apply Some_inj in H; subst s'; cbn; auto.
  - unfold flush_step in H. rewrite Hp in H.
    destruct (nth_error (fl s) j) as [[|cs na|k|]|]; try discriminate.
    + apply Some_inj in H. subst s'. rewrite pool_none_finish. reflexivity.
    + destruct cs as [|c [|c2 r]]; apply Some_inj in H; subst s'; rewrite ?pool_none_finish; cbn; auto.
    + apply Some_inj in H. subst s'. cbn. auto.
  - unfold restart_step in H. destruct (cycles s); [discriminate|].
    apply Some_inj in H. subst s'. cbn. exact Hp.
Qed.

Lemma run_pool_none : forall sch s, pool s = None -> pool (run true s sch) = None.
Proof.
  induction sch as [|t rest IH]; intros s Hp; [exact Hp|].
  cbn. destruct (step true s t) as [s'|] eqn:Hs; [|apply IH; exact Hp].
  apply IH. eapply step_pool_none; eauto.
Qed.

Lemma flushc_done : forall k l, forallb fdone l = true -> flushc l = [] /\ ftoks k l = 0.
Proof.
  intros k. unfold flushc. induction l as [|f t IH]; intros H; [split; reflexivity|].
  cbn in H. apply andb_true_iff in H. destruct H as [Hf Ht]. destruct (IH Ht) as [E1 E2].
  destruct f; try discriminate. cbn. rewrite E1, E2. split; reflexivity.
Qed.

(* everything has finished and SetLocalDescription has flushed the pool (or there is none) *)
Lemma quiescent_flushed : forall p first more n sch,
  (p = 0 \/ 0 < n) ->
  let s := run true (init p first more n) sch in
  quiescent s = true -> pool s = None.
Proof.
  intros p first more n sch Hfl s Hq.
  destruct Hfl as [->|Hn].
  - apply run_pool_none. reflexivity.
  - destruct (inv2_run p first more n sch) as [I _]. fold s in I.
    destruct (c_fl _ _ I) as [Hall|Hnone]; [|exact Hnone]. exfalso.
    unfold quiescent in Hq. apply andb_true_iff in Hq. destruct Hq as [_ Hq].
    assert (length (fl s) = n) as Hlen.
    { unfold s. rewrite run_fl_length. cbn. apply repeat_length. }
    destruct (fl s) as [|f t] eqn:Hf; [cbn in Hlen; lia|].
    cbn in Hq. apply andb_true_iff in Hq. destruct Hq as [Hd _].
    rewrite (Hall f (or_introl eq_refl)) in Hd. discriminate.
Qed.

Lemma quiescent_parts : forall s, quiescent s = true ->
  a_ph s = AEnter /\ a_queue s = [] /\ cycles s = [] /\ forallb fdone (fl s) = true.
Proof.
  intros s H. unfold quiescent, adone in H. apply andb_true_iff in H. destruct H as [Ha Hf].
  destruct (a_ph s); try discriminate. destruct (a_queue s); try discriminate.
  destruct (cycles s); try discriminate. auto.
Qed.

(* ---------- candidates: every schedule, any number of flushes and restarts ---------- *)
Lemma candidates_never_twice : forall p first more n sch x,
  cnt x (cands_of (out (run true (init p first more n) sch))) <= cnt x (all_cands first more).
Proof.
  intros. destruct (inv2_run p first more n sch) as [I _].
  pose proof (c_cons _ _ I x). lia.
Qed.

Lemma candidates_exactly_once : forall p first more n sch,
  (p = 0 \/ 0 < n) ->
  let s := run true (init p first more n) sch in
  quiescent s = true ->
  forall x, cnt x (cands_of (out s)) = cnt x (all_cands first more).
Proof.
  intros p first more n sch Hfl s Hq x.
  destruct (inv2_run p first more n sch) as [I _]. fold s in I.
  pose proof (quiescent_flushed p first more n sch Hfl Hq) as Hp. fold s in Hp.
  destruct (quiescent_parts _ Hq) as (Ha & Hqu & Hcy & Hf).
  destruct (flushc_done 0 _ Hf) as [Hfc _].
  pose proof (c_cons _ _ I x) as H. unfold inhand, poolc, pendingq in H.
  rewrite Ha, Hp, Hfc, Hqu, Hcy in H. cbn in H. rewrite !cnt_nil in H. lia.
Qed.

(* ---------- one gathering cycle (no restart): the full statement ---------- *)
Lemma ntok_init1 : forall k p cands n,
  ntok k (init1 p cands n) = if Nat.eqb k 0 then 1 else 0.
Proof.
  intros. unfold init1, ntok, atok, ptok, pendingq. cbn [init out a_ph nilp fl a_queue ncyc cycles future_items].
  rewrite ftoks_repeat, nils_of_nil, app_nil_r, nils_of_cycle. cbn [snd].
  rewrite andb_true_r, Nat.eqb_sym. destruct (Nat.eqb k 0); reflexivity.
Qed.

Definition one_cycle (all : list (nat * cand)) (s : st) : Prop :=
  inv2 all s /\ forall k, ntok k s = if Nat.eqb k 0 then 1 else 0.

Lemma one_cycle_step : forall all s t s',
  one_cycle all s -> step true s t = Some s' -> one_cycle all s'.
Proof.
  intros all s t s' [I Hn] H. split; [eapply inv2_step; eauto|].
  assert (no_overwrite s) as Hno.
  { unfold no_overwrite. destruct (a_ph s) as [| | m |] eqn:Hph; auto.
    destruct (nilp s) as [m'|] eqn:Hnp; [|reflexivity]. exfalso.
    pose proof (Hn m) as H1. pose proof (Hn m') as H2.
    unfold ntok, atok, ptok in H1, H2. rewrite Hph, Hnp in H1, H2.
    rewrite Nat.eqb_refl in H1, H2.
    destruct (Nat.eqb m 0) eqn:E1; [|lia]. destruct (Nat.eqb m' 0) eqn:E2; [|lia].
    apply Nat.eqb_eq in E1, E2. subst. rewrite Nat.eqb_refl in H1. lia. }
  intros k. destruct (ntok_step _ k _ _ _ I H) as [_ Heq]. rewrite (Heq Hno). apply Hn.
Qed.

Lemma one_cycle_run : forall p cands n sch,
  one_cycle (all_cands (cands, true) []) (run true (init1 p cands n) sch).
Proof.
  intros. apply (run_inv true (one_cycle (all_cands (cands, true) []))).
  - intros s t s' A H. eapply one_cycle_step; eauto.
  - split; [apply inv2_init|]. intros k. apply ntok_init1.
Qed.

(* all that the application saw belongs to cycle 0 *)
Lemma in_cands_of : forall k c o, In (k, Some c) o -> In (k, c) (cands_of o).
Proof.
  intros k c o H. unfold cands_of. apply in_flat_map. exists (k, Some c). split; [exact H|left; reflexivity].
Qed.

Lemma cands_of_in : forall k c o, In (k, c) (cands_of o) -> In (k, Some c) o.
Proof.
  intros k c o H. unfold cands_of in H. apply in_flat_map in H. destruct H as ([j [x|]] & Hin & Hx); cbn in Hx.
  - destruct Hx as [E|[]]. injection E as -> ->. exact Hin.
  - destruct Hx.
Qed.

Lemma nils_of_pos : forall k o, In (k, None) o -> 0 < nils_of k o.
Proof.
  intros k o. induction o as [|[j x] t IH]; intros H; [destruct H|].
  rewrite nils_of_cons. destruct H as [E|H].
  - injection E as -> ->. rewrite nils_of_end, Nat.eqb_refl. lia.
  - specialize (IH H). lia.
Qed.

Lemma cycle0_tags : forall cands e, In e (cycle_items 0 (cands, true)) -> fst e = 0.
Proof.
  intros cands e H. unfold cycle_items in H. cbn [fst snd] in H. apply in_app_or in H.
  destruct H as [H|[<-|[]]]; [|reflexivity].
  destruct (proj1 (in_map_iff _ _ _) H) as (y & <- & _). reflexivity.
Qed.

Lemma one_cycle_view : forall p cands n sch,
  let s := run true (init1 p cands n) sch in view 0 (out s) = untagged (out s).
Proof.
  intros p cands n sch s. destruct (one_cycle_run p cands n sch) as [[I _] Hn]. fold s in I, Hn.
  assert (forall e, In e (out s) -> fst e = 0) as Ht.
  { intros [k [c|]] He; cbn.
    - apply in_cands_of in He.
      assert (0 < cnt (k, c) (cands_of (out s))) as Hpos.
      { unfold cnt. apply count_occ_In. exact He. }
      pose proof (c_cons _ _ I (k, c)) as Hc.
      assert (0 < cnt (k, c) (all_cands (cands, true) [])) as Hall by lia.
      unfold cnt in Hall. apply count_occ_In in Hall. unfold all_cands in Hall.
      cbn [future_items] in Hall. rewrite app_nil_r in Hall. apply cands_of_in in Hall.
      apply (cycle0_tags _ _ Hall).
    - apply nils_of_pos in He. pose proof (Hn k) as Hk. unfold ntok in Hk.
      destruct (Nat.eqb k 0) eqn:E; [apply Nat.eqb_eq in E; exact E|lia]. }
  unfold view, untagged. f_equal. clear -Ht. induction (out s) as [|e t IH]; [reflexivity|].
  cbn. rewrite (Ht e (or_introl eq_refl)). cbn. f_equal. apply IH. intros x Hx. apply Ht. right. exact Hx.
Qed.

Lemma cnt_single : forall (x c : cand), cnt (0, c) [(0, x)] = if Nat.eq_dec x c then 1 else 0.
Proof.
  intros x c. unfold cnt. cbn [count_occ].
  destruct (tcand_eq_dec (0, x) (0, c)) as [E|E]; destruct (Nat.eq_dec x c) as [F|F]; try reflexivity.
  - injection E as E. contradiction.
  - subst. contradiction.
Qed.

Lemma emitted_tagged : forall c (o : list (nat * option cand)),
  (forall e, In e o -> fst e = 0) ->
  count_occ Nat.eq_dec (emitted (map snd o)) c = cnt (0, c) (cands_of o).
Proof.
  intros c. induction o as [|[k [x|]] t IH]; intros Ht; [reflexivity| |].
  - assert (k = 0) as -> by (apply (Ht (k, Some x)); left; reflexivity).
    rewrite cands_of_cons, cands_of_cand, cnt_app, cnt_single.
    cbn [map snd]. unfold emitted in *. cbn [flat_map app count_occ].
    rewrite <- IH by (intros e He; apply Ht; right; exact He).
    destruct (Nat.eq_dec x c); reflexivity.
  - rewrite cands_of_cons, cands_of_end. cbn [map snd app]. unfold emitted in *. cbn [flat_map app].
    apply IH. intros e He. apply Ht. right. exact He.
Qed.

Lemma cnt_cycle0 : forall c (cands : list cand),
  cnt (0, c) (cands_of (map (fun x : cand => (0, Some x)) cands)) = count_occ Nat.eq_dec cands c.
Proof.
  intros c. induction cands as [|x t IH]; [reflexivity|].
  cbn [map]. rewrite cands_of_cons, cands_of_cand, cnt_app, cnt_single, IH. cbn [count_occ].
  destruct (Nat.eq_dec x c); reflexivity.
Qed.

(* the handler sequence of one gathering cycle: every candidate once, then nil
   exactly once, nothing after it -- every schedule, pool size 0 or 1, any
   number of flushes *)
Lemma full_one_cycle : forall p cands n sch,
  (p = 0 \/ 0 < n) ->
  let s := run true (init1 p cands n) sch in
  quiescent s = true ->
  nil_last (untagged (out s)) = true /\
  nil_count (untagged (out s)) = 1 /\
  forall c, count_occ Nat.eq_dec (emitted (untagged (out s))) c = count_occ Nat.eq_dec cands c.
Proof.
  intros p cands n sch Hfl s Hq.
  pose proof (one_cycle_view p cands n sch) as Hv. fold s in Hv.
  destruct (one_cycle_run p cands n sch) as [[I _] Hn]. fold s in I, Hn.
  pose proof (quiescent_flushed p (cands, true) [] n sch Hfl Hq) as Hp. change (pool s = None) in Hp.
  destruct (quiescent_parts _ Hq) as (Ha & Hqu & Hcy & Hf).
  destruct (flushc_done 0 _ Hf) as [Hfc Hft].
  split; [|split].
  - rewrite <- Hv. apply (order_per_cycle 0 p (cands, true) [] n sch).
  - rewrite <- Hv, nil_count_view. pose proof (Hn 0) as H0. cbn in H0.
    unfold ntok, atok, ptok, pendingq in H0. rewrite Ha, Hqu, Hcy, Hft in H0. cbn in H0.
    rewrite nils_of_nil in H0.
    destruct (nilp s) as [m|] eqn:Hnp; [|lia].
    exfalso. destruct (c_nilp _ _ I) as [Hact|Hfl0]; [congruence| |].
    + unfold pool_active in Hact. rewrite Hp in Hact. discriminate.
    + rewrite <- (c_emit _ _ I) in Hfl0. clear -Hf Hfl0.
      induction (fl s) as [|f t IH]; cbn in *; [lia|].
      apply andb_true_iff in Hf. destruct Hf as [Hd Ht]. destruct f; try discriminate. cbn in Hfl0. auto.
  - intros c. pose proof (candidates_exactly_once p (cands, true) [] n sch Hfl Hq (0, c)) as Hc.
    fold s in Hc.
    unfold untagged. rewrite emitted_tagged.
    + transitivity (cnt (0, c) (all_cands (cands, true) [])); [exact Hc|].
      unfold all_cands. cbn [future_items]. rewrite app_nil_r.
      unfold cycle_items. cbn [fst snd]. rewrite cands_of_app, cands_of_end, app_nil_r.
      apply cnt_cycle0.
    + (* tags *)
      intros e He.
      destruct e as [k [x|]]; cbn.
      * apply in_cands_of in He.
        assert (0 < cnt (k, x) (cands_of (out s))) as Hpos by (unfold cnt; apply count_occ_In; exact He).
        pose proof (c_cons _ _ I (k, x)) as Hcx.
        assert (0 < cnt (k, x) (all_cands (cands, true) [])) as Hall by lia.
        unfold cnt in Hall. apply count_occ_In in Hall. unfold all_cands in Hall.
        cbn [future_items] in Hall. rewrite app_nil_r in Hall. apply cands_of_in in Hall.
        apply (cycle0_tags _ _ Hall).
      * apply nils_of_pos in He. pose proof (Hn k) as Hk. unfold ntok in Hk.
        destruct (Nat.eqb k 0) eqn:E; [apply Nat.eqb_eq in E; exact E|lia].
Qed.

(* ---------- several gathering cycles: ICE restarts that happen when nothing
   is pooled or being flushed (runG) ---------- *)
Lemma stepG_is_step : forall s t s', stepG s t = Some s' -> step true s t = Some s'.
Proof.
  intros s t s' H. destruct t; cbn [stepG step] in *; try exact H.
  destruct (pool_active s || Nat.ltb 0 (flushing s)); [discriminate|exact H].
Qed.

Lemma runG_is_run : forall sch s, exists sch', runG s sch = run true s sch'.
Proof.
  induction sch as [|t rest IH]; intros s; [exists []; reflexivity|].
  cbn. destruct (stepG s t) as [s'|] eqn:Hs; [|apply IH].
  destruct (IH s') as [sch' E]. exists (t :: sch'). cbn. rewrite (stepG_is_step _ _ _ Hs). exact E.
Qed.

Lemma runG_inv : forall (P : st -> Prop),
  (forall s t s', P s -> stepG s t = Some s' -> P s') ->
  forall sch s, P s -> P (runG s sch).
Proof.
  intros P Hstep. induction sch as [|t rest IH]; intros s Hs; [exact Hs|].
  cbn. destruct (stepG s t) eqn:E; [|apply IH; exact Hs].
  apply IH. eapply Hstep; eauto.
Qed.

(* tokens of cycles that have not been started are still to come *)
Definition started (s : st) : Prop :=
  forall k, ncyc s <= k -> dtok k s = 0 /\ nils_of k (a_queue s) = 0.

Definition drained (s : st) : Prop :=
  pool_active s = false /\ flushing s = 0 /\ nilp s = None.

Record invG (all : list (nat * cand)) (tok0 : nat -> nat) (s : st) : Prop := {
  g_inv : inv2 all s;
  g_tok : forall k, ntok k s = tok0 k;
  g_le : forall k, tok0 k <= 1;
  g_started : started s;
  g_phase : ncyc s = 1 \/ drained s
}.

Lemma invG_no_overwrite : forall all tok0 s, invG all tok0 s -> no_overwrite s.
Proof.
  intros all tok0 s G. unfold no_overwrite. destruct (a_ph s) as [| |m|] eqn:Hph; auto.
  destruct (g_phase _ _ _ G) as [H1|(_ & _ & Hn)]; [|exact Hn].
  destruct (nilp s) as [m'|] eqn:Hnp; [|reflexivity]. exfalso.
  assert (forall k, 0 < dtok k s -> k = 0) as Hz.
  { intros k Hk. destruct (le_lt_dec (ncyc s) k) as [Hle|Hlt]; [|lia].
    destruct (g_started _ _ _ G k Hle) as [Hd _]. lia. }
  assert (m = 0) as ->.
  { apply Hz. unfold dtok, atok. rewrite Hph, Nat.eqb_refl. lia. }
  assert (m' = 0) as ->.
  { apply Hz. unfold dtok, ptok. rewrite Hnp, Nat.eqb_refl. lia. }
  pose proof (g_tok _ _ _ G 0) as Ht. pose proof (g_le _ _ _ G 0) as Hl.
  unfold ntok, atok, ptok in Ht. rewrite Hph, Hnp in Ht. cbn in Ht. lia.
Qed.

Lemma dtok_le_ntok : forall k s, ntok k s = nils_of k (pendingq s) + dtok k s.
Proof. intros. unfold ntok, dtok. lia. Qed.

Lemma pendingq_split : forall k s,
  nils_of k (pendingq s) = nils_of k (a_queue s) + nils_of k (future_items (ncyc s) (cycles s)).
Proof. intros. unfold pendingq. apply nils_of_app. Qed.

(* a step that is not a restart: the tokens of unstarted cycles stay where they are *)
Lemma started_step : forall all k s t s',
  inv2 all s -> t <> TRestart -> step true s t = Some s' ->
  ncyc s' = ncyc s /\ cycles s' = cycles s /\
  (nils_of k (a_queue s) = 0 -> dtok k s = 0 -> dtok k s' = 0 /\ nils_of k (a_queue s') = 0).
Proof.
  intros all k s t s' I Ht H.
  assert (ncyc s' = ncyc s /\ cycles s' = cycles s) as [E1 E2].
  { destruct t as [|j|]; [| |congruence]; cbn [step] in H.
    - unfold agent_step in H.
      destruct (a_ph s); [destruct (a_queue s) as [|[m [c|]] r]; [discriminate|destruct (pool_active s)|]| |
                           destruct (pool_active s || (true && Nat.ltb 0 (flushing s)))|];
        apply Some_inj in H; subst s'; split; reflexivity.
    - unfold flush_step in H. destruct (nth_error (fl s) j) as [[|cs na|m|]|]; try discriminate.
      + destruct (match pool s with Some l => l | None => [] end); apply Some_inj in H; subst s';
          unfold flush_finish; cbn; [|split; reflexivity].
        destruct (nilp s); [destruct (Nat.eqb _ 0)|]; split; reflexivity.
      + destruct cs as [|c [|c2 r]]; apply Some_inj in H; subst s'; unfold flush_finish; cbn;
          try (split; reflexivity).
        destruct (nilp s); [destruct (Nat.eqb _ 0)|]; split; reflexivity.
      + apply Some_inj in H. subst s'. split; reflexivity. }
  split; [exact E1|]. split; [exact E2|]. intros Hq Hd.
  destruct (ntok_step all k s t s' I H) as [Hle _].
  rewrite !dtok_le_ntok, !pendingq_split, E1, E2 in Hle.
  (* the queue only shrinks *)
  assert (nils_of k (a_queue s') <= nils_of k (a_queue s)) as Hq'.
  { destruct t as [|j|]; [| |congruence]; cbn [step] in H.
    - unfold agent_step in H.
      destruct (a_ph s); [destruct (a_queue s) as [|[m [c|]] r] eqn:Ea; [discriminate|destruct (pool_active s)|]| |
                           destruct (pool_active s || (true && Nat.ltb 0 (flushing s)))|];
        apply Some_inj in H; subst s'; cbn [a_queue upd]; rewrite ?Ea; try lia;
        rewrite (nils_of_cons k _ r); lia.
    - assert (a_queue s' = a_queue s) as ->; [|lia].
      unfold flush_step in H. destruct (nth_error (fl s) j) as [[|cs na|m|]|]; try discriminate.
      + destruct (match pool s with Some l => l | None => [] end); apply Some_inj in H; subst s';
          unfold flush_finish; cbn; [|reflexivity].
        destruct (nilp s); [destruct (Nat.eqb _ 0)|]; reflexivity.
      + destruct cs as [|c [|c2 r]]; apply Some_inj in H; subst s'; unfold flush_finish; cbn;
          try reflexivity.
        destruct (nilp s); [destruct (Nat.eqb _ 0)|]; reflexivity.
      + apply Some_inj in H. subst s'. reflexivity. }
  lia.
Qed.

Lemma drained_step : forall all s t s',
  inv2 all s -> drained s -> step true s t = Some s' -> drained s'.
Proof.
  intros all s t s' [I N] (Ha & Hf & Hn) H. unfold drained.
  destruct t as [|j|]; cbn [step] in H.
  - unfold agent_step in H. rewrite Ha, Hf in H. cbn in H.
    destruct (a_ph s); [destruct (a_queue s) as [|[m [c|]] r]; [discriminate| |]| | |];
      apply Some_inj in H; subst s'; cbn [flushing nilp upd]; rewrite ?pool_active_upd; auto.
  - unfold flush_step in H. destruct (nth_error (fl s) j) as [[|cs na|m|]|] eqn:Hj; try discriminate.
    + pose proof (c_pool _ _ I Ha) as Hp. unfold poolc in Hp. rewrite Hp in H.
      apply Some_inj in H. subst s'. unfold flush_finish. cbn [nilp flushing upd]. rewrite Hn, Hf.
      cbn. unfold pool_active. cbn. auto.
    + exfalso. pose proof (femits_pos _ _ _ _ Hj) as Hpos. rewrite (c_emit _ _ I) in Hpos. lia.
    + apply Some_inj in H. subst s'. cbn [flushing nilp upd]. rewrite pool_active_upd. auto.
  - unfold restart_step in H. destruct (cycles s); [discriminate|].
    apply Some_inj in H. subst s'. cbn. unfold pool_active in *. cbn. auto.
Qed.

Lemma invG_step : forall all tok0 s t s', invG all tok0 s -> stepG s t = Some s' -> invG all tok0 s'.
Proof.
  intros all tok0 s t s' G Hg. pose proof (stepG_is_step _ _ _ Hg) as H.
  pose proof (g_inv _ _ _ G) as I. pose proof (invG_no_overwrite _ _ _ G) as Hno.
  constructor.
  - eapply inv2_step; eauto.
  - intros k. destruct (ntok_step all k s t s' I H) as [_ Heq]. rewrite (Heq Hno). apply (g_tok _ _ _ G).
  - apply (g_le _ _ _ G).
  - (* started *)
    destruct t as [|j|].
    + intros k Hk. destruct (started_step all k s TAgent s' I ltac:(discriminate) H) as (E1 & _ & Hs).
      rewrite E1 in Hk. destruct (g_started _ _ _ G k Hk) as [Hd Hq]. apply Hs; assumption.
    + intros k Hk. destruct (started_step all k s (TFlush j) s' I ltac:(discriminate) H) as (E1 & _ & Hs).
      rewrite E1 in Hk. destruct (g_started _ _ _ G k Hk) as [Hd Hq]. apply Hs; assumption.
    + cbn [step] in H. unfold restart_step in H. destruct (cycles s) as [|c rest]; [discriminate|].
      apply Some_inj in H. subst s'. intros k Hk. cbn [ncyc] in Hk.
      destruct (g_started _ _ _ G k ltac:(lia)) as [Hd Hq]. split.
      * unfold dtok, atok, ptok in *. cbn. exact Hd.
      * cbn [a_queue]. rewrite nils_of_app, Hq, nils_of_cycle.
        destruct (Nat.eqb (ncyc s) k) eqn:E; [apply Nat.eqb_eq in E; lia|reflexivity].
  - (* phase *)
    destruct t as [|j|].
    + destruct (started_step all 0 s TAgent s' I ltac:(discriminate) H) as (E1 & _ & _).
      destruct (g_phase _ _ _ G) as [P|P]; [left; congruence|right; eapply drained_step; eauto].
    + destruct (started_step all 0 s (TFlush j) s' I ltac:(discriminate) H) as (E1 & _ & _).
      destruct (g_phase _ _ _ G) as [P|P]; [left; congruence|right; eapply drained_step; eauto].
    + right. cbn [stepG] in Hg.
      destruct (pool_active s || Nat.ltb 0 (flushing s)) eqn:Hact; [discriminate|].
      apply orb_false_elim in Hact. destruct Hact as [Ha Hf]. apply Nat.ltb_ge in Hf.
      assert (drained s) as D.
      { split; [exact Ha|]. split; [lia|].
        destruct (nilp s) eqn:Hn; [|reflexivity]. exfalso.
        destruct (c_nilp _ _ (proj1 I)) as [X|X]; [congruence|congruence|lia]. }
      eapply drained_step; eauto.
Qed.

Lemma invG_init : forall p first more n,
  invG (all_cands first more) (fun k => nils_of k (future_items 0 (first :: more))) (init p first more n).
Proof.
  intros. constructor.
  - apply inv2_init.
  - intros k. unfold ntok, atok, ptok, pendingq.
    cbn [init out a_ph nilp fl a_queue ncyc cycles future_items].
    rewrite ftoks_repeat, nils_of_nil. lia.
  - intros k. apply nils_of_future_le.
  - intros k Hk. cbn in Hk. unfold dtok, atok, ptok. cbn. rewrite ftoks_repeat, nils_of_nil.
    split; [reflexivity|]. rewrite nils_of_cycle. destruct (Nat.eqb 0 k) eqn:E; [apply Nat.eqb_eq in E; lia|reflexivity].
  - left. reflexivity.
Qed.

(* does the k-th gathering cycle complete? *)
Lemma nils_of_future_nth : forall k l n,
  nils_of k (future_items n l) = if Nat.leb n k && nth (k - n) (map snd l) false then 1 else 0.
Proof.
  intros k l. induction l as [|c r IH]; intros n.
  - cbn [future_items map]. rewrite nils_of_nil. destruct (k - n); rewrite andb_false_r; reflexivity.
  - cbn [future_items map]. rewrite nils_of_app, nils_of_cycle, IH.
    destruct (Nat.eqb n k) eqn:E.
    + apply Nat.eqb_eq in E. subst n. rewrite Nat.sub_diag. cbn [nth].
      assert (Nat.leb (S k) k = false) as -> by (apply Nat.leb_gt; lia).
      rewrite Nat.leb_refl. cbn. destruct (snd c); reflexivity.
    + apply Nat.eqb_neq in E. cbn [andb].
      destruct (Nat.leb n k) eqn:L.
      * apply Nat.leb_le in L. assert (Nat.leb (S n) k = true) as -> by (apply Nat.leb_le; lia).
        replace (k - n) with (S (k - S n)) by lia. reflexivity.
      * apply Nat.leb_gt in L. assert (Nat.leb (S n) k = false) as -> by (apply Nat.leb_gt; lia).
        reflexivity.
Qed.

(* per gathering cycle: every candidate once, then the end marker exactly once
   if the cycle completed, nothing after it *)
Lemma full_cycles : forall p first more n sch,
  (p = 0 \/ 0 < n) ->
  let s := runG (init p first more n) sch in
  quiescent s = true ->
  (forall x, cnt x (cands_of (out s)) = cnt x (all_cands first more)) /\
  forall k, nil_last (view k (out s)) = true /\
            nil_count (view k (out s)) = if nth k (map snd (first :: more)) false then 1 else 0.
Proof.
  intros p first more n sch Hfl s Hq.
  destruct (runG_is_run sch (init p first more n)) as [sch' E].
  assert (invG (all_cands first more) (fun k => nils_of k (future_items 0 (first :: more))) s) as G.
  { apply (runG_inv (invG (all_cands first more) (fun k => nils_of k (future_items 0 (first :: more))))).
    - intros; eapply invG_step; eauto.
    - apply invG_init. }
  unfold s in *. rewrite E in *. split.
  - apply candidates_exactly_once; assumption.
  - intros k. split; [apply order_per_cycle|].
    rewrite nil_count_view.
    pose proof (g_tok _ _ _ G k) as Ht. cbn beta in Ht. rewrite nils_of_future_nth in Ht.
    cbn [Nat.leb andb] in Ht. rewrite Nat.sub_0_r in Ht.
    pose proof (quiescent_flushed p first more n sch' Hfl Hq) as Hp.
    destruct (quiescent_parts _ Hq) as (Ha & Hqu & Hcy & Hf).
    destruct (flushc_done k _ Hf) as [Hfc Hft].
    unfold ntok, atok, ptok, pendingq in Ht. rewrite Ha, Hqu, Hcy, Hft in Ht.
    cbn [app future_items] in Ht. rewrite nils_of_nil in Ht.
    destruct (nilp (run true (init p first more n) sch')) as [m|] eqn:Hnp; [|lia].
    exfalso. pose proof (g_inv _ _ _ G) as [I _].
    destruct (c_nilp _ _ I) as [Hact|Hfl0]; [congruence| |].
    + unfold pool_active in Hact. rewrite Hp in Hact. discriminate.
    + rewrite <- (c_emit _ _ I) in Hfl0. clear -Hf Hfl0.
      induction (fl _) as [|f t IH]; cbn in *; [lia|].
      apply andb_true_iff in Hf. destruct Hf as [Hd Ht]. destruct f; try discriminate. cbn in Hfl0. auto.
Qed.

(* ---------- witnesses ---------- *)
(* before the flushing repair: the flush has taken the pooled candidate but not
   yet reported it when the nil callback reports the end *)
Lemma order_refuted_before_repair :
  let s := run false (init1 1 [1] 1) [TAgent; TFlush 0; TAgent; TAgent; TAgent; TFlush 0] in
  quiescent s = true /\ untagged (out s) = [None; Some 1] /\ nil_last (untagged (out s)) = false.
Proof. vm_compute. repeat split; reflexivity. Qed.
Lemma order_same_schedule_after_repair :
  let s := run true (init1 1 [1] 1) [TAgent; TFlush 0; TAgent; TAgent; TAgent; TFlush 0; TFlush 0] in
  quiescent s = true /\ untagged (out s) = [Some 1; None].
Proof. vm_compute. repeat split; reflexivity. Qed.

(* an ICE restart while the first cycle's candidates and its end marker are
   still pooled (pool size 1, before the first SetLocalDescription): both cycles
   complete, the flush reports one end marker for the two of them *)
Lemma pooled_restart_merges_ends :
  let s := run true (init 1 ([1], true) [([2], true)] 1)
             [TAgent; TAgent; TAgent; TRestart; TAgent; TAgent; TAgent; TFlush 0; TFlush 0; TFlush 0; TFlush 0] in
  quiescent s = true /\ untagged (out s) = [Some 1; Some 2; None] /\
  nil_count (view 0 (out s)) = 0 /\ nil_count (view 1 (out s)) = 1.
Proof. vm_compute. repeat split; reflexivity. Qed.
