(* C30: the walker models read only attributes whose key is in a fixed set, so
   the harness may leave all other attributes out of the Coq input (it does,
   to keep the Coq side affordable): model (filtered d) = model d. *)
From Coq Require Import List ZArith NArith String Ascii Bool Lia Arith.
Import ListNotations.
From Verif Require Import Common.V Common.Base Model.Walkers.
Open Scope string_scope.
Open Scope nat_scope.
Open Scope list_scope.

Definition relevant_keys : list string :=
  ["mid"; "recvonly"; "inactive"; "sendrecv"; "sendonly"; "ssrc"; "ssrc-group"; "msid"; "rid";
   "simulcast"; "fingerprint"; "ice-ufrag"; "ice-pwd"; "candidate"; "group"].
Definition relevant (k : string) : bool := existsb (String.eqb k) relevant_keys.

Definition filter_attrs (l : list attr) : list attr := filter (fun a => relevant (fst a)) l.
Definition filter_media (m : media) : media :=
  {| m_kind := m_kind m; m_formats := m_formats m; m_attrs := filter_attrs (m_attrs m) |}.
Definition filter_desc (d : desc) : desc :=
  {| d_attrs := filter_attrs (d_attrs d); d_media := map filter_media (d_media d) |}.

(* an irrelevant key differs from every key the models compare with *)
Ltac irrelevant H :=
  unfold relevant, relevant_keys in H; cbn [existsb] in H;
  repeat (apply orb_false_elim in H; let H1 := fresh "Hk" in destruct H as [H1 H]).

Lemma attr_get_filter k l : relevant k = true -> attr_get k (filter_attrs l) = attr_get k l.
Proof.
  intros Hk. induction l as [| [k' v] t IH]; cbn [filter_attrs filter attr_get fst]; [reflexivity |].
  destruct (relevant k') eqn:Er; cbn [attr_get].
  - fold (filter_attrs t). rewrite IH. reflexivity.
  - fold (filter_attrs t). destruct (String.eqb k' k) eqn:E.
    + apply String.eqb_eq in E. subst. congruence.
    + exact IH.
Qed.

Lemma has_key_filter k l : relevant k = true -> has_key k (filter_attrs l) = has_key k l.
Proof. intros Hk. unfold has_key. rewrite attr_get_filter by exact Hk. reflexivity. Qed.

Lemma get_mid_filter m : get_mid (filter_media m) = get_mid m.
Proof. unfold get_mid. cbn. rewrite attr_get_filter by reflexivity. reflexivity. Qed.

Lemma rids_scan_filter : forall l acc sim, rids_scan (filter_attrs l) acc sim = rids_scan l acc sim.
Proof.
  induction l as [| [k v] t IH]; intros acc sim; cbn [filter_attrs filter fst]; [reflexivity |].
  fold (filter_attrs t). destruct (relevant k) eqn:Er; cbn [rids_scan].
  - destruct (String.eqb k "rid"); [destruct (nth_error (split_on sp v) 0); [apply IH | reflexivity] |].
    destruct (String.eqb k "simulcast"); apply IH.
  - irrelevant Er. rewrite Hk7, Hk8. apply IH.
Qed.

Lemma get_rids_filter m : get_rids (filter_media m) = get_rids m.
Proof. unfold get_rids. cbn [filter_media m_attrs]. rewrite rids_scan_filter. reflexivity. Qed.

Lemma fold_attrs_filter mid kind : forall l st,
  fold_attrs mid kind st (filter_attrs l) = fold_attrs mid kind st l.
Proof.
  induction l as [| [k v] t IH]; intros st; cbn [filter_attrs filter fst]; [reflexivity |].
  fold (filter_attrs t). destruct (relevant k) eqn:Er; cbn [fold_attrs].
  - destruct (step_attr mid kind st (k, v)); cbn [rbind]; [apply IH | reflexivity | reflexivity].
  - irrelevant Er. unfold step_attr. rewrite Hk5, Hk6, Hk4. cbn [rbind]. apply IH.
Qed.

Lemma media_tracks_filter m : media_tracks (filter_media m) = media_tracks m.
Proof.
  unfold media_tracks. rewrite get_mid_filter, get_rids_filter. cbn [filter_media m_attrs m_kind].
  rewrite !has_key_filter by reflexivity. rewrite fold_attrs_filter. reflexivity.
Qed.

Theorem track_details_filter d : track_details (filter_desc d) = track_details d.
Proof.
  unfold track_details. cbn [filter_desc d_media].
  induction (d_media d) as [| m t IH]; cbn [map tracks_of_media]; [reflexivity |].
  rewrite media_tracks_filter, IH. reflexivity.
Qed.

Theorem extract_bundle_id_filter d : extract_bundle_id (filter_desc d) = extract_bundle_id d.
Proof.
  unfold extract_bundle_id. cbn [filter_desc d_attrs]. rewrite attr_get_filter by reflexivity. reflexivity.
Qed.

Lemma fp_bundled_filter b : forall l fp, fp_bundled b (map filter_media l) fp = fp_bundled b l fp.
Proof.
  induction l as [| m t IH]; intros fp; cbn [map fp_bundled]; [reflexivity |].
  cbn [filter_media m_attrs]. rewrite !attr_get_filter by reflexivity. apply IH.
Qed.

Lemma fp_first_filter : forall l fp, fp_first (map filter_media l) fp = fp_first l fp.
Proof.
  induction l as [| m t IH]; intros fp; cbn [map fp_first]; [reflexivity |].
  cbn [filter_media m_attrs]. rewrite !attr_get_filter by reflexivity. apply IH.
Qed.

Theorem extract_fingerprint_filter d : extract_fingerprint (filter_desc d) = extract_fingerprint d.
Proof.
  unfold extract_fingerprint. rewrite extract_bundle_id_filter. cbn [filter_desc d_attrs d_media].
  rewrite attr_get_filter by reflexivity.
  destruct (is_empty _); [| reflexivity].
  destruct (extract_bundle_id d); cbn [rbind]; try reflexivity.
  rewrite fp_bundled_filter, fp_first_filter. reflexivity.
Qed.

Lemma scan_candidates_filter c : forall l n bad,
  scan_candidates c (filter_attrs l) n bad = scan_candidates c l n bad.
Proof.
  induction l as [| [k v] t IH]; intros n bad; cbn [filter_attrs filter fst]; [reflexivity |].
  fold (filter_attrs t). destruct (relevant k) eqn:Er; cbn [scan_candidates].
  - destruct (String.eqb k "candidate"); [destruct (c v) |]; apply IH.
  - irrelevant Er. rewrite Hk12. apply IH.
Qed.

Lemma select_section_filter b : forall l,
  select_section b (map filter_media l) = option_map filter_media (select_section b l).
Proof.
  induction l as [| m t IH]; cbn [map select_section option_map]; [reflexivity |].
  rewrite get_mid_filter. destruct (negb (is_empty b)); [| reflexivity].
  destruct (String.eqb (get_mid m) b); [reflexivity | exact IH].
Qed.

Theorem extract_ice_details_filter c d :
  extract_ice_details c (filter_desc d) = extract_ice_details c d.
Proof.
  unfold extract_ice_details. rewrite extract_bundle_id_filter. cbn [filter_desc d_attrs d_media].
  rewrite !attr_get_filter by reflexivity.
  destruct (extract_bundle_id d) as [b | e |]; cbn [rbind]; try reflexivity.
  rewrite select_section_filter. destruct (select_section b (d_media d)) as [m |]; cbn [option_map]; [| reflexivity].
  cbn [filter_media m_attrs]. rewrite !attr_get_filter by reflexivity. rewrite scan_candidates_filter.
  reflexivity.
Qed.

Lemma peer_direction_filter : forall l, peer_direction (filter_attrs l) = peer_direction l.
Proof.
  induction l as [| [k v] t IH]; cbn [filter_attrs filter fst]; [reflexivity |].
  fold (filter_attrs t). destruct (relevant k) eqn:Er; cbn [peer_direction].
  - rewrite IH. reflexivity.
  - irrelevant Er. unfold dir_of_key. rewrite Hk2, Hk3, Hk0, Hk1. cbn. exact IH.
Qed.

Theorem possibly_planb_filter d : possibly_planb (filter_desc d) = possibly_planb d.
Proof.
  unfold possibly_planb. cbn [filter_desc d_media].
  induction (d_media d) as [| m t IH]; cbn [map existsb]; [reflexivity |].
  rewrite get_mid_filter, IH. reflexivity.
Qed.

Lemma undeclared_scan_filter : forall l s i hr hs,
  undeclared_scan (filter_attrs l) s i hr hs = undeclared_scan l s i hr hs.
Proof.
  induction l as [| [k v] t IH]; intros s i hr hs; cbn [filter_attrs filter fst]; [reflexivity |].
  fold (filter_attrs t). destruct (relevant k) eqn:Er; cbn [undeclared_scan].
  - destruct (String.eqb k "msid").
    + destruct (Nat.eqb _ 2); [| apply IH].
      destruct (nth_error (split_on sp v) 0); [| reflexivity].
      destruct (nth_error (split_on sp v) 1); [apply IH | reflexivity].
    + destruct (String.eqb k "ssrc"); [apply IH |]. destruct (String.eqb k "rid"); apply IH.
  - irrelevant Er. rewrite Hk6, Hk4, Hk7. apply IH.
Qed.

Theorem handle_undeclared_ssrc_filter add_ok m :
  handle_undeclared_ssrc add_ok (filter_media m) = handle_undeclared_ssrc add_ok m.
Proof.
  unfold handle_undeclared_ssrc. cbn [filter_media m_attrs m_kind].
  rewrite undeclared_scan_filter. reflexivity.
Qed.

Theorem start_rtp_receivers_filter handled add_ok sem d :
  start_rtp_receivers handled add_ok sem (filter_desc d) = start_rtp_receivers handled add_ok sem d.
Proof.
  unfold start_rtp_receivers, start_rtp_receivers_with.
  rewrite track_details_filter, possibly_planb_filter. reflexivity.
Qed.

Theorem models_ignore_other_attributes :
  forall (d : desc),
    track_details (filter_desc d) = track_details d /\
    extract_bundle_id (filter_desc d) = extract_bundle_id d /\
    extract_fingerprint (filter_desc d) = extract_fingerprint d /\
    (forall classify, extract_ice_details classify (filter_desc d) = extract_ice_details classify d) /\
    possibly_planb (filter_desc d) = possibly_planb d /\
    (forall handled add_ok sem,
       start_rtp_receivers handled add_ok sem (filter_desc d) = start_rtp_receivers handled add_ok sem d).
Proof.
  intros d. repeat split.
  - exact (track_details_filter d).
  - exact (extract_bundle_id_filter d).
  - exact (extract_fingerprint_filter d).
  - intros c. exact (extract_ice_details_filter c d).
  - exact (possibly_planb_filter d).
  - intros h a s. exact (start_rtp_receivers_filter h a s d).
Qed.

Theorem media_models_ignore_other_attributes :
  forall (m : media),
    get_rids (filter_media m) = get_rids m /\
    peer_direction (m_attrs (filter_media m)) = peer_direction (m_attrs m) /\
    (forall add_ok, handle_undeclared_ssrc add_ok (filter_media m) = handle_undeclared_ssrc add_ok m).
Proof.
  intros m. repeat split.
  - exact (get_rids_filter m).
  - exact (peer_direction_filter (m_attrs m)).
  - intros a. exact (handle_undeclared_ssrc_filter a m).
Qed.
