(* Lemmas for C12 over Model/OfferShape.v *)
From Coq Require Import List ZArith NArith String Ascii Bool Lia Permutation.
Import ListNotations.
From Verif Require Import Common.Base Common.NegoText Model.OfferShape Proofs.NegoText.
Open Scope string_scope.

(* ---------- vocabulary of the statements ---------- *)

(* order-preserving sub-list *)
Inductive subseq {A} : list A -> list A -> Prop :=
| subseq_nil : forall l, subseq [] l
| subseq_keep : forall x s l, subseq s l -> subseq (x :: s) (x :: l)
| subseq_skip : forall x s l, subseq s l -> subseq s (x :: l).

(* the m-section addTransceiverSDP writes for a transceiver *)
Definition sec_of_tcv (t : tcv) : sec := render_msec (MSMedia (t_mid t) t).

Definition is_app (s : sec) : bool := match sc_media s with MApp => true | _ => false end.
Definition media_secs (d : desc) : list sec := filter (fun s => negb (is_app s)) (d_secs d).
Definition app_secs (d : desc) : list sec := filter is_app (d_secs d).

(* a remote m-section generateMatchedSDP answers with a transceiver section *)
Definition usable (s : sec) : bool :=
  match sc_media s, kind_of_media (sc_media s), sc_dir s with
  | MApp, _, _ => false
  | _, Some _, Some _ => true
  | _, _, _ => false
  end.

Definition ms_tcvs (ms : list msec) : list tcv :=
  flat_map (fun m => match m with MSMedia _ t => [t] | MSData _ => [] end) ms.
Definition ms_ids (ms : list msec) : list string :=
  flat_map (fun m => match m with MSMedia id _ => [id] | MSData _ => [] end) ms.
Definition ms_data (ms : list msec) : list string :=
  flat_map (fun m => match m with MSData id => [id] | MSMedia _ _ => [] end) ms.
Definition ms_ok (ms : list msec) : Prop :=
  Forall (fun m => match m with MSMedia id t => t_mid t = id | MSData _ => True end) ms.

(* ---------- basic list facts ---------- *)

Lemma subseq_refl {A} (l : list A) : subseq l l.
Proof. induction l; constructor; auto. Qed.

Lemma subseq_app_skip {A} (l1 l2 : list A) (x : A) : subseq (l1 ++ l2) (l1 ++ x :: l2).
Proof. induction l1; cbn. - apply subseq_skip, subseq_refl. - now constructor. Qed.

Lemma subseq_trans {A} (a b c : list A) : subseq a b -> subseq b c -> subseq a c.
Proof.
  intros Hab Hbc. revert a Hab. induction Hbc; intros a Hab.
  - inversion Hab; subst. constructor.
  - inversion Hab; subst.
    + constructor.
    + constructor. auto.
    + apply subseq_skip. auto.
  - apply subseq_skip. auto.
Qed.

Lemma subseq_map {A B} (f : A -> B) (a b : list A) : subseq a b -> subseq (map f a) (map f b).
Proof. induction 1; cbn; constructor; auto. Qed.

Lemma ms_tcvs_app a b : ms_tcvs (a ++ b) = (ms_tcvs a ++ ms_tcvs b)%list.
Proof. unfold ms_tcvs. now rewrite flat_map_app. Qed.
Lemma ms_ids_app a b : ms_ids (a ++ b) = (ms_ids a ++ ms_ids b)%list.
Proof. unfold ms_ids. now rewrite flat_map_app. Qed.
Lemma ms_data_app a b : ms_data (a ++ b) = (ms_data a ++ ms_data b)%list.
Proof. unfold ms_data. now rewrite flat_map_app. Qed.
Lemma ms_ok_app a b : ms_ok (a ++ b) <-> ms_ok a /\ ms_ok b.
Proof. unfold ms_ok. apply Forall_app. Qed.

(* ---------- findByMid ---------- *)

Lemma find_by_mid_split : forall m l x r,
  find_by_mid m l = Some (x, r) ->
  t_mid (snd x) = m /\ exists l1 l2, l = (l1 ++ x :: l2)%list /\ r = (l1 ++ l2)%list.
Proof.
  intros m l. induction l as [|y l IH]; intros x r H; cbn in H.
  - discriminate.
  - destruct (String.eqb (t_mid (snd y)) m) eqn:E.
    + inversion H; subst. apply String.eqb_eq in E. split; auto.
      exists [], r. auto.
    + destruct (find_by_mid m l) as [[z r']|] eqn:F; try discriminate.
      inversion H; subst. destruct (IH _ _ eq_refl) as [Hm [l1 [l2 [-> ->]]]].
      split; auto. exists (y :: l1), l2. auto.
Qed.

(* ---------- the loop of generateMatchedSDP ---------- *)

Lemma matched_loop_spec : forall remote locals acc ha acc' locals' ha',
  matched_loop remote locals acc ha = Ok (acc', locals', ha') ->
  exists picked,
    acc' = (acc ++ picked)%list
    /\ ms_ok picked
    /\ Permutation (map snd locals) (ms_tcvs picked ++ map snd locals')
    /\ subseq locals' locals
    /\ ms_ids picked = map mid_value (filter usable remote)
    /\ ms_data picked = map mid_value (filter is_app remote)
    /\ ha' = ha || existsb is_app remote.
Proof.
  induction remote as [|m rest IH]; intros locals acc ha acc' locals' ha' H; cbn in H.
  - inversion H; subst. exists []. rewrite app_nil_r. cbn.
    repeat split; auto using subseq_refl. constructor. now rewrite orb_false_r.
  - destruct (String.eqb (mid_value m) "") eqn:Emid; try discriminate.
    unfold usable, is_app. cbn [filter existsb].
    destruct (sc_media m) eqn:Emedia; cbn [kind_of_media] in *.
    + (* audio *)
      destruct (sc_dir m) eqn:Edir.
      * destruct (find_by_mid (mid_value m) locals) as [[[i t] locals1]|] eqn:F; try discriminate.
        apply IH in H. destruct H as [picked [-> [Hok [Hperm [Hsub [Hids [Hdata ->]]]]]]].
        apply find_by_mid_split in F. destruct F as [Hm [l1 [l2 [-> ->]]]]. cbn in Hm.
        exists (MSMedia (mid_value m) t :: picked). rewrite <- app_assoc. cbn.
        repeat split; auto.
        -- constructor; auto.
        -- rewrite !map_app in *. cbn in *.
           apply Permutation_sym, Permutation_cons_app, Permutation_sym. exact Hperm.
        -- eapply subseq_trans; [exact Hsub|]. apply subseq_app_skip.
        -- unfold ms_ids in *. cbn. f_equal. exact Hids.
      * apply IH in H. destruct H as [picked [-> [Hok [Hperm [Hsub [Hids [Hdata ->]]]]]]].
        exists picked. repeat split; auto.
    + (* video *)
      destruct (sc_dir m) eqn:Edir.
      * destruct (find_by_mid (mid_value m) locals) as [[[i t] locals1]|] eqn:F; try discriminate.
        apply IH in H. destruct H as [picked [-> [Hok [Hperm [Hsub [Hids [Hdata ->]]]]]]].
        apply find_by_mid_split in F. destruct F as [Hm [l1 [l2 [-> ->]]]]. cbn in Hm.
        exists (MSMedia (mid_value m) t :: picked). rewrite <- app_assoc. cbn.
        repeat split; auto.
        -- constructor; auto.
        -- rewrite !map_app in *. cbn in *.
           apply Permutation_sym, Permutation_cons_app, Permutation_sym. exact Hperm.
        -- eapply subseq_trans; [exact Hsub|]. apply subseq_app_skip.
        -- unfold ms_ids in *. cbn. f_equal. exact Hids.
      * apply IH in H. destruct H as [picked [-> [Hok [Hperm [Hsub [Hids [Hdata ->]]]]]]].
        exists picked. repeat split; auto.
    + (* application *)
      apply IH in H. destruct H as [picked [-> [Hok [Hperm [Hsub [Hids [Hdata ->]]]]]]].
      exists (MSData (mid_value m) :: picked). rewrite <- app_assoc. cbn.
      repeat split; auto.
      * constructor; auto.
      * unfold ms_data in *. cbn. f_equal. exact Hdata.
      * now rewrite orb_true_r.
    + (* other media: skipped *)
      apply IH in H. destruct H as [picked [-> [Hok [Hperm [Hsub [Hids [Hdata ->]]]]]]].
      exists picked. repeat split; auto.
Qed.

(* ---------- mid numbering ---------- *)

(* a transceiver after CreateOffer: everything but an empty mid is as before *)
Definition same_but_mid (t t' : tcv) : Prop :=
  t_kind t' = t_kind t /\ t_dir t' = t_dir t /\ t_cur t' = t_cur t /\ t_curremote t' = t_curremote t
  /\ (t_mid t <> "" -> t_mid t' = t_mid t).

Lemma assign_mids_spec : forall l g g' l',
  assign_mids g l = (g', l') ->
  Forall2 (fun t t' => same_but_mid t t' /\ t_sender t' = t_sender t) l l'
  /\ Forall (fun t => t_mid t <> "") l'.
Proof.
  induction l as [|t r IH]; intros g g' l' H; cbn in H.
  - inversion H; subst. split; constructor.
  - destruct (String.eqb (t_mid t) "") eqn:E.
    + destruct (assign_mids (g + 1) r) as [g2 r'] eqn:A. inversion H; subst.
      destruct (IH _ _ _ A) as [H1 H2]. split; constructor; auto.
      * unfold same_but_mid. cbn. apply String.eqb_eq in E. repeat split; auto. congruence.
      * cbn. apply itoaZ_nonempty.
    + destruct (assign_mids _ r) as [g2 r'] eqn:A. inversion H; subst.
      destruct (IH _ _ _ A) as [H1 H2]. split; constructor; auto.
      * unfold same_but_mid. repeat split; auto.
      * apply String.eqb_neq in E. exact E.
Qed.

(* ---------- rendering ---------- *)

Lemma sec_of_tcv_negotiated : forall t, sec_of_tcv (mark_negotiated t) = sec_of_tcv t.
Proof.
  intro t. unfold sec_of_tcv, mark_negotiated, render_msec. cbn.
  destruct (t_sender t) as [s|]; cbn; auto.
Qed.

Lemma media_of_render : forall ms, ms_ok ms ->
  filter (fun s => negb (is_app s)) (map render_msec ms) = map sec_of_tcv (ms_tcvs ms).
Proof.
  induction ms as [|m ms IH]; intro H; cbn; auto.
  inversion H; subst. destruct m as [id|id t]; cbn.
  - auto.
  - unfold is_app at 1. cbn. destruct (t_kind t); cbn; rewrite IH; auto;
      unfold sec_of_tcv; now rewrite H2.
Qed.

Lemma app_of_render : forall ms,
  map mid_value (filter is_app (map render_msec ms)) = ms_data ms.
Proof.
  induction ms as [|m ms IH]; cbn; auto.
  destruct m as [id|id t]; cbn.
  - unfold ms_data in *. cbn. now rewrite IH.
  - unfold is_app at 1. cbn. destruct (t_kind t); cbn; exact IH.
Qed.

Lemma ms_tcvs_media : forall (l : list tcv),
  ms_tcvs (map (fun t => MSMedia (t_mid t) t) l) = l.
Proof. induction l; cbn; auto. unfold ms_tcvs in *. cbn. now rewrite IHl. Qed.
Lemma ms_data_media : forall (l : list tcv),
  ms_data (map (fun t => MSMedia (t_mid t) t) l) = [].
Proof. induction l; cbn; auto. Qed.
Lemma ms_ok_media : forall (l : list tcv), ms_ok (map (fun t => MSMedia (t_mid t) t) l).
Proof. induction l; cbn; constructor; auto. Qed.
Lemma ms_ids_media : forall (l : list tcv),
  ms_ids (map (fun t => MSMedia (t_mid t) t) l) = map t_mid l.
Proof. induction l; cbn; auto. unfold ms_ids in *. cbn. now rewrite IHl. Qed.

Lemma indexed_snd {A} : forall (l : list A) n, map snd (index_from n l) = l.
Proof. induction l; cbn; intros; auto. now rewrite IHl. Qed.

(* the shape of every section list CreateOffer can build *)
Definition offer_shape (p : pc) (l : list tcv) (ms : list msec) : Prop :=
  exists matched unmatched,
    ms_ok ms
    /\ ms_tcvs ms = (matched ++ unmatched)%list
    /\ Permutation (matched ++ unmatched) l
    /\ subseq unmatched l
    /\ (p_cur_remote p = None -> matched = [])
    /\ (forall r, p_cur_remote p <> None -> remote_for_matching p = Some r ->
          map t_mid matched = map mid_value (filter usable (d_secs r)))
    /\ (ms_data ms <> [] <->
          want_data p = true
          \/ (p_cur_remote p <> None /\
              exists r, remote_for_matching p = Some r /\ existsb is_app (d_secs r) = true)).

Lemma ms_ok_mids : forall ms, ms_ok ms -> map t_mid (ms_tcvs ms) = ms_ids ms.
Proof.
  induction ms as [|m q IH]; intro H; cbn; auto. inversion H; subst.
  destruct m; cbn; auto. unfold ms_tcvs, ms_ids in *. cbn. rewrite IH; auto. now rewrite H2.
Qed.

Lemma subseq_map_snd_indexed {A} : forall (s : list (nat * A)) (l : list A) n,
  subseq s (index_from n l) -> subseq (map snd s) l.
Proof.
  intros s l n H. apply (subseq_map snd) in H. now rewrite indexed_snd in H.
Qed.

Lemma unmatched_shape : forall p l,
  p_cur_remote p = None -> offer_shape p l (unmatched_sections p l).
Proof.
  intros p l Hn. exists [], l. unfold unmatched_sections.
  split. { apply ms_ok_app. split; [apply ms_ok_media|]. destruct (want_data p); repeat constructor. }
  split. { rewrite ms_tcvs_app, ms_tcvs_media. destruct (want_data p); cbn; now rewrite app_nil_r. }
  split. { cbn. apply Permutation_refl. }
  split. { apply subseq_refl. }
  split. { auto. }
  split. { intros r Hc. congruence. }
  rewrite ms_data_app, ms_data_media. split.
  - destruct (want_data p); cbn; intro H; auto; try congruence.
  - intros [H|[H _]]; [|congruence]. rewrite H. cbn. discriminate.
Qed.

Lemma matched_shape : forall p r l ms rest,
  p_cur_remote p <> None -> remote_for_matching p = Some r ->
  matched_sections p (d_secs r) l true = Ok (ms, rest) -> offer_shape p l ms.
Proof.
  intros p r l ms rest Hc Hr H. unfold matched_sections in H.
  destruct (matched_loop (d_secs r) (indexed l) [] false) as [[[acc locals] ha]|e|] eqn:L; try discriminate.
  apply matched_loop_spec in L. destruct L as [picked [-> [Hok [Hperm [Hsub [Hids [Hdata ->]]]]]]].
  cbn [app orb] in *. inversion H; subst ms rest. clear H.
  unfold indexed in *. rewrite indexed_snd in Hperm.
  exists (ms_tcvs picked), (map snd locals).
  assert (Hmap : map (fun x : nat * tcv => MSMedia (t_mid (snd x)) (snd x)) locals
                 = map (fun t => MSMedia (t_mid t) t) (map snd locals)) by now rewrite map_map.
  rewrite Hmap.
  split. { rewrite !ms_ok_app. repeat split; auto using ms_ok_media.
    destruct (want_data p && negb (existsb is_app (d_secs r))); repeat constructor. }
  split. { rewrite !ms_tcvs_app, ms_tcvs_media.
    destruct (want_data p && negb (existsb is_app (d_secs r))); cbn; now rewrite app_nil_r. }
  split. { apply Permutation_sym. exact Hperm. }
  split. { eapply subseq_map_snd_indexed. exact Hsub. }
  split. { congruence. }
  split. { intros r' _ Hr'. rewrite Hr in Hr'. inversion Hr'; subst r'.
    rewrite <- Hids. now apply ms_ok_mids. }
  assert (Hex : forall x q, filter is_app (d_secs r) = x :: q -> existsb is_app (d_secs r) = true).
  { intros x q F. apply existsb_exists. exists x.
    assert (Hi : In x (filter is_app (d_secs r))) by (rewrite F; now left).
    apply filter_In in Hi. exact Hi. }
  assert (Hex2 : existsb is_app (d_secs r) = true -> filter is_app (d_secs r) <> []).
  { intro Ex. apply existsb_exists in Ex. destruct Ex as [x [Hin Hx]].
    assert (Hi : In x (filter is_app (d_secs r))) by (apply filter_In; auto).
    destruct (filter is_app (d_secs r)); [contradiction|]. discriminate. }
  rewrite !ms_data_app, ms_data_media, Hdata, app_nil_r. split.
  - intro Hne. destruct (want_data p) eqn:W; auto. right. split; auto. exists r. split; auto.
    cbn in Hne. rewrite app_nil_r in Hne.
    destruct (filter is_app (d_secs r)) as [|x q] eqn:F; [cbn in Hne; congruence|].
    eapply Hex; eauto.
  - intros [W|[_ [r' [Hr' Hx]]]].
    + rewrite W. cbn. destruct (existsb is_app (d_secs r)) eqn:Ex; cbn.
      * rewrite app_nil_r. specialize (Hex2 eq_refl).
        destruct (filter is_app (d_secs r)); [congruence|]. cbn. discriminate.
      * intro Hc2. apply app_eq_nil in Hc2. destruct Hc2. discriminate.
    + rewrite Hr in Hr'. inversion Hr'; subst r'. specialize (Hex2 Hx).
      destruct (filter is_app (d_secs r)); [congruence|]. cbn. discriminate.
Qed.

(* ---------- CreateOffer ---------- *)

Definition ok_desc (d : desc) : outcome := {| o_status := "ok"; o_desc := Some d |}.

Lemma create_offer_ok : forall p p' d fx,
  create_offer p = (p', ok_desc d, fx) ->
  exists l ms,
    Forall2 (fun t t' => same_but_mid t t' /\ t_sender t' = t_sender t) (p_tcvs p) l
    /\ Forall (fun t => t_mid t <> "") l
    /\ p_tcvs p' = map mark_negotiated l
    /\ offer_shape p l ms
    /\ d = {| d_type := TOffer; d_secs := map render_msec ms |}
    /\ local_changed l (map render_msec ms) = false
    /\ p_last_offer p' = Some d.
Proof.
  intros p p' d fx H. unfold create_offer, ok_desc in H.
  destruct (p_closed p); [inversion H|].
  destruct (assign_mids _ (p_tcvs p)) as [g l] eqn:A.
  apply assign_mids_spec in A. destruct A as [A1 A2].
  destruct (p_cur_remote p) as [cr|] eqn:Ecr.
  - unfold remote_for_matching in *.
    destruct (match p_pend_remote p with Some d0 => Some d0 | None => p_cur_remote p end) as [r|] eqn:Er.
    2:{ rewrite Ecr in Er. destruct (p_pend_remote p); discriminate. }
    assert (Hr : remote_for_matching p = Some r) by (unfold remote_for_matching; exact Er).
    rewrite Ecr in Er.
    destruct (matched_sections p (d_secs r) l true) as [[ms rest]|e|] eqn:M.
    + destruct (local_changed l (map render_msec ms)) eqn:LC; inversion H; subst.
      exists l, ms. repeat split; auto.
      eapply matched_shape; eauto. congruence.
    + inversion H.
    + inversion H.
  - destruct (local_changed l (map render_msec (unmatched_sections p l))) eqn:LC; inversion H; subst.
    exists l, (unmatched_sections p l). repeat split; auto.
    apply unmatched_shape; auto.
Qed.

Lemma mark_negotiated_fields : forall t,
  t_mid (mark_negotiated t) = t_mid t /\ t_kind (mark_negotiated t) = t_kind t
  /\ t_dir (mark_negotiated t) = t_dir t /\ t_cur (mark_negotiated t) = t_cur t
  /\ t_curremote (mark_negotiated t) = t_curremote t.
Proof. intro t. unfold mark_negotiated. cbn. auto. Qed.

Lemma sec_of_tcv_fields : forall t,
  sc_mid (sec_of_tcv t) = Some (t_mid t)
  /\ sc_media (sec_of_tcv t) = mkind_of (t_kind t)
  /\ sc_dir (sec_of_tcv t) = Some (t_dir t)
  /\ sc_attrs (sec_of_tcv t) = sender_attrs (t_sender t).
Proof. intro t. cbn. auto. Qed.

Lemma sections_of_offer : forall p p' d fx,
  create_offer p = (p', ok_desc d, fx) ->
  exists matched unmatched,
    media_secs d = map sec_of_tcv (matched ++ unmatched)
    /\ Permutation (matched ++ unmatched) (p_tcvs p')
    /\ subseq unmatched (p_tcvs p')
    /\ (p_cur_remote p = None -> matched = [])
    /\ (forall r, p_cur_remote p <> None -> remote_for_matching p = Some r ->
          map t_mid matched = map mid_value (filter usable (d_secs r)))
    /\ Forall2 same_but_mid (p_tcvs p) (p_tcvs p')
    /\ Forall (fun t => t_mid t <> "") (p_tcvs p').
Proof.
  intros p p' d fx H. apply create_offer_ok in H.
  destruct H as [l [ms [F2 [Fne [Hp' [Hshape [Hd [_ _]]]]]]]].
  destruct Hshape as [matched [unmatched [Hok [Htc [Hperm [Hsub [Hnone [Hmids _]]]]]]]].
  exists (map mark_negotiated matched), (map mark_negotiated unmatched).
  rewrite Hp', <- map_app.
  split. { subst d. unfold media_secs. cbn. rewrite media_of_render by auto. rewrite Htc.
           rewrite map_map. apply map_ext. intro t. now rewrite sec_of_tcv_negotiated. }
  split. { now apply Permutation_map. }
  split. { now apply subseq_map. }
  split. { intro Hn. rewrite (Hnone Hn). reflexivity. }
  split. { intros r Hc Hr. rewrite map_map. rewrite <- (Hmids r Hc Hr). apply map_ext.
           intro t. apply mark_negotiated_fields. }
  split.
  - clear - F2. induction F2; cbn; constructor; auto.
    destruct H as [[Hk [Hd [Hc [Hcr Hm]]]] _].
    destruct (mark_negotiated_fields y) as [M1 [M2 [M3 [M4 M5]]]].
    unfold same_but_mid. rewrite M1, M2, M3, M4, M5. auto.
  - clear - Fne. induction Fne; cbn; constructor; auto.
Qed.

Lemma existsb_app_render : forall ms,
  existsb is_app (map render_msec ms) = true <-> ms_data ms <> [].
Proof.
  intro ms. rewrite <- app_of_render. split.
  - intro Ex. apply existsb_exists in Ex. destruct Ex as [x [Hin Hx]].
    assert (Hi : In x (filter is_app (map render_msec ms))) by (apply filter_In; auto).
    destruct (filter is_app (map render_msec ms)); [contradiction|]. cbn. discriminate.
  - intro Hne. destruct (filter is_app (map render_msec ms)) as [|x q] eqn:F; [cbn in Hne; congruence|].
    apply existsb_exists. exists x.
    assert (Hi : In x (filter is_app (map render_msec ms))) by (rewrite F; now left).
    apply filter_In in Hi. exact Hi.
Qed.

Lemma app_iff_of_offer : forall p p' d fx,
  create_offer p = (p', ok_desc d, fx) ->
  (existsb is_app (d_secs d) = true <->
     want_data p = true
     \/ (p_cur_remote p <> None /\
         exists r, remote_for_matching p = Some r /\ existsb is_app (d_secs r) = true)).
Proof.
  intros p p' d fx H. apply create_offer_ok in H.
  destruct H as [l [ms [_ [_ [_ [Hshape [Hd _]]]]]]].
  destruct Hshape as [matched [unmatched [_ [_ [_ [_ [_ [_ Hdata]]]]]]]].
  subst d. cbn [d_secs]. rewrite existsb_app_render. exact Hdata.
Qed.

(* the property's two-way reading (a data channel was created or
   AlwaysNegotiateDataChannels) fails in the direction "only if": a remote
   description that carries an application section is mirrored *)
Definition app_literal_witness : pc :=
  let r := {| d_type := TOffer; d_secs := [ {| sc_mid := Some "0"; sc_media := MApp;
                                                sc_dir := Some Sendrecv; sc_attrs := [] |} ] |} in
  {| p_closed := false; p_sig := Stable; p_tcvs := []; p_greater_mid := 0%Z; p_dcs := 0%N;
     p_always_dc := false; p_cur_local := Some {| d_type := TAnswer; d_secs := d_secs r |};
     p_pend_local := None; p_cur_remote := Some r; p_pend_remote := None;
     p_last_offer := None; p_last_answer := None |}.

Lemma app_literal_refuted :
  exists p p' d fx,
    create_offer p = (p', ok_desc d, fx)
    /\ want_data p = false /\ existsb is_app (d_secs d) = true.
Proof.
  exists app_literal_witness.
  destruct (create_offer app_literal_witness) as [[p' o] fx] eqn:E.
  vm_compute in E. inversion E; subst.
  eexists _, _, _. split; [reflexivity|]. split; reflexivity.
Qed.

(* ---------- what addSenderSDP emits ---------- *)

Definition attrs_with (key : string) (l : list (string * string)) : list string :=
  map snd (filter (fun a => String.eqb (fst a) key) l).

Lemma attrs_with_app : forall k a b, attrs_with k (a ++ b) = (attrs_with k a ++ attrs_with k b)%list.
Proof. intros. unfold attrs_with. now rewrite filter_app, map_app. Qed.

Lemma attrs_with_flat_map {A} : forall k (f : A -> list (string * string)) l,
  attrs_with k (flat_map f l) = flat_map (fun x => attrs_with k (f x)) l.
Proof. induction l; cbn [flat_map]; auto. now rewrite attrs_with_app, IHl. Qed.

(* the four a=ssrc lines of one source *)
Definition source_lines (ssrc : N) (stream track : string) : list string :=
  [ itoaN ssrc ++ " cname:" ++ stream;
    itoaN ssrc ++ " msid:" ++ stream ++ " " ++ track;
    itoaN ssrc ++ " mslabel:" ++ stream;
    itoaN ssrc ++ " label:" ++ track ].

(* the specification of one encoding's lines, by attribute key *)
Definition spec_groups (e : enc) : list string :=
  (if N.eqb (e_rtx e) 0 then [] else ["FID " ++ itoaN (e_ssrc e) ++ " " ++ itoaN (e_rtx e)])
  ++ (if N.eqb (e_fec e) 0 then [] else ["FEC-FR " ++ itoaN (e_ssrc e) ++ " " ++ itoaN (e_fec e)]).
Definition spec_sources (stream track : string) (e : enc) : list string :=
  source_lines (e_ssrc e) stream track
  ++ (if N.eqb (e_rtx e) 0 then [] else source_lines (e_rtx e) stream track)
  ++ (if N.eqb (e_fec e) 0 then [] else source_lines (e_fec e) stream track).

Lemma enc_attrs_by_key : forall stream track e,
  attrs_with "ssrc-group" (enc_attrs stream track e) = spec_groups e
  /\ attrs_with "ssrc" (enc_attrs stream track e) = spec_sources stream track e
  /\ attrs_with "msid" (enc_attrs stream track e) = [stream ++ " " ++ track]
  /\ attrs_with "rid" (enc_attrs stream track e) = []
  /\ attrs_with "simulcast" (enc_attrs stream track e) = []
  /\ Forall (fun a => In (fst a) ["ssrc-group"; "ssrc"; "msid"]) (enc_attrs stream track e).
Proof.
  intros. unfold enc_attrs, spec_groups, spec_sources, source_lines, media_source.
  destruct (N.eqb (e_rtx e) 0); destruct (N.eqb (e_fec e) 0); cbn;
    (split; [reflexivity|]; split; [reflexivity|]; split; [reflexivity|];
     split; [reflexivity|]; split; [reflexivity|];
     repeat (apply Forall_cons; [cbn; auto 6|]); apply Forall_nil).
Qed.

Lemma attrs_with_rid_lines : forall encs,
  attrs_with "rid" (map (fun e => ("rid", enc_rid e ++ " send")) encs)
  = map (fun e => enc_rid e ++ " send") encs.
Proof. induction encs; cbn; auto. unfold attrs_with in *. cbn. now rewrite IHencs. Qed.

Lemma attrs_with_other_rid_lines : forall k encs, String.eqb "rid" k = false ->
  attrs_with k (map (fun e => ("rid", enc_rid e ++ " send")) encs) = [].
Proof.
  intros k encs H. induction encs; [reflexivity|].
  unfold attrs_with in *. cbn [map filter fst snd] in *. rewrite H. exact IHencs.
Qed.

Lemma flat_map_nil {A B} : forall (l : list A), flat_map (fun _ => @nil B) l = [].
Proof. induction l; cbn; auto. Qed.

Lemma flat_map_single {A B} : forall (f : A -> B) (l : list A), flat_map (fun x => [f x]) l = map f l.
Proof. induction l; cbn; auto. Qed.

(* the emission rules, for a sender that has a track *)
Lemma sender_attrs_spec : forall sn tr,
  sender_track sn = Some tr ->
  let a := sender_attrs (Some sn) in
  let encs := sn_encs sn in
  attrs_with "msid" a = map (fun _ => k_stream tr ++ " " ++ k_id tr) encs
  /\ attrs_with "ssrc" a = flat_map (spec_sources (k_stream tr) (k_id tr)) encs
  /\ attrs_with "ssrc-group" a = flat_map spec_groups encs
  /\ attrs_with "rid" a = (if Nat.ltb 1 (List.length encs) then map (fun e => enc_rid e ++ " send") encs else [])
  /\ attrs_with "simulcast" a =
       (if Nat.ltb 1 (List.length encs) then ["send " ++ join_with ";" (map enc_rid encs)] else [])
  /\ Forall (fun x => In (fst x) ["ssrc-group"; "ssrc"; "msid"; "rid"; "simulcast"]) a.
Proof.
  intros sn tr Ht a encs. subst a encs. unfold sender_attrs. rewrite Ht. cbv beta iota.
  set (encs := sn_encs sn). set (st := k_stream tr). set (id := k_id tr).
  rewrite !attrs_with_app, !attrs_with_flat_map.
  assert (K : forall k, attrs_with k
               (if Nat.ltb 1 (List.length encs)
                then app (map (fun e => ("rid", enc_rid e ++ " send")) encs)
                         [("simulcast", "send " ++ join_with ";" (map enc_rid encs))] else [])
             = if Nat.ltb 1 (List.length encs)
               then app (attrs_with k (map (fun e => ("rid", enc_rid e ++ " send")) encs))
                        (attrs_with k [("simulcast", "send " ++ join_with ";" (map enc_rid encs))])
               else []).
  { intro k. destruct (Nat.ltb 1 (List.length encs)); auto. now rewrite attrs_with_app. }
  rewrite !K.
  split. { rewrite (flat_map_ext _ (fun _ => [st ++ " " ++ id])) by (intro e; apply (enc_attrs_by_key st id e)).
           rewrite flat_map_single. rewrite attrs_with_other_rid_lines by reflexivity.
           destruct (Nat.ltb 1 (List.length encs)); cbn; now rewrite app_nil_r. }
  split. { rewrite (flat_map_ext _ (spec_sources st id)) by (intro e; apply (enc_attrs_by_key st id e)).
           rewrite attrs_with_other_rid_lines by reflexivity.
           destruct (Nat.ltb 1 (List.length encs)); cbn; now rewrite app_nil_r. }
  split. { rewrite (flat_map_ext _ spec_groups) by (intro e; apply (enc_attrs_by_key st id e)).
           rewrite attrs_with_other_rid_lines by reflexivity.
           destruct (Nat.ltb 1 (List.length encs)); cbn; now rewrite app_nil_r. }
  split. { rewrite (flat_map_ext _ (fun _ => [])) by (intro e; apply (enc_attrs_by_key st id e)).
           rewrite flat_map_nil, attrs_with_rid_lines.
           destruct (Nat.ltb 1 (List.length encs)); cbn; auto. now rewrite app_nil_r. }
  split. { rewrite (flat_map_ext _ (fun _ => [])) by (intro e; apply (enc_attrs_by_key st id e)).
           rewrite flat_map_nil, attrs_with_other_rid_lines by reflexivity.
           destruct (Nat.ltb 1 (List.length encs)); cbn; auto. }
  apply Forall_app. split.
  - apply Forall_flat_map. apply Forall_forall. intros e _.
    eapply Forall_impl; [|apply (enc_attrs_by_key st id e)].
    cbn. intros x [H|[H|[H|[]]]]; rewrite <- H; auto 6.
  - destruct (Nat.ltb 1 (List.length encs)); [|constructor].
    apply Forall_app. split.
    + apply Forall_forall. intros x Hx. apply in_map_iff in Hx. destruct Hx as [e [<- _]]. cbn. auto 6.
    + apply Forall_cons; [cbn; auto 6|apply Forall_nil].
Qed.

Lemma sender_attrs_none : forall s,
  (s = None \/ exists sn, s = Some sn /\ sender_track sn = None) -> sender_attrs s = [].
Proof. intros s [->|[sn [-> H]]]; cbn; auto. now rewrite H. Qed.

(* ---------- sections identified by mid ---------- *)

Definition has_mid (m : string) (s : sec) : bool :=
  match sc_mid s with Some x => String.eqb x m | None => false end.

Lemma filter_unique_key : forall (l : list tcv) t,
  NoDup (map t_mid l) -> In t l ->
  filter (has_mid (t_mid t)) (map sec_of_tcv l) = [sec_of_tcv t].
Proof.
  induction l as [|x l IH]; intros t Hnd Hin; [contradiction|].
  cbn [map] in *. inversion Hnd as [|? ? Hni Hnd']; subst.
  cbn [filter]. unfold has_mid at 1. cbn [sec_of_tcv render_msec sc_mid].
  destruct Hin as [->|Hin].
  - rewrite String.eqb_refl. f_equal.
    clear IH Hnd Hnd'. induction l as [|y l IHl]; cbn; auto.
    unfold has_mid at 1. cbn [sc_mid].
    destruct (String.eqb (t_mid y) (t_mid t)) eqn:E.
    + apply String.eqb_eq in E. exfalso. apply Hni. cbn. now left.
    + apply IHl. intro Hc. apply Hni. cbn. now right.
  - destruct (String.eqb (t_mid x) (t_mid t)) eqn:E.
    + apply String.eqb_eq in E. exfalso. apply Hni. rewrite E. now apply in_map.
    + now apply IH.
Qed.

Lemma one_section_per_mid : forall p p' d fx,
  create_offer p = (p', ok_desc d, fx) ->
  NoDup (map t_mid (p_tcvs p')) ->
  forall t, In t (p_tcvs p') ->
    filter (has_mid (t_mid t)) (media_secs d) = [sec_of_tcv t].
Proof.
  intros p p' d fx H Hnd t Hin. apply sections_of_offer in H.
  destruct H as [m [u [Hsecs [Hperm _]]]]. rewrite Hsecs.
  apply filter_unique_key.
  - eapply Permutation_NoDup; [|exact Hnd]. apply Permutation_map, Permutation_sym, Hperm.
  - eapply Permutation_in; [apply Permutation_sym, Hperm|exact Hin].
Qed.

(* Before the repair of CreateOffer's numbering loop (fix commit recorded under
   C06: the loop looked at the current remote description and at transceivers
   earlier in the list only) this history left two transceivers with mid "0": a
   pending remote offer gives mid "0" to a later transceiver, then CreateOffer
   numbers the earlier, unnumbered one.  The loop now first raises greaterMid over
   the current and the pending remote description and over every transceiver: the
   unnumbered transceiver receives "1". *)
Definition dup_mid_history : list op :=
  [OAddTcvKind Audio (Some Recvonly) {| i_trk := {| k_id := ""; k_stream := ""; k_rid := "" |};
                                         i_ssrc := 0; i_rtx := 0; i_fec := 0 |};
   OSetRemote TOffer [{| sc_mid := Some "0"; sc_media := MVideo; sc_dir := Some Sendrecv; sc_attrs := [] |}]
              {| rtx_audio := false; rtx_video := false; fec_audio := false; fec_video := false |}].

Lemma dup_mid_repaired :
  exists p' d fx,
    create_offer (run_ops (pc_init false) dup_mid_history) = (p', ok_desc d, fx)
    /\ map t_mid (p_tcvs p') = ["1"; "0"].
Proof.
  destruct (create_offer (run_ops (pc_init false) dup_mid_history)) as [[p' o] fx] eqn:E.
  vm_compute in E. inversion E; subst. eexists _, _, _. split; reflexivity.
Qed.

(* CreateOffer's error path keeps the setNegotiated marks made before the
   failing remote section: two recvonly transceivers are negotiated, the remote
   answer names mid "9" instead of "1"; AddTrack puts a new (not negotiated)
   sender on the first transceiver; CreateOffer fails at section "9" -- after
   having matched section "0" -- and that sender is negotiated afterwards *)
Definition failed_offer_history : list op :=
  let none := {| i_trk := {| k_id := ""; k_stream := ""; k_rid := "" |}; i_ssrc := 0; i_rtx := 0; i_fec := 0 |} in
  let e := {| rtx_audio := false; rtx_video := false; fec_audio := false; fec_video := false |} in
  [OAddTcvKind Video (Some Recvonly) none; OAddTcvKind Audio (Some Recvonly) none;
   OCreateOffer; OSetLocal TOffer;
   OSetRemote TAnswer [{| sc_mid := Some "0"; sc_media := MVideo; sc_dir := Some Sendonly; sc_attrs := [] |};
                       {| sc_mid := Some "9"; sc_media := MAudio; sc_dir := Some Sendonly; sc_attrs := [] |}] e;
   OAddTrack Video {| i_trk := {| k_id := "ta"; k_stream := "s1"; k_rid := "q" |}; i_ssrc := 5; i_rtx := 0; i_fec := 0 |}].

Definition negotiated_flags (p : pc) : list (option bool) :=
  map (fun t => option_map sn_negotiated (t_sender t)) (p_tcvs p).

Lemma failed_offer_keeps_marks :
  let p := run_ops (pc_init false) failed_offer_history in
  negotiated_flags p = [Some false; None]
  /\ o_status (snd (fst (create_offer p))) = "mid-not-found"
  /\ negotiated_flags (fst (fst (create_offer p))) = [Some true; None].
Proof. vm_compute. repeat split. Qed.
