(* C31: the association maps standing for the two rings. *)
From Coq Require Import List ZArith NArith Bool Lia ZifyBool ZifyNat ZifyN.
Import ListNotations.
From Verif Require Import Model.SampleBuilder.
Open Scope N_scope.

Section Maps.
  Context {A : Type}.
  Implicit Types m : list (N * A).

  Lemma bget_In : forall k m v, bget k m = Some v -> In (k, v) m.
  Proof.
    intros k m v H. unfold bget in H.
    destruct (find (fun e => fst e =? k) m) as [[k' v']|] eqn:E; [|discriminate].
    apply find_some in E. destruct E as [Hin Hk]. cbn in *. injection H as ->.
    apply N.eqb_eq in Hk. subst. assumption.
  Qed.

  Lemma bget_bdel_same : forall k m, bget k (bdel k m) = None.
  Proof.
    intros k m. unfold bget, bdel.
    destruct (find _ (filter _ m)) as [e|] eqn:E; [|reflexivity].
    apply find_some in E. destruct E as [Hin Hk]. apply filter_In in Hin.
    destruct Hin as [_ Hn]. rewrite Hk in Hn. discriminate.
  Qed.

  Lemma bget_bdel_other : forall k k' m, k <> k' -> bget k' (bdel k m) = bget k' m.
  Proof.
    intros k k' m Hn. unfold bget, bdel. induction m as [|[a v] m IH]; cbn; [reflexivity|].
    destruct (a =? k) eqn:E1; cbn.
    - apply N.eqb_eq in E1. subst a. destruct (k =? k') eqn:E2; [apply N.eqb_eq in E2; contradiction|]. exact IH.
    - destruct (a =? k') eqn:E2; [reflexivity|exact IH].
  Qed.

  Lemma bget_bset_same : forall k v m, bget k (bset k v m) = Some v.
  Proof. intros. unfold bget, bset. cbn. rewrite N.eqb_refl. reflexivity. Qed.

  Lemma bget_bset_other : forall k k' v m, k <> k' -> bget k' (bset k v m) = bget k' m.
  Proof.
    intros k k' v m Hn. unfold bset. unfold bget at 1. cbn [find fst].
    destruct (k =? k') eqn:E; [apply N.eqb_eq in E; contradiction|].
    change (bget k' (bdel k m) = bget k' m). apply bget_bdel_other. assumption.
  Qed.

  Lemma In_bdel : forall k m e, In e (bdel k m) -> In e m /\ fst e <> k.
  Proof.
    intros k m e H. unfold bdel in H. apply filter_In in H. destruct H as [H1 H2].
    split; [assumption|]. intro E. rewrite E, N.eqb_refl in H2. discriminate.
  Qed.

  Lemma incl_bdel : forall k m, incl (bdel k m) m.
  Proof. intros k m e H. apply In_bdel in H. tauto. Qed.

  Lemma length_bdel_le : forall k m, (List.length (bdel k m) <= List.length m)%nat.
  Proof. intros. unfold bdel. induction m as [|e m IH]; cbn; [lia|]. destruct (negb _); cbn; lia. Qed.

  Lemma length_bdel_lt : forall k m v, bget k m = Some v -> (List.length (bdel k m) < List.length m)%nat.
  Proof.
    intros k m v H. apply bget_In in H. unfold bdel. induction m as [|e m IH]; cbn; [contradiction|].
    destruct H as [->|H]; cbn [fst].
    - rewrite N.eqb_refl. cbn. pose proof (length_bdel_le k m). unfold bdel in *. lia.
    - specialize (IH H). destruct (negb _); cbn; lia.
  Qed.
End Maps.
