(* Lemmas about the generation of descriptions in Model.JsepMid: populate,
   match_loop, take_unmatched; the C06 statement for one generated description. *)
From Coq Require Import List ZArith String Ascii Bool Lia.
Import ListNotations.
From Verif Require Import Common.Base Common.JsepNumeral Model.JsepMid Model.JsepMidSpec Proofs.JsepMid.
Open Scope string_scope.
Open Scope list_scope.

(* ---------- lists ---------- *)
Lemma nodup_app {A} (l1 l2 : list A) :
  NoDup l1 -> NoDup l2 -> (forall x, In x l1 -> ~ In x l2) -> NoDup (l1 ++ l2).
Proof.
  induction l1 as [|a l1 IH]; intros H1 H2 Hd; [exact H2|].
  cbn. apply NoDup_cons_iff in H1. destruct H1 as [Ha H1]. constructor.
  - intro Hc. apply in_app_or in Hc. destruct Hc as [Hc|Hc]; [exact (Ha Hc)|].
    apply (Hd a); [left; reflexivity|exact Hc].
  - apply IH; auto. intros x Hx. apply Hd. right. exact Hx.
Qed.

Lemma nodup_map_some {A} (l : list A) : NoDup l -> NoDup (map Some l).
Proof.
  induction 1 as [|a l Ha _ IH]; cbn; constructor; auto.
  intro Hc. apply in_map_iff in Hc. destruct Hc as (x & [= ->] & Hx). exact (Ha Hx).
Qed.

Lemma nodup_filter {A} (f : A -> bool) (l : list A) : NoDup l -> NoDup (filter f l).
Proof.
  induction 1 as [|a l Ha _ IH]; cbn; [constructor|].
  destruct (f a); auto. constructor; auto. intro Hc. apply filter_In in Hc. exact (Ha (proj1 Hc)).
Qed.

(* ---------- populate ---------- *)
Definition msec_kind (m : msec) : kind :=
  match m with MData _ => KApplication | MTr _ k _ _ => kind_of k end.
Definition msec_dir (m : msec) : dir :=
  match m with MData _ => Sendrecv | MTr _ _ d _ => d end.
Definition lsec_of (g : option string) (m : msec) : lsection :=
  accepted_section (msec_kind m) (msec_id m) (msec_dir m) (bundle_match g (msec_id m)).

Lemma populate_all_codecs c g secs p :
  (forall k, c k = true) ->
  populate c g secs = Ok p ->
  fst p = map (lsec_of g) secs /\ snd p = filter (bundle_match g) (map msec_id secs).
Proof.
  intro Hc. revert p. induction secs as [|m rest IH]; intros p H.
  - injection H as <-. split; reflexivity.
  - cbn [populate] in H. destruct m as [id|id k d snd0].
    + destruct (populate c g rest) as [[ls b]|e|] eqn:E; try discriminate.
      cbn [rbind] in H. injection H as <-. destruct (IH _ eq_refl) as [E1 E2]. cbn [fst snd] in *.
      split; cbn [map filter msec_id]; [rewrite E1; reflexivity|].
      destruct (bundle_match g id); rewrite E2; reflexivity.
    + rewrite Hc in H.
      destruct (populate c g rest) as [[ls b]|e|] eqn:E; try discriminate.
      cbn [rbind] in H. injection H as <-. destruct (IH _ eq_refl) as [E1 E2]. cbn [fst snd] in *.
      split; cbn [map filter msec_id]; [rewrite E1; reflexivity|].
      destruct (bundle_match g id); rewrite E2; reflexivity.
Qed.

Lemma accepted_mids_lsec g secs :
  flat_map (fun x => if l_port0 x then [] else match l_mid x with Some m => [m] | None => [] end)
           (map (lsec_of g) secs) = filter (bundle_match g) (map msec_id secs).
Proof.
  induction secs as [|m rest IH]; [reflexivity|].
  cbn [map flat_map filter]. unfold lsec_of at 1 2. cbn [accepted_section l_port0 l_mid].
  destruct (bundle_match g (msec_id m)); cbn [negb app]; rewrite IH; reflexivity.
Qed.

Lemma populate_c06 c g secs p :
  (forall k, c k = true) ->
  populate c g secs = Ok p ->
  NoDup (map msec_id secs) ->
  c06_holds (mk_ldesc p).
Proof.
  intros Hc H Hnd. destruct (populate_all_codecs _ _ _ _ Hc H) as [E1 E2].
  unfold c06_holds, mk_ldesc, sec_mids, accepted_mids. cbn [l_secs l_bundle l_fp_session].
  rewrite E1, E2. repeat split.
  - intros x Hx. apply in_map_iff in Hx. destruct Hx as (m & <- & _). discriminate.
  - rewrite map_map. cbn [lsec_of accepted_section l_mid].
    rewrite <- (map_map msec_id Some). apply nodup_map_some. exact Hnd.
  - symmetry. apply accepted_mids_lsec.
  - apply nodup_filter. exact Hnd.
  - apply in_map_iff in H0. destruct H0 as (m & <- & _). reflexivity.
  - apply in_map_iff in H0. destruct H0 as (m & <- & _). eexists. reflexivity.
  - apply in_map_iff in H0. destruct H0 as (m & <- & _). reflexivity.
  - apply in_map_iff in H0. destruct H0 as (m & <- & _). reflexivity.
Qed.

(* ---------- match_loop: section ids ---------- *)
Definition ids (l : list msec) : list string := map msec_id l.
Lemma ids_app a b : ids (a ++ b) = ids a ++ ids b. Proof. apply map_app. Qed.

(* the transceivers carry pairwise distinct mids; available ones have not been
   emitted; nothing emitted can come again from the remaining remote sections *)
Lemma match_loop_nodup secs : forall l acc app l' acc' app',
  NoDup (map r_mid secs) ->
  NoDup (ids acc) ->
  (forall id, In id (ids acc) -> ~ In id (map r_mid secs)) ->
  match_loop secs l acc app = (l', Ok (acc', app')) ->
  NoDup (ids acc') /\
  (forall id, In id (ids acc') -> In id (ids acc) \/ In id (map r_mid secs)).
Proof.
  induction secs as [|r rest IH]; intros l acc app l' acc' app' Hnd Hacc Hdis H.
  - injection H as <- <- <-. split; auto.
  - cbn [match_loop] in H. destruct (String.eqb (r_mid r) "") eqn:Em; [discriminate|].
    cbn [map] in Hnd. apply NoDup_cons_iff in Hnd. destruct Hnd as [Hr Hnd].
    assert (Hskip : match_loop rest l acc app = (l', Ok (acc', app')) ->
                    NoDup (ids acc') /\ (forall id, In id (ids acc') -> In id (ids acc) \/ In id (map r_mid (r :: rest)))).
    { intro H'. destruct (IH _ _ _ _ _ _ Hnd Hacc (fun id Hi Hc => Hdis id Hi (or_intror Hc)) H') as [A B].
      split; auto. intros id Hi. destruct (B id Hi); auto. right. right. assumption. }
    assert (Hpush : forall m l0 app0, msec_id m = r_mid r ->
              match_loop rest l0 (acc ++ [m]) app0 = (l', Ok (acc', app')) ->
              NoDup (ids acc') /\ (forall id, In id (ids acc') -> In id (ids acc) \/ In id (map r_mid (r :: rest)))).
    { intros m l0 app0 Eid H'.
      assert (Hacc2 : NoDup (ids (acc ++ [m]))).
      { rewrite ids_app. apply nodup_app; auto.
        - cbn. constructor; [intros []|constructor].
        - intros x Hx [<-|[]]. cbn in Hx. apply (Hdis _ Hx). left. symmetry. exact Eid. }
      assert (Hdis2 : forall id, In id (ids (acc ++ [m])) -> ~ In id (map r_mid rest)).
      { intros id Hi Hc. rewrite ids_app in Hi. apply in_app_or in Hi. destruct Hi as [Hi|[<-|[]]].
        - apply (Hdis id Hi). right. exact Hc.
        - rewrite Eid in Hc. exact (Hr Hc). }
      destruct (IH _ _ _ _ _ _ Hnd Hacc2 Hdis2 H') as [A B]. split; auto.
      intros id Hi. destruct (B id Hi) as [Hb|Hb].
      - rewrite ids_app in Hb. apply in_app_or in Hb. destruct Hb as [Hb|[<-|[]]]; auto.
        right. left. symmetry. exact Eid.
      - right. right. exact Hb. }
    destruct (r_kind r); cbn [media_kind] in H.
    + destruct (r_dir r); [|apply Hskip; exact H].
      destruct (find_upd (by_mid (r_mid r)) set_neg l) as [[t l0]|]; [|discriminate].
      eapply Hpush; [|exact H]. reflexivity.
    + destruct (r_dir r); [|apply Hskip; exact H].
      destruct (find_upd (by_mid (r_mid r)) set_neg l) as [[t l0]|]; [|discriminate].
      eapply Hpush; [|exact H]. reflexivity.
    + eapply Hpush; [|exact H]. reflexivity.
    + apply Hskip. exact H.
Qed.

(* answers: the section ids are remote mids, each at most once *)
Lemma gen_matched_answer_nodup s d l secs add g :
  rdesc_ok d ->
  gen_matched s d false = (l, Ok (secs, add, g)) ->
  NoDup (ids secs).
Proof.
  intros Hd H. unfold gen_matched in H.
  destruct (match_loop (r_secs d) (fresh_local (trs s)) [] false) as [l0 [[acc app]|e|]] eqn:E; try discriminate.
  injection H as _ <- _ _.
  eapply (match_loop_nodup _ _ _ _ _ _ _ Hd) in E; [exact (proj1 E)|constructor|intros ? []].
Qed.

(* ---------- offers ---------- *)
Definition lmids (l : list ltr) : list string := map t_mid (strip l).

Lemma lmids_app l1 l2 : lmids (l1 ++ l2) = lmids l1 ++ lmids l2.
Proof. unfold lmids. rewrite strip_app, map_app. reflexivity. Qed.

Lemma lmids_cons x a l : lmids ((x, a) :: l) = t_mid x :: lmids l.
Proof. reflexivity. Qed.

Lemma nodup_mid_elsewhere l1 (x : tr) l2 t a :
  NoDup (lmids (l1 ++ (x, true) :: l2)) ->
  In (t, a) (l1 ++ l2) -> t_mid t <> t_mid x.
Proof.
  rewrite lmids_app, lmids_cons.
  intros Hnd Hin E. apply NoDup_remove_2 in Hnd. apply Hnd.
  rewrite <- E, <- lmids_app. unfold lmids. apply in_map. apply in_strip. exists a. exact Hin.
Qed.

Lemma match_loop_offer secs : forall l acc app l' acc' app',
  NoDup (map r_mid secs) ->
  NoDup (lmids l) ->
  NoDup (ids acc) ->
  (forall id, In id (ids acc) -> ~ In id (map r_mid secs)) ->
  (forall t, In (t, true) l -> ~ In (t_mid t) (ids acc)) ->
  (forall t a r, In (t, a) l -> In r secs -> r_kind r = KApplication -> t_mid t <> r_mid r) ->
  match_loop secs l acc app = (l', Ok (acc', app')) ->
  NoDup (ids acc') /\ (forall t, In (t, true) l' -> ~ In (t_mid t) (ids acc')) /\ lmids l' = lmids l.
Proof.
  induction secs as [|r rest IH]; intros l acc app l' acc' app' Hnd Hl Hacc Hdis Hav Happ H.
  - injection H as <- <- <-. repeat split; auto.
  - cbn [match_loop] in H. destruct (String.eqb (r_mid r) "") eqn:Em; [discriminate|].
    cbn [map] in Hnd. apply NoDup_cons_iff in Hnd. destruct Hnd as [Hr Hnd].
    assert (Hdis' : forall id, In id (ids acc) -> ~ In id (map r_mid rest)).
    { intros id Hi Hc. apply (Hdis id Hi). right. exact Hc. }
    assert (Happ' : forall t a r0, In (t, a) l -> In r0 rest -> r_kind r0 = KApplication -> t_mid t <> r_mid r0).
    { intros t a r0 Hi Hr0. apply (Happ t a r0 Hi). right. exact Hr0. }
    assert (Hfresh : ~ In (r_mid r) (ids acc)).
    { intro Hc. apply (Hdis _ Hc). left. reflexivity. }
    assert (Hacc2 : forall m, msec_id m = r_mid r -> NoDup (ids (acc ++ [m]))).
    { intros m Eid. rewrite ids_app. apply nodup_app; auto.
      - cbn. constructor; [intros []|constructor].
      - intros x Hx [<-|[]]. rewrite Eid in Hx. exact (Hfresh Hx). }
    assert (Hdis2 : forall m, msec_id m = r_mid r -> forall id, In id (ids (acc ++ [m])) -> ~ In id (map r_mid rest)).
    { intros m Eid id Hi Hc. rewrite ids_app in Hi. apply in_app_or in Hi. destruct Hi as [Hi|[<-|[]]].
      - exact (Hdis' id Hi Hc).
      - rewrite Eid in Hc. exact (Hr Hc). }
    assert (Hmedia : forall d, r_dir r = Some d ->
       match find_upd (by_mid (r_mid r)) set_neg l with
       | Some (t, l0) => match_loop rest l0 (acc ++ [msec_of (r_mid r) t]) app
       | None => (l, Err "mid-not-found")
       end = (l', Ok (acc', app')) ->
       NoDup (ids acc') /\ (forall t, In (t, true) l' -> ~ In (t_mid t) (ids acc')) /\ lmids l' = lmids l).
    { intros d _ H'.
      destruct (find_upd (by_mid (r_mid r)) set_neg l) as [[x l0]|] eqn:F; [|discriminate].
      apply find_upd_some in F. destruct F as (l1 & l2 & -> & -> & Hp & _).
      unfold by_mid in Hp. apply String.eqb_eq in Hp.
      assert (El : lmids (l1 ++ (set_neg x, false) :: l2) = lmids (l1 ++ (x, true) :: l2)).
      { rewrite !lmids_app. reflexivity. }
      assert (P1 : NoDup (lmids (l1 ++ (set_neg x, false) :: l2))) by (rewrite El; exact Hl).
      assert (P2 : forall t, In (t, true) (l1 ++ (set_neg x, false) :: l2) ->
                             ~ In (t_mid t) (ids (acc ++ [msec_of (r_mid r) x]))).
      { intros t Hin Hc. rewrite ids_app in Hc. apply in_app_or in Hc.
        apply in_app_or in Hin. destruct Hin as [Hin|[[=]|Hin]].
        + destruct Hc as [Hc|[Hc|[]]].
          * apply (Hav t); [apply in_or_app; auto|exact Hc].
          * cbn in Hc. rewrite <- Hp in Hc.
            apply (nodup_mid_elsewhere _ _ _ t true Hl); [apply in_or_app; auto|auto].
        + destruct Hc as [Hc|[Hc|[]]].
          * apply (Hav t); [apply in_or_app; right; right; exact Hin|exact Hc].
          * cbn in Hc. rewrite <- Hp in Hc.
            apply (nodup_mid_elsewhere _ _ _ t true Hl); [apply in_or_app; auto|auto]. }
      assert (P3 : forall t a r0, In (t, a) (l1 ++ (set_neg x, false) :: l2) -> In r0 rest ->
                                  r_kind r0 = KApplication -> t_mid t <> r_mid r0).
      { intros t a r0 Hin. apply in_app_or in Hin. destruct Hin as [Hin|[[= <- <-]|Hin]].
        + apply (Happ' t a). apply in_or_app. auto.
        + intros Hr0 Hk. rewrite set_neg_mid. apply (Happ' x true); auto. apply in_or_app. right. left. reflexivity.
        + apply (Happ' t a). apply in_or_app. right. right. exact Hin. }
      destruct (IH _ _ _ _ _ _ Hnd P1 (Hacc2 (msec_of (r_mid r) x) eq_refl) (Hdis2 (msec_of (r_mid r) x) eq_refl) P2 P3 H') as (A & B & C).
      repeat split; auto. rewrite C. exact El. }
    destruct (r_kind r) eqn:Ek; cbn [media_kind] in H.
    + destruct (r_dir r) as [d|] eqn:Ed; [exact (Hmedia d eq_refl H)|].
      eapply IH; eauto.
    + destruct (r_dir r) as [d|] eqn:Ed; [exact (Hmedia d eq_refl H)|].
      eapply IH; eauto.
    + (* application *)
      assert (P2 : forall t, In (t, true) l -> ~ In (t_mid t) (ids (acc ++ [MData (r_mid r)]))).
      { intros t Hin Hc. rewrite ids_app in Hc. apply in_app_or in Hc. destruct Hc as [Hc|[Hc|[]]].
        -- exact (Hav t Hin Hc).
        -- cbn in Hc. apply (Happ t true r Hin); [left; reflexivity|exact Ek|symmetry; exact Hc]. }
      exact (IH _ _ _ _ _ _ Hnd Hl (Hacc2 (MData (r_mid r)) eq_refl) (Hdis2 (MData (r_mid r)) eq_refl) P2 Happ' H).
    + eapply IH; eauto.
Qed.

Lemma take_unmatched_spec l : forall l' um,
  take_unmatched l = (l', um) ->
  NoDup (lmids l) ->
  NoDup (ids um) /\ (forall id, In id (ids um) -> exists t, In (t, true) l /\ t_mid t = id).
Proof.
  induction l as [|[t a] rest IH]; intros l' um H Hnd.
  - injection H as <- <-. split; [constructor|intros ? []].
  - cbn [take_unmatched] in H. destruct (take_unmatched rest) as [rest' ms] eqn:E.
    unfold lmids in Hnd. cbn [strip map fst] in Hnd. apply NoDup_cons_iff in Hnd. destruct Hnd as [Ht Hnd].
    destruct (IH _ _ eq_refl Hnd) as [A B].
    destruct a; injection H as <- <-.
    + split.
      * cbn [ids map msec_id msec_of]. constructor; auto.
        intro Hc. destruct (B _ Hc) as (t' & Hin & Et). apply Ht. rewrite <- Et.
        apply in_map. apply in_strip. exists true. exact Hin.
      * intros id [<-|Hi].
        -- exists t. split; [left; reflexivity|reflexivity].
        -- destruct (B _ Hi) as (t' & Hin & Et). exists t'. split; [right; exact Hin|exact Et].
    + split; auto. intros id Hi. destruct (B _ Hi) as (t' & Hin & Et). exists t'. split; [right; exact Hin|exact Et].
Qed.

Lemma take_unmatched_lmids l : lmids (fst (take_unmatched l)) = lmids l.
Proof. apply take_unmatched_mids. Qed.

Lemma gen_matched_offer_nodup s d l base add g :
  rdesc_ok d ->
  NoDup (map t_mid (trs s)) ->
  (forall t r, In t (trs s) -> In r (r_secs d) -> r_kind r = KApplication -> t_mid t <> r_mid r) ->
  gen_matched s d true = (l, Ok (base, add, g)) ->
  NoDup (ids base).
Proof.
  intros Hd Hnd Happ H. unfold gen_matched in H.
  destruct (match_loop (r_secs d) (fresh_local (trs s)) [] false) as [l0 [[acc app]|e|]] eqn:E; try discriminate.
  destruct (take_unmatched l0) as [l1 um] eqn:T. injection H as _ <- _ _.
  assert (Q1 : NoDup (lmids (fresh_local (trs s)))) by (unfold lmids; rewrite strip_fresh; exact Hnd).
  assert (Q2 : forall t a r, In (t, a) (fresh_local (trs s)) -> In r (r_secs d) ->
                             r_kind r = KApplication -> t_mid t <> r_mid r).
  { intros t a r Hin. apply (Happ t r). rewrite <- (strip_fresh (trs s)). apply in_strip. exists a. exact Hin. }
  assert (Q3 : NoDup (ids [])) by constructor.
  assert (Q4 : forall id, In id (ids []) -> ~ In id (map r_mid (r_secs d))) by (intros ? []).
  assert (Q5 : forall t, In (t, true) (fresh_local (trs s)) -> ~ In (t_mid t) (ids [])) by (intros ? ? []).
  destruct (match_loop_offer _ _ _ _ _ _ _ Hd Q1 Q3 Q4 Q5 Q2 E) as (A & B & C).
  - assert (Hl0 : NoDup (lmids l0)). { rewrite C. unfold lmids. rewrite strip_fresh. exact Hnd. }
    destruct (take_unmatched_spec _ _ _ T Hl0) as [U1 U2].
    rewrite ids_app. apply nodup_app; auto.
    intros id Hi Hu. destruct (U2 _ Hu) as (t & Hin & <-). exact (B t Hin Hi).
Qed.

(* after the numbering loop every transceiver has a mid *)
Lemma alloc_mids_set l : forall g t, In t (snd (alloc_mids g l)) -> t_mid t <> "".
Proof.
  induction l as [|x rest IH]; intros g t Hin; [destruct Hin|].
  cbn [alloc_mids] in Hin. destruct (mid_unset x) eqn:U.
  - destruct (alloc_mids (wrap_int (g + 1)) rest) as [g2 rest'] eqn:E. cbn [snd] in Hin.
    destruct Hin as [<-|Hin].
    + cbn. apply itoa_nonempty.
    + apply (IH (wrap_int (g + 1))). rewrite E. exact Hin.
  - destruct (alloc_mids g rest) as [g2 rest'] eqn:E. cbn [snd] in Hin.
    destruct Hin as [<-|Hin].
    + unfold mid_unset in U. apply String.eqb_neq. exact U.
    + apply (IH g). rewrite E. exact Hin.
Qed.

Lemma set_mids_all l : (forall t, In t l -> t_mid t <> "") -> set_mids l = map t_mid l.
Proof.
  induction l as [|t rest IH]; intro H; [reflexivity|].
  rewrite set_mids_cons. rewrite (eqb_empty_false _ (H t (or_introl eq_refl))).
  cbn [map]. rewrite IH; auto. intros t' Hin. apply H. right. exact Hin.
Qed.

Lemma numbering_ok_nodup s : numbering_ok s -> NoDup (map t_mid (trs (offer_alloc s))).
Proof.
  unfold numbering_ok. intro H. rewrite <- set_mids_all; [exact H|].
  rewrite offer_alloc_trs. intros t Hin. eapply alloc_mids_set. exact Hin.
Qed.

Lemma has_codecs_set_trs s l k : has_codecs (set_trs s l) k = has_codecs s k.
Proof. reflexivity. Qed.

Lemma has_codecs_offer_alloc s k : has_codecs (offer_alloc s) k = has_codecs s k.
Proof. unfold offer_alloc. destruct (alloc_mids _ (trs s)). reflexivity. Qed.

(* one CreateOffer / CreateAnswer under the guard *)
Lemma create_offer_c06 s s' d :
  inv s -> offer_guard s -> create_offer s = (s', Ok d) -> c06_holds d.
Proof.
  intros [Hnd0 [Hc Hp]] (Hnw & Happ & Hdata & Hcod) H.
  pose proof (numbering_ok_lemma s Hnd0 Hnw) as Hnum.
  unfold create_offer in H. set (s1 := offer_alloc s) in *.
  destruct (offer_sections s1) as [l [[[base add] g]|e|]] eqn:E; try discriminate.
  destruct (populate (has_codecs (set_trs s1 l)) g (with_data add base)) as [p|e|] eqn:P; try discriminate.
  destruct (local_changed l (mk_ldesc p)); [discriminate|]. injection H as _ <-.
  apply populate_c06 with (1 := fun k => eq_trans (has_codecs_offer_alloc s k) (Hcod k)) (2 := P).
  assert (Hbase : NoDup (ids base)).
  { unfold offer_sections in E. destruct (offer_remote s1) as [rd|] eqn:R.
    - eapply gen_matched_offer_nodup; [| |exact Happ|exact E].
      + unfold offer_remote in R.
        assert (E1 : cur_remote s1 = cur_remote s /\ pend_remote s1 = pend_remote s).
        { unfold s1, offer_alloc. destruct (alloc_mids _ (trs s)). split; reflexivity. }
        destruct E1 as [E1 E2]. rewrite E1, E2 in R.
        destruct (cur_remote s) as [cur|] eqn:C; [|discriminate].
        destruct (pend_remote s) as [pe|] eqn:Pe; injection R as <-; [apply Hp|apply Hc]; reflexivity.
      + apply numbering_ok_nodup. exact Hnum.
    - unfold gen_unmatched in E. injection E as _ <- _ _.
      unfold ids. rewrite map_map. cbn [msec_id msec_of]. rewrite map_set_neg_mids.
      apply numbering_ok_nodup. exact Hnum. }
  destruct add; cbn [with_data]; [|exact Hbase].
  fold (ids (base ++ [MData (data_mid base)])). rewrite ids_app. apply nodup_app; auto.
  - cbn. constructor; [intros []|constructor].
  - intros x Hx [<-|[]]. exact (Hdata l base g eq_refl Hx).
Qed.

Lemma create_answer_c06 s s' d :
  inv s -> codecs_ok s -> create_answer s = (s', Ok d) -> c06_holds d.
Proof.
  intros [_ [Hc Hp]] Hcod H. unfold create_answer in H.
  destruct (remote_desc s) as [rd|] eqn:R; [|discriminate].
  assert (Hrd : rdesc_ok rd).
  { unfold remote_desc in R. destruct (pend_remote s) as [pe|] eqn:Pe.
    - injection R as <-. apply Hp. reflexivity.
    - apply Hc. exact R. }
  destruct (sig s); try discriminate;
    (destruct (gen_matched s rd false) as [l [[[secs add] g]|e|]] eqn:E; try discriminate;
     destruct (populate (has_codecs (set_trs s l)) g secs) as [p|e|] eqn:P; try discriminate;
     injection H as _ <-;
     apply populate_c06 with (1 := Hcod) (2 := P);
     eapply gen_matched_answer_nodup; [exact Hrd|exact E]).
Qed.

(* C06 over every history *)
Lemma c06_partial_lemma ops :
  remote_ok ops -> nowrap_all ops ->
  forall s o d s', In (s, o, ODesc (Ok d), s') (trace ops) -> gen_guard s o -> c06_holds d.
Proof.
  intros Hr Hn s o d s' Hin Hg.
  destruct (trace_from_inv ops init inv_init Hr Hn _ _ _ _ Hin) as [Hs _].
  assert (Hstep : step s o = (s', ODesc (Ok d))).
  { clear - Hin. unfold trace in Hin. revert Hin. generalize init. induction ops as [|o0 rest IH]; intros s0 Hin; [destruct Hin|].
    cbn [trace_from] in Hin. destruct (step s0 o0) as [s1 out1] eqn:E.
    destruct Hin as [[= <- <- <- <-]|Hin]; [exact E|]. exact (IH _ Hin). }
  destruct o; cbn [step] in Hstep.
  - destruct (add_transceiver s k d0); discriminate.
  - destruct (add_track s k); discriminate.
  - destruct (remove_track s i); discriminate.
  - destruct (stop_transceiver s i); discriminate.
  - destruct (create_data_channel s); discriminate.
  - destruct (create_offer s) as [s1 r] eqn:E. injection Hstep as -> ->.
    eapply create_offer_c06; eauto.
  - destruct (create_answer s) as [s1 r] eqn:E. injection Hstep as -> ->.
    eapply create_answer_c06; eauto.
  - destruct (set_local s ty); discriminate.
  - destruct (set_remote s ty d0); discriminate.
Qed.

Lemma trace_mids_distinct ops :
  remote_ok ops -> nowrap_all ops ->
  forall s o out s', In (s, o, out, s') (trace ops) ->
  NoDup (set_mids (trs s)) /\ NoDup (set_mids (trs s')).
Proof.
  intros Hr Hn s o out s' Hin.
  destruct (trace_from_inv ops init inv_init Hr Hn _ _ _ _ Hin) as [[A _] [B _]]. split; assumption.
Qed.
