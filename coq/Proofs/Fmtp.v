(* Lemmas about Model/Fmtp.v (C17). *)
From Coq Require Import List NArith String Ascii Bool.
Import ListNotations.
From Verif Require Import Model.Fmtp.
Open Scope string_scope.

Lemma string_eqb_sym : forall a b, String.eqb a b = String.eqb b a.
Proof.
  intros a b. destruct (String.eqb_spec a b) as [Hab|Hab].
  - subst. symmetry. apply String.eqb_refl.
  - symmetry. apply String.eqb_neq. congruence.
Qed.

Lemma eq_fold_sym : forall a b, eq_fold a b = eq_fold b a.
Proof. intros. unfold eq_fold. apply string_eqb_sym. Qed.

Lemma eq_fold_lower : forall a b, eq_fold a b = true -> lower a = lower b.
Proof. intros a b H. unfold eq_fold in H. now apply String.eqb_eq. Qed.

Lemma default_clock_rate_lower : forall a b,
  lower a = lower b -> default_clock_rate a = default_clock_rate b.
Proof. intros a b H. unfold default_clock_rate. now rewrite H. Qed.

Lemma default_channels_lower : forall a b,
  lower a = lower b -> default_channels a = default_channels b.
Proof. intros a b H. unfold default_channels. now rewrite H. Qed.

Lemma clock_rate_equal_lower : forall m m' a b,
  lower m = lower m' -> clock_rate_equal m a b = clock_rate_equal m' a b.
Proof.
  intros m m' a b H. unfold clock_rate_equal.
  now rewrite (default_clock_rate_lower _ _ H).
Qed.

Lemma channels_equal_lower : forall m m' a b,
  lower m = lower m' -> channels_equal m a b = channels_equal m' a b.
Proof.
  intros m m' a b H. unfold channels_equal.
  now rewrite (default_channels_lower _ _ H).
Qed.

Lemma clock_rate_equal_sym : forall m a b, clock_rate_equal m a b = clock_rate_equal m b a.
Proof. intros. unfold clock_rate_equal. apply N.eqb_sym. Qed.

Lemma channels_equal_sym : forall m a b, channels_equal m a b = channels_equal m b a.
Proof. intros. unfold channels_equal. apply N.eqb_sym. Qed.

Lemma params_equal_sym : forall a b, params_equal a b = params_equal b a.
Proof. intros. unfold params_equal. apply andb_comm. Qed.

Lemma generic_match_sym : forall a b, generic_match a b = generic_match b a.
Proof.
  intros a b. unfold generic_match.
  destruct (eq_fold (f_mime a) (f_mime b)) eqn:Hm.
  - rewrite eq_fold_sym in Hm. rewrite Hm. cbn [andb].
    rewrite eq_fold_sym in Hm. apply eq_fold_lower in Hm.
    rewrite (clock_rate_equal_lower _ _ _ _ Hm), (channels_equal_lower _ _ _ _ Hm).
    rewrite clock_rate_equal_sym, channels_equal_sym, params_equal_sym. reflexivity.
  - rewrite eq_fold_sym in Hm. rewrite Hm. reflexivity.
Qed.

Lemma profile_level_id_matches_sym : forall a b,
  profile_level_id_matches a b = profile_level_id_matches b a.
Proof.
  intros a b. unfold profile_level_id_matches.
  destruct (hex_decode_go a) as [[|a0 [|a1 ar]]|];
  destruct (hex_decode_go b) as [[|b0 [|b1 br]]|]; try reflexivity.
  now rewrite (N.eqb_sym a0 b0), (N.eqb_sym a1 b1).
Qed.

Lemma h264_match_sym : forall h c, h264_match h c = h264_match c h.
Proof.
  intros h c. unfold h264_match.
  destruct (plookup "packetization-mode" h) as [hp|];
  destruct (plookup "packetization-mode" c) as [cp|]; try reflexivity.
  rewrite (string_eqb_sym hp cp). destruct (String.eqb cp hp); cbn [negb]; try reflexivity.
  destruct (plookup "profile-level-id" h) as [hl|];
  destruct (plookup "profile-level-id" c) as [cl|]; try reflexivity.
  apply profile_level_id_matches_sym.
Qed.

Lemma vp9_match_sym : forall h c, vp9_match h c = vp9_match c h.
Proof. intros. unfold vp9_match. apply string_eqb_sym. Qed.

Lemma av1_match_sym : forall h c, av1_match h c = av1_match c h.
Proof. intros. unfold av1_match. apply string_eqb_sym. Qed.

Lemma fmtp_match_sym : forall a b, fmtp_match a b = fmtp_match b a.
Proof.
  intros a b. unfold fmtp_match.
  destruct (f_kind a), (f_kind b); try reflexivity.
  - apply generic_match_sym.
  - apply h264_match_sym.
  - apply vp9_match_sym.
  - apply av1_match_sym.
Qed.

(* C17, clause 1 *)
Lemma matches_sym : forall a b, matches a b = matches b a.
Proof. intros. unfold matches. apply fmtp_match_sym. Qed.

Lemma matches_sym_ascii : forall a b,
  ascii_only (d_mime a) = true -> ascii_only (d_mime b) = true ->
  matches a b = matches b a.
Proof. intros a b _ _. apply matches_sym. Qed.

(* ---------- case ---------- *)

Lemma eq_fold_variant_l : forall m m' x, lower m' = lower m -> eq_fold m' x = eq_fold m x.
Proof. intros m m' x H. unfold eq_fold. now rewrite H. Qed.

Lemma eq_fold_variant_r : forall m m' x, lower m' = lower m -> eq_fold x m' = eq_fold x m.
Proof. intros m m' x H. unfold eq_fold. now rewrite H. Qed.

Lemma kind_of_mime_variant : forall m m', lower m' = lower m -> kind_of_mime m' = kind_of_mime m.
Proof.
  intros m m' H. unfold kind_of_mime.
  now rewrite !(eq_fold_variant_l m m' _ H).
Qed.

Lemma matches_case_l : forall a b m',
  case_variant (d_mime a) m' -> matches (with_mime a m') b = matches a b.
Proof.
  intros [m clk ch line] b m' H. unfold case_variant in H. cbn [d_mime] in H.
  unfold matches, parse_desc, with_mime, fmtp_parse.
  cbn [d_mime d_clock d_channels d_line].
  rewrite (kind_of_mime_variant _ _ H).
  destruct (kind_of_mime m); try reflexivity.
  destruct (kind_of_mime (d_mime b)); try reflexivity.
  unfold fmtp_match. cbn [f_kind]. unfold generic_match.
  cbn [f_mime f_clock f_channels f_params].
  rewrite (eq_fold_variant_l _ _ _ H).
  rewrite (clock_rate_equal_lower m' m _ _ H), (channels_equal_lower m' m _ _ H).
  reflexivity.
Qed.

Lemma matches_case_r : forall a b m',
  case_variant (d_mime a) m' -> matches b (with_mime a m') = matches b a.
Proof.
  intros a b m' H. rewrite (matches_sym b (with_mime a m')), (matches_sym b a).
  now apply matches_case_l.
Qed.

(* C17, clause 2 *)
Lemma matches_case : forall a b m',
  case_variant (d_mime a) m' ->
  matches (with_mime a m') b = matches a b /\ matches b (with_mime a m') = matches b a.
Proof. intros a b m' H. split; [now apply matches_case_l | now apply matches_case_r]. Qed.

(* lower really is "only the case of ASCII letters changes" *)
Lemma lower_idem : forall s, lower (lower s) = lower s.
Proof.
  induction s as [|c t IH]; [reflexivity|].
  cbn [lower]. rewrite IH. f_equal.
  unfold lower_ascii.
  destruct (N.leb 65 (N_of_ascii c) && N.leb (N_of_ascii c) 90) eqn:Hc.
  - rewrite N_ascii_embedding.
    + apply andb_true_iff in Hc. destruct Hc as [H1 H2].
      apply N.leb_le in H1. apply N.leb_le in H2.
      replace (N.leb (N_of_ascii c + 32) 90) with false; [now rewrite andb_false_r|].
      symmetry. apply N.leb_gt. apply N.lt_le_trans with (m := (65 + 32)%N).
      * reflexivity.
      * apply N.add_le_mono_r. exact H1.
    + apply andb_true_iff in Hc. destruct Hc as [_ H2]. apply N.leb_le in H2.
      apply N.le_lt_trans with (m := (90 + 32)%N).
      * apply N.add_le_mono_r. exact H2.
      * reflexivity.
  - now rewrite Hc.
Qed.

(* C17, clause 3: finite *)
Lemma defaults_self : forallb (fun c => matches c c) default_codecs = true.
Proof. vm_compute. reflexivity. Qed.

Lemma defaults_self_in : forall c, In c default_codecs -> matches c c = true.
Proof. intros c H. exact (proj1 (forallb_forall _ _) defaults_self c H). Qed.

(* a codec description that does not match itself exists (H264 without
   packetization-mode), so clause 3 is not a consequence of reflexivity *)
Lemma self_match_not_general :
  matches (mkDesc "video/H264" 90000 0 "profile-level-id=42e01f")
          (mkDesc "video/H264" 90000 0 "profile-level-id=42e01f") = false.
Proof. vm_compute. reflexivity. Qed.
