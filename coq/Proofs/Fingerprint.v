(* proofs for C14 (Model/Fingerprint.v) *)
From Coq Require Import List NArith String Ascii Bool Lia.
Import ListNotations.
From Verif Require Import Common.Base Common.SerialUtil Model.Fingerprint.
Open Scope string_scope.

(* ------------------------------------------------------------------ *)
(* strings *)

Lemma lower_upper_ascii c : lower_ascii (upper_ascii c) = lower_ascii c.
Proof. destruct c as [[] [] [] [] [] [] [] []]; reflexivity. Qed.

Lemma lower_upper s : lower (upper s) = lower s.
Proof. induction s as [|c t IH]; simpl; [reflexivity|]. now rewrite lower_upper_ascii, IH. Qed.

Lemma eqfold_upper s : eqfold s (upper s) = true.
Proof. unfold eqfold. rewrite lower_upper. apply String.eqb_refl. Qed.

Lemma eqfold_true_iff a b : eqfold a b = true <-> lower a = lower b.
Proof. unfold eqfold. apply String.eqb_eq. Qed.

Lemma split_on_nonempty sep s : split_on sep s <> [].
Proof.
  induction s as [|c t IH]; simpl; [discriminate|].
  destruct (Ascii.eqb c sep); [discriminate|].
  destruct (split_on sep t); [contradiction | discriminate].
Qed.

Lemma split_on_no_sep sep s : has_byte sep s = false -> split_on sep s = [s].
Proof.
  unfold has_byte. induction s as [|c t IH]; simpl; [reflexivity|].
  rewrite orb_false_iff. intros [Hc Ht].
  rewrite Ascii.eqb_sym in Hc. rewrite Hc. now rewrite (IH Ht).
Qed.

Lemma split_on_app sep a b :
  has_byte sep a = false ->
  split_on sep (a ++ String sep b) = a :: split_on sep b.
Proof.
  unfold has_byte. induction a as [|c t IH]; simpl.
  - intros _. now rewrite Ascii.eqb_refl.
  - rewrite orb_false_iff. intros [Hc Ht]. rewrite Ascii.eqb_sym in Hc. rewrite Hc.
    now rewrite (IH Ht).
Qed.

Lemma upper_ascii_not_space c : Ascii.eqb space c = false -> Ascii.eqb space (upper_ascii c) = false.
Proof. destruct c as [[] [] [] [] [] [] [] []]; vm_compute; congruence. Qed.

Lemma has_space_upper s : has_byte space s = false -> has_byte space (upper s) = false.
Proof.
  unfold has_byte. induction s as [|c t IH]; simpl; [reflexivity|].
  rewrite !orb_false_iff. intros [Hc Ht]. split; [now apply upper_ascii_not_space | now apply IH].
Qed.

Lemma append_nonempty a b : b <> "" -> a ++ b <> "".
Proof. destruct a; simpl; [tauto | discriminate]. Qed.

(* ------------------------------------------------------------------ *)
(* extract: the loops compute the declarative placement rule *)

Lemma attribute_app key (a b : attrs) :
  attribute key (a ++ b)%list = match attribute key a with Some v => Some v | None => attribute key b end.
Proof.
  induction a as [|[k v] t IH]; simpl; [reflexivity|].
  destruct (String.eqb k key); [reflexivity | exact IH].
Qed.

Definition opt_str (o : option string) : string := match o with Some f => f | None => "" end.

Lemma scan_any_nonempty ms acc : acc <> "" -> scan_any ms acc = acc.
Proof.
  revert acc. induction ms as [|m rest IH]; intros acc Hne; simpl; [reflexivity|].
  destruct (attribute "fingerprint" m) as [f|]; [|now apply IH].
  destruct (String.eqb_spec acc ""); [contradiction | now apply IH].
Qed.

Lemma scan_any_spec ms : scan_any ms "" = opt_str (first_some nonempty_fp ms).
Proof.
  induction ms as [|m rest IH]; simpl; [reflexivity|].
  unfold nonempty_fp. destruct (attribute "fingerprint" m) as [f|]; [|exact IH].
  destruct (String.eqb_spec f "") as [->|Hne]; [exact IH|].
  simpl. now apply scan_any_nonempty.
Qed.

Lemma scan_bundled_nonempty b ms acc : acc <> "" -> scan_bundled b ms acc = acc.
Proof.
  revert acc. induction ms as [|m rest IH]; intros acc Hne; simpl; [reflexivity|].
  destruct (attribute "mid" m) as [mid|]; [|now apply IH].
  destruct (String.eqb_spec acc ""); [contradiction|].
  rewrite andb_false_r. now apply IH.
Qed.

Lemma scan_bundled_spec b ms :
  scan_bundled b ms "" =
  opt_str (first_some (fun m => match attribute "mid" m with
                                | Some mid => if String.eqb mid b then nonempty_fp m else None
                                | None => None
                                end) ms).
Proof.
  induction ms as [|m rest IH]; simpl; [reflexivity|].
  destruct (attribute "mid" m) as [mid|]; [|exact IH].
  destruct (String.eqb mid b); simpl; [|exact IH].
  unfold nonempty_fp. destruct (attribute "fingerprint" m) as [f|]; [|exact IH].
  destruct (String.eqb_spec f "") as [->|Hne]; [exact IH|].
  simpl. now apply scan_bundled_nonempty.
Qed.

Lemma chosen_is_spec d : chosen_fingerprint d = opt_str (placement_spec d).
Proof.
  unfold chosen_fingerprint, placement_spec, nonempty_fp.
  destruct (attribute "fingerprint" (d_session d)) as [f|]; simpl.
  - destruct (String.eqb_spec f "") as [->|Hne]; simpl.
    + destruct (String.eqb (extract_bundle_id d) ""); simpl;
        [apply scan_any_spec | apply scan_bundled_spec].
    + reflexivity.
  - destruct (String.eqb (extract_bundle_id d) ""); simpl;
      [apply scan_any_spec | apply scan_bundled_spec].
Qed.

Lemma first_some_nonempty {A} (f : A -> option string) l s :
  (forall a s', f a = Some s' -> s' <> "") -> first_some f l = Some s -> s <> "".
Proof.
  intro Hf. induction l as [|a t IH]; simpl; [discriminate|].
  destruct (f a) as [s'|] eqn:E; [intro H; inversion H; subst; now apply (Hf a) | exact IH].
Qed.

Lemma nonempty_fp_nonempty m s : nonempty_fp m = Some s -> s <> "".
Proof.
  unfold nonempty_fp. destruct (attribute "fingerprint" m) as [f|]; [|discriminate].
  destruct (String.eqb_spec f ""); [discriminate | intro H; inversion H; now subst].
Qed.

Lemma placement_spec_nonempty d s : placement_spec d = Some s -> s <> "".
Proof.
  unfold placement_spec.
  destruct (nonempty_fp (d_session d)) as [f|] eqn:E.
  - intro H; inversion H; subst. now apply (nonempty_fp_nonempty (d_session d)).
  - destruct (negb (String.eqb (extract_bundle_id d) "")).
    + apply first_some_nonempty. intros a s'.
      destruct (attribute "mid" a) as [mid|]; [|discriminate].
      destruct (String.eqb mid (extract_bundle_id d)); [apply nonempty_fp_nonempty | discriminate].
    + apply first_some_nonempty. apply nonempty_fp_nonempty.
Qed.

(* all placement cases: the result is determined by the placement rule and
   the two-token split; extraction never panics *)
Lemma extract_total d :
  extract_fingerprint d <> Panic /\
  (placement_spec d = None -> extract_fingerprint d = Err "no-fingerprint") /\
  (forall f, placement_spec d = Some f ->
     match split_on space f with
     | [h; v] => extract_fingerprint d = Ok (v, h)
     | _ => extract_fingerprint d = Err "invalid-fingerprint"
     end).
Proof.
  unfold extract_fingerprint. rewrite chosen_is_spec.
  destruct (placement_spec d) as [f|] eqn:E; simpl.
  - pose proof (placement_spec_nonempty d f E) as Hne.
    unfold split_fingerprint. destruct (String.eqb_spec f ""); [contradiction|].
    split; [|split; [discriminate|]].
    + destruct (split_on space f) as [|a [|b [|c r]]]; discriminate.
    + intros f' H; inversion H; subst f'.
      destruct (split_on space f) as [|a [|b [|c r]]]; reflexivity.
  - split; [discriminate | split; [reflexivity | discriminate]].
Qed.

(* ------------------------------------------------------------------ *)
(* validate *)

Lemma first_some_map_all {A B} (f : B -> option string) (F : A -> B) l v :
  l <> [] -> (forall a, In a l -> f (F a) = Some v) -> first_some f (map F l) = Some v.
Proof.
  destruct l as [|a t]; [contradiction|]. intros _ Hall. simpl.
  now rewrite (Hall a (or_introl eq_refl)).
Qed.

Lemma first_some_mid_all {A} (F : A -> attrs) (b v : string) l :
  (forall a, In a l -> nonempty_fp (F a) = Some v) ->
  (exists a, In a l /\ attribute "mid" (F a) = Some b) ->
  first_some (fun m => match attribute "mid" m with
                       | Some mid => if String.eqb mid b then nonempty_fp m else None
                       | None => None
                       end) (map F l) = Some v.
Proof.
  induction l as [|a t IH]; intros Hall [x [Hin Hmid]]; [contradiction|].
  cbn [map first_some].
  destruct (attribute "mid" (F a)) as [mid|] eqn:Em.
  - destruct (String.eqb mid b) eqn:Eb.
    + now rewrite (Hall a (or_introl eq_refl)).
    + destruct Hin as [->|Hin].
      * rewrite Hmid in Em. inversion Em; subst mid. rewrite String.eqb_refl in Eb. discriminate.
      * apply IH; [intros; apply Hall; now right | exists x; auto].
  - destruct Hin as [->|Hin].
    + rewrite Hmid in Em. discriminate.
    + apply IH; [intros; apply Hall; now right | exists x; auto].
Qed.

Lemma split_advertised h :
  has_byte space h = false ->
  split_fingerprint ("sha-256" ++ " " ++ upper h) = Ok (upper h, "sha-256").
Proof.
  intro Hsp. unfold split_fingerprint.
  change ("sha-256" ++ " " ++ upper h) with ("sha-256" ++ String space (upper h)).
  rewrite split_on_app by reflexivity.
  rewrite split_on_no_sep by now apply has_space_upper.
  reflexivity.
Qed.

Lemma fp_lines_sha h : fp_lines [("sha-256", h)] = [("fingerprint", "sha-256" ++ " " ++ upper h)].
Proof. reflexivity. Qed.

Section HashProofs.
  Variable cert : Type.
  Variable H : string -> cert -> option string.

  Lemma validate_sound fps c :
    validate cert H fps c = Ok tt ->
    exists a v h, In (a, v) fps /\ H a c = Some h /\ eqfold h v = true.
  Proof.
    induction fps as [|[a v] rest IH]; simpl; [discriminate|].
    destruct (H a c) as [h|] eqn:E; [|discriminate].
    destruct (eqfold h v) eqn:F.
    - intros _. exists a, v, h. auto.
    - intro Hr. destruct (IH Hr) as [a' [v' [h' [Hin [Hh Hf]]]]].
      exists a', v', h'. auto.
  Qed.

  Lemma validate_never_panics fps c : validate cert H fps c <> Panic.
  Proof.
    induction fps as [|[a v] rest IH]; simpl; [discriminate|].
    destruct (H a c); [|discriminate]. destruct (eqfold _ v); [discriminate | exact IH].
  Qed.

  Lemma validate_reject fps c :
    (forall a v h, In (a, v) fps -> H a c = Some h -> eqfold h v = false) ->
    validate cert H fps c <> Ok tt.
  Proof.
    intros Hno Hok. destruct (validate_sound fps c Hok) as [a [v [h [Hin [Hh Hf]]]]].
    rewrite (Hno a v h Hin Hh) in Hf. discriminate.
  Qed.

  Lemma validate_unknown_hash a v rest c :
    H a c = None -> validate cert H ((a, v) :: rest) c = Err "hash-error".
  Proof. intro E. simpl. now rewrite E. Qed.

  Lemma validate_empty c : validate cert H [] c = Err "no-matching-fingerprint".
  Proof. reflexivity. Qed.

  Lemma validate_single_mismatch a v h c :
    H a c = Some h -> lower v <> lower h ->
    validate cert H [(a, v)] c = Err "no-matching-fingerprint".
  Proof.
    intros E Hne. simpl. rewrite E.
    destruct (eqfold h v) eqn:F; [|reflexivity].
    apply eqfold_true_iff in F. congruence.
  Qed.

  (* completeness, as far as the loop goes: a matching entry before any hash error *)
  Lemma validate_complete pre a v post h c :
    (forall a' v', In (a', v') pre -> exists h', H a' c = Some h') ->
    H a c = Some h -> eqfold h v = true ->
    validate cert H (pre ++ (a, v) :: post)%list c = Ok tt.
  Proof.
    intros Hpre E F. induction pre as [|[a' v'] t IH]; simpl.
    - now rewrite E, F.
    - destruct (Hpre a' v' (or_introl eq_refl)) as [h' E']. rewrite E'.
      destruct (eqfold h' v'); [reflexivity|]. apply IH.
      intros a'' v'' Hin. apply (Hpre a'' v''). now right.
  Qed.

  (* what the generator advertises *)
  Lemma advertised_session c h so mo :
    H "sha-256" c = Some h -> has_byte space h = false ->
    no_fingerprint_key so ->
    extract_fingerprint (advertise false [("sha-256", h)] so mo) = Ok (upper h, "sha-256").
  Proof.
    intros _ Hsp Hso. unfold extract_fingerprint, chosen_fingerprint, advertise.
    cbn [d_session]. rewrite fp_lines_sha. rewrite attribute_app.
    unfold no_fingerprint_key in Hso. rewrite Hso.
    cbn [attribute String.eqb Ascii.eqb Bool.eqb].
    assert (Hne : String.eqb ("sha-256" ++ " " ++ upper h) "" = false) by reflexivity.
    rewrite Hne. cbn [negb]. now apply split_advertised.
  Qed.

  Lemma advertised_levels media_level fps so mo :
    fps <> [] -> no_fingerprint_key so ->
    Forall (fun o => no_fingerprint_key (fst o) /\ no_fingerprint_key (snd o)) mo ->
    let d := advertise media_level fps so mo in
    (attribute "fingerprint" (d_session d) <> None <-> media_level = false) /\
    Forall (fun m => attribute "fingerprint" m <> None <-> media_level = true) (d_media d).
  Proof.
    intros Hne Hso Hmo. unfold no_fingerprint_key in *. simpl. split.
    - rewrite attribute_app, Hso. destruct media_level; simpl.
      + split; [tauto | discriminate].
      + destruct fps as [|[a v] t]; [contradiction|]. simpl. split; [reflexivity | discriminate].
    - apply Forall_map. eapply Forall_impl; [|exact Hmo]. intros [pre post] [Hp Hq]. simpl in *.
      rewrite !attribute_app, Hp, Hq. destruct media_level; simpl.
      + destruct fps as [|[a v] t]; [contradiction|]. simpl. split; [reflexivity | discriminate].
      + split; [tauto | discriminate].
  Qed.

  Lemma advertised_media c h so mo :
    H "sha-256" c = Some h -> has_byte space h = false ->
    no_fingerprint_key so ->
    Forall (fun o => no_fingerprint_key (fst o) /\ no_fingerprint_key (snd o)) mo ->
    let d := advertise true [("sha-256", h)] so mo in
    mo <> [] ->
    (extract_bundle_id d = "" \/
     exists o, In o mo /\ attribute "mid" (fst o) = Some (extract_bundle_id d)) ->
    extract_fingerprint d = Ok (upper h, "sha-256").
  Proof.
    intros _ Hsp Hso Hmo d Hne Hb.
    assert (Hf : forall o, In o mo ->
               nonempty_fp (fst o ++ fp_lines [("sha-256", h)] ++ snd o)%list
               = Some ("sha-256 " ++ upper h)).
    { intros o Hin. rewrite Forall_forall in Hmo. destruct (Hmo o Hin) as [Hp _].
      unfold nonempty_fp, no_fingerprint_key in *. rewrite attribute_app, Hp. reflexivity. }
    assert (Hsplit : split_fingerprint ("sha-256 " ++ upper h) = Ok (upper h, "sha-256")).
    { exact (split_advertised h Hsp). }
    unfold extract_fingerprint. rewrite chosen_is_spec. unfold placement_spec.
    assert (Hs : nonempty_fp (d_session d) = None).
    { unfold nonempty_fp, d. simpl. rewrite attribute_app. unfold no_fingerprint_key in Hso.
      now rewrite Hso. }
    rewrite Hs.
    destruct (String.eqb_spec (extract_bundle_id d) "") as [E|E]; cbn [negb].
    - (* no bundle group: the first section *)
      set (F := fun o : attrs * attrs => (fst o ++ fp_lines [("sha-256", h)] ++ snd o)%list).
      change (d_media d) with (map F mo).
      replace (first_some nonempty_fp (map F mo)) with (Some ("sha-256 " ++ upper h))
        by (symmetry; apply first_some_map_all; assumption).
      cbn [opt_str]. exact Hsplit.
    - destruct Hb as [Hb|[o [Hin Hmid]]]; [contradiction|].
      set (F := fun o : attrs * attrs => (fst o ++ fp_lines [("sha-256", h)] ++ snd o)%list).
      change (d_media d) with (map F mo).
      assert (X : first_some (fun m => match attribute "mid" m with
                                       | Some mid => if String.eqb mid (extract_bundle_id d)
                                                     then nonempty_fp m else None
                                       | None => None
                                       end) (map F mo) = Some ("sha-256 " ++ upper h)).
      { apply first_some_mid_all; [exact Hf|].
        exists o. split; [exact Hin|]. unfold F. rewrite attribute_app, Hmid. reflexivity. }
      rewrite X. cbn [opt_str]. exact Hsplit.
  Qed.

  (* and the advertised value verifies against the certificate it was computed from *)
  Lemma advertised_accepts c h :
    H "sha-256" c = Some h -> validate cert H [("sha-256", upper h)] c = Ok tt.
  Proof. intro E. simpl. now rewrite E, eqfold_upper. Qed.

  (* connection level, under the assumed contract of pion/dtls *)
  Section Connection.
    Variable completes : (cert -> result unit) -> cert -> bool.
    Hypothesis dtls_contract :
      forall verify c, completes verify c = true <-> verify c = Ok tt.

    Lemma connected_implies_match fps c :
      completes (validate cert H fps) c = true ->
      exists a v h, In (a, v) fps /\ H a c = Some h /\ eqfold h v = true.
    Proof. intro Hc. apply dtls_contract in Hc. now apply validate_sound. Qed.

    Lemma mismatch_never_connects fps c :
      (forall a v h, In (a, v) fps -> H a c = Some h -> eqfold h v = false) ->
      completes (validate cert H fps) c = false.
    Proof.
      intro Hno. destruct (completes (validate cert H fps) c) eqn:E; [|reflexivity].
      exfalso. apply dtls_contract in E. now apply (validate_reject fps c Hno).
    Qed.
  End Connection.
End HashProofs.

(* the certificate chain: only the leaf counts *)
Section ChainProofs.
  Variable raw cert : Type.
  Variable parse : raw -> option cert.
  Variable H : string -> cert -> option string.

  Lemma verify_peer_tail_irrelevant disabled fps leaf rest :
    verify_peer raw cert parse H disabled fps (leaf :: rest) =
    verify_peer raw cert parse H disabled fps [leaf].
  Proof. reflexivity. Qed.

  Lemma verify_peer_accept_leaf fps chain :
    snd (verify_peer raw cert parse H false fps chain) = Ok tt ->
    exists leaf rest c,
      chain = leaf :: rest /\ parse leaf = Some c /\ cert_matches cert H fps c /\
      fst (verify_peer raw cert parse H false fps chain) = Some leaf.
  Proof.
    destruct chain as [|leaf rest]; cbn [verify_peer snd fst]; [discriminate|].
    destruct (parse leaf) as [c|] eqn:P; [|discriminate].
    intro Hok. exists leaf, rest, c. repeat split; auto.
    now apply validate_sound.
  Qed.

  (* a chain whose leaf does not match is rejected whatever follows the leaf,
     in particular when a later entry is the very certificate that was
     signalled *)
  Lemma verify_peer_nonleaf_rejected fps leaf rest :
    (forall c, parse leaf = Some c -> ~ cert_matches cert H fps c) ->
    snd (verify_peer raw cert parse H false fps (leaf :: rest)) <> Ok tt.
  Proof.
    intros Hno Hok. apply verify_peer_accept_leaf in Hok.
    destruct Hok as [l [r [c [Heq [P [Hm _]]]]]]. inversion Heq; subst.
    exact (Hno c P Hm).
  Qed.

  Lemma verify_peer_records_leaf disabled fps leaf rest :
    fst (verify_peer raw cert parse H disabled fps (leaf :: rest)) = Some leaf.
  Proof. reflexivity. Qed.

  Lemma verify_peer_empty disabled fps :
    verify_peer raw cert parse H disabled fps [] = (None, Err "no-remote-certificate").
  Proof. reflexivity. Qed.

  Lemma verify_peer_never_panics disabled fps chain :
    snd (verify_peer raw cert parse H disabled fps chain) <> Panic.
  Proof.
    destruct chain as [|leaf rest]; cbn [verify_peer snd]; [discriminate|].
    destruct disabled; [discriminate|]. destruct (parse leaf); [|discriminate].
    apply validate_never_panics.
  Qed.
  Lemma chain_leaf_only fps :
    (forall chain, snd (verify_peer raw cert parse H false fps chain) = Ok tt ->
       exists leaf rest c,
         chain = leaf :: rest /\ parse leaf = Some c /\ cert_matches cert H fps c /\
         fst (verify_peer raw cert parse H false fps chain) = Some leaf) /\
    (forall leaf rest,
       (forall c, parse leaf = Some c -> ~ cert_matches cert H fps c) ->
       snd (verify_peer raw cert parse H false fps (leaf :: rest)) <> Ok tt) /\
    (forall disabled leaf rest,
       verify_peer raw cert parse H disabled fps (leaf :: rest) =
       verify_peer raw cert parse H disabled fps [leaf]).
  Proof.
    repeat split.
    - exact (verify_peer_accept_leaf fps).
    - exact (verify_peer_nonleaf_rejected fps).
  Qed.

  Lemma chain_total disabled fps :
    verify_peer raw cert parse H disabled fps [] = (None, Err "no-remote-certificate") /\
    (forall chain, snd (verify_peer raw cert parse H disabled fps chain) <> Panic).
  Proof. split; [reflexivity | exact (verify_peer_never_panics disabled fps)]. Qed.
End ChainProofs.

(* altering one character to a different letter/digit (not its case variant)
   changes the folded value *)
Lemma lower_app a b : lower (a ++ b) = lower a ++ lower b.
Proof. induction a as [|c t IH]; simpl; [reflexivity | now rewrite IH]. Qed.

Lemma app_inj_l (a b c : string) : a ++ b = a ++ c -> b = c.
Proof. induction a as [|x t IH]; simpl; [tauto | intro H; inversion H; now apply IH]. Qed.

Lemma altered_digit_differs pre x y post :
  lower_ascii x <> lower_ascii y ->
  lower (pre ++ String x post) <> lower (pre ++ String y post).
Proof.
  intros Hne Heq. rewrite !lower_app in Heq. apply app_inj_l in Heq.
  simpl in Heq. inversion Heq. contradiction.
Qed.
