(* The generated role decisions (coq/Gen/GoRoles.v, regenerated from
   dtlsrole.go, dtlstransport.go, peerconnection.go and pion/sdp's util.go by
   tools/go2coq on every C13 check) equal the hand-written ones of
   Model.Roles, for ALL integer arguments and all strings: DUnknown / IUnknown
   / CRzero stand for every value that is not one of the other declared
   constants.  Property neutral.

   Not translated (outside the subset, still tied by the differential run
   only): the two range loops of dtlsRoleFromSDP ("the first a=setup
   attribute of the first media section that has one decides, none gives
   auto") and SetAnsweringDTLSRole (assigns through a pointer receiver). *)
From Coq Require Import List ZArith String Bool Lia.
From Verif Require Import Common.Base Model.Roles Proofs.GenTactics.
From Verif Require Gen.GoRoles.
Open Scope Z_scope.

(* ---- adapters ---- *)
Definition rl_drole_of_Z (z : Z) : drole :=
  if z =? 1 then DAuto else if z =? 2 then DClient else if z =? 3 then DServer else DUnknown.
Definition rl_drole_to_Z (d : drole) : Z :=
  match d with DUnknown => 0 | DAuto => 1 | DClient => 2 | DServer => 3 end.
Definition rl_irole_of_Z (z : Z) : irole :=
  if z =? 1 then IControlling else if z =? 2 then IControlled else IUnknown.
Definition rl_crole_of_Z (z : Z) : crole :=
  if z =? 1 then CRactive else if z =? 2 then CRpassive else if z =? 3 then CRactpass
  else if z =? 4 then CRholdconn else CRzero.
Definition rl_crole_to_Z (c : crole) : Z :=
  match c with CRzero => 0 | CRactive => 1 | CRpassive => 2 | CRactpass => 3 | CRholdconn => 4 end.

(* connectionRoleFromDtlsRole *)
Lemma gen_conn_role_from_dtls_agrees : forall d : Z,
  GoRoles.connectionRoleFromDtlsRole d = rl_crole_to_Z (conn_role_from_dtls (rl_drole_of_Z d)).
Proof.
  intros d.
  first [ solve [ z_decision_tree ]
        | fail 1 "c13_generated_model_agrees_connectionRoleFromDtlsRole: GoRoles.connectionRoleFromDtlsRole (regenerated from dtlsrole.go) no longer equals Model.Roles.conn_role_from_dtls" ].
Qed.

(* pion/sdp ConnectionRole.String, read from the module cache *)
Lemma gen_crole_string_agrees : forall c : Z,
  GoRoles.sdp_ConnectionRole_String c = crole_string (rl_crole_of_Z c).
Proof.
  intros c.
  first [ solve [ z_decision_tree ]
        | fail 1 "c13_generated_model_agrees_ConnectionRole_String: GoRoles.sdp_ConnectionRole_String (regenerated from pion/sdp util.go) no longer equals Model.Roles.crole_string" ].
Qed.

(* dtlsRoleFromSDP: what one a=setup value means *)
Lemma gen_role_from_setup_value_agrees : forall v : string,
  GoRoles.dtlsRoleFromSDP_setup_value v = rl_drole_to_Z (role_from_sdp (Some v)).
Proof.
  intros v.
  first [ solve [ cbv -[String.eqb]; s_orient v; s_tree_go ]
        | fail 1 "c13_generated_model_agrees_dtlsRoleFromSDP: GoRoles.dtlsRoleFromSDP_setup_value (regenerated from dtlsrole.go) no longer equals Model.Roles.role_from_sdp" ].
Qed.

(* DTLSTransport.role *)
Lemma gen_dtls_role_agrees : forall remote answering ice : Z,
  GoRoles.DTLSTransport_role remote answering ice
  = rl_drole_to_Z (dtls_role (rl_drole_of_Z remote) (rl_drole_of_Z answering) (rl_irole_of_Z ice)).
Proof.
  intros remote answering ice.
  first [ solve [ z_decision_tree ]
        | fail 1 "c13_generated_model_agrees_DTLSTransport_role: GoRoles.DTLSTransport_role (regenerated from dtlstransport.go) no longer equals Model.Roles.dtls_role" ].
Qed.

(* CreateAnswer: the connection role written into the answer.  The Go lines
   read dtlsRoleFromSDP(remoteDesc.parsed); the model computes the same value
   from the offered a=setup text, so the generated function is applied to the
   model's role_from_sdp of that text. *)
Lemma gen_answer_conn_role_agrees : forall (answering : Z) (offer_setup : setup_text)
    (remote_lite local_lite : bool),
  GoRoles.CreateAnswer_connectionRole answering (rl_drole_to_Z (role_from_sdp offer_setup))
    remote_lite local_lite
  = rl_crole_to_Z (answer_conn_role (rl_drole_of_Z answering) offer_setup remote_lite local_lite).
Proof.
  intros answering offer_setup remote_lite local_lite.
  first [ solve [ unfold answer_conn_role; destruct (role_from_sdp offer_setup);
                  destruct remote_lite, local_lite; z_decision_tree ]
        | fail 1 "c13_generated_model_agrees_CreateAnswer: GoRoles.CreateAnswer_connectionRole (regenerated from peerconnection.go) no longer equals Model.Roles.answer_conn_role" ].
Qed.

(* SetRemoteDescription: the ICE role handed to startTransports.  weOffer and
   remoteIsLite are locals of SetRemoteDescription computed before these
   statements (desc.Type == SDPTypeAnswer; a=ice-lite of the remote
   description); they are parameters here. *)
Definition rl_irole_to_Z (i : irole) : Z :=
  match i with IUnknown => 0 | IControlling => 1 | IControlled => 2 end.

Lemma gen_ice_role_agrees : forall we_offer remote_lite local_lite : bool,
  GoRoles.SetRemoteDescription_iceRole we_offer remote_lite local_lite
  = rl_irole_to_Z (ice_role we_offer remote_lite local_lite).
Proof.
  intros we_offer remote_lite local_lite.
  first [ solve [ destruct we_offer, remote_lite, local_lite; reflexivity ]
        | fail 1 "c13_generated_model_agrees_iceRole: GoRoles.SetRemoteDescription_iceRole (regenerated from peerconnection.go) no longer equals Model.Roles.ice_role" ].
Qed.
