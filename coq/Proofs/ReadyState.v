(* C20 proofs *)
From Coq Require Import List Arith Bool Lia.
Import ListNotations.
From Verif Require Import Model.ReadyState.

(* ---------- handlers at most once (faithful model, every schedule) ---------- *)
Definition once_inv (s : st) : Prop :=
  open_calls s = (if open_fired s then 1 else 0) /\
  close_calls s = (if close_fired s then 1 else 0).

Lemma once_store : forall s r, once_inv s -> once_inv (store s r).
Proof. intros s r H. exact H. Qed.
Lemma once_upd : forall s g h dcc rls gn o pcd remd rld cl,
  once_inv s -> once_inv (upd s g h dcc rls gn o pcd remd rld cl).
Proof. intros. assumption. Qed.
Lemma once_fire_open : forall s, once_inv s -> once_inv (fire_open s).
Proof.
  intros s [H1 H2]. unfold fire_open.
  destruct (graceful s); cbn; [split; assumption|].
  destruct (open_fired s) eqn:E; cbn; [split; [rewrite E|]; assumption|].
  split; cbn; [rewrite H1; reflexivity|exact H2].
Qed.
Lemma once_fire_close : forall s, once_inv s -> once_inv (fire_close s).
Proof.
  intros s [H1 H2]. unfold fire_close.
  destruct (close_fired s) eqn:E; cbn; [split; [|rewrite E]; assumption|].
  split; cbn; [exact H1|rewrite H2; reflexivity].
Qed.

Lemma once_step : forall s t s', once_inv s -> step s t = Some s' -> once_inv s'.
Proof.
  intros s t s' I H.
  destruct t as [|[|[|[|j]]]]; cbn in H.
  - unfold open_step in H. destruct (o_pc s); [destruct (graceful s)| |discriminate];
      injection H as <-; auto using once_upd, once_fire_close, once_fire_open, once_store.
  - unfold pcclose_step in H. destruct (pc_done s); [discriminate|]. injection H as <-.
    auto using once_upd, once_store.
  - unfold remote_step in H. destruct (rem_done s); [discriminate|]. injection H as <-.
    auto using once_upd.
  - unfold rl_step in H. destruct (rl_started s && gone s && negb (rl_done s)); [|discriminate].
    injection H as <-. auto using once_upd, once_fire_close, once_store.
  - unfold close_step in H. destruct (nth_error (closers s) j) as [[|h|h|]|]; try discriminate.
    + injection H as <-. auto using once_upd.
    + destruct (rstate_eqb (rs s) Closed); injection H as <-; unfold set_closers; auto using once_upd.
    + injection H as <-. auto using once_upd, once_store.
Qed.

Lemma once_run : forall sch s, once_inv s -> once_inv (run s sch).
Proof.
  induction sch as [|t rest IH]; intros s I; [exact I|].
  cbn. destruct (step s t) eqn:Hs; [|apply IH; exact I].
  apply IH. eapply once_step; eauto.
Qed.

Lemma handlers_at_most_once : forall n sch,
  open_calls (run (init n) sch) <= 1 /\ close_calls (run (init n) sch) <= 1.
Proof.
  intros n sch. assert (once_inv (run (init n) sch)) as [H1 H2].
  { apply once_run. split; reflexivity. }
  rewrite H1, H2. destruct (open_fired _), (close_fired _); lia.
Qed.

(* ---------- Send ---------- *)
Lemma send_not_open : forall s, rs s <> Open -> send s = SendClosedPipe.
Proof. intros s H. unfold send. destruct (rs s); try reflexivity. congruence. Qed.

(* ---------- witnesses (faithful model) ---------- *)
Lemma refuted_close_window :
  let s := run (init 1) [4; 4; 1; 4] in
  hist s = [Closed; Closing] /\ monotone s = false /\ rs s = Closing /\ pc_done s = true.
Proof. vm_compute. repeat split; reflexivity. Qed.

Lemma refuted_open_window :
  let s := run (init 1) [0; 4; 4; 4; 0] in
  hist s = [Closing; Open] /\ monotone s = false /\ rs s = Open /\ rl_started s = false.
Proof. vm_compute. repeat split; reflexivity. Qed.

Lemma refuted_open_after_pcclose :
  let s := run (init 0) [0; 1; 0] in
  hist s = [Closed; Open] /\ monotone s = false.
Proof. vm_compute. repeat split; reflexivity. Qed.

(* sequential: Close while connecting, the channel opens, the transport goes *)
Lemma refuted_never_closed :
  let s := run (init 1) [4; 4; 4; 0; 2; 3] in
  closers s = [CDone] /\ o_pc s = ODone /\ gone s = true /\ close_calls s = 1 /\
  monotone s = true /\ rs s = Closing /\ step s 3 = None.
Proof. vm_compute. repeat split; reflexivity. Qed.

(* ---------- the guarded model: windows atomic, handleOpen not after PeerConnection.Close ---------- *)
Lemma last_cons_default : forall (t : list rstate) a r, last (a :: t) r = last t a.
Proof.
  induction t as [|b u IH]; intros a r; [reflexivity|].
  change (last (a :: b :: u) r) with (last (b :: u) r).
  rewrite (IH b r), (IH b a). reflexivity.
Qed.

Lemma monotone_snoc : forall l r x,
  monotone_from r (l ++ [x]) = monotone_from r l && Nat.leb (rank (last l r)) (rank x).
Proof.
  induction l as [|a t IH]; intros r x.
  - cbn. rewrite andb_true_r. reflexivity.
  - cbn [app monotone_from]. rewrite IH, last_cons_default, andb_assoc. reflexivity.
Qed.

Lemma last_snoc : forall (l : list rstate) r x, last (l ++ [x]) r = x.
Proof. intros. apply last_last. Qed.

Definition no_set (c : cpc) : Prop := match c with CSet _ => False | _ => True end.
Definition is_start (c : cpc) : Prop := c = CStart.

Lemma Forall_set_nth : forall A (P : A -> Prop) j x l,
  Forall P l -> P x -> Forall P (set_nth j x l).
Proof.
  intros A P j x l. revert j. induction l as [|a t IH]; intros j Hl Hx; [destruct j; constructor|].
  inversion Hl; subst. destruct j; cbn; constructor; auto.
Qed.

Lemma nth_set_nth_same : forall A j (x y : A) l,
  nth_error l j = Some y -> nth_error (set_nth j x l) j = Some x.
Proof.
  intros A j x y l. revert j. induction l as [|a t IH]; intros j H.
  - destruct j; discriminate.
  - destruct j; cbn in *; [reflexivity|]. eapply IH. exact H.
Qed.

Lemma set_nth_twice : forall A j (x y : A) l, set_nth j y (set_nth j x l) = set_nth j y l.
Proof.
  intros A j x y l. revert j. induction l as [|a t IH]; intros j; [destruct j; reflexivity|].
  destruct j; cbn; [reflexivity|]. rewrite IH. reflexivity.
Qed.

Record invA (s : st) : Prop := {
  a_mono : monotone_from Connecting (hist s) = true;
  a_last : last (hist s) Connecting = rs s;
  a_opc : o_pc s <> OSetOpen;
  a_cl : Forall no_set (closers s);
  a_f1 : graceful s = false -> pc_done s = false -> o_pc s = OStart -> rs s = Connecting;
  a_f2 : graceful s = false -> Forall is_start (closers s);
  a_f3 : rl_started s = true -> o_pc s = ODone;
  a_f4 : pc_done s = true \/ rl_done s = true -> rs s = Closed;
  a_f5 : rl_done s = true -> rl_started s = true
}.

Lemma invA_init : forall n, invA (init n).
Proof.
  intros n. constructor; cbn; try reflexivity; try discriminate; auto.
  - apply Forall_forall. intros c Hc. apply repeat_spec in Hc. subst. exact I.
  - intros _. apply Forall_forall. intros c Hc. apply repeat_spec in Hc. exact Hc.
  - intros [H|H]; discriminate.
Qed.

Lemma rank_closed_max : forall r, rank r <= 3.
Proof. destruct r; cbn; lia. Qed.

Lemma Some_inj : forall A (x y : A), Some x = Some y -> x = y.
Proof. intros A x y H. injection H as H. exact H. Qed.
Ltac inj H := apply Some_inj in H; subst.

Lemma invA_step : forall s t s', invA s -> stepA s t = Some s' -> invA s'.
Proof.
  intros s t s' A H.
  pose proof (a_mono _ A) as Hm. pose proof (a_last _ A) as Hl.
  destruct t as [|[|[|[|j]]]].
  - (* handleOpen, both blocks *)
    cbn in H. destruct (pc_done s) eqn:Hpc; [discriminate|].
    unfold open_step in H. destruct (o_pc s) eqn:Ho.
    + destruct (graceful s) eqn:Hg.
      * (* closed during connecting: dc.Close(); onClose() *)
        unfold fire_close in H; cbn in H. destruct (close_fired s); cbn in H; rewrite ?Ho in H; cbn in H;
          inj H; constructor; cbn; auto; try (apply A); try discriminate;
          rewrite ?Hg; try discriminate.
      * cbn in H. unfold open_step in H. cbn in H.
        pose proof (a_f1 _ A Hg Hpc Ho) as Hrs.
        assert (rl_done s = false) as Hrl.
        { destruct (rl_done s) eqn:E; [|reflexivity].
          pose proof (a_f3 _ A (a_f5 _ A E)) as Hx. congruence. }
        unfold fire_open in H. cbn in H. rewrite ?Hg in H. cbn in H.
        destruct (open_fired s); cbn in H; rewrite ?Hg in H; cbn in H; inj H;
          constructor; cbn; auto; try (apply A); try discriminate;
          try (rewrite monotone_snoc, Hm, Hl, Hrs; reflexivity);
          try (apply last_snoc);
          try (intros [Hx|Hx]; congruence);
          try (intros _; apply (a_f2 _ A Hg)).
    + exfalso. exact (a_opc _ A Ho).
    + discriminate.
  - (* PeerConnection.Close *)
    cbn in H. unfold pcclose_step in H. destruct (pc_done s) eqn:Hpc; [discriminate|].
    cbn in H. inj H. constructor; cbn; auto; try (apply A); try discriminate.
    + rewrite monotone_snoc, Hm. cbn. apply Nat.leb_le. apply rank_closed_max.
    + apply last_snoc.
  - (* remote close *)
    cbn in H. unfold remote_step in H. destruct (rem_done s); [discriminate|].
    cbn in H. inj H. constructor; cbn; auto; apply A.
  - (* readLoop exit *)
    cbn in H. unfold rl_step in H.
    destruct (rl_started s) eqn:Hrs; cbn in H; [|discriminate].
    destruct (gone s); cbn in H; [|discriminate].
    destruct (rl_done s) eqn:Hrd; cbn in H; [discriminate|].
    pose proof (a_f3 _ A Hrs) as Ho.
    unfold fire_close in H. cbn in H.
    destruct (close_fired s); cbn in H; inj H; constructor; cbn; auto;
      try (apply A); try discriminate;
      try (rewrite monotone_snoc, Hm; cbn; apply Nat.leb_le; apply rank_closed_max);
      try (apply last_snoc); try (intros; congruence).
  - (* Close *)
    change (stepA s (S (S (S (S j))))) with
      (match step s (4 + j) with
       | Some s' => if in_window s' (4 + j) then step s' (4 + j) else Some s'
       | None => None
       end) in H.
    cbn [step Nat.add] in H. unfold close_step in H at 1.
    destruct (nth_error (closers s) j) as [c|] eqn:Hj; [|discriminate].
    destruct c as [|h|h|].
    + (* CStart *)
      cbn in H. rewrite (nth_set_nth_same _ _ _ _ _ Hj) in H. inj H.
      constructor; cbn; auto; try (apply A); try discriminate.
      apply Forall_set_nth; [apply A|exact I].
    + (* CCheck: check and store in one block *)
      assert (graceful s = true) as Hg.
      { destruct (graceful s) eqn:E; [reflexivity|].
        pose proof (a_f2 _ A E) as Hf. rewrite Forall_forall in Hf.
        specialize (Hf _ (nth_error_In _ _ Hj)). discriminate. }
      destruct (rstate_eqb (rs s) Closed) eqn:Hc.
      * cbn in H. rewrite (nth_set_nth_same _ _ _ _ _ Hj) in H. inj H.
        constructor; cbn; auto; try (apply A); try (rewrite Hg; discriminate).
        apply Forall_set_nth; [apply A|exact I].
      * cbn in H. rewrite (nth_set_nth_same _ _ _ _ _ Hj) in H.
        unfold close_step in H. cbn in H. rewrite (nth_set_nth_same _ _ _ _ _ Hj) in H.
        assert (rs s <> Closed) as Hnc.
        { intros E. rewrite E in Hc. discriminate. }
        inj H. rewrite set_nth_twice.
        constructor; cbn; auto; try (apply A); try (rewrite Hg; discriminate).
        -- rewrite monotone_snoc, Hm, Hl. destruct (rs s); try reflexivity. congruence.
        -- apply last_snoc.
        -- apply Forall_set_nth; [apply A|exact I].
        -- intros Hx. exfalso. apply Hnc. apply (a_f4 _ A Hx).
    + (* CSet cannot be a resting position *)
      exfalso. pose proof (a_cl _ A) as Hf. rewrite Forall_forall in Hf.
      exact (Hf _ (nth_error_In _ _ Hj)).
    + discriminate.
Qed.

Lemma invA_run : forall sch s, invA s -> invA (runA s sch).
Proof.
  induction sch as [|t rest IH]; intros s A; [exact A|].
  cbn. destruct (stepA s t) eqn:Hs; [|apply IH; exact A].
  apply IH. eapply invA_step; eauto.
Qed.

Lemma monotone_partial : forall n sch,
  let s := runA (init n) sch in
  monotone s = true /\ (pc_done s = true \/ rl_done s = true -> rs s = Closed).
Proof.
  intros n sch s. assert (invA s) as A by (apply invA_run, invA_init).
  split; [apply (a_mono _ A)|apply (a_f4 _ A)].
Qed.

(* ---------- the guarded runs are runs of the faithful model ---------- *)
Lemma run_app : forall a b s, run s (a ++ b) = run (run s a) b.
Proof.
  induction a as [|t r IH]; intros b s; [reflexivity|].
  cbn [app run]. destruct (step s t); apply IH.
Qed.

Lemma stepA_is_run : forall s t s', stepA s t = Some s' -> exists sch, run s sch = s'.
Proof.
  intros s t s' H.
  assert (forall u, (match step s u with
                     | Some s1 => if in_window s1 u then step s1 u else Some s1
                     | None => None
                     end) = Some s' -> exists sch, run s sch = s') as G.
  { intros u Hu. destruct (step s u) as [s1|] eqn:H1; [|discriminate].
    destruct (in_window s1 u).
    - exists [u; u]. cbn. rewrite H1, Hu. reflexivity.
    - injection Hu as <-. exists [u]. cbn. rewrite H1. reflexivity. }
  destruct t as [|t]; cbn [stepA] in H.
  - destruct (pc_done s); [discriminate|]. apply (G 0 H).
  - apply (G (S t) H).
Qed.

Lemma runA_is_run : forall sch s, exists sch', runA s sch = run s sch'.
Proof.
  induction sch as [|t rest IH]; intros s; [exists []; reflexivity|].
  cbn. destruct (stepA s t) as [s'|] eqn:Hs; [|apply IH].
  destruct (IH s') as [sch' E]. destruct (stepA_is_run _ _ _ Hs) as [pre Hp].
  exists (pre ++ sch'). rewrite run_app, Hp. exact E.
Qed.

(* ---------- statements in the form used by Properties/C20.v ---------- *)
Lemma refuted_close_window_ex :
  exists nclose sch,
    let s := run (init nclose) sch in
    monotone s = false /\ hist s = [Closed; Closing] /\ rs s = Closing /\ pc_done s = true.
Proof.
  exists 1, [4; 4; 1; 4]. cbv zeta.
  destruct refuted_close_window as (H1 & H2 & H3 & H4). repeat split; assumption.
Qed.

Lemma refuted_open_window_ex :
  exists nclose sch,
    let s := run (init nclose) sch in
    monotone s = false /\ hist s = [Closing; Open] /\ rs s = Open /\ rl_started s = false.
Proof.
  exists 1, [0; 4; 4; 4; 0]. cbv zeta.
  destruct refuted_open_window as (H1 & H2 & H3 & H4). repeat split; assumption.
Qed.

Lemma refuted_open_after_pcclose_ex :
  exists sch, let s := run (init 0) sch in monotone s = false /\ hist s = [Closed; Open].
Proof.
  exists [0; 1; 0]. cbv zeta. destruct refuted_open_after_pcclose as (H1 & H2). auto.
Qed.

Lemma refuted_never_closed_ex :
  exists sch,
    let s := run (init 1) sch in
    closers s = [CDone] /\ o_pc s = ODone /\ gone s = true /\ step s 3 = None /\
    close_calls s = 1 /\ rs s = Closing.
Proof.
  exists [4; 4; 4; 0; 2; 3]. cbv zeta.
  destruct refuted_never_closed as (H1 & H2 & H3 & H4 & H5 & H6 & H7).
  repeat split; assumption.
Qed.
