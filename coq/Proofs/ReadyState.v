(* C20 proofs: general lemmas, readyState monotone, closed at rest *)
From Coq Require Import List Arith Bool Lia.
Import ListNotations.
From Verif Require Import Model.ReadyState.

(* ---------- tactics ---------- *)
Lemma Some_inj : forall A (x y : A), Some x = Some y -> x = y.
Proof. intros A x y H. injection H as H. exact H. Qed.

(* split the hypothesis [H : <step function> = Some s'] into its branches *)
Ltac break_hyp H :=
  repeat match type of H with
         | context [match ?x with _ => _ end] =>
             let E := fresh "E" in destruct x eqn:E
         end;
  try discriminate H.

Ltac step_inv H :=
  break_hyp H; apply Some_inj in H; subst.

(* ---------- lists ---------- *)
Lemma Forall_set_nth : forall A (P : A -> Prop) j x l,
  Forall P l -> P x -> Forall P (set_nth j x l).
Proof.
  intros A P j x l. revert j. induction l as [|a t IH]; intros j Hl Hx; [destruct j; constructor|].
  inversion Hl; subst. destruct j; cbn; constructor; auto.
Qed.

Lemma Forall_nth_error : forall A (P : A -> Prop) l j x,
  Forall P l -> nth_error l j = Some x -> P x.
Proof.
  intros A P l j x Hl Hj. rewrite Forall_forall in Hl. apply Hl. eapply nth_error_In; eauto.
Qed.

Lemma nth_set_nth_same : forall A j (x y : A) l,
  nth_error l j = Some y -> nth_error (set_nth j x l) j = Some x.
Proof.
  intros A j x y l. revert j. induction l as [|a t IH]; intros j H.
  - destruct j; discriminate.
  - destruct j; cbn in *; [reflexivity|]. eapply IH. exact H.
Qed.

Lemma nth_set_nth_other : forall A i j (x : A) l,
  i <> j -> nth_error (set_nth j x l) i = nth_error l i.
Proof.
  intros A i j x l. revert i j. induction l as [|a t IH]; intros i j H.
  - destruct j; reflexivity.
  - destruct j, i; cbn; try reflexivity; [congruence|]. apply IH. congruence.
Qed.

(* ---------- runs ---------- *)
Lemma run_inv : forall v c (P : st -> Prop),
  (forall s t s', P s -> step v c s t = Some s' -> P s') ->
  forall sch s, P s -> P (run v c s sch).
Proof.
  intros v c P Hstep. induction sch as [|t rest IH]; intros s Hs; [exact Hs|].
  cbn. destruct (step v c s t) eqn:E; [|apply IH; exact Hs].
  apply IH. eapply Hstep; eauto.
Qed.

Lemma run_app : forall v c a b s, run v c s (a ++ b) = run v c (run v c s a) b.
Proof.
  intros v c. induction a as [|t r IH]; intros b s; [reflexivity|].
  cbn [app run]. destruct (step v c s t); apply IH.
Qed.

(* ---------- readyState only moves forward (post, every schedule) ---------- *)
Lemma last_cons_default : forall (t : list rstate) a r, last (a :: t) r = last t a.
Proof.
  induction t as [|b u IH]; intros a r; [reflexivity|].
  change (last (a :: b :: u) r) with (last (b :: u) r).
  rewrite (IH b r), (IH b a). reflexivity.
Qed.

Lemma monotone_snoc : forall l r x,
  monotone_from r (l ++ [x]) = monotone_from r l && Nat.leb (rank (last l r)) (rank x).
Proof.
  induction l as [|a t IH]; intros r x.
  - cbn. rewrite andb_true_r. reflexivity.
  - cbn [app monotone_from]. rewrite IH, last_cons_default, andb_assoc. reflexivity.
Qed.

Definition good (s : st) : Prop :=
  monotone_from Connecting (hist s) = true /\ last (hist s) Connecting = rs s.

Lemma good_store : forall s r, good s -> good (store post s r).
Proof.
  intros s r [Hm Hl]. unfold good, store, dropped. cbn.
  destruct (Nat.leb (rank r) (rank (rs s))) eqn:E; [split; assumption|].
  split; [|apply last_last].
  rewrite monotone_snoc, Hm, Hl. cbn. apply Nat.leb_le. apply Nat.leb_gt in E. lia.
Qed.

(* what a step does to (rs, hist): nothing, or a few stores *)
Inductive stores : st -> st -> Prop :=
| stores_same : forall s s', rs s' = rs s -> hist s' = hist s -> stores s s'
| stores_store : forall s s1 s' r,
    stores s s1 -> rs s' = rs (store post s1 r) -> hist s' = hist (store post s1 r) -> stores s s'.

Lemma good_stores : forall s s', stores s s' -> good s -> good s'.
Proof.
  intros s s' H. induction H as [s s' Hr Hh|s s1 s' r _ IH Hr Hh]; intros G.
  - destruct G as [Gm Gl]. unfold good. rewrite Hr, Hh. split; assumption.
  - specialize (IH G). apply (good_store s1 r) in IH. destruct IH as [Gm Gl].
    unfold good. rewrite Hr, Hh. split; assumption.
Qed.

Ltac stores_tac :=
  first [ solve [apply stores_same; reflexivity]
        | solve [eapply stores_store; [apply stores_same; reflexivity|reflexivity|reflexivity]]
        | solve [eapply stores_store;
                 [eapply stores_store; [apply stores_same; reflexivity|reflexivity|reflexivity]
                 |reflexivity|reflexivity]] ].

Lemma step_stores : forall c s t s', step post c s t = Some s' -> stores s s'.
Proof.
  intros c s t s' H. destruct t; cbn [step] in H.
  - unfold open_step, open_tail in H. cbn [fix_state post] in H. step_inv H; stores_tac.
  - unfold pcclose_step in H. step_inv H; stores_tac.
  - unfold remote_step in H. step_inv H; stores_tac.
  - unfold rl_step in H. step_inv H; stores_tac.
  - unfold close_step in H. step_inv H; stores_tac.
  - unfold reg_open_step in H. step_inv H; stores_tac.
  - unfold reg_close_step in H. step_inv H; stores_tac.
  - step_inv H; stores_tac.
  - step_inv H; stores_tac.
  - unfold detach_step in H. step_inv H; stores_tac.
  - apply Some_inj in H. subst. stores_tac.
Qed.

Lemma good_init : forall c, good (init c).
Proof. intros c. split; reflexivity. Qed.

Lemma good_run : forall c sch, good (run post c (init c) sch).
Proof.
  intros c sch. apply (run_inv post c good); [|apply good_init].
  intros s t s' G H. eapply good_stores; [eapply step_stores; eauto|exact G].
Qed.

Lemma monotone_full : forall c sch, monotone (run post c (init c) sch) = true.
Proof. intros c sch. apply (good_run c sch). Qed.

(* closed is final *)
Lemma rank_closed_max : forall r, rank r <= 3.
Proof. destruct r; cbn; lia. Qed.

Lemma store_closed_stays : forall s r, rs s = Closed -> rs (store post s r) = Closed.
Proof.
  intros s r H. unfold store, dropped. cbn. rewrite H.
  destruct r; reflexivity.
Qed.

Lemma stores_closed : forall s s', stores s s' -> rs s = Closed -> rs s' = Closed.
Proof.
  intros s s' H. induction H as [s s' Hr Hh|s s1 s' r _ IH Hr Hh]; intros G.
  - congruence.
  - rewrite Hr. apply store_closed_stays. auto.
Qed.

Lemma closed_stable_step : forall c s t s',
  rs s = Closed -> step post c s t = Some s' -> rs s' = Closed.
Proof. intros c s t s' G H. eapply stores_closed; [eapply step_stores; eauto|exact G]. Qed.

Lemma closed_stable_run : forall c sch s, rs s = Closed -> rs (run post c s sch) = Closed.
Proof.
  intros c sch s H. apply (run_inv post c (fun s => rs s = Closed)); [|exact H].
  intros; eapply closed_stable_step; eauto.
Qed.

Lemma closed_is_final : forall c sch1 sch2,
  rs (run post c (init c) sch1) = Closed -> rs (run post c (init c) (sch1 ++ sch2)) = Closed.
Proof. intros c sch1 sch2 H. rewrite run_app. apply closed_stable_run. exact H. Qed.
