(* C20 proofs: closed once everything is at rest, handlers at most once,
   Send, GracefulClose waits for the read loop (post, every schedule) *)
From Coq Require Import List Arith Bool Lia.
Import ListNotations.
From Verif Require Import Model.ReadyState Proofs.ReadyState.

(* all store conditionals compute once rs s is known *)
Ltac by_rs s := destruct (rs s) eqn:Hrs.
Ltac use_rs :=
  repeat match goal with
         | Hr : rs ?s = _ |- context [rs ?s] => rewrite Hr
         | Hr : rs ?s = _, H : context [rs ?s] |- _ =>
             tryif constr_eq H Hr then fail else rewrite Hr in H
         end.

(* ---------- closed at rest ---------- *)
Record invB (s : st) : Prop := {
  b_list : in_list s = true;
  b_open_done : o_pc s = ODone -> rl_started s = true \/ rs s = Closed;
  b_fireclose : forall h, o_pc s = OFireClose h -> rs s = Closed;
  b_rl : rl_pc s <> RRun -> rs s = Closed;
  b_pc : pc_done s = true -> rs s = Closed
}.

Lemma invB_init : forall c, invB (init c).
Proof.
  intros c. constructor; cbn; try reflexivity; try discriminate; try congruence.
Qed.

Ltac invB_finish A :=
  constructor; cbn [in_list o_pc rl_pc pc_done rl_started rs store set_rs set_flags set_evo set_evc
                    set_pcs set_graceful set_have_dc set_dc_closed set_rl_started set_gone
                    set_unlisted set_opc set_pc_done set_rem_done set_rlpc set_closers
                    set_regs_o set_regs_c dropped fix_state post rank Nat.leb andb];
  try (apply (b_list _ A));
  intros; use_rs; cbn [in_list o_pc rl_pc pc_done rl_started rs store set_rs set_flags set_evo set_evc
                    set_pcs set_graceful set_have_dc set_dc_closed set_rl_started set_gone
                    set_unlisted set_opc set_pc_done set_rem_done set_rlpc set_closers
                    set_regs_o set_regs_c dropped fix_state post rank Nat.leb andb];
  try discriminate; try congruence;
  try (pose proof (b_open_done _ A));
  try (pose proof (b_rl _ A));
  try (pose proof (b_pc _ A));
  try solve [auto | intuition congruence | right; reflexivity | left; reflexivity
            | exfalso; intuition congruence
            | match goal with E : o_pc _ = OFireClose ?h |- _ =>
                pose proof (b_fireclose _ A h E); intuition congruence end].

Lemma invB_step : forall c s t s',
  detach c = false -> invB s -> step post c s t = Some s' -> invB s'.
Proof.
  intros c s t s' Hd A H. destruct t; cbn [step] in H.
  - unfold open_step, open_tail in H. cbn [fix_state post] in H. rewrite ?Hd in H.
    by_rs s; step_inv H; invB_finish A.
  - unfold pcclose_step in H. rewrite (b_list _ A) in H.
    by_rs s; step_inv H; invB_finish A.
  - unfold remote_step in H. by_rs s; step_inv H; invB_finish A.
  - unfold rl_step in H. by_rs s; step_inv H; invB_finish A.
  - unfold close_step in H. by_rs s; step_inv H; invB_finish A.
  - unfold reg_open_step in H. by_rs s; step_inv H; invB_finish A.
  - unfold reg_close_step in H. by_rs s; step_inv H; invB_finish A.
  - by_rs s; step_inv H; invB_finish A.
  - by_rs s; step_inv H; invB_finish A.
  - unfold detach_step, detach_call in H. rewrite Hd in H. cbn in H.
    apply Some_inj in H. subst. exact A.
  - apply Some_inj in H. subst. exact A.
Qed.

Lemma invB_run : forall c sch, detach c = false -> invB (run post c (init c) sch).
Proof.
  intros c sch Hd. apply (run_inv post c invB); [|apply invB_init].
  intros s t s' A H. eapply invB_step; eauto.
Qed.

(* the transport is gone and every thread of the channel has come to rest:
   readyState is closed *)
Lemma closed_at_rest : forall c sch,
  detach c = false ->
  let s := run post c (init c) sch in
  gone s = true -> at_rest post s = true -> rs s = Closed.
Proof.
  intros c sch Hd s Hg Hr. pose proof (invB_run c sch Hd) as A. fold s in A.
  unfold at_rest in Hr. apply andb_prop in Hr. destruct Hr as [Hr Hrl].
  apply andb_prop in Hr. destruct Hr as [Ho _].
  destruct (o_pc s) eqn:Eo; try discriminate.
  destruct (b_open_done _ A Eo) as [Hs|Hc]; [|exact Hc].
  unfold rl_step in Hrl. rewrite Hs, Hg in Hrl. cbn in Hrl.
  destruct (rl_pc s) eqn:Er; [discriminate| |]; apply (b_rl _ A); congruence.
Qed.

(* once PeerConnection.Close or the read loop's exit has run, closed (no rest needed) *)
Lemma closed_after_teardown : forall c sch,
  detach c = false ->
  let s := run post c (init c) sch in
  pc_done s = true \/ rl_pc s <> RRun -> rs s = Closed.
Proof.
  intros c sch Hd s [H|H]; pose proof (invB_run c sch Hd) as A; fold s in A.
  - apply (b_pc _ A H).
  - apply (b_rl _ A H).
Qed.

(* ---------- handlers at most once per registration ---------- *)
Definition once_ev (e : ev) : Prop :=
  forall k, calls e k = if fired e k then 1 else 0.
Definition once_inv (s : st) : Prop := once_ev (evo s) /\ once_ev (evc s).

Lemma once_ev_spawn : forall e h, once_ev e -> once_ev (ev_spawn e h).
Proof. intros e [k|] H; exact H. Qed.
Lemma once_ev_register : forall e k, once_ev e -> once_ev (ev_register post e k).
Proof. intros e k H. exact H. Qed.
Lemma once_ev_do : forall e i e', once_ev e -> ev_do post e i = Some e' -> once_ev e'.
Proof.
  intros e i e' H D. unfold ev_do in D. cbn [fix_once post] in D.
  destruct (nth_error (pend e) i) as [k|]; [|discriminate].
  destruct (fired e k) eqn:F; apply Some_inj in D; subst; [exact H|].
  intros j. cbn. unfold upd. destruct (Nat.eqb j k) eqn:E.
  - apply Nat.eqb_eq in E. subst. rewrite (H k), F. reflexivity.
  - apply H.
Qed.

Lemma once_step : forall c s t s', once_inv s -> step post c s t = Some s' -> once_inv s'.
Proof.
  intros c s t s' [Io Ic] H. destruct t; cbn [step] in H.
  - unfold open_step, open_tail in H. cbn [fix_state post] in H.
    step_inv H; split; cbn -[ev_spawn ev_register]; auto using once_ev_spawn.
  - unfold pcclose_step in H. step_inv H; split; cbn -[ev_spawn ev_register]; auto.
  - unfold remote_step in H. step_inv H; split; cbn -[ev_spawn ev_register]; auto.
  - unfold rl_step in H. step_inv H; split; cbn -[ev_spawn ev_register]; auto using once_ev_spawn.
  - unfold close_step in H. step_inv H; split; cbn -[ev_spawn ev_register]; auto.
  - unfold reg_open_step in H.
    step_inv H; split; cbn -[ev_spawn ev_register]; auto using once_ev_spawn, once_ev_register.
  - unfold reg_close_step in H.
    step_inv H; split; cbn -[ev_spawn ev_register]; auto using once_ev_spawn, once_ev_register.
  - destruct (ev_do post (evo s) i) eqn:D; [|discriminate]. apply Some_inj in H. subst.
    split; cbn; [exact (once_ev_do _ _ _ Io D)|exact Ic].
  - destruct (ev_do post (evc s) i) eqn:D; [|discriminate]. apply Some_inj in H. subst.
    split; cbn; [exact Io|exact (once_ev_do _ _ _ Ic D)].
  - unfold detach_step in H. step_inv H; split; cbn -[ev_spawn ev_register]; auto.
  - apply Some_inj in H. subst. split; assumption.
Qed.

Lemma handlers_at_most_once : forall c sch k,
  let s := run post c (init c) sch in
  calls (evo s) k <= 1 /\ calls (evc s) k <= 1.
Proof.
  intros c sch k s.
  assert (once_inv s) as [Io Ic].
  { apply (run_inv post c once_inv); [intros; eapply once_step; eauto|].
    split; intros j; reflexivity. }
  rewrite (Io k), (Ic k). destruct (fired _ k), (fired _ k); lia.
Qed.

(* ---------- Send ---------- *)
Lemma send_not_open : forall s, rs s <> Open -> send s = SendClosedPipe.
Proof. intros s H. unfold send. destruct (rs s); try reflexivity. congruence. Qed.

(* open implies that d.dataChannel is set: Send never dereferences nil *)
Record invN (s : st) : Prop := {
  n_open : rs s = Open -> have_dc s = true;
  n_pc : o_pc s = OSetOpen -> have_dc s = true
}.

Ltac invN_finish A :=
  constructor; cbn [have_dc o_pc rs store set_rs set_flags set_evo set_evc
                    set_pcs set_graceful set_have_dc set_dc_closed set_rl_started set_gone
                    set_unlisted set_opc set_pc_done set_rem_done set_rlpc set_closers
                    set_regs_o set_regs_c dropped fix_state post rank Nat.leb andb];
  intros; unfold dropped in *; use_rs; cbn in *; cbn [have_dc o_pc rs store set_rs set_flags set_evo set_evc
                    set_pcs set_graceful set_have_dc set_dc_closed set_rl_started set_gone
                    set_unlisted set_opc set_pc_done set_rem_done set_rlpc set_closers
                    set_regs_o set_regs_c dropped fix_state post rank Nat.leb andb];
  try discriminate; try congruence; try reflexivity;
  try (apply (n_pc _ A); congruence); try (apply (n_open _ A); congruence).

Lemma invN_step : forall v c s t s', invN s -> step v c s t = Some s' -> invN s'.
Proof.
  intros v c s t s' A H. destruct v as [fs fo].
  destruct t; cbn [step] in H.
  - unfold open_step, open_tail in H.
    by_rs s; destruct fs; step_inv H; invN_finish A.
  - unfold pcclose_step in H.
    by_rs s; destruct fs; step_inv H; invN_finish A.
  - unfold remote_step in H. step_inv H; invN_finish A.
  - unfold rl_step in H. by_rs s; destruct fs; step_inv H; invN_finish A.
  - unfold close_step in H. by_rs s; destruct fs; step_inv H; invN_finish A.
  - unfold reg_open_step in H. step_inv H; invN_finish A.
  - unfold reg_close_step in H. step_inv H; invN_finish A.
  - step_inv H; invN_finish A.
  - step_inv H; invN_finish A.
  - unfold detach_step in H. step_inv H; invN_finish A.
  - apply Some_inj in H. subst. exact A.
Qed.

Lemma send_never_nil : forall v c sch, send (run v c (init c) sch) <> SendNilChannel.
Proof.
  intros v c sch.
  assert (invN (run v c (init c) sch)) as A.
  { apply (run_inv v c invN); [intros; eapply invN_step; eauto|].
    constructor; cbn; discriminate. }
  unfold send. destruct (rstate_eqb (rs _) Open) eqn:E; cbn; [|discriminate].
  assert (rs (run v c (init c) sch) = Open) as Ho.
  { destruct (rs _); try discriminate; reflexivity. }
  rewrite (n_open _ A Ho). cbn. destruct (gone _); [discriminate|].
  destruct (dc_closed _); discriminate.
Qed.

(* ---------- GracefulClose returns only when no read loop is running ---------- *)
Definition cw_ok (rls rld : bool) (x : bool * cpc) : Prop :=
  fst x = true ->
  match snd x with
  | CCheck _ false | CSet _ false => rls = false
  | CDone => rls = true -> rld = true
  | _ => True
  end.

Record invG (s : st) : Prop := {
  g_start : graceful s = false -> Forall (fun x => snd x = CStart) (closers s);
  g_wait : Forall (cw_ok (rl_started s) (rl_done s)) (closers s)
}.

Lemma cw_ok_start : forall a b l,
  Forall (fun x : bool * cpc => snd x = CStart) l -> Forall (cw_ok a b) l.
Proof.
  intros a b l H. eapply Forall_impl; [|exact H].
  intros [g p] Hp _. cbn in *. subst. exact I.
Qed.

Lemma cw_ok_done : forall a b l, Forall (cw_ok a b) l -> Forall (cw_ok a true) l.
Proof.
  intros a b l H. eapply Forall_impl; [|exact H].
  intros [g p] Hp Hg. specialize (Hp Hg). cbn in *.
  destruct p as [|h [|]|h [|]| |]; auto.
Qed.

Lemma invG_init : forall c, invG (init c).
Proof.
  intros c. assert (Forall (fun x : bool * cpc => snd x = CStart) (closers (init c))) as H.
  { cbn. apply Forall_forall. intros x Hx. apply in_map_iff in Hx.
    destruct Hx as (g & <- & _). reflexivity. }
  constructor; [intros _; exact H|apply cw_ok_start; exact H].
Qed.

Lemma invG_frame : forall s s',
  graceful s' = graceful s -> closers s' = closers s ->
  rl_started s' = rl_started s -> rl_done s' = rl_done s ->
  invG s -> invG s'.
Proof.
  intros s s' H1 H2 H3 H4 [A B]. constructor; rewrite ?H1, ?H2, ?H3, ?H4; assumption.
Qed.

Lemma invG_close : forall v s j s', invG s -> close_step v s j = Some s' -> invG s'.
Proof.
  intros v s j s' [A B] H. unfold close_step in H.
  destruct (nth_error (closers s) j) as [[g p]|] eqn:Ej; [|discriminate].
  pose proof (Forall_nth_error _ _ _ _ _ B Ej) as Hj. unfold cw_ok in Hj. cbn in Hj.
  assert (graceful s = true \/ p = CStart) as Hgs.
  { destruct (graceful s) eqn:G; [left; reflexivity|right].
    apply (Forall_nth_error _ _ _ _ _ (A eq_refl) Ej). }
  destruct p as [|h w|h w| |].
  - apply Some_inj in H. subst. constructor; cbn; [discriminate|].
    apply Forall_set_nth; [exact B|]. intros Hg. cbn in *. subst g. cbn.
    destruct (rl_started s); [exact I|reflexivity].
  - assert (graceful s = true) as G by (destruct Hgs as [G|G]; [exact G|discriminate]).
    destruct (rstate_eqb (rs s) Closed); apply Some_inj in H; subst;
      (constructor; cbn; [rewrite G; discriminate|]);
      (apply Forall_set_nth; [exact B|]); intros Hg; specialize (Hj Hg); cbn;
      destruct w; auto; intros Hx; congruence.
  - assert (graceful s = true) as G by (destruct Hgs as [G|G]; [exact G|discriminate]).
    apply Some_inj in H. subst.
    assert (forall x, closers (if h then set_dc_closed (store v s Closing) else store v s Closing) = x ->
                      closers s = x) as Hc by (destruct h; intros x Hx; exact Hx).
    constructor.
    + destruct h; cbn; rewrite G; discriminate.
    + destruct h; cbn; (apply Forall_set_nth; [exact B|]); intros Hg; specialize (Hj Hg); cbn;
        destruct w; auto; intros Hx; congruence.
  - destruct (rl_done s) eqn:D; [|discriminate]. apply Some_inj in H. subst.
    assert (graceful s = true) as G by (destruct Hgs as [G|G]; [exact G|discriminate]).
    constructor; [cbn; rewrite G; discriminate|].
    change (rl_done (set_closers s (set_nth j (g, CDone) (closers s)))) with (rl_done s).
    rewrite D. cbn [closers set_closers set_pcs rl_started].
    apply Forall_set_nth; [exact B|]. intros _ _. reflexivity.
  - discriminate.
Qed.

Lemma invG_step : forall v c s t s', invG s -> step v c s t = Some s' -> invG s'.
Proof.
  intros v c s t s' A H. destruct v as [fs fo]. destruct t; cbn [step] in H.
  - (* handleOpen: only the end of it touches rl_started, and only when nobody has closed *)
    unfold open_step, open_tail in H.
    destruct (graceful s) eqn:G.
    + destruct fs; step_inv H; cbn in *; try congruence;
        (eapply invG_frame; [| | | |exact A]; reflexivity).
    + pose proof (g_start _ A G) as Hs.
      step_inv H; cbn in *; try congruence;
        try (eapply invG_frame; [| | | |exact A]; reflexivity);
        (constructor; cbn; [intros _; exact Hs|apply cw_ok_start; exact Hs]).
  - unfold pcclose_step in H.
    step_inv H; (eapply invG_frame; [| | | |exact A]; reflexivity).
  - unfold remote_step in H. step_inv H; (eapply invG_frame; [| | | |exact A]; reflexivity).
  - unfold rl_step in H. step_inv H.
    + eapply invG_frame; [| | | |exact A]; try reflexivity.
      unfold rl_done. cbn [rl_pc set_rlpc set_pcs]. rewrite E. reflexivity.
    + destruct A as [A B]. constructor; cbn; [exact A|]. eapply cw_ok_done. exact B.
  - eapply invG_close; eauto.
  - unfold reg_open_step in H. step_inv H; (eapply invG_frame; [| | | |exact A]; reflexivity).
  - unfold reg_close_step in H. step_inv H; (eapply invG_frame; [| | | |exact A]; reflexivity).
  - step_inv H; (eapply invG_frame; [| | | |exact A]; reflexivity).
  - step_inv H; (eapply invG_frame; [| | | |exact A]; reflexivity).
  - unfold detach_step in H. step_inv H; (eapply invG_frame; [| | | |exact A]; reflexivity).
  - apply Some_inj in H. subst. exact A.
Qed.

Lemma graceful_close_waits : forall v c sch j,
  let s := run v c (init c) sch in
  nth_error (closers s) j = Some (true, CDone) ->
  rl_started s = true -> rl_done s = true.
Proof.
  intros v c sch j s Hj Hs.
  assert (invG s) as A.
  { apply (run_inv v c invG); [intros; eapply invG_step; eauto|apply invG_init]. }
  exact (Forall_nth_error _ _ _ _ _ (g_wait _ A) Hj eq_refl Hs).
Qed.

(* and once isGracefulClosed is set no read loop is started any more: a
   GracefulClose that found none does not miss one *)
