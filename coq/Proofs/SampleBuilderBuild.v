(* C31: buildSample, the purge loop, Push / Pop / Flush and histories. *)
From Coq Require Import List ZArith NArith PArith Bool Lia ZifyBool ZifyNat ZifyN.
Import ListNotations.
From Verif Require Import Common.Base Model.SampleBuilder Model.SampleBuilderSpec
  Proofs.SampleBuilderArith Proofs.SampleBuilderIter Proofs.SampleBuilderMap Proofs.SampleBuilder
  Proofs.SampleBuilderScan.
Open Scope N_scope.
Ltac Zify.zify_post_hook ::= Z.div_mod_to_equations.

Section Build.
  Variable is_head : list N -> bool.
  Variable is_tail : bool -> list N -> bool.
  Variable unmarshal : list N -> option (list N).
  Variable c : cfg.

  Notation buildSample := (buildSample is_head is_tail unmarshal c).
  Notation rel := (rel is_head is_tail unmarshal).
  Notation run_ok := (run_ok is_head unmarshal).
  Notation ts_ok := (sample_ts is_tail).
  Notation ptail p := (is_tail (p_marker p) (p_payload p)).

  Lemma rel_purge2 : forall s l, rel s (purgeConsumedBuffers (purgeConsumedLocation s l true)).
  Proof.
    intros. eapply rel_trans; [apply rel_purgeConsumedLocation|apply rel_purgeConsumedBuffers].
  Qed.

  Lemma fetchTimestamp_head : forall s hp, l_empty (active s) = false ->
    bget (l_head (active s)) (buf s) = Some hp ->
    fetchTimestamp s (active s) = (p_ts hp, true).
  Proof. intros s hp He Hb. unfold fetchTimestamp. rewrite He, Hb. reflexivity. Qed.

  Lemma fetchTimestamp_snd : forall s, snd (fetchTimestamp s (active s)) = true ->
    exists hp, bget (l_head (active s)) (buf s) = Some hp /\ fetchTimestamp s (active s) = (p_ts hp, true).
  Proof.
    intros s H. unfold fetchTimestamp in *. destruct (l_empty (active s)); [discriminate|].
    destruct (bget _ _) as [hp|]; [|discriminate]. exists hp. split; reflexivity.
  Qed.

  Lemma rel_add_sample : forall s0 s4 s5 smp k,
    rel s0 s4 ->
    buf s5 = buf s4 -> released s5 = released s4 -> built s5 = smp :: built s4 ->
    prep s5 = bset k smp (prep s4) -> filled s5 = filled s4 -> active s5 = active s4 ->
    fault s5 = fault s4 ->
    (locs_ok s0 -> run_ok (buf s0) smp /\ (fault s4 = 0 -> ts_ok smp)) ->
    rel s0 s5.
  Proof.
    intros s0 s4 s5 smp k [a0 af a1 a2 a3 a4 a5 a6 a7] Eb Er Ebu Ep Ef Ea Efa Hs.
    constructor.
    - intro H. specialize (a0 H). unfold locs_ok in *. rewrite Ef, Ea. exact a0.
    - rewrite Efa. exact af.
    - rewrite Eb. exact a1.
    - rewrite Efa, Ebu. intros Hok x [<-|Hx]; [right; apply Hs; assumption|apply a2; assumption].
    - rewrite Ebu. apply incl_tl. exact a3.
    - rewrite Ep, Ebu. intros e [<-|He]; [right; left; reflexivity|].
      apply In_bdel in He. destruct (a4 e (proj1 He)) as [H|H]; [left; exact H|right; right; exact H].
    - unfold pool. rewrite Eb, Er. exact a5.
    - unfold pool. rewrite Eb, Er. exact a6.
    - rewrite Er. exact a7.
  Qed.

  Theorem buildSample_rel : forall purging s0,
    rel s0 (fst (buildSample purging s0)) /\
    (forall x, snd (buildSample purging s0) = Some x -> In x (built (fst (buildSample purging s0)))).
  Proof.
    intros purging s0. unfold SampleBuilder.buildSample.
    set (s1 := if l_empty (active s0) then _ else s0).
    assert (R1 : rel s0 s1).
    { subst s1. destruct (l_empty (active s0)); [|apply rel_refl].
      eapply rel_trans; [apply rel_set_active|apply rel_log_ev]. intros [H _]. exact H. }
    destruct (l_empty (active s1)) eqn:E1; [cbn [fst snd]; split; [exact R1|discriminate]|].
    set (s2 := if cmp_eqb _ CInside then _ else s1).
    assert (R12 : rel s1 s2).
    { subst s2. destruct (cmp_eqb _ CInside); [|apply rel_refl].
      apply rel_set_active. intros [[_ Hf] [Ha _]]. split; assumption. }
    assert (R2 : rel s0 s2) by (eapply rel_trans; eassumption).
    destruct (scan is_tail s2) as [consume oof] eqn:Esc. cbn [fst snd].
    destruct oof; [cbn [fst snd]; split; [eapply rel_trans; [exact R2|apply rel_raise; lia]|discriminate]|].
    destruct (l_empty consume) eqn:Ece; [cbn [fst snd]; split; [exact R2|discriminate]|].
    destruct (negb purging && _) eqn:Ew; [cbn [fst snd]; split; [exact R2|discriminate]|].
    set (ht := fetchTimestamp s2 (active s2)).
    set (s2r := if snd ht then s2 else raise s2 3).
    assert (R2r : rel s2 s2r) by (subst s2r; destruct (snd ht); [apply rel_refl|apply rel_raise; lia]).
    set (afterTs := match first_in_range _ _ _ with Some p => p_ts p | None => fst ht end).
    set (s3 := set_active s2r _).
    (* facts about the consumed run, available when the locations are in range *)
    assert (Hrun : locs_ok s0 -> forall col pkts, collect s2 consume = (col, false) -> all_some col = Some pkts ->
              l_tail consume < 65536 /\ N.of_nat (List.length pkts) < 65536 /\
              exists hp rest, pkts = hp :: rest /\
                Forall2 (fun key p => In (key, p) (buf s2)) (keys_from (l_head (active s2)) (List.length pkts)) pkts /\
                l_head (active s2) < 65536 /\
                (snd ht = true -> p_ts hp = fst ht /\
                   (forall p, In p (removelast pkts) -> p_ts p = fst ht /\ ptail p = false) /\
                   (ptail (last rest hp) = false -> p_ts (last rest hp) = fst ht))).
    { intros Hok col pkts Hcol Has.
      assert (Hok2 : locs_ok s2) by (apply (r_ok _ _ _ _ _ R2); exact Hok).
      assert (Hh : l_head (active s2) < 65536) by apply Hok2.
      unfold SampleBuilder.scan in Esc.
      destruct (iter_pos 65537 (scan_step is_tail s2) (l_head (active s2), mkLoc 0 0)) as [r b] eqn:Eit.
      rewrite iter_pos_nat in Eit. cbn [fst snd] in Esc. injection Esc as Er Eb. subst b.
      apply scan_iter in Eit; [|exact Hh]. rewrite Er in Eit.
      destruct Eit as [Eit|(k & _ & Hp & Hen)]; [cbn in Eit; subst consume; cbn in Ece; discriminate|].
      destruct (consumed_run is_tail s2 consume col pkts k Hh Hp Hen Ece Hcol Has)
        as (_ & Ht & Hlen & hp & rest & -> & HF & Hb & Hts).
      split; [exact Ht|]. split; [exact Hlen|]. exists hp, rest. split; [reflexivity|]. split; [exact HF|]. split; [exact Hh|].
      intro Hs. specialize (Hts Hs). split; [|exact Hts].
      apply fetchTimestamp_snd in Hs. destruct Hs as (hp' & Hb' & Hf). rewrite Hb in Hb'. injection Hb' as <-.
      subst ht. rewrite Hf. reflexivity. }
    assert (R3 : locs_ok s0 -> l_tail consume < 65536 -> rel s2r s3).
    { intros Hok Ht. subst s3. apply rel_set_active. intros _.
      assert (Hok2 : locs_ok s2) by (apply (r_ok _ _ _ _ _ R2); exact Hok).
      split; cbn; [exact Ht|apply Hok2]. }
    (* without range information the transition still only shrinks the buffer etc.;
       treat the two situations uniformly through a weaker relation on s3 *)
    assert (R3w : rel s0 s3).
    { eapply rel_trans; [exact R2|]. eapply rel_trans; [exact R2r|].
      constructor; subst s3; cbn [set_active buf prep released built fault filled active]; intros; auto using incl_refl.
      - (* locs_ok: needs the tail in range, which follows from the run facts only when the
           collect succeeded; otherwise the tail is consume.tail produced by the scan *)
        destruct H as [Hf Ha].
        assert (Ea : active s2r = active s2).
        { subst s2r. destruct (snd ht); [reflexivity|]. unfold raise. destruct (fault s2 =? 0); reflexivity. }
        rewrite Ea in Ha.
        split; [exact Hf|]. split; cbn [l_head l_tail]; [|apply Ha].
        unfold SampleBuilder.scan in Esc.
        destruct (iter_pos 65537 (scan_step is_tail s2) (l_head (active s2), mkLoc 0 0)) as [r b] eqn:Eit.
        rewrite iter_pos_nat in Eit. cbn [fst snd] in Esc. injection Esc as Er Eb. subst b.
        assert (Hh : l_head (active s2) < 65536) by apply Ha.
        apply scan_iter in Eit; [|exact Hh]. rewrite Er in Eit.
        destruct Eit as [Eit|(k & _ & _ & (q & _ & _ & [[_ ->]|(_ & _ & _ & ->)]))].
        + cbn in Eit. subst consume. cbn. lia.
        + cbn. apply inc16_lt.
        + cbn. apply w16_lt. }
    destruct (collect s2 consume) as [col oof2] eqn:Ecol. cbn [fst snd].
    destruct oof2; [cbn [fst snd]; split; [|discriminate];
                    eapply rel_trans; [exact R3w|]; eapply rel_trans; [apply rel_log_ev|apply rel_raise; lia]|].
    destruct (all_some col) as [[|hp rest]|] eqn:Eas;
      try (cbn [fst snd]; split; [|discriminate];
           eapply rel_trans; [exact R3w|]; eapply rel_trans; [apply rel_log_ev|apply rel_raise; lia]).
    destruct (negb (is_head (p_payload hp))) eqn:Ehd.
    { cbn [fst snd]. split; [|discriminate].
      eapply rel_trans; [exact R3w|]. eapply rel_trans; [apply rel_log_ev|].
      eapply rel_trans; [apply rel_set_dropped|].
      match goal with |- rel _ (purgeConsumedBuffers (purgeConsumedLocation (if ?b then _ else _) _ _)) => destruct b end.
      - eapply rel_trans; [apply rel_set_padding|apply rel_purge2].
      - apply rel_purge2. }
    destruct (unmarshal (p_payload hp)) as [d0|] eqn:Eu;
      [|cbn [fst snd]; split; [eapply rel_trans; [exact R3w|apply rel_log_ev]|discriminate]].
    set (s4 := if c_headHandler c then _ else s3).
    assert (R4 : rel s3 s4) by (subst s4; destruct (c_headHandler c); [apply rel_set_headCalls|apply rel_refl]).
    destruct (all_some (map _ rest)) as [ds|] eqn:Eds;
      [|cbn [fst snd]; split; [eapply rel_trans; [exact R3w|]; eapply rel_trans; [exact R4|apply rel_log_ev]|discriminate]].
    set (smp := mkSample _ _ _ _ _ _).
    set (s5 := mkSt _ _ _ _ _ _ _ _ _ _ _ _ _).
    cbn [fst snd].
    assert (R04 : rel s0 s4) by (eapply rel_trans; eassumption).
    assert (Hbuf4 : buf s4 = buf s2).
    { subst s4 s3 s2r. destruct (c_headHandler c); destruct (snd ht); cbn; try reflexivity;
        unfold raise; destruct (fault s2 =? 0); reflexivity. }
    assert (Hfault4 : fault s4 = 0 -> snd ht = true).
    { subst s4 s3 s2r. destruct (snd ht); [reflexivity|].
      destruct (c_headHandler c); cbn; unfold raise; destruct (fault s2 =? 0) eqn:Ef; cbn; intro; try lia;
        apply N.eqb_neq in Ef; contradiction. }
    assert (R05 : rel s0 s5).
    { apply (rel_add_sample s0 s4 s5 smp (l_tail (prepared s4)) R04); try reflexivity.
      intros Hok.
      destruct (Hrun Hok col (hp :: rest) eq_refl Eas) as (Htl & Hlen & hp' & rest' & Epk & HF & Hh & Hts).
      injection Epk as <- <-. split.
      - exists (l_head (active s2)), hp, rest, (d0 :: ds).
        split; [exact Hh|]. split; [exact Hlen|]. split; [reflexivity|]. split.
        { eapply Forall2_mono; [|exact HF]. intros k0 p0 Hin. apply (r_buf _ _ _ _ _ R2). exact Hin. }
        split; [apply negb_false_iff in Ehd; exact Ehd|]. split; [|reflexivity].
        cbn [map]. rewrite Eu. f_equal. apply all_some_spec. exact Eds.
      - intro Hf4. specialize (Hts (Hfault4 Hf4)). destruct Hts as (Hts1 & Hts2 & Hts3).
        exists hp, rest. split; [reflexivity|]. split; [subst smp; cbn; symmetry; exact Hts1|]. split.
        + intros p Hp. rewrite Hts1. apply Hts2. exact Hp.
        + intros Hl. rewrite Hts1. apply Hts3. exact Hl. }
    split.
    - eapply rel_trans; [exact R05|apply rel_purge2].
    - intros x Hx. injection Hx as <-.
      apply (r_built_mono _ _ _ _ _ (rel_purge2 s5 consume)). subst s5. cbn. left. reflexivity.
  Qed.

  Notation purge_body := (purge_body is_head is_tail unmarshal c).
  Notation purge_step := (purge_step is_head is_tail unmarshal c).
  Notation purgeBuffers := (purgeBuffers is_head is_tail unmarshal c).
  Notation push := (push is_head is_tail unmarshal c).
  Notation flush := (flush is_head is_tail unmarshal c).
  Notation pop := (pop is_head is_tail unmarshal c).
  Notation step := (step is_head is_tail unmarshal c).
  Notation run_from := (run_from is_head is_tail unmarshal c).
  Notation run := (run is_head is_tail unmarshal c).

  Lemma rel_purge_body : forall s0, rel s0 (purge_body s0).
  Proof.
    intro s0. unfold SampleBuilder.purge_body.
    set (s1 := if l_empty (active s0) then _ else s0).
    assert (R1 : rel s0 s1).
    { subst s1. destruct (l_empty (active s0)); [|apply rel_refl].
      eapply rel_trans; [apply rel_set_active|apply rel_log_ev]. intros [H _]. exact H. }
    destruct (l_hasData (active s1) && (l_head (active s1) =? l_head (filled s1))).
    - destruct (buildSample_rel true s1) as [Rb _].
      destruct (snd (buildSample true s1)).
      + eapply rel_trans; eassumption.
      + eapply rel_trans; [exact R1|]. eapply rel_trans; [exact Rb|].
        eapply rel_trans; [|apply rel_release_filled_head].
        eapply rel_trans; [|apply rel_set_dropped].
        eapply rel_trans; [apply rel_set_active|apply rel_log_ev].
        intros [_ [_ Ht]]. split; cbn; [apply inc16_lt|exact Ht].
    - eapply rel_trans; [exact R1|apply rel_release_filled_head].
  Qed.

  Lemma rel_purge_step : forall fl s, rel s (fst (purge_step fl s)).
  Proof.
    intros fl s. unfold SampleBuilder.purge_step. destruct (purge_cond c fl s); cbn [fst]; [apply rel_purge_body|apply rel_refl].
  Qed.

  Lemma rel_purgeBuffers : forall fl s, rel s (purgeBuffers fl s).
  Proof.
    intros fl s. unfold SampleBuilder.purgeBuffers.
    set (s1 := purgeConsumedBuffers s).
    assert (R1 : rel s s1) by apply rel_purgeConsumedBuffers.
    rewrite iter_pos_nat.
    assert (R2 : rel s1 (fst (iter_nat (Pos.to_nat (N.succ_pos (purge_measure s1))) (purge_step fl) s1))).
    { apply (iter_nat_inv (fun x => rel s1 x)); [|apply rel_refl].
      intros x Hx. eapply rel_trans; [exact Hx|apply rel_purge_step]. }
    destruct (snd (iter_nat _ _ _)).
    - eapply rel_trans; [exact R1|]. eapply rel_trans; [exact R2|apply rel_raise; lia].
    - eapply rel_trans; eassumption.
  Qed.

  (* ---------- histories ---------- *)
  Notation sample_run := (sample_run is_head unmarshal).

  Lemma sample_run_incl : forall P P' x, incl P P' -> sample_run P x -> sample_run P' x.
  Proof.
    intros P P' x Hi (h & hp & rest & ds & Hh & Hl & H1 & H2 & H3 & H4 & H5).
    exists h, hp, rest, ds. repeat (split; [assumption|]). split; [|tauto].
    eapply Forall2_mono; [|exact H2]. intros k p [Hin Hs]. split; [apply Hi; exact Hin|exact Hs].
  Qed.

  Record inv (P : list packet) (s : st) : Prop := mkInv {
    i_ok : locs_ok s;
    i_buf : forall k p, In (k, p) (buf s) -> In p P /\ p_seq p = k;
    i_built : forall x, In x (built s) -> sample_run P x /\ (fault s = 0 -> ts_ok x);
    i_prep : forall e, In e (prep s) -> In (snd e) (built s);
    i_nodup : NoDup (pool s);
    i_pool : forall id, In id (pool s) -> In id (map p_id P);
    i_released : forall p, In p (released s) -> In p P
  }.

  Lemma inv_rel : forall P s s', inv P s -> rel s s' -> inv P s'.
  Proof.
    intros P s s' [i0 i1 i2 i3 i4 i5 i6] [a0 af a1 a2 a3 a4 a5 a6 a7]. constructor.
    - auto.
    - intros k p H. apply i1. apply a1. exact H.
    - intros x Hx. destruct (a2 i0 x Hx) as [H|[H H']].
      + destruct (i2 x H) as [G G']. split; [exact G|]. intro Hf. apply G'. apply af. exact Hf.
      + split; [|exact H'].
        destruct H as (h & hp & rest & ds & Hh & Hl & H1 & H2 & H3).
        exists h, hp, rest, ds. split; [exact Hh|]. split; [exact Hl|]. split; [exact H1|]. split; [|exact H3].
        eapply Forall2_mono; [|exact H2]. intros k p Hin. apply i1. exact Hin.
    - intros e He. destruct (a4 e He) as [H|H]; [apply a3; apply i3; exact H|exact H].
    - auto.
    - intros id Hid. apply i5. apply a6. exact Hid.
    - intros p Hp. destruct (a7 p Hp) as [H|[k H]]; [apply i6; exact H|]. apply (i1 k p H).
  Qed.

  Lemma inv_incl : forall P P' s, incl P P' -> inv P s -> inv P' s.
  Proof.
    intros P P' s Hi [i0 i1 i2 i3 i4 i5 i6]. constructor; auto.
    - intros k p H. destruct (i1 k p H). split; auto.
    - intros x Hx. destruct (i2 x Hx) as [G G']. split; [eapply sample_run_incl; eassumption|exact G'].
    - intros id Hid. specialize (i5 id Hid). apply in_map_iff in i5. destruct i5 as (p & <- & Hp).
      apply in_map. apply Hi. exact Hp.
  Qed.

  Lemma inv_st0 : inv [] st0.
  Proof.
    constructor; cbn; try (intros; contradiction); try constructor.
    - split; split; cbn; lia.
    - split; cbn; lia.
  Qed.

  Lemma NoDup_insert : forall {A} (l1 l2 : list A) a,
    NoDup (l1 ++ l2) -> ~ In a (l1 ++ l2) -> NoDup (l1 ++ a :: l2).
  Proof.
    intros A l1 l2 a Hn Hi. apply (Permutation.Permutation_NoDup (l := a :: l1 ++ l2)).
    - apply Permutation.Permutation_middle.
    - constructor; assumption.
  Qed.

  Lemma inv_push : forall P s pk,
    inv P s -> p_seq pk < 65536 -> ~ In (p_id pk) (map p_id P) ->
    inv (P ++ [pk]) (push pk s).
  Proof.
    intros P s pk Hinv Hq Hfresh. unfold SampleBuilder.push.
    set (s1 := set_buf s _).
    set (s2 := match compare (filled s1) (p_seq pk) with CVoid => _ | CBefore => _ | CInside => _ | CAfter => _ end).
    apply (inv_rel _ s2); [|apply rel_purgeBuffers].
    assert (H1 : inv (P ++ [pk]) s1).
    { destruct (inv_incl P (P ++ [pk]) s (fun x H => in_or_app _ _ _ (or_introl H)) Hinv) as [i0 i1 i2 i3 i4 i5 i6].
      constructor; subst s1; cbn [set_buf buf prep built released filled active fault]; auto.
      - intros k p [E|H].
        + injection E as <- <-. split; [apply in_or_app; right; left; reflexivity|reflexivity].
        + apply In_bdel in H. apply i1. tauto.
      - unfold pool in *. cbn [set_buf buf released map bset snd].
        apply NoDup_insert.
        + unfold bdel. apply map_filter_sub. exact i4.
        + intro Hc. apply Hfresh. destruct Hinv as [_ _ _ _ _ j5 _]. apply j5.
          unfold pool. apply in_app_or in Hc. apply in_or_app. destruct Hc as [Hc|Hc]; [left; exact Hc|right].
          apply in_map_iff in Hc. destruct Hc as (e & He1 & He2). apply in_map_iff. exists e. split; [exact He1|].
          apply incl_bdel in He2. exact He2.
      - unfold pool in *. cbn [set_buf buf released map bset snd]. intros id Hid.
        apply in_app_or in Hid. destruct Hid as [Hid|[Hid|Hid]].
        + apply i5. apply in_or_app. left. exact Hid.
        + subst id. apply in_map. apply in_or_app. right. left. reflexivity.
        + apply i5. apply in_or_app. right.
          apply in_map_iff in Hid. destruct Hid as (e & He1 & He2). apply in_map_iff. exists e. split; [exact He1|].
          apply incl_bdel in He2. exact He2. }
    apply (inv_rel _ s1); [exact H1|].
    assert (Hf : loc_ok (filled s1)) by (destruct H1 as [[Hf _] _ _ _ _ _ _]; exact Hf).
    subst s2. destruct (compare (filled s1) (p_seq pk)); try apply rel_refl; apply rel_set_filled; intros _;
      split; cbn; try apply inc16_lt; try assumption; apply Hf.
  Qed.

  Lemma inv_pop : forall P s, inv P s ->
    inv P (fst (pop s)) /\ (forall x, snd (pop s) = Some x -> In x (built (fst (pop s)))) /\
    incl (built s) (built (fst (pop s))).
  Proof.
    intros P s Hinv. unfold SampleBuilder.pop.
    destruct (buildSample_rel false s) as [Rb _].
    set (s1 := fst (buildSample false s)) in *.
    pose proof (inv_rel _ _ _ Hinv Rb) as H1.
    destruct (l_empty (prepared s1)); cbn [fst snd].
    - split; [exact H1|]. split; [discriminate|]. apply (r_built_mono _ _ _ _ _ Rb).
    - split; [|split].
      + destruct H1 as [i0 i1 i2 i3 i4 i5 i6]. constructor; cbn [buf prep built released filled active fault]; auto.
        intros e He. apply In_bdel in He. apply i3. tauto.
      + intros x Hx. cbn [built]. apply bget_In in Hx. destruct H1 as [_ _ _ i3 _ _ _]. apply (i3 _ Hx).
      + cbn [built]. apply (r_built_mono _ _ _ _ _ Rb).
  Qed.

  Lemma NoDup_app_l : forall {A} (l1 l2 : list A), NoDup (l1 ++ l2) -> NoDup l1.
  Proof.
    intros A l1. induction l1 as [|a l1 IH]; intros l2 H; [constructor|].
    cbn in H. inversion H as [|x l Hn Hd]; subst. constructor.
    - intro Hc. apply Hn. apply in_or_app. left. exact Hc.
    - eapply IH. exact Hd.
  Qed.

  Lemma pushed_of_app : forall a b, pushed_of (a ++ b) = pushed_of a ++ pushed_of b.
  Proof. intros. unfold pushed_of. apply flat_map_app. Qed.

  (* the invariant over every history, with the samples returned so far *)
  Theorem run_inv : forall ops P s outs,
    inv P s -> incl outs (built s) ->
    (forall pk, In pk (pushed_of ops) -> p_seq pk < 65536) ->
    NoDup (map p_id (P ++ pushed_of ops)) ->
    let r := fold_left (fun acc o =>
                 let r := step (fst acc) o in
                 (fst r, match snd r with Some x => snd acc ++ [x] | None => snd acc end))
              ops (s, outs) in
    inv (P ++ pushed_of ops) (fst r) /\ incl (snd r) (built (fst r)).
  Proof.
    induction ops as [|o ops IH]; intros P s outs Hinv Hout Hseq Hnd; cbn [fold_left].
    - cbn. rewrite app_nil_r. split; assumption.
    - destruct o as [pk| |]; cbn [SampleBuilder.step fst snd].
      + (* Push *)
        change (pushed_of (OPush pk :: ops)) with ([pk] ++ pushed_of ops) in *.
        rewrite app_assoc in Hnd |- *.
        apply IH.
        * apply inv_push; [exact Hinv|apply Hseq; left; reflexivity|].
          pose proof Hnd as Hnd'. rewrite map_app in Hnd'. apply NoDup_app_l in Hnd'. rewrite map_app in Hnd'. cbn in Hnd'.
          apply NoDup_remove_2 in Hnd'. rewrite app_nil_r in Hnd'. exact Hnd'.
        * intros x Hx. unfold SampleBuilder.push.
          eapply (r_built_mono _ _ _ _ _ (rel_purgeBuffers false _)).
          destruct (compare _ _); cbn; apply Hout; exact Hx.
        * intros q Hq. apply Hseq. right. exact Hq.
        * exact Hnd.
      + (* Pop *)
        change (pushed_of (OPop :: ops)) with (pushed_of ops) in *.
        destruct (inv_pop P s Hinv) as (Hi & Hx & Hm).
        apply IH; try assumption.
        destruct (snd (pop s)) as [x|].
        * intros y Hy. apply in_app_or in Hy. destruct Hy as [Hy|[<-|[]]]; [apply Hm, Hout, Hy|apply Hx; reflexivity].
        * intros y Hy. apply Hm, Hout, Hy.
      + (* Flush *)
        change (pushed_of (OFlush :: ops)) with (pushed_of ops) in *.
        unfold SampleBuilder.flush.
        apply IH; try assumption.
        * eapply inv_rel; [exact Hinv|apply rel_purgeBuffers].
        * intros y Hy. apply (r_built_mono _ _ _ _ _ (rel_purgeBuffers true s)), Hout, Hy.
  Qed.
End Build.
