(* C31: buildSample, the purge loop, Push / Pop / Flush and histories. *)
From Coq Require Import List ZArith NArith PArith Bool Lia ZifyBool ZifyNat ZifyN.
Import ListNotations.
From Verif Require Import Common.Base Model.SampleBuilder
  Proofs.SampleBuilderArith Proofs.SampleBuilderIter Proofs.SampleBuilderMap Proofs.SampleBuilder
  Proofs.SampleBuilderScan.
Open Scope N_scope.
Ltac Zify.zify_post_hook ::= Z.div_mod_to_equations.

Section Build.
  Variable is_head : list N -> bool.
  Variable is_tail : bool -> list N -> bool.
  Variable unmarshal : list N -> option (list N).
  Variable c : cfg.

  Notation buildSample := (buildSample is_head is_tail unmarshal c).
  Notation rel := (rel is_head is_tail unmarshal).
  Notation sample_ok := (sample_ok is_head is_tail unmarshal).
  Notation ptail p := (is_tail (p_marker p) (p_payload p)).

  Lemma rel_purge2 : forall s l, rel s (purgeConsumedBuffers (purgeConsumedLocation s l true)).
  Proof.
    intros. eapply rel_trans; [apply rel_purgeConsumedLocation|apply rel_purgeConsumedBuffers].
  Qed.

  Lemma fetchTimestamp_head : forall s hp, l_empty (active s) = false ->
    bget (l_head (active s)) (buf s) = Some hp ->
    fetchTimestamp s (active s) = (p_ts hp, true).
  Proof. intros s hp He Hb. unfold fetchTimestamp. rewrite He, Hb. reflexivity. Qed.

  Lemma fetchTimestamp_snd : forall s, snd (fetchTimestamp s (active s)) = true ->
    exists hp, bget (l_head (active s)) (buf s) = Some hp /\ fetchTimestamp s (active s) = (p_ts hp, true).
  Proof.
    intros s H. unfold fetchTimestamp in *. destruct (l_empty (active s)); [discriminate|].
    destruct (bget _ _) as [hp|]; [|discriminate]. exists hp. split; reflexivity.
  Qed.

  Lemma rel_add_sample : forall s0 s4 s5 smp k,
    rel s0 s4 ->
    buf s5 = buf s4 -> released s5 = released s4 -> built s5 = smp :: built s4 ->
    prep s5 = bset k smp (prep s4) -> filled s5 = filled s4 -> active s5 = active s4 ->
    fault s5 = fault s4 ->
    (fault s4 = 0 -> locs_ok s0 -> sample_ok (buf s0) smp) ->
    rel s0 s5.
  Proof.
    intros s0 s4 s5 smp k [a0 af a1 a2 a3 a4 a5 a6 a7] Eb Er Ebu Ep Ef Ea Efa Hs.
    constructor.
    - intro H. specialize (a0 H). unfold locs_ok in *. rewrite Ef, Ea. exact a0.
    - rewrite Efa. exact af.
    - rewrite Eb. exact a1.
    - rewrite Efa, Ebu. intros Hf Hok x [<-|Hx]; [right; apply Hs; assumption|apply a2; assumption].
    - rewrite Ebu. apply incl_tl. exact a3.
    - rewrite Ep, Ebu. intros e [<-|He]; [right; left; reflexivity|].
      apply In_bdel in He. destruct (a4 e (proj1 He)) as [H|H]; [left; exact H|right; right; exact H].
    - unfold pool. rewrite Eb, Er. exact a5.
    - unfold pool. rewrite Eb, Er. exact a6.
    - rewrite Er. exact a7.
  Qed.

  Theorem buildSample_rel : forall purging s0,
    rel s0 (fst (buildSample purging s0)) /\
    (forall x, snd (buildSample purging s0) = Some x -> In x (built (fst (buildSample purging s0)))).
  Proof.
    intros purging s0. unfold SampleBuilder.buildSample.
    set (s1 := if l_empty (active s0) then _ else s0).
    assert (R1 : rel s0 s1).
    { subst s1. destruct (l_empty (active s0)); [|apply rel_refl].
      eapply rel_trans; [apply rel_set_active|apply rel_log_ev]. intros [H _]. exact H. }
    destruct (l_empty (active s1)) eqn:E1; [cbn [fst snd]; split; [exact R1|discriminate]|].
    set (s2 := if cmp_eqb _ CInside then _ else s1).
    assert (R12 : rel s1 s2).
    { subst s2. destruct (cmp_eqb _ CInside); [|apply rel_refl].
      apply rel_set_active. intros [[_ Hf] [Ha _]]. split; assumption. }
    assert (R2 : rel s0 s2) by (eapply rel_trans; eassumption).
    destruct (scan is_tail s2) as [consume oof] eqn:Esc. cbn [fst snd].
    destruct oof; [cbn [fst snd]; split; [eapply rel_trans; [exact R2|apply rel_raise; lia]|discriminate]|].
    destruct (l_empty consume) eqn:Ece; [cbn [fst snd]; split; [exact R2|discriminate]|].
    destruct (negb purging && _) eqn:Ew; [cbn [fst snd]; split; [exact R2|discriminate]|].
    set (ht := fetchTimestamp s2 (active s2)).
    set (s2r := if snd ht then s2 else raise s2 3).
    assert (R2r : rel s2 s2r) by (subst s2r; destruct (snd ht); [apply rel_refl|apply rel_raise; lia]).
    set (afterTs := match first_in_range _ _ _ with Some p => p_ts p | None => fst ht end).
    set (s3 := set_active s2r _).
    (* facts about the consumed run, available when the locations are in range *)
    assert (Hrun : locs_ok s0 -> forall col pkts, collect s2 consume = (col, false) -> all_some col = Some pkts ->
              l_tail consume < 65536 /\
              exists hp rest, pkts = hp :: rest /\
                Forall2 (fun key p => In (key, p) (buf s2)) (keys_from (l_head (active s2)) (List.length pkts)) pkts /\
                l_head (active s2) < 65536 /\
                (snd ht = true -> p_ts hp = fst ht /\
                   (forall p, In p (removelast pkts) -> p_ts p = fst ht /\ ptail p = false) /\
                   (ptail (last rest hp) = false -> p_ts (last rest hp) = fst ht))).
    { intros Hok col pkts Hcol Has.
      assert (Hok2 : locs_ok s2) by (apply (r_ok _ _ _ _ _ R2); exact Hok).
      assert (Hh : l_head (active s2) < 65536) by apply Hok2.
      unfold SampleBuilder.scan in Esc.
      destruct (iter_pos 65537 (scan_step is_tail s2) (l_head (active s2), mkLoc 0 0)) as [r b] eqn:Eit.
      rewrite iter_pos_nat in Eit. cbn [fst snd] in Esc. injection Esc as Er Eb. subst b.
      apply scan_iter in Eit; [|exact Hh]. rewrite Er in Eit.
      destruct Eit as [Eit|(k & _ & Hp & Hen)]; [cbn in Eit; subst consume; cbn in Ece; discriminate|].
      destruct (consumed_run is_tail s2 consume col pkts k Hh Hp Hen Ece Hcol Has)
        as (_ & Ht & hp & rest & -> & HF & Hb & Hts).
      split; [exact Ht|]. exists hp, rest. split; [reflexivity|]. split; [exact HF|]. split; [exact Hh|].
      intro Hs. specialize (Hts Hs). split; [|exact Hts].
      apply fetchTimestamp_snd in Hs. destruct Hs as (hp' & Hb' & Hf). rewrite Hb in Hb'. injection Hb' as <-.
      subst ht. rewrite Hf. reflexivity. }
    assert (R3 : locs_ok s0 -> l_tail consume < 65536 -> rel s2r s3).
    { intros Hok Ht. subst s3. apply rel_set_active. intros _.
      assert (Hok2 : locs_ok s2) by (apply (r_ok _ _ _ _ _ R2); exact Hok).
      split; cbn; [exact Ht|apply Hok2]. }
    (* without range information the transition still only shrinks the buffer etc.;
       treat the two situations uniformly through a weaker relation on s3 *)
    assert (R3w : rel s0 s3).
    { eapply rel_trans; [exact R2|]. eapply rel_trans; [exact R2r|].
      constructor; subst s3; cbn [set_active buf prep released built fault filled active]; intros; auto using incl_refl.
      - (* locs_ok: needs the tail in range, which follows from the run facts only when the
           collect succeeded; otherwise the tail is consume.tail produced by the scan *)
        destruct H as [Hf Ha].
        assert (Ea : active s2r = active s2).
        { subst s2r. destruct (snd ht); [reflexivity|]. unfold raise. destruct (fault s2 =? 0); reflexivity. }
        rewrite Ea in Ha.
        split; [exact Hf|]. split; cbn [l_head l_tail]; [|apply Ha].
        unfold SampleBuilder.scan in Esc.
        destruct (iter_pos 65537 (scan_step is_tail s2) (l_head (active s2), mkLoc 0 0)) as [r b] eqn:Eit.
        rewrite iter_pos_nat in Eit. cbn [fst snd] in Esc. injection Esc as Er Eb. subst b.
        assert (Hh : l_head (active s2) < 65536) by apply Ha.
        apply scan_iter in Eit; [|exact Hh]. rewrite Er in Eit.
        destruct Eit as [Eit|(k & _ & _ & (q & _ & _ & [[_ ->]|(_ & _ & _ & ->)]))].
        + cbn in Eit. subst consume. cbn. lia.
        + cbn. apply inc16_lt.
        + cbn. apply w16_lt. }
    destruct (collect s2 consume) as [col oof2] eqn:Ecol. cbn [fst snd].
    destruct oof2; [cbn [fst snd]; split; [|discriminate];
                    eapply rel_trans; [exact R3w|]; eapply rel_trans; [apply rel_log_ev|apply rel_raise; lia]|].
    destruct (all_some col) as [[|hp rest]|] eqn:Eas;
      try (cbn [fst snd]; split; [|discriminate];
           eapply rel_trans; [exact R3w|]; eapply rel_trans; [apply rel_log_ev|apply rel_raise; lia]).
    destruct (negb (is_head (p_payload hp))) eqn:Ehd.
    { cbn [fst snd]. split; [|discriminate].
      eapply rel_trans; [exact R3w|]. eapply rel_trans; [apply rel_log_ev|].
      eapply rel_trans; [apply rel_set_dropped|].
      match goal with |- rel _ (purgeConsumedBuffers (purgeConsumedLocation (if ?b then _ else _) _ _)) => destruct b end.
      - eapply rel_trans; [apply rel_set_padding|apply rel_purge2].
      - apply rel_purge2. }
    destruct (unmarshal (p_payload hp)) as [d0|] eqn:Eu;
      [|cbn [fst snd]; split; [eapply rel_trans; [exact R3w|apply rel_log_ev]|discriminate]].
    set (s4 := if c_headHandler c then _ else s3).
    assert (R4 : rel s3 s4) by (subst s4; destruct (c_headHandler c); [apply rel_set_headCalls|apply rel_refl]).
    destruct (all_some (map _ rest)) as [ds|] eqn:Eds;
      [|cbn [fst snd]; split; [eapply rel_trans; [exact R3w|]; eapply rel_trans; [exact R4|apply rel_log_ev]|discriminate]].
    set (smp := mkSample _ _ _ _ _ _).
    set (s5 := mkSt _ _ _ _ _ _ _ _ _ _ _ _ _).
    cbn [fst snd].
    assert (R04 : rel s0 s4) by (eapply rel_trans; eassumption).
    assert (Hbuf4 : buf s4 = buf s2).
    { subst s4 s3 s2r. destruct (c_headHandler c); destruct (snd ht); cbn; try reflexivity;
        unfold raise; destruct (fault s2 =? 0); reflexivity. }
    assert (Hfault4 : fault s4 = 0 -> snd ht = true).
    { subst s4 s3 s2r. destruct (snd ht); [reflexivity|].
      destruct (c_headHandler c); cbn; unfold raise; destruct (fault s2 =? 0) eqn:Ef; cbn; intro; try lia;
        apply N.eqb_neq in Ef; contradiction. }
    assert (R05 : rel s0 s5).
    { apply (rel_add_sample s0 s4 s5 smp (l_tail (prepared s4)) R04); try reflexivity.
      intros Hf4 Hok.
      destruct (Hrun Hok col (hp :: rest) eq_refl Eas) as (Htl & hp' & rest' & Epk & HF & Hh & Hts).
      injection Epk as <- <-. specialize (Hts (Hfault4 Hf4)). destruct Hts as (Hts1 & Hts2 & Hts3).
      exists (l_head (active s2)), hp, rest, (d0 :: ds).
      split; [exact Hh|]. split; [reflexivity|]. split.
      { eapply Forall2_mono; [|exact HF]. intros k0 p0 Hin. apply (r_buf _ _ _ _ _ R2). exact Hin. }
      split; [apply negb_false_iff in Ehd; exact Ehd|]. split.
      { cbn [map]. rewrite Eu. f_equal. apply all_some_spec. exact Eds. }
      split; [reflexivity|]. split; [cbn [s_ts smp]; subst smp; cbn; symmetry; exact Hts1|]. split.
      - intros p Hp. rewrite Hts1. apply Hts2. exact Hp.
      - intros Hl. rewrite Hts1. apply Hts3. exact Hl. }
    split.
    - eapply rel_trans; [exact R05|apply rel_purge2].
    - intros x Hx. injection Hx as <-.
      apply (r_built_mono _ _ _ _ _ (rel_purge2 s5 consume)). subst s5. cbn. left. reflexivity.
  Qed.
End Build.
