(* C13 proofs: case analysis over lite flags, configured role and the offered
   a=setup text (arbitrary strings, split by the two comparisons the code makes) *)
From Coq Require Import List Bool String.
Import ListNotations.
From Verif Require Import Common.Base Model.Roles.
Open Scope string_scope.

Lemma active_not_passive : String.eqb "active" "passive" = false.
Proof. reflexivity. Qed.

(* split an offered setup into the three classes dtlsRoleFromSDP distinguishes *)
Lemma offer_cases : forall s : setup_text,
  s = Some "active" \/ s = Some "passive" \/
  (role_from_sdp s = DAuto /\
   (forall v, s = Some v -> v <> "active" /\ v <> "passive")).
Proof.
  intros [v|].
  - destruct (String.eqb v "active") eqn:Ha.
    + apply String.eqb_eq in Ha. subst. now left.
    + destruct (String.eqb v "passive") eqn:Hp.
      * apply String.eqb_eq in Hp. subst. right. now left.
      * right. right. split.
        -- unfold role_from_sdp. now rewrite Ha, Hp.
        -- intros v' Hv. injection Hv as <-.
           apply String.eqb_neq in Ha. apply String.eqb_neq in Hp. now split.
  - right. right. split; [reflexivity|]. intros v Hv. discriminate.
Qed.

Lemma role_from_sdp_auto_eqbs : forall v,
  role_from_sdp (Some v) = DAuto ->
  v <> "active" -> v <> "passive" ->
  String.eqb v "active" = false /\ String.eqb v "passive" = false.
Proof.
  intros v _ Ha Hp. split; now apply String.eqb_neq.
Qed.

(* the answer for an offer of class auto, both code versions *)
Lemma answer_auto : forall r s la lb,
  role_from_sdp s = DAuto ->
  answer_conn_role r s la lb =
    match r with
    | DClient => CRactive | DServer => CRpassive | DAuto => CRactpass
    | DUnknown => if la && negb lb then CRpassive else CRactive
    end.
Proof.
  intros r s la lb H. unfold answer_conn_role. rewrite H.
  destruct r, la, lb; reflexivity.
Qed.

Lemma answer_auto_before : forall r s la lb,
  role_from_sdp s = DAuto ->
  answer_conn_role_before_repair r s la lb = answer_conn_role r s la lb.
Proof.
  intros r s la lb H. unfold answer_conn_role_before_repair, answer_conn_role. rewrite H.
  destruct r, la, lb; reflexivity.
Qed.

Lemma answer_active : forall r la lb,
  answer_conn_role r (Some "active") la lb = CRpassive.
Proof. intros r la lb. destruct r, la, lb; reflexivity. Qed.

Lemma answer_passive : forall r la lb,
  answer_conn_role r (Some "passive") la lb = CRactive.
Proof. intros r la lb. destruct r, la, lb; reflexivity. Qed.

(* (1) the answer is active or passive *)
Lemma answer_never_actpass : forall c,
  settable (roleB c) ->
  answer (exchange c) = CRactive \/ answer (exchange c) = CRpassive.
Proof.
  intros [la lb ra rb s] Hs. cbn in Hs. unfold exchange, exchange_with. cbn [answer liteA liteB roleB offer].
  destruct (offer_cases s) as [-> | [-> | [Hauto _]]].
  - right. apply answer_active.
  - left. apply answer_passive.
  - rewrite (answer_auto _ _ _ _ Hauto).
    destruct Hs as [-> | [-> | ->]]; [destruct (la && negb lb)|..]; auto.
Qed.

(* (2) ICE roles *)
Lemma ice_roles_rfc8445 : forall c, ice_ok c (exchange c).
Proof. intros [[] [] ra rb s]; cbn; auto. Qed.

Lemma ice_exactly_one : forall c, exactly_one_controlling (exchange c).
Proof.
  intros [[] [] ra rb s]; cbn; unfold exactly_one_controlling; cbn;
    first [left; split; [reflexivity | discriminate] | right; split; [discriminate | reflexivity]].
Qed.

(* (3) DTLS roles, repaired code, every offered setup text *)
Lemma commits_some : forall v r,
  commits (Some v) r <-> ((v = "active" -> r = DClient) /\ (v = "passive" -> r = DServer)).
Proof. intros; reflexivity. Qed.

Lemma dtls_complementary : forall c,
  settable (roleB c) -> dtls_ok c (exchange c).
Proof.
  intros [la lb ra rb s] Hs. cbn in Hs.
  destruct (offer_cases s) as [-> | [-> | [Hauto Hne]]].
  - (* offered active: answer passive *)
    unfold dtls_ok, exchange, exchange_with. cbn [answer dtlsA dtlsB liteA liteB roleA roleB offer].
    rewrite answer_active. cbn.
    repeat split; try discriminate; auto. left. auto.
  - unfold dtls_ok, exchange, exchange_with. cbn [answer dtlsA dtlsB liteA liteB roleA roleB offer].
    rewrite answer_passive. cbn.
    repeat split; try discriminate; auto. right. auto.
  - unfold dtls_ok, exchange, exchange_with. cbn [answer dtlsA dtlsB liteA liteB roleA roleB offer].
    rewrite (answer_auto _ _ _ _ Hauto). rewrite Hauto.
    assert (Hc : forall r, commits s r).
    { intros r. destruct s as [v|]; [|exact I]. destruct (Hne v eq_refl) as [Ha Hp].
      split; intros ->; contradiction. }
    destruct Hs as [-> | [-> | ->]]; destruct la, lb; cbn;
      (split; [unfold opposite; auto | split; [apply Hc | split; intros; try discriminate; reflexivity]]).
Qed.

(* the offerer's own configured role never matters *)
Lemma offerer_role_irrelevant : forall c r,
  settable (roleB c) ->
  exchange {| liteA := liteA c; liteB := liteB c; roleA := r; roleB := roleB c; offer := offer c |}
  = exchange {| liteA := liteA c; liteB := liteB c; roleA := DUnknown; roleB := roleB c; offer := offer c |}.
Proof.
  intros [la lb ra rb s] r Hs. cbn in *.
  unfold exchange, exchange_with. cbn [answer dtlsA dtlsB liteA liteB roleA roleB offer].
  destruct (offer_cases s) as [-> | [-> | [Hauto _]]].
  - rewrite answer_active. reflexivity.
  - rewrite answer_passive. reflexivity.
  - rewrite (answer_auto _ _ _ _ Hauto).
    destruct Hs as [-> | [-> | ->]]; destruct la, lb; reflexivity.
Qed.

(* (4) the actpass/absent row was already right before the repair *)
Lemma actpass_row_before_repair : forall c,
  settable (roleB c) -> role_from_sdp (offer c) = DAuto ->
  exchange_with answer_conn_role_before_repair c = exchange c /\
  dtls_ok c (exchange_with answer_conn_role_before_repair c).
Proof.
  intros c Hs Hauto.
  assert (E : exchange_with answer_conn_role_before_repair c = exchange c).
  { unfold exchange, exchange_with. rewrite (answer_auto_before _ _ _ _ Hauto). reflexivity. }
  split; [exact E|]. rewrite E. now apply dtls_complementary.
Qed.

(* the repair changed nothing outside the cells that failed *)
Lemma dtls_okb_sound : forall c o, dtls_okb c o = true -> dtls_ok c o.
Proof.
  intros c o H. unfold dtls_okb in H.
  apply andb_true_iff in H as [H H3]. apply andb_true_iff in H as [H1 H2].
  assert (D : forall a b, drole_eqb a b = true -> a = b) by (intros [] []; cbn; congruence).
  assert (C : forall s r,
    match s with
    | Some v => (if String.eqb v "active" then drole_eqb r DClient else true)
                && (if String.eqb v "passive" then drole_eqb r DServer else true)
    | None => true
    end = true -> commits s r).
  { intros [v|] r Hc; [|exact I]. apply andb_true_iff in Hc as [Ha Hp]. split; intros ->.
    - now apply D. - now apply D. }
  split; [|split; apply C; assumption].
  apply orb_true_iff in H1 as [H1|H1]; apply andb_true_iff in H1 as [Ha Hb];
    apply D in Ha; apply D in Hb; [left|right]; auto.
Qed.

Lemma failing_before_repair_is : failing_before_repair =
  [ (false, false, DClient, Some "active"); (false, false, DServer, Some "passive");
    (false, true, DClient, Some "active"); (false, true, DServer, Some "passive");
    (true, false, DUnknown, Some "passive");
    (true, false, DClient, Some "active"); (true, false, DServer, Some "passive");
    (true, true, DClient, Some "active"); (true, true, DServer, Some "passive") ].
Proof. vm_compute. reflexivity. Qed.

Lemma matrix_size : List.length matrix = 48.
Proof. reflexivity. Qed.

Lemma repair_scope : forall c, In c matrix ->
  dtls_okb c (exchange_with answer_conn_role_before_repair c) = true ->
  exchange_with answer_conn_role_before_repair c = exchange c.
Proof.
  assert (H : forallb (fun c =>
     implb (dtls_okb c (exchange_with answer_conn_role_before_repair c))
       (match exchange_with answer_conn_role_before_repair c, exchange c with
        | Build_outcome a1 b1 c1 d1 e1 f1 g1, Build_outcome a2 b2 c2 d2 e2 f2 g2 =>
            crole_eqb a1 a2 && irole_eqb b1 b2 && irole_eqb c1 c2 && drole_eqb d1 d2
            && drole_eqb e1 e2 && drole_eqb f1 f2 && drole_eqb g1 g2
        end)) matrix = true) by (vm_compute; reflexivity).
  rewrite forallb_forall in H. intros c Hin Hok. specialize (H c Hin). rewrite Hok in H. unfold implb in H.
  destruct (exchange_with answer_conn_role_before_repair c) as [a1 b1 c1 d1 e1 f1 g1],
           (exchange c) as [a2 b2 c2 d2 e2 f2 g2].
  assert (D : forall a b, drole_eqb a b = true -> a = b) by (intros [] []; cbn; congruence).
  assert (I : forall a b, irole_eqb a b = true -> a = b) by (intros [] []; cbn; congruence).
  assert (C : forall a b, crole_eqb a b = true -> a = b) by (intros [] []; cbn; congruence).
  apply andb_true_iff in H as [H H7]. apply andb_true_iff in H as [H H6].
  apply andb_true_iff in H as [H H5]. apply andb_true_iff in H as [H H4].
  apply andb_true_iff in H as [H H3]. apply andb_true_iff in H as [H1 H2].
  apply C in H1. apply I in H2. apply I in H3. apply D in H4. apply D in H5.
  apply D in H6. apply D in H7. subst. reflexivity.
Qed.

(* SetAnsweringDTLSRole stores client or server only: the settable premise *)
Lemma setter_settable : forall cur r r',
  set_answering_role cur r = Ok r' -> r' = r /\ (r' = DClient \/ r' = DServer).
Proof.
  intros cur r r'. unfold set_answering_role. destruct r; cbn; intros H; try discriminate;
    injection H as <-; auto.
Qed.
