(* C08 proofs.  Invariant: after SetRemoteDescription(offer) every transceiver
   that carries the mid of an offered section has a direction that is a legal
   response to that section and remembers the offered direction as its
   currentRemoteDirection; local operations other than an unguarded SetSender
   preserve it; CreateAnswer emits exactly those directions. *)
From Coq Require Import List Bool Arith Lia String.
Import ListNotations.
From Verif Require Import Common.Base Model.AnswerDir.

(* ---------- lists ---------- *)
Lemma nth_update_eq : forall A (l : list A) i a x,
  nth_error l i = Some x -> nth_error (update l i a) i = Some a.
Proof.
  induction l as [|h t IH]; intros [|i] a x H; cbn in *; try discriminate; auto.
  eapply IH; eauto.
Qed.

Lemma nth_update_neq : forall A (l : list A) i j a,
  i <> j -> nth_error (update l i a) j = nth_error l j.
Proof.
  induction l as [|h t IH]; intros [|i] [|j] a H; cbn; auto; try congruence.
Qed.

Lemma nth_update_inv : forall A (l : list A) i j a y,
  nth_error (update l i a) j = Some y ->
  (i = j /\ y = a /\ exists x, nth_error l i = Some x) \/ (i <> j /\ nth_error l j = Some y).
Proof.
  intros A l i j a y H. destruct (Nat.eq_dec i j) as [->|N].
  - left. destruct (nth_error l j) as [x|] eqn:E.
    + rewrite (nth_update_eq _ _ _ _ _ E) in H. injection H as <-. eauto.
    + exfalso. revert j H E. induction l as [|h t IH]; intros [|j] H E; cbn in *; try discriminate.
      eapply IH; eauto.
  - right. split; auto. now rewrite nth_update_neq in H.
Qed.

Lemma nth_app_inv : forall A (l : list A) a j y,
  nth_error (l ++ [a]) j = Some y ->
  (j < List.length l /\ nth_error l j = Some y) \/ (j = List.length l /\ y = a).
Proof.
  intros A l a j y H. destruct (Nat.lt_ge_cases j (List.length l)) as [L|G].
  - left. split; auto. now rewrite nth_error_app1 in H.
  - right. rewrite nth_error_app2 in H by lia.
    destruct (j - List.length l) as [|n] eqn:E; cbn in H.
    + injection H as <-. split; auto. lia.
    + destruct n; discriminate.
Qed.

(* ---------- directions ---------- *)
Lemma dir_eqb_eq : forall a b, dir_eqb a b = true <-> a = b.
Proof. intros [] []; cbn; split; congruence. Qed.

Lemma adjust_legal : forall d t,
  d <> DUnk -> t_dir t <> DUnk -> (d = Inactive -> t_dir t = Inactive) ->
  (d = Sendonly -> t_dir t <> Sendrecv /\ t_dir t <> Sendonly) ->
  legal d (t_dir (adjust d t)) = true.
Proof.
  intros d t Hd Ht Hi Hs. destruct d; try congruence.
  - unfold adjust. destruct (t_dir t) eqn:E; cbn; rewrite ?E; cbn; congruence.
  - destruct (Hs eq_refl) as [S1 S2].
    unfold adjust. destruct (t_dir t) eqn:E; cbn; rewrite ?E; cbn; congruence.
  - unfold adjust. destruct (t_dir t) eqn:E; cbn; rewrite ?E; cbn; congruence.
  - unfold adjust. now rewrite (Hi eq_refl).
Qed.

Lemma adjust_fields : forall d t,
  t_mid (adjust d t) = t_mid t /\ t_rem (adjust d t) = t_rem t /\
  t_kind (adjust d t) = t_kind t /\ t_sender (adjust d t) = t_sender t /\ t_cur (adjust d t) = t_cur t.
Proof. intros d t. unfold adjust. destruct d, (t_dir t); cbn; auto. Qed.

Lemma adjust_real : forall d t, t_dir t <> DUnk -> t_dir (adjust d t) <> DUnk.
Proof. intros d t H. unfold adjust. destruct d; destruct (t_dir t) eqn:E; cbn; rewrite ?E; congruence. Qed.

Lemma new_local_legal : forall d, d <> DUnk -> legal d (new_local_dir d) = true.
Proof. intros []; cbn; congruence. Qed.

Lemma legal_real : forall d a, legal d a = true -> a <> DUnk.
Proof. intros d [] H; cbn in H; congruence. Qed.

(* removing the sending half, or everything, keeps a direction legal *)
Lemma legal_drop_send : forall d a, legal d a = true ->
  legal d (match a with Sendrecv => Recvonly | Sendonly => Inactive | x => x end) = true.
Proof. intros [] [] H; cbn in *; congruence. Qed.

Lemma legal_inactive : forall d, d <> DUnk -> legal d Inactive = true.
Proof. intros [] H; cbn; congruence. Qed.

(* adding the sending half is legal when the remote receives *)
Lemma legal_add_send : forall d a, legal d a = true ->
  d <> DUnk -> d <> Sendonly -> d <> Inactive ->
  legal d (match a with Recvonly => Sendrecv | Inactive => Sendonly | x => x end) = true.
Proof. intros [] [] H H0 H1 H2; cbn in *; congruence. Qed.

(* ---------- the two searches ---------- *)
Lemma find_by_mid_spec : forall p m cands r rest,
  find_by_mid p m cands = (r, rest) ->
  match r with
  | Some i => (exists t, nth_error p i = Some t /\ t_mid t = Some m)
              /\ (forall x, In x cands -> x = i \/ In x rest)
  | None => (forall x t, In x cands -> nth_error p x = Some t -> t_mid t <> Some m)
            /\ (forall x, In x cands -> In x rest)
  end.
Proof.
  intros p m. induction cands as [|c cs IH]; intros r rest H; cbn in H.
  - injection H as <- <-. split; intros; contradiction.
  - destruct (nth_error p c) as [t|] eqn:E.
    + destruct (has_mid m t) eqn:Hm.
      * injection H as <- <-. split.
        -- exists t. split; auto. unfold has_mid in Hm. destruct (t_mid t); try discriminate.
           apply Nat.eqb_eq in Hm. now subst.
        -- intros x [->|Hx]; auto.
      * destruct (find_by_mid p m cs) as [r' rest'] eqn:F. injection H as <- <-.
        specialize (IH _ _ eq_refl). destruct r' as [i|].
        -- destruct IH as [A B]. split; auto. intros x [->|Hx]; [right; now left|].
           destruct (B x Hx); auto. right. now right.
        -- destruct IH as [A B]. split.
           ++ intros x t' [->|Hx] Hn; [|eauto]. rewrite E in Hn. injection Hn as <-.
              unfold has_mid in Hm. destruct (t_mid t); try discriminate.
              apply Nat.eqb_neq in Hm. congruence.
           ++ intros x [->|Hx]; [now left|]. right. auto.
    + destruct (find_by_mid p m cs) as [r' rest'] eqn:F. injection H as <- <-.
      specialize (IH _ _ eq_refl). destruct r' as [i|].
      * destruct IH as [A B]. split; auto. intros x [->|Hx]; [right; now left|].
        destruct (B x Hx); auto. right. now right.
      * destruct IH as [A B]. split.
        -- intros x t' [->|Hx] Hn; [congruence|eauto].
        -- intros x [->|Hx]; [now left|]. right. auto.
Qed.

Lemma first_match_spec : forall p k d cands r rest,
  first_match p k d cands = (r, rest) ->
  (forall x, In x cands -> (match r with Some i => x = i | None => False end) \/ In x rest) /\
  match r with
  | Some i => exists t, nth_error p i = Some t /\ t_mid t = None /\ t_dir t = d
  | None => True
  end.
Proof.
  intros p k d. induction cands as [|c cs IH]; intros r rest H; cbn in H.
  - injection H as <- <-. split; [intros x []|exact I].
  - destruct (nth_error p c) as [t|] eqn:E.
    + destruct (match t_mid t with None => true | Some _ => false end
                && kind_eqb (t_kind t) k && dir_eqb d (t_dir t)) eqn:C.
      * injection H as <- <-. split.
        -- intros x [->|Hx]; auto.
        -- exists t. split; auto.
           apply andb_true_iff in C as [C Cd]. apply andb_true_iff in C as [Cm _].
           split; [destruct (t_mid t); auto; discriminate|].
           symmetry. now apply dir_eqb_eq.
      * destruct (first_match p k d cs) as [r' rest'] eqn:F. injection H as <- <-.
        destruct (IH _ _ eq_refl) as [A B]. split; auto.
        intros x [->|Hx]; [right; now left|]. destruct (A x Hx); auto. right. now right.
    + destruct (first_match p k d cs) as [r' rest'] eqn:F. injection H as <- <-.
      destruct (IH _ _ eq_refl) as [A B]. split; auto.
      intros x [->|Hx]; [right; now left|]. destruct (A x Hx); auto. right. now right.
Qed.

Lemma satisfy_dirs_spec : forall p k ds cands r rest,
  satisfy_dirs p k ds cands = (r, rest) ->
  (forall x, In x cands -> (match r with Some i => x = i | None => False end) \/ In x rest) /\
  match r with
  | Some i => exists t, nth_error p i = Some t /\ t_mid t = None /\ In (t_dir t) ds
  | None => True
  end.
Proof.
  intros p k. induction ds as [|d ds IH]; intros cands r rest H; cbn in H.
  - injection H as <- <-. split; auto.
  - destruct (first_match p k d cands) as [[i|] rest'] eqn:F.
    + injection H as <- <-. destruct (first_match_spec _ _ _ _ _ _ F) as [A (t & Ht & Hm & Hd)].
      split; auto. exists t. repeat split; auto. now left.
    + destruct (IH _ _ _ H) as [A B]. split; auto. destruct r; auto.
      destruct B as (t & Ht & Hm & Hd). exists t. repeat split; auto. now right.
Qed.

(* ---------- the invariant ---------- *)
Definition tr_at (p : pc) (i : nat) (t : tr) : Prop := nth_error p i = Some t.

(* mids are unique and every direction is a declared value *)
Definition wf (p : pc) : Prop :=
  (forall i1 i2 t1 t2 j, tr_at p i1 t1 -> tr_at p i2 t2 ->
     t_mid t1 = Some j -> t_mid t2 = Some j -> i1 = i2)
  /\ (forall i t, tr_at p i t -> t_dir t <> DUnk).

(* transceivers outside the candidates carry a mid below m *)
Definition used (p : pc) (cands : list nat) (m : nat) : Prop :=
  forall i t, tr_at p i t -> ~ In i cands -> exists j, t_mid t = Some j /\ j < m.

(* every transceiver bound to an offered section below m answers it legally *)
Definition leg (secs : list (kind * dir)) (m : nat) (p : pc) : Prop :=
  forall i t j k d, tr_at p i t -> t_mid t = Some j -> j < m ->
    nth_error secs j = Some (k, d) -> d <> DUnk ->
    legal d (t_dir t) = true /\ t_rem t = d.

(* L = true: with the legality component; L = false: well-formedness only
   (needs no guard, used for reachability) *)
Definition legb (L : bool) (secs : list (kind * dir)) (m : nat) (p : pc) : Prop :=
  if L then leg secs m p else True.

Definition inv (L : bool) (secs : list (kind * dir)) (m : nat) (st : pc * list nat) : Prop :=
  wf (fst st) /\ used (fst st) (snd st) m /\ legb L secs m (fst st).

(* no transceiver bound to an offered-sendonly section from m on keeps sending *)
Definition guard_from (secs : list (kind * dir)) (m : nat) (p : pc) : Prop :=
  forall j k i t, m <= j -> nth_error secs j = Some (k, Sendonly) -> tr_at p i t ->
    t_mid t = Some j -> t_dir t <> Sendrecv /\ t_dir t <> Sendonly.

Lemma not_in_rest : forall (cands rest : list nat) i x,
  (forall y, In y cands -> y = i \/ In y rest) -> ~ In x rest -> x <> i -> ~ In x cands.
Proof. intros cands rest i x H Hn Hne Hin. destruct (H x Hin); auto. Qed.

(* replacing transceiver i by one bound to mid m that answers section m legally *)
Lemma inv_update : forall L secs m p cands rest i t t' k d,
  inv L secs m (p, cands) ->
  nth_error secs m = Some (k, d) -> d <> DUnk ->
  tr_at p i t ->
  (t_mid t = Some m \/
   (t_mid t = None /\ forall x tx, tr_at p x tx -> t_mid tx <> Some m)) ->
  t_mid t' = Some m -> t_dir t' <> DUnk ->
  (L = true -> legal d (t_dir t') = true /\ t_rem t' = d) ->
  (forall x, In x cands -> x = i \/ In x rest) ->
  inv L secs (S m) (update p i t', rest).
Proof.
  intros L secs m p cands rest i t t' k d [[U R] [Us Lg]] Hsec Hd Hi Hmid Hm' Hreal Hleg Hrest.
  cbn [fst snd] in *. unfold inv; cbn [fst snd].
  assert (NoOther : forall x tx, tr_at p x tx -> x <> i -> t_mid tx <> Some m).
  { intros x tx Hx Hne Hmx. destruct Hmid as [Hmid|[_ Hnone]].
    - apply Hne. eapply U; eauto.
    - eapply Hnone; eauto. }
  split; [split|split].
  - intros i1 i2 t1 t2 j H1 H2 M1 M2. unfold tr_at in *.
    apply nth_update_inv in H1 as [(-> & -> & _)|(N1 & H1)];
    apply nth_update_inv in H2 as [(E2 & -> & _)|(N2 & H2)]; auto.
    + rewrite Hm' in M1. injection M1 as <-. exfalso. eapply NoOther; eauto.
    + subst i2. rewrite Hm' in M2. injection M2 as <-. exfalso. eapply (NoOther i1); eauto.
    + eapply U; eauto.
  - intros x tx Hx. unfold tr_at in Hx. apply nth_update_inv in Hx as [(_ & -> & _)|(_ & Hx)]; auto.
    eapply R; eauto.
  - intros x tx Hx Hn. unfold tr_at in Hx. apply nth_update_inv in Hx as [(_ & -> & _)|(N & Hx)].
    + exists m. split; auto.
    + destruct (Us x tx Hx) as (j & Hj & Hlt).
      * eapply not_in_rest; eauto.
      * exists j. split; auto.
  - destruct L; [|exact I]. cbn in Lg |- *. destruct (Hleg eq_refl) as [Hl Hrem].
    intros x tx j k' d' Hx Hj Hlt Hs Hd'. unfold tr_at in Hx.
    apply nth_update_inv in Hx as [(_ & -> & _)|(N & Hx)].
    + rewrite Hm' in Hj. injection Hj as <-. rewrite Hsec in Hs. injection Hs as <- <-. auto.
    + assert (j <> m) by (intros ->; eapply NoOther; eauto).
      eapply Lg; eauto. lia.
Qed.

Lemma inv_append : forall L secs m p cands rest t' k d,
  inv L secs m (p, cands) ->
  nth_error secs m = Some (k, d) -> d <> DUnk ->
  (forall x tx, tr_at p x tx -> t_mid tx <> Some m) ->
  t_mid t' = Some m -> t_dir t' <> DUnk ->
  (L = true -> legal d (t_dir t') = true /\ t_rem t' = d) ->
  (forall x, In x cands -> In x rest) ->
  inv L secs (S m) (p ++ [t'], rest).
Proof.
  intros L secs m p cands rest t' k d [[U R] [Us Lg]] Hsec Hd NoOther Hm' Hreal Hleg Hrest.
  cbn [fst snd] in *. unfold inv; cbn [fst snd].
  split; [split|split].
  - intros i1 i2 t1 t2 j H1 H2 M1 M2. unfold tr_at in *.
    apply nth_app_inv in H1 as [(L1 & H1)|(-> & ->)];
    apply nth_app_inv in H2 as [(L2 & H2)|(E2 & ->)]; auto.
    + eapply U; eauto.
    + rewrite Hm' in M2. injection M2 as <-. exfalso. eapply NoOther; eauto.
    + rewrite Hm' in M1. injection M1 as <-. exfalso. eapply NoOther; eauto.
  - intros x tx Hx. unfold tr_at in Hx. apply nth_app_inv in Hx as [(_ & Hx)|(_ & ->)]; auto.
    eapply R; eauto.
  - intros x tx Hx Hn. unfold tr_at in Hx. apply nth_app_inv in Hx as [(_ & Hx)|(_ & ->)].
    + destruct (Us x tx Hx) as (j & Hj & Hlt); [intros Hin; apply Hn; auto|].
      exists j. split; auto.
    + exists m. split; auto.
  - destruct L; [|exact I]. cbn in Lg |- *. destruct (Hleg eq_refl) as [Hl Hrem].
    intros x tx j k' d' Hx Hj Hlt Hs Hd'. unfold tr_at in Hx.
    apply nth_app_inv in Hx as [(_ & Hx)|(_ & ->)].
    + assert (j <> m) by (intros ->; eapply NoOther; eauto).
      eapply Lg; eauto. lia.
    + rewrite Hm' in Hj. injection Hj as <-. rewrite Hsec in Hs. injection Hs as <- <-. auto.
Qed.

Lemma remote_section_unfold : forall p cands m k d, d <> DUnk ->
  remote_section (p, cands) m (k, d) = remote_section_known p cands m k d.
Proof. intros p cands m k d H. destruct d; try congruence; reflexivity. Qed.

Lemma inv_skip : forall L secs m st k,
  inv L secs m st -> nth_error secs m = Some (k, DUnk) -> inv L secs (S m) st.
Proof.
  intros L secs m [p cands] k [W [Us Lg]] Hsec. cbn [fst snd] in *. split; [|split]; auto.
  - intros i t Hi Hn. destruct (Us i t Hi Hn) as (j & ? & ?). exists j. split; auto.
  - destruct L; [|exact I]. cbn in Lg |- *.
    intros i t j k' d' Hi Hj Hlt Hs Hd'.
    assert (j <> m) by (intros ->; rewrite Hsec in Hs; injection Hs as _ <-; congruence).
    eapply Lg; eauto. lia.
Qed.

(* the transceiver a section ends up with: bound to the mid, declared direction *)
Lemma bind_mid : forall d t m,
  (t_mid t = Some m \/ t_mid t = None) -> t_dir t <> DUnk ->
  t_mid (set_mid_if_empty (adjust d (set_rem t d)) m) = Some m /\
  t_dir (set_mid_if_empty (adjust d (set_rem t d)) m) <> DUnk /\
  t_dir (set_mid_if_empty (adjust d (set_rem t d)) m) = t_dir (adjust d (set_rem t d)) /\
  t_rem (set_mid_if_empty (adjust d (set_rem t d)) m) = d.
Proof.
  intros d t m Hm Hr.
  destruct (adjust_fields d (set_rem t d)) as (Fm & Fr & _).
  assert (Hreal : t_dir (adjust d (set_rem t d)) <> DUnk) by (apply adjust_real; exact Hr).
  unfold set_mid_if_empty. rewrite Fm. cbn [t_mid set_rem].
  destruct Hm as [Hm|Hm]; rewrite Hm.
  - rewrite Fm. cbn [t_mid set_rem]. rewrite Fr. auto.
  - cbn [t_mid t_dir t_rem set_mid]. rewrite Fr. auto.
Qed.

Lemma inv_section : forall L secs m st sec,
  inv L secs m st -> (L = true -> guard_from secs m (fst st)) ->
  nth_error secs m = Some sec ->
  inv L secs (S m) (remote_section st m sec).
Proof.
  intros L secs m [p cands] [k d] I HG Hsec. cbn [fst] in HG.
  destruct (dir_eqb d DUnk) eqn:Ed.
  { apply dir_eqb_eq in Ed. subst d. cbn. eapply inv_skip; eauto. }
  assert (Hd : d <> DUnk) by (intros ->; discriminate).
  rewrite remote_section_unfold by auto. unfold remote_section_known.
  pose proof I as [[U R] [Us Lg]]. cbn [fst snd] in *.
  destruct (find_by_mid p m cands) as [[i|] rest] eqn:F;
    pose proof (find_by_mid_spec _ _ _ _ _ F) as FS; cbn beta iota in FS.
  - destruct FS as [(t & Ht & Hm) Hrest]. rewrite Ht.
    set (t0 := if dir_eqb d Inactive then stop_tr t else t).
    assert (M0 : t_mid t0 = Some m) by (unfold t0; destruct (dir_eqb d Inactive); cbn; auto).
    assert (R0 : t_dir t0 <> DUnk).
    { unfold t0; destruct (dir_eqb d Inactive); cbn; [discriminate|eapply R; eauto]. }
    destruct (bind_mid d t0 m (or_introl M0) R0) as (A & B & C & D).
    eapply (inv_update L secs m p cands rest i t); eauto.
    intros ->. split; auto. rewrite C. apply adjust_legal; auto.
    + intros ->. reflexivity.
    + intros ->. unfold t0. cbn. cbn [t_dir set_rem]. eapply (HG eq_refl m k i t); eauto.
  - destruct FS as [Hnone Hrest0].
    assert (NoOther : forall x tx, tr_at p x tx -> t_mid tx <> Some m).
    { intros x tx Hx. destruct (in_dec Nat.eq_dec x cands) as [Hin|Hnin].
      - eapply Hnone; eauto.
      - destruct (Us x tx Hx Hnin) as (j & Hj & Hlt). rewrite Hj. intros E. injection E as ->. lia. }
    unfold satisfy.
    destruct (satisfy_dirs p k (preferred d) cands) as [[i|] rest'] eqn:S;
      pose proof (satisfy_dirs_spec _ _ _ _ _ _ S) as [SA SB].
    + destruct SB as (t & Ht & Hmid & Hpref). rewrite Ht.
      assert (R0 : t_dir t <> DUnk) by (eapply R; eauto).
      destruct (bind_mid d t m (or_intror Hmid) R0) as (A & B & C & D).
      eapply (inv_update L secs m p cands rest' i t); eauto.
      intros _. split; auto. rewrite C. apply adjust_legal; auto.
      * intros ->. cbn in Hpref. contradiction.
      * intros ->. cbn in Hpref. destruct Hpref as [E|[]]. cbn [t_dir set_rem]. rewrite <- E.
        split; discriminate.
    + eapply (inv_append L secs m p cands rest'); eauto.
      * destruct d; cbn; congruence.
      * intros _. split; [cbn; apply new_local_legal; auto|reflexivity].
      * intros x Hx. destruct (SA x Hx) as [[]|]; auto.
Qed.

(* processing section m does not touch transceivers bound to later mids *)
Lemma guard_section : forall secs m p cands sec,
  wf p -> guard_from secs m p -> guard_from secs (S m) (fst (remote_section (p, cands) m sec)).
Proof.
  intros secs m p cands [k d] [_ R] G.
  assert (Keep : guard_from secs (S m) p).
  { intros j k' i t Hle. apply G. lia. }
  destruct (dir_eqb d DUnk) eqn:Ed.
  { apply dir_eqb_eq in Ed. subst d. exact Keep. }
  assert (Hd : d <> DUnk) by (intros ->; discriminate).
  rewrite remote_section_unfold by auto. unfold remote_section_known.
  assert (Upd : forall i t t', tr_at p i t -> t_mid t' = Some m -> guard_from secs (S m) (update p i t')).
  { intros i t t' Hi Hm' j k' x tx Hle Hs Hx Hj. unfold tr_at in Hx.
    apply nth_update_inv in Hx as [(_ & -> & _)|(_ & Hx)].
    - rewrite Hm' in Hj. injection Hj as <-. lia.
    - eapply Keep; eauto. }
  destruct (find_by_mid p m cands) as [[i|] rest] eqn:F;
    pose proof (find_by_mid_spec _ _ _ _ _ F) as FS; cbn beta iota in FS.
  - destruct FS as [(t & Ht & Hm) _]. rewrite Ht. cbn [fst].
    set (t0 := if dir_eqb d Inactive then stop_tr t else t).
    assert (M0 : t_mid t0 = Some m) by (unfold t0; destruct (dir_eqb d Inactive); cbn; auto).
    assert (R0 : t_dir t0 <> DUnk).
    { unfold t0; destruct (dir_eqb d Inactive); cbn; [discriminate|eapply R; eauto]. }
    eapply (Upd i t); eauto. apply (bind_mid d t0 m (or_introl M0) R0).
  - unfold satisfy.
    destruct (satisfy_dirs p k (preferred d) cands) as [[i|] rest'] eqn:S;
      pose proof (satisfy_dirs_spec _ _ _ _ _ _ S) as [_ SB].
    + destruct SB as (t & Ht & Hmid & _). rewrite Ht. cbn [fst].
      eapply (Upd i t); eauto.
      apply (bind_mid d t m (or_intror Hmid)). eapply R; eauto.
    + cbn [fst]. intros j k' x tx Hle Hs Hx Hj. unfold tr_at in Hx.
      apply nth_app_inv in Hx as [(_ & Hx)|(_ & ->)].
      * eapply Keep; eauto.
      * cbn in Hj. injection Hj as <-. lia.
Qed.

Lemma inv_sections : forall L secs rest m st,
  (forall j, nth_error secs (m + j) = nth_error rest j) ->
  inv L secs m st -> (L = true -> guard_from secs m (fst st)) ->
  inv L secs (m + List.length rest) (remote_sections st m rest) /\
  (L = true -> guard_from secs (m + List.length rest) (fst (remote_sections st m rest))).
Proof.
  intros L secs. induction rest as [|s more IH]; intros m st Hn I G; cbn.
  - rewrite Nat.add_0_r. auto.
  - replace (m + S (List.length more)) with (S m + List.length more) by lia.
    apply IH.
    + intros j. specialize (Hn (S j)). cbn in Hn. rewrite <- Hn. f_equal. lia.
    + apply inv_section; auto. specialize (Hn 0). cbn in Hn. now rewrite Nat.add_0_r in Hn.
    + intros HL. destruct st as [p cands]. apply guard_section; [apply I|auto].
Qed.

(* all offered sections *)
Definition good (secs : list (kind * dir)) (p : pc) : Prop :=
  wf p /\ leg secs (List.length secs) p.

Lemma inv_start : forall L secs p, wf p -> inv L secs 0 (p, seq 0 (List.length p)).
Proof.
  intros L secs p W. split; [exact W|split]; cbn [fst snd].
  - intros i t Hi Hn. exfalso. apply Hn. apply in_seq. split; [lia|].
    cbn. apply nth_error_Some. unfold tr_at in Hi. congruence.
  - destruct L; [|exact I]. intros i t j k d _ _ Hlt. lia.
Qed.

(* without any guard: reachable states stay well-formed *)
Lemma set_remote_wf : forall p secs, wf p -> wf (set_remote p secs).
Proof.
  intros p secs W. unfold set_remote.
  destruct (inv_sections false secs secs 0 _ (fun j => eq_refl) (inv_start false secs p W))
    as [[W' _] _]; [discriminate|exact W'].
Qed.

Lemma set_remote_good : forall p secs,
  wf p -> guard_from secs 0 p -> good secs (set_remote p secs).
Proof.
  intros p secs W G. unfold set_remote.
  destruct (inv_sections true secs secs 0 _ (fun j => eq_refl) (inv_start true secs p W) (fun _ => G))
    as [[W' [_ L']] _].
  split; auto.
Qed.

(* the boolean guard of the model is guard_from 0 *)
Lemma reoffer_ok_from_guard : forall p secs m,
  reoffer_ok_from p m secs = true ->
  forall j k i t, nth_error secs j = Some (k, Sendonly) -> tr_at p i t ->
    t_mid t = Some (m + j) -> t_dir t <> Sendrecv /\ t_dir t <> Sendonly.
Proof.
  intros p. induction secs as [|[k0 d0] more IH]; intros m H j k i t Hs Hi Hm.
  - destruct j; discriminate.
  - cbn in H. apply andb_true_iff in H as [H1 H2]. destruct j as [|j].
    + cbn in Hs. injection Hs as -> ->. cbn in H1. rewrite forallb_forall in H1.
      assert (Hin : In t p) by (eapply nth_error_In; exact Hi).
      specialize (H1 t Hin). apply negb_true_iff in H1. unfold keeps_sending, has_mid in H1.
      rewrite Hm, Nat.add_0_r, Nat.eqb_refl in H1. cbn in H1.
      apply orb_false_iff in H1 as [A B].
      split; intros E; rewrite E in *; discriminate.
    + cbn in Hs. apply (IH (S m) H2 j k i t Hs Hi). rewrite Hm. f_equal. lia.
Qed.

Lemma reoffer_ok_guard : forall p secs, reoffer_ok p secs = true -> guard_from secs 0 p.
Proof.
  intros p secs H j k i t _ Hs Hi Hm. eapply (reoffer_ok_from_guard p secs 0 H j k i t); eauto.
Qed.

(* ---------- local operations ---------- *)
Lemma good_update : forall secs p i t t',
  good secs p -> tr_at p i t -> t_mid t' = t_mid t -> t_dir t' <> DUnk ->
  (forall j k d, t_mid t = Some j -> nth_error secs j = Some (k, d) -> d <> DUnk ->
     legal d (t_dir t) = true /\ t_rem t = d -> legal d (t_dir t') = true /\ t_rem t' = d) ->
  good secs (update p i t').
Proof.
  intros secs p i t t' [[U R] L] Hi Hm Hr Hl. split; [split|].
  - intros i1 i2 t1 t2 j H1 H2 M1 M2. unfold tr_at in *.
    apply nth_update_inv in H1 as [(-> & -> & _)|(N1 & H1)];
    apply nth_update_inv in H2 as [(E2 & -> & _)|(N2 & H2)]; auto.
    + rewrite Hm in M1. eapply U; eauto.
    + subst i2. rewrite Hm in M2. eapply U; eauto.
    + eapply U; eauto.
  - intros x tx Hx. unfold tr_at in Hx. apply nth_update_inv in Hx as [(_ & -> & _)|(_ & Hx)]; auto.
    eapply R; eauto.
  - intros x tx j k d Hx Hj Hlt Hs Hd. unfold tr_at in Hx.
    apply nth_update_inv in Hx as [(_ & -> & _)|(_ & Hx)].
    + rewrite Hm in Hj. eapply Hl; eauto; eapply L; eauto.
    + eapply L; eauto.
Qed.

Lemma good_append : forall secs p t',
  good secs p -> t_mid t' = None -> t_dir t' <> DUnk -> good secs (p ++ [t']).
Proof.
  intros secs p t' [[U R] L] Hm Hr. split; [split|].
  - intros i1 i2 t1 t2 j H1 H2 M1 M2. unfold tr_at in *.
    apply nth_app_inv in H1 as [(L1 & H1)|(-> & ->)];
    apply nth_app_inv in H2 as [(L2 & H2)|(E2 & ->)]; try congruence.
    eapply U; eauto.
  - intros x tx Hx. unfold tr_at in Hx. apply nth_app_inv in Hx as [(_ & Hx)|(_ & ->)]; auto.
    eapply R; eauto.
  - intros x tx j k d Hx Hj Hlt Hs Hd. unfold tr_at in Hx.
    apply nth_app_inv in Hx as [(_ & Hx)|(_ & ->)]; [eapply L; eauto|congruence].
Qed.

Lemma add_track_cases : forall p k,
  (exists i t, tr_at p i t /\ is_send_allowed t k = true /\
               add_track p k = update p i (with_track (set_sender t true)))
  \/ add_track p k = p ++ [new_tr k Sendrecv true].
Proof.
  induction p as [|h rest IH]; intros k; cbn.
  - now right.
  - destruct (is_send_allowed h k) eqn:A.
    + left. exists 0, h. repeat split; auto.
    + destruct (IH k) as [(i & t & Hi & Ha & He)|He].
      * left. exists (S i), t. repeat split; auto. cbn. now rewrite He.
      * right. now rewrite He.
Qed.

Lemma with_track_legal : forall d t,
  d <> DUnk -> d <> Sendonly -> d <> Inactive ->
  legal d (t_dir t) = true -> legal d (t_dir (with_track (set_sender t true))) = true.
Proof.
  intros d t H0 H1 H2 H. unfold with_track. cbn [t_dir set_sender].
  pose proof (legal_add_send d (t_dir t) H H0 H1 H2) as A.
  revert A. destruct (t_dir t) eqn:E; cbn; rewrite ?E; auto.
Qed.

Lemma with_track_fields : forall t,
  t_mid (with_track (set_sender t true)) = t_mid t /\
  t_rem (with_track (set_sender t true)) = t_rem t /\
  (t_dir t <> DUnk -> t_dir (with_track (set_sender t true)) <> DUnk).
Proof.
  intros t. unfold with_track. cbn [t_dir set_sender].
  destruct (t_dir t) eqn:E; cbn; rewrite ?E; repeat split; congruence.
Qed.

(* core: a local operation keeps the invariant; the guard is needed only when
   the offer has sections *)
Lemma local_op_good : forall secs p o,
  good secs p -> (setsender_ok p o = true \/ secs = []) -> good secs (fst (local_op p o)).
Proof.
  intros secs p o G Hg. pose proof G as [[U R] L].
  destruct o as [k d|k|i|i|i]; cbn [local_op].
  - (* AddTr *) destruct d; cbn [fst]; auto; apply good_append; auto; cbn; discriminate.
  - (* AddTrack *) cbn [fst]. destruct (add_track_cases p k) as [(i & t & Hi & Ha & ->) | ->].
    + destruct (with_track_fields t) as (Fm & Fr & Fd).
      eapply (good_update secs p i t); [exact G | exact Hi | exact Fm | apply Fd; eapply R; eauto | ].
      * intros j k' d Hj Hs Hd [Hl Hrem]. rewrite Fr. split; auto.
        unfold is_send_allowed in Ha. rewrite Hrem in Ha.
        apply andb_true_iff in Ha as [_ Ha]. apply negb_true_iff in Ha. apply orb_false_iff in Ha as [A1 A2].
        apply with_track_legal; auto; intros ->; discriminate.
    + apply good_append; auto; cbn; discriminate.
  - (* RmTrack *) destruct (nth_error p i) as [t|] eqn:Hi; cbn [fst]; auto.
    destruct (t_sender t); cbn [fst]; auto.
    assert (Hx : forall t', t_mid t' = t_mid t -> t_rem t' = t_rem t ->
               t_dir t' = match t_dir t with Sendrecv => Recvonly | Sendonly => Inactive | x => x end ->
               good secs (update p i t')).
    { intros t' Em Er Ed. eapply good_update; eauto.
      - rewrite Ed. pose proof (R i t Hi). destruct (t_dir t); congruence.
      - intros j k' d Hj Hs Hd [Hl Hrem]. rewrite Ed, Er. split; auto. pose proof (legal_drop_send d (t_dir t) Hl) as Q. destruct (t_dir t); exact Q. }
    cbn [t_dir set_sender]. destruct (t_dir t) eqn:Ed; cbn [fst]; apply Hx; cbn; rewrite ?Ed; auto.
  - (* StopTr *) destruct (nth_error p i) as [t|] eqn:Hi; cbn [fst]; auto.
    eapply (good_update secs p i t); [exact G | exact Hi | reflexivity | cbn; discriminate | ].
    intros j k' d Hj Hs Hd [Hl Hrem]. split; auto.
  - (* SetSender *) destruct (nth_error p i) as [t|] eqn:Hi; cbn [fst]; auto.
    destruct (with_track_fields t) as (Fm & Fr & Fd).
    eapply (good_update secs p i t); [exact G | exact Hi | exact Fm | apply Fd; eapply R; eauto | ].
    + intros j k' d Hj Hs Hd [Hl Hrem]. rewrite Fr. split; auto.
      destruct Hg as [Hg| ->]; [|destruct j; discriminate].
      cbn in Hg. rewrite Hi, Hrem in Hg. apply negb_true_iff in Hg. apply orb_false_iff in Hg as [A1 A2].
      apply with_track_legal; auto; intros ->; discriminate.
Qed.

Lemma local_ops_fst : forall p o more,
  fst (local_ops p (o :: more)) = fst (local_ops (fst (local_op p o)) more).
Proof.
  intros p o more. cbn. destruct (local_op p o) as [p1 c]. cbn.
  destruct (local_ops p1 more). reflexivity.
Qed.

Lemma local_ops_good : forall secs os p,
  good secs p -> setsender_guarded p os = true -> good secs (fst (local_ops p os)).
Proof.
  intros secs. induction os as [|o more IH]; intros p G Hg; [exact G|].
  cbn in Hg. apply andb_true_iff in Hg as [H1 H2].
  rewrite local_ops_fst. apply IH; auto. apply local_op_good; auto.
Qed.

Lemma no_setsender_guarded : forall os p, no_setsender os = true -> setsender_guarded p os = true.
Proof.
  induction os as [|o more IH]; intros p H; cbn in *; auto.
  apply andb_true_iff in H as [H1 H2]. rewrite IH by auto.
  destruct o; cbn; auto. discriminate.
Qed.

(* ---------- the answer ---------- *)
Lemma answer_dirs_legal : forall secs p,
  leg secs (List.length secs) p ->
  forall rest m cands ds,
  (forall j, nth_error secs (m + j) = nth_error rest j) ->
  answer_dirs p cands m rest = Ok ds -> all_legal rest ds = true.
Proof.
  intros secs p L. induction rest as [|[k d] more IH]; intros m cands ds Hn H.
  - cbn in H. injection H as <-. reflexivity.
  - assert (Hn' : forall j, nth_error secs (S m + j) = nth_error more j).
    { intros j. specialize (Hn (S j)). cbn in Hn. rewrite <- Hn. f_equal. lia. }
    assert (Hm : nth_error secs m = Some (k, d)).
    { specialize (Hn 0). rewrite Nat.add_0_r in Hn. exact Hn. }
    destruct (dir_eqb d DUnk) eqn:Ed.
    { apply dir_eqb_eq in Ed. subst d. cbn in H |- *. exact (IH (S m) cands ds Hn' H). }
    assert (Hd : d <> DUnk) by (intros ->; discriminate).
    assert (E : answer_dirs p cands m ((k, d) :: more) =
                match find_by_mid p m cands with
                | (Some i, rest) =>
                    match nth_error p i with
                    | Some t => rbind (answer_dirs p rest (S m) more) (fun l => Ok (t_dir t :: l))
                    | None => Panic
                    end
                | (None, _) => Err "errPeerConnTranscieverMidNil"%string
                end) by (destruct d; congruence || reflexivity).
    rewrite E in H. clear E.
    destruct (find_by_mid p m cands) as [[i|] rest'] eqn:F; [|discriminate].
    pose proof (find_by_mid_spec _ _ _ _ _ F) as [(t & Ht & Hmid) _].
    rewrite Ht in H.
    destruct (answer_dirs p rest' (S m) more) as [l| |] eqn:A; cbn in H; try discriminate.
    injection H as <-.
    assert (Hlt : m < List.length secs) by (apply nth_error_Some; congruence).
    destruct (L i t m k d Ht Hmid Hlt Hm Hd) as [Hl _].
    assert (E2 : all_legal ((k, d) :: more) (t_dir t :: l) = legal d (t_dir t) && all_legal more l)
      by (destruct d; congruence || reflexivity).
    rewrite E2, Hl. cbn. eapply IH; eauto.
Qed.

Lemma exchange_answer : forall p secs mid,
  answer_of p secs mid = create_answer (fst (local_ops (set_remote p secs) mid)) secs.
Proof.
  intros p secs mid. unfold answer_of, exchange.
  destruct (local_ops (set_remote p secs) mid) as [p2 codes]. reflexivity.
Qed.

(* any state with unique mids, any offer, guarded local operations *)
Lemma answer_legal : forall p secs mid ds,
  wf p -> reoffer_ok p secs = true -> setsender_guarded (set_remote p secs) mid = true ->
  answer_of p secs mid = Ok ds -> all_legal secs ds = true.
Proof.
  intros p secs mid ds W Hr Hg H. rewrite exchange_answer in H.
  pose proof (local_ops_good secs mid _ (set_remote_good p secs W (reoffer_ok_guard _ _ Hr)) Hg) as [_ L].
  unfold create_answer in H.
  eapply (answer_dirs_legal secs _ L secs 0); eauto.
Qed.

(* ---------- histories ---------- *)
Lemma wf_good_nil : forall p, wf p <-> good [] p.
Proof.
  intros p. split; [|intros [W _]; exact W].
  intros W. split; auto. intros i t j k d _ _ Hlt. cbn in Hlt. lia.
Qed.

Lemma wf_local_op : forall p o, wf p -> wf (fst (local_op p o)).
Proof. intros p o W. apply wf_good_nil. apply local_op_good; [now apply wf_good_nil|now right]. Qed.

Lemma wf_local_ops : forall os p, wf p -> wf (fst (local_ops p os)).
Proof.
  induction os as [|o more IH]; intros p W; [exact W|].
  rewrite local_ops_fst. apply IH. now apply wf_local_op.
Qed.

Lemma wf_update_cur : forall p i t d, wf p -> tr_at p i t -> wf (update p i (set_cur t d)).
Proof.
  intros p i t d W Hi. apply wf_good_nil.
  eapply (good_update [] p i t); [now apply wf_good_nil | exact Hi | reflexivity | | ].
  - cbn. destruct W as [_ R]. eapply R; eauto.
  - intros j k' d' _ Hs. destruct j; discriminate.
Qed.

Lemma wf_local_answer : forall secs p cands m, wf p -> wf (local_answer p cands m secs).
Proof.
  induction secs as [|[k d] more IH]; intros p cands m W; [exact W|].
  assert (E : local_answer p cands m ((k, d) :: more) =
     match d with
     | DUnk => local_answer p cands (S m) more
     | _ => match find_by_mid p m cands with
            | (Some i, rest) =>
                match nth_error p i with
                | Some t =>
                    local_answer (update p i (set_cur t
                      (if dir_eqb (t_dir t) Sendonly && negb (t_sender t) then Inactive else t_dir t)))
                      rest (S m) more
                | None => p
                end
            | (None, _) => p
            end
     end) by (destruct d; reflexivity).
  rewrite E. clear E.
  assert (Q : wf match find_by_mid p m cands with
            | (Some i, rest) =>
                match nth_error p i with
                | Some t =>
                    local_answer (update p i (set_cur t
                      (if dir_eqb (t_dir t) Sendonly && negb (t_sender t) then Inactive else t_dir t)))
                      rest (S m) more
                | None => p
                end
            | (None, _) => p
            end).
  { destruct (find_by_mid p m cands) as [[i|] rest]; auto.
    destruct (nth_error p i) as [t|] eqn:Hi; auto. apply IH. now apply wf_update_cur. }
  destruct d; auto.
Qed.

Lemma wf_step : forall p o, wf p -> wf (step p o).
Proof.
  intros p [l|secs mid] W; cbn [step].
  - now apply wf_local_op.
  - unfold exchange.
    destruct (local_ops (set_remote p secs) mid) as [p2 codes] eqn:E. cbn [fst].
    assert (W2 : wf p2).
    { replace p2 with (fst (local_ops (set_remote p secs) mid)) by now rewrite E.
      apply wf_local_ops. now apply set_remote_wf. }
    destruct (create_answer p2 secs); auto. now apply wf_local_answer.
Qed.

Lemma wf_nil : wf [].
Proof. split; intros; unfold tr_at in *; destruct i1 + destruct i; discriminate. Qed.

Lemma wf_run : forall os, wf (run_history os).
Proof.
  intros os. unfold run_history.
  assert (G : forall p, wf p -> wf (fold_left step os p)).
  { induction os as [|o more IH]; intros p W; cbn; auto. apply IH. now apply wf_step. }
  apply G, wf_nil.
Qed.

Lemma history_answer_legal : forall os secs mid ds,
  reoffer_ok (run_history os) secs = true ->
  setsender_guarded (set_remote (run_history os) secs) mid = true ->
  answer_of (run_history os) secs mid = Ok ds -> all_legal secs ds = true.
Proof. intros os secs mid ds. apply answer_legal, wf_run. Qed.

Lemma history_answer_legal_no_setsender : forall os secs mid ds,
  reoffer_ok (run_history os) secs = true -> no_setsender mid = true ->
  answer_of (run_history os) secs mid = Ok ds -> all_legal secs ds = true.
Proof.
  intros os secs mid ds Hr H. apply history_answer_legal; auto. now apply no_setsender_guarded.
Qed.

(* the unguarded statement fails, in three independent ways *)
Definition bound_sendrecv : list op := [Local (AddTrack Audio); Exchange [(Audio, Sendrecv)] []].
Definition bound_sendonly : list op := [Exchange [(Audio, Recvonly)] []].

Lemma refuted_reoffer_sendrecv :
  answer_of (run_history bound_sendrecv) [(Audio, Sendonly)] [] = Ok [Sendrecv] /\
  all_legal [(Audio, Sendonly)] [Sendrecv] = false /\
  reoffer_ok (run_history bound_sendrecv) [(Audio, Sendonly)] = false.
Proof. repeat split. Qed.

Lemma refuted_reoffer_sendonly :
  answer_of (run_history bound_sendonly) [(Audio, Sendonly)] [] = Ok [Sendonly] /\
  all_legal [(Audio, Sendonly)] [Sendonly] = false /\
  reoffer_ok (run_history bound_sendonly) [(Audio, Sendonly)] = false.
Proof. repeat split. Qed.

Lemma refuted_setsender :
  answer_of (run_history []) [(Audio, Sendonly)] [SetSender 0] = Ok [Sendrecv] /\
  all_legal [(Audio, Sendonly)] [Sendrecv] = false /\
  reoffer_ok (run_history []) [(Audio, Sendonly)] = true /\
  answer_of (run_history []) [(Video, Inactive)] [SetSender 0] = Ok [Sendonly] /\
  all_legal [(Video, Inactive)] [Sendonly] = false.
Proof. repeat split. Qed.

Lemma full_refuted : exists os secs mid ds,
  answer_of (run_history os) secs mid = Ok ds /\ all_legal secs ds = false.
Proof.
  exists bound_sendrecv, [(Audio, Sendonly)], [], [Sendrecv]. split; reflexivity.
Qed.

(* the guard is tight for the direction switch: a bound transceiver that keeps
   sending stays as it is when its mid is re-offered sendonly *)
Lemma adjust_keeps_sending : forall t,
  t_dir t = Sendrecv \/ t_dir t = Sendonly ->
  adjust Sendonly t = t /\ legal Sendonly (t_dir t) = false.
Proof. intros t [E|E]; unfold adjust; rewrite E; split; reflexivity. Qed.

Lemma legal_table : forall o a, o <> DUnk ->
  (legal o a = true <->
   (o = Sendrecv /\ a <> DUnk) \/
   (o = Sendonly /\ (a = Recvonly \/ a = Inactive)) \/
   (o = Recvonly /\ (a = Sendonly \/ a = Inactive)) \/
   (o = Inactive /\ a = Inactive)).
Proof.
  intros o a Ho. split.
  - destruct o, a; cbn; intros H; try discriminate; try congruence;
      first [ left; split; [reflexivity|discriminate]
            | right; left; split; [reflexivity|auto]
            | right; right; left; split; [reflexivity|auto]
            | right; right; right; split; reflexivity ].
  - intros [[-> H]|[[-> [->| ->]]|[[-> [->| ->]]|[-> ->]]]]; try reflexivity.
    destruct a; try reflexivity. congruence.
Qed.

Lemma set_remote_establishes : forall p secs, wf p -> reoffer_ok p secs = true ->
  forall i t j k d, nth_error (set_remote p secs) i = Some t -> t_mid t = Some j ->
    nth_error secs j = Some (k, d) -> d <> DUnk ->
    legal d (t_dir t) = true /\ t_rem t = d.
Proof.
  intros p secs W Hr i t j k d Hi Hj Hs Hd.
  destruct (set_remote_good p secs W (reoffer_ok_guard _ _ Hr)) as [_ L].
  eapply L; eauto. apply nth_error_Some. congruence.
Qed.
