(* C03: which rejected calls leave the negotiation state alone. *)
From Coq Require Import List Bool NArith String.
Import ListNotations.
From Verif Require Import Common.Base Model.Signaling Proofs.Signaling Proofs.SignalingHist.

Lemma err_inj {A} (a b : string) : @Err A a = Err b -> a = b.
Proof. intro H; inversion H; reflexivity. Qed.

Lemma pre_not_send : ~ pre_error ESend.
Proof.
  unfold pre_error; intros [H | [H | [H | [H | H]]]]; discriminate.
Qed.

Lemma set_local_pre_unchanged r n d n' e :
  set_local r n d = (n', Err e) -> pre_error e -> n' = n.
Proof.
  intros H Hp. apply set_local_cases in H.
  destruct H as [[H _] | [_ [H | H]]]; [exact H | discriminate|].
  apply err_inj in H. subst e. exfalso. exact (pre_not_send Hp).
Qed.

Lemma set_remote_pre_unchanged r n d n' e :
  set_remote r n d = (n', Err e) -> pre_error e -> n' = n.
Proof.
  intros H Hp. apply set_remote_cases in H.
  destruct H as [[H _] | [_ [H | [e' [H Hpost]]]]]; [exact H | discriminate|].
  apply err_inj in H. subst e'. exfalso. exact (pre_post_disjoint e Hp Hpost).
Qed.

Lemma send_is_post : post_error ESend.
Proof. unfold post_error; auto 10. Qed.

(* every error is of one of the two kinds, and the kind tells whether the
   transition was applied *)
Lemma set_step_error_kinds r n sd d n' e :
  step_r r n (set_op sd d) = (n', Err e) ->
  (pre_error e /\ n' = n) \/
  (post_error e /\ n' <> n /\
   w3c_edge (st n) sd (d_ty d) = Some (st n') /\
   events n' = (events n ++ [st n'])%list).
Proof.
  intro H.
  assert (Hchg : forall d1 op, set_description r n d1 op = (n', None) ->
                 n' <> n /\ events n' = (events n ++ [st n'])%list).
  { intros d1 op Hsd. apply set_description_ok in Hsd.
    destruct Hsd as [_ [sd' [next [_ [_ [Hn _]]]]]].
    assert (Hev : events n' = (events n ++ [st n'])%list).
    { subst n'. cbn. f_equal. apply apply_slots_keeps. }
    split; [|exact Hev]. intro Heq. rewrite Heq in Hev.
    assert (Hl : List.length (events n) = List.length ((events n ++ [st n])%list))
      by (rewrite <- Hev; reflexivity).
    rewrite app_length in Hl. cbn in Hl.
    clear -Hl. induction (List.length (events n)); cbn in Hl; [discriminate | inversion Hl; auto]. }
  pose proof (set_step_edge r n sd d n' (Err e) H) as Hedge.
  destruct sd; cbn in H.
  - apply set_local_cases in H.
    destruct H as [[Hn [e' [He Hp]]] | [Hsd [He | He]]]; [|discriminate|].
    + apply err_inj in He. subst e'. left; auto.
    + apply err_inj in He. subst e. right.
      destruct (Hchg _ _ Hsd) as [Hne Hev].
      split; [exact send_is_post|]. split; [exact Hne|].
      destruct Hedge as [Hq | Hq]; [contradiction | auto].
  - apply set_remote_cases in H.
    destruct H as [[Hn [e' [He Hp]]] | [Hsd [He | [e' [He Hp]]]]]; [|discriminate|].
    + apply err_inj in He. subst e'. left; auto.
    + apply err_inj in He. subst e'. right.
      destruct (Hchg _ _ Hsd) as [Hne Hev].
      split; [exact Hp|]. split; [exact Hne|].
      destruct Hedge as [Hq | Hq]; [contradiction | auto].
Qed.
