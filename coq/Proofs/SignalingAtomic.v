(* C03: which rejected calls leave the negotiation state alone. *)
From Coq Require Import List Bool NArith String.
Import ListNotations.
From Verif Require Import Common.Base Model.Signaling Proofs.Signaling Proofs.SignalingHist.

Lemma err_inj {A} (a b : string) : @Err A a = Err b -> a = b.
Proof. intro H; inversion H; reflexivity. Qed.

Lemma set_local_pre_unchanged r n d n' e :
  set_local r n d = (n', Err e) -> pre_error e -> n' = n.
Proof.
  intros H Hp. apply set_local_cases in H.
  destruct H as [[H _] | [_ [H | H]]]; [exact H | discriminate|].
  exfalso. apply (pre_post_disjoint e Hp). apply local_post.
  destruct H as [H | H]; apply err_inj in H; auto.
Qed.

Lemma set_remote_pre_unchanged r n d n' e :
  set_remote r n d = (n', Err e) -> pre_error e -> n' = n.
Proof.
  intros H Hp. apply set_remote_cases in H.
  destruct H as [[H _] | [_ [H | [e' [H Hpost]]]]]; [exact H | discriminate|].
  apply err_inj in H. subst e'. exfalso. exact (pre_post_disjoint e Hp Hpost).
Qed.

Lemma events_grow_neq (n n' : neg) :
  events n' = (events n ++ [st n'])%list -> n' <> n.
Proof.
  intros Hev Heq. rewrite Heq in Hev.
  assert (Hl : List.length (events n) = List.length ((events n ++ [st n])%list))
    by (rewrite <- Hev; reflexivity).
  rewrite app_length in Hl. cbn in Hl.
  clear -Hl. induction (List.length (events n)); cbn in Hl; [discriminate | inversion Hl; auto].
Qed.

(* every error is of one of the two kinds, and the kind tells whether the
   transition was applied *)
Lemma set_step_error_kinds r n sd d n' e :
  step_r r n (set_op sd d) = (n', Err e) ->
  (pre_error e /\ n' = n) \/
  (post_error e /\ n' <> n /\
   w3c_edge (st n) sd (d_ty d) = Some (st n') /\
   events n' = (events n ++ [st n'])%list).
Proof.
  intro H.
  assert (Hchg : forall d1 op, set_description r n d1 op = (n', None) ->
                 n' <> n /\ events n' = (events n ++ [st n'])%list).
  { intros d1 op Hsd. apply set_description_ok in Hsd.
    destruct Hsd as [_ [sd' [next [_ [_ [Hn _]]]]]].
    assert (Hev : events n' = (events n ++ [st n'])%list).
    { subst n'. cbn. f_equal. apply apply_slots_keeps. }
    split; [|exact Hev]. exact (events_grow_neq n n' Hev). }
  pose proof (set_step_edge r n sd d n' (Err e) H) as Hedge.
  destruct sd; cbn in H.
  - apply set_local_cases in H.
    destruct H as [[Hn [e' [He Hp]]] | [Hsd [He | He]]]; [|discriminate|].
    + apply err_inj in He. subst e'. left; auto.
    + right. destruct (Hchg _ _ Hsd) as [Hne Hev].
      split; [apply local_post; destruct He as [He | He]; apply err_inj in He; auto|].
      split; [exact Hne|].
      destruct Hedge as [Hq | Hq]; [contradiction | auto].
  - apply set_remote_cases in H.
    destruct H as [[Hn [e' [He Hp]]] | [Hsd [He | [e' [He Hp]]]]]; [|discriminate|].
    + apply err_inj in He. subst e'. left; auto.
    + apply err_inj in He. subst e'. right.
      destruct (Hchg _ _ Hsd) as [Hne Hev].
      split; [exact Hp|]. split; [exact Hne|].
      destruct Hedge as [Hq | Hq]; [contradiction | auto].
Qed.

(* an error is returned with the negotiation record changed exactly when its
   class is one of those raised after setDescription *)
Lemma set_step_error_after_iff r n sd d n' e :
  step_r r n (set_op sd d) = (n', Err e) -> (n' <> n <-> post_error e).
Proof.
  intro H. apply set_step_error_kinds in H.
  destruct H as [[Hp Hn] | [Hp [Hn _]]]; split; intro Hx.
  - contradiction.
  - exfalso. exact (pre_post_disjoint e Hp Hx).
  - exact Hp.
  - exact Hn.
Qed.

(* the classes a side can raise after the transition *)
Lemma set_local_post_classes r n d n' e :
  set_local r n d = (n', Err e) -> post_error e -> e = ESend \/ e = EGather.
Proof.
  intros H Hp. apply set_local_cases in H.
  destruct H as [[_ [e' [He Hpre]]] | [_ [H | [H | H]]]].
  - apply err_inj in He. subst e'. exfalso. exact (pre_post_disjoint e Hpre Hp).
  - discriminate.
  - apply err_inj in H. auto.
  - apply err_inj in H. auto.
Qed.

Lemma remote_after_classes d e :
  remote_after d = Some e -> e = ECodec \/ e = EStop \/ e = EAddCand \/ e = ESend.
Proof.
  unfold remote_after.
  repeat match goal with |- context [if ?c then _ else _] => destruct c end;
    intro H; inversion H; auto.
Qed.

Lemma set_remote_post_classes r n d n' e :
  set_remote r n d = (n', Err e) -> post_error e ->
  e = ECodec \/ e = EStop \/ e = EAddCand \/ e = ESend.
Proof.
  intros H Hp.
  assert (Hpre : pre_error e -> e = ECodec \/ e = EStop \/ e = EAddCand \/ e = ESend)
    by (intro Hx; exfalso; exact (pre_post_disjoint e Hx Hp)).
  unfold set_remote in H.
  destruct (closed n); [inversion H; subst; apply Hpre; in_classes|].
  destruct (parses (t_fl (d_txt d))); cbn in H; [|inversion H; subst; apply Hpre; in_classes].
  set (skip := r_empty_rb r && sdptype_eqb (d_ty d) Rollback) in H.
  destruct (if skip then None else remote_validate _ d) as [e0|] eqn:Ev.
  { inversion H; subst. apply Hpre. destruct skip; [discriminate|].
    eapply remote_validate_pre; exact Ev. }
  destruct (set_description r n d SetRemote) as [n1 [e0|]] eqn:Esd.
  { inversion H; subst. apply Hpre. apply set_description_err in Esd. tauto. }
  destruct (if skip then None else remote_after d) as [e0|] eqn:Ea; inversion H; subst.
  destruct skip; [discriminate|]. eapply remote_after_classes; exact Ea.
Qed.
