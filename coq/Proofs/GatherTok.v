(* C24 proofs, part 2: the end-of-candidates tokens of a gathering cycle *)
From Coq Require Import List Arith Bool Lia.
Import ListNotations.
From Verif Require Import Model.Gather Proofs.Gather.

Ltac tfields :=
  unfold ntok, atok, ptok, pendingq;
  cbn [out a_ph pool psize nilp flushing fl a_queue ncyc cycles gstate upd].

Definition no_overwrite (s : st) : Prop :=
  match a_ph s with ANilPool _ => nilp s = None | _ => True end.

Lemma ntok_finish : forall k s j cs,
  nth_error (fl s) j = Some (FEmit cs None) -> ntok k (flush_finish s j) = ntok k s.
Proof.
  intros k s j cs Hj. unfold flush_finish.
  destruct (nilp s) as [n|] eqn:Hn; [destruct (Nat.eqb (pred (flushing s)) 0)|]; tfields; rewrite ?Hn.
  - pose proof (ftoks_set_nth k j _ (FNil n) _ Hj) as Hs. cbn in Hs. lia.
  - pose proof (ftoks_set_nth k j _ FDone _ Hj) as Hs. cbn in Hs. lia.
  - pose proof (ftoks_set_nth k j _ FDone _ Hj) as Hs. cbn in Hs. lia.
Qed.

Lemma ntok_step : forall all k s t s',
  inv2 all s -> step true s t = Some s' ->
  ntok k s' <= ntok k s /\ (no_overwrite s -> ntok k s' = ntok k s).
Proof.
  intros all k s t s' [I N] H. destruct t as [|j|]; cbn [step] in H.
  - (* agent *)
    unfold agent_step in H. unfold no_overwrite.
    destruct (a_ph s) as [|n c|n|n] eqn:Hph.
    + destruct (a_queue s) as [|[n [c|]] r] eqn:Hq; [discriminate| |].
      * destruct (pool_active s); apply Some_inj in H; subst s'; tfields; rewrite Hph, Hq;
          cbn [app]; rewrite (nils_of_cons k (n, Some c)), (nils_of_cand k n c); split; intros; lia.
      * apply Some_inj in H. subst s'. tfields. rewrite Hph, Hq. cbn [app].
        rewrite (nils_of_cons k (n, None)), (nils_of_end k n). split; intros; lia.
    + apply Some_inj in H. subst s'. tfields. rewrite Hph.
      rewrite !nils_of_app, nils_of_cand. split; intros; lia.
    + destruct (pool_active s || (true && Nat.ltb 0 (flushing s)));
        apply Some_inj in H; subst s'; tfields; rewrite Hph.
      * split; [destruct (nilp s) as [m|]; [destruct (Nat.eqb m k)|]; lia|].
        intros Hn. rewrite Hn. lia.
      * split; intros; lia.
    + apply Some_inj in H. subst s'. tfields. rewrite Hph.
      rewrite !nils_of_app, nils_of_end. split; intros; lia.
  - (* flush *)
    unfold flush_step in H.
    destruct (nth_error (fl s) j) as [f|] eqn:Hj; [|discriminate].
    destruct f as [|cs na|n|].
    + (* FStart *)
      set (s1 := upd s (gstate s) None 0 (nilp s) (S (flushing s)) (out s) (a_queue s) (a_ph s)
                   (set_nth j (FEmit (poolc s) None) (fl s))).
      assert (ntok k s1 = ntok k s) as E1.
      { unfold s1. tfields.
        pose proof (ftoks_set_nth k j _ (FEmit (poolc s) None) _ Hj) as Hs. cbn in Hs. lia. }
      fold (poolc s) in H. fold s1 in H.
      assert (nth_error (fl s1) j = Some (FEmit (poolc s) None)) as Hj1.
      { unfold s1. cbn [fl upd]. eapply nth_set_nth_same. exact Hj. }
      destruct (poolc s) as [|c r] eqn:Hc; apply Some_inj in H; subst s'.
      * rewrite (ntok_finish k s1 j [] Hj1), E1. split; intros; lia.
      * rewrite E1. split; intros; lia.
    + assert (na = None) as ->.
      { destruct na as [m|]; [|reflexivity]. exfalso.
        exact (c_nofx _ _ I cs m (nth_error_In _ _ Hj)). }
      destruct cs as [|c r].
      * exfalso. exact (N None (nth_error_In _ _ Hj)).
      * set (s1 := upd s (gstate s) (pool s) (psize s) (nilp s) (flushing s)
                     (out s ++ [(fst c, Some (snd c))]) (a_queue s) (a_ph s) (fl s)) in H.
        assert (ntok k s1 = ntok k s) as E1.
        { unfold s1. tfields. rewrite !nils_of_app, nils_of_cand. lia. }
        destruct r as [|c2 r2]; apply Some_inj in H; subst s'.
        -- rewrite (ntok_finish k s1 j _ Hj), E1. split; intros; lia.
        -- unfold s1. tfields. rewrite !nils_of_app, nils_of_cand.
           pose proof (ftoks_set_nth k j _ (FEmit (c2 :: r2) None) _ Hj) as Hs. cbn in Hs.
           split; intros; lia.
    + apply Some_inj in H. subst s'. tfields. rewrite !nils_of_app, nils_of_end.
      pose proof (ftoks_set_nth k j _ FDone _ Hj) as Hs. cbn in Hs. split; intros; lia.
    + discriminate.
  - (* restart *)
    pose proof (pendingq_restart _ _ H) as Hq.
    unfold restart_step in H. destruct (cycles s) as [|c rest]; [discriminate|].
    apply Some_inj in H. subst s'. unfold ntok in *. rewrite Hq. unfold atok, ptok. cbn.
    split; intros; lia.
Qed.

(* tags: what has been started carries a tag below ncyc, what is to come one from ncyc on *)
Lemma nils_of_future : forall k n l, k < n -> nils_of k (future_items n l) = 0.
Proof.
  intros k n l. revert n. induction l as [|[cs fin] r IH]; intros n Hk; [reflexivity|].
  cbn [future_items]. rewrite nils_of_app, (IH (S n)) by lia.
  unfold cycle_items. cbn [fst snd]. rewrite nils_of_app.
  assert (nils_of k (map (fun x : cand => (n, Some x)) cs) = 0) as ->.
  { induction cs as [|c t IHc]; [reflexivity|]. cbn [map]. rewrite nils_of_cons, nils_of_cand, IHc. reflexivity. }
  destruct fin; [|reflexivity]. rewrite nils_of_end.
  destruct (Nat.eqb n k) eqn:E; [apply Nat.eqb_eq in E; lia|reflexivity].
Qed.

Lemma nils_of_cycle : forall k n c,
  nils_of k (cycle_items n c) = if Nat.eqb n k && snd c then 1 else 0.
Proof.
  intros k n [cs fin]. unfold cycle_items. cbn [fst snd]. rewrite nils_of_app.
  assert (nils_of k (map (fun x : cand => (n, Some x)) cs) = 0) as ->.
  { induction cs as [|c t IHc]; [reflexivity|]. cbn [map]. rewrite nils_of_cons, nils_of_cand, IHc. reflexivity. }
  destruct fin; [rewrite nils_of_end|]; destruct (Nat.eqb n k); reflexivity.
Qed.

Lemma nils_of_future_le : forall k n l, nils_of k (future_items n l) <= 1.
Proof.
  intros k n l. revert n. induction l as [|c r IH]; intros n; [cbn [future_items]; rewrite nils_of_nil; lia|].
  cbn [future_items]. rewrite nils_of_app, nils_of_cycle.
  destruct (Nat.eqb n k) eqn:E.
  - apply Nat.eqb_eq in E. subst. rewrite nils_of_future by lia. destruct (snd c); cbn; lia.
  - cbn. apply IH.
Qed.

Lemma ntok_init_le : forall k p first more n, ntok k (init p first more n) <= 1.
Proof.
  intros. unfold ntok, atok, ptok, pendingq. cbn. rewrite ftoks_repeat.
  change (cycle_items 0 first ++ future_items 1 more) with (future_items 0 (first :: more)).
  pose proof (nils_of_future_le k 0 (first :: more)). rewrite nils_of_nil. lia.
Qed.

Lemma ntok_le_run : forall k p first more n sch,
  ntok k (run true (init p first more n) sch) <= 1.
Proof.
  intros k p first more n sch.
  assert (inv2 (all_cands first more) (run true (init p first more n) sch) /\
          ntok k (run true (init p first more n) sch) <= 1) as [_ H]; [|exact H].
  apply (run_inv true (fun s => inv2 (all_cands first more) s /\ ntok k s <= 1)).
  - intros s t s' [I Hn] Hs. split; [eapply inv2_step; eauto|].
    destruct (ntok_step _ k _ _ _ I Hs) as [Hle _]. lia.
  - split; [apply inv2_init|apply ntok_init_le].
Qed.

(* the end marker of a cycle is never reported twice: every schedule, any
   number of flushes and restarts *)
Lemma end_at_most_once_per_cycle : forall k p first more n sch,
  nils_of k (out (run true (init p first more n) sch)) <= 1.
Proof.
  intros. pose proof (ntok_le_run k p first more n sch) as H. unfold ntok in H. lia.
Qed.
