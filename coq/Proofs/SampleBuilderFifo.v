(* C31: Pop hands out the samples in the order buildSample produced them. *)
From Coq Require Import List ZArith NArith PArith Bool Lia ZifyBool ZifyNat ZifyN.
Import ListNotations.
From Verif Require Import Common.Base Model.SampleBuilder Model.SampleBuilderSpec
  Proofs.SampleBuilderArith Proofs.SampleBuilderIter Proofs.SampleBuilderMap Proofs.SampleBuilder
  Proofs.SampleBuilderScan.
Open Scope N_scope.
Ltac Zify.zify_post_hook ::= Z.div_mod_to_equations.

(* built, prepared ring and its location are untouched *)
Definition frame3 (s s' : st) : Prop :=
  built s' = built s /\ prep s' = prep s /\ prepared s' = prepared s.

Lemma frame3_refl : forall s, frame3 s s.
Proof. intro. repeat split. Qed.
Lemma frame3_trans : forall a b d, frame3 a b -> frame3 b d -> frame3 a d.
Proof. intros a b d (H1 & H2 & H3) (G1 & G2 & G3). repeat split; congruence. Qed.

Lemma frame3_raise : forall s f, frame3 s (raise s f).
Proof. intros. unfold raise. destruct (fault s =? 0); repeat split. Qed.
Lemma frame3_releasePacket : forall s i, frame3 s (releasePacket s i).
Proof. intros. unfold releasePacket. destruct (bget i (buf s)); repeat split. Qed.
Lemma frame3_release_filled_head : forall s, frame3 s (release_filled_head s).
Proof.
  intro s. unfold release_filled_head. destruct (frame3_releasePacket s (l_head (filled s))) as (H1 & H2 & H3).
  repeat split; cbn; assumption.
Qed.
Lemma frame3_pcl : forall s l f, frame3 s (purgeConsumedLocation s l f).
Proof.
  intros. unfold purgeConsumedLocation. destruct (negb _); [apply frame3_refl|].
  destruct (compare _ _); try apply frame3_refl; try apply frame3_release_filled_head.
  destruct f; [apply frame3_release_filled_head|apply frame3_refl].
Qed.
Lemma frame3_pcb : forall s, frame3 s (purgeConsumedBuffers s).
Proof. intro. apply frame3_pcl. Qed.

(* one sample appended at prepared.tail *)
Definition appended (s s' : st) (x : sample) : Prop :=
  built s' = x :: built s /\
  prep s' = bset (l_tail (prepared s)) x (prep s) /\
  prepared s' = mkLoc (l_head (prepared s)) (inc16 (l_tail (prepared s))).

Section Fifo.
  Variable is_head : list N -> bool.
  Variable is_tail : bool -> list N -> bool.
  Variable unmarshal : list N -> option (list N).
  Variable c : cfg.
  Notation buildSample := (buildSample is_head is_tail unmarshal c).
  Notation purge_body := (purge_body is_head is_tail unmarshal c).
  Notation purge_step := (purge_step is_head is_tail unmarshal c).
  Notation purgeBuffers := (purgeBuffers is_head is_tail unmarshal c).
  Notation push := (push is_head is_tail unmarshal c).
  Notation flush := (flush is_head is_tail unmarshal c).
  Notation pop := (pop is_head is_tail unmarshal c).
  Notation step := (step is_head is_tail unmarshal c).
  Notation run := (run is_head is_tail unmarshal c).

  Lemma build_effect : forall purging s0,
    let r := buildSample purging s0 in
    (frame3 s0 (fst r) /\ snd r = None) \/
    (exists x, snd r = Some x /\ appended s0 (fst r) x).
  Proof.
    intros purging s0. unfold SampleBuilder.buildSample.
    set (s1 := if l_empty (active s0) then _ else s0).
    assert (F1 : frame3 s0 s1) by (subst s1; destruct (l_empty (active s0)); repeat split).
    destruct (l_empty (active s1)); [cbn [fst snd]; left; split; [exact F1|reflexivity]|].
    set (s2 := if cmp_eqb _ CInside then _ else s1).
    assert (F2 : frame3 s0 s2).
    { eapply frame3_trans; [exact F1|]. subst s2. destruct (cmp_eqb _ CInside); repeat split. }
    destruct (scan is_tail s2) as [consume oof]. cbn [fst snd].
    destruct oof; [cbn [fst snd]; left; split; [eapply frame3_trans; [exact F2|apply frame3_raise]|reflexivity]|].
    destruct (l_empty consume); [cbn [fst snd]; left; split; [exact F2|reflexivity]|].
    destruct (negb purging && _); [cbn [fst snd]; left; split; [exact F2|reflexivity]|].
    set (ht := fetchTimestamp s2 (active s2)).
    set (s2r := if snd ht then s2 else raise s2 3).
    assert (F2r : frame3 s0 s2r).
    { eapply frame3_trans; [exact F2|]. subst s2r. destruct (snd ht); [apply frame3_refl|apply frame3_raise]. }
    set (s3 := set_active s2r _).
    assert (F3 : frame3 s0 s3) by (eapply frame3_trans; [exact F2r|]; subst s3; repeat split).
    destruct (collect s2 consume) as [col oof2]. cbn [fst snd].
    assert (Fr : forall e f, frame3 s0 (raise (log_ev s3 e) f)).
    { intros e f. eapply frame3_trans; [exact F3|]. eapply frame3_trans; [|apply frame3_raise]. repeat split. }
    destruct oof2; [cbn [fst snd]; left; split; [apply Fr|reflexivity]|].
    destruct (all_some col) as [[|hp rest]|]; try (cbn [fst snd]; left; split; [apply Fr|reflexivity]).
    destruct (negb (is_head (p_payload hp))).
    { cbn [fst snd]. left. split; [|reflexivity].
      eapply frame3_trans; [exact F3|].
      eapply frame3_trans; [|apply frame3_pcb]. eapply frame3_trans; [|apply frame3_pcl].
      match goal with |- frame3 _ (if ?b then _ else _) => destruct b end; repeat split. }
    destruct (unmarshal (p_payload hp)) as [d0|];
      [|cbn [fst snd]; left; split; [eapply frame3_trans; [exact F3|repeat split]|reflexivity]].
    set (s4 := if c_headHandler c then _ else s3).
    assert (F4 : frame3 s0 s4).
    { eapply frame3_trans; [exact F3|]. subst s4. destruct (c_headHandler c); repeat split. }
    destruct (all_some (map _ rest)) as [ds|];
      [|cbn [fst snd]; left; split; [eapply frame3_trans; [exact F4|repeat split]|reflexivity]].
    cbn [fst snd]. right.
    match goal with |- exists x, Some ?smp = Some x /\ _ => exists smp; split; [reflexivity|] end.
    destruct F4 as (G1 & G2 & G3).
    match goal with |- appended _ (purgeConsumedBuffers (purgeConsumedLocation ?s5 ?l ?f)) _ =>
      destruct (frame3_trans _ _ _ (frame3_pcl s5 l f) (frame3_pcb (purgeConsumedLocation s5 l f))) as (K1 & K2 & K3) end.
    unfold appended. rewrite K1, K2, K3. cbn [built prep prepared]. rewrite G1, G2, G3. repeat split.
  Qed.

  (* effect of an internal transition on the prepared queue: nothing, or one sample appended *)
  Definition eff (s s' : st) : Prop := frame3 s s' \/ exists x, appended s s' x.

  Lemma appended_frame : forall s a b x, appended s a x -> frame3 a b -> appended s b x.
  Proof. intros s a b x (H1 & H2 & H3) (G1 & G2 & G3). unfold appended. rewrite G1, G2, G3. auto. Qed.
  Lemma frame_appended : forall s a b x, frame3 s a -> appended a b x -> appended s b x.
  Proof. intros s a b x (G1 & G2 & G3) (H1 & H2 & H3). unfold appended. rewrite H1, H2, H3, G1, G2, G3. auto. Qed.
  Lemma eff_frame_r : forall s a b, eff s a -> frame3 a b -> eff s b.
  Proof.
    intros s a b [H|[x H]] F; [left; eapply frame3_trans; eassumption|right; exists x; eapply appended_frame; eassumption].
  Qed.
  Lemma eff_frame_l : forall s a b, frame3 s a -> eff a b -> eff s b.
  Proof.
    intros s a b F [H|[x H]]; [left; eapply frame3_trans; eassumption|right; exists x; eapply frame_appended; eassumption].
  Qed.

  Lemma eff_buildSample : forall purging s, eff s (fst (buildSample purging s)).
  Proof.
    intros purging s. destruct (build_effect purging s) as [[H _]|(x & _ & H)]; [left; exact H|right; exists x; exact H].
  Qed.

  Lemma eff_purge_body : forall s0, eff s0 (purge_body s0).
  Proof.
    intro s0. unfold SampleBuilder.purge_body.
    set (s1 := if l_empty (active s0) then _ else s0).
    assert (F1 : frame3 s0 s1) by (subst s1; destruct (l_empty (active s0)); repeat split).
    destruct (_ && _).
    - destruct (build_effect true s1) as [[H E]|(x & E & H)]; rewrite E.
      + left. eapply frame3_trans; [exact F1|]. eapply frame3_trans; [exact H|].
        eapply frame3_trans; [|apply frame3_release_filled_head]. repeat split.
      + right. exists x. eapply frame_appended; eassumption.
    - left. eapply frame3_trans; [exact F1|apply frame3_release_filled_head].
  Qed.

  (* the prepared queue: the samples built and not yet popped sit at consecutive
     slots from prepared.head, in build order *)
  Definition queue (s : st) (outs : list sample) : Prop :=
    exists pend, rev (built s) = outs ++ pend /\
      l_head (prepared s) < 65536 /\
      l_tail (prepared s) = w16 (l_head (prepared s) + N.of_nat (List.length pend)) /\
      (forall j x, nth_error pend j = Some x ->
                   bget (w16 (l_head (prepared s) + N.of_nat j)) (prep s) = Some x).
  Definition few (s : st) : Prop := N.of_nat (List.length (built s)) < 65536.
  Definition qinv (s : st) (outs : list sample) : Prop := few s -> queue s outs.

  Lemma queue_frame : forall s s' outs, frame3 s s' -> queue s outs -> queue s' outs.
  Proof. intros s s' outs (H1 & H2 & H3) Q. unfold queue. rewrite H1, H2, H3. exact Q. Qed.

  Lemma pend_short : forall s outs pend, few s -> rev (built s) = outs ++ pend ->
    N.of_nat (List.length pend) < 65536.
  Proof.
    intros s outs pend Hf E. apply (f_equal (@List.length _)) in E.
    rewrite rev_length, app_length in E. unfold few in Hf. lia.
  Qed.

  Lemma queue_append : forall s s' x outs, appended s s' x -> few s' -> queue s outs -> queue s' outs.
  Proof.
    intros s s' x outs (H1 & H2 & H3) Hf (pend & E & Hh & Ht & Hl).
    exists (pend ++ [x]). rewrite H1, H2, H3. cbn [rev l_head l_tail].
    assert (Hp : N.of_nat (List.length (pend ++ [x])) < 65536).
    { apply (pend_short s' outs). exact Hf. rewrite H1. cbn [rev]. rewrite E, app_assoc. reflexivity. }
    rewrite app_length in Hp. cbn [List.length] in Hp.
    split; [rewrite E, app_assoc; reflexivity|]. split; [exact Hh|]. split.
    - rewrite Ht, app_length. cbn [List.length]. rewrite inc16_spec, !w16_spec. lia.
    - intros j y Hj. destruct (Nat.lt_ge_cases j (List.length pend)) as [Hlt|Hge].
      + rewrite nth_error_app1 in Hj by exact Hlt. rewrite bget_bset_other; [apply Hl; exact Hj|].
        rewrite Ht, !w16_spec. lia.
      + rewrite nth_error_app2 in Hj by exact Hge.
        destruct (j - List.length pend)%nat as [|k] eqn:Ek; [|destruct k; discriminate Hj].
        cbn in Hj. injection Hj as <-. assert (j = List.length pend) by lia. subst j.
        rewrite <- Ht. apply bget_bset_same.
  Qed.

  Lemma few_mono_frame : forall s s', frame3 s s' -> few s' -> few s.
  Proof. intros s s' (H1 & _) Hf. unfold few in *. rewrite <- H1. exact Hf. Qed.
  Lemma few_mono_append : forall s s' x, appended s s' x -> few s' -> few s.
  Proof. intros s s' x (H1 & _) Hf. unfold few in *. rewrite H1 in Hf. cbn [List.length] in Hf. lia. Qed.

  Lemma qinv_eff : forall s s' outs, eff s s' -> qinv s outs -> qinv s' outs.
  Proof.
    intros s s' outs [F|[x A]] Q Hf.
    - eapply queue_frame; [exact F|]. apply Q. eapply few_mono_frame; eassumption.
    - eapply queue_append; [exact A|exact Hf|]. apply Q. eapply few_mono_append; eassumption.
  Qed.

  Lemma qinv_purgeBuffers : forall fl s outs, qinv s outs -> qinv (purgeBuffers fl s) outs.
  Proof.
    intros fl s outs Q. unfold SampleBuilder.purgeBuffers.
    set (s1 := purgeConsumedBuffers s).
    assert (Q1 : qinv s1 outs) by (eapply qinv_eff; [left; apply frame3_pcb|exact Q]).
    rewrite iter_pos_nat.
    assert (Q2 : qinv (fst (iter_nat (Pos.to_nat (N.succ_pos (purge_measure s1))) (purge_step fl) s1)) outs).
    { apply (iter_nat_inv (fun x => qinv x outs)); [|exact Q1].
      intros x Hx. unfold SampleBuilder.purge_step. destruct (purge_cond c fl x); cbn [fst]; [|exact Hx].
      eapply qinv_eff; [apply eff_purge_body|exact Hx]. }
    destruct (snd (iter_nat _ _ _)); [|exact Q2].
    eapply qinv_eff; [left; apply frame3_raise|exact Q2].
  Qed.

  Lemma qinv_push : forall pk s outs, qinv s outs -> qinv (push pk s) outs.
  Proof.
    intros pk s outs Q. unfold SampleBuilder.push. apply qinv_purgeBuffers.
    eapply qinv_eff; [left|exact Q]. destruct (compare _ _); repeat split.
  Qed.

  Lemma qinv_pop : forall s outs, qinv s outs ->
    qinv (fst (pop s)) (match snd (pop s) with Some x => outs ++ [x] | None => outs end).
  Proof.
    intros s outs Q. unfold SampleBuilder.pop.
    set (s1 := fst (buildSample false s)).
    assert (Q1 : qinv s1 outs) by (eapply qinv_eff; [apply eff_buildSample|exact Q]).
    destruct (l_empty (prepared s1)) eqn:Ee; cbn [fst snd]; [exact Q1|].
    intros Hf. unfold few in Hf. cbn [built] in Hf. destruct (Q1 Hf) as (pend & E & Hh & Ht & Hl).
    pose proof (pend_short s1 outs pend Hf E) as Hp.
    apply N.eqb_neq in Ee.
    destruct pend as [|x pend].
    { exfalso. apply Ee. rewrite Ht. cbn [List.length]. rewrite w16_spec. replace (l_head (prepared s1) + N.of_nat 0) with (l_head (prepared s1)) by lia.
      symmetry. apply N.mod_small. exact Hh. }
    assert (Hx : bget (l_head (prepared s1)) (prep s1) = Some x).
    { specialize (Hl 0%nat x eq_refl). rewrite w16_spec in Hl. replace (l_head (prepared s1) + N.of_nat 0) with (l_head (prepared s1)) in Hl by lia.
      rewrite N.mod_small in Hl by exact Hh. exact Hl. }
    rewrite Hx. exists pend. cbn [built prep prepared l_head l_tail List.length] in *.
    split; [rewrite E, <- app_assoc; reflexivity|]. split; [apply inc16_lt|]. split.
    - rewrite Ht, inc16_spec, !w16_spec. lia.
    - intros j y Hj. rewrite bget_bdel_other.
      + specialize (Hl (S j) y Hj). rewrite inc16_spec, w16_spec in *.
        replace ((l_head (prepared s1) + 1) mod 65536 + N.of_nat j) with (l_head (prepared s1) + 1 + N.of_nat j - 65536 * ((l_head (prepared s1) + 1) / 65536)) by lia.
        rewrite <- Hl. f_equal.
        assert (Hj' : N.of_nat (S j) < 65536).
        { assert (S j < List.length (x :: pend))%nat by (apply nth_error_Some; cbn; congruence). cbn in H. lia. }
        lia.
      + assert (Hj' : N.of_nat (S j) < 65536).
        { assert (S j < List.length (x :: pend))%nat by (apply nth_error_Some; cbn; congruence). cbn in H. lia. }
        rewrite inc16_spec, w16_spec. lia.
  Qed.

  Theorem fifo : forall ops s outs,
    qinv s outs ->
    let r := fold_left (fun acc o =>
                 let r := step (fst acc) o in
                 (fst r, match snd r with Some x => snd acc ++ [x] | None => snd acc end))
              ops (s, outs) in
    qinv (fst r) (snd r).
  Proof.
    induction ops as [|o ops IH]; intros s outs Q; cbn [fold_left]; [exact Q|].
    apply IH. destruct o as [pk| |]; cbn [SampleBuilder.step fst snd].
    - apply qinv_push. exact Q.
    - apply qinv_pop. exact Q.
    - unfold SampleBuilder.flush. apply qinv_purgeBuffers. exact Q.
  Qed.

  Lemma qinv_st0 : qinv st0 [].
  Proof.
    intros _. exists []. cbn. repeat split; try lia. intros j x H. destruct j; discriminate H.
  Qed.

  (* the samples returned by the Pops are, in order, the first samples built *)
  Theorem pops_in_build_order : forall ops,
    N.of_nat (List.length (built (fst (run ops)))) < 65536 ->
    exists pending, rev (built (fst (run ops))) = snd (run ops) ++ pending.
  Proof.
    intros ops Hf. pose proof (fifo ops st0 [] qinv_st0) as H. cbv zeta in H.
    destruct (H Hf) as (pend & E & _). exists pend. exact E.
  Qed.
End Fifo.
