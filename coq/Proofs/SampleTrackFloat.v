(* C28: the float64 instance of the WriteSample model stays within one tick of
   the ideal timestamps.  Everything is on Q; the only facts used about the
   rounding are (1) relative error at most 2^-53 on non-negative arguments and
   (2) exactness on integers below 2^53 (Proofs/SampleTrackRnd.v).

   Shape of the argument.  Write T for the (unwrapped) number of ticks the
   float64 code has added to the timestamp so far and r for its carried
   remainder.  Then T + r is the float64 code's idea of the elapsed media time
   A (in ticks).  One sub-step (the dropped-packets block, or the current-sample
   block) replaces (T, r) by (T + c, r') with c = floor(total), r' =
   fl(total - c), total = fl(t + r), t = fl(y(1+theta)): so
   (T + c + r') - (T + r) = y + [rounding of t, of the sum, of the subtraction],
   an error of at most 12*2^-53*y + 3*2^-53.  The errors add up (they are NOT
   cancelled by the remainder), but they are relative to the time that has
   passed and to the number of calls: after less than 2^48 ticks and 2^48 calls
   |T + r - A| <= 9/16.  The carried remainder keeps r in [0, 1+2^-53], hence
   T - floor(A) is -1, 0 or 1. *)
From Coq Require Import String NArith ZArith QArith Qround Qabs Bool List Lia Lra Psatz ZifyBool ZifyNat ZifyN.
Import ListNotations.
From Verif Require Import Common.V Common.Base Model.SampleTrack Proofs.SampleTrack Proofs.SampleTrackRnd.

Open Scope Q_scope.

Definition u53 : Q := 1 # 9007199254740992.
Definition qgiga : Q := inject_Z giga.
Definition two32 : Q := 4294967296.

(* timestamps that differ by at most one tick, modulo 2^32 *)
Definition within_one (x y : N) : Prop := x = y \/ x = u32 (y + 1) \/ y = u32 (x + 1).

Section Float.
  Variable rnd : Q -> Q.
  Hypothesis rnd_rel : forall q, 0 <= q -> (1 - u53) * q <= rnd q /\ rnd q <= (1 + u53) * q.
  Hypothesis rnd_int : forall z, (0 <= z < 9007199254740992)%Z -> rnd (inject_Z z) == inject_Z z.

  Definition g_of_N (n : N) : Q := rnd (inject_Z (Z.of_N n)).
  Definition g_seconds (d : Z) : Q :=
    let sec := Z.quot d giga in
    let nsec := Z.rem d giga in
    rnd (rnd (inject_Z sec) + rnd (rnd (inject_Z nsec) / inject_Z giga)).
  Definition g_arith : arith :=
    mkArith Q 0
            (fun d rate => rnd (g_seconds d * g_of_N rate))
            (fun x n => rnd (x * g_of_N n))
            (fun x y => rnd (x + y))
            (fun x => Z.to_N ((Qfloor x) mod 4294967296)%Z)
            (fun x n => rnd (x - g_of_N n)).

  (* ---- Duration.Seconds(): within (1 +- 2^-53)^3 of d / 10^9 *)
  Lemma g_seconds_rel : forall d, (0 <= d)%Z ->
    (1 - 4 * u53) * (inject_Z d / qgiga) <= g_seconds d /\
    g_seconds d <= (1 + 4 * u53) * (inject_Z d / qgiga).
  Proof.
    intros d Hd. unfold g_seconds.
    assert (Hg : (0 < giga)%Z) by reflexivity.
    pose proof (Z.quot_rem' d giga) as Hqr.
    assert (Hs : (0 <= Z.quot d giga)%Z) by (apply Z.quot_pos; lia).
    assert (Hn : (0 <= Z.rem d giga < giga)%Z) by (apply Z.rem_bound_pos; lia).
    set (sec := Z.quot d giga) in *. set (nsec := Z.rem d giga) in *.
    assert (HD : inject_Z d / qgiga == inject_Z sec + inject_Z nsec / qgiga).
    { rewrite Hqr, inject_Z_plus, inject_Z_mult. unfold qgiga. field. discriminate. }
    rewrite HD.
    assert (HS : 0 <= inject_Z sec) by (change 0 with (inject_Z 0); rewrite <- Zle_Qle; lia).
    assert (HN : 0 <= inject_Z nsec) by (change 0 with (inject_Z 0); rewrite <- Zle_Qle; lia).
    set (S := inject_Z sec) in *. set (Nn := inject_Z nsec) in *.
    destruct (rnd_rel S HS) as [S1 S2]. destruct (rnd_rel Nn HN) as [N1 N2].
    unfold u53 in *.
    assert (HrN : 0 <= rnd Nn) by lra.
    assert (Hdiv : rnd Nn / inject_Z giga == rnd Nn * (1 # 1000000000)) by (unfold giga; field).
    assert (HNg : Nn / qgiga == Nn * (1 # 1000000000)) by (unfold qgiga, giga; field).
    assert (HF0 : 0 <= rnd Nn / inject_Z giga) by (rewrite Hdiv; lra).
    destruct (rnd_rel _ HF0) as [F1 F2].
    set (Fr := rnd (rnd Nn / inject_Z giga)) in *. rewrite Hdiv in F1, F2.
    assert (Hsum : 0 <= rnd S + Fr) by lra.
    destruct (rnd_rel _ Hsum) as [R1 R2]. rewrite HNg.
    split; lra.
  Qed.

  Lemma g_of_N_rel : forall n, (1 - u53) * inject_Z (Z.of_N n) <= g_of_N n /\ g_of_N n <= (1 + u53) * inject_Z (Z.of_N n).
  Proof.
    intros n. apply rnd_rel. change 0 with (inject_Z 0). rewrite <- Zle_Qle. lia.
  Qed.

  Lemma g_of_N_exact : forall n, (n < 9007199254740992)%N -> g_of_N n == inject_Z (Z.of_N n).
  Proof. intros n Hn. apply rnd_int. lia. Qed.

  (* products of bounded non-negative quantities *)
  Lemma mul_bounds : forall lo hi x y p q,
    0 <= x -> 0 <= y -> 0 <= lo ->
    lo * x <= p -> p <= hi * x -> (1 - u53) * y <= q -> q <= (1 + u53) * y ->
    lo * (1 - u53) * (x * y) <= p * q /\ p * q <= hi * (1 + u53) * (x * y).
  Proof.
    intros lo hi x y p q Hx Hy Hlo P1 P2 Q1 Q2.
    assert (Hu : 0 <= 1 - u53) by (unfold u53; lra).
    assert (Hlx : 0 <= lo * x) by (apply Qmult_le_0_compat; assumption).
    assert (Huy : 0 <= (1 - u53) * y) by (apply Qmult_le_0_compat; assumption).
    assert (Hp : 0 <= p) by lra. assert (Hq : 0 <= q) by lra.
    split.
    - setoid_replace (lo * (1 - u53) * (x * y)) with ((lo * x) * ((1 - u53) * y)) by ring.
      apply Qle_trans with (p * ((1 - u53) * y)).
      + apply Qmult_le_compat_r; assumption.
      + rewrite !(Qmult_comm p). apply Qmult_le_compat_r; assumption.
    - setoid_replace (hi * (1 + u53) * (x * y)) with ((hi * x) * ((1 + u53) * y)) by ring.
      apply Qle_trans with (p * ((1 + u53) * y)).
      + rewrite !(Qmult_comm p). apply Qmult_le_compat_r; assumption.
      + apply Qmult_le_compat_r; [assumption|lra].
  Qed.

  Lemma inj_nonneg : forall z, (0 <= z)%Z -> 0 <= inject_Z z.
  Proof. intros z Hz. change 0 with (inject_Z 0). rewrite <- Zle_Qle. exact Hz. Qed.

  (* ---- tickF = Seconds() * clockRate: within 7 * 2^-53 (relative) of d*rate/10^9 *)
  Definition ticksQ (z : Z) : Q := inject_Z z / qgiga.   (* 10^-9 tick -> ticks *)

  Lemma ticksQ_nonneg : forall z, (0 <= z)%Z -> 0 <= ticksQ z.
  Proof.
    intros z Hz. unfold ticksQ, qgiga, giga. pose proof (inj_nonneg z Hz).
    setoid_replace (inject_Z z / inject_Z 1000000000) with (inject_Z z * (1 # 1000000000)) by field. lra.
  Qed.

  Lemma tick_rel : forall d rate, (0 <= d)%Z ->
    (1 - 7 * u53) * ticksQ (d * Z.of_N rate) <= r_tick g_arith d rate /\
    r_tick g_arith d rate <= (1 + 7 * u53) * ticksQ (d * Z.of_N rate).
  Proof.
    intros d rate Hd. cbn [g_arith r_tick].
    destruct (g_seconds_rel d Hd) as [S1 S2]. destruct (g_of_N_rel rate) as [R1 R2].
    assert (HD : 0 <= inject_Z d / qgiga) by (apply (ticksQ_nonneg d Hd)).
    assert (HR : 0 <= inject_Z (Z.of_N rate)) by (apply inj_nonneg; lia).
    assert (Hlo : 0 <= 1 - 4 * u53) by (unfold u53; lra).
    destruct (mul_bounds _ _ _ _ _ _ HD HR Hlo S1 S2 R1 R2) as [M1 M2].
    assert (EY : inject_Z d / qgiga * inject_Z (Z.of_N rate) == ticksQ (d * Z.of_N rate)).
    { unfold ticksQ. rewrite inject_Z_mult. unfold qgiga. field. discriminate. }
    rewrite EY in M1, M2.
    pose proof (ticksQ_nonneg (d * Z.of_N rate) ltac:(nia)) as HY.
    set (Y := ticksQ (d * Z.of_N rate)) in *.
    set (pq := g_seconds d * g_of_N rate) in *.
    assert (Hpq : 0 <= pq) by (unfold u53 in *; lra).
    destruct (rnd_rel pq Hpq) as [P1 P2]. unfold u53 in *. clearbody Y pq. clear EY S1 S2 R1 R2. split; lra.
  Qed.

  (* ---- tickF * float64(n): within 10 * 2^-53 *)
  Lemma drop_tick_rel : forall t y n, 0 <= y ->
    (1 - 7 * u53) * y <= t -> t <= (1 + 7 * u53) * y ->
    (1 - 10 * u53) * (y * inject_Z (Z.of_N n)) <= r_mul_n g_arith t n /\
    r_mul_n g_arith t n <= (1 + 10 * u53) * (y * inject_Z (Z.of_N n)).
  Proof.
    intros t y n Hy T1 T2. cbn [g_arith r_mul_n].
    destruct (g_of_N_rel n) as [R1 R2].
    assert (HR : 0 <= inject_Z (Z.of_N n)) by (apply inj_nonneg; lia).
    assert (Hlo : 0 <= 1 - 7 * u53) by (unfold u53; lra).
    destruct (mul_bounds _ _ _ _ _ _ Hy HR Hlo T1 T2 R1 R2) as [M1 M2].
    assert (HY : 0 <= y * inject_Z (Z.of_N n)) by (apply Qmult_le_0_compat; assumption).
    set (Y := y * inject_Z (Z.of_N n)) in *. set (pq := t * g_of_N n) in *.
    assert (Hpq : 0 <= pq) by (unfold u53 in *; lra).
    destruct (rnd_rel pq Hpq) as [P1 P2]. unfold u53 in *. clearbody Y pq. clear T1 T2 R1 R2. split; lra.
  Qed.

  (* ---- the state invariant of the float64 instance *)
  Definition Jf (ts0 : N) (r : Q) (ts : N) (A err : Q) : Prop :=
    exists T : Z, (0 <= T)%Z /\ Z.of_N ts = ((Z.of_N ts0 + T) mod 4294967296)%Z /\
      0 <= r /\ r <= 1 + u53 /\ A - err <= inject_Z T + r /\ inject_Z T + r <= A + err.

  Lemma Jf_weaken : forall ts0 r ts A err A' err',
    Jf ts0 r ts A err -> A == A' -> err <= err' -> Jf ts0 r ts A' err'.
  Proof.
    intros ts0 r ts A err A' err' (T & HT & Hts & Hr0 & Hr1 & Hlo & Hhi) HA He.
    exists T. repeat split; try assumption; lra.
  Qed.

  (* ---- one sub-step: total := t + remainder; ticks := uint32(total); remainder = total - float64(ticks) *)
  Lemma substep_J : forall ts0 ts r A err t y,
    Jf ts0 r ts A err -> 0 <= y -> y <= 2147483648 ->
    (1 - 10 * u53) * y <= t -> t <= (1 + 10 * u53) * y ->
    Jf ts0 (r_sub_n g_arith (r_add g_arith t r) (r_trunc g_arith (r_add g_arith t r)))
           (u32 (ts + r_trunc g_arith (r_add g_arith t r)))
           (A + y) (err + (12 * u53 * y + 3 * u53)).
  Proof.
    intros ts0 ts r A err t y (T & HT & Hts & Hr0 & Hr1 & Hlo & Hhi) Hy Hy31 T1 T2.
    cbn [g_arith r_add r_trunc r_sub_n].
    assert (Hsum : 0 <= t + r) by (unfold u53 in *; lra).
    destruct (rnd_rel _ Hsum) as [S1 S2].
    set (total := rnd (t + r)) in *.
    pose proof (Qfloor_le total) as F1. pose proof (Qlt_floor total) as F2.
    assert (Htot0 : 0 <= total) by (unfold u53 in *; lra).
    assert (Hc0 : (0 <= Qfloor total)%Z).
    { change 0%Z with (Qfloor 0). apply Qfloor_resp_le. exact Htot0. }
    assert (Hc1 : (Qfloor total < 4294967296)%Z).
    { rewrite Zlt_Qlt. change (inject_Z 4294967296) with 4294967296. unfold u53 in *. lra. }
    set (c := Qfloor total) in *.
    rewrite inject_Z_plus in F2. change (inject_Z 1) with 1 in F2.
    assert (Ecn : Z.of_N (Z.to_N (c mod 4294967296)) = c) by (rewrite Z.mod_small by lia; lia).
    assert (HG : g_of_N (Z.to_N (c mod 4294967296)) == inject_Z c).
    { rewrite g_of_N_exact by lia. rewrite Ecn. reflexivity. }
    set (G := g_of_N (Z.to_N (c mod 4294967296))) in *.
    assert (Hf0 : 0 <= total - G) by lra.
    destruct (rnd_rel _ Hf0) as [R1 R2].
    set (r' := rnd (total - G)) in *.
    exists (T + c)%Z. split; [lia|split; [|]].
    - unfold u32. rewrite N2Z.inj_mod, N2Z.inj_add, Ecn, Hts.
      change (Z.of_N 4294967296) with 4294967296%Z.
      rewrite Z.add_mod_idemp_l by discriminate. f_equal. lia.
    - rewrite inject_Z_plus. unfold u53 in *. repeat split; lra.
  Qed.

  (* ---- one WriteSample *)
  Definition ok31 (rate : N) (x : sample) : Prop :=
    (0 <= s_dur x)%Z /\ (nt rate x * (1 + Z.of_N (s_dropped x)) <= 2147483648 * giga)%Z.

  Definition cost (rate : N) (x : sample) : Q := 12 * u53 * ticksQ (nt_full rate x) + 6 * u53.

  Lemma ticksQ_plus : forall a b, ticksQ (a + b) == ticksQ a + ticksQ b.
  Proof. intros a b. unfold ticksQ. rewrite inject_Z_plus. unfold qgiga. field. discriminate. Qed.

  Lemma ticksQ_le31 : forall z, (z <= 2147483648 * giga)%Z -> ticksQ z <= 2147483648.
  Proof.
    intros z Hz. unfold ticksQ, qgiga, giga in *. rewrite Zle_Qle in Hz. rewrite inject_Z_mult in Hz.
    change (inject_Z 2147483648) with 2147483648 in Hz. change (inject_Z 1000000000) with 1000000000 in *.
    setoid_replace (inject_Z z / 1000000000) with (inject_Z z * (1 # 1000000000)) by field. lra.
  Qed.

  Lemma float_step : forall rate ts0 (s : st g_arith) acc err x,
    Jf ts0 (st_rem g_arith s) (st_ts g_arith s) (ticksQ acc) err -> ok31 rate x ->
    (exists r1, Jf ts0 r1 (sample_ts g_arith rate s x)
                   (ticksQ (acc + nt rate x * Z.of_N (s_dropped x))) (err + cost rate x)) /\
    Jf ts0 (st_rem g_arith (fst (write_sample g_arith rate s x)))
           (st_ts g_arith (fst (write_sample g_arith rate s x)))
           (ticksQ (acc + nt_full rate x)) (err + cost rate x).
  Proof.
    intros rate ts0 s acc err x HJ (Hd & H31).
    unfold cost, nt_full, nt in *. unfold write_sample, sample_ts.
    set (X := (s_dur x * Z.of_N rate)%Z) in *. set (n := s_dropped x) in *.
    assert (HX : (0 <= X)%Z) by (subst X; nia).
    assert (HXn : (0 <= X * Z.of_N n)%Z) by nia.
    destruct (tick_rel (s_dur x) rate Hd) as [K1 K2]. fold X in K1, K2.
    set (tickF := r_tick g_arith (s_dur x) rate) in *.
    pose proof (ticksQ_nonneg X HX) as HY0.
    pose proof (ticksQ_nonneg _ HXn) as HYn0.
    assert (HY31 : ticksQ X <= 2147483648) by (apply ticksQ_le31; nia).
    assert (HYn31 : ticksQ (X * Z.of_N n) <= 2147483648) by (apply ticksQ_le31; nia).
    assert (EYn : ticksQ X * inject_Z (Z.of_N n) == ticksQ (X * Z.of_N n)).
    { unfold ticksQ. rewrite inject_Z_mult. unfold qgiga. field. discriminate. }
    assert (Efull : ticksQ (X * (1 + Z.of_N n)) == ticksQ X + ticksQ (X * Z.of_N n)).
    { rewrite <- ticksQ_plus. replace (X * (1 + Z.of_N n))%Z with (X + X * Z.of_N n)%Z by ring. reflexivity. }
    destruct (0 <? n)%N eqn:En.
    - (* dropped packets reported *)
      destruct (drop_tick_rel tickF (ticksQ X) n HY0 K1 K2) as [D1 D2]. rewrite EYn in D1, D2.
      pose proof (substep_J ts0 _ _ _ _ _ _ HJ HYn0 HYn31 D1 D2) as HJ1.
      set (dropTotal := r_add g_arith (r_mul_n g_arith tickF n) (st_rem g_arith s)) in *.
      set (r1 := r_sub_n g_arith dropTotal (r_trunc g_arith dropTotal)) in *.
      set (ts1 := u32 (st_ts g_arith s + r_trunc g_arith dropTotal)) in *.
      assert (K1' : (1 - 10 * u53) * ticksQ X <= tickF) by (unfold u53 in *; lra).
      assert (K2' : tickF <= (1 + 10 * u53) * ticksQ X) by (unfold u53 in *; lra).
      pose proof (substep_J ts0 _ _ _ _ _ _ HJ1 HY0 HY31 K1' K2') as HJ2.
      destruct (emit (s_npk x) (skip_seq n (st_seq g_arith s)) ts1) as [q3 pk3].
      cbn [fst st_rem st_ts]. split.
      + exists r1. apply (Jf_weaken _ _ _ _ _ _ _ HJ1).
        * rewrite ticksQ_plus. reflexivity.
        * rewrite Efull. unfold u53 in *. lra.
      + apply (Jf_weaken _ _ _ _ _ _ _ HJ2).
        * rewrite !ticksQ_plus, Efull. ring.
        * rewrite Efull. unfold u53 in *. lra.
    - (* no dropped packets *)
      assert (Hn0 : Z.of_N n = 0%Z) by lia.
      assert (K1' : (1 - 10 * u53) * ticksQ X <= tickF) by (unfold u53 in *; lra).
      assert (K2' : tickF <= (1 + 10 * u53) * ticksQ X) by (unfold u53 in *; lra).
      pose proof (substep_J ts0 _ _ _ _ _ _ HJ HY0 HY31 K1' K2') as HJ2.
      destruct (emit (s_npk x) (skip_seq n (st_seq g_arith s)) (st_ts g_arith s)) as [q3 pk3].
      cbn [fst st_rem st_ts].
      assert (EZ : ticksQ (X * Z.of_N n) == 0) by (rewrite Hn0, Z.mul_0_r; reflexivity).
      split.
      + exists (st_rem g_arith s). apply (Jf_weaken _ _ _ _ _ _ _ HJ).
        * rewrite ticksQ_plus, EZ. ring.
        * rewrite Efull. unfold u53 in *. lra.
      + apply (Jf_weaken _ _ _ _ _ _ _ HJ2).
        * rewrite !ticksQ_plus, Efull, EZ. ring.
        * rewrite Efull. unfold u53 in *. lra.
  Qed.

  (* ---- one call (WriteSample or GeneratePadding) *)
  Lemma cost_nonneg : forall rate x, ok31 rate x -> 0 <= cost rate x.
  Proof.
    intros rate x (Hd & H31). unfold cost, nt_full, nt in *.
    assert (H : (0 <= s_dur x * Z.of_N rate * (1 + Z.of_N (s_dropped x)))%Z) by nia.
    pose proof (ticksQ_nonneg _ H). unfold u53. lra.
  Qed.

  Lemma float_step_op : forall rate ts0 (s : st g_arith) acc err o,
    Jf ts0 (st_rem g_arith s) (st_ts g_arith s) (ticksQ acc) err -> ok31 rate (as_sample o) ->
    (exists r1, Jf ts0 r1 (sample_ts g_arith rate s (as_sample o))
                   (ticksQ (acc + nt rate (as_sample o) * Z.of_N (s_dropped (as_sample o))))
                   (err + cost rate (as_sample o))) /\
    Jf ts0 (st_rem g_arith (fst (step g_arith rate s o)))
           (st_ts g_arith (fst (step g_arith rate s o)))
           (ticksQ (acc + nt_full rate (as_sample o))) (err + cost rate (as_sample o)).
  Proof.
    intros rate ts0 s acc err [x|n] HJ Hok; cbn [step as_sample] in *; [exact (float_step rate ts0 s acc err x HJ Hok)|].
    pose proof (cost_nonneg _ _ Hok) as Hc.
    unfold sample_ts, nt_full, nt, gen_padding in *. cbn [s_dur s_dropped N.ltb N.compare] in *.
    destruct (emit (N.to_nat n) (st_seq g_arith s) (st_ts g_arith s)) as [q2 pk2]. cbn [fst st_rem st_ts].
    rewrite !Z.mul_0_l, !Z.add_0_r.
    split; [exists (st_rem g_arith s)|]; apply (Jf_weaken _ _ _ _ _ _ _ HJ); try reflexivity; lra.
  Qed.

  (* ---- from the invariant to "within one tick" *)
  Lemma Jf_close : forall ts0 r ts a err,
    Jf ts0 r ts (ticksQ a) err -> (0 <= a)%Z -> err <= 3 # 4 ->
    within_one ts (Z.to_N ((Z.of_N ts0 + a / giga) mod 4294967296)%Z).
  Proof.
    intros ts0 r ts a err (T & HT & Hts & Hr0 & Hr1 & Hlo & Hhi) Ha He.
    pose proof (Z.div_mod a giga ltac:(discriminate)) as Hdm.
    pose proof (Z.mod_pos_bound a giga ltac:(reflexivity)) as Hm.
    set (F := (a / giga)%Z) in *. set (m := (a mod giga)%Z) in *.
    assert (EA : ticksQ a == inject_Z F + inject_Z m / qgiga).
    { unfold ticksQ. rewrite Hdm, inject_Z_plus, inject_Z_mult. unfold qgiga. field. discriminate. }
    assert (Hm0 : 0 <= inject_Z m / qgiga) by (apply (ticksQ_nonneg m); lia).
    assert (Hm1 : inject_Z m / qgiga <= 1).
    { unfold qgiga, giga in *. destruct Hm as [_ Hm]. apply Z.lt_le_incl in Hm. rewrite Zle_Qle in Hm.
      change (inject_Z 1000000000) with 1000000000 in *.
      setoid_replace (inject_Z m / 1000000000) with (inject_Z m * (1 # 1000000000)) by field. lra. }
    rewrite EA in Hlo, Hhi. unfold u53 in *.
    assert (H1 : (-2 < T - F)%Z).
    { rewrite Zlt_Qlt. unfold Zminus. rewrite inject_Z_plus, inject_Z_opp. change (inject_Z (-2)) with (-2). lra. }
    assert (H2 : (T - F < 2)%Z).
    { rewrite Zlt_Qlt. unfold Zminus. rewrite inject_Z_plus, inject_Z_opp. change (inject_Z 2) with 2. lra. }
    assert (HF : (0 <= F)%Z) by (subst F; apply Z.div_pos; [lia|reflexivity]).
    clear - H1 H2 Hts HT HF. unfold within_one, u32.
    assert (Hc : (T = F \/ T = F + 1 \/ F = T + 1)%Z) by lia.
    pose proof (Z.mod_pos_bound (Z.of_N ts0 + F) 4294967296 ltac:(reflexivity)) as HbF.
    destruct Hc as [->| [-> | ->]].
    - left. lia.
    - right; left. apply N2Z.inj. rewrite Hts, N2Z.inj_mod, N2Z.inj_add, Z2N.id by lia.
      change (Z.of_N 4294967296) with 4294967296%Z. change (Z.of_N 1) with 1%Z.
      rewrite Z.add_mod_idemp_l by discriminate. f_equal. lia.
    - right; right. apply N2Z.inj. rewrite N2Z.inj_mod, N2Z.inj_add, Hts, Z2N.id by lia.
      change (Z.of_N 4294967296) with 4294967296%Z. change (Z.of_N 1) with 1%Z.
      rewrite Z.add_mod_idemp_l by discriminate. f_equal. lia.
  Qed.

  (* ---- histories *)
  Fixpoint total_cost (rate : N) (os : list op) : Q :=
    match os with [] => 0 | o :: t => cost rate (as_sample o) + total_cost rate t end.

  Lemma total_cost_nonneg : forall rate os, Forall (fun o => ok31 rate (as_sample o)) os -> 0 <= total_cost rate os.
  Proof.
    intros rate os H. induction H as [|o t Ho Ht IH]; cbn [total_cost]; [lra|].
    pose proof (cost_nonneg _ _ Ho). lra.
  Qed.

  Lemma float_from : forall rate ts0 os (s : st g_arith) acc err k pk p,
    Jf ts0 (st_rem g_arith s) (st_ts g_arith s) (ticksQ acc) err -> (0 <= acc)%Z ->
    Forall (fun o => ok31 rate (as_sample o)) os ->
    err + total_cost rate os <= 3 # 4 ->
    nth_error (run g_arith rate s os) k = Some pk -> In p pk ->
    within_one (k_ts p)
      (Z.to_N ((Z.of_N ts0 + (acc + nt_before rate (map as_sample os) k) / giga) mod 4294967296)%Z).
  Proof.
    intros rate ts0. induction os as [|o t IH]; intros s acc err k pk p HJ Hacc Hok Hbud Hk Hp; [destruct k; discriminate|].
    inversion Hok as [|? ? Ho Ht]; subst. cbn [total_cost] in Hbud.
    pose proof (total_cost_nonneg _ _ Ht) as Htc. pose proof (cost_nonneg _ _ Ho) as Hc.
    destruct (float_step_op rate ts0 s acc err o HJ Ho) as [[r1 HJ1] HJ'].
    assert (Hnt : (0 <= nt rate (as_sample o))%Z) by (destruct Ho as [Hd _]; unfold nt; nia).
    cbn [run] in Hk. pose proof (step_pkts g_arith rate s o) as Hw.
    destruct (step g_arith rate s o) as [s' pk0]. cbn [fst] in HJ'.
    destruct k as [|k]; cbn [nth_error] in Hk.
    - injection Hk as <-. destruct Hw as (_ & _ & Hpk).
      apply In_nth_error in Hp. destruct Hp as [j Hj]. destruct (Hpk j p Hj) as [-> _].
      unfold nt_before. cbn [map firstn fold_right nth_error]. rewrite Z.add_0_l.
      apply (Jf_close _ _ _ _ _ HJ1); [nia|lra].
    - assert (Hacc' : (0 <= acc + nt_full rate (as_sample o))%Z) by (unfold nt_full; nia).
      pose proof (IH s' _ _ k pk p HJ' Hacc' Ht ltac:(lra) Hk Hp) as H.
      unfold nt_before in *. cbn [map firstn fold_right nth_error].
      match goal with H : within_one _ (Z.to_N ((_ + ?e1 / _) mod _)) |- within_one _ (Z.to_N ((_ + ?e2 / _) mod _)) =>
        replace e2 with e1 by lia end.
      exact H.
  Qed.

  Lemma init_Jf : forall ts0 seq0, Jf ts0 (st_rem g_arith (init g_arith ts0 seq0)) (st_ts g_arith (init g_arith ts0 seq0)) (ticksQ 0) 0.
  Proof.
    intros ts0 seq0. exists 0%Z. cbn [init st_rem st_ts g_arith r_zero]. unfold u32, u53, ticksQ.
    split; [lia|split]; [rewrite N2Z.inj_mod, Z.add_0_r; reflexivity|].
    change (inject_Z 0) with 0. setoid_replace (0 / qgiga) with 0 by (unfold qgiga; field; discriminate).
    repeat split; lra.
  Qed.

End Float.

(* ------------------------------------------------ the binary64 instance *)
Lemma float_arith_is : float_arith = g_arith rnd64.
Proof. reflexivity. Qed.

Definition total_nt (rate : N) (os : list op) : Z :=
  fold_right Z.add 0%Z (map (fun o => nt_full rate (as_sample o)) os).

Lemma total_cost_val : forall rate os,
  total_cost rate os == 12 * u53 * ticksQ (total_nt rate os) + 6 * u53 * inject_Z (Z.of_nat (length os)).
Proof.
  intros rate os. induction os as [|o t IH].
  - unfold total_nt, ticksQ. cbn. unfold qgiga. field. discriminate.
  - cbn [total_cost]. rewrite IH. unfold total_nt. cbn [map fold_right length]. fold (total_nt rate t).
    rewrite ticksQ_plus, Nat2Z.inj_succ. unfold Z.succ. rewrite inject_Z_plus. unfold cost.
    change (inject_Z 1) with 1. ring.
Qed.

(* bounds under which the float64 computation is guaranteed to stay within one
   tick: every call below 2^31 ticks (gap included), the whole history below
   2^48 ticks and 2^48 calls *)
Definition op_ok31 (rate : N) (o : op) : Prop := ok31 rate (as_sample o).
Definition hist_ok (rate : N) (os : list op) : Prop :=
  Forall (op_ok31 rate) os /\
  (total_nt rate os <= 281474976710656 * giga)%Z /\ (Z.of_nat (length os) <= 281474976710656)%Z.

Lemma float_within_one_tick : forall rate ts0 seq0 os k pk p,
  hist_ok rate os ->
  nth_error (run float_arith rate (init float_arith ts0 seq0) os) k = Some pk -> In p pk ->
  within_one (k_ts p) (ideal_ts rate ts0 (map as_sample os) k).
Proof.
  intros rate ts0 seq0 os k pk p (Hok & Htot & Hlen) Hk Hp.
  rewrite float_arith_is in Hk. unfold ideal_ts.
  pose proof (float_from rnd64 rnd64_rel_nonneg rnd64_int_exact rate ts0 os _ 0%Z 0 k pk p
                (init_Jf rnd64 ts0 seq0) ltac:(lia) Hok) as H.
  rewrite Z.add_0_l in H. apply H; [|exact Hk|exact Hp].
  rewrite total_cost_val.
  assert (H1 : ticksQ (total_nt rate os) <= 281474976710656).
  { unfold ticksQ, qgiga, giga in *. rewrite Zle_Qle in Htot. rewrite inject_Z_mult in Htot.
    change (inject_Z 281474976710656) with 281474976710656 in Htot. change (inject_Z 1000000000) with 1000000000 in *.
    setoid_replace (inject_Z (total_nt rate os) / 1000000000) with (inject_Z (total_nt rate os) * (1 # 1000000000)) by field.
    lra. }
  rewrite Zle_Qle in Hlen. change (inject_Z 281474976710656) with 281474976710656 in Hlen.
  unfold u53. lra.
Qed.

Lemma op_ok31_ok : forall rate o, op_ok31 rate o -> op_ok rate o.
Proof.
  intros rate o (Hd & H31). split; [exact Hd|]. unfold giga in *. lia.
Qed.

(* float64 run against the exact run, packet by packet *)
Lemma float_vs_exact : forall rate ts0 seq0 os k pkf pke pf pe,
  (ts0 < 4294967296)%N -> hist_ok rate os ->
  nth_error (run float_arith rate (init float_arith ts0 seq0) os) k = Some pkf -> In pf pkf ->
  nth_error (run exact_arith rate (init exact_arith ts0 seq0) os) k = Some pke -> In pe pke ->
  within_one (k_ts pf) (k_ts pe).
Proof.
  intros rate ts0 seq0 os k pkf pke pf pe Hts Hh Hkf Hpf Hke Hpe.
  assert (Hok : Forall (op_ok rate) os).
  { destruct Hh as (Hok & _). eapply Forall_impl; [|exact Hok]. intros o. apply op_ok31_ok. }
  rewrite (no_drift rate ts0 seq0 os k pke pe Hts Hok Hke Hpe).
  exact (float_within_one_tick rate ts0 seq0 os k pkf pf Hh Hkf Hpf).
Qed.

(* the bounds are satisfiable on a non-trivial history: 30 fps at 90 kHz with a
   dropped-packet report and a padding burst *)
Lemma ex_hist_ok :
  hist_ok 90000 [OSample (mkSample 33333333 0 2); OPad 3; OSample (mkSample 33333333 2 1); OSample (mkSample 33333333 0 1)].
Proof.
  unfold hist_ok, op_ok31, ok31, total_nt, nt_full, nt, giga. cbn [as_sample s_dur s_dropped map fold_right length].
  split; [|split; lia]. repeat constructor; cbn; lia.
Qed.
