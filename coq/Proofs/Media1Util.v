(* Lemmas about the byte-list helpers of Common/Media1Util.v and the
   big-endian codecs of Common/Base.v. *)
From Coq Require Import List ZArith NArith String Bool Lia ZifyBool ZifyNat ZifyN.
Import ListNotations.
From Verif Require Import Common.V Common.Base Common.Media1Util.
Open Scope N_scope.

Lemma lenN_nat : forall {A} (l : list A), lenN l = N.of_nat (List.length l).
Proof. induction l as [|x t IH]; cbn [lenN List.length]; [reflexivity|]. rewrite IH. lia. Qed.

Lemma lenN_app : forall {A} (a b : list A), lenN (a ++ b) = lenN a + lenN b.
Proof. intros. rewrite !lenN_nat, app_length. lia. Qed.

Lemma lenN_cons : forall {A} (x : A) l, lenN (x :: l) = N.succ (lenN l).
Proof. reflexivity. Qed.

Lemma lenN_nil_inv : forall {A} (l : list A), lenN l = 0 -> l = [].
Proof. destruct l; cbn [lenN]; [reflexivity|lia]. Qed.

Lemma takeN_0 : forall {A} (l : list A), takeN 0 l = [].
Proof. destruct l; reflexivity. Qed.

Lemma dropN_0 : forall {A} (l : list A), dropN 0 l = l.
Proof. destruct l; reflexivity. Qed.

Lemma takeN_app_exact : forall {A} (a b : list A) n, lenN a = n -> takeN n (a ++ b) = a.
Proof.
  induction a as [|x t IH]; intros b n Hn; cbn [lenN] in Hn.
  - subst. apply takeN_0.
  - cbn [app takeN]. destruct (N.eqb_spec n 0) as [E|E]; [lia|].
    f_equal. apply IH. lia.
Qed.

Lemma dropN_app_exact : forall {A} (a b : list A) n, lenN a = n -> dropN n (a ++ b) = b.
Proof.
  induction a as [|x t IH]; intros b n Hn; cbn [lenN] in Hn.
  - subst. apply dropN_0.
  - cbn [app dropN]. destruct (N.eqb_spec n 0) as [E|E]; [lia|].
    apply IH. lia.
Qed.

Lemma takeN_all : forall {A} (a : list A) n, lenN a <= n -> takeN n a = a.
Proof.
  intros A a n H. rewrite <- (app_nil_r a) at 1.
  revert n H. induction a as [|x t IH]; intros n H; cbn [lenN] in H.
  - destruct n; reflexivity.
  - cbn [app takeN]. destruct (N.eqb_spec n 0) as [E|E]; [lia|].
    f_equal. rewrite <- (IH (N.pred n)) at 2 by lia. reflexivity.
Qed.

Lemma lenN_takeN : forall {A} (l : list A) n, lenN (takeN n l) = N.min n (lenN l).
Proof.
  induction l as [|x t IH]; intros n; cbn [takeN lenN].
  - lia.
  - destruct (N.eqb_spec n 0) as [E|E]; cbn [lenN]; [lia|]. rewrite IH. lia.
Qed.

Lemma lenN_dropN : forall {A} (l : list A) n, lenN (dropN n l) = lenN l - n.
Proof.
  induction l as [|x t IH]; intros n; cbn [dropN lenN].
  - lia.
  - destruct (N.eqb_spec n 0) as [E|E]; cbn [lenN]; [lia|]. rewrite IH. lia.
Qed.

Lemma takeN_dropN : forall {A} (l : list A) n, takeN n l ++ dropN n l = l.
Proof.
  induction l as [|x t IH]; intros n; cbn [takeN dropN]; [reflexivity|].
  destruct (N.eqb_spec n 0); [reflexivity|]. cbn [app]. f_equal. apply IH.
Qed.

(* ---------- big-endian codecs ---------- *)

Lemma le_val_le_bytes : forall w n, le_val (le_bytes w n) = n mod 256 ^ N.of_nat w.
Proof.
  induction w as [|w IH]; intros n.
  - cbn [le_bytes le_val]. change (256 ^ N.of_nat 0) with 1. rewrite N.mod_1_r. reflexivity.
  - cbn [le_bytes le_val]. rewrite IH.
    replace (N.of_nat (S w)) with (N.succ (N.of_nat w)) by lia.
    rewrite N.pow_succ_r'.
    rewrite N.mod_mul_r by (try apply N.pow_nonzero; lia). reflexivity.
Qed.

Lemma be_val_snoc : forall l b, be_val (l ++ [b]) = be_val l * 256 + b.
Proof. intros. unfold be_val. rewrite fold_left_app. reflexivity. Qed.

Lemma be_val_rev : forall l, be_val (rev l) = le_val l.
Proof.
  induction l as [|b t IH]; [reflexivity|].
  cbn [rev le_val]. rewrite be_val_snoc, IH. lia.
Qed.

Lemma be_val_be_bytes : forall w n, n < 256 ^ N.of_nat w -> be_val (be_bytes w n) = n.
Proof.
  intros w n H. unfold be_bytes. rewrite be_val_rev, le_val_le_bytes.
  apply N.mod_small. exact H.
Qed.

Lemma length_le_bytes : forall w n, List.length (le_bytes w n) = w.
Proof. induction w; intros; cbn [le_bytes List.length]; [reflexivity|]. rewrite IHw. reflexivity. Qed.

Lemma lenN_be_bytes : forall w n, lenN (be_bytes w n) = N.of_nat w.
Proof. intros. rewrite lenN_nat. unfold be_bytes. rewrite rev_length, length_le_bytes. reflexivity. Qed.

Lemma bytes_ok_app : forall a b, bytes_ok (a ++ b) = bytes_ok a && bytes_ok b.
Proof. intros. unfold bytes_ok. apply forallb_app. Qed.
