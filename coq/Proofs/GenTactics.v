(* Tactics shared by the Proofs/Gen*.v files: equality of a generated
   definition (coq/Gen/Go*.v) and a hand-written model.  Nothing here looks at
   the shape of the generated term beyond "a tree of comparisons", so any
   rewriting of the Go function inside the translator's subset that keeps its
   meaning keeps these proofs. *)
From Coq Require Import List ZArith NArith String Bool Lia.
From Verif Require Import Common.SerialUtil.

(* ---- trees of tests [Z.eqb x c], x a variable ----
   Unfold everything except the comparison, then split on one test at a time;
   in the equal branch the variable is replaced by the constant so that the
   remaining tests on it compute. *)
(* constant-first tests [Z.eqb c x] are turned round first ([cbn] would open them) *)
Ltac z_orient :=
  repeat match goal with
  | |- context [Z.eqb ?a ?b] => is_var b; tryif is_var a then fail else rewrite (Z.eqb_sym a b)
  end.

Ltac z_split_step :=
  match goal with
  | |- context [Z.eqb ?a ?b] => is_var a; destruct (Z.eqb_spec a b); [subst a; cbn [Z.eqb Pos.eqb]|]
  end; lazy beta iota.

Ltac z_tree_go := first [ reflexivity | z_split_step; z_tree_go | exfalso; lia ].

Ltac z_decision_tree := cbv -[Z.eqb Pos.eqb]; z_orient; z_tree_go.

(* ---- trees of tests on one string variable ----
   [String.eqb raw c], [String.eqb c raw], [eqfold raw c], [eqfold c raw]:
   orient every test with the constant first, then split. *)
Lemma eqfold_sym : forall a b, eqfold a b = eqfold b a.
Proof. intros a b. unfold eqfold. apply String.eqb_sym. Qed.

Ltac s_orient raw :=
  repeat match goal with
  | |- context [String.eqb raw ?c] => rewrite (String.eqb_sym raw c)
  | |- context [eqfold raw ?c] => rewrite (eqfold_sym raw c)
  end.

(* after orientation: split on one test; an exact comparison that succeeds
   fixes the variable, so every other test then computes *)
Ltac s_split_step :=
  match goal with
  | |- context [String.eqb ?c ?raw] => is_var raw; destruct (String.eqb_spec c raw); [subst raw|]
  | |- context [eqfold ?c ?raw] => is_var raw; destruct (eqfold c raw) eqn:?
  end; lazy beta iota.

(* two different constants cannot both fold-match the same string *)
Ltac eqfold_contra :=
  match goal with
  | H1 : eqfold ?a ?r = true, H2 : eqfold ?b ?r = true |- _ =>
      unfold eqfold in H1, H2; apply String.eqb_eq in H1; apply String.eqb_eq in H2;
      rewrite <- H2 in H1; vm_compute in H1; discriminate H1
  end.

Ltac s_tree_go := first [ reflexivity | s_split_step; s_tree_go | exfalso; eqfold_contra ].

(* ---- functions of a byte string (list N) ----
   Case analysis on the first bytes (enough for every index and length
   constant in the functions), then on every comparison; contradictory
   branches by lia.  go_len stays folded so that lia sees the length. *)
From Verif Require Import Common.Base Common.Go2CoqPrelude.

Ltac n_split_step :=
  match goal with
  | |- context [Z.ltb ?a ?b] => destruct (Z.ltb_spec a b)
  | |- context [Z.leb ?a ?b] => destruct (Z.leb_spec a b)
  | |- context [Z.eqb ?a ?b] => destruct (Z.eqb_spec a b)
  | |- context [N.leb ?a ?b] => destruct (N.leb_spec a b)
  | |- context [N.ltb ?a ?b] => destruct (N.ltb_spec a b)
  | |- context [N.eqb ?a ?b] => destruct (N.eqb_spec a b)
  end; lazy beta iota.

Ltac n_close :=
  first [ reflexivity
        | exfalso; unfold go_len in *; cbn [List.length] in *; lia ].

Ltac n_tree_go := first [ n_close | n_split_step; n_tree_go ].

Ltac bytes_tree buf :=
  destruct buf as [|?b0 [|?b1 [|?b2 [|?b3 [|?b4 ?rest]]]]];
  cbv -[go_len Z.ltb Z.leb Z.eqb N.leb N.ltb N.eqb Z.of_nat List.length];
  n_tree_go.
