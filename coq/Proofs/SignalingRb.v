(* Rollback (C02): the code as it is rejects every rollback; the repaired
   variants of the model (table edge, both pending slots cleared, empty text
   accepted) behave as the property asks. *)
From Coq Require Import List Bool NArith String.
Import ListNotations.
From Verif Require Import Common.Base Model.Signaling Proofs.Signaling Proofs.SignalingHist.

(* ---------- as it is ---------- *)

Lemma rollback_rejected_as_is n sd d :
  d_ty d = Rollback -> exists e, step n (set_op sd d) = (n, Err e) /\ pre_error e.
Proof.
  intro Hty. unfold step. destruct sd; cbn.
  - destruct (set_local as_is n d) as [n' res] eqn:E.
    apply set_local_cases in E. destruct E as [[E [e [Hr Hp]]] | [E _]].
    + subst. exists e; auto.
    + exfalso. apply set_description_ok in E.
      destruct E as [_ [sd [next [_ [Hc _]]]]].
      rewrite subst_local_ty, Hty in Hc. eapply chk_as_is_no_rollback; exact Hc.
  - destruct (set_remote as_is n d) as [n' res] eqn:E.
    apply set_remote_cases in E. destruct E as [[E [e [Hr Hp]]] | [E _]].
    + subst. exists e; auto.
    + exfalso. apply set_description_ok in E.
      destruct E as [_ [sd [next [_ [Hc _]]]]].
      rewrite Hty in Hc. eapply chk_as_is_no_rollback; exact Hc.
Qed.

(* ---------- any variant: rollback from stable is rejected ---------- *)

Lemma chk_stable_no_rollback r next op s :
  chk r Stable next op Rollback = (s, None) -> False.
Proof. unfold chk; destruct (r_edge r), next, op; cbn; discriminate. Qed.

Lemma stable_rollback_rejected r n sd d :
  st n = Stable -> d_ty d = Rollback ->
  exists e, step_r r n (set_op sd d) = (n, Err e) /\ pre_error e.
Proof.
  intros Hs Hty. destruct sd; cbn.
  - destruct (set_local r n d) as [n' res] eqn:E.
    apply set_local_cases in E. destruct E as [[E [e [Hr Hp]]] | [E _]].
    + subst. exists e; auto.
    + exfalso. apply set_description_ok in E.
      destruct E as [_ [sd [next [_ [Hc _]]]]].
      rewrite subst_local_ty, Hty, Hs in Hc. eapply chk_stable_no_rollback; exact Hc.
  - destruct (set_remote r n d) as [n' res] eqn:E.
    apply set_remote_cases in E. destruct E as [[E [e [Hr Hp]]] | [E _]].
    + subst. exists e; auto.
    + exfalso. apply set_description_ok in E.
      destruct E as [_ [sd [next [_ [Hc _]]]]].
      rewrite Hty, Hs in Hc. eapply chk_stable_no_rollback; exact Hc.
Qed.

(* ---------- variants that clear both pending slots ---------- *)

Lemma edge_rollback s sd next :
  w3c_edge s sd Rollback = Some next ->
  next = Stable /\ rollback_edge s (op_of_side sd) = true.
Proof. destruct s, sd; cbn; intro H; inversion H; split; reflexivity. Qed.

Lemma rollback_applied r n d sd n' :
  r_clear_both r = true -> d_ty d = Rollback ->
  set_description r n d (op_of_side sd) = (n', None) ->
  rollback_edge (st n) (op_of_side sd) = true /\
  st n' = Stable /\ pendL n' = None /\ pendR n' = None /\
  curL n' = curL n /\ curR n' = curR n /\
  events n' = (events n ++ [Stable])%list.
Proof.
  intros Hcb Hty H. apply set_description_ok in H.
  destruct H as [_ [sd' [next [Hop [Hc [Hn _]]]]]].
  apply op_of_side_inj in Hop. subst sd'. subst n'.
  apply chk_edge in Hc. destruct Hc as [sd2 [Hop He]].
  apply op_of_side_inj in Hop. subst sd2. rewrite Hty in He.
  apply edge_rollback in He. destruct He as [Hnx Hre]. subst next.
  unfold apply_slots. rewrite Hty, Hcb. destruct sd; cbn; repeat split; auto.
Qed.

Lemma rollback_ok_result r n sd d n' :
  r_clear_both r = true -> d_ty d = Rollback ->
  step_r r n (set_op sd d) = (n', Ok tt) ->
  rollback_edge (st n) (op_of_side sd) = true /\
  st n' = Stable /\ pendL n' = None /\ pendR n' = None /\
  curL n' = curL n /\ curR n' = curR n /\
  events n' = (events n ++ [Stable])%list.
Proof.
  intros Hcb Hty. destruct sd; cbn; intro H.
  - apply set_local_cases in H. destruct H as [[_ [e [He _]]] | [H _]]; [discriminate|].
    apply (rollback_applied r n (subst_local n d) Local); [exact Hcb | rewrite subst_local_ty; exact Hty | exact H].
  - apply set_remote_cases in H. destruct H as [[_ [e [He _]]] | [H _]]; [discriminate|].
    apply (rollback_applied r n d Remote); assumption.
Qed.

(* the repaired variant accepts the four rollbacks the property names *)
Lemma repaired_rollback_succeeds n sd d :
  closed n = false -> rollback_edge (st n) (op_of_side sd) = true ->
  d_ty d = Rollback -> parses (t_fl (d_txt d)) = true ->
  exists n', step_r repaired n (set_op sd d) = (n', Ok tt).
Proof.
  intros Hc He Hty Hp. destruct sd; cbn in *.
  - unfold set_local. rewrite Hc, Hty. cbn.
    assert (Hsub : (if txt_is_empty (d_txt d) then Ok d else Ok d) = Ok d)
      by (destruct (txt_is_empty (d_txt d)); reflexivity).
    rewrite Hsub, Hp. cbn.
    unfold set_description. rewrite Hc, Hty. cbn.
    destruct (st n); cbn in He; try discriminate; cbn; try rewrite Hty; cbn; eexists; reflexivity.
  - unfold set_remote. rewrite Hc, Hp. cbn.
    unfold set_description. rewrite Hc, Hty. cbn.
    destruct (st n); cbn in He; try discriminate; cbn; try rewrite Hty; cbn; eexists; reflexivity.
Qed.

(* ---------- current descriptions change only on entering stable ---------- *)

Lemma set_description_currents r n d op n' :
  set_description r n d op = (n', None) -> st n' <> Stable ->
  curL n' = curL n /\ curR n' = curR n.
Proof.
  intros H Hns. apply set_description_ok in H.
  destruct H as [_ [sd [next [Hop [Hc [Hn [_ Hty]]]]]]]. subst n'. cbn in *.
  apply chk_edge in Hc. destruct Hc as [sd' [_ He]].
  unfold apply_slots.
  destruct Hty as [Hty | [Hty | [Hty | Hty]]]; rewrite Hty in *.
  - destruct sd; cbn; auto.
  - destruct sd; cbn; auto.
  - apply edge_answer_stable in He. contradiction.
  - destruct sd, (r_clear_both r); cbn; auto.
Qed.

Lemma step_currents r n o :
  st (fst (step_r r n o)) <> Stable ->
  curL (fst (step_r r n o)) = curL n /\ curR (fst (step_r r n o)) = curR n.
Proof.
  destruct o as [id g|id sn g|d|d|]; cbn; intro Hns.
  - destruct (create_offer_slots n id g) as [_ [_ [Hcl [_ [Hcr _]]]]]. auto.
  - destruct (create_answer_slots n id sn g) as [_ [_ [Hcl [_ [Hcr _]]]]]. auto.
  - destruct (set_local r n d) as [n' res] eqn:E. cbn in *.
    apply set_local_cases in E. destruct E as [[E _] | [E _]]; [subst; auto|].
    eapply set_description_currents; eassumption.
  - destruct (set_remote r n d) as [n' res] eqn:E. cbn in *.
    apply set_remote_cases in E. destruct E as [[E _] | [E _]]; [subst; auto|].
    eapply set_description_currents; eassumption.
  - auto.
Qed.

Lemma run_currents r mid : forall n,
  never_stable r n mid ->
  curL (run_from_r r n mid) = curL n /\ curR (run_from_r r n mid) = curR n.
Proof.
  induction mid as [|o t IH]; intros n Hns; [auto|].
  destruct Hns as [H1 H2]. rewrite run_from_cons.
  destruct (IH _ H2) as [A B]. destruct (step_currents r n o H1) as [C D].
  rewrite A, B. auto.
Qed.

(* a rollback after an exchange in progress: back to the descriptions of the
   last stable state *)
Lemma rollback_restores r n0 mid sd d n' :
  r_clear_both r = true -> d_ty d = Rollback ->
  never_stable r n0 mid ->
  step_r r (run_from_r r n0 mid) (set_op sd d) = (n', Ok tt) ->
  st n' = Stable /\ pendL n' = None /\ pendR n' = None /\
  curL n' = curL n0 /\ curR n' = curR n0.
Proof.
  intros Hcb Hty Hns H.
  destruct (rollback_ok_result _ _ _ _ _ Hcb Hty H) as [_ [A [B [C [D [E _]]]]]].
  destruct (run_currents r mid n0 Hns) as [F G].
  rewrite D, E, F, G. auto.
Qed.

(* ---------- the current descriptions of the last stable moment ---------- *)

(* runs the history and remembers the pair of current descriptions at the
   last moment the signaling state was stable (the start counts) *)
Fixpoint track_stable (r : repair) (n : neg) (ls : option desc * option desc)
         (ops : list pcop) : neg * (option desc * option desc) :=
  match ops with
  | [] => (n, ls)
  | o :: t =>
      let n' := fst (step_r r n o) in
      track_stable r n' (if sstate_eqb (st n') Stable then (curL n', curR n') else ls) t
  end.

Definition last_stable_pair (r : repair) (ops : list pcop) : option desc * option desc :=
  snd (track_stable r neg0 (curL neg0, curR neg0) ops).

Lemma sstate_eqb_false a b : sstate_eqb a b = false -> a <> b.
Proof. destruct a, b; cbn; intro H; try discriminate; intro E; discriminate. Qed.

Lemma track_stable_run r ops : forall n ls,
  fst (track_stable r n ls ops) = run_from_r r n ops.
Proof.
  induction ops as [|o t IH]; intros n ls; [reflexivity|].
  cbn [track_stable]. rewrite IH. reflexivity.
Qed.

(* the current descriptions never differ from those of the last stable
   moment: they change only on entering stable *)
Lemma track_stable_currents r ops : forall n ls,
  (curL n, curR n) = ls ->
  let res := track_stable r n ls ops in
  (curL (fst res), curR (fst res)) = snd res.
Proof.
  induction ops as [|o t IH]; intros n ls Hinv; [exact Hinv|].
  cbn [track_stable]. apply IH.
  destruct (sstate_eqb (st (fst (step_r r n o))) Stable) eqn:Es; [reflexivity|].
  apply sstate_eqb_false in Es.
  destruct (step_currents r n o Es) as [A B]. rewrite A, B. exact Hinv.
Qed.

Lemma run_currents_last_stable r ops :
  (curL (run_r r ops), curR (run_r r ops)) = last_stable_pair r ops.
Proof.
  unfold last_stable_pair, run_r.
  rewrite <- (track_stable_run r ops neg0 (curL neg0, curR neg0)).
  apply track_stable_currents. reflexivity.
Qed.

(* any history ending in a successful rollback: the current descriptions are
   the pair of the last stable moment of the history before it *)
Lemma rollback_restores_last_stable r ops sd d n' :
  r_clear_both r = true -> d_ty d = Rollback ->
  step_r r (run_r r ops) (set_op sd d) = (n', Ok tt) ->
  st n' = Stable /\ pendL n' = None /\ pendR n' = None /\
  (curL n', curR n') = last_stable_pair r ops.
Proof.
  intros Hcb Hty H.
  destruct (rollback_ok_result _ _ _ _ _ Hcb Hty H) as [_ [A [B [C [D [E _]]]]]].
  rewrite D, E. repeat split; auto. apply run_currents_last_stable.
Qed.
