(* The generated aggregate of updateConnectionState (coq/Gen/GoConnState.v,
   regenerated from peerconnection.go by tools/go2coq on every C22 check)
   equals the hand-written Model.ConnState.pion_state, for ALL integer
   arguments: IceUnknown / DtlsUnknown stand for every value that is not one
   of the declared non-zero constants.  Property neutral. *)
From Coq Require Import List ZArith String Bool Lia.
From Verif Require Import Model.ConnState Proofs.GenTactics.
From Verif Require Gen.GoConnState.
Open Scope Z_scope.

(* ---- adapters ---- *)
Definition cs_ice_of_Z (z : Z) : ice :=
  if z =? 1 then IceNew else if z =? 2 then IceChecking else if z =? 3 then IceConnected
  else if z =? 4 then IceCompleted else if z =? 5 then IceDisconnected
  else if z =? 6 then IceFailed else if z =? 7 then IceClosed else IceUnknown.
Definition cs_dtls_of_Z (z : Z) : dtls :=
  if z =? 1 then DtlsNew else if z =? 2 then DtlsConnecting else if z =? 3 then DtlsConnected
  else if z =? 4 then DtlsClosed else if z =? 5 then DtlsFailed else DtlsUnknown.
Definition cs_pcs_to_Z (p : pcs) : Z :=
  match p with
  | PcUnknown => 0 | PcNew => 1 | PcConnecting => 2 | PcConnected => 3
  | PcDisconnected => 4 | PcFailed => 5 | PcClosed => 6
  end.

Lemma gen_conn_state_agrees : forall (closed : bool) (i d : Z),
  GoConnState.updateConnectionState_connectionState closed i d
  = cs_pcs_to_Z (pion_state closed (cs_ice_of_Z i) (cs_dtls_of_Z d)).
Proof.
  intros closed i d.
  first [ solve [ destruct closed; z_decision_tree ]
        | fail 1 "c22_generated_model_agrees: GoConnState.updateConnectionState_connectionState (regenerated from peerconnection.go) no longer equals Model.ConnState.pion_state" ].
Qed.
