(* Lemmas about Model/CodecAssoc.v: what SetRemoteDescription's transceiver
   matching (AnswerDir's set_remote) does to kinds, mids and positions, and the
   C16 / C10 statements over histories of answered offers with the matching
   inside the step. *)
From Coq Require Import List ZArith NArith String Bool Arith Lia.
Import ListNotations.
From Verif Require Import Common.Base Model.Fmtp Model.Codec Model.HeaderExt Model.Section
     Model.CodecAssoc Proofs.Codec Proofs.Section Proofs.Answer Proofs.CodecHist Proofs.ExtNeg Proofs.CodecPrefs.
From Verif Require Proofs.AnswerDir.
Module ADP := Verif.Proofs.AnswerDir.
Open Scope string_scope.
Open Scope list_scope.

(* ---------- AnswerDir: one offered section ---------- *)

(* what the loop body of SetRemoteDescription does to the transceiver list:
   nothing, one transceiver rebound in place (kind and sender kept, mid = the
   section's; it had that mid already or had none and is of the section's kind),
   or one transceiver of the section's kind appended *)
Inductive sec_effect (p : AD.pc) (m : nat) (k : AD.kind) : AD.pc -> Prop :=
| eff_same : sec_effect p m k p
| eff_upd : forall i t t',
    nth_error p i = Some t -> AD.t_kind t' = AD.t_kind t -> AD.t_sender t' = AD.t_sender t ->
    AD.t_mid t' = Some m ->
    (AD.t_mid t = Some m \/ (AD.t_mid t = None /\ AD.t_kind t = k)) ->
    sec_effect p m k (AD.update p i t')
| eff_new : forall t',
    AD.t_kind t' = k -> AD.t_mid t' = Some m -> AD.t_sender t' = false ->
    sec_effect p m k (p ++ [t']).

Lemma kind_eqb_true : forall a b, AD.kind_eqb a b = true -> a = b.
Proof. destruct a, b; cbn; congruence. Qed.

Lemma first_match_kind : forall p k d cands i rest,
  AD.first_match p k d cands = (Some i, rest) ->
  exists t, nth_error p i = Some t /\ AD.t_mid t = None /\ AD.t_kind t = k.
Proof.
  intros p k d. induction cands as [|c cs IH]; intros i rest H; cbn in H; [discriminate|].
  destruct (nth_error p c) as [t|] eqn:E.
  - destruct (match AD.t_mid t with None => true | Some _ => false end
              && AD.kind_eqb (AD.t_kind t) k && AD.dir_eqb d (AD.t_dir t)) eqn:C.
    + injection H as <- <-. exists t. split; [assumption|].
      apply andb_true_iff in C as [C _]. apply andb_true_iff in C as [Cm Ck].
      split; [destruct (AD.t_mid t); [discriminate|reflexivity]|now apply kind_eqb_true].
    + destruct (AD.first_match p k d cs) as [r' rest'] eqn:F. injection H as -> <-.
      eapply IH; eauto.
  - destruct (AD.first_match p k d cs) as [r' rest'] eqn:F. injection H as -> <-.
    eapply IH; eauto.
Qed.

Lemma satisfy_dirs_kind : forall p k ds cands i rest,
  AD.satisfy_dirs p k ds cands = (Some i, rest) ->
  exists t, nth_error p i = Some t /\ AD.t_mid t = None /\ AD.t_kind t = k.
Proof.
  intros p k. induction ds as [|d ds IH]; intros cands i rest H; cbn in H; [discriminate|].
  destruct (AD.first_match p k d cands) as [[j|] rest'] eqn:F.
  - injection H as <- <-. eapply first_match_kind; eauto.
  - eapply IH; eauto.
Qed.

Lemma adjust_fields : forall d t,
  AD.t_kind (AD.adjust d t) = AD.t_kind t /\ AD.t_sender (AD.adjust d t) = AD.t_sender t /\
  AD.t_mid (AD.adjust d t) = AD.t_mid t.
Proof. intros d t. destruct d; cbn; destruct (AD.t_dir t); cbn; auto. Qed.

Lemma bound_fields : forall d t m (stop : bool),
  let t0 := if stop then AD.stop_tr t else t in
  let t' := AD.set_mid_if_empty (AD.adjust d (AD.set_rem t0 d)) m in
  AD.t_kind t' = AD.t_kind t /\ AD.t_sender t' = AD.t_sender t /\
  (AD.t_mid t = Some m \/ AD.t_mid t = None -> AD.t_mid t' = Some m).
Proof.
  intros d t m stop t0 t'.
  assert (H0 : AD.t_kind t0 = AD.t_kind t /\ AD.t_sender t0 = AD.t_sender t /\ AD.t_mid t0 = AD.t_mid t).
  { unfold t0. destruct stop; cbn; auto. }
  destruct H0 as [K0 [S0 M0]].
  set (t1 := AD.adjust d (AD.set_rem t0 d)).
  assert (H1 : AD.t_kind t1 = AD.t_kind t /\ AD.t_sender t1 = AD.t_sender t /\ AD.t_mid t1 = AD.t_mid t).
  { destruct (adjust_fields d (AD.set_rem t0 d)) as [K1 [S1 M1]]. unfold t1.
    rewrite K1, S1, M1. cbn [AD.set_rem AD.t_kind AD.t_sender AD.t_mid]. auto. }
  destruct H1 as [K1 [S1 M1]].
  unfold t'. fold t1. unfold AD.set_mid_if_empty. rewrite M1.
  destruct (AD.t_mid t) as [j|] eqn:Em.
  - rewrite K1, S1, M1. split; [reflexivity|]. split; [reflexivity|].
    intros [H|H]; congruence.
  - cbn [AD.set_mid AD.t_kind AD.t_sender AD.t_mid]. auto.
Qed.

Lemma remote_section_known_effect : forall p cands m k d,
  sec_effect p m k (fst (AD.remote_section_known p cands m k d)).
Proof.
  intros p cands m k d. unfold AD.remote_section_known.
  destruct (AD.find_by_mid p m cands) as [[i|] rest] eqn:F.
  - destruct (ADP.find_by_mid_spec _ _ _ _ _ F) as [[t [Ht Hm]] _]. rewrite Ht. cbn [fst].
    destruct (bound_fields d t m (AD.dir_eqb d AD.Inactive)) as [K [S M]].
    eapply eff_upd; eauto.
  - destruct (AD.satisfy p k d cands) as [[i|] rest'] eqn:S.
    + unfold AD.satisfy in S. destruct (satisfy_dirs_kind _ _ _ _ _ _ S) as [t [Ht [Hm Hk]]].
      rewrite Ht. cbn [fst].
      destruct (bound_fields d t m false) as [K [Sd M]]. cbn in K, Sd, M.
      eapply eff_upd; eauto.
    + cbn [fst]. apply eff_new; reflexivity.
Qed.

Lemma remote_section_effect : forall st m k d,
  sec_effect (fst st) m k (fst (AD.remote_section st m (k, d))).
Proof.
  intros [p cands] m k d. unfold AD.remote_section.
  destruct d; try apply eff_same; apply remote_section_known_effect.
Qed.

(* ---------- what survives an effect ---------- *)

(* positions keep kind, sender and a mid once they have one; the list only grows *)
Definition grows (p p' : AD.pc) : Prop :=
  List.length p <= List.length p' /\
  forall i t, nth_error p i = Some t ->
    exists t', nth_error p' i = Some t' /\ AD.t_kind t' = AD.t_kind t /\ AD.t_sender t' = AD.t_sender t /\
               (forall x, AD.t_mid t = Some x -> AD.t_mid t' = Some x).

Lemma grows_refl : forall p, grows p p.
Proof. intros p. split; [lia|]. intros i t H. exists t. auto. Qed.

Lemma grows_trans : forall a b c, grows a b -> grows b c -> grows a c.
Proof.
  intros a b c [L1 H1] [L2 H2]. split; [lia|]. intros i t Hi.
  destruct (H1 i t Hi) as [t1 [Ht1 [K1 [S1 M1]]]]. destruct (H2 i t1 Ht1) as [t2 [Ht2 [K2 [S2 M2]]]].
  exists t2. split; [assumption|]. split; [congruence|]. split; [congruence|]. auto.
Qed.

Lemma update_length : forall A (l : list A) i a, List.length (AD.update l i a) = List.length l.
Proof. induction l as [|h t IH]; intros [|i] a; cbn; auto. Qed.

Lemma sec_effect_grows : forall p m k p', sec_effect p m k p' -> grows p p'.
Proof.
  intros p m k p' H. destruct H as [|i t t' Hi Hk Hs Hm Hold|t' Hk Hm Hs].
  - apply grows_refl.
  - split; [rewrite update_length; lia|]. intros j tj Hj.
    destruct (Nat.eq_dec i j) as [->|N].
    + exists t'. split; [eapply ADP.nth_update_eq; eauto|]. rewrite Hi in Hj. injection Hj as <-.
      split; [assumption|]. split; [assumption|]. intros x Hx.
      destruct Hold as [Hold|[Hold _]]; congruence.
    + exists tj. rewrite ADP.nth_update_neq by assumption. auto.
  - split; [rewrite app_length; cbn; lia|]. intros j tj Hj. exists tj.
    split; [rewrite nth_error_app1; [assumption|]; apply nth_error_Some; congruence|auto].
Qed.

(* every transceiver that carries a mid is of the kind K gives that mid *)
Definition mid_kind (K : nat -> kind) (p : AD.pc) : Prop :=
  forall i t m, nth_error p i = Some t -> AD.t_mid t = Some m -> kc (AD.t_kind t) = K m.

Lemma sec_effect_mid_kind : forall K p m k p',
  sec_effect p m k p' -> kc k = K m -> mid_kind K p -> mid_kind K p'.
Proof.
  intros K p m k p' H Hk Hp. destruct H as [|i t t' Hi Hkind Hs Hm Hold|t' Hkind Hm Hs].
  - exact Hp.
  - intros j tj mj Hj Hmj. apply ADP.nth_update_inv in Hj as [(-> & -> & _)|(N & Hj)].
    + rewrite Hm in Hmj. injection Hmj as <-. rewrite Hkind.
      destruct Hold as [Hold|[_ Hkk]]; [eapply Hp; eauto|now rewrite Hkk].
    + eapply Hp; eauto.
  - intros j tj mj Hj Hmj. apply ADP.nth_app_inv in Hj as [(_ & Hj)|(_ & ->)].
    + eapply Hp; eauto.
    + rewrite Hm in Hmj. injection Hmj as <-. now rewrite Hkind.
Qed.

(* transceivers beyond the first n were appended for a section: they carry its
   mid, are of its kind and have no sender *)
Definition created_from (secs : list (AD.kind * AD.dir)) (n : nat) (p : AD.pc) : Prop :=
  forall i t, n <= i -> nth_error p i = Some t ->
    exists m k d, nth_error secs m = Some (k, d) /\ d <> AD.DUnk /\
                  AD.t_mid t = Some m /\ AD.t_kind t = k /\ AD.t_sender t = false.

Lemma sec_effect_created : forall p m k p' i t,
  sec_effect p m k p' -> List.length p <= i -> nth_error p' i = Some t ->
  AD.t_mid t = Some m /\ AD.t_kind t = k /\ AD.t_sender t = false.
Proof.
  intros p m k p' i t H Hi Ht. destruct H as [|j tj t' Hj Hk Hs Hm Hold|t' Hk Hm Hs].
  - exfalso. assert (i < List.length p) by (apply nth_error_Some; congruence). lia.
  - exfalso. assert (i < List.length (AD.update p j t')) by (apply nth_error_Some; congruence).
    rewrite update_length in H. lia.
  - apply ADP.nth_app_inv in Ht as [(L & _)|(_ & ->)]; [lia|auto].
Qed.

(* ---------- the loop over the sections ---------- *)

Lemma remote_sections_effect : forall K secs st m,
  (forall j k d, nth_error secs j = Some (k, d) -> d <> AD.DUnk -> kc k = K (m + j)) ->
  grows (fst st) (fst (AD.remote_sections st m secs)) /\
  (mid_kind K (fst st) -> mid_kind K (fst (AD.remote_sections st m secs))) /\
  (forall i t, List.length (fst st) <= i ->
     nth_error (fst (AD.remote_sections st m secs)) i = Some t ->
     exists j k d, nth_error secs j = Some (k, d) /\ d <> AD.DUnk /\
                   AD.t_mid t = Some (m + j) /\ AD.t_kind t = k /\ AD.t_sender t = false).
Proof.
  intros K. induction secs as [|[k d] more IH]; intros st m HK.
  - cbn. split; [apply grows_refl|]. split; [auto|]. intros i t Hi Ht. exfalso.
    assert (i < List.length (fst st)) by (apply nth_error_Some; congruence). lia.
  - cbn [AD.remote_sections].
    pose proof (remote_section_effect st m k d) as He.
    set (st1 := AD.remote_section st m (k, d)) in *.
    assert (HK' : forall j k' d', nth_error more j = Some (k', d') -> d' <> AD.DUnk -> kc k' = K (S m + j)).
    { intros j k' d' Hj Hd. replace (S m + j) with (m + S j) by lia. exact (HK (S j) k' d' Hj Hd). }
    destruct (IH st1 (S m) HK') as [G1 [M1 C1]].
    pose proof (sec_effect_grows _ _ _ _ He) as G0.
    split; [eapply grows_trans; eauto|]. split.
    + intros Hp. apply M1.
      destruct (AD.dir_eqb d AD.DUnk) eqn:Ed.
      * apply ADP.dir_eqb_eq in Ed. subst d. unfold st1. destruct st. cbn. exact Hp.
      * eapply sec_effect_mid_kind; [exact He| |exact Hp].
        rewrite <- (Nat.add_0_r m). apply (HK 0 k d); [reflexivity|].
        intros ->. discriminate.
    + intros i t Hi Ht.
      destruct (Nat.lt_ge_cases i (List.length (fst st1))) as [L|G].
      * (* appended by this section, carried along *)
        destruct (nth_error (fst st1) i) as [t1|] eqn:E1; [|apply nth_error_None in E1; lia].
        destruct (sec_effect_created _ _ _ _ _ _ He Hi E1) as [Hm1 [Hk1 Hs1]].
        destruct G1 as [_ G1]. destruct (G1 i t1 E1) as [t2 [Ht2 [K2 [S2 M2]]]].
        rewrite Ht in Ht2. injection Ht2 as <-.
        assert (Hd : d <> AD.DUnk).
        { intros ->. unfold st1 in L. destruct st. cbn in L, Hi. lia. }
        exists 0, k, d. split; [reflexivity|]. split; [assumption|].
        split; [rewrite (M2 m Hm1); f_equal; lia|]. split; congruence.
      * destruct (C1 i t G Ht) as [j [k' [d' [Hj [Hd' [Hm' [Hk' Hs']]]]]]].
        exists (S j), k', d'. split; [exact Hj|]. split; [assumption|].
        split; [rewrite Hm'; f_equal; lia|]. auto.
Qed.

Lemma set_remote_effect : forall K p secs,
  (forall j k d, nth_error secs j = Some (k, d) -> d <> AD.DUnk -> kc k = K j) ->
  grows p (AD.set_remote p secs) /\
  (mid_kind K p -> mid_kind K (AD.set_remote p secs)) /\
  (forall i t, List.length p <= i -> nth_error (AD.set_remote p secs) i = Some t ->
     exists j k d, nth_error secs j = Some (k, d) /\ d <> AD.DUnk /\
                   AD.t_mid t = Some j /\ AD.t_kind t = k /\ AD.t_sender t = false).
Proof.
  intros K p secs HK. unfold AD.set_remote.
  exact (remote_sections_effect K secs (p, seq 0 (List.length p)) 0 HK).
Qed.

(* ---------- SetLocalDescription(answer) and AddTransceiverFromKind ---------- *)

(* same length; kind, mid and sender unchanged at every position *)
Definition same_shape (p p' : AD.pc) : Prop :=
  List.length p' = List.length p /\
  forall i t', nth_error p' i = Some t' ->
    exists t, nth_error p i = Some t /\ AD.t_kind t' = AD.t_kind t /\
              AD.t_sender t' = AD.t_sender t /\ AD.t_mid t' = AD.t_mid t.

Lemma same_shape_refl : forall p, same_shape p p.
Proof. intros p. split; [reflexivity|]. intros i t H. exists t. auto. Qed.

Lemma same_shape_trans : forall a b c, same_shape a b -> same_shape b c -> same_shape a c.
Proof.
  intros a b c [L1 H1] [L2 H2]. split; [congruence|]. intros i t Hi.
  destruct (H2 i t Hi) as [t1 [Ht1 [K1 [S1 M1]]]]. destruct (H1 i t1 Ht1) as [t0 [Ht0 [K0 [S0 M0]]]].
  exists t0. split; [assumption|]. repeat split; congruence.
Qed.

Lemma same_shape_update_cur : forall p i t d,
  nth_error p i = Some t -> same_shape p (AD.update p i (AD.set_cur t d)).
Proof.
  intros p i t d Hi. split; [apply update_length|]. intros j tj Hj.
  apply ADP.nth_update_inv in Hj as [(-> & -> & _)|(N & Hj)].
  - exists t. cbn. auto.
  - exists tj. auto.
Qed.

Lemma local_answer_shape : forall secs p cands m, same_shape p (AD.local_answer p cands m secs).
Proof.
  induction secs as [|[k d] more IH]; intros p cands m; [apply same_shape_refl|].
  cbn [AD.local_answer].
  assert (Hskip : same_shape p (AD.local_answer p cands (S m) more)) by apply IH.
  assert (Hknown : same_shape p
            (match AD.find_by_mid p m cands with
             | (Some i, rest) =>
                 match nth_error p i with
                 | Some t =>
                     let d0 := AD.t_dir t in
                     let d1 := if AD.dir_eqb d0 AD.Sendonly && negb (AD.t_sender t) then AD.Inactive else d0 in
                     AD.local_answer (AD.update p i (AD.set_cur t d1)) rest (S m) more
                 | None => p
                 end
             | (None, _) => p
             end)).
  { destruct (AD.find_by_mid p m cands) as [[i|] rest]; [|apply same_shape_refl].
    destruct (nth_error p i) as [t|] eqn:Hi; [|apply same_shape_refl].
    cbv zeta. eapply same_shape_trans; [eapply same_shape_update_cur; exact Hi|apply IH]. }
  destruct d; assumption.
Qed.

Lemma same_shape_mid_kind : forall K p p', same_shape p p' -> mid_kind K p -> mid_kind K p'.
Proof.
  intros K p p' [_ H] Hp i t' m Hi Hm. destruct (H i t' Hi) as [t [Ht [Hk [_ Hmid]]]].
  rewrite Hk. eapply Hp; eauto. congruence.
Qed.

(* ---------- the engine inside update_remote_x ---------- *)

Definition rsection_of (s : rsec_x) : rsection := (rs_kind s, rs_codecs s).

Lemma update_remote_x_engine : forall secs e x,
  fst (fst (update_remote_x e x secs)) = fst (update_from_remote e (map rsection_of secs)) /\
  snd (update_remote_x e x secs) = snd (update_from_remote e (map rsection_of secs)).
Proof.
  induction secs as [|s t IH]; intros e x; [split; reflexivity|].
  cbn [update_remote_x map update_from_remote]. unfold rsection_of at 1 3.
  destruct (update_section e (rs_kind s, rs_codecs s)) as [[e1 do_ext] err].
  destruct err as [msg|]; [split; reflexivity|]. apply IH.
Qed.

(* the negotiated flag of a kind *)
Definition neg_flag (e : engine) (k : kind) : bool :=
  match k with KVideo => e_negV e | KAudio => e_negA e | KUnknown => false end.

Lemma get_codecs_by_kind_negotiated : forall e k,
  neg_flag e k = true -> get_codecs_by_kind e k = negotiated_of e k.
Proof. intros e [] H; cbn in *; try discriminate; now rewrite H. Qed.

Lemma update_section_flags : forall e s e' x err,
  update_section e s = (e', x, err) ->
  (forall k, neg_flag e k = true -> neg_flag e' k = true) /\
  (fst s = KVideo \/ fst s = KAudio -> neg_flag e' (fst s) = true).
Proof.
  intros e [k rcs] e' x err H. unfold update_section in H.
  destruct k; destruct (e_negA e) eqn:HA; destruct (e_negV e) eqn:HV; destruct (e_multi e) eqn:HM;
    cbn [negb kind_eqb andb orb locals_of e_video e_audio e_nvideo e_naudio e_negV e_negA e_multi] in H;
    repeat (match type of H with
            | context [match ?y with _ => _ end] => destruct y eqn:?
            end);
    inversion H; subst; cbn [fst];
    (split; [intros [] Hk; cbn in *; congruence|intros [Hk|Hk]; try discriminate; cbn; congruence]).
Qed.

Lemma update_from_remote_flags : forall secs e e' res,
  update_from_remote e secs = (e', res) ->
  (forall k, neg_flag e k = true -> neg_flag e' k = true) /\
  (res = Ok tt -> forall k rcs, In (k, rcs) secs -> k = KVideo \/ k = KAudio -> neg_flag e' k = true).
Proof.
  induction secs as [|s t IH]; intros e e' res H.
  - cbn in H. inversion H; subst. split; [auto|]. intros _ k rcs [].
  - cbn [update_from_remote] in H. destruct (update_section e s) as [[e1 x] err] eqn:Hs.
    destruct (update_section_flags _ _ _ _ _ Hs) as [Hmono Hset].
    destruct err as [msg|].
    + inversion H; subst. split; [exact Hmono|]. intros Hres. discriminate.
    + destruct (IH _ _ _ H) as [Hmono' Hset']. split; [auto|].
      intros Hres k rcs [Heq|Hin] Hk; [|eapply Hset'; eauto].
      apply Hmono'. subst s. cbn [fst] in Hset. now apply Hset.
Qed.

(* ---------- the invariant of the media state ---------- *)

Definition prefs_ok (offered prefs : list codec) : Prop :=
  forall p, In p prefs -> c_pt p = 0%N \/ pref_grounded offered p.

(* K m: the kind of the offered section with mid m, in every offer;
   R k: the codecs every offered section of kind k lists *)
Record minv (K : nat -> kind) (R : kind -> list codec) (s : mpc) : Prop := mkMinv {
  mi_len : List.length (m_ext s) = List.length (m_trs s);
  mi_kind : mid_kind K (m_trs s);
  mi_eng : forall k, k = KVideo \/ k = KAudio -> grounded_list (R k) (negotiated_of (m_e s) k);
  mi_prefs : forall i t x, nth_error (m_trs s) i = Some t -> nth_error (m_ext s) i = Some x ->
               prefs_ok (R (kc (AD.t_kind t))) (tx_prefs x)
}.

Definition offer_ok (K : nat -> kind) (R : kind -> list codec) (offer : list osec) : Prop :=
  forall m o, nth_error offer m = Some o -> os_kind o <> KUnknown ->
    os_kind o = K m /\ os_codecs o = R (os_kind o).

Lemma minv_new : forall K R video audio multi x,
  minv K R (new_mpc (new_engine video audio multi) x).
Proof.
  intros. constructor; cbn.
  - reflexivity.
  - intros i t m H. destruct i; discriminate.
  - intros k Hk c Hc. destruct Hk as [-> | ->]; destruct Hc.
  - intros i t x0 H. destruct i; discriminate.
Qed.

Lemma kc_ad_kind : forall k, k <> KUnknown -> kc (ad_kind k) = k.
Proof. intros [] H; cbn; congruence. Qed.

(* AddTransceiverFromKind + SetCodecPreferences with payload types 0 *)
Lemma minv_add_local : forall K R s k d prefs,
  minv K R s -> k <> KUnknown -> (forall p, In p prefs -> c_pt p = 0%N) ->
  minv K R (fst (fst (add_local s k d prefs))).
Proof.
  intros K R s k d prefs [Hl Hk He Hp] Hkn Hz. unfold add_local.
  assert (Hsame : minv K R s) by (constructor; assumption).
  destruct d; try exact Hsame;
    (destruct (sends _ && _); [exact Hsame|]);
    destruct (apply_prefs (m_e s) k prefs) as [P perr] eqn:Ha; cbn [fst AD.local_op];
    (constructor; cbn [m_e m_x m_trs m_ext];
     [ rewrite !app_length; cbn; lia
     | intros i t m Hi Hm; apply ADP.nth_app_inv in Hi as [(_ & Hi)|(_ & ->)];
       [eapply Hk; eauto|discriminate]
     | exact He
     | intros i t x Hi Hx;
       apply ADP.nth_app_inv in Hi as [(L & Hi)|(E & ->)];
       [ rewrite nth_error_app1 in Hx by lia; eapply Hp; eauto
       | rewrite nth_error_app2 in Hx by lia; rewrite E, Hl, Nat.sub_diag in Hx; cbn in Hx;
         injection Hx as <-; cbn [tx_prefs];
         intros p Hin; left; apply Hz;
         unfold apply_prefs, set_codec_preferences in Ha;
         destruct (forallb _ prefs); inversion Ha; subst; [now apply filter_rtx_incl in Hin|destruct Hin] ] ]).
Qed.

(* ---------- SetRemoteDescription(offer) ---------- *)

Lemma offer_section_in : forall offer k rcs,
  In (k, rcs) (map rsection_of (map os_rsec offer)) ->
  exists m o, nth_error offer m = Some o /\ os_kind o = k /\ os_codecs o = rcs.
Proof.
  intros offer k rcs H. rewrite map_map in H. apply in_map_iff in H.
  destruct H as [o [Ho Hin]]. apply In_nth_error in Hin. destruct Hin as [m Hm].
  unfold rsection_of, os_rsec in Ho. cbn in Ho. inversion Ho; subst. eauto.
Qed.

Lemma grounded_step : forall K R e x offer e' x' r,
  offer_ok K R offer ->
  update_remote_x e x (map os_rsec offer) = (e', x', r) ->
  (forall k, k = KVideo \/ k = KAudio -> grounded_list (R k) (negotiated_of e k)) ->
  forall k, k = KVideo \/ k = KAudio -> grounded_list (R k) (negotiated_of e' k).
Proof.
  intros K R e x offer e' x' r Hok H Hg k Hk c Hc.
  destruct (update_remote_x_engine (map os_rsec offer) e x) as [He _]. rewrite H in He. cbn [fst] in He.
  destruct (update_from_remote e (map rsection_of (map os_rsec offer))) as [e2 res] eqn:Hu.
  cbn [fst] in He. subst e2.
  destruct (step_negotiated_matched _ _ _ _ _ _ Hk Hu Hc) as [Hold|[rcs [r0 [lc [Hs [Hr [Hsame _]]]]]]].
  - now apply Hg.
  - destruct (offer_section_in _ _ _ Hs) as [m [o [Hm [Hko Hco]]]].
    assert (Hkn : os_kind o <> KUnknown) by (rewrite Hko; destruct Hk as [-> | ->]; discriminate).
    destruct (Hok m o Hm Hkn) as [_ HR]. exists r0. split; [|assumption]. congruence.
Qed.

Lemma srd_flags : forall e x offer e' x',
  update_remote_x e x (map os_rsec offer) = (e', x', Ok tt) ->
  forall m o, nth_error offer m = Some o -> os_kind o <> KUnknown -> neg_flag e' (os_kind o) = true.
Proof.
  intros e x offer e' x' H m o Hm Hkn.
  destruct (update_remote_x_engine (map os_rsec offer) e x) as [He Hr]. rewrite H in He, Hr. cbn [fst snd] in He, Hr.
  destruct (update_from_remote e (map rsection_of (map os_rsec offer))) as [e2 res] eqn:Hu.
  cbn [fst snd] in He, Hr. subst e2 res.
  destruct (update_from_remote_flags _ _ _ _ Hu) as [_ Hset].
  apply (Hset eq_refl (os_kind o) (os_codecs o)).
  - rewrite map_map. apply in_map_iff. exists o. split; [reflexivity|]. eapply nth_error_In; eauto.
  - destruct (os_kind o); [contradiction|now right|now left].
Qed.

Lemma ad_sec_known : forall offer j k d,
  nth_error (map ad_sec offer) j = Some (k, d) -> d <> AD.DUnk ->
  exists o, nth_error offer j = Some o /\ os_kind o <> KUnknown /\ kc k = os_kind o /\ d = os_dir o.
Proof.
  intros offer j k d H Hd. rewrite nth_error_map in H.
  destruct (nth_error offer j) as [o|]; [|discriminate]. cbn in H. exists o. split; [reflexivity|].
  unfold ad_sec in H. destruct (os_kind o) eqn:Ek; inversion H; subst; try congruence;
    (split; [discriminate|split; reflexivity]).
Qed.

Lemma offer_ok_ad_kinds : forall K R offer,
  offer_ok K R offer ->
  forall j k d, nth_error (map ad_sec offer) j = Some (k, d) -> d <> AD.DUnk -> kc k = K j.
Proof.
  intros K R offer Hok j k d H Hd. destruct (ad_sec_known _ _ _ _ H Hd) as [o [Ho [Hkn [Hk _]]]].
  rewrite Hk. now apply (Hok j o Ho Hkn).
Qed.

Lemma nth_error_skipn : forall A (l : list A) n j, nth_error (skipn n l) j = nth_error l (n + j).
Proof.
  induction l as [|a t IH]; intros [|n] j; cbn; auto. now destruct j.
Qed.

Lemma minv_srd : forall K R s offer,
  minv K R s -> offer_ok K R offer -> minv K R (fst (srd_offer s offer)).
Proof.
  intros K R s offer [Hl Hk He Hp] Hok. unfold srd_offer.
  destruct (update_remote_x (m_e s) (m_x s) (map os_rsec offer)) as [[e' x'] r] eqn:Hu.
  pose proof (grounded_step K R _ _ _ _ _ _ Hok Hu He) as He'.
  destruct r as [[]|msg|]; cbn [fst];
    try (constructor; cbn [m_e m_x m_trs m_ext]; assumption).
  destruct (set_remote_effect K (m_trs s) (map ad_sec offer) (offer_ok_ad_kinds K R offer Hok)) as [[GL G] [MK CR]].
  set (p' := AD.set_remote (m_trs s) (map ad_sec offer)) in *.
  constructor; cbn [m_e m_x m_trs m_ext].
  - rewrite app_length, map_length, skipn_length. lia.
  - now apply MK.
  - exact He'.
  - intros i t x Hi Hx.
    destruct (Nat.lt_ge_cases i (List.length (m_trs s))) as [L|Gi].
    + rewrite nth_error_app1 in Hx by lia.
      destruct (nth_error (m_trs s) i) as [t0|] eqn:E0; [|apply nth_error_None in E0; lia].
      destruct (G i t0 E0) as [t1 [Ht1 [K1 _]]]. rewrite Hi in Ht1. injection Ht1 as <-.
      rewrite K1. eapply Hp; eauto.
    + rewrite nth_error_app2 in Hx by lia. rewrite nth_error_map, nth_error_skipn in Hx.
      replace (List.length (m_trs s) + (i - List.length (m_ext s))) with i in Hx by lia.
      rewrite Hi in Hx. cbn in Hx. injection Hx as <-. cbn [tx_prefs].
      destruct (CR i t Gi Hi) as [j [k [d [Hj [Hd [Hm [Hkk _]]]]]]].
      destruct (ad_sec_known _ _ _ _ Hj Hd) as [o [Ho [Hkn [Hko _]]]].
      destruct (Hok j o Ho Hkn) as [_ HR].
      unfold created_prefs. rewrite Hm, Ho, Hkk, Hko.
      rewrite (get_codecs_by_kind_negotiated e' (os_kind o) (srd_flags _ _ _ _ _ Hu j o Ho Hkn)).
      intros p Hin. right. rewrite HR in Hin. rewrite <- HR.
      assert (Hko' : os_kind o = KVideo \/ os_kind o = KAudio)
        by (destruct (os_kind o); [contradiction|now right|now left]).
      rewrite HR. apply (from_remote_grounded _ _ p (He' _ Hko') Hin).
Qed.

(* ---------- SetLocalDescription(answer), exchanges, histories ---------- *)

Lemma minv_shape : forall K R s p',
  minv K R s -> same_shape (m_trs s) p' -> minv K R (mkMpc (m_e s) (m_x s) p' (m_ext s)).
Proof.
  intros K R s p' [Hl Hk He Hp] Hs. constructor; cbn [m_e m_x m_trs m_ext].
  - destruct Hs as [L _]. congruence.
  - eapply same_shape_mid_kind; eauto.
  - exact He.
  - intros i t' x Hi Hx. destruct Hs as [_ Hs]. destruct (Hs i t' Hi) as [t [Ht [Hkk _]]].
    rewrite Hkk. eapply Hp; eauto.
Qed.

Lemma minv_sld : forall K R s offer, minv K R s -> minv K R (sld_answer s offer).
Proof.
  intros K R s offer H. unfold sld_answer. apply minv_shape; [exact H|].
  unfold AD.set_local_answer. apply local_answer_shape.
Qed.

Lemma minv_exchange : forall K R s offer,
  minv K R s -> offer_ok K R offer -> minv K R (fst (exchange s offer)).
Proof.
  intros K R s offer H Hok. unfold exchange.
  pose proof (minv_srd K R s offer H Hok) as H1.
  destruct (srd_offer s offer) as [s1 [[]|msg|]]; cbn [fst] in *; try exact H1.
  destruct (create_answer s1 offer); cbn [fst]; try exact H1. now apply minv_sld.
Qed.

(* histories in which every offered section with mid m is of kind K m, every
   offered section of kind k lists the codecs R k, and local transceivers are
   added with preference lists whose payload types are all 0 (or none) *)
Definition mop_ok (K : nat -> kind) (R : kind -> list codec) (o : mop) : Prop :=
  match o with
  | MAdd k d prefs => k <> KUnknown /\ forall p, In p prefs -> c_pt p = 0%N
  | MExchange offer => offer_ok K R offer
  end.

Lemma minv_step : forall K R s o, minv K R s -> mop_ok K R o -> minv K R (mstep s o).
Proof.
  intros K R s [k d prefs|offer] H Ho; cbn [mstep mop_ok] in *.
  - destruct Ho as [Hk Hz]. now apply minv_add_local.
  - now apply minv_exchange.
Qed.

Lemma minv_run : forall K R os s,
  minv K R s -> Forall (mop_ok K R) os -> minv K R (run_mops s os).
Proof.
  induction os as [|o t IH]; intros s H Ho; [exact H|].
  inversion Ho; subst. cbn [run_mops fold_left]. apply IH; [now apply minv_step|assumption].
Qed.

(* ---------- CreateAnswer ---------- *)

(* every matched pair is an offered section that is not skipped, at the position
   that is its mid, with a transceiver that carries this mid *)
Lemma assoc_secs_spec : forall p offer cands m l,
  assoc_secs p cands m offer = Ok l ->
  forall o i, In (o, i) l ->
    exists j t, nth_error offer j = Some o /\ os_kind o <> KUnknown /\
                nth_error p i = Some t /\ AD.t_mid t = Some (m + j).
Proof.
  intros p. induction offer as [|o0 more IH]; intros cands m l H o i Hin.
  - cbn in H. inversion H; subst. destruct Hin.
  - cbn [assoc_secs] in H.
    assert (Hnext : forall c l', assoc_secs p c (S m) more = Ok l' -> In (o, i) l' ->
              exists j t, nth_error (o0 :: more) j = Some o /\ os_kind o <> KUnknown /\
                          nth_error p i = Some t /\ AD.t_mid t = Some (m + j)).
    { intros c l' Hl' Hin'. destruct (IH _ _ _ Hl' o i Hin') as [j [t [Hj [Hkn [Ht Hm]]]]].
      exists (S j), t. split; [exact Hj|]. split; [assumption|]. split; [assumption|].
      rewrite Hm. f_equal. lia. }
    destruct (snd (ad_sec o0)) eqn:Ed; try (eapply Hnext; eauto; fail);
      (destruct (AD.find_by_mid p m cands) as [[i0|] rest] eqn:F; [|discriminate];
       unfold rbind in H;
       destruct (assoc_secs p rest (S m) more) as [l'|e|] eqn:Hl'; try discriminate;
       inversion H; subst l;
       destruct Hin as [Heq|Hin]; [|eapply Hnext; eauto];
       inversion Heq; subst o0 i0;
       destruct (ADP.find_by_mid_spec _ _ _ _ _ F) as [[t [Ht Hm]] _];
       exists 0, t; split; [reflexivity|]; split;
       [ intros Hk; unfold ad_sec in Ed; rewrite Hk in Ed; discriminate
       | split; [assumption|rewrite Hm; f_equal; lia] ]).
Qed.

Lemma transceiver_section_codecs : forall e x t me sec,
  transceiver_section e x t me = Ok sec ->
  forall c, In c (l_codecs sec) -> In c (get_codecs (get_codecs_by_kind e (t_kind t)) (t_prefs t)).
Proof.
  intros e x t me sec H c Hc. unfold transceiver_section in H.
  destruct (get_codecs (get_codecs_by_kind e (t_kind t)) (t_prefs t)) as [|c0 cs] eqn:Hg.
  - destruct (t_sender t); inversion H; subst. destruct Hc.
  - inversion H; subst. exact Hc.
Qed.

(* what C16 asks of one answer section, against the offered section it answers *)
Definition section_answers (o : osec) (sec : lsection) : Prop :=
  forall c, In c (l_codecs sec) ->
    exists r, In r (os_codecs o) /\ c_pt r = c_pt c /\ compatible c r.

Lemma answer_secs_offered : forall K R s offer l0 l,
  minv K R s -> offer_ok K R offer ->
  (forall m o, nth_error offer m = Some o -> os_kind o <> KUnknown -> neg_flag (m_e s) (os_kind o) = true) ->
  (forall o i, In (o, i) l0 ->
     exists j t, nth_error offer j = Some o /\ os_kind o <> KUnknown /\
                 nth_error (m_trs s) i = Some t /\ AD.t_mid t = Some j) ->
  answer_secs s l0 = Ok l ->
  Forall2 (fun oi sec => section_answers (fst oi) sec) l0 l.
Proof.
  intros K R s offer l0. induction l0 as [|[o i] rest IH]; intros l Hinv Hok Hfl Hsp H.
  - cbn in H. inversion H; subst. constructor.
  - cbn [answer_secs] in H. destruct (trans_at s i) as [t|] eqn:Ht; [|discriminate].
    unfold rbind in H.
    destruct (transceiver_section (m_e s) (m_x s) t (Some (os_exts o))) as [sec|e|] eqn:Hsec; try discriminate.
    destruct (answer_secs s rest) as [r|e|] eqn:Hr; try discriminate. inversion H; subst l.
    constructor; [|apply IH; auto; intros o' i' Hin; apply Hsp; now right].
    cbn [fst]. intros c Hc.
    destruct (Hsp o i (or_introl eq_refl)) as [j [tr [Hj [Hkn [Htr Hm]]]]].
    unfold trans_at in Ht. rewrite Htr in Ht.
    destruct (nth_error (m_ext s) i) as [x|] eqn:Hx; [|discriminate]. inversion Ht; subst t.
    destruct Hinv as [Hl Hk He Hp].
    destruct (Hok j o Hj Hkn) as [HKj HR].
    assert (Hkind : kc (AD.t_kind tr) = os_kind o) by (rewrite (Hk i tr j Htr Hm); congruence).
    pose proof (transceiver_section_codecs _ _ _ _ _ Hsec c Hc) as Hg. cbn [t_kind t_prefs] in Hg.
    rewrite Hkind in Hg.
    rewrite (get_codecs_by_kind_negotiated _ _ (Hfl j o Hj Hkn)) in Hg.
    assert (Hko : os_kind o = KVideo \/ os_kind o = KAudio)
      by (destruct (os_kind o); [contradiction|now right|now left]).
    rewrite HR.
    apply (get_codecs_offered (R (os_kind o)) (negotiated_of (m_e s) (os_kind o)) (tx_prefs x) c).
    + now apply He.
    + pose proof (Hp i tr x Htr Hx) as Hpo. rewrite Hkind in Hpo. exact Hpo.
    + exact Hg.
Qed.

(* the engine after a successful SetRemoteDescription has every offered kind negotiated *)
Lemma srd_offer_flags : forall s offer s1,
  srd_offer s offer = (s1, Ok tt) ->
  forall m o, nth_error offer m = Some o -> os_kind o <> KUnknown -> neg_flag (m_e s1) (os_kind o) = true.
Proof.
  intros s offer s1 H m o Hm Hkn. unfold srd_offer in H.
  destruct (update_remote_x (m_e s) (m_x s) (map os_rsec offer)) as [[e' x'] r] eqn:Hu.
  destruct r as [[]|msg|]; inversion H; subst. cbn [m_e].
  eapply srd_flags; eauto.
Qed.

(* C16 over histories, with the matching inside the step: in every state
   reachable by a history as above, a remote offer of the same shape that is
   applied and answered gets, for every offered section that is not skipped,
   an answer section (in offer order) each of whose codecs is offered in that
   very section under the same payload type, for a compatible codec *)
Lemma exchange_answers_offered : forall K R s offer s' l,
  minv K R s -> offer_ok K R offer ->
  exchange s offer = (s', Ok l) ->
  exists s1 assoc, srd_offer s offer = (s1, Ok tt) /\ assoc_of s1 offer = Ok assoc /\
    Forall2 (fun oi sec => section_answers (fst oi) sec) assoc l /\
    (forall o i, In (o, i) assoc ->
       exists j t, nth_error offer j = Some o /\ os_kind o <> KUnknown /\
                   nth_error (m_trs s1) i = Some t /\ AD.t_mid t = Some j).
Proof.
  intros K R s offer s' l Hinv Hok H. unfold exchange in H.
  pose proof (minv_srd K R s offer Hinv Hok) as H1.
  destruct (srd_offer s offer) as [s1 [[]|msg|]] eqn:Hs; try (inversion H; fail).
  cbn [fst] in H1. exists s1.
  destruct (create_answer s1 offer) as [l1|e|] eqn:Hc; inversion H; subst.
  unfold create_answer, rbind in Hc.
  destruct (assoc_of s1 offer) as [assoc|e|] eqn:Ha; try discriminate.
  exists assoc. split; [reflexivity|]. split; [reflexivity|].
  assert (Hsp : forall o i, In (o, i) assoc ->
            exists j t, nth_error offer j = Some o /\ os_kind o <> KUnknown /\
                        nth_error (m_trs s1) i = Some t /\ AD.t_mid t = Some j).
  { intros o i Hin. unfold assoc_of in Ha.
    destruct (assoc_secs_spec _ _ _ _ _ Ha o i Hin) as [j [t Hjt]]. exists j, t. exact Hjt. }
  split; [|exact Hsp].
  eapply answer_secs_offered; eauto. eapply srd_offer_flags; eauto.
Qed.

Lemma history_answers_offered : forall K R video audio multi x os offer s' l,
  Forall (mop_ok K R) os -> offer_ok K R offer ->
  exchange (run_mops (new_mpc (new_engine video audio multi) x) os) offer = (s', Ok l) ->
  exists s1 assoc,
    srd_offer (run_mops (new_mpc (new_engine video audio multi) x) os) offer = (s1, Ok tt) /\
    assoc_of s1 offer = Ok assoc /\
    Forall2 (fun oi sec => section_answers (fst oi) sec) assoc l /\
    (forall o i, In (o, i) assoc ->
       exists j t, nth_error offer j = Some o /\ os_kind o <> KUnknown /\
                   nth_error (m_trs s1) i = Some t /\ AD.t_mid t = Some j).
Proof.
  intros K R video audio multi x os offer s' l Hos Hok H.
  eapply exchange_answers_offered; eauto. apply minv_run; [apply minv_new|assumption].
Qed.

(* ---------- C10 over histories: header-extension ids ---------- *)

(* the kinds alone: every offered section with mid m is of kind K m *)
Definition offer_kinds (K : nat -> kind) (offer : list osec) : Prop :=
  forall m o, nth_error offer m = Some o -> os_kind o <> KUnknown -> os_kind o = K m.

Definition kinv (K : nat -> kind) (s : mpc) : Prop :=
  List.length (m_ext s) = List.length (m_trs s) /\ mid_kind K (m_trs s).

Lemma offer_kinds_ad : forall K offer,
  offer_kinds K offer ->
  forall j k d, nth_error (map ad_sec offer) j = Some (k, d) -> d <> AD.DUnk -> kc k = K j.
Proof.
  intros K offer Hok j k d H Hd. destruct (ad_sec_known _ _ _ _ H Hd) as [o [Ho [Hkn [Hk _]]]].
  rewrite Hk. now apply (Hok j o Ho Hkn).
Qed.

Lemma kinv_add_local : forall K s k d prefs, kinv K s -> kinv K (fst (fst (add_local s k d prefs))).
Proof.
  intros K s k d prefs [Hl Hk]. unfold add_local.
  assert (Hsame : kinv K s) by (split; assumption).
  destruct d; try exact Hsame;
    (destruct (sends _ && _); [exact Hsame|]);
    destruct (apply_prefs (m_e s) k prefs) as [P perr]; cbn [fst AD.local_op];
    (split; cbn [m_trs m_ext];
     [ rewrite !app_length; cbn; lia
     | intros i t m Hi Hm; apply ADP.nth_app_inv in Hi as [(_ & Hi)|(_ & ->)];
       [eapply Hk; eauto|discriminate] ]).
Qed.

Lemma kinv_srd : forall K s offer, kinv K s -> offer_kinds K offer -> kinv K (fst (srd_offer s offer)).
Proof.
  intros K s offer [Hl Hk] Hok. unfold srd_offer.
  destruct (update_remote_x (m_e s) (m_x s) (map os_rsec offer)) as [[e' x'] r].
  destruct r as [[]|msg|]; cbn [fst]; try (split; assumption).
  destruct (set_remote_effect K (m_trs s) (map ad_sec offer) (offer_kinds_ad K offer Hok)) as [[GL G] [MK CR]].
  split; cbn [m_trs m_ext]; [|now apply MK].
  rewrite app_length, map_length, skipn_length. lia.
Qed.

Lemma kinv_exchange : forall K s offer, kinv K s -> offer_kinds K offer -> kinv K (fst (exchange s offer)).
Proof.
  intros K s offer H Hok. unfold exchange.
  pose proof (kinv_srd K s offer H Hok) as H1.
  destruct (srd_offer s offer) as [s1 [[]|msg|]]; cbn [fst] in *; try exact H1.
  destruct (create_answer s1 offer); cbn [fst]; try exact H1.
  destruct H1 as [Hl Hk]. unfold sld_answer. split; cbn [m_trs m_ext].
  - destruct (local_answer_shape (map ad_sec offer) (m_trs s1) (seq 0 (List.length (m_trs s1))) 0) as [L _].
    unfold AD.set_local_answer. congruence.
  - eapply same_shape_mid_kind; [|exact Hk]. unfold AD.set_local_answer. apply local_answer_shape.
Qed.

(* every extmap line of an offer *)
Definition offer_pairs (offer : list osec) : list (Z * string) := flat_map os_exts offer.

Lemma all_pairs_offer : forall offer, all_pairs (map os_rsec offer) = offer_pairs offer.
Proof.
  induction offer as [|o t IH]; [reflexivity|]. unfold all_pairs, offer_pairs in *. cbn. now rewrite IH.
Qed.

Definition mop_kinds (K : nat -> kind) (pairs : list (Z * string)) (o : mop) : Prop :=
  match o with
  | MAdd k d prefs => True
  | MExchange offer => offer_kinds K offer /\ forall p, In p (offer_pairs offer) -> In p pairs
  end.

Lemma xinv_srd : forall pairs s offer,
  x_ok pairs (m_x s) -> (forall p, In p (offer_pairs offer) -> In p pairs) ->
  x_ok pairs (m_x (fst (srd_offer s offer))).
Proof.
  intros pairs s offer Hx Hsub. unfold srd_offer.
  destruct (update_remote_x (m_e s) (m_x s) (map os_rsec offer)) as [[e' x'] r] eqn:Hu.
  assert (Hx' : x_ok pairs x').
  { eapply update_remote_x_ok; [|exact Hx|exact Hu]. rewrite all_pairs_offer. exact Hsub. }
  destruct r as [[]|msg|]; exact Hx'.
Qed.

Lemma xinv_exchange : forall pairs s offer,
  x_ok pairs (m_x s) -> (forall p, In p (offer_pairs offer) -> In p pairs) ->
  x_ok pairs (m_x (fst (exchange s offer))).
Proof.
  intros pairs s offer Hx Hsub. unfold exchange.
  pose proof (xinv_srd pairs s offer Hx Hsub) as H1.
  destruct (srd_offer s offer) as [s1 [[]|msg|]]; cbn [fst] in *; try exact H1.
  destruct (create_answer s1 offer); cbn [fst]; exact H1.
Qed.

Lemma add_local_x : forall s k d prefs, m_x (fst (fst (add_local s k d prefs))) = m_x s.
Proof.
  intros s k d prefs. unfold add_local.
  destruct d; try reflexivity; (destruct (sends _ && _); [reflexivity|]);
    destruct (apply_prefs (m_e s) k prefs); reflexivity.
Qed.

Lemma kx_run : forall K pairs os s,
  kinv K s -> x_ok pairs (m_x s) -> Forall (mop_kinds K pairs) os ->
  kinv K (run_mops s os) /\ x_ok pairs (m_x (run_mops s os)).
Proof.
  induction os as [|o t IH]; intros s Hk Hx Ho; [auto|].
  inversion Ho as [|? ? Ho1 Ho2]; subst. cbn [run_mops fold_left]. apply IH; [| |assumption].
  - destruct o as [k d prefs|offer]; cbn [mstep]; [now apply kinv_add_local|].
    destruct Ho1. now apply kinv_exchange.
  - destruct o as [k d prefs|offer]; cbn [mstep]; [now rewrite add_local_x|].
    destruct Ho1. now apply xinv_exchange.
Qed.

(* the extmap lines of the negotiated branch, from the invariant of the map *)
Lemma x_ok_ext_ids : forall pairs x k dirs rem,
  remote_exts_regular pairs -> x_ok pairs x ->
  let l := filter_match rem (ext_params x true k dirs) in
  NoDup (map fst l) /\ (forall iu, In iu l -> (1 <= fst iu <= 14)%Z) /\ NoDup (map snd l).
Proof.
  intros pairs x k dirs rem [Hrange Hfun] [Hs Hin] l.
  set (m := neg_of x) in *.
  assert (Hkeys : NoDup (map fst m)) by (now apply sorted_nodup).
  assert (Hm : NoDup m) by (apply (NoDup_map_inv fst); exact Hkeys).
  assert (Huris : NoDup (map (fun ih => h_uri (snd ih)) m)).
  { apply nodup_map_inj; [exact Hm|]. intros [i h] [i' h'] Ha Hb Hu. cbn [snd] in Hu.
    assert (Hii : i = i').
    { apply (Hfun i (h_uri h) i' (h_uri h')); [now apply Hin|now apply Hin|exact Hu]. }
    subst i'. clear -Hkeys Ha Hb. induction m as [|[j hj] t IH]; [destruct Ha|].
    cbn [map fst] in Hkeys. inversion Hkeys as [|y ys Hni Hnd]; subst.
    destruct Ha as [Ha|Ha]; destruct Hb as [Hb|Hb].
    - congruence.
    - inversion Ha; subst. exfalso. apply Hni. apply in_map_iff. exists (i, h'). auto.
    - inversion Hb; subst. exfalso. apply Hni. apply in_map_iff. exists (i, h). auto.
    - now apply IH. }
  destruct (select_exts_nodup m k dirs) as [S1 S2].
  assert (Hl : forall iu, In iu l -> In iu (select_exts m k dirs)).
  { intros iu Hiu. unfold l, filter_match, ext_params in Hiu. destruct rem; [now apply filter_In in Hiu|exact Hiu]. }
  unfold l, ext_params. fold m.
  split; [|split].
  - unfold filter_match. destruct rem; [apply nodup_filter_map|]; now apply S1.
  - intros iu Hiu. apply Hl in Hiu. destruct (select_exts_in _ _ _ _ Hiu) as [h [Hm' Hu]].
    apply (Hrange (fst iu) (h_uri h)). now apply Hin.
  - unfold filter_match. destruct rem; [apply nodup_filter_map|]; now apply S2.
Qed.

Definition exts_ok (sec : lsection) : Prop :=
  NoDup (map fst (l_exts sec)) /\ (forall iu, In iu (l_exts sec) -> (1 <= fst iu <= 14)%Z) /\
  NoDup (map snd (l_exts sec)).

Lemma negotiated_kind_flag : forall e k, negotiated_kind e k = neg_flag e k.
Proof. intros e []; reflexivity. Qed.

Lemma answer_secs_exts : forall K pairs s offer l0 l,
  kinv K s -> offer_kinds K offer -> remote_exts_regular pairs -> x_ok pairs (m_x s) ->
  (forall m o, nth_error offer m = Some o -> os_kind o <> KUnknown -> neg_flag (m_e s) (os_kind o) = true) ->
  (forall o i, In (o, i) l0 ->
     exists j t, nth_error offer j = Some o /\ os_kind o <> KUnknown /\
                 nth_error (m_trs s) i = Some t /\ AD.t_mid t = Some j) ->
  answer_secs s l0 = Ok l -> Forall exts_ok l.
Proof.
  intros K pairs s offer l0. induction l0 as [|[o i] rest IH]; intros l Hinv Hok Hreg Hx Hfl Hsp H.
  - cbn in H. inversion H; subst. constructor.
  - cbn [answer_secs] in H. destruct (trans_at s i) as [t|] eqn:Ht; [|discriminate].
    unfold rbind in H.
    destruct (transceiver_section (m_e s) (m_x s) t (Some (os_exts o))) as [sec|e|] eqn:Hsec; try discriminate.
    destruct (answer_secs s rest) as [r|e|] eqn:Hr; try discriminate. inversion H; subst l.
    constructor; [|apply IH; auto; intros o' i' Hin; apply Hsp; now right].
    destruct (Hsp o i (or_introl eq_refl)) as [j [tr [Hj [Hkn [Htr Hm]]]]].
    unfold trans_at in Ht. rewrite Htr in Ht.
    destruct (nth_error (m_ext s) i) as [x|] eqn:Hxx; [|discriminate]. inversion Ht; subst t.
    destruct Hinv as [Hl Hk].
    assert (Hkind : kc (AD.t_kind tr) = os_kind o) by (rewrite (Hk i tr j Htr Hm); symmetry; now apply Hok).
    unfold transceiver_section in Hsec. cbn [t_kind t_prefs t_sender] in Hsec.
    destruct (get_codecs _ _) as [|c0 cs].
    + destruct (AD.t_sender tr); inversion Hsec; subst. unfold exts_ok. cbn [l_exts map].
      split; [constructor|]. split; [intros ? []|constructor].
    + inversion Hsec; subst sec. unfold exts_ok. cbn [l_exts].
      rewrite Hkind, negotiated_kind_flag, (Hfl j o Hj Hkn).
      exact (x_ok_ext_ids pairs (m_x s) (os_kind o) _ (Some (os_exts o)) Hreg Hx).
Qed.

Lemma srd_offer_x : forall pairs s offer s1,
  srd_offer s offer = (s1, Ok tt) -> x_ok pairs (m_x s) ->
  (forall p, In p (offer_pairs offer) -> In p pairs) -> x_ok pairs (m_x s1).
Proof.
  intros pairs s offer s1 H Hx Hsub. pose proof (xinv_srd pairs s offer Hx Hsub) as H1.
  now rewrite H in H1.
Qed.

(* for every registration sequence, every history of local additions and
   answered offers and every further offer: when the kinds of the mids are
   stable and the extmap lines of all the offers use ids within 1..14 and pair
   ids and URIs one-to-one, every answer section has distinct extmap ids within
   1..14 and each URI once *)
Lemma history_answer_exts : forall K pairs video audio multi regs os offer s' l,
  remote_exts_regular pairs ->
  Forall (mop_kinds K pairs) os -> mop_kinds K pairs (MExchange offer) ->
  exchange (run_mops (new_mpc (new_engine video audio multi) (registered regs)) os) offer = (s', Ok l) ->
  Forall exts_ok l.
Proof.
  intros K pairs video audio multi regs os offer s' l Hreg Hos [Hok Hsub] H.
  destruct (kx_run K pairs os (new_mpc (new_engine video audio multi) (registered regs))) as [Hk Hx].
  { split; [reflexivity|]. intros i t m Hi. destruct i; discriminate. }
  { apply x_ok_registered. }
  { exact Hos. }
  set (s := run_mops (new_mpc (new_engine video audio multi) (registered regs)) os) in *.
  unfold exchange in H.
  pose proof (kinv_srd K s offer Hk Hok) as Hk1.
  destruct (srd_offer s offer) as [s1 [[]|msg|]] eqn:Hs; try (inversion H; fail).
  cbn [fst] in Hk1.
  destruct (create_answer s1 offer) as [l1|e|] eqn:Hc; inversion H; subst.
  unfold create_answer, rbind in Hc.
  destruct (assoc_of s1 offer) as [assoc|e|] eqn:Ha; try discriminate.
  eapply (answer_secs_exts K pairs s1 offer assoc l Hk1 Hok Hreg).
  - eapply srd_offer_x; eauto.
  - eapply srd_offer_flags; eauto.
  - intros o i Hin. unfold assoc_of in Ha.
    destruct (assoc_secs_spec _ _ _ _ _ Ha o i Hin) as [j [t Hjt]]. exists j, t. exact Hjt.
  - exact Hc.
Qed.

(* ---------- C10 over histories: payload types listed once ---------- *)

(* distinct, non-zero payload types *)
Definition pts_ok (l : list codec) : Prop :=
  NoDup (map c_pt l) /\ forall c, In c l -> c_pt c <> 0%N.

Lemma pts_ok_nil : pts_ok [].
Proof. split; [constructor|intros c []]. Qed.

Lemma pts_ok_filter_rtx : forall l, pts_ok l -> pts_ok (filter_unattached_rtx l).
Proof.
  intros l [H1 H2]. split; [now apply filter_rtx_nodup|].
  intros c Hc. apply H2. now apply filter_rtx_incl in Hc.
Qed.

Definition pinv (s : mpc) : Prop :=
  pts_ok (e_nvideo (m_e s)) /\ pts_ok (e_naudio (m_e s)) /\
  forall i x, nth_error (m_ext s) i = Some x -> pts_ok (tx_prefs x).

Definition offer_pts (offer : list osec) : Prop :=
  forall o c, In o offer -> In c (os_codecs o) -> c_pt c <> 0%N.

Lemma pinv_add_local : forall s k d prefs,
  pinv s -> pts_ok prefs -> pinv (fst (fst (add_local s k d prefs))).
Proof.
  intros s k d prefs [Hv [Ha Hp]] Hprefs. unfold add_local.
  assert (Hsame : pinv s) by (split; [|split]; assumption).
  destruct d; try exact Hsame;
    (destruct (sends _ && _); [exact Hsame|]);
    destruct (apply_prefs (m_e s) k prefs) as [P perr] eqn:Hap; cbn [fst];
    (split; [exact Hv|split; [exact Ha|]]; cbn [m_ext];
     intros i x Hx;
     destruct (Nat.lt_ge_cases i (List.length (m_ext s))) as [L|G];
     [ rewrite nth_error_app1 in Hx by lia; eapply Hp; eauto
     | rewrite nth_error_app2 in Hx by lia;
       destruct (i - List.length (m_ext s)) as [|n]; [|destruct n; discriminate];
       cbn in Hx; injection Hx as <-; cbn [tx_prefs];
       unfold apply_prefs, set_codec_preferences in Hap;
       destruct (forallb _ prefs); inversion Hap; subst;
       [now apply pts_ok_filter_rtx|apply pts_ok_nil] ]).
Qed.

Lemma engine_pts_step : forall e x offer e' x' r,
  offer_pts offer ->
  update_remote_x e x (map os_rsec offer) = (e', x', r) ->
  pts_ok (e_nvideo e) -> pts_ok (e_naudio e) ->
  pts_ok (e_nvideo e') /\ pts_ok (e_naudio e').
Proof.
  intros e x offer e' x' r Hop H [Nv Zv] [Na Za].
  destruct (update_remote_x_engine (map os_rsec offer) e x) as [He _]. rewrite H in He. cbn [fst] in He.
  destruct (update_from_remote e (map rsection_of (map os_rsec offer))) as [e2 res] eqn:Hu.
  cbn [fst] in He. subst e2.
  destruct (update_from_remote_nodup _ _ _ _ Hu) as [N1 N2].
  assert (Hz : forall k c, k = KVideo \/ k = KAudio ->
                 (forall c0, In c0 (negotiated_of e k) -> c_pt c0 <> 0%N) ->
                 In c (negotiated_of e' k) -> c_pt c <> 0%N).
  { intros k c Hk Hold Hc.
    destruct (step_negotiated_matched _ _ _ _ _ _ Hk Hu Hc) as [Ho|[rcs [r0 [lc [Hs [Hr [Hsame _]]]]]]].
    - now apply Hold.
    - destruct (offer_section_in _ _ _ Hs) as [m [o [Hm [_ Hco]]]].
      rewrite (same_but_fb_pt _ _ Hsame). apply (Hop o r0); [eapply nth_error_In; eauto|congruence]. }
  split; (split; [auto|]).
  - intros c Hc. exact (Hz KVideo c (or_introl eq_refl) Zv Hc).
  - intros c Hc. exact (Hz KAudio c (or_intror eq_refl) Za Hc).
Qed.

Lemma negotiated_pts : forall e k,
  pts_ok (e_nvideo e) -> pts_ok (e_naudio e) -> pts_ok (negotiated_of e k).
Proof. intros e [] Hv Ha; cbn; assumption. Qed.

Lemma pinv_srd : forall s offer, pinv s -> offer_pts offer -> pinv (fst (srd_offer s offer)).
Proof.
  intros s offer [Hv [Ha Hp]] Hop. unfold srd_offer.
  destruct (update_remote_x (m_e s) (m_x s) (map os_rsec offer)) as [[e' x'] r] eqn:Hu.
  destruct (engine_pts_step _ _ _ _ _ _ Hop Hu Hv Ha) as [Hv' Ha'].
  destruct r as [[]|msg|]; cbn [fst]; try (split; [|split]; assumption).
  split; [exact Hv'|split; [exact Ha'|]]. cbn [m_ext]. intros i x Hx.
  destruct (Nat.lt_ge_cases i (List.length (m_ext s))) as [L|G].
  - rewrite nth_error_app1 in Hx by lia. eapply Hp; eauto.
  - rewrite nth_error_app2 in Hx by lia. rewrite nth_error_map in Hx.
    destruct (nth_error (skipn (List.length (m_trs s)) (AD.set_remote (m_trs s) (map ad_sec offer)))
                        (i - List.length (m_ext s))) as [t|] eqn:Ht; [|discriminate].
    cbn in Hx. injection Hx as <-. cbn [tx_prefs].
    rewrite nth_error_skipn in Ht.
    set (K := fun j => match nth_error offer j with Some o => os_kind o | None => KUnknown end).
    assert (HK : forall j k d, nth_error (map ad_sec offer) j = Some (k, d) -> d <> AD.DUnk -> kc k = K j).
    { intros j k d Hj Hd. destruct (ad_sec_known _ _ _ _ Hj Hd) as [o [Ho [_ [Hk _]]]].
      unfold K. now rewrite Ho. }
    destruct (set_remote_effect K (m_trs s) (map ad_sec offer) HK) as [_ [_ CR]].
    assert (Hge : List.length (m_trs s) <= List.length (m_trs s) + (i - List.length (m_ext s))) by lia.
    destruct (CR _ t Hge Ht) as [j [k [d [Hj [Hd [Hm [Hkk _]]]]]]].
    destruct (ad_sec_known _ _ _ _ Hj Hd) as [o [Ho [Hkn [Hko _]]]].
    unfold created_prefs. rewrite Hm, Ho, Hkk, Hko.
    rewrite (get_codecs_by_kind_negotiated e' (os_kind o) (srd_flags _ _ _ _ _ Hu j o Ho Hkn)).
    destruct (negotiated_pts e' (os_kind o) Hv' Ha') as [Nn Zn].
    split; [now apply set_prefs_from_remote_nodup|].
    intros c Hc. apply set_prefs_from_remote_pts in Hc. apply in_map_iff in Hc.
    destruct Hc as [c0 [Hc0 Hin]]. rewrite <- Hc0. now apply Zn.
Qed.

Lemma pinv_exchange : forall s offer, pinv s -> offer_pts offer -> pinv (fst (exchange s offer)).
Proof.
  intros s offer H Hop. unfold exchange. pose proof (pinv_srd s offer H Hop) as H1.
  destruct (srd_offer s offer) as [s1 [[]|msg|]]; cbn [fst] in *; try exact H1.
  destruct (create_answer s1 offer); cbn [fst]; exact H1.
Qed.

Definition mop_kp (K : nat -> kind) (o : mop) : Prop :=
  match o with
  | MAdd k d prefs => pts_ok prefs
  | MExchange offer => offer_kinds K offer /\ offer_pts offer
  end.

Lemma kp_run : forall K os s,
  kinv K s -> pinv s -> Forall (mop_kp K) os -> kinv K (run_mops s os) /\ pinv (run_mops s os).
Proof.
  induction os as [|o t IH]; intros s Hk Hp Ho; [auto|].
  inversion Ho as [|? ? Ho1 Ho2]; subst. cbn [run_mops fold_left]. apply IH; [| |assumption].
  - destruct o as [k d prefs|offer]; cbn [mstep]; [now apply kinv_add_local|].
    destruct Ho1. now apply kinv_exchange.
  - destruct o as [k d prefs|offer]; cbn [mstep mop_kp] in *; [now apply pinv_add_local|].
    destruct Ho1. now apply pinv_exchange.
Qed.

Lemma answer_secs_pts : forall K s offer l0 l,
  kinv K s -> pinv s -> offer_kinds K offer ->
  (forall m o, nth_error offer m = Some o -> os_kind o <> KUnknown -> neg_flag (m_e s) (os_kind o) = true) ->
  (forall o i, In (o, i) l0 ->
     exists j t, nth_error offer j = Some o /\ os_kind o <> KUnknown /\
                 nth_error (m_trs s) i = Some t /\ AD.t_mid t = Some j) ->
  answer_secs s l0 = Ok l -> Forall (fun sec => NoDup (sec_formats sec)) l.
Proof.
  intros K s offer l0. induction l0 as [|[o i] rest IH]; intros l Hinv Hpi Hok Hfl Hsp H.
  - cbn in H. inversion H; subst. constructor.
  - cbn [answer_secs] in H. destruct (trans_at s i) as [t|] eqn:Ht; [|discriminate].
    unfold rbind in H.
    destruct (transceiver_section (m_e s) (m_x s) t (Some (os_exts o))) as [sec|e|] eqn:Hsec; try discriminate.
    destruct (answer_secs s rest) as [r|e|] eqn:Hr; try discriminate. inversion H; subst l.
    constructor; [|apply IH; auto; intros o' i' Hin; apply Hsp; now right].
    destruct (Hsp o i (or_introl eq_refl)) as [j [tr [Hj [Hkn [Htr Hm]]]]].
    unfold trans_at in Ht. rewrite Htr in Ht.
    destruct (nth_error (m_ext s) i) as [x|] eqn:Hxx; [|discriminate]. inversion Ht; subst t.
    destruct Hinv as [Hl Hk]. destruct Hpi as [Hv [Ha Hp]].
    assert (Hkind : kc (AD.t_kind tr) = os_kind o) by (rewrite (Hk i tr j Htr Hm); symmetry; now apply Hok).
    unfold transceiver_section in Hsec. cbn [t_kind t_prefs t_sender] in Hsec.
    rewrite Hkind, (get_codecs_by_kind_negotiated _ _ (Hfl j o Hj Hkn)) in Hsec.
    assert (Hnd : NoDup (map c_pt (get_codecs (negotiated_of (m_e s) (os_kind o)) (tx_prefs x)))).
    { destruct (negotiated_pts (m_e s) (os_kind o) Hv Ha) as [Nn _].
      apply get_codecs_pt_nodup; [exact Nn|]. destruct (Hp i x Hxx) as [Np Zp].
      destruct (tx_prefs x); [now left|right]. split; assumption. }
    destruct (get_codecs _ _) as [|c0 cs].
    + destruct (AD.t_sender tr); inversion Hsec; subst. constructor.
    + inversion Hsec; subst sec. exact Hnd.
Qed.

(* for all registrations with distinct payload types, every history of local
   additions and answered offers and every further offer: when the kinds of the
   mids are stable, no offered codec has payload type 0 and SetCodecPreferences
   is given lists with distinct non-zero payload types (or none), every section
   of the answer lists each payload type once -- whether its transceiver is a
   local one or was created from a remote description, now or earlier *)
Lemma history_answer_pts : forall K video audio multi x os offer s' l,
  Forall (mop_kp K) os -> mop_kp K (MExchange offer) ->
  exchange (run_mops (new_mpc (new_engine video audio multi) x) os) offer = (s', Ok l) ->
  Forall (fun sec => NoDup (sec_formats sec)) l.
Proof.
  intros K video audio multi x os offer s' l Hos [Hok Hop] H.
  destruct (kp_run K os (new_mpc (new_engine video audio multi) x)) as [Hk Hp].
  { split; [reflexivity|]. intros i t m Hi. destruct i; discriminate. }
  { split; [apply pts_ok_nil|split; [apply pts_ok_nil|]]. intros i x0 Hi. destruct i; discriminate. }
  { exact Hos. }
  set (s := run_mops (new_mpc (new_engine video audio multi) x) os) in *.
  unfold exchange in H.
  pose proof (kinv_srd K s offer Hk Hok) as Hk1. pose proof (pinv_srd s offer Hp Hop) as Hp1.
  destruct (srd_offer s offer) as [s1 [[]|msg|]] eqn:Hs; try (inversion H; fail).
  cbn [fst] in Hk1, Hp1.
  destruct (create_answer s1 offer) as [l1|e|] eqn:Hc; inversion H; subst.
  unfold create_answer, rbind in Hc.
  destruct (assoc_of s1 offer) as [assoc|e|] eqn:Ha; try discriminate.
  eapply (answer_secs_pts K s1 offer assoc l Hk1 Hp1 Hok).
  - eapply srd_offer_flags; eauto.
  - intros o i Hin. unfold assoc_of in Ha.
    destruct (assoc_secs_spec _ _ _ _ _ Ha o i Hin) as [j [t Hjt]]. exists j, t. exact Hjt.
  - exact Hc.
Qed.
