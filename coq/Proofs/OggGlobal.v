(* C33, whole file of the multi-track writer: (A) the beginning-of-stream pages
   of all streams come first, in track order, and no other page carries BOS;
   (B) one reader pass over the closed file returns its pages, all of them, in
   file order, then EOF. *)
From Coq Require Import String List Arith NArith Bool Lia ZifyBool ZifyNat ZifyN.
Import ListNotations.
From Verif Require Import Common.V Common.Base Model.Ivf Model.Ogg Proofs.Ivf Proofs.Ogg Proofs.OggStream.
Open Scope N_scope.

(* ================================================================== *)
(* A. global order of the BOS pages                                     *)
(* ================================================================== *)

Lemma fit_length : forall n l, length (fit n l) = n.
Proof.
  intros n l. unfold fit. rewrite app_length, firstn_length, repeat_length. lia.
Qed.

Lemma u8_lt : forall x, u8 x < 256.
Proof. intros x. unfold u8. apply N.mod_lt. discriminate. Qed.

(* OpusHead has 19 bytes, or 21 + channel count: always one page *)
Lemma id_header_length : forall cm preskip rate,
  (length (build_id_header cm preskip rate) <= 276)%nat.
Proof.
  intros cm preskip rate. unfold build_id_header, sig_opushead.
  rewrite !app_length, !le_bytes_length. cbn [length].
  destruct (cm_family cm =? 0).
  - cbn [length]. lia.
  - rewrite app_length, fit_length. cbn [length]. pose proof (u8_lt (cm_channels cm)). lia.
Qed.

Lemma npages_id : forall cfg, npages (snd (fst (hdr_id cfg))) = 1%nat.
Proof.
  intros cfg. unfold hdr_id, npages. cbn [fst snd].
  pose proof (id_header_length (tr_map cfg) (tr_preskip cfg) (tr_rate cfg)) as H.
  rewrite N.div_small; [reflexivity|]. unfold full_page. lia.
Qed.

Lemma hdr_trace_id : forall cfgs, hdr_trace hdr_id cfgs = map tr_serial cfgs.
Proof.
  induction cfgs as [|c cfgs IH]; [reflexivity|].
  unfold hdr_trace in *. cbn [flat_map map]. rewrite IH, npages_id. reflexivity.
Qed.

Lemma hdr_trace_known : forall mk cfgs, Forall (known cfgs) (hdr_trace mk cfgs).
Proof.
  intros mk cfgs. unfold hdr_trace. apply Forall_forall. intros s Hs.
  apply in_flat_map in Hs. destruct Hs as (c & Hc & Hr). apply repeat_spec in Hr. subst s.
  unfold known. apply in_map. exact Hc.
Qed.

Lemma mine_none : forall s (log : list wpage), ~ In s (map fst log) -> mine s log = [].
Proof.
  intros s log. unfold mine. induction log as [|x l IH]; intros H; [reflexivity|].
  cbn [filter map] in *. destruct (N.eqb_spec (fst x) s) as [E|E].
  - exfalso. apply H. left. exact E.
  - apply IH. intros Hin. apply H. right. exact Hin.
Qed.

Lemma mine_cons_same : forall s P (log : list wpage), mine s ((s, P) :: log) = P :: mine s log.
Proof. intros. unfold mine. cbn [filter fst]. rewrite N.eqb_refl. reflexivity. Qed.

Lemma mine_has : forall s P (log : list wpage), In (s, P) log -> mine s log <> [].
Proof.
  intros s P log Hin. apply in_split in Hin. destruct Hin as (a & b & ->).
  rewrite mine_app, mine_cons_same. intros E. apply app_eq_nil in E. destruct E as [_ E]. discriminate.
Qed.

Lemma in_mine : forall s P (log : list wpage), In (s, P) log -> In P (mine s log).
Proof.
  intros s P log Hin. apply in_split in Hin. destruct Hin as (a & b & ->).
  rewrite mine_app, mine_cons_same. apply in_or_app. right. left. reflexivity.
Qed.

Lemma run_pss_length : forall ops pss, length (run_pss pss ops) = length pss.
Proof.
  induction ops as [|[j p] ops IH]; intros pss; [reflexivity|].
  unfold run_pss. cbn [fold_left fst snd]. fold (run_pss (upd_pss pss j p) ops). rewrite IH.
  unfold upd_pss. destruct p; [reflexivity|].
  destruct (opus_sample_count _); try reflexivity. destruct (nth_error pss j); [| reflexivity].
  apply replace_nth_length.
Qed.

Lemma run_pss_nth : forall (cfgs : list track) ops i cfg,
  nth_error cfgs i = Some cfg ->
  exists ps, nth_error (run_pss (map (fun _ => []) cfgs) ops) i = Some ps.
Proof.
  intros cfgs ops i cfg Hi.
  destruct (nth_error (run_pss (map (fun _ : track => []) cfgs) ops) i) eqn:E; [eauto|].
  apply nth_error_None in E. rewrite run_pss_length, map_length in E.
  assert (i < length cfgs)%nat by (apply nth_error_Some; congruence). lia.
Qed.

Lemma track_pkts_more : forall cfg ps,
  Forall (fun pk : N * list N * N => fst (fst pk) = 0) (hdr_tags cfg :: data_pkts 0 ps) /\
  hdr_tags cfg :: data_pkts 0 ps <> [].
Proof.
  intros cfg ps. split; [| discriminate]. constructor; [reflexivity | apply data_pkts_zero].
Qed.

(* the closed file of the multi-track writer: its first pages are the BOS pages
   of the tracks, one each, in track order, each carrying exactly the OpusHead
   of its track with granule 0; no later page carries BOS *)
Theorem bos_global : forall rw cfgs ops,
  NoDup (map tr_serial cfgs) -> Forall fresh cfgs ->
  exists log : list (N * opage),
    (exists w1, start_locked (multi_run (new_multi rw cfgs) ops) = Ok w1 /\ mw_out w1 = bytes_of log) /\
    (N.of_nat (length log) < 4294967296 ->
     exists B rest,
       close_multi (multi_run (new_multi rw cfgs) ops) = Ok (bytes_of (B ++ rest)) /\
       map fst B = map tr_serial cfgs /\
       Forall2 (fun cfg sp => has_bos (snd sp) = true /\ pg_granule (snd sp) = 0 /\
                  pg_payload (snd sp) = build_id_header (tr_map cfg) (tr_preskip cfg) (tr_rate cfg))
               cfgs B /\
       Forall (fun sp => has_bos (snd sp) = false /\ known cfgs (fst sp)) rest).
Proof.
  intros rw cfgs ops Hnd Hfresh.
  destruct (multi_stream_close_full rw cfgs ops Hnd Hfresh) as (log & H1 & H2).
  exists log. split; [exact H1|]. intros Hb.
  destruct (H2 Hb) as (final & Hclose & Hshape & tail & Htrace & Hknown).
  rewrite hdr_trace_id in Htrace.
  set (n := length cfgs).
  exists (firstn n final), (skipn n final). rewrite firstn_skipn. split; [exact Hclose|].
  assert (HB : map fst (firstn n final) = map tr_serial cfgs).
  { rewrite <- firstn_map, Htrace. unfold n. rewrite <- (map_length tr_serial cfgs).
    apply firstn_app_exact. }
  assert (Hrest : map fst (skipn n final) = hdr_trace hdr_tags cfgs ++ tail).
  { rewrite <- skipn_map, Htrace. unfold n. rewrite <- (map_length tr_serial cfgs).
    apply skipn_app_exact. }
  (* the shape of the stream of a known serial *)
  assert (Hstream : forall s, known cfgs s ->
            exists cfg P0 more, In cfg cfgs /\ tr_serial cfg = s /\
              mine s final = P0 :: more /\ has_bos P0 = true /\
              Forall (fun P => has_bos P = false) more /\
              pg_payload P0 = build_id_header (tr_map cfg) (tr_preskip cfg) (tr_rate cfg) /\
              pg_granule P0 = 0).
  { intros s Hs. unfold known in Hs. apply in_map_iff in Hs. destruct Hs as (cfg & Hsc & Hin).
    pose proof Hin as Hin'. apply In_nth_error in Hin'. destruct Hin' as (i & Hi).
    destruct (run_pss_nth cfgs ops i cfg Hi) as (ps & Hps).
    pose proof (Hshape i cfg ps Hi Hps) as Hsh. cbn [app] in Hsh. unfold hdr_id at 1 in Hsh.
    destruct (track_pkts_more cfg ps) as [Hm1 Hm2].
    destruct (shape_bos _ _ _ _ _ Hsh Hm1 Hm2) as (P0 & more & Hm & Hb0 & Hbr & Hid).
    destruct Hid as [Hp Hg].
    { pose proof (id_header_length (tr_map cfg) (tr_preskip cfg) (tr_rate cfg)). unfold full_page. lia. }
    exists cfg, P0, more. rewrite <- Hsc. repeat split; assumption. }
  split; [exact HB|]. split.
  - (* the first n pages, against the configurations, position by position *)
    assert (Hgen : forall B cfgs', map fst B = map tr_serial cfgs' ->
              NoDup (map tr_serial cfgs') ->
              (forall pre sp post, B = pre ++ sp :: post ->
                 exists cfg, In cfg cfgs /\ tr_serial cfg = fst sp /\
                   (~ In (fst sp) (map fst pre) ->
                    has_bos (snd sp) = true /\ pg_granule (snd sp) = 0 /\
                    pg_payload (snd sp) = build_id_header (tr_map cfg) (tr_preskip cfg) (tr_rate cfg))) ->
              (forall c, In c cfgs' -> forall c2, In c2 cfgs -> tr_serial c2 = tr_serial c -> c2 = c) ->
              Forall2 (fun cfg sp => has_bos (snd sp) = true /\ pg_granule (snd sp) = 0 /\
                         pg_payload (snd sp) = build_id_header (tr_map cfg) (tr_preskip cfg) (tr_rate cfg))
                      cfgs' B).
    { intros B. induction B as [|sp B IH] using rev_ind; intros cfgs' Hm Hnd' Hall Huniq.
      - destruct cfgs'; [constructor | discriminate].
      - destruct (exists_last (l := cfgs')) as (front & c & ->).
        { intros ->. rewrite map_app in Hm. destruct (map fst B); discriminate. }
        rewrite !map_app in Hm. cbn [map] in Hm. apply app_inj_tail in Hm. destruct Hm as [Hm1 Hm2].
        rewrite map_app in Hnd'. cbn [map] in Hnd'.
        apply Forall2_app.
        + apply IH; [exact Hm1 | pose proof (NoDup_remove_1 _ _ _ Hnd') as Hn1; rewrite app_nil_r in Hn1; exact Hn1 | |].
          * intros pre sp0 post E. apply (Hall pre sp0 (post ++ [sp])). rewrite E, <- app_assoc. reflexivity.
          * intros c1 Hc1. apply Huniq. apply in_or_app. left. exact Hc1.
        + constructor; [| constructor].
          destruct (Hall B sp [] eq_refl) as (cfg & Hin & Hser & Himp).
          assert (cfg = c).
          { apply (Huniq c); [apply in_or_app; right; left; reflexivity | exact Hin | congruence]. }
          subst cfg. apply Himp. rewrite Hm1, Hm2. apply NoDup_remove_2 in Hnd'.
          rewrite app_nil_r in Hnd'. exact Hnd'. }
    apply Hgen; [exact HB | exact Hnd | |].
    + intros pre sp post E.
      assert (Hk : known cfgs (fst sp)).
      { unfold known. rewrite <- HB, E, map_app. apply in_or_app. right. left. reflexivity. }
      destruct (Hstream (fst sp) Hk) as (cfg & P0 & more & Hin & Hser & Hm & Hb0 & _ & Hp & Hg).
      exists cfg. split; [exact Hin|]. split; [exact Hser|]. intros Hnot.
      assert (Hhead : mine (fst sp) final = snd sp :: mine (fst sp) (post ++ skipn n final)).
      { rewrite <- (firstn_skipn n final) at 1. rewrite E, <- app_assoc. cbn [app].
        rewrite mine_app, (mine_none _ _ Hnot). cbn [app].
        destruct sp as [s P]. cbn [fst snd]. apply mine_cons_same. }
      rewrite Hhead in Hm. injection Hm as <- _. auto.
    + intros c Hc c2 Hc2 Hser.
      apply In_nth_error in Hc. destruct Hc as (i & Hi). apply In_nth_error in Hc2. destruct Hc2 as (j & Hj).
      assert (i = j).
      { rewrite NoDup_nth_error in Hnd. apply Hnd.
        - rewrite map_length. apply nth_error_Some. congruence.
        - rewrite !nth_error_map, Hi, Hj. cbn. congruence. }
      subst j. congruence.
  - (* every later page: a known stream, and not its first page *)
    apply Forall_forall. intros sp Hin.
    assert (Hk : known cfgs (fst sp)).
    { assert (Hf : Forall (known cfgs) (map fst (skipn n final))).
      { rewrite Hrest. apply Forall_app. split; [apply hdr_trace_known | exact Hknown]. }
      rewrite Forall_forall in Hf. apply Hf. apply in_map. exact Hin. }
    split; [| exact Hk].
    destruct (Hstream (fst sp) Hk) as (cfg & P0 & more & Hc & Hser & Hm & _ & Hbr & _).
    apply in_split in Hin. destruct Hin as (a & b & Esk).
    assert (Hfirst : mine (fst sp) (firstn n final) <> []).
    { assert (Hinb : In (fst sp) (map fst (firstn n final))) by (rewrite HB; exact Hk).
      apply in_map_iff in Hinb. destruct Hinb as ([s P] & Hs & HinB). cbn [fst] in Hs. subst s.
      exact (mine_has _ _ _ HinB). }
    assert (Hsplit : mine (fst sp) final
                     = mine (fst sp) (firstn n final) ++ mine (fst sp) a ++ snd sp :: mine (fst sp) b).
    { rewrite <- (firstn_skipn n final) at 1. rewrite Esk, !mine_app.
      destruct sp as [s P]. cbn [fst snd]. rewrite mine_cons_same. reflexivity. }
    rewrite Hm in Hsplit.
    destruct (mine (fst sp) (firstn n final)) as [|Q X]; [contradiction|].
    cbn [app] in Hsplit. injection Hsplit as _ Hmore.
    rewrite Forall_forall in Hbr. apply Hbr. rewrite Hmore.
    apply in_or_app. right. apply in_or_app. right. left. reflexivity.
Qed.

(* ================================================================== *)
(* B. one reader pass over the whole file                              *)
(* ================================================================== *)

(* a written page the reader accepts: field widths, lacing that adds up, and
   pg_data is what the page builder makes of the fields *)
Definition wf_page (serial : N) (P : opage) : Prop :=
  page_ok (pg_payload P) (pg_segs P) (pg_granule P) serial (pg_index P) /\
  page_bytes writer_table (pg_payload P) (pg_segs P) (pg_htype P) (pg_granule P) serial (pg_index P)
  = Some (pg_data P).

(* what ParseNextPage returns for it *)
Definition rp_of (sp : wpage) : rpage :=
  let P := snd sp in
  mkRpage (mkPhdr sig_oggs 0 (u8 (pg_htype P)) (pg_granule P) (fst sp) (pg_index P)
                  (N.of_nat (length (pg_segs P))))
          (pg_segs P) (pg_payload P).

Lemma lace_length_le : forall n, n < full_page -> (length (lace n) <= 255)%nat.
Proof.
  intros n H. destruct (lace_sum_all n) as (_ & _ & _ & Hl).
  assert (n / 255 <= 254).
  { unfold full_page in H. apply N.lt_succ_r. apply N.div_lt_upper_bound; lia. }
  lia.
Qed.

Lemma chain_wf : forall ht gr serial idx first rem pgs,
  chain ht gr serial idx first rem pgs ->
  gr < 18446744073709551616 -> serial < 4294967296 -> idx < 4294967296 ->
  Forall (wf_page serial) pgs.
Proof.
  intros ht gr serial idx first rem pgs Hch Hg Hs.
  induction Hch as [idx first rem pg Hr Hsegs Hlen Hh Hgr Hi Hpb
                   | idx first rem pg more Hr Hsegs Hlen Hh Hgr Hi Hpb Hmore IH]; intros Hidx.
  - constructor; [| constructor]. split; [| rewrite Hi; exact Hpb].
    unfold page_ok. rewrite Hgr, Hi, Hsegs.
    split; [exact Hg|]. split; [exact Hs|]. split; [exact Hidx|].
    split; [apply lace_length_le; exact Hr|].
    rewrite Hlen. apply lace_sum_all.
  - constructor; [| apply IH; apply u32_lt].
    split; [| rewrite Hi; exact Hpb].
    unfold page_ok. rewrite Hgr, Hi, Hsegs.
    split; [reflexivity|]. split; [exact Hs|]. split; [exact Hidx|].
    split; [rewrite repeat_length; apply Nat.le_refl|].
    rewrite sumN_repeat, Hlen. reflexivity.
Qed.

Lemma packets_pages_wf : forall serial idx pkts pages,
  packets_pages serial idx pkts pages ->
  Forall (fun pk : N * list N * N => snd pk < 18446744073709551616) pkts ->
  serial < 4294967296 -> idx < 4294967296 ->
  Forall (wf_page serial) pages.
Proof.
  intros serial idx pkts pages Hpp.
  induction Hpp as [idx | idx ht payload gr more pgs rest Hch Hpay Hmore IH]; intros Hg Hs Hidx.
  - constructor.
  - inversion Hg as [|? ? Hg1 Hg2]; subst. cbn [snd] in Hg1.
    apply Forall_app. split.
    + exact (chain_wf _ _ _ _ _ _ _ Hch Hg1 Hs Hidx).
    + apply IH; [exact Hg2 | exact Hs | apply u32_lt].
Qed.

Lemma gsum_lt : forall ps g, g < 18446744073709551616 -> gsum g ps < 18446744073709551616.
Proof.
  induction ps as [|[p n] ps IH]; intros g Hg; cbn [gsum]; [exact Hg|].
  apply IH. apply u64_lt.
Qed.

Lemma data_pkts_granules : forall ps g,
  Forall (fun pk : N * list N * N => snd pk < 18446744073709551616) (data_pkts g ps).
Proof.
  induction ps as [|[p n] ps IH]; intros g; cbn [data_pkts]; constructor; [| apply IH].
  cbn [snd]. apply u64_lt.
Qed.

Lemma track_pkts_granules : forall cfg ps,
  Forall (fun pk : N * list N * N => snd pk < 18446744073709551616)
         ([hdr_id cfg; hdr_tags cfg] ++ data_pkts 0 ps).
Proof.
  intros cfg ps. cbn [app]. constructor; [cbn; lia|]. constructor; [cbn; lia|]. apply data_pkts_granules.
Qed.

Lemma shape_wf : forall serial pkts g final,
  stream_shape serial pkts g final ->
  Forall (fun pk : N * list N * N => snd pk < 18446744073709551616) pkts ->
  g < 18446744073709551616 -> serial < 4294967296 ->
  Forall (wf_page serial) final.
Proof.
  intros serial pkts g final Hs Hg Hgl Hser.
  destruct Hs as [pages nilP Hpp (Hp & Hsg & Hh & Hgr & Hi & Hpb) -> | front P P' Hpp Heos ->].
  - apply Forall_app. split.
    + exact (packets_pages_wf _ _ _ _ Hpp Hg Hser ltac:(lia)).
    + constructor; [| constructor]. split.
      * unfold page_ok. rewrite Hp, Hsg, Hgr, Hi. repeat split; try assumption.
        -- apply u32_lt.
        -- cbn. lia.
      * rewrite Hp, Hsg, Hh, Hgr, Hi. exact Hpb.
  - pose proof (packets_pages_wf _ _ _ _ Hpp Hg Hser ltac:(lia)) as Hw.
    apply Forall_app in Hw. destruct Hw as [Hf Hl]. inversion Hl as [|? ? (Hok & _) _]; subst.
    apply Forall_app. split; [exact Hf|]. constructor; [| constructor].
    destruct Heos as (E1 & E2 & E3 & E4 & _ & E6). split; [| exact E6].
    rewrite E1, E2, E3, E4. exact Hok.
Qed.

Lemma parse_empty : parse_next_page true [] = Err "EOF"%string.
Proof. reflexivity. Qed.

(* the reader over a log of well-formed pages: each of them, then EOF *)
Lemma read_pages_log : forall log fuel,
  Forall (fun sp : wpage => wf_page (fst sp) (snd sp)) log ->
  (length log < fuel)%nat ->
  read_pages fuel true (bytes_of log) = (map rp_of log, "EOF"%string).
Proof.
  induction log as [|[s P] log IH]; intros fuel Hwf Hfuel.
  - destruct fuel as [|fuel]; [lia|]. reflexivity.
  - destruct fuel as [|fuel]; [lia|].
    inversion Hwf as [|? ? (Hok & Hpb) Hrest]; subst. cbn [fst snd] in Hok, Hpb.
    change (bytes_of ((s, P) :: log)) with (pg_data P ++ bytes_of log).
    cbn [read_pages]. rewrite (parse_written_page _ _ _ _ _ _ _ _ Hok Hpb).
    rewrite (IH fuel Hrest ltac:(cbn [length] in Hfuel; lia)). reflexivity.
Qed.

Lemma bytes_of_length : forall log : list wpage,
  Forall (fun sp : wpage => wf_page (fst sp) (snd sp)) log -> (length log <= length (bytes_of log))%nat.
Proof.
  induction log as [|[s P] log IH]; intros H; [apply Nat.le_refl|].
  inversion H as [|? ? (_ & Hpb) Hrest]; subst. cbn [fst snd] in Hpb.
  change (bytes_of ((s, P) :: log)) with (pg_data P ++ bytes_of log).
  rewrite app_length, (page_data_length _ _ _ _ _ _ _ Hpb). specialize (IH Hrest). cbn [length]. lia.
Qed.

(* the whole closed file of the multi-track writer, read in one pass with
   checksums on: every page, in file order - the interleaved log -, then EOF;
   the pages of each serial are that track's stream *)
Theorem whole_file_read : forall rw cfgs ops,
  NoDup (map tr_serial cfgs) -> Forall fresh cfgs ->
  Forall (fun c => tr_serial c < 4294967296) cfgs ->
  exists log : list (N * opage),
    (exists w1, start_locked (multi_run (new_multi rw cfgs) ops) = Ok w1 /\ mw_out w1 = bytes_of log) /\
    (N.of_nat (length log) < 4294967296 ->
     exists out final,
       close_multi (multi_run (new_multi rw cfgs) ops) = Ok out /\ out = bytes_of final /\
       read_pages (S (length out)) true out = (map rp_of final, "EOF"%string) /\
       Forall (fun sp => known cfgs (fst sp)) final /\
       forall i cfg ps,
         nth_error cfgs i = Some cfg ->
         nth_error (run_pss (map (fun _ => []) cfgs) ops) i = Some ps ->
         stream_shape (tr_serial cfg) ([hdr_id cfg; hdr_tags cfg] ++ data_pkts 0 ps) (gsum 0 ps)
                      (mine (tr_serial cfg) final)).
Proof.
  intros rw cfgs ops Hnd Hfresh Hser.
  destruct (multi_stream_close_full rw cfgs ops Hnd Hfresh) as (log & H1 & H2).
  exists log. split; [exact H1|]. intros Hb.
  destruct (H2 Hb) as (final & Hclose & Hshape & tail & Htrace & Hknown).
  exists (bytes_of final), final. split; [exact Hclose|]. split; [reflexivity|].
  assert (Hk : Forall (fun sp : wpage => known cfgs (fst sp)) final).
  { assert (Hf : Forall (known cfgs) (map fst final)).
    { rewrite Htrace. apply Forall_app. split; [apply hdr_trace_known|].
      apply Forall_app. split; [apply hdr_trace_known | exact Hknown]. }
    rewrite Forall_map in Hf. exact Hf. }
  assert (Hwf : Forall (fun sp : wpage => wf_page (fst sp) (snd sp)) final).
  { apply Forall_forall. intros [s P] Hin. cbn [fst snd].
    rewrite Forall_forall in Hk. pose proof (Hk _ Hin) as Hs. cbn [fst] in Hs.
    unfold known in Hs. apply in_map_iff in Hs. destruct Hs as (cfg & Hsc & Hc).
    pose proof Hc as Hc'. apply In_nth_error in Hc'. destruct Hc' as (i & Hi).
    destruct (run_pss_nth cfgs ops i cfg Hi) as (ps & Hps).
    pose proof (Hshape i cfg ps Hi Hps) as Hsh.
    rewrite Forall_forall in Hser.
    pose proof (shape_wf _ _ _ _ Hsh (track_pkts_granules cfg ps) (gsum_lt ps 0 ltac:(lia)) (Hser cfg Hc)) as Hw.
    rewrite Forall_forall in Hw. rewrite <- Hsc. apply Hw. rewrite Hsc. apply in_mine. exact Hin. }
  split; [| split; [exact Hk | exact Hshape]].
  apply read_pages_log; [exact Hwf|]. pose proof (bytes_of_length final Hwf). lia.
Qed.

(* the same for the single-track writer (both outputs) *)
Theorem whole_file_read_single : forall fd rate cm serial t ops,
  serial < 4294967296 ->
  exists w0, new_single fd rate cm serial t = Ok w0 /\
    let cfg := new_track rate cm serial t in
    let pkts := [hdr_id cfg; hdr_tags cfg] ++ data_pkts 0 (accepted ops) in
    exists pages,
      sw_out (single_run w0 ops) = flat_map pg_data pages /\
      (N.of_nat (length pages) < 4294967296 ->
       exists out final,
         close_single (single_run w0 ops) = Ok out /\ out = flat_map pg_data final /\
         stream_shape serial pkts (gsum 0 (accepted ops)) final /\
         read_pages (S (length out)) true out = (map (fun P => rp_of (serial, P)) final, "EOF"%string)).
Proof.
  intros fd rate cm serial t ops Hser.
  destruct (single_stream fd rate cm serial t ops) as (w0 & Hnew & pages & Hpp & Hout & Hclose).
  exists w0. split; [exact Hnew|]. cbv zeta. exists pages. split; [exact Hout|]. intros Hb.
  destruct (Hclose Hb) as (final & Hc & Hshape).
  exists (flat_map pg_data final), final. split; [exact Hc|]. split; [reflexivity|]. split; [exact Hshape|].
  pose proof (shape_wf _ _ _ _ Hshape (track_pkts_granules (new_track rate cm serial t) (accepted ops))
                (gsum_lt _ 0 ltac:(lia)) Hser) as Hw.
  assert (Hwf : Forall (fun sp : wpage => wf_page (fst sp) (snd sp)) (tag serial final)).
  { unfold tag. rewrite Forall_map. cbn [fst snd]. exact Hw. }
  rewrite <- (bytes_of_tag serial final).
  rewrite read_pages_log; [| exact Hwf | pose proof (bytes_of_length _ Hwf); lia].
  unfold tag. rewrite map_map. reflexivity.
Qed.

(* ================================================================== *)
(* C. what NewTrack accepts                                            *)
(* ================================================================== *)

Lemma default_chmap_ok : forall ch cm, default_chmap ch = Some cm -> chmap_ok cm.
Proof.
  intros ch cm H. unfold default_chmap in H.
  assert (Hc : cm = mkChmap 0 1 1 0 [] \/ cm = mkChmap 0 2 1 1 []).
  { destruct ch as [|[[p|p|]|[p|p|]|]]; cbn in H; try discriminate; injection H as <-; auto. }
  destruct Hc as [-> | ->]; unfold chmap_ok; cbn [cm_family cm_channels cm_streams cm_coupled cm_mapping];
    (split; [left; reflexivity|]); repeat split; try reflexivity; intros E; exfalso; apply E; reflexivity.
Qed.

Lemma validate_chmap_ok : forall f st co m cm,
  validate_chmap f st co m = Some cm -> st < 256 -> co < 256 -> chmap_ok cm.
Proof.
  intros f st co m cm H Hs Hc. unfold validate_chmap in H.
  destruct ((f =? 1) || (f =? 2) || (f =? 255)) eqn:Ef; [|discriminate]. cbn [negb] in H.
  destruct ((N.of_nat (length m) =? 0) || (255 <? N.of_nat (length m))) eqn:El; [discriminate|].
  apply orb_false_iff in El. destruct El as [_ El]. apply N.ltb_ge in El.
  repeat match type of H with (if ?c then None else _) = _ => destruct c; [discriminate|] end.
  injection H as <-. unfold chmap_ok. cbn [cm_family cm_channels cm_streams cm_coupled cm_mapping].
  split.
  - apply orb_prop in Ef. destruct Ef as [Ef|Ef]; [apply orb_prop in Ef; destruct Ef as [Ef|Ef]|];
      apply N.eqb_eq in Ef; auto.
  - split; [apply u8_lt|]. split; [exact Hs|]. split; [exact Hc|]. intros _.
    unfold u8. rewrite N.mod_small by lia. reflexivity.
Qed.

Lemma valid_name_no_eq : forall n, valid_comment_name n = true -> ~ In 61 n.
Proof.
  intros n H Hin. unfold valid_comment_name in H. apply andb_prop in H. destruct H as [_ H].
  rewrite forallb_forall in H. specialize (H 61 Hin). cbn in H. discriminate.
Qed.

(* a configuration NewTrack accepts: its SSRC and serial are new, the track is
   fresh, its channel mapping and comment names satisfy the premises of the
   header round trip (c33_headers_roundtrip) *)
Theorem new_track_checked_ok : forall used c tr,
  new_track_checked used c = Ok tr -> tc_streams c < 256 -> tc_coupled c < 256 ->
  ~ In (tc_ssrc c) (map fst used) /\ ~ In (tc_serial c) (map snd used) /\
  tr_serial tr = tc_serial c /\ tr_rate tr = tc_rate c /\ tr_tags tr = tc_tags c /\ fresh tr /\
  chmap_ok (tr_map tr) /\ valid_utf8 (t_vendor (tc_tags c)) = true /\
  Forall (fun cm => ~ In 61 (fst cm) /\ valid_utf8 (snd cm) = true) (t_comments (tc_tags c)).
Proof.
  intros used c tr H Hs Hc. unfold new_track_checked in H.
  destruct (existsb (fun u => fst u =? tc_ssrc c) used) eqn:E1; [discriminate|].
  set (cmr := if tc_family c =? 0
              then match default_chmap (tc_channels c) with Some m => Ok m | None => Err "channel-count"%string end
              else match validate_chmap (tc_family c) (tc_streams c) (tc_coupled c) (tc_mapping c) with
                   | Some m => Ok m | None => Err (chmap_err (tc_family c) (tc_mapping c)) end) in *.
  destruct cmr as [cm|e|] eqn:Ecm; try discriminate.
  destruct (validate_tags (tc_tags c)) eqn:Et; [|discriminate]. cbn [negb] in H.
  destruct (existsb (fun u => snd u =? tc_serial c) used) eqn:E2; [discriminate|].
  injection H as <-. cbn [new_track tr_serial tr_rate tr_tags tr_map].
  assert (Hno : forall (f : N * N -> N) x, existsb (fun u => f u =? x) used = false -> ~ In x (map f used)).
  { intros f x Hex Hin. apply in_map_iff in Hin. destruct Hin as (u & Hu & Hin).
    assert (existsb (fun u => f u =? x) used = true).
    { apply existsb_exists. exists u. split; [exact Hin|]. apply N.eqb_eq. exact Hu. }
    congruence. }
  split; [exact (Hno fst _ E1)|]. split; [exact (Hno snd _ E2)|].
  repeat (split; [reflexivity|]). split; [repeat split|].
  unfold validate_tags in Et. apply andb_prop in Et. destruct Et as [Ev Ecs].
  split; [| split; [exact Ev|]].
  - subst cmr. destruct (tc_family c =? 0).
    + destruct (default_chmap (tc_channels c)) eqn:Ed; [|discriminate]. injection Ecm as <-.
      exact (default_chmap_ok _ _ Ed).
    + destruct (validate_chmap (tc_family c) (tc_streams c) (tc_coupled c) (tc_mapping c)) eqn:Ev2; [|discriminate].
      injection Ecm as <-. exact (validate_chmap_ok _ _ _ _ _ Ev2 Hs Hc).
  - apply Forall_forall. intros cmt Hin. rewrite forallb_forall in Ecs. specialize (Ecs cmt Hin).
    apply andb_prop in Ecs. destruct Ecs as [En Eu]. split; [exact (valid_name_no_eq _ En) | exact Eu].
Qed.

Definition registered (rs : list (result track)) : list track :=
  flat_map (fun r => match r with Ok t => [t] | _ => [] end) rs.

(* ... so the tracks a Writer holds after any sequence of NewTrack calls have
   pairwise distinct serials and are fresh: the premises of c33_stream_multi,
   c33_bos_global and c33_whole_file hold for every writer that can be built *)
Theorem add_tracks_distinct : forall cs,
  NoDup (map tr_serial (registered (add_tracks [] cs))) /\ Forall fresh (registered (add_tracks [] cs)).
Proof.
  assert (Hgen : forall cs used,
            NoDup (map tr_serial (registered (add_tracks used cs))) /\
            Forall fresh (registered (add_tracks used cs)) /\
            forall s, In s (map snd used) -> ~ In s (map tr_serial (registered (add_tracks used cs)))).
  { induction cs as [|c cs IH]; intros used; cbn [add_tracks registered flat_map map].
    - split; [constructor|]. split; [constructor|]. intros s _ [].
    - destruct (new_track_checked used c) as [tr|e|] eqn:E.
      + destruct (IH (used ++ [(tc_ssrc c, tc_serial c)])) as (I1 & I2 & I3).
        fold (registered (add_tracks (used ++ [(tc_ssrc c, tc_serial c)]) cs)) in *.
        unfold new_track_checked in E.
        destruct (existsb (fun u => fst u =? tc_ssrc c) used); [discriminate|].
        destruct (if tc_family c =? 0 then _ else _) as [cm| |]; try discriminate.
        destruct (negb (validate_tags (tc_tags c))); [discriminate|].
        destruct (existsb (fun u => snd u =? tc_serial c) used) eqn:E2; [discriminate|].
        injection E as <-. cbn [app map new_track tr_serial].
        split; [| split].
        * constructor; [| exact I1]. apply I3. rewrite map_app. apply in_or_app. right. left. reflexivity.
        * constructor; [repeat split | exact I2].
        * intros s Hs [Heq | Hin].
          -- subst s. apply in_map_iff in Hs. destruct Hs as (u & Hu & Hin).
             assert (existsb (fun u => snd u =? tc_serial c) used = true).
             { apply existsb_exists. exists u. split; [exact Hin|]. apply N.eqb_eq. exact Hu. }
             congruence.
          -- apply (I3 s); [| exact Hin]. rewrite map_app. apply in_or_app. left. exact Hs.
      + cbn [app]. apply IH.
      + cbn [app]. apply IH. }
  intros cs. destruct (Hgen cs []) as (H1 & H2 & _). split; assumption.
Qed.
