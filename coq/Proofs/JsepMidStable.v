(* C09: mids and kinds of transceivers never change once set (all histories);
   generated descriptions extend the remote description they are generated
   against; fresh mids are above everything the counter has seen. *)
From Coq Require Import List ZArith String Ascii Bool Lia.
Import ListNotations.
From Verif Require Import Common.Base Common.JsepNumeral Model.JsepMid Model.JsepMidSpec
  Proofs.JsepMid Proofs.JsepMidGen Proofs.JsepMidWit.
Open Scope string_scope.
Open Scope list_scope.

(* ---------- "keeps": the later list extends the earlier one, every
   transceiver keeps its kind and, once set, its mid ---------- *)
Definition same_tr (t t' : tr) : Prop :=
  t_kind t' = t_kind t /\ (t_mid t <> "" -> t_mid t' = t_mid t).

Inductive keeps : list tr -> list tr -> Prop :=
| keeps_nil l' : keeps [] l'
| keeps_cons t t' l l' : same_tr t t' -> keeps l l' -> keeps (t :: l) (t' :: l').

Lemma same_tr_refl t : same_tr t t. Proof. split; auto. Qed.
Lemma same_tr_trans a b c : same_tr a b -> same_tr b c -> same_tr a c.
Proof.
  intros [K1 M1] [K2 M2]. split; [congruence|]. intro H. rewrite M2; [auto|]. rewrite (M1 H). exact H.
Qed.

Lemma keeps_refl l : keeps l l.
Proof. induction l; constructor; auto using same_tr_refl. Qed.

Lemma keeps_trans a : forall b c, keeps a b -> keeps b c -> keeps a c.
Proof.
  induction a as [|x a IH]; intros b c H1 H2; [constructor|].
  inversion H1 as [|? y ? b' Hxy Hab]; subst. inversion H2 as [|? z ? c' Hyz Hbc]; subst.
  constructor; [eapply same_tr_trans; eauto|eapply IH; eauto].
Qed.

Lemma keeps_app_r l x : keeps l (l ++ x).
Proof. induction l; cbn; constructor; auto using same_tr_refl. Qed.

Lemma keeps_replace l1 x y l2 : same_tr x y -> keeps (l1 ++ x :: l2) (l1 ++ y :: l2).
Proof. intro H. induction l1; cbn; constructor; auto using same_tr_refl, keeps_refl. Qed.

Definition pr (t : tr) : string * mkind := (t_mid t, t_kind t).

Lemma keeps_of_pr l : forall l', map pr l' = map pr l -> keeps l l'.
Proof.
  induction l as [|t l IH]; intros [|t' l'] H; try discriminate; constructor.
  - cbn in H. injection H as Hm Hk _. split; auto.
  - apply IH. cbn in H. injection H as _ _ H. exact H.
Qed.

Lemma keeps_nth l l' : keeps l l' -> forall i t, nth_error l i = Some t ->
  exists t', nth_error l' i = Some t' /\ same_tr t t'.
Proof.
  induction 1 as [|x y l l' Hxy _ IH]; intros i t Hn; [destruct i; discriminate|].
  destruct i as [|i]; cbn in *.
  - injection Hn as <-. eauto.
  - apply IH. exact Hn.
Qed.

(* ---------- projections preserved by the generation side ---------- *)
Lemma start_senders_pr c l : map pr (fst (start_senders c l)) = map pr l.
Proof.
  induction l as [|t rest IH]; [reflexivity|]. cbn [start_senders].
  destruct (t_sender t && t_neg t && negb (t_sent t)).
  - destruct (c (t_kind t)).
    + destruct (start_senders c rest) as [rest' e]. cbn [fst map] in *. rewrite IH. reflexivity.
    + reflexivity.
  - destruct (start_senders c rest) as [rest' e]. cbn [fst map] in *. rewrite IH. reflexivity.
Qed.

Lemma match_loop_pr secs : forall l acc app,
  map pr (strip (fst (match_loop secs l acc app))) = map pr (strip l).
Proof.
  induction secs as [|r rest IH]; intros l acc app; [reflexivity|].
  cbn [match_loop]. destruct (String.eqb (r_mid r) ""); [reflexivity|].
  destruct (r_kind r); cbn [media_kind]; try apply IH.
  - destruct (r_dir r); [|apply IH].
    destruct (find_upd (by_mid (r_mid r)) set_neg l) as [[t l']|] eqn:F; [|reflexivity].
    rewrite IH. apply find_upd_some in F. destruct F as (l1 & l2 & -> & -> & _).
    rewrite !strip_app, !map_app. reflexivity.
  - destruct (r_dir r); [|apply IH].
    destruct (find_upd (by_mid (r_mid r)) set_neg l) as [[t l']|] eqn:F; [|reflexivity].
    rewrite IH. apply find_upd_some in F. destruct F as (l1 & l2 & -> & -> & _).
    rewrite !strip_app, !map_app. reflexivity.
Qed.

Lemma take_unmatched_pr l : map pr (strip (fst (take_unmatched l))) = map pr (strip l).
Proof.
  induction l as [|[t a] rest IH]; [reflexivity|]. cbn [take_unmatched].
  destruct (take_unmatched rest) as [rest' ms]. cbn [fst] in IH.
  destruct a; cbn [fst]; unfold strip in *; cbn [map fst]; rewrite IH; reflexivity.
Qed.

Lemma gen_matched_pr s d inc : map pr (fst (gen_matched s d inc)) = map pr (trs s).
Proof.
  unfold gen_matched.
  pose proof (match_loop_pr (r_secs d) (fresh_local (trs s)) [] false) as H.
  rewrite strip_fresh in H.
  destruct (match_loop (r_secs d) (fresh_local (trs s)) [] false) as [l [[acc app]|e|]]; cbn [fst] in *; try exact H.
  destruct inc; [|exact H].
  pose proof (take_unmatched_pr l) as H2.
  destruct (take_unmatched l) as [l' um]. cbn [fst] in *. rewrite H2. exact H.
Qed.

Lemma offer_sections_pr s1 : map pr (fst (offer_sections s1)) = map pr (trs s1).
Proof.
  unfold offer_sections. destruct (offer_remote s1) as [d|].
  - apply gen_matched_pr.
  - unfold gen_unmatched. cbn [fst]. rewrite map_map. apply map_ext. intro; reflexivity.
Qed.

(* ---------- each operation keeps ---------- *)
Lemma adjust_dir_kind_s d t : t_kind (adjust_dir d t) = t_kind t.
Proof. unfold adjust_dir. destruct d, (t_dir t); reflexivity. Qed.
Lemma on_found_kind_s d t : t_kind (on_found d t) = t_kind t.
Proof. unfold on_found. rewrite adjust_dir_kind_s. destruct d; reflexivity. Qed.
Lemma on_answered_pr w od t : pr (on_answered w od t) = pr t.
Proof. destruct od; reflexivity. Qed.
Lemma attach_track_pr t : pr (attach_track t) = pr t. Proof. reflexivity. Qed.
Lemma detach_track_pr t : pr (detach_track t) = pr t.
Proof. unfold detach_track. destruct (t_dir t); reflexivity. Qed.

Lemma cur_dirs_loop_pr w secs : forall l,
  map pr (strip (cur_dirs_loop w secs l)) = map pr (strip l).
Proof.
  induction secs as [|[[k m] od] rest IH]; intro l; [reflexivity|].
  cbn [cur_dirs_loop]. destruct (String.eqb m ""); [reflexivity|].
  assert (Hf : map pr (strip match find_upd (by_mid m) (on_answered w od) l with
                             | Some (_, l') => cur_dirs_loop w rest l'
                             | None => l
                             end) = map pr (strip l)).
  { destruct (find_upd (by_mid m) (on_answered w od) l) as [[t l']|] eqn:F; [|reflexivity].
    rewrite IH. apply find_upd_some in F. destruct F as (l1 & l2 & -> & -> & _).
    rewrite !strip_app, !map_app. cbn [strip map fst]. rewrite on_answered_pr. reflexivity. }
  destruct k; try exact Hf. apply IH.
Qed.

Lemma set_cur_dirs_pr w secs l : map pr (set_cur_dirs w secs l) = map pr l.
Proof. unfold set_cur_dirs. rewrite cur_dirs_loop_pr, strip_fresh. reflexivity. Qed.

Lemma reuse_for_track_pr k l l' : reuse_for_track k l = Some l' -> map pr l' = map pr l.
Proof.
  revert l'. induction l as [|t rest IH]; intros l' H; [discriminate|]. cbn [reuse_for_track] in H.
  destruct (send_allowed k t).
  - injection H as <-. reflexivity.
  - destruct (reuse_for_track k rest) as [r|]; [|discriminate]. injection H as <-.
    cbn [map]. rewrite (IH _ eq_refl). reflexivity.
Qed.

Lemma alloc_mids_keeps l : forall g, keeps l (snd (alloc_mids g l)).
Proof.
  induction l as [|t rest IH]; intro g; [constructor|]. cbn [alloc_mids].
  destruct (mid_unset t) eqn:U.
  - destruct (alloc_mids (wrap_int (g + 1)) rest) as [g2 rest'] eqn:E. cbn [snd]. constructor.
    + split; [reflexivity|]. intro H. unfold mid_unset in U. apply String.eqb_eq in U. contradiction.
    + specialize (IH (wrap_int (g + 1))). rewrite E in IH. exact IH.
  - destruct (alloc_mids g rest) as [g2 rest'] eqn:E. cbn [snd]. constructor.
    + apply same_tr_refl.
    + specialize (IH g). rewrite E in IH. exact IH.
Qed.

Lemma srd_loop_keeps secs : forall l, keeps (strip l) (strip (fst (srd_loop secs l))).
Proof.
  induction secs as [|r rest IH]; intro l; [apply keeps_refl|].
  cbn [srd_loop]. destruct (String.eqb (r_mid r) ""); [apply keeps_refl|].
  assert (Hmedia : forall mk d,
    keeps (strip l) (strip (fst
      match find_upd (by_mid (r_mid r)) (on_found d) l with
      | Some (_, l') => srd_loop rest l'
      | None => match satisfy mk (preferred d) (on_satisfied d (r_mid r)) l with
                | Some (_, l') => srd_loop rest l'
                | None => srd_loop rest (l ++ [(new_remote_tr mk d (r_mid r), false)])
                end
      end))).
  { intros mk d.
    destruct (find_upd (by_mid (r_mid r)) (on_found d) l) as [[x l0]|] eqn:F.
    - apply find_upd_some in F. destruct F as (l1 & l2 & -> & -> & _).
      eapply keeps_trans; [|apply IH]. rewrite !strip_app. cbn [strip map fst].
      apply keeps_replace. split; [apply on_found_kind_s|intros _; apply on_found_mid].
    - destruct (satisfy mk (preferred d) (on_satisfied d (r_mid r)) l) as [[x l0]|] eqn:S.
      + apply satisfy_some in S. destruct S as (pd & S).
        apply find_upd_some in S. destruct S as (l1 & l2 & -> & -> & Hp & _).
        apply sat_pred_unset in Hp.
        eapply keeps_trans; [|apply IH]. rewrite !strip_app. cbn [strip map fst].
        apply keeps_replace. split; [cbn; rewrite adjust_dir_kind_s; reflexivity|intro H; contradiction].
      + eapply keeps_trans; [|apply IH]. rewrite strip_app. apply keeps_app_r. }
  destruct (r_kind r); cbn [media_kind]; try apply IH.
  - destruct (r_dir r) as [d|]; [apply Hmedia|apply IH].
  - destruct (r_dir r) as [d|]; [apply Hmedia|apply IH].
Qed.

Lemma upd_nth_keeps (f : tr -> tr) (Hf : forall t, same_tr t (f t)) i : forall l l',
  upd_nth i f l = Some l' -> keeps l l'.
Proof.
  induction i as [|i IH]; intros [|x rest] l' H; try discriminate; cbn [upd_nth] in H.
  - injection H as <-. constructor; [apply Hf|apply keeps_refl].
  - destruct (upd_nth i f rest) as [r|] eqn:E; [|discriminate]. injection H as <-.
    constructor; [apply same_tr_refl|apply IH; exact E].
Qed.

Lemma offer_alloc_keeps s : keeps (trs s) (trs (offer_alloc s)).
Proof. rewrite offer_alloc_trs. apply alloc_mids_keeps. Qed.

Lemma create_offer_keeps s : keeps (trs s) (trs (fst (create_offer s))).
Proof.
  eapply keeps_trans; [apply offer_alloc_keeps|]. apply keeps_of_pr.
  unfold create_offer. pose proof (offer_sections_pr (offer_alloc s)) as H.
  destruct (offer_sections (offer_alloc s)) as [l [[[base add] g]|e|]]; cbn [fst] in *; try exact H.
  destruct (populate _ g (with_data add base)) as [p|e|]; cbn [fst trs set_trs]; try exact H.
  destruct (local_changed l (mk_ldesc p)); exact H.
Qed.

Lemma create_answer_keeps s : keeps (trs s) (trs (fst (create_answer s))).
Proof.
  apply keeps_of_pr. unfold create_answer. destruct (remote_desc s) as [d|]; [|reflexivity].
  pose proof (gen_matched_pr s d false) as H.
  destruct (sig s); try reflexivity;
    (destruct (gen_matched s d false) as [l [[[secs add] g]|e|]]; cbn [fst] in *; try exact H;
     destruct (populate _ g secs) as [p|e|]; exact H).
Qed.

Lemma finish_senders_keeps s : keeps (trs s) (trs (fst (finish_senders s))).
Proof.
  apply keeps_of_pr. unfold finish_senders. pose proof (start_senders_pr (has_codecs s) (trs s)) as H.
  destruct (start_senders (has_codecs s) (trs s)) as [l e]. exact H.
Qed.

Lemma set_local_keeps s ty : keeps (trs s) (trs (fst (set_local s ty))).
Proof.
  unfold set_local. destruct (local_next (sig s) ty) as [g|]; [|apply keeps_refl].
  destruct ty; try apply keeps_refl.
  set (s1 := set_sig_remote s g (pend_remote s) None).
  destruct (remote_desc s1); [|apply keeps_refl].
  set (s2 := set_trs s1 _).
  eapply keeps_trans; [|apply finish_senders_keeps].
  apply keeps_of_pr. unfold s2. cbn [trs set_trs]. apply set_cur_dirs_pr.
Qed.

Lemma set_remote_keeps s ty d : keeps (trs s) (trs (fst (set_remote s ty d))).
Proof.
  unfold set_remote. destruct (remote_next (sig s) ty) as [g|]; [|apply keeps_refl].
  assert (Hloop :
    let s1 := set_sig_remote s g (cur_remote s) (Some d) in
    let s2 := set_engine s1 (engine_update (r_secs d) (neg_audio s1) (neg_video s1)) in
    keeps (trs s) (trs (fst (let '(l, e) := srd_loop (r_secs d) (fresh_local (trs s2)) in
              (set_trs s2 (strip l), match e with Some c => Err c | None => Ok tt end))))).
  { intros s1 s2.
    pose proof (srd_loop_keeps (r_secs d) (fresh_local (trs s2))) as H.
    destruct (srd_loop (r_secs d) (fresh_local (trs s2))) as [l e]. cbn [fst] in *.
    rewrite strip_fresh in H. exact H. }
  destruct ty; try exact Hloop.
  set (s1 := set_sig_remote s g (Some d) None).
  set (s2 := set_engine s1 (engine_update (r_secs d) (neg_audio s1) (neg_video s1))).
  set (s3 := set_trs s2 _).
  eapply keeps_trans; [|apply finish_senders_keeps].
  apply keeps_of_pr. unfold s3. cbn [trs set_trs]. apply set_cur_dirs_pr.
Qed.

Lemma step_keeps s o : keeps (trs s) (trs (fst (step s o))).
Proof.
  destruct o; cbn [step].
  - unfold add_transceiver. destruct d; try destruct (has_codecs s k); cbn [fst trs set_trs];
      try apply keeps_refl; apply keeps_app_r.
  - unfold add_track. destruct (reuse_for_track k (trs s)) as [l|] eqn:E; cbn [fst trs set_trs].
    + apply keeps_of_pr. eapply reuse_for_track_pr. exact E.
    + apply keeps_app_r.
  - unfold remove_track. destruct (nth_error (trs s) i) as [t|]; [|apply keeps_refl].
    destruct (t_sender t); [|apply keeps_refl]. cbn [fst trs set_trs].
    destruct (upd_nth i detach_track (trs s)) as [l|] eqn:E; [|apply keeps_refl].
    eapply upd_nth_keeps; [|exact E]. intro t0. unfold same_tr.
    pose proof (detach_track_pr t0) as Hp. unfold pr in Hp. injection Hp as Hm Hk. split; auto.
  - unfold stop_transceiver. destruct (upd_nth i stop_tr (trs s)) as [l|] eqn:E; cbn [fst]; [|apply keeps_refl].
    cbn [trs set_trs]. eapply upd_nth_keeps; [|exact E]. intro t. split; reflexivity.
  - cbn. apply keeps_refl.
  - destruct (create_offer s) as [s' r] eqn:E. cbn [fst].
    pose proof (create_offer_keeps s) as H. rewrite E in H. exact H.
  - destruct (create_answer s) as [s' r] eqn:E. cbn [fst].
    pose proof (create_answer_keeps s) as H. rewrite E in H. exact H.
  - destruct (set_local s ty) as [s' r] eqn:E. cbn [fst].
    pose proof (set_local_keeps s ty) as H. rewrite E in H. exact H.
  - destruct (set_remote s ty d) as [s' r] eqn:E. cbn [fst].
    pose proof (set_remote_keeps s ty d) as H. rewrite E in H. exact H.
Qed.

Lemma run_from_keeps ops : forall s, keeps (trs s) (trs (run_from s ops)).
Proof.
  induction ops as [|o rest IH]; intro s; [apply keeps_refl|].
  unfold run_from. cbn [fold_left]. fold (run_from (fst (step s o)) rest).
  eapply keeps_trans; [apply step_keeps|apply IH].
Qed.

Lemma run_from_app s a b : run_from s (a ++ b) = run_from (run_from s a) b.
Proof. unfold run_from. apply fold_left_app. Qed.

(* C09, first sentence: once a transceiver has a mid it never changes (nor does
   its kind or its place in the transceiver list), in every history *)
Lemma mid_immutable_lemma ops1 ops2 i t :
  nth_error (trs (run ops1)) i = Some t ->
  exists t', nth_error (trs (run (ops1 ++ ops2))) i = Some t' /\
             t_kind t' = t_kind t /\ (t_mid t <> "" -> t_mid t' = t_mid t).
Proof.
  intro H. unfold run in *. rewrite run_from_app.
  destruct (keeps_nth _ _ (run_from_keeps ops2 (run_from init ops1)) i t H) as (t' & Hn & Hs).
  exists t'. split; [exact Hn|exact Hs].
Qed.

Lemma append_only_lemma ops1 ops2 : keeps (trs (run ops1)) (trs (run (ops1 ++ ops2))).
Proof. unfold run. rewrite run_from_app. apply run_from_keeps. Qed.

(* ---------- generated descriptions extend the remote description ---------- *)
Lemma match_loop_usable_ids secs : forall l acc app l' acc' app',
  (forall r, In r secs -> usable r = true) ->
  match_loop secs l acc app = (l', Ok (acc', app')) ->
  ids acc' = ids acc ++ map r_mid secs.
Proof.
  induction secs as [|r rest IH]; intros l acc app l' acc' app' Hus H.
  - injection H as _ <- _. cbn. rewrite app_nil_r. reflexivity.
  - cbn [match_loop] in H. destruct (String.eqb (r_mid r) ""); [discriminate|].
    pose proof (Hus r (or_introl eq_refl)) as Hu. unfold usable in Hu.
    assert (Hus' : forall r0, In r0 rest -> usable r0 = true) by (intros r0 Hr0; apply Hus; right; exact Hr0).
    assert (Hpush : forall m l0 app0, msec_id m = r_mid r ->
              match_loop rest l0 (acc ++ [m]) app0 = (l', Ok (acc', app')) ->
              ids acc' = ids acc ++ map r_mid (r :: rest)).
    { intros m l0 app0 Em H'. rewrite (IH _ _ _ _ _ _ Hus' H'), ids_app. cbn [ids map]. rewrite Em, <- app_assoc. reflexivity. }
    destruct (r_kind r); cbn [media_kind] in H.
    + destruct (r_dir r); [|discriminate].
      destruct (find_upd (by_mid (r_mid r)) set_neg l) as [[t l0]|]; [|discriminate].
      eapply Hpush; [|exact H]. reflexivity.
    + destruct (r_dir r); [|discriminate].
      destruct (find_upd (by_mid (r_mid r)) set_neg l) as [[t l0]|]; [|discriminate].
      eapply Hpush; [|exact H]. reflexivity.
    + eapply Hpush; [|exact H]. reflexivity.
    + discriminate.
Qed.

Lemma sec_mids_populate c g secs p :
  (forall k, c k = true) -> populate c g secs = Ok p -> sec_mids (mk_ldesc p) = map Some (ids secs).
Proof.
  intros Hc H. destruct (populate_all_codecs _ _ _ _ Hc H) as [E1 _].
  unfold sec_mids, mk_ldesc. cbn [l_secs]. rewrite E1, map_map. unfold ids. rewrite map_map. reflexivity.
Qed.

(* an offer generated against a remote description all of whose sections are
   usable starts with that description's mids, in order: positions are kept and
   everything else is appended *)
Lemma offer_extends_remote_lemma s s' d rd :
  create_offer s = (s', Ok d) -> offer_remote (offer_alloc s) = Some rd ->
  (forall r, In r (r_secs rd) -> usable r = true) -> codecs_ok s ->
  exists extra, sec_mids d = map Some (map r_mid (r_secs rd)) ++ extra.
Proof.
  intros H R Hus Hcod. unfold create_offer in H. set (s1 := offer_alloc s) in *.
  destruct (offer_sections s1) as [l [[[base add] g]|e|]] eqn:E; try discriminate.
  destruct (populate (has_codecs (set_trs s1 l)) g (with_data add base)) as [p|e|] eqn:P; try discriminate.
  destruct (local_changed l (mk_ldesc p)); [discriminate|]. injection H as _ <-.
  rewrite (sec_mids_populate _ _ _ _ (fun k => eq_trans (has_codecs_offer_alloc s k) (Hcod k)) P).
  unfold offer_sections in E. rewrite R in E. unfold gen_matched in E.
  destruct (match_loop (r_secs rd) (fresh_local (trs s1)) [] false) as [l0 [[acc app]|e|]] eqn:M; try discriminate.
  destruct (take_unmatched l0) as [l1 um]. injection E as _ <- <- _.
  pose proof (match_loop_usable_ids _ _ _ _ _ _ _ Hus M) as Hids. cbn [ids map List.app] in Hids.
  exists (map Some (ids um ++ ids (if dc s1 && negb app then [MData (data_mid (acc ++ um))] else []))).
  rewrite <- map_app. f_equal.
  unfold with_data. destruct (dc s1 && negb app).
  - rewrite !ids_app, Hids, <- app_assoc. reflexivity.
  - rewrite ids_app, Hids. cbn. rewrite app_nil_r. reflexivity.
Qed.

(* an answer lists exactly the mids of the offer it answers when all offered
   sections are usable *)
Lemma answer_same_positions_lemma s s' d rd :
  create_answer s = (s', Ok d) -> remote_desc s = Some rd ->
  (forall r, In r (r_secs rd) -> usable r = true) -> codecs_ok s ->
  sec_mids d = map Some (map r_mid (r_secs rd)).
Proof.
  intros H R Hus Hcod. unfold create_answer in H. rewrite R in H.
  destruct (sig s); try discriminate;
    (destruct (gen_matched s rd false) as [l [[[secs add] g]|e|]] eqn:E; try discriminate;
     destruct (populate (has_codecs (set_trs s l)) g secs) as [p|e|] eqn:P; try discriminate;
     injection H as _ <-; rewrite (sec_mids_populate _ _ _ _ Hcod P); f_equal;
     unfold gen_matched in E;
     destruct (match_loop (r_secs rd) (fresh_local (trs s)) [] false) as [l0 [[acc app]|e|]] eqn:M; try discriminate;
     injection E as _ <- _ _; exact (match_loop_usable_ids _ _ _ _ _ _ _ Hus M)).
Qed.

(* ---------- a whole round: offers after an exchange extend its descriptions ---------- *)
Definition is_local (o : op) : Prop :=
  match o with
  | AddTransceiver _ _ | AddTrack _ | RemoveTrack _ | StopTransceiver _ | CreateDataChannel | CreateOffer => True
  | _ => False
  end.

Lemma step_local_remote s o :
  is_local o ->
  cur_remote (fst (step s o)) = cur_remote s /\ pend_remote (fst (step s o)) = pend_remote s.
Proof.
  destruct o; cbn [is_local step]; intro H; try contradiction.
  - unfold add_transceiver. destruct d; try destruct (has_codecs s k); split; reflexivity.
  - unfold add_track. destruct (reuse_for_track k (trs s)); split; reflexivity.
  - unfold remove_track. destruct (nth_error (trs s) i) as [t|]; [|split; reflexivity].
    destruct (t_sender t); split; reflexivity.
  - unfold stop_transceiver. destruct (upd_nth i stop_tr (trs s)); split; reflexivity.
  - split; reflexivity.
  - destruct (create_offer s) as [s' r] eqn:E. cbn [fst].
    pose proof (create_offer_remote s) as H2. rewrite E in H2. exact H2.
Qed.

Lemma run_local_remote ops : forall s,
  Forall is_local ops ->
  cur_remote (run_from s ops) = cur_remote s /\ pend_remote (run_from s ops) = pend_remote s.
Proof.
  induction ops as [|o rest IH]; intros s H; [split; reflexivity|].
  inversion H as [|? ? Ho Hrest]; subst.
  unfold run_from. cbn [fold_left]. fold (run_from (fst (step s o)) rest).
  destruct (IH (fst (step s o)) Hrest) as [A B]. destruct (step_local_remote s o Ho) as [C D].
  split; congruence.
Qed.

(* after an exchange that ended with the remote description ra (an answer that
   mirrors our offer d1, or the offer our answer d1 mirrored), every offer created
   later, after any local additions, stops, data channels and earlier CreateOffer
   calls, starts with the sections of d1 at their places *)
Lemma round_extends_lemma s d1 ra ops s2 d2 :
  cur_remote s = Some ra -> pend_remote s = None ->
  map Some (map r_mid (r_secs ra)) = sec_mids d1 ->
  (forall r, In r (r_secs ra) -> usable r = true) ->
  Forall is_local ops -> codecs_ok (run_from s ops) ->
  create_offer (run_from s ops) = (s2, Ok d2) ->
  exists extra, sec_mids d2 = sec_mids d1 ++ extra.
Proof.
  intros Hc Hp Hm Hus Hl Hcod H. destruct (run_local_remote ops s Hl) as [A B].
  rewrite <- Hm. eapply offer_extends_remote_lemma; eauto.
  unfold offer_remote.
  assert (E : cur_remote (offer_alloc (run_from s ops)) = cur_remote (run_from s ops) /\
              pend_remote (offer_alloc (run_from s ops)) = pend_remote (run_from s ops)).
  { unfold offer_alloc. destruct (alloc_mids _ (trs (run_from s ops))). split; reflexivity. }
  destruct E as [E1 E2]. rewrite E1, E2, A, B, Hc, Hp. reflexivity.
Qed.

(* ---------- fresh mids ---------- *)
Lemma alloc_mids_fresh l : forall g m i t t',
  alloc_nowrap g l = true ->
  (forall n, atoi m = Some n -> (n <= g)%Z) ->
  nth_error l i = Some t -> t_mid t = "" ->
  nth_error (snd (alloc_mids g l)) i = Some t' -> t_mid t' <> m.
Proof.
  induction l as [|x rest IH]; intros g m i t t' Hnw Hm Hn Hunset Hn'; [destruct i; discriminate|].
  cbn [alloc_mids alloc_nowrap] in *. destruct (mid_unset x) eqn:U.
  - apply andb_true_iff in Hnw. destruct Hnw as [Hr Hnw]. rewrite (wrap_int_id _ Hr) in Hn'.
    destruct (alloc_mids (g + 1) rest) as [g2 rest'] eqn:E. cbn [snd] in Hn'.
    destruct i as [|i]; cbn in Hn, Hn'.
    + injection Hn' as <-. cbn [with_mid t_mid]. intro Ec. symmetry in Ec. revert Ec.
      apply itoa_fresh; assumption.
    + apply (IH (g + 1)%Z m i t t'); auto.
      * intros n Hn0. specialize (Hm n Hn0). lia.
      * rewrite E. exact Hn'.
  - destruct (alloc_mids g rest) as [g2 rest'] eqn:E. cbn [snd] in Hn'.
    destruct i as [|i]; cbn in Hn, Hn'.
    + injection Hn as <-. unfold mid_unset in U. rewrite Hunset in U. discriminate.
    + apply (IH g m i t t'); auto. rewrite E. exact Hn'.
Qed.

(* a mid CreateOffer hands out differs from every mid of the current and of the
   pending remote description, as long as greaterMid does not overflow *)
Lemma fresh_mid_not_in_remote_lemma s i t t' r :
  offer_nowrap s = true ->
  nth_error (trs s) i = Some t -> t_mid t = "" ->
  nth_error (trs (offer_alloc s)) i = Some t' ->
  In r (remote_secs (cur_remote s)) \/ In r (remote_secs (pend_remote s)) -> t_mid t' <> r_mid r.
Proof.
  intros Hnw Hn Hunset Hn' Hr. rewrite offer_alloc_trs in Hn'.
  eapply alloc_mids_fresh; eauto.
  intros n Hnum. destruct Hr as [Hr|Hr].
  - destruct (cur_remote s) as [d|] eqn:C; [|destruct Hr]. eapply offer_start_covers_cur; eauto.
  - destruct (pend_remote s) as [d|] eqn:C; [|destruct Hr]. eapply offer_start_covers_pend; eauto.
Qed.

(* ... and from the mid of every transceiver, wherever it stands in the list *)
Lemma fresh_mid_not_a_transceiver_mid_lemma s i t t' u :
  offer_nowrap s = true ->
  nth_error (trs s) i = Some t -> t_mid t = "" ->
  nth_error (trs (offer_alloc s)) i = Some t' ->
  In u (trs s) -> t_mid t' <> t_mid u.
Proof.
  intros Hnw Hn Hunset Hn' Hu. rewrite offer_alloc_trs in Hn'.
  eapply alloc_mids_fresh; eauto.
  intros n Hnum. eapply offer_start_covers_trs; eauto.
Qed.

Lemma fresh_mid_not_in_use_lemma s i t t' :
  offer_nowrap s = true ->
  nth_error (trs s) i = Some t -> t_mid t = "" ->
  nth_error (trs (offer_alloc s)) i = Some t' ->
  (forall r, In r (remote_secs (cur_remote s)) \/ In r (remote_secs (pend_remote s)) -> t_mid t' <> r_mid r) /\
  (forall u, In u (trs s) -> t_mid t' <> t_mid u).
Proof.
  intros Hw Hn Hu Hn'. split.
  - intros r Hr. exact (fresh_mid_not_in_remote_lemma s i t t' r Hw Hn Hu Hn' Hr).
  - intros u Hin. exact (fresh_mid_not_a_transceiver_mid_lemma s i t t' u Hw Hn Hu Hn' Hin).
Qed.

(* ---------- witnesses ---------- *)

Definition gen_kind_mids (ops : list op) : list (list (kind * option string)) :=
  map (fun d => map kind_mid_l (l_secs d)) (generated ops).

(* the data section appended by the second description takes mid "1", the mid
   of the audio section of the remote offer applied before *)
Lemma wit_c09_data_mid :
  gen_kind_mids wit_data_mid =
    [[(KAudio, Some "1")]; [(KAudio, Some "1"); (KApplication, Some "1")]].
Proof. vm_compute. reflexivity. Qed.

(* offer audio/0 text/1 video/2: the answer is [0; 2], mid "2" moves from index 2 to 1 *)
Definition wit_position : list op :=
  [SetRemote TOffer (rd [rs KAudio "0" (Some Sendrecv); rs KOther "1" (Some Sendrecv); rs KVideo "2" (Some Sendrecv)] "BUNDLE 0 1 2");
   CreateAnswer].
Lemma wit_c09_position :
  gen_kind_mids wit_position = [[(KAudio, Some "0"); (KVideo, Some "2")]].
Proof. vm_compute. reflexivity. Qed.

(* offer [data "0"] applied; AddTransceiver; CreateOffer again before the answer:
   the new transceiver gets "0" and the data section becomes "1" *)
Definition wit_local_data : list op :=
  [CreateDataChannel; CreateOffer; SetLocal TOffer; AddTransceiver MAudio Sendrecv; CreateOffer].
Lemma wit_c09_local_data :
  gen_kind_mids wit_local_data =
    [[(KApplication, Some "0")]; [(KAudio, Some "0"); (KApplication, Some "1")]].
Proof. vm_compute. reflexivity. Qed.

(* remote offer [audio 40, message 41] pending; AddTransceiver; CreateOffer: before
   the repair of the numbering loop the fresh mid was "41"; now it is "42" *)
Definition was_pending : list op :=
  [SetRemote TOffer (rd [rs KAudio "40" (Some Sendrecv); rs KOther "41" (Some Sendonly)] "BUNDLE 40 41");
   AddTransceiver MVideo Recvonly; CreateOffer].
Lemma was_pending_now :
  gen_kind_mids was_pending = [[(KAudio, Some "40"); (KVideo, Some "42")]].
Proof. vm_compute. reflexivity. Qed.

(* greaterMid wraps: two transceivers end up with the mid MinInt64 *)
Lemma wit_c09_overflow : ~ NoDup (set_mids (trs (run wit_overflow))).
Proof. intro H. apply nodupb_sound in H. vm_compute in H. discriminate. Qed.

(* premises of the extension lemma on a concrete renegotiation *)
Definition st_reneg : st :=
  run [AddTransceiver MAudio Sendrecv; AddTransceiver MVideo Recvonly; CreateDataChannel;
       CreateOffer; SetLocal TOffer;
       SetRemote TAnswer (rd [rs KAudio "0" (Some Sendrecv); rs KVideo "1" (Some Sendonly); rs KApplication "2" None] "BUNDLE 0 1 2");
       SetRemote TOffer (rd [rs KAudio "0" (Some Sendrecv); rs KVideo "1" (Some Sendonly); rs KApplication "2" None;
                             rs KVideo "cam2" (Some Sendonly)] "BUNDLE 0 1 2 cam2");
       CreateAnswer; SetLocal TAnswer; AddTransceiver MAudio Sendonly].
Lemma ex_c09_extension :
  exists d rd, snd (create_offer st_reneg) = Ok d /\ offer_remote (offer_alloc st_reneg) = Some rd /\
    (forall r, In r (r_secs rd) -> usable r = true) /\ codecs_ok st_reneg /\ offer_nowrap st_reneg = true /\
    sec_mids d = [Some "0"; Some "1"; Some "2"; Some "cam2"; Some "3"].
Proof.
  eexists. eexists. split; [vm_compute; reflexivity|]. split; [vm_compute; reflexivity|].
  split; [intros r [<-|[<-|[<-|[<-|[]]]]]; reflexivity|].
  split; [intros []; vm_compute; reflexivity|]. split; vm_compute; reflexivity.
Qed.
