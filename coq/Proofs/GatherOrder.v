(* C24 proofs, part 3: per gathering cycle nothing is reported after the
   cycle's end marker (every schedule, any number of flushes and restarts;
   code after the flushing repair) *)
From Coq Require Import List Arith Bool Lia.
Import ListNotations.
From Verif Require Import Model.Gather Proofs.Gather Proofs.GatherTok.

(* ---------- the agent's queue: a cycle's nil comes after its candidates ---------- *)
Definition okq (k : nat) (l : list (nat * option cand)) : Prop :=
  forall l1 l2, l = l1 ++ (k, None) :: l2 -> forall c, ~ In (k, Some c) l2.

Lemma okq_tail : forall k e t, okq k (e :: t) -> okq k t.
Proof. intros k e t H l1 l2 E. apply (H (e :: l1) l2). rewrite E. reflexivity. Qed.

Lemma okq_head : forall k t c, okq k ((k, None) :: t) -> ~ In (k, Some c) t.
Proof. intros k t c H. apply (H [] t eq_refl). Qed.

Lemma future_tags : forall n l j x, In (j, x) (future_items n l) -> n <= j.
Proof.
  intros n l. revert n. induction l as [|[cs fin] r IH]; intros n j x H; [destruct H|].
  cbn [future_items] in H. apply in_app_or in H. destruct H as [H|H].
  - unfold cycle_items in H. cbn [fst snd] in H. apply in_app_or in H. destruct H as [H|H].
    + destruct (proj1 (in_map_iff _ _ _) H) as (y & E & _). inversion E; subst; lia.
    + destruct fin; [|destruct H]. destruct H as [E|[]]. inversion E; subst; lia.
  - specialize (IH (S n) j x H). lia.
Qed.

Lemma cycle_nil_last : forall (n : nat) (cs : list cand) (fin : bool) (k : nat) l1 m,
  map (fun x : cand => (n, Some x)) cs ++ (if fin then [(n, @None cand)] else []) = l1 ++ (k, None) :: m ->
  m = [].
Proof.
  intros n cs fin k. induction cs as [|x xs IH]; intros l1 m E.
  - cbn in E. destruct fin.
    + destruct l1 as [|y l1']; cbn in E.
      * injection E as _ E. symmetry. exact E.
      * injection E as _ E. destruct l1'; discriminate.
    + destruct l1; discriminate.
  - cbn [map app] in E. destruct l1 as [|y l1']; cbn [app] in E.
    + discriminate.
    + injection E as _ E. eapply IH. exact E.
Qed.

Lemma okq_future : forall k l n, okq k (future_items n l).
Proof.
  intros k l. induction l as [|[cs fin] r IH]; intros n l1 l2 E c Hin.
  - destruct l1; discriminate.
  - cbn [future_items] in E. apply app_eq_app in E. destruct E as (m & [[E1 E2]|[E1 E2]]).
    + destruct m as [|e m'].
      * cbn in E2. apply (IH (S n) [] l2 (eq_sym E2) c Hin).
      * cbn [app] in E2. injection E2 as <- E2. subst l2.
        unfold cycle_items in E1. cbn [fst snd] in E1.
        pose proof (cycle_nil_last _ _ _ _ _ _ E1) as Hm. subst m'. cbn [app] in Hin.
        assert (In (k, None) (cycle_items n (cs, fin))) as Hk.
        { unfold cycle_items. cbn [fst snd]. rewrite E1. apply in_or_app. right. left. reflexivity. }
        assert (n = k) as ->.
        { unfold cycle_items in Hk. cbn [fst snd] in Hk. apply in_app_or in Hk. destruct Hk as [Hk|Hk].
          - destruct (proj1 (in_map_iff _ _ _) Hk) as (y & Ey & _). discriminate.
          - destruct fin; [|destruct Hk]. destruct Hk as [Ey|[]]. injection Ey as ->. reflexivity. }
        apply future_tags in Hin. lia.
    + apply (IH (S n) m l2 E2 c Hin).
Qed.

(* ---------- pending candidates of cycle k ---------- *)
Definition nok (k : nat) (l : list (nat * cand)) : Prop := forall x, In x l -> fst x <> k.

Lemma in_flushc : forall x l, In x (flushc l) <-> exists f, In f l /\ In x (fcontrib f).
Proof. intros. unfold flushc. apply in_flat_map. Qed.

Lemma femits_zero_flushc : forall l, femits l = 0 -> flushc l = [].
Proof.
  induction l as [|f t IH]; intros H; [reflexivity|].
  cbn in H. unfold flushc. cbn [flat_map]. fold (flushc t).
  destruct f; cbn in *; try lia; apply IH; lia.
Qed.

(* tokens of cycle k that have left the queue / that are about to be or have been reported *)
Definition dtok (k : nat) (s : st) : nat :=
  atok k s + ptok k s + ftoks k (fl s) + nils_of k (out s).
Definition etok (k : nat) (s : st) : nat :=
  match a_ph s with ANilEmit j => if Nat.eqb j k then 1 else 0 | _ => 0 end.
Definition ctok (k : nat) (s : st) : nat :=
  etok k s + ftoks k (fl s) + nils_of k (out s).

(* ---------- lists of what the application saw ---------- *)
Lemma view_app : forall k a b, view k (a ++ b) = view k a ++ view k b.
Proof. intros. unfold view. rewrite filter_app, map_app. reflexivity. Qed.

Lemma view_one : forall k j x, view k [(j, x)] = if Nat.eqb j k then [x] else [].
Proof. intros. unfold view. cbn. destruct (Nat.eqb j k); reflexivity. Qed.

Lemma nil_count_view : forall k o, nil_count (view k o) = nils_of k o.
Proof.
  intros k o. induction o as [|[j x] t IH]; [reflexivity|].
  rewrite nils_of_cons. change ((j, x) :: t) with ([(j, x)] ++ t). rewrite view_app, view_one.
  unfold nil_count in *. rewrite filter_app, app_length, IH. f_equal.
  unfold nils_of. cbn. destruct (Nat.eqb j k); cbn; [destruct x|]; reflexivity.
Qed.

Lemma nil_last_app_nonil : forall o x, nil_count o = 0 -> nil_last (o ++ x) = nil_last x.
Proof.
  induction o as [|e t IH]; intros x H; [reflexivity|].
  destruct e as [c|]; [|discriminate]. cbn. apply IH. exact H.
Qed.

Lemma nil_last_snoc : forall o e, nil_last o = true -> nil_count o = 0 -> nil_last (o ++ [e]) = true.
Proof. intros o e _ H. rewrite nil_last_app_nonil by exact H. destruct e; reflexivity. Qed.

(* ---------- the invariant ---------- *)
Record invR (k : nat) (s : st) : Prop := {
  r_q : okq k (pendingq s);
  r_d : 0 < dtok k s -> forall c, ~ In (k, Some c) (pendingq s);
  r_h : 0 < dtok k s -> nok k (inhand s);
  r_c : 0 < ctok k s -> nok k (poolc s) /\ nok k (flushc (fl s));
  r_l : nil_last (view k (out s)) = true
}.

Lemma invR_init : forall k p first more n, invR k (init p first more n).
Proof.
  intros. constructor.
  - unfold pendingq. cbn. apply (okq_future k (first :: more) 0).
  - unfold dtok, atok, ptok. cbn. rewrite ftoks_repeat, nils_of_nil. lia.
  - unfold dtok, atok, ptok. cbn. rewrite ftoks_repeat, nils_of_nil. lia.
  - unfold ctok, etok. cbn. rewrite ftoks_repeat, nils_of_nil. lia.
  - reflexivity.
Qed.

Ltac rfields :=
  unfold dtok, ctok, etok, atok, ptok, inhand, poolc, pendingq;
  cbn [out a_ph pool psize nilp flushing fl a_queue ncyc cycles gstate upd].

Lemma nok_nil : forall k, nok k [].
Proof. intros k x []. Qed.

Lemma eqb_tok : forall j k, (if Nat.eqb j k then 1 else 0) <= 1.
Proof. intros. destruct (Nat.eqb j k); lia. Qed.

Lemma invR_agent : forall all k s s',
  inv2 all s -> ntok k s <= 1 -> invR k s -> agent_step true s = Some s' -> invR k s'.
Proof.
  intros all k s s' [I N] Hn R H. unfold agent_step in H.
  pose proof (r_q _ _ R) as Rq. pose proof (r_d _ _ R) as Rd. pose proof (r_h _ _ R) as Rh.
  pose proof (r_c _ _ R) as Rc. pose proof (r_l _ _ R) as Rl.
  unfold dtok, ctok, etok, atok, ptok, inhand, poolc, pendingq in *.
  destruct (a_ph s) as [|n c|n|n] eqn:Hph.
  - destruct (a_queue s) as [|[n [c|]] r] eqn:Hq; [discriminate| |].
    + (* a candidate is dequeued *)
      cbn [app] in Rq, Rd.
      assert (0 < 0 + match nilp s with Some j => if Nat.eqb j k then 1 else 0 | None => 0 end
                  + ftoks k (fl s) + nils_of k (out s) -> n <> k) as Hnk.
      { intros Hd E. subst n. apply (Rd Hd c). left. reflexivity. }
      destruct (pool_active s) eqn:Hact; apply Some_inj in H; subst s'; constructor; rfields.
      * eapply okq_tail; eauto.
      * intros Hd c0 Hin. apply (Rd Hd c0). right. exact Hin.
      * intros _. apply nok_nil.
      * intros Hc. destruct (Rc Hc) as [Rp Rf]. split; [|exact Rf].
        unfold pool_active in Hact. destruct (pool s) as [l|]; [|discriminate].
        intros x Hx. apply in_app_or in Hx. destruct Hx as [Hx|[<-|[]]]; [apply Rp; exact Hx|].
        cbn. apply Hnk. lia.
      * exact Rl.
      * eapply okq_tail; eauto.
      * intros Hd c0 Hin. apply (Rd Hd c0). right. exact Hin.
      * intros Hd x [<-|[]]. cbn. apply Hnk. exact Hd.
      * exact Rc.
      * exact Rl.
    + (* a nil is dequeued *)
      cbn [app] in Rq, Rd.
      apply Some_inj in H. subst s'. constructor; rfields.
      * eapply okq_tail; eauto.
      * intros Hd c0 Hin. destruct (Nat.eqb n k) eqn:E.
        -- apply Nat.eqb_eq in E. subst n. exact (okq_head _ _ c0 Rq Hin).
        -- apply (Rd Hd c0). right. exact Hin.
      * intros _. apply nok_nil.
      * exact Rc.
      * exact Rl.
  - (* a candidate is reported *)
    apply Some_inj in H. subst s'. constructor; rfields.
    + exact Rq.
    + rewrite nils_of_app, nils_of_cand. intros Hd. apply Rd. lia.
    + intros _. apply nok_nil.
    + rewrite nils_of_app, nils_of_cand. intros Hc. apply Rc. lia.
    + rewrite view_app, view_one. destruct (Nat.eqb n k) eqn:E; [|rewrite app_nil_r; exact Rl].
      apply Nat.eqb_eq in E. subst n. apply nil_last_snoc; [exact Rl|].
      rewrite nil_count_view. destruct (nils_of k (out s)) eqn:Ez; [reflexivity|].
      exfalso. assert (0 < 0 + match nilp s with Some j => if Nat.eqb j k then 1 else 0 | None => 0 end
                        + ftoks k (fl s) + S n) as Hd by lia.
      apply (Rh Hd (k, c)); [left; reflexivity|reflexivity].
  - (* the nil callback looks at the pool *)
    destruct (pool_active s || (true && Nat.ltb 0 (flushing s))) eqn:Hact;
      apply Some_inj in H; subst s'; constructor; rfields.
    + exact Rq.
    + intros Hd. apply Rd. pose proof (eqb_tok n k).
      destruct (nilp s) as [m|]; [destruct (Nat.eqb m k)|]; lia.
    + intros _. apply nok_nil.
    + exact Rc.
    + exact Rl.
    + exact Rq.
    + exact Rd.
    + intros _. apply nok_nil.
    + (* not kept back: nothing is pooled or being flushed *)
      intros _. apply orb_false_elim in Hact. destruct Hact as [Ha Hf].
      rewrite andb_true_l in Hf. apply Nat.ltb_ge in Hf.
      split.
      * pose proof (c_pool _ _ I Ha) as Hp. unfold poolc in Hp. rewrite Hp. apply nok_nil.
      * rewrite femits_zero_flushc; [apply nok_nil|]. rewrite (c_emit _ _ I). lia.
    + exact Rl.
  - (* the nil is reported *)
    apply Some_inj in H. subst s'. constructor; rfields.
    + exact Rq.
    + rewrite nils_of_app, nils_of_end. intros Hd. apply Rd. lia.
    + intros _. apply nok_nil.
    + rewrite nils_of_app, nils_of_end. intros Hc. apply Rc. lia.
    + rewrite view_app, view_one. destruct (Nat.eqb n k) eqn:E; [|rewrite app_nil_r; exact Rl].
      apply nil_last_snoc; [exact Rl|]. rewrite nil_count_view.
      unfold ntok, atok in Hn. rewrite Hph, E in Hn. lia.
Qed.

Lemma ftok_le_ftoks : forall k l j f, nth_error l j = Some f -> ftok k f <= ftoks k l.
Proof.
  intros k l. induction l as [|a t IH]; intros j f H; [destruct j; discriminate|].
  destruct j; cbn in *.
  - apply Some_inj in H. subst. lia.
  - specialize (IH j f H). lia.
Qed.

Lemma nok_flushc_set : forall k j f' l,
  nok k (flushc l) -> nok k (fcontrib f') -> nok k (flushc (set_nth j f' l)).
Proof.
  intros k j f' l Hl Hf x Hx. apply in_flushc in Hx. destruct Hx as (f & Hin & Hc).
  apply in_set_nth in Hin. destruct Hin as [->|Hin]; [apply Hf; exact Hc|].
  apply Hl. apply in_flushc. exists f. split; assumption.
Qed.

Lemma in_flushc_entry : forall l j cs na x,
  nth_error l j = Some (FEmit cs na) -> In x cs -> In x (flushc l).
Proof.
  intros l j cs na x Hj Hx. apply in_flushc. exists (FEmit cs na).
  split; [eapply nth_error_In; eauto|exact Hx].
Qed.

(* the end of a flush whose list is empty *)
Lemma invR_finish : forall all k s j,
  inv all s -> invR k s -> nth_error (fl s) j = Some (FEmit [] None) -> pool s = None ->
  invR k (flush_finish s j).
Proof.
  intros all k s j I R Hj Hp.
  pose proof (r_q _ _ R) as Rq. pose proof (r_d _ _ R) as Rd. pose proof (r_h _ _ R) as Rh.
  pose proof (r_c _ _ R) as Rc. pose proof (r_l _ _ R) as Rl.
  pose proof (c_emit _ _ I) as Hem.
  unfold dtok, ctok, etok, atok, ptok, inhand, poolc, pendingq in *.
  unfold flush_finish.
  destruct (nilp s) as [n|] eqn:Hn; [destruct (Nat.eqb (pred (flushing s)) 0) eqn:Hz|].
  - pose proof (ftoks_set_nth k j _ (FNil n) _ Hj) as Hs. cbn in Hs.
    constructor; rfields.
    + exact Rq.
    + intros Hd. apply Rd. lia.
    + intros Hd. apply Rh. lia.
    + intros _. rewrite Hp. split; [apply nok_nil|].
      rewrite femits_zero_flushc; [apply nok_nil|].
      pose proof (femits_set_nth j _ (FNil n) _ Hj) as Hf. cbn in Hf.
      apply Nat.eqb_eq in Hz. lia.
    + exact Rl.
  - pose proof (ftoks_set_nth k j _ FDone _ Hj) as Hs. cbn in Hs.
    constructor; rfields.
    + exact Rq.
    + intros Hd. apply Rd. lia.
    + intros Hd. apply Rh. lia.
    + intros Hc. destruct Rc as [Rp Rf]; [lia|]. split; [exact Rp|].
      apply nok_flushc_set; [exact Rf|apply nok_nil].
    + exact Rl.
  - pose proof (ftoks_set_nth k j _ FDone _ Hj) as Hs. cbn in Hs.
    constructor; rfields.
    + exact Rq.
    + intros Hd. apply Rd. lia.
    + intros Hd. apply Rh. lia.
    + intros Hc. destruct Rc as [Rp Rf]; [lia|]. split; [exact Rp|].
      apply nok_flushc_set; [exact Rf|apply nok_nil].
    + exact Rl.
Qed.

Lemma invR_flush : forall all k s j s',
  inv2 all s -> ntok k s <= 1 -> invR k s -> flush_step true s j = Some s' -> invR k s'.
Proof.
  intros all k s j s' [I N] Hn R H. unfold flush_step in H.
  pose proof (r_q _ _ R) as Rq. pose proof (r_d _ _ R) as Rd. pose proof (r_h _ _ R) as Rh.
  pose proof (r_c _ _ R) as Rc. pose proof (r_l _ _ R) as Rl.
  destruct (nth_error (fl s) j) as [f|] eqn:Hj; [|discriminate].
  destruct f as [|cs na|n|].
  - (* FStart: the flush takes the pool *)
    fold (poolc s) in H.
    set (s1 := upd s (gstate s) None 0 (nilp s) (S (flushing s)) (out s) (a_queue s) (a_ph s)
                 (set_nth j (FEmit (poolc s) None) (fl s))) in *.
    assert (invR k s1) as R1.
    { pose proof (ftoks_set_nth k j _ (FEmit (poolc s) None) _ Hj) as Hs. cbn in Hs.
      unfold poolc in Hs.
      unfold dtok, ctok, etok, atok, ptok, inhand, pendingq in *.
      unfold s1. constructor; rfields.
      - exact Rq.
      - intros Hd. apply Rd. lia.
      - intros Hd. apply Rh. lia.
      - intros Hc. destruct Rc as [Rp Rf]; [lia|]. split; [apply nok_nil|].
        apply nok_flushc_set; [exact Rf|exact Rp].
      - exact Rl. }
    pose proof (inv_take all s j I Hj) as It. fold s1 in It.
    destruct (poolc s) as [|c r] eqn:Hc; apply Some_inj in H; subst s'; [|exact R1].
    eapply invR_finish; [exact It|exact R1| |reflexivity].
    unfold s1. cbn [fl upd]. eapply nth_set_nth_same. exact Hj.
  - assert (na = None) as ->.
    { destruct na as [m|]; [|reflexivity]. exfalso.
      exact (c_nofx _ _ I cs m (nth_error_In _ _ Hj)). }
    destruct cs as [|c r]; [exfalso; exact (N None (nth_error_In _ _ Hj))|].
    assert (pool s = None) as Hp.
    { destruct (c_fl _ _ I) as [Hl|Hq]; [|exact Hq].
      specialize (Hl _ (nth_error_In _ _ Hj)). discriminate. }
    set (s2 := upd s (gstate s) (pool s) (psize s) (nilp s) (flushing s)
                 (out s ++ [(fst c, Some (snd c))]) (a_queue s) (a_ph s)
                 (set_nth j (FEmit r None) (fl s))).
    assert (invR k s2) as R2.
    { pose proof (ftoks_set_nth k j _ (FEmit r None) _ Hj) as Hs. cbn in Hs.
      unfold dtok, ctok, etok, atok, ptok, inhand, poolc, pendingq in *.
      unfold s2. constructor; rfields.
      - exact Rq.
      - rewrite nils_of_app, nils_of_cand. intros Hd. apply Rd. lia.
      - rewrite nils_of_app, nils_of_cand. intros Hd. apply Rh. lia.
      - rewrite nils_of_app, nils_of_cand. intros Hc. destruct Rc as [Rp Rf]; [lia|].
        split; [exact Rp|]. apply nok_flushc_set; [exact Rf|].
        intros x Hx. apply Rf. eapply in_flushc_entry; [exact Hj|right; exact Hx].
      - rewrite view_app, view_one. destruct (Nat.eqb (fst c) k) eqn:E; [|rewrite app_nil_r; exact Rl].
        apply Nat.eqb_eq in E. apply nil_last_snoc; [exact Rl|].
        rewrite nil_count_view. destruct (nils_of k (out s)) eqn:Ez; [reflexivity|].
        exfalso. destruct Rc as [_ Rf]; [lia|].
        apply (Rf c); [eapply in_flushc_entry; [exact Hj|left; reflexivity]|exact E]. }
    destruct r as [|c2 r2]; apply Some_inj in H; subst s'; [|exact R2].
    rewrite <- (flush_finish_set _ j (FEmit [] None)).
    cbn [gstate pool psize nilp flushing out a_queue a_ph fl upd].
    eapply invR_finish; [eapply inv_emit; eauto|exact R2| |exact Hp].
    unfold s2. cbn [fl upd]. eapply nth_set_nth_same. exact Hj.
  - (* FNil *)
    apply Some_inj in H. subst s'.
    pose proof (ftoks_set_nth k j _ FDone _ Hj) as Hs. cbn in Hs.
    pose proof (ftok_le_ftoks k _ _ _ Hj) as Hle. cbn in Hle.
    unfold dtok, ctok, etok, atok, ptok, inhand, poolc, pendingq in *.
    constructor; rfields.
    + exact Rq.
    + rewrite nils_of_app, nils_of_end. intros Hd. apply Rd. lia.
    + rewrite nils_of_app, nils_of_end. intros Hd. apply Rh. lia.
    + rewrite nils_of_app, nils_of_end. intros Hc. destruct Rc as [Rp Rf]; [lia|].
      split; [exact Rp|]. apply nok_flushc_set; [exact Rf|apply nok_nil].
    + rewrite view_app, view_one. destruct (Nat.eqb n k) eqn:E; [|rewrite app_nil_r; exact Rl].
      apply nil_last_snoc; [exact Rl|]. rewrite nil_count_view.
      unfold ntok in Hn. lia.
  - discriminate.
Qed.

Lemma invR_restart : forall k s s', invR k s -> restart_step s = Some s' -> invR k s'.
Proof.
  intros k s s' R H. pose proof (pendingq_restart _ _ H) as Hq.
  unfold restart_step in H. destruct (cycles s) as [|c rest]; [discriminate|].
  apply Some_inj in H. subst s'.
  constructor; try rewrite Hq; try (apply R).
Qed.

(* everything together *)
Definition invA (all : list (nat * cand)) (k : nat) (s : st) : Prop :=
  inv2 all s /\ ntok k s <= 1 /\ invR k s.

Lemma invA_step : forall all k s t s', invA all k s -> step true s t = Some s' -> invA all k s'.
Proof.
  intros all k s t s' (I & Hn & R) H. split; [eapply inv2_step; eauto|]. split.
  - destruct (ntok_step _ k _ _ _ I H) as [Hle _]. lia.
  - destruct t; cbn [step] in H.
    + eapply invR_agent; eauto.
    + eapply invR_flush; eauto.
    + eapply invR_restart; eauto.
Qed.

Lemma invA_run : forall k p first more n sch,
  invA (all_cands first more) k (run true (init p first more n) sch).
Proof.
  intros. apply (run_inv true (invA (all_cands first more) k)).
  - intros s t s' A H. eapply invA_step; eauto.
  - split; [apply inv2_init|]. split; [apply ntok_init_le|apply invR_init].
Qed.

(* per gathering cycle: nothing is reported after the cycle's end marker, and
   the marker is not reported twice *)
Lemma order_per_cycle : forall k p first more n sch,
  nil_last (view k (out (run true (init p first more n) sch))) = true.
Proof. intros. apply (r_l _ _ (proj2 (proj2 (invA_run k p first more n sch)))). Qed.
