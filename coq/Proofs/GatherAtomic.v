(* C24: when no flushCandidates call is interleaved with the agent's
   callbacks, the nil marker is the last thing reported (every schedule). *)
From Coq Require Import List Arith Bool Lia.
Import ListNotations.
From Verif Require Import Model.Gather Proofs.Gather.

Lemma nil_count_app : forall a b, nil_count (a ++ b) = nil_count a + nil_count b.
Proof. intros. unfold nil_count. rewrite filter_app, app_length. reflexivity. Qed.

Lemma nil_count_map_some : forall cs, nil_count (map Some cs) = 0.
Proof. induction cs; cbn; auto. Qed.

Lemma nil_last_app_nonil : forall o x,
  nil_count o = 0 -> nil_last (o ++ x) = nil_last x.
Proof.
  induction o as [|e t IH]; intros x H; [reflexivity|].
  destruct e as [c|]; [|discriminate].
  cbn. apply IH. exact H.
Qed.

Lemma nil_last_map_some : forall cs, nil_last (map Some cs) = true.
Proof. induction cs; cbn; auto. Qed.

Lemma nil_last_map_some_nil : forall cs, nil_last (map Some cs ++ [None]) = true.
Proof. induction cs; cbn; auto. Qed.

Definition rest_pos (f : fphase) : Prop := f = FStart \/ f = FDone.

Record invF (s : st) : Prop := {
  k_fl : Forall rest_pos (fl s);
  k_last : nil_last (out s) = true;
  k_after : nil_count (out s) <> 0 -> a_ph s = ADone /\ pool s = None /\ nilp s = false;
  k_pool : forall l, pool s = Some l -> 0 < psize s;
  k_nilp : nilp s = true -> a_ph s = ADone /\ nil_count (out s) = 0;
  k_emit : a_ph s = ANilEmit -> pool s = None
}.

Lemma invF_init : forall p cands n, invF (init p cands n).
Proof.
  intros p cands n. constructor; cbn; auto; try discriminate.
  - apply Forall_forall. intros f Hf. apply repeat_spec in Hf. left. exact Hf.
  - intros H. exfalso. apply H. reflexivity.
  - intros l H. destruct p; cbn in *; [discriminate|lia].
Qed.

Lemma Forall_set_nth : forall A (P : A -> Prop) j x l,
  Forall P l -> P x -> Forall P (set_nth j x l).
Proof.
  intros A P j x l. revert j. induction l as [|a t IH]; intros j Hl Hx; [destruct j; constructor|].
  inversion Hl; subst. destruct j; cbn; constructor; auto.
Qed.

Lemma invF_step : forall s t s', invF s -> stepF s t = Some s' -> invF s'.
Proof.
  intros s t s' K H.
  pose proof (k_last _ K) as Hl. pose proof (k_after _ K) as Ha.
  pose proof (k_nilp _ K) as Hn.
  destruct t as [|j]; cbn in H.
  - unfold agent_step in H. destruct (a_ph s) eqn:Hph.
    + (* AEnter *)
      assert (nil_count (out s) = 0) as Hz.
      { destruct (nil_count (out s)) eqn:E; [reflexivity|].
        destruct Ha as [Hx _]; [lia|congruence]. }
      assert (nilp s = false) as Hnp.
      { destruct (nilp s); [|reflexivity]. destruct (Hn eq_refl). congruence. }
      destruct (a_rest s) as [|c r].
      * injection H as <-. constructor; cbn; auto; try (apply K); try discriminate.
        -- intros Hx. congruence.
        -- intros Hx. congruence.
      * destruct (pool_active s) eqn:Hact; injection H as <-;
          constructor; cbn; auto; try (apply K); try discriminate;
          try (intros Hx; congruence).
        unfold pool_active in Hact. destruct (pool s) as [l|]; [|discriminate].
        intros l' _. apply Nat.ltb_lt. exact Hact.
    + (* ACandEmit *)
      assert (nil_count (out s) = 0) as Hz.
      { destruct (nil_count (out s)) eqn:E; [reflexivity|].
        destruct Ha as [Hx _]; [lia|congruence]. }
      injection H as <-. constructor; cbn; auto; try (apply K); try discriminate.
      * rewrite nil_last_app_nonil by exact Hz. reflexivity.
      * rewrite nil_count_app, Hz. cbn. intros Hx. exfalso. apply Hx. reflexivity.
      * intros Hx. destruct (Hn Hx). congruence.
    + (* ANilPool *)
      assert (nil_count (out s) = 0) as Hz.
      { destruct (nil_count (out s)) eqn:E; [reflexivity|].
        destruct Ha as [Hx _]; [lia|congruence]. }
      destruct (pool_active s) eqn:Hact; injection H as <-;
        constructor; cbn; auto; try (apply K); try discriminate.
      * intros Hx. congruence.
      * intros Hx. congruence.
      * intros Hx. destruct (Hn Hx). congruence.
      * intros _. unfold pool_active in Hact. destruct (pool s) as [l|] eqn:Hp; [|reflexivity].
        pose proof (k_pool _ K l Hp) as Hps. apply Nat.ltb_lt in Hps. congruence.
    + (* ANilEmit *)
      assert (nil_count (out s) = 0) as Hz.
      { destruct (nil_count (out s)) eqn:E; [reflexivity|].
        destruct Ha as [Hx _]; [lia|congruence]. }
      assert (nilp s = false) as Hnp.
      { destruct (nilp s); [|reflexivity]. destruct (Hn eq_refl). congruence. }
      injection H as <-. constructor; cbn; auto; try (apply K); try discriminate.
      * rewrite nil_last_app_nonil by exact Hz. reflexivity.
      * intros _. repeat split; auto. apply (k_emit _ K Hph).
      * intros Hx. congruence.
    + discriminate.
  - unfold flush_atomic in H. destruct (nth_error (fl s) j) as [[| |]|] eqn:Hj; try discriminate.
    injection H as <-.
    destruct (Nat.eq_dec (nil_count (out s)) 0) as [Hz|Hnz].
    + constructor; cbn; auto; try discriminate.
      * apply Forall_set_nth; [apply K|right; reflexivity].
      * rewrite nil_last_app_nonil by exact Hz.
        destruct (nilp s); [apply nil_last_map_some_nil|rewrite app_nil_r; apply nil_last_map_some].
      * rewrite !nil_count_app, Hz, nil_count_map_some. intros Hx.
        destruct (nilp s) eqn:Hnp; [|cbn in Hx; exfalso; apply Hx; reflexivity].
        destruct (Hn eq_refl) as [Hd _]. auto.
    + destruct (Ha Hnz) as (Hd & Hp & Hnp). rewrite Hp, Hnp. cbn. rewrite app_nil_r.
      constructor; cbn; auto; try discriminate.
      apply Forall_set_nth; [apply K|right; reflexivity].
Qed.

Lemma invF_run : forall sch s, invF s -> invF (runF s sch).
Proof.
  induction sch as [|t rest IH]; intros s K; [exact K|].
  cbn. destruct (stepF s t) eqn:Hs; [|apply IH; exact K].
  apply IH. eapply invF_step; eauto.
Qed.

Lemma atomic_flush_order : forall p cands n sch,
  nil_last (out (runF (init p cands n) sch)) = true.
Proof. intros. apply (k_last _ (invF_run sch _ (invF_init p cands n))). Qed.

(* ---------- the guarded runs are runs of the faithful model ---------- *)
Definition with_out_fl (s : st) (o : list (option cand)) (f : list fphase) : st :=
  {| gstate := gstate s; pool := pool s; psize := psize s; nilp := nilp s; out := o;
     a_rest := a_rest s; a_ph := a_ph s; fl := f |}.

Lemma set_nth_same : forall A j (x : A) l, nth_error l j = Some x -> set_nth j x l = l.
Proof.
  intros A j x l. revert j. induction l as [|a t IH]; intros j H; [destruct j; reflexivity|].
  destruct j; cbn in *; [injection H as ->; reflexivity|]. rewrite IH by exact H. reflexivity.
Qed.

Lemma set_nth_twice : forall A j (x y : A) l, set_nth j y (set_nth j x l) = set_nth j y l.
Proof.
  intros A j x y l. revert j. induction l as [|a t IH]; intros j; [destruct j; reflexivity|].
  destruct j; cbn; [reflexivity|]. rewrite IH. reflexivity.
Qed.

Lemma run_app : forall a b s, run s (a ++ b) = run (run s a) b.
Proof.
  induction a as [|t r IH]; intros b s; [reflexivity|].
  cbn. destruct (step s t); apply IH.
Qed.

Lemma flush_tail_is_run : forall j cs b s,
  nth_error (fl s) j = Some (fnext cs b) ->
  run s (repeat (S j) (S (length cs)))
  = with_out_fl s (out s ++ map Some cs ++ (if b then [None] else [])) (set_nth j FDone (fl s)).
Proof.
  intros j cs. induction cs as [|c r IH]; intros b s H.
  - destruct b; cbn in H; cbn [length repeat run step]; unfold flush_step; rewrite H.
    + destruct s; reflexivity.
    + cbn. rewrite app_nil_r. rewrite (set_nth_same _ _ _ _ H). destruct s; reflexivity.
  - cbn [fnext] in H. change (repeat (S j) (S (length (c :: r)))) with (S j :: repeat (S j) (S (length r))).
    cbn [run step]. unfold flush_step at 1. rewrite H.
    rewrite (IH b).
    + unfold with_out_fl. cbn. rewrite set_nth_twice, <- app_assoc. reflexivity.
    + cbn. eapply nth_set_nth_same. exact H.
Qed.

Lemma flush_atomic_is_run : forall s j s',
  flush_atomic s j = Some s' -> exists k, run s (repeat (S j) k) = s'.
Proof.
  intros s j s' H. unfold flush_atomic in H.
  destruct (nth_error (fl s) j) as [[| |]|] eqn:Hj; try discriminate.
  injection H as <-.
  set (cs := match pool s with Some l => l | None => [] end).
  exists (S (S (length cs))).
  change (repeat (S j) (S (S (length cs)))) with (S j :: repeat (S j) (S (length cs))).
  cbn [run step]. unfold flush_step at 1. rewrite Hj. fold cs.
  rewrite (flush_tail_is_run j cs (nilp s)).
  - unfold with_out_fl. cbn. rewrite set_nth_twice. reflexivity.
  - cbn. eapply nth_set_nth_same. exact Hj.
Qed.

Lemma runF_is_run : forall sch s, exists sch', runF s sch = run s sch'.
Proof.
  induction sch as [|t rest IH]; intros s; [exists []; reflexivity|].
  cbn. destruct (stepF s t) as [s'|] eqn:Hs; [|apply IH].
  destruct (IH s') as [sch' E]. destruct t as [|j]; cbn in Hs.
  - exists (0 :: sch'). cbn. rewrite Hs. exact E.
  - destruct (flush_atomic_is_run _ _ _ Hs) as [k Hk].
    exists (repeat (S j) k ++ sch'). rewrite run_app, Hk. exact E.
Qed.
