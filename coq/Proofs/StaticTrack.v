(* C29: proofs about the TrackLocalStaticRTP model (Model/StaticTrack.v). *)
From Coq Require Import String NArith ZArith Bool List Lia ZifyBool ZifyNat ZifyN Permutation.
Import ListNotations.
From Verif Require Import Common.V Common.Base Model.StaticTrack.
Open Scope N_scope.

Section WithUnmarshal.
(* rtp.Packet.Unmarshal: arbitrary *)
Variable unm : list N -> option pkt.
Local Notation step := (StaticTrack.step unm).
Local Notation run := (StaticTrack.run unm).

(* ------------------------------------------------------------- write loop *)

Lemma rewritten_ext : forall p q,
  eff_pad p = eff_pad q -> p_ppad p = p_ppad q -> p_rest p = p_rest q -> p_payload p = p_payload q ->
  forall b, rewritten p b = rewritten q b.
Proof.
  intros p q He Hp Hr Hy b. unfold rewritten. unfold eff_pad in He. now rewrite He, Hp, Hr, Hy.
Qed.

(* one pass of the loop body leaves the packet in a state from which every
   later pass computes the same padding size *)
Lemma write_loop_deliveries : forall bs loc,
  fst (write_loop bs loc) = map (rewritten loc) bs.
Proof.
  induction bs as [|b t IH]; intros loc; [reflexivity|].
  cbn [write_loop map].
  set (hpad := if negb (p_ppad loc =? 0) && (p_hpad loc =? 0) then p_ppad loc else p_hpad loc).
  set (loc' := mkP (b_ssrc b) (b_pt b) hpad (p_ppad loc) (p_rest loc) (p_payload loc)).
  specialize (IH loc').
  destruct (write_loop t loc') as [ds errs]. cbn [fst] in *.
  assert (Hh : hpad = eff_pad loc).
  { unfold hpad, eff_pad. destruct (p_ppad loc =? 0) eqn:E1, (p_hpad loc =? 0) eqn:E2; cbn [negb andb]; try reflexivity.
    apply N.eqb_eq in E1, E2. congruence. }
  f_equal.
  - unfold rewritten, loc'. fold (eff_pad loc). now rewrite Hh.
  - rewrite IH. apply map_ext. intros b'. apply rewritten_ext; try reflexivity.
    unfold loc', eff_pad at 1. cbn [p_hpad p_ppad]. rewrite Hh.
    unfold eff_pad. destruct (p_hpad loc =? 0) eqn:E2; [|now rewrite E2].
    destruct (p_ppad loc =? 0) eqn:E1; [|reflexivity]. apply N.eqb_eq in E1. now rewrite E1.
Qed.

Lemma write_loop_errs : forall bs loc,
  snd (write_loop bs loc) = N.of_nat (length (filter b_fail bs)).
Proof.
  induction bs as [|b t IH]; intros loc; [reflexivity|].
  cbn [write_loop filter].
  match goal with |- context [write_loop t ?l] => specialize (IH l); destruct (write_loop t l) as [ds errs] end.
  cbn [snd] in *. rewrite IH. destruct (b_fail b); cbn [length]; lia.
Qed.

(* a write on any state: every current binding, in slice order, once; the state
   and the caller's packet are untouched *)
Lemma step_write : forall s p,
  step s (Write p) = Ok (s, OWrite (N.of_nat (length (filter b_fail s))) (map (rewritten p) s) p).
Proof.
  intros s p. cbn [StaticTrack.step].
  pose proof (write_loop_deliveries s p) as Hd. pose proof (write_loop_errs s p) as He.
  destruct (write_loop s p) as [ds errs]. cbn [fst snd] in *. now subst.
Qed.

(* ----------------------------------------------------------------- unbind *)

(* Write(bytes) is WriteRTP of the unmarshalled packet; an unmarshal error
   reaches no writer and changes nothing *)
Lemma step_write_raw : forall s raw,
  (exists p, unm raw = Some p /\
     step s (WriteRaw raw) = Ok (s, OWriteRaw (Ok (N.of_nat (length (filter b_fail s)), map (rewritten p) s))))
  \/ (unm raw = None /\ step s (WriteRaw raw) = Ok (s, OWriteRaw (Err "unmarshal"))).
Proof.
  intros s raw. cbn [StaticTrack.step]. destruct (unm raw) as [p|] eqn:E.
  - left. exists p. split; [reflexivity|].
    pose proof (step_write s p) as H. cbn [StaticTrack.step] in H.
    destruct (write_loop s p) as [ds errs]. injection H as -> ->. reflexivity.
  - right. split; reflexivity.
Qed.

Lemma find_id_some : forall id l i,
  find_id id l = Some i ->
  exists l1 x l2, l = l1 ++ x :: l2 /\ length l1 = i /\ b_id x = id /\
                  forall y, In y l1 -> b_id y <> id.
Proof.
  induction l as [|b t IH]; intros i H; [discriminate|].
  cbn [find_id] in H. destruct (Nat.eqb (b_id b) id) eqn:E.
  - injection H as <-. apply Nat.eqb_eq in E. exists [], b, t. repeat split; auto.
  - destruct (find_id id t) as [k|] eqn:Ek; [|discriminate]. injection H as <-.
    destruct (IH k eq_refl) as (l1 & x & l2 & -> & Hl & Hx & Hpre).
    exists (b :: l1), x, l2. repeat split; auto.
    + cbn [length]. now rewrite Hl.
    + intros y [<-|Hy]; [now apply Nat.eqb_neq in E|now apply Hpre].
Qed.

Lemma find_id_none : forall id l, find_id id l = None -> forall y, In y l -> b_id y <> id.
Proof.
  induction l as [|b t IH]; intros H y Hy; [destruct Hy|].
  cbn [find_id] in H. destruct (Nat.eqb (b_id b) id) eqn:E; [discriminate|].
  destruct (find_id id t) eqn:Ek; [discriminate|].
  destruct Hy as [<-|Hy]; [now apply Nat.eqb_neq in E|now apply IH].
Qed.

Lemma find_id_in : forall id l x, In x l -> b_id x = id -> exists i, find_id id l = Some i.
Proof.
  intros id l x Hin Hid. destruct (find_id id l) as [i|] eqn:E; [now exists i|].
  exfalso. exact (find_id_none id l E x Hin Hid).
Qed.

(* swap-delete removes exactly the element at the index, as a multiset *)
Lemma swap_delete_perm : forall (l1 : list binding) x l2,
  exists l', swap_delete (l1 ++ x :: l2) (length l1) = Ok l' /\ Permutation (l1 ++ x :: l2) (x :: l').
Proof.
  intros l1 x l2. unfold swap_delete.
  destruct (@exists_last _ (x :: l2)) as (l2' & y & Hlast); [discriminate|].
  assert (Hlen : length (l1 ++ x :: l2) = S (length l1 + length l2)).
  { rewrite app_length. cbn [length]. lia. }
  assert (Hl : length l2 = length l2').
  { apply (f_equal (@length _)) in Hlast. rewrite app_length in Hlast. cbn [length] in Hlast. lia. }
  assert (Hnth : nth_error (l1 ++ x :: l2) (length (l1 ++ x :: l2) - 1) = Some y).
  { rewrite Hlen. replace (S (length l1 + length l2) - 1)%nat with (length (l1 ++ l2')) by (rewrite app_length; lia).
    rewrite Hlast, app_assoc, nth_error_app2 by lia. now rewrite Nat.sub_diag. }
  rewrite Hnth.
  replace (Nat.ltb (length l1) (length (l1 ++ x :: l2))) with true by (symmetry; apply Nat.ltb_lt; lia).
  eexists; split; [reflexivity|].
  assert (F1 : firstn (length l1) (l1 ++ x :: l2) = l1).
  { rewrite firstn_app, Nat.sub_diag, firstn_all. cbn [firstn]. apply app_nil_r. }
  assert (S1 : skipn (S (length l1)) (l1 ++ x :: l2) = l2).
  { replace (l1 ++ x :: l2) with ((l1 ++ [x]) ++ l2) by (now rewrite <- app_assoc).
    replace (S (length l1)) with (length (l1 ++ [x])) by (rewrite app_length; cbn [length]; lia).
    rewrite skipn_app, Nat.sub_diag, skipn_all. reflexivity. }
  rewrite F1, S1, Hlen. clear F1 S1 Hnth Hlen Hl.
  (* l1 ++ y :: l2 cut to length l1 + length l2 *)
  destruct l2 as [|z l2r].
  - (* x is the last element: y = x *)
    destruct l2' as [|? ?]; [|apply (f_equal (@length _)) in Hlast; rewrite app_length in Hlast; cbn [length] in Hlast; lia].
    cbn [app] in Hlast. injection Hlast as <-.
    cbn [length]. replace (S (length l1 + 0) - 1)%nat with (length l1) by lia.
    rewrite firstn_app, Nat.sub_diag, firstn_all. cbn [firstn]. rewrite app_nil_r.
    symmetry. apply Permutation_cons_append.
  - (* x is not last: l2 = l2r' ++ [y] *)
    destruct l2' as [|x' l2r']; [apply (f_equal (@length _)) in Hlast; cbn [length app] in Hlast; lia|].
    cbn [app] in Hlast. injection Hlast as <- Hl2. rewrite Hl2.
    replace (S (length l1 + length (l2r' ++ [y])) - 1)%nat with (length (l1 ++ y :: l2r')).
    2:{ rewrite !app_length. cbn [length]. lia. }
    replace (l1 ++ y :: l2r' ++ [y]) with ((l1 ++ y :: l2r') ++ [y]) by (rewrite <- app_assoc; reflexivity).
    rewrite firstn_app, Nat.sub_diag, firstn_all. cbn [firstn]. rewrite app_nil_r.
    (* l1 ++ x :: l2r' ++ [y]  ~  x :: l1 ++ y :: l2r' *)
    rewrite <- Permutation_middle. constructor.
    apply Permutation_app_head.
    symmetry. apply Permutation_cons_append.
Qed.

(* Unbind on any state: removes exactly one binding carrying the id (the first
   in slice order), or fails and changes nothing *)
Lemma step_unbind : forall s id,
  (exists x s', step s (Unbind id) = Ok (s', OUnbind (Ok tt)) /\ In x s /\ b_id x = id /\ Permutation s (x :: s'))
  \/ (step s (Unbind id) = Ok (s, OUnbind (Err "unbind-failed")) /\ forall y, In y s -> b_id y <> id).
Proof.
  intros s id. cbn [StaticTrack.step]. destruct (find_id id s) as [i|] eqn:E.
  - left. destruct (find_id_some id s i E) as (l1 & x & l2 & -> & <- & Hx & _).
    destruct (swap_delete_perm l1 x l2) as (l' & Hsd & Hperm). rewrite Hsd.
    exists x, l'. repeat split; auto. apply in_or_app. right. now left.
  - right. split; [reflexivity|]. now apply find_id_none.
Qed.

(* ---------------------------------------------------------- never panics *)

Lemma step_ok : forall s o, exists s' ob, step s o = Ok (s', ob).
Proof.
  intros s [id ssrc [pt|] w fail|id|p|raw].
  - eexists _, _. reflexivity.
  - eexists _, _. reflexivity.
  - destruct (step_unbind s id) as [(x & s' & H & _)|[H _]]; eexists _, _; exact H.
  - rewrite step_write. eexists _, _. reflexivity.
  - destruct (step_write_raw s raw) as [(p & _ & H)|(_ & H)]; eexists _, _; exact H.
Qed.

Lemma run_ok : forall ops s, exists s' obs, run s ops = Ok (s', obs) /\ length obs = length ops.
Proof.
  induction ops as [|o t IH]; intros s.
  - exists s, []. split; reflexivity.
  - cbn [StaticTrack.run]. destruct (step_ok s o) as (s1 & ob & ->).
    destruct (IH s1) as (s2 & obs & -> & Hlen). exists s2, (ob :: obs). split; [reflexivity|].
    cbn [length]. now rewrite Hlen.
Qed.

Lemma run_no_panic : forall ops s, run s ops <> Panic.
Proof. intros ops s. destruct (run_ok ops s) as (s' & obs & -> & _). discriminate. Qed.

Lemma run_app : forall ops1 ops2 s s1 obs1,
  run s ops1 = Ok (s1, obs1) ->
  run s (ops1 ++ ops2) = match run s1 ops2 with
                         | Ok (s2, obs2) => Ok (s2, obs1 ++ obs2)
                         | Err e => Err e
                         | Panic => Panic
                         end.
Proof.
  induction ops1 as [|o t IH]; intros ops2 s s1 obs1 H.
  - cbn [StaticTrack.run] in H. injection H as <- <-. cbn [app]. destruct (run s ops2) as [[s2 obs2]| |]; reflexivity.
  - cbn [StaticTrack.run app] in *. destruct (step s o) as [[s' ob]| |]; try discriminate.
    destruct (run s' t) as [[s'' obs]| |] eqn:Et; try discriminate.
    injection H as <- <-. rewrite (IH ops2 s' s'' obs Et).
    destruct (run s'' ops2) as [[s2 obs2]| |]; reflexivity.
Qed.

(* ------------------------------------------------- refinement (wf histories) *)

Lemma Permutation_filter : forall (A : Type) (f : A -> bool) l l',
  Permutation l l' -> Permutation (filter f l) (filter f l').
Proof.
  intros A f l l' H. induction H as [|x l l' H IH|x y l|l l' l'' H1 IH1 H2 IH2].
  - constructor.
  - cbn [filter]. destruct (f x); [now constructor|exact IH].
  - cbn [filter]. destruct (f x), (f y); try reflexivity. apply perm_swap.
  - now transitivity (filter f l').
Qed.

Lemma filter_all : forall (A : Type) (f : A -> bool) l,
  (forall x, In x l -> f x = true) -> filter f l = l.
Proof.
  induction l as [|a t IH]; intros H; [reflexivity|].
  cbn [filter]. rewrite (H a (or_introl eq_refl)). f_equal. apply IH. intros x Hx. apply H. now right.
Qed.

Definition inv (s sp : list binding) : Prop := Permutation s sp /\ NoDup (map b_id sp).

Lemma NoDup_filter_map : forall (f : binding -> bool) l,
  NoDup (map b_id l) -> NoDup (map b_id (filter f l)).
Proof.
  induction l as [|a t IH]; intros H; [constructor|].
  cbn [map] in H. inversion H as [|? ? Hnin Hnd]; subst.
  cbn [filter]. destruct (f a); [|now apply IH].
  cbn [map]. constructor; [|now apply IH].
  intros Hin. apply Hnin. apply in_map_iff in Hin. destruct Hin as (y & Hy & Hyin).
  apply filter_In in Hyin. apply in_map_iff. exists y. tauto.
Qed.

Lemma step_inv : forall s sp o,
  inv s sp ->
  match o with Bind id _ (Some _) _ _ => ~ In id (map b_id sp) | _ => True end ->
  exists s' ob, step s o = Ok (s', ob) /\ inv s' (spec_step sp o).
Proof.
  intros s sp o [Hperm Hnd] Hguard. destruct o as [id ssrc [pt|] w fail|id|p|raw].
  - eexists _, _. split; [reflexivity|]. cbn [spec_step]. split.
    + rewrite <- Permutation_cons_append. now constructor.
    + cbn [map b_id]. now constructor.
  - eexists _, _. split; [reflexivity|]. now split.
  - cbn [spec_step]. destruct (step_unbind s id) as [(x & s' & Hstep & Hin & Hid & Hp)|[Hstep Hnone]].
    + exists s', (OUnbind (Ok tt)). split; [exact Hstep|]. split.
      * (* filter on x :: s' drops exactly x *)
        assert (Hsp : Permutation sp (x :: s')) by (now rewrite <- Hperm).
        rewrite (Permutation_filter _ _ _ _ Hsp). cbn [filter].
        rewrite Hid, Nat.eqb_refl. cbn [negb].
        rewrite filter_all; [reflexivity|].
        intros y Hy. apply negb_true_iff, Nat.eqb_neq. intros Heq.
        assert (Hnd' : NoDup (map b_id (x :: s'))).
        { eapply Permutation_NoDup; [apply Permutation_map; exact Hsp|exact Hnd]. }
        cbn [map] in Hnd'. inversion Hnd' as [|? ? Hnin _]; subst.
        apply Hnin. apply in_map_iff. exists y. split; [congruence|exact Hy].
      * now apply NoDup_filter_map.
    + exists s, (OUnbind (Err "unbind-failed")). split; [exact Hstep|]. split; [|now apply NoDup_filter_map].
      rewrite filter_all; [exact Hperm|].
      intros y Hy. apply negb_true_iff, Nat.eqb_neq. apply Hnone.
      eapply Permutation_in; [symmetry; exact Hperm|exact Hy].
  - rewrite step_write. eexists _, _. split; [reflexivity|]. now split.
  - destruct (step_write_raw s raw) as [(p & _ & H)|(_ & H)]; eexists _, _; (split; [exact H|now split]).
Qed.

Lemma run_inv : forall ops s sp,
  inv s sp -> wf_from sp ops ->
  exists s' obs, run s ops = Ok (s', obs) /\ inv s' (fold_left spec_step ops sp).
Proof.
  induction ops as [|o t IH]; intros s sp Hinv Hwf.
  - exists s, []. split; [reflexivity|exact Hinv].
  - cbn [wf_from] in Hwf. destruct Hwf as [Hg Hwf].
    destruct (step_inv s sp o Hinv Hg) as (s1 & ob & Hstep & Hinv1).
    destruct (IH s1 (spec_step sp o) Hinv1 Hwf) as (s2 & obs & Hrun & Hinv2).
    exists s2, (ob :: obs). cbn [StaticTrack.run fold_left]. rewrite Hstep, Hrun. split; [reflexivity|exact Hinv2].
Qed.

Lemma refines : forall ops, wf ops ->
  exists s obs, run [] ops = Ok (s, obs) /\ Permutation s (spec_run ops) /\ NoDup (map b_id s).
Proof.
  intros ops Hwf. destruct (run_inv ops [] []) as (s & obs & Hrun & Hperm & Hnd).
  - split; constructor.
  - exact Hwf.
  - exists s, obs. split; [exact Hrun|]. split; [exact Hperm|].
    eapply Permutation_NoDup; [apply Permutation_map; symmetry; exact Hperm|exact Hnd].
Qed.

(* the fan-out of a write after any well-formed history *)
Lemma fanout : forall ops p, wf ops ->
  exists s obs ds errs,
    run [] (ops ++ [Write p]) = Ok (s, obs ++ [OWrite errs ds p]) /\
    Permutation ds (map (rewritten p) (spec_run ops)) /\
    NoDup (map b_id (spec_run ops)).
Proof.
  intros ops p Hwf. destruct (run_inv ops [] []) as (s & obs & Hrun & Hperm & Hnd);
    [split; constructor|exact Hwf|].
  exists s, obs, (map (rewritten p) s), (N.of_nat (length (filter b_fail s))).
  split; [|split].
  - rewrite (run_app ops [Write p] [] s obs Hrun). cbn [StaticTrack.run]. rewrite step_write. reflexivity.
  - apply Permutation_map. exact Hperm.
  - exact Hnd.
Qed.

(* after Unbind id, and as long as id is not bound again, no binding carries id *)
Lemma spec_no_id : forall ops' id sp,
  (forall b, In b sp -> b_id b <> id) -> no_bind id ops' ->
  forall b, In b (fold_left spec_step ops' sp) -> b_id b <> id.
Proof.
  induction ops' as [|o t IH]; intros id sp Hsp Hnb b Hb; [now apply Hsp|].
  cbn [fold_left] in Hb. revert Hb. apply IH.
  - destruct o as [id' ssrc [pt|] w fail|id'|p|raw]; cbn [spec_step]; try exact Hsp.
    + cbn [no_bind] in Hnb. intros b' [<-|Hb']; [cbn [b_id]; tauto|now apply Hsp].
    + intros b' Hb'. apply filter_In in Hb'. now apply Hsp.
  - destruct o as [id' ssrc [pt|] w fail|id'|p|raw]; cbn [no_bind] in Hnb; tauto.
Qed.

Lemma unbind_final : forall ops id ops', wf (ops ++ Unbind id :: ops') -> no_bind id ops' ->
  exists s obs, run [] (ops ++ Unbind id :: ops') = Ok (s, obs) /\
                forall b, In b s -> b_id b <> id.
Proof.
  intros ops id ops' Hwf Hnb. destruct (refines _ Hwf) as (s & obs & Hrun & Hperm & _).
  exists s, obs. split; [exact Hrun|]. intros b Hb.
  apply (Permutation_in _ Hperm) in Hb. unfold spec_run in Hb.
  rewrite fold_left_app in Hb. cbn [fold_left] in Hb. revert Hb.
  apply spec_no_id; [|exact Hnb].
  intros b' Hb'. cbn [spec_step] in Hb'. apply filter_In in Hb'. destruct Hb' as [_ Hb'].
  now apply negb_true_iff, Nat.eqb_neq in Hb'.
Qed.

Lemma caller_unchanged : forall s p s' errs ds after,
  step s (Write p) = Ok (s', OWrite errs ds after) -> after = p /\ s' = s.
Proof.
  intros s p s' errs ds after H. rewrite step_write in H. injection H as <- _ _ <-. now split.
Qed.

Lemma ex_history :
  let ops := [Bind 0 1000 (Some 96) 0 false; Bind 1 2000 (Some 97) 1 false; Bind 2 3000 (Some 98) 2 false;
              Unbind 0] in
  wf ops /\
  option_map (map b_w) (match run [] ops with Ok (s, _) => Some s | _ => None end) = Some [2%nat; 1%nat] /\
  map b_w (spec_run ops) = [2%nat; 1%nat].
Proof.
  cbn zeta. split; [|split; reflexivity].
  unfold wf. cbn [wf_from spec_step map b_id In]. repeat split; intros H; repeat destruct H as [H|H]; try discriminate; auto.
Qed.

(* ---- Write(bytes) refines WriteRTP: with a marshaller that [unm] inverts on
   padding-free packets, writing the marshalled bytes delivers exactly what
   WriteRTP of the packet delivers, op by op over whole histories *)
Section Marshal.
  Variable marshal : pkt -> list N.
  Hypothesis unm_marshal : forall p, p_hpad p = 0 -> p_ppad p = 0 -> unm (marshal p) = Some p.

  Definition pad_free (o : op) : Prop :=
    match o with Write p => p_hpad p = 0 /\ p_ppad p = 0 | _ => True end.
  Definition raw_of (o : op) : op := match o with Write p => WriteRaw (marshal p) | o => o end.
  Definition raw_obs (o : obs) : obs := match o with OWrite errs ds _ => OWriteRaw (Ok (errs, ds)) | o => o end.

  Lemma step_raw_refines : forall s o s' ob, pad_free o ->
    step s o = Ok (s', ob) -> step s (raw_of o) = Ok (s', raw_obs ob).
  Proof.
    intros s o s' ob Hpf H. destruct o as [id ssrc [pt|] w fail|id|p|raw]; cbn [raw_of].
    1,2,5: (rewrite H; f_equal; f_equal; cbn [StaticTrack.step] in H).
    - injection H as <- <-. reflexivity.
    - injection H as <- <-. reflexivity.
    - destruct (unm raw); [destruct (write_loop s p)|]; injection H as <- <-; reflexivity.
    - rewrite H. cbn [StaticTrack.step] in H. destruct (find_id id s) as [i|]; [destruct (swap_delete s i)|];
        try discriminate; injection H as <- <-; reflexivity.
    - destruct Hpf as [Hh Hp]. cbn [StaticTrack.step] in *. rewrite (unm_marshal p Hh Hp).
      destruct (write_loop s p) as [ds errs]. injection H as <- <-. reflexivity.
  Qed.

  Lemma run_raw_refines : forall ops s s' obs, Forall pad_free ops ->
    run s ops = Ok (s', obs) -> run s (map raw_of ops) = Ok (s', map raw_obs obs).
  Proof.
    induction ops as [|o t IH]; intros s s' obs Hpf H.
    - cbn [StaticTrack.run map] in *. injection H as <- <-. reflexivity.
    - inversion Hpf as [|? ? Ho Ht]; subst. cbn [StaticTrack.run map] in *.
      destruct (step s o) as [[s1 ob]| |] eqn:Es; try discriminate.
      rewrite (step_raw_refines s o s1 ob Ho Es).
      destruct (run s1 t) as [[s2 obs2]| |] eqn:Er; try discriminate.
      injection H as <- <-. rewrite (IH s1 s2 obs2 Ht Er). reflexivity.
  Qed.
End Marshal.
End WithUnmarshal.
