(* C26: proofs about the RTX unwrap model (Model/Rtx.v). *)
From Coq Require Import String NArith ZArith Bool List Lia ZifyBool ZifyNat ZifyN.
Import ListNotations.
From Verif Require Import Common.V Common.Base Model.Rtx.
Open Scope N_scope.

Ltac Zify.zify_post_hook ::= Z.div_mod_to_equations.

(* ---------------------------------------------------------------- bytes *)

(* a statement about every value below a bound, settled by running it *)
Fixpoint below (n : nat) : list N :=
  match n with O => [] | S k => N.of_nat k :: below k end.

Lemma below_in : forall n x, x < N.of_nat n -> In x (below n).
Proof.
  induction n as [|k IH]; intros x Hx; [lia|].
  cbn [below]. destruct (N.eq_dec x (N.of_nat k)) as [->|Hne]; [now left|right].
  apply IH. lia.
Qed.

Lemma forall_below (P : N -> bool) (n : nat) :
  forallb P (below n) = true -> forall x, x < N.of_nat n -> P x = true.
Proof.
  intros Hall x Hx. rewrite forallb_forall in Hall. apply Hall, below_in, Hx.
Qed.

Lemma land15 : forall n, n < 256 -> N.land n 15 = n mod 16.
Proof.
  intros n Hn. apply N.eqb_eq.
  apply (forall_below (fun n => N.land n 15 =? n mod 16) 256); [vm_compute; reflexivity|exact Hn].
Qed.

Lemma land16 : forall n, n < 256 -> (0 <? N.land n 16) = ((n / 16) mod 2 =? 1).
Proof.
  intros n Hn. apply Bool.eqb_prop.
  apply (forall_below (fun n => Bool.eqb (0 <? N.land n 16) ((n / 16) mod 2 =? 1)) 256);
    [vm_compute; reflexivity|exact Hn].
Qed.

Lemma land32 : forall n, n < 256 -> (0 <? N.land n 32) = ((n / 32) mod 2 =? 1).
Proof.
  intros n Hn. apply Bool.eqb_prop.
  apply (forall_below (fun n => Bool.eqb (0 <? N.land n 32) ((n / 32) mod 2 =? 1)) 256);
    [vm_compute; reflexivity|exact Hn].
Qed.

Lemma land127 : forall n, n < 256 -> N.land n 127 = n mod 128.
Proof.
  intros n Hn. apply N.eqb_eq.
  apply (forall_below (fun n => N.land n 127 =? n mod 128) 256); [vm_compute; reflexivity|exact Hn].
Qed.

Lemma land128 : forall n, n < 256 -> N.land n 128 = 128 * (n / 128).
Proof.
  intros n Hn. apply N.eqb_eq.
  apply (forall_below (fun n => N.land n 128 =? 128 * (n / 128)) 256); [vm_compute; reflexivity|exact Hn].
Qed.

Lemma lor128 : forall p, p < 128 -> N.lor 128 p = 128 + p.
Proof.
  intros p Hp. apply N.eqb_eq.
  apply (forall_below (fun p => N.lor 128 p =? 128 + p) 128); [vm_compute; reflexivity|exact Hp].
Qed.

(* any N, not only bytes: the low four bits are below 16 *)
Lemma land15_lt : forall n, N.land n 15 < 16.
Proof.
  intros n. change 15 with (N.ones 4). rewrite N.land_ones.
  apply N.mod_lt. discriminate.
Qed.

Lemma be_val2 : forall x y, be_val [x; y] = x * 256 + y.
Proof. intros; cbn [be_val fold_left]; lia. Qed.

Lemma be_bytes2 : forall n, be_bytes 2 n = [(n / 256) mod 256; n mod 256].
Proof. reflexivity. Qed.

Lemma be_bytes4 : forall n,
  be_bytes 4 n = [(n / 256 / 256 / 256) mod 256; (n / 256 / 256) mod 256; (n / 256) mod 256; n mod 256].
Proof. reflexivity. Qed.

(* --------------------------------------------------- list primitives *)

Lemma idx_at : forall (pre : list N) x post k,
  N.to_nat k = length pre -> idx (pre ++ x :: post) k = Some x.
Proof.
  intros pre x post k Hk. unfold idx. rewrite Hk, nth_error_app2 by lia.
  now rewrite Nat.sub_diag.
Qed.

Lemma firstn_exact : forall (A : Type) (pre post : list A), firstn (length pre) (pre ++ post) = pre.
Proof.
  intros A pre post. rewrite firstn_app, Nat.sub_diag, firstn_all. cbn [firstn]. now rewrite app_nil_r.
Qed.

Lemma skipn_exact : forall (A : Type) (pre post : list A), skipn (length pre) (pre ++ post) = post.
Proof.
  intros A pre post. rewrite skipn_app, Nat.sub_diag, skipn_all. reflexivity.
Qed.

Lemma upd_at : forall (pre : list N) x post k v,
  N.to_nat k = length pre -> upd (pre ++ x :: post) k v = Some (pre ++ v :: post).
Proof.
  intros pre x post k v Hk. unfold upd. rewrite Hk.
  replace (Nat.ltb (length pre) (length (pre ++ x :: post))) with true.
  2:{ symmetry. apply Nat.ltb_lt. rewrite app_length. cbn [length]. lia. }
  rewrite firstn_exact.
  replace (S (length pre)) with (length (pre ++ [x])) by (rewrite app_length; cbn [length]; lia).
  replace (pre ++ x :: post) with ((pre ++ [x]) ++ post) by (now rewrite <- app_assoc).
  now rewrite skipn_exact.
Qed.

Lemma slice_at : forall (A : Type) (pre mid post : list A) lo hi,
  lo = length pre -> hi = (length pre + length mid)%nat ->
  slice (pre ++ mid ++ post) lo hi = Some mid.
Proof.
  intros A pre mid post lo hi -> ->. unfold slice.
  replace (Nat.leb (length pre) (length pre + length mid)) with true by (symmetry; apply Nat.leb_le; lia).
  replace (Nat.leb (length pre + length mid) (length (pre ++ mid ++ post))) with true.
  2:{ symmetry. apply Nat.leb_le. rewrite !app_length. lia. }
  cbn [andb]. rewrite skipn_exact.
  replace (length pre + length mid - length pre)%nat with (length mid) by lia.
  now rewrite firstn_exact.
Qed.

Lemma sl_at : forall (pre mid post : list N) lo hi,
  N.to_nat lo = length pre -> N.to_nat hi = (length pre + length mid)%nat ->
  sl (pre ++ mid ++ post) lo hi = Some mid.
Proof. intros; unfold sl; now apply slice_at. Qed.

(* copy(b[dlo:dhi], b[slo:shi]) moving [src] down over [gap] *)
Lemma copy_at : forall (pre gap src post : list N) dlo dhi slo shi,
  N.to_nat dlo = length pre ->
  N.to_nat dhi = (length pre + length src)%nat ->
  N.to_nat slo = (length pre + length gap)%nat ->
  N.to_nat shi = (length pre + length gap + length src)%nat ->
  copy_within (pre ++ gap ++ src ++ post) dlo dhi slo shi
  = Some (pre ++ src ++ skipn (length src) (gap ++ src ++ post)).
Proof.
  intros pre gap src post dlo dhi slo shi Hdlo Hdhi Hslo Hshi. unfold copy_within.
  (* source *)
  assert (Hsrc : sl (pre ++ gap ++ src ++ post) slo shi = Some src).
  { replace (pre ++ gap ++ src ++ post) with ((pre ++ gap) ++ src ++ post) by (now rewrite <- app_assoc).
    apply sl_at; rewrite app_length; lia. }
  (* destination: the first [length src] bytes after [pre] *)
  assert (Hdst : sl (pre ++ gap ++ src ++ post) dlo dhi
                 = Some (firstn (length src) (gap ++ src ++ post))).
  { unfold sl, slice. rewrite Hdlo, Hdhi.
    replace (Nat.leb (length pre) (length pre + length src)) with true by (symmetry; apply Nat.leb_le; lia).
    replace (Nat.leb (length pre + length src) (length (pre ++ gap ++ src ++ post))) with true.
    2:{ symmetry. apply Nat.leb_le. rewrite !app_length. lia. }
    cbn [andb]. rewrite skipn_exact. f_equal. f_equal. lia. }
  rewrite Hdst, Hsrc.
  assert (Hlen : length (firstn (length src) (gap ++ src ++ post)) = length src).
  { rewrite firstn_length, !app_length. lia. }
  rewrite Hlen, Nat.min_id, Hdlo, firstn_exact, firstn_all.
  do 3 f_equal.
  rewrite skipn_app.
  replace (skipn (length pre + length src) pre) with (@nil N) by (symmetry; apply skipn_all2; lia).
  cbn [app]. f_equal. lia.
Qed.

(* concrete offsets of the fixed header: settled by computation *)
Section Fixed.
  Variables a0 a1 a2 a3 a4 a5 a6 a7 a8 a9 a10 a11 : N.
  Variable l : list N.
  Let b := a0 :: a1 :: a2 :: a3 :: a4 :: a5 :: a6 :: a7 :: a8 :: a9 :: a10 :: a11 :: l.

  Lemma idx0 : idx b 0 = Some a0. Proof. reflexivity. Qed.
  Lemma idx1 : idx b 1 = Some a1. Proof. reflexivity. Qed.
  Lemma sl24 : sl b 2 4 = Some [a2; a3]. Proof. reflexivity. Qed.
  Lemma sl812 : sl b 8 12 = Some [a8; a9; a10; a11]. Proof. reflexivity. Qed.
  Lemma upd1 : forall v, upd b 1 v = Some (a0 :: v :: a2 :: a3 :: a4 :: a5 :: a6 :: a7 :: a8 :: a9 :: a10 :: a11 :: l).
  Proof. reflexivity. Qed.
  Lemma upd2 : forall v, upd b 2 v = Some (a0 :: a1 :: v :: a3 :: a4 :: a5 :: a6 :: a7 :: a8 :: a9 :: a10 :: a11 :: l).
  Proof. reflexivity. Qed.
  Lemma upd3 : forall v, upd b 3 v = Some (a0 :: a1 :: a2 :: v :: a4 :: a5 :: a6 :: a7 :: a8 :: a9 :: a10 :: a11 :: l).
  Proof. reflexivity. Qed.
  Lemma put8 : forall v, put_u32 b 8 v
    = Some (a0 :: a1 :: a2 :: a3 :: a4 :: a5 :: a6 :: a7 :: be_bytes 4 (u32 v) ++ l).
  Proof. reflexivity. Qed.
End Fixed.

Lemma idx_at2 : forall (pre : list N) x y post k,
  N.to_nat k = S (length pre) -> idx (pre ++ x :: y :: post) k = Some y.
Proof.
  intros pre x y post k Hk.
  replace (pre ++ x :: y :: post) with ((pre ++ [x]) ++ y :: post) by (now rewrite <- app_assoc).
  apply idx_at. rewrite app_length. cbn [length]. lia.
Qed.

Lemma sl_prefix : forall (p1 p2 post : list N) hi,
  N.to_nat hi = (length p1 + length p2)%nat ->
  sl (p1 ++ p2 ++ post) 0 hi = Some (p1 ++ p2).
Proof.
  intros p1 p2 post hi Hhi.
  replace (p1 ++ p2 ++ post) with ([] ++ (p1 ++ p2) ++ post) by (cbn [app]; now rewrite <- app_assoc).
  apply sl_at; [reflexivity|]. rewrite app_length. cbn [length]. lia.
Qed.

(* ------------------------------------------ the rewrite on a laid-out buffer *)

Lemma rewrite_ok :
  forall ppt pssrc a0 a1 a2 a3 a4 a5 a6 a7 a8 a9 a10 a11 (C : list N) o0 o1 (R tail : list N) hl i,
  N.to_nat hl = (12 + length C)%nat -> hl + 2 < 65536 ->
  N.to_nat i = (12 + length C + 2 + length R)%nat ->
  rtx_rewrite ppt pssrc
    (a0 :: a1 :: a2 :: a3 :: a4 :: a5 :: a6 :: a7 :: a8 :: a9 :: a10 :: a11 :: C ++ o0 :: o1 :: R ++ tail) i hl
  = Ok (mkRtxOut
          (a0 :: N.lor (N.land a1 128) (u8 ppt) :: o0 :: o1 :: a4 :: a5 :: a6 :: a7
              :: be_bytes 4 (u32 pssrc) ++ C ++ R)
          (N.land a1 127) (be_val [a2; a3]) (be_val [a8; a9; a10; a11])).
Proof.
  intros ppt pssrc a0 a1 a2 a3 a4 a5 a6 a7 a8 a9 a10 a11 C o0 o1 R tail hl i Hhl Hsmall Hi.
  unfold rtx_rewrite.
  rewrite idx1, sl24, sl812. cbn [of_opt rbind].
  rewrite upd1. cbn [of_opt rbind].
  set (v1 := N.lor (N.land a1 128) (u8 ppt)).
  (* b[2] = b[headerLength] *)
  pose proof (idx_at (a0 :: v1 :: a2 :: a3 :: a4 :: a5 :: a6 :: a7 :: a8 :: a9 :: a10 :: a11 :: C)
                     o0 (o1 :: R ++ tail) hl) as E2.
  cbn [app length] in E2. rewrite E2 by lia. clear E2. cbn [of_opt rbind].
  rewrite upd2. cbn [of_opt rbind].
  (* b[3] = b[headerLength+1] *)
  replace (u16 (hl + 1)) with (hl + 1) by (unfold u16; rewrite N.mod_small; lia).
  pose proof (idx_at2 (a0 :: v1 :: o0 :: a3 :: a4 :: a5 :: a6 :: a7 :: a8 :: a9 :: a10 :: a11 :: C)
                      o0 o1 (R ++ tail) (hl + 1)) as E3.
  cbn [app length] in E3. rewrite E3 by lia. clear E3. cbn [of_opt rbind].
  rewrite upd3. cbn [of_opt rbind].
  (* PutUint32(b[8:12], ssrc) *)
  rewrite put8. cbn [of_opt rbind]. rewrite be_bytes4. cbn [app].
  set (q0 := (u32 pssrc / 256 / 256 / 256) mod 256).
  set (q1 := (u32 pssrc / 256 / 256) mod 256).
  set (q2 := (u32 pssrc / 256) mod 256).
  set (q3 := u32 pssrc mod 256).
  (* copy(b[headerLength:i-2], b[headerLength+2:i]) *)
  replace (u16 (hl + 2)) with (hl + 2) by (unfold u16; rewrite N.mod_small; lia).
  pose proof (copy_at (a0 :: v1 :: o0 :: o1 :: a4 :: a5 :: a6 :: a7 :: q0 :: q1 :: q2 :: q3 :: C)
                      [o0; o1] R tail hl (i - 2) (hl + 2) i) as E4.
  cbn [app length] in E4. rewrite E4 by lia. clear E4. cbn [of_opt rbind].
  (* b[:i-2] *)
  pose proof (sl_prefix (a0 :: v1 :: o0 :: o1 :: a4 :: a5 :: a6 :: a7 :: q0 :: q1 :: q2 :: q3 :: C)
                        R (skipn (length R) (o0 :: o1 :: R ++ tail)) (i - 2)) as E5.
  cbn [app length] in E5. rewrite E5 by lia. clear E5. cbn [of_opt rbind].
  reflexivity.
Qed.

(* ------------------------------------------------- the first two header bytes *)

Lemma b0_fields : forall v (p x : bool) c,
  v < 4 -> c <= 15 ->
  let b0 := 64 * v + 32 * bN p + 16 * bN x + c in
  b0 < 256 /\ N.land b0 15 = c /\ (0 <? N.land b0 16) = x /\ (0 <? N.land b0 32) = p.
Proof.
  intros v p x c Hv Hc b0. subst b0.
  assert (Hlt : 64 * v + 32 * bN p + 16 * bN x + c < 256) by (destruct p, x; cbn [bN]; lia).
  split; [exact Hlt|].
  rewrite land15, land16, land32 by exact Hlt.
  destruct p, x; cbn [bN]; (split; [lia|split]);
    first [apply N.eqb_eq; lia | apply N.eqb_neq; lia].
Qed.

Lemma b1_fields : forall (m : bool) pt ppt,
  pt < 128 -> ppt < 128 ->
  let b1 := 128 * bN m + pt in
  N.land b1 127 = pt /\ N.lor (N.land b1 128) (u8 ppt) = 128 * bN m + ppt.
Proof.
  intros m pt ppt Hpt Hppt b1. subst b1.
  assert (Hlt : 128 * bN m + pt < 256) by (destruct m; cbn [bN]; lia).
  rewrite land127, land128 by exact Hlt.
  unfold u8. rewrite (N.mod_small ppt 256) by lia.
  destruct m; cbn [bN].
  - split; [lia|]. replace (128 * ((128 * 1 + pt) / 128)) with 128 by lia.
    rewrite lor128 by exact Hppt. lia.
  - split; [lia|]. replace (128 * ((128 * 0 + pt) / 128)) with 0 by lia.
    rewrite N.lor_0_l. lia.
Qed.

Lemma be_val2_bytes : forall n, n < 65536 -> be_val (be_bytes 2 n) = n.
Proof. intros n Hn. rewrite be_bytes2, be_val2. lia. Qed.

Lemma be_val4_bytes : forall n, n < 4294967296 -> be_val (be_bytes 4 n) = n.
Proof. intros n Hn. rewrite be_bytes4. cbn [be_val fold_left]. lia. Qed.

Lemma hdr_bytes_length : forall h,
  length (hdr_bytes h) = (12 + length (h_csrc h) + length (ext_bytes h))%nat.
Proof. intros h. unfold hdr_bytes. rewrite !app_length. reflexivity. Qed.

Lemma ext_bytes_length : forall h,
  length (ext_bytes h) = match h_ext h with Some (_, data) => (4 + length data)%nat | None => O end.
Proof. intros h. unfold ext_bytes. destruct (h_ext h) as [[pr data]|]; reflexivity. Qed.

(* the buffer of a laid-out packet, fixed header in cons form *)
Lemma hdr_layout : forall h X,
  hdr_bytes h ++ X =
  (64 * h_ver h + 32 * bN (h_pad h) + 16 * bN (has_ext h) + h_cc h)
  :: (128 * bN (h_marker h) + h_pt h)
  :: (h_seq h / 256) mod 256 :: h_seq h mod 256
  :: (h_ts h / 256 / 256 / 256) mod 256 :: (h_ts h / 256 / 256) mod 256 :: (h_ts h / 256) mod 256 :: h_ts h mod 256
  :: (h_ssrc h / 256 / 256 / 256) mod 256 :: (h_ssrc h / 256 / 256) mod 256 :: (h_ssrc h / 256) mod 256 :: h_ssrc h mod 256
  :: (h_csrc h ++ ext_bytes h) ++ X.
Proof.
  intros h X. unfold hdr_bytes. rewrite be_bytes2, !be_bytes4. cbn [app].
  now rewrite <- !app_assoc.
Qed.

Lemma header_length_ok : forall h X,
  hdr_ok h -> N.of_nat (length (hdr_bytes h)) < 65536 ->
  rtx_header_length (hdr_bytes h ++ X)
    (64 * h_ver h + 32 * bN (h_pad h) + 16 * bN (has_ext h) + h_cc h)
  = Ok (N.of_nat (length (hdr_bytes h))).
Proof.
  intros h X (Hver & Hcc & Hcsrc & Hpt & Hseq & Hts & Hssrc & Hext) Hlen.
  unfold rtx_header_length.
  destruct (b0_fields (h_ver h) (h_pad h) (has_ext h) (h_cc h) Hver Hcc) as (Hb0 & Ecc & Ex & Ep).
  rewrite Ecc, Ex.
  assert (Ehl0 : u16 (u8 (12 + u8 (4 * h_cc h))) = 12 + 4 * h_cc h).
  { unfold u16, u8. rewrite (N.mod_small (4 * h_cc h)) by lia.
    rewrite (N.mod_small (12 + 4 * h_cc h) 256) by lia. apply N.mod_small. lia. }
  rewrite Ehl0.
  rewrite hdr_bytes_length, ext_bytes_length in Hlen |- *.
  rewrite hdr_layout.
  unfold has_ext, ext_bytes. destruct (h_ext h) as [[profile data]|].
  - destruct Hext as (Hprof & Hdata).
    set (w := N.of_nat (length data) / 4) in *.
    rewrite !be_bytes2.
    replace (u16 (12 + 4 * h_cc h + 2)) with (12 + 4 * h_cc h + 2) by (unfold u16; rewrite N.mod_small; lia).
    replace (u16 (12 + 4 * h_cc h + 4)) with (12 + 4 * h_cc h + 4) by (unfold u16; rewrite N.mod_small; lia).
    match goal with |- context [sl (?a0 :: ?a1 :: ?a2 :: ?a3 :: ?a4 :: ?a5 :: ?a6 :: ?a7 :: ?a8 :: ?a9 :: ?a10 :: ?a11 :: _) _ _] =>
      pose proof (sl_at (a0 :: a1 :: a2 :: a3 :: a4 :: a5 :: a6 :: a7 :: a8 :: a9 :: a10 :: a11
                            :: h_csrc h ++ [(profile / 256) mod 256; profile mod 256])
                        [(w / 256) mod 256; w mod 256] (data ++ X)
                        (12 + 4 * h_cc h + 2) (12 + 4 * h_cc h + 4)) as E
    end.
    cbn [app length] in E. rewrite app_length in E. cbn [length] in E.
    rewrite <- !app_assoc in E. cbn [app] in E.
    cbn [app]. rewrite <- !app_assoc. cbn [app].
    rewrite E by lia. clear E.
    rewrite be_val2.
    f_equal. unfold u16.
    assert (Hw : (w / 256) mod 256 * 256 + w mod 256 = w) by lia.
    rewrite Hw.
    rewrite (N.mod_small (1 + w)) by lia.
    rewrite (N.mod_small (4 * (1 + w))) by lia.
    rewrite N.mod_small by lia. lia.
  - rewrite Nat.add_0_r. f_equal. lia.
Qed.

(* -------------------------------------------------------------- c26_unwrap *)

Lemma packet_length : forall h payload padding,
  length (packet h payload padding) = (length (hdr_bytes h) + length payload + length padding)%nat.
Proof. intros. unfold packet. rewrite !app_length. lia. Qed.

(* paddingLength on a laid-out packet with a non-empty body *)
Lemma padding_length_ok : forall h payload padding tail,
  hdr_ok h -> pad_ok h payload padding -> payload ++ padding <> [] ->
  rtx_padding_length (packet h payload padding ++ tail)
    (64 * h_ver h + 32 * bN (h_pad h) + 16 * bN (has_ext h) + h_cc h)
    (N.of_nat (length (packet h payload padding)))
  = Ok (N.of_nat (length padding)).
Proof.
  intros h payload padding tail (Hver & Hcc & _) Hpad Hne.
  unfold rtx_padding_length.
  destruct (b0_fields (h_ver h) (h_pad h) (has_ext h) (h_cc h) Hver Hcc) as (_ & _ & _ & Ep).
  rewrite Ep. unfold pad_ok in Hpad. destruct (h_pad h).
  - destruct (Hpad Hne) as [pre Hpre].
    assert (Hlen : length (packet h payload padding) = S (length (hdr_bytes h ++ pre))).
    { unfold packet. rewrite Hpre, !app_length. cbn [length]. lia. }
    rewrite Hlen.
    replace (N.of_nat (S (length (hdr_bytes h ++ pre))) =? 0) with false
      by (symmetry; apply N.eqb_neq; lia).
    unfold packet. rewrite Hpre.
    replace ((hdr_bytes h ++ pre ++ [N.of_nat (length padding)]) ++ tail)
      with ((hdr_bytes h ++ pre) ++ N.of_nat (length padding) :: tail)
      by (rewrite <- !app_assoc; reflexivity).
    rewrite idx_at; [reflexivity|lia].
  - subst padding. reflexivity.
Qed.

Lemma unwrap_ok : forall h osn rest padding tail ppt pssrc,
  hdr_ok h -> pad_ok h (be_bytes 2 osn ++ rest) padding ->
  ppt < 128 -> pssrc < 4294967296 ->
  N.of_nat (length (packet h (be_bytes 2 osn ++ rest) padding)) < 65536 ->
  rtx_unwrap ppt pssrc (packet h (be_bytes 2 osn ++ rest) padding ++ tail)
             (N.of_nat (length (packet h (be_bytes 2 osn ++ rest) padding)))
  = Ok (Some (mkRtxOut (packet (restore h osn ppt pssrc) rest padding)
                       (h_pt h) (h_seq h) (h_ssrc h))).
Proof.
  intros h osn rest padding tail ppt pssrc Hok Hpad Hppt Hpssrc Hlen.
  pose proof Hok as (Hver & Hcc & Hcsrc & Hpt & Hseq & Hts & Hssrc & Hext).
  unfold rtx_unwrap.
  set (b0 := 64 * h_ver h + 32 * bN (h_pad h) + 16 * bN (has_ext h) + h_cc h).
  assert (E0 : idx (packet h (be_bytes 2 osn ++ rest) padding ++ tail) 0 = Some b0).
  { unfold packet. rewrite <- app_assoc, hdr_layout. reflexivity. }
  rewrite E0. cbn [of_opt rbind].
  rewrite packet_length in Hlen.
  unfold packet at 1. rewrite <- app_assoc.
  rewrite header_length_ok by (exact Hok || lia). cbn [rbind].
  replace (hdr_bytes h ++ ((be_bytes 2 osn ++ rest) ++ padding) ++ tail)
    with (packet h (be_bytes 2 osn ++ rest) padding ++ tail)
    by (unfold packet; now rewrite <- app_assoc).
  rewrite padding_length_ok; [|exact Hok|exact Hpad|rewrite be_bytes2; discriminate].
  cbn [rbind].
  rewrite packet_length. rewrite app_length.
  replace (length (be_bytes 2 osn)) with 2%nat by reflexivity.
  match goal with |- context [Z.ltb ?x 2] => replace (Z.ltb x 2) with false by (symmetry; apply Z.ltb_ge; lia) end.
  (* the rewrite itself *)
  unfold packet. rewrite <- !app_assoc. rewrite hdr_layout. rewrite be_bytes2.
  rewrite <- !app_assoc. cbn [app].
  replace (h_csrc h ++ ext_bytes h ++ (osn / 256) mod 256 :: osn mod 256 :: rest ++ padding ++ tail)
    with ((h_csrc h ++ ext_bytes h) ++ (osn / 256) mod 256 :: osn mod 256 :: (rest ++ padding) ++ tail)
    by (rewrite <- !app_assoc; reflexivity).
  rewrite (rewrite_ok ppt pssrc _ _ _ _ _ _ _ _ _ _ _ _ (h_csrc h ++ ext_bytes h) _ _ (rest ++ padding) tail).
  - cbn [rbind].
    destruct (b1_fields (h_marker h) (h_pt h) ppt Hpt Hppt) as (Ept & Eb1).
    rewrite Ept, Eb1.
    do 3 f_equal.
    + (* packet bytes *)
      unfold restore, hdr_bytes, has_ext. cbn [h_ver h_pad h_ext h_cc h_csrc h_marker h_pt h_seq h_ts h_ssrc].
      unfold u32. rewrite (N.mod_small pssrc) by lia.
      rewrite be_bytes2, !be_bytes4. cbn [app].
      unfold ext_bytes. cbn [h_ext]. rewrite <- !app_assoc. reflexivity.
    + rewrite <- be_bytes2. apply be_val2_bytes, Hseq.
    + rewrite <- be_bytes4. apply be_val4_bytes, Hssrc.
  - rewrite hdr_bytes_length, app_length. lia.
  - rewrite hdr_bytes_length in Hlen |- *. rewrite be_bytes2, !app_length in Hlen. cbn [length] in Hlen. lia.
  - rewrite hdr_bytes_length, !app_length. lia.
Qed.

(* -------------------------------------------------------- c26_short_dropped *)

Lemma idx_some : forall (b : list N) k, (N.to_nat k < length b)%nat -> exists x, idx b k = Some x.
Proof.
  intros b k Hk. unfold idx. destruct (nth_error b (N.to_nat k)) as [x|] eqn:E; [now exists x|].
  apply nth_error_None in E. lia.
Qed.

Lemma short_dropped : forall h payload padding tail ppt pssrc,
  hdr_ok h -> pad_ok h payload padding -> (length payload < 2)%nat ->
  N.of_nat (length (packet h payload padding)) < 65536 ->
  rtx_unwrap ppt pssrc (packet h payload padding ++ tail)
             (N.of_nat (length (packet h payload padding))) = Ok None.
Proof.
  intros h payload padding tail ppt pssrc Hok Hpad Hshort Hlen.
  pose proof Hok as (Hver & Hcc & _).
  unfold rtx_unwrap.
  set (b0 := 64 * h_ver h + 32 * bN (h_pad h) + 16 * bN (has_ext h) + h_cc h).
  assert (E0 : idx (packet h payload padding ++ tail) 0 = Some b0).
  { unfold packet. rewrite <- app_assoc, hdr_layout. reflexivity. }
  rewrite E0. cbn [of_opt rbind].
  pose proof (packet_length h payload padding) as Hpl.
  assert (Hhl : rtx_header_length (packet h payload padding ++ tail) b0
                = Ok (N.of_nat (length (hdr_bytes h)))).
  { unfold packet. rewrite <- app_assoc. apply header_length_ok; [exact Hok|lia]. }
  rewrite Hhl. cbn [rbind].
  destruct (list_eq_dec N.eq_dec (payload ++ padding) []) as [Hnil|Hne].
  - (* no body at all: whatever b[i-1] is, nothing is left for an OSN *)
    apply app_eq_nil in Hnil. destruct Hnil as [-> ->].
    unfold rtx_padding_length.
    destruct (0 <? N.land b0 32).
    + pose proof (hdr_bytes_length h) as Hh.
      replace (N.of_nat (length (packet h [] [])) =? 0) with false
        by (symmetry; apply N.eqb_neq; lia).
      destruct (idx_some (packet h [] [] ++ tail) (N.of_nat (length (packet h [] [])) - 1)) as [x Ex].
      { rewrite app_length. lia. }
      rewrite Ex. cbn [of_opt rbind].
      replace (Z.of_N (N.of_nat (length (packet h [] []))) - Z.of_N (N.of_nat (length (hdr_bytes h))) - Z.of_N x <? 2)%Z
        with true by (symmetry; apply Z.ltb_lt; cbn [length] in Hpl; lia).
      reflexivity.
    + cbn [rbind].
      replace (Z.of_N (N.of_nat (length (packet h [] []))) - Z.of_N (N.of_nat (length (hdr_bytes h))) - Z.of_N 0 <? 2)%Z
        with true by (symmetry; apply Z.ltb_lt; cbn [length] in Hpl; lia).
      reflexivity.
  - rewrite padding_length_ok by assumption. cbn [rbind].
    match goal with |- context [Z.ltb ?x 2] => replace (Z.ltb x 2) with true by (symmetry; apply Z.ltb_lt; lia) end.
    reflexivity.
Qed.

(* ------------------------------------------------------------ c26_no_panic *)

Lemma upd_some : forall (b : list N) k v, (N.to_nat k < length b)%nat ->
  exists b', upd b k v = Some b' /\ length b' = length b.
Proof.
  intros b k v Hk. unfold upd.
  replace (Nat.ltb (N.to_nat k) (length b)) with true by (symmetry; apply Nat.ltb_lt; exact Hk).
  eexists; split; [reflexivity|].
  rewrite app_length. cbn [length]. rewrite firstn_length, skipn_length. lia.
Qed.

Lemma sl_some : forall (b : list N) lo hi, (N.to_nat lo <= N.to_nat hi)%nat -> (N.to_nat hi <= length b)%nat ->
  exists l, sl b lo hi = Some l /\ length l = (N.to_nat hi - N.to_nat lo)%nat.
Proof.
  intros b lo hi H1 H2. unfold sl, slice.
  replace (Nat.leb (N.to_nat lo) (N.to_nat hi)) with true by (symmetry; apply Nat.leb_le; exact H1).
  replace (Nat.leb (N.to_nat hi) (length b)) with true by (symmetry; apply Nat.leb_le; exact H2).
  cbn [andb]. eexists; split; [reflexivity|].
  rewrite firstn_length, skipn_length. lia.
Qed.

Lemma put_u32_some : forall (b : list N) lo v, (N.to_nat lo + 4 <= length b)%nat ->
  exists b', put_u32 b lo v = Some b' /\ length b' = length b.
Proof.
  intros b lo v H. unfold put_u32.
  destruct (sl_some b lo (lo + 4)) as (l & El & _); [lia|lia|].
  rewrite El. eexists; split; [reflexivity|].
  rewrite !app_length, firstn_length, skipn_length. cbn [be_bytes le_bytes rev app length]. lia.
Qed.

Lemma copy_within_some : forall (b : list N) dlo dhi slo shi,
  (N.to_nat dlo <= N.to_nat dhi)%nat -> (N.to_nat dhi <= length b)%nat ->
  (N.to_nat slo <= N.to_nat shi)%nat -> (N.to_nat shi <= length b)%nat ->
  exists b', copy_within b dlo dhi slo shi = Some b' /\ length b' = length b.
Proof.
  intros b dlo dhi slo shi H1 H2 H3 H4. unfold copy_within.
  destruct (sl_some b dlo dhi H1 H2) as (dst & Ed & Ld).
  destruct (sl_some b slo shi H3 H4) as (src & Es & Ls).
  rewrite Ed, Es. eexists; split; [reflexivity|].
  rewrite !app_length, !firstn_length, skipn_length. lia.
Qed.

Lemma header_length_total : forall (b : list N) b0, (76 <= length b)%nat ->
  exists hl, rtx_header_length b b0 = Ok hl /\ hl < 65536.
Proof.
  intros b b0 Hb. unfold rtx_header_length.
  pose proof (land15_lt b0) as Hcc.
  set (cc := N.land b0 15) in *.
  assert (Ehl0 : u16 (u8 (12 + u8 (4 * cc))) = 12 + 4 * cc).
  { unfold u16, u8. rewrite (N.mod_small (4 * cc)) by lia.
    rewrite (N.mod_small (12 + 4 * cc) 256) by lia. apply N.mod_small. lia. }
  rewrite Ehl0.
  destruct (0 <? N.land b0 16).
  - replace (u16 (12 + 4 * cc + 2)) with (12 + 4 * cc + 2) by (unfold u16; rewrite N.mod_small; lia).
    replace (u16 (12 + 4 * cc + 4)) with (12 + 4 * cc + 4) by (unfold u16; rewrite N.mod_small; lia).
    destruct (sl_some b (12 + 4 * cc + 2) (12 + 4 * cc + 4)) as (l & El & Ll); [lia|lia|].
    rewrite El.
    destruct l as [|x [|y [|z l]]]; cbn [length] in Ll; try lia.
    eexists; split; [reflexivity|]. unfold u16. apply N.mod_lt. discriminate.
  - eexists; split; [reflexivity|lia].
Qed.

Lemma padding_length_total : forall (b : list N) b0 i,
  1 <= i -> (N.to_nat i <= length b)%nat ->
  exists p, rtx_padding_length b b0 i = Ok p.
Proof.
  intros b b0 i Hi1 Hi2. unfold rtx_padding_length.
  destruct (0 <? N.land b0 32); [|now exists 0].
  replace (i =? 0) with false by (symmetry; apply N.eqb_neq; lia).
  destruct (idx_some b (i - 1)) as [x Ex]; [lia|].
  rewrite Ex. now exists x.
Qed.

Lemma rewrite_total : forall ppt pssrc (b : list N) i hl,
  (76 <= length b)%nat -> (N.to_nat i <= length b)%nat -> hl < 65536 -> hl + 2 <= i ->
  exists o, rtx_rewrite ppt pssrc b i hl = Ok o.
Proof.
  intros ppt pssrc b i hl Hb Hi Hhl Hroom. unfold rtx_rewrite.
  destruct (idx_some b 1) as [b1 E1]; [lia|]. rewrite E1. cbn [of_opt rbind].
  destruct (sl_some b 2 4) as (s24 & E24 & _); [lia|lia|]. rewrite E24. cbn [of_opt rbind].
  destruct (sl_some b 8 12) as (s812 & E812 & _); [lia|lia|]. rewrite E812. cbn [of_opt rbind].
  destruct (upd_some b 1 (N.lor (N.land b1 128) (u8 ppt))) as (bA & EA & LA); [lia|].
  rewrite EA. cbn [of_opt rbind].
  destruct (idx_some bA hl) as [v2 Ev2]; [lia|]. rewrite Ev2. cbn [of_opt rbind].
  destruct (upd_some bA 2 v2) as (bB & EB & LB); [lia|]. rewrite EB. cbn [of_opt rbind].
  assert (H1 : u16 (hl + 1) <= hl + 1) by (unfold u16; apply N.mod_le; discriminate).
  destruct (idx_some bB (u16 (hl + 1))) as [v3 Ev3]; [lia|]. rewrite Ev3. cbn [of_opt rbind].
  destruct (upd_some bB 3 v3) as (bC & EC & LC); [lia|]. rewrite EC. cbn [of_opt rbind].
  destruct (put_u32_some bC 8 pssrc) as (bD & ED & LD); [lia|]. rewrite ED. cbn [of_opt rbind].
  assert (H2 : u16 (hl + 2) <= hl + 2) by (unfold u16; apply N.mod_le; discriminate).
  destruct (copy_within_some bD hl (i - 2) (u16 (hl + 2)) i) as (bE & EE & LE); [lia|lia|lia|lia|].
  rewrite EE. cbn [of_opt rbind].
  destruct (sl_some bE 0 (i - 2)) as (pkt & Ep & _); [lia|lia|]. rewrite Ep. cbn [of_opt rbind].
  eexists; reflexivity.
Qed.

Lemma no_panic : forall ppt pssrc (b : list N) i,
  (76 <= length b)%nat -> 1 <= i -> (N.to_nat i <= length b)%nat ->
  rtx_unwrap ppt pssrc b i <> Panic.
Proof.
  intros ppt pssrc b i Hb Hi1 Hi2. unfold rtx_unwrap.
  destruct (idx_some b 0) as [b0 E0]; [lia|]. rewrite E0. cbn [of_opt rbind].
  destruct (header_length_total b b0 Hb) as (hl & Ehl & Hhl). rewrite Ehl. cbn [rbind].
  destruct (padding_length_total b b0 i Hi1 Hi2) as (p & Ep). rewrite Ep. cbn [rbind].
  destruct (Z.of_N i - Z.of_N hl - Z.of_N p <? 2)%Z eqn:Echeck; [discriminate|].
  apply Z.ltb_ge in Echeck.
  destruct (rewrite_total ppt pssrc b i hl Hb Hi2 Hhl) as (o & Eo); [lia|].
  rewrite Eo. cbn [rbind]. discriminate.
Qed.

(* the domain bound is tight: a zero-length read with a stale padding bit would
   index b[-1] (unreachable behind SRTP, which only delivers packets whose
   12-byte header parsed) *)
Lemma zero_length_read_panics :
  rtx_unwrap 96 1 (32 :: repeat 0 75) 0 = Panic.
Proof. reflexivity. Qed.

(* ---------- histories ---------- *)

Lemma land127_lt : forall n, N.land n 127 < 128.
Proof.
  intros n. change 127 with (N.ones 7). rewrite N.land_ones.
  apply N.mod_lt. discriminate.
Qed.

Section HistoryProofs.
Variable known : N -> bool.

Lemma check_and_update_pt st b :
  st_pt (fst (check_and_update known st b)) =
    match idx b 1 with
    | Some b1 => if known (N.land b1 127) then N.land b1 127 else st_pt st
    | None => st_pt st
    end /\
  st_ssrc (fst (check_and_update known st b)) = st_ssrc st.
Proof.
  unfold check_and_update. destruct (idx b 1) as [b1|]; [|auto].
  destruct (N.land b1 127 =? st_pt st) eqn:E; cbn [negb orb].
  - apply N.eqb_eq in E. destruct (st_params st); cbn [negb].
    + cbn [fst]. rewrite E. destruct (known (st_pt st)); auto.
    + destruct (known (N.land b1 127)) eqn:K; cbn [fst st_pt st_ssrc]; auto.
  - destruct (known (N.land b1 127)) eqn:K; cbn [fst st_pt st_ssrc]; auto.
Qed.

Lemma rtx_step_state st e :
  st_pt (fst (rtx_step known st e)) = current_pt known (st_pt st) [e] /\
  st_ssrc (fst (rtx_step known st e)) = st_ssrc st.
Proof.
  destruct e as [b n|b i]; cbn [rtx_step current_pt fst]; [|auto].
  pose proof (check_and_update_pt st b) as [H1 H2].
  destruct (check_and_update known st b) as [st' ok]. cbn [fst] in *. auto.
Qed.

Lemma current_pt_app pt0 evs1 evs2 :
  current_pt known pt0 (evs1 ++ evs2) = current_pt known (current_pt known pt0 evs1) evs2.
Proof.
  revert pt0. induction evs1 as [|e t IH]; intros pt0; [reflexivity|].
  destruct e; cbn [app current_pt]; apply IH.
Qed.

(* the track's payload type after a history is the specification's, the SSRC
   never moves *)
Lemma state_after_spec evs : forall st,
  st_pt (rtx_state_after known st evs) = current_pt known (st_pt st) evs /\
  st_ssrc (rtx_state_after known st evs) = st_ssrc st.
Proof.
  induction evs as [|e t IH]; intros st; [auto|].
  unfold rtx_state_after in *. cbn [fold_left].
  destruct (IH (fst (rtx_step known st e))) as [H1 H2].
  destruct (rtx_step_state st e) as [H3 H4].
  rewrite H1, H2, H3, H4. split; auto.
  change (e :: t) with ([e] ++ t). now rewrite current_pt_app.
Qed.

Lemma current_pt_lt pt0 evs : pt0 < 128 -> current_pt known pt0 evs < 128.
Proof.
  revert pt0. induction evs as [|e t IH]; intros pt0 H; [exact H|].
  destruct e as [b n|b i]; cbn [current_pt]; apply IH; auto.
  destruct (idx b 1) as [b1|]; auto. destruct (known _); auto. apply land127_lt.
Qed.

Lemma history_nth evs1 : forall st e evs2,
  nth_error (rtx_history known st (evs1 ++ e :: evs2)) (length evs1)
  = Some (snd (rtx_step known (rtx_state_after known st evs1) e)).
Proof.
  induction evs1 as [|e1 t IH]; intros st e evs2.
  - cbn [app length rtx_history nth_error]. unfold rtx_state_after. cbn [fold_left].
    destruct (rtx_step known st e). reflexivity.
  - cbn [app length rtx_history].
    destruct (rtx_step known st e1) as [st' o] eqn:E. cbn [nth_error].
    rewrite IH. unfold rtx_state_after. cbn [fold_left]. rewrite E. reflexivity.
Qed.

Lemma history_length evs : forall st, length (rtx_history known st evs) = length evs.
Proof.
  induction evs as [|e t IH]; intros st; [reflexivity|].
  cbn [rtx_history]. destruct (rtx_step known st e). cbn [length]. now rewrite IH.
Qed.

(* c26_unwrap lifted to histories: a well-formed repair packet anywhere in any
   history comes out restored with the primary stream's CURRENT payload type *)
Lemma unwrap_history : forall st evs1 evs2 h osn rest padding tail,
  hdr_ok h -> pad_ok h (be_bytes 2 osn ++ rest) padding ->
  st_pt st < 128 -> st_ssrc st < 4294967296 ->
  N.of_nat (length (packet h (be_bytes 2 osn ++ rest) padding)) < 65536 ->
  nth_error
    (rtx_history known st
       (evs1 ++ EvRtx (packet h (be_bytes 2 osn ++ rest) padding ++ tail)
                      (N.of_nat (length (packet h (be_bytes 2 osn ++ rest) padding))) :: evs2))
    (length evs1)
  = Some (ObsRtx (Ok (Some (mkRtxOut
      (packet (restore h osn (current_pt known (st_pt st) evs1) (st_ssrc st)) rest padding)
      (h_pt h) (h_seq h) (h_ssrc h))))).
Proof.
  intros st evs1 evs2 h osn rest padding tail Hok Hpad Hpt Hssrc Hlen.
  rewrite history_nth. cbn [rtx_step snd].
  destruct (state_after_spec evs1 st) as [H1 H2]. rewrite H1, H2.
  rewrite unwrap_ok; auto. now apply current_pt_lt.
Qed.

(* c26_no_panic lifted to histories *)
Definition event_in_domain (e : rtx_event) : Prop :=
  match e with
  | EvRtx b i => (76 <= length b)%nat /\ 1 <= i /\ (N.to_nat i <= length b)%nat
  | EvPrimary _ _ => True
  end.

Lemma history_no_panic evs : forall st,
  Forall event_in_domain evs ->
  ~ In (ObsRtx Panic) (rtx_history known st evs).
Proof.
  induction evs as [|e t IH]; intros st Hd; [intros []|].
  inversion Hd as [|? ? He Ht]; subst. cbn [rtx_history].
  destruct (rtx_step known st e) as [st' o] eqn:E. intros [H|H].
  - destruct e as [b n|b i]; cbn [rtx_step] in E.
    + destruct (check_and_update known st b). inversion E as [[Est Eo]]. rewrite <- Eo in H. discriminate.
    + inversion E as [[Est Eo]]. rewrite <- Eo in H. inversion H as [Hp].
      destruct He as (A & B & C). eapply no_panic; eauto.
  - eapply IH; eauto.
Qed.

End HistoryProofs.

Lemma history_state : forall known st evs,
  st_pt (rtx_state_after known st evs) = current_pt known (st_pt st) evs /\
  st_ssrc (rtx_state_after known st evs) = st_ssrc st /\
  (st_pt st < 128 -> current_pt known (st_pt st) evs < 128).
Proof.
  intros known st evs. destruct (state_after_spec known evs st) as [H1 H2].
  repeat split; auto. apply current_pt_lt.
Qed.

Lemma history_no_panic' : forall known st evs,
  Forall event_in_domain evs -> ~ In (ObsRtx Panic) (rtx_history known st evs).
Proof. intros known st evs. apply history_no_panic. Qed.

(* a non-trivial header for the satisfiability examples of Properties/C26.v *)
Definition ex_hdr : rtp_hdr :=
  mkHdr 2 true (Some (48862, [16; 170; 0; 0])) 2 [1; 2; 3; 4; 5; 6; 7; 8] true 97 513 90000 2222.

Lemma ex_premises_ok :
  hdr_ok ex_hdr /\ pad_ok ex_hdr (be_bytes 2 4660 ++ [9; 8; 7]) [0; 0; 3].
Proof.
  split.
  - unfold hdr_ok, ex_hdr. cbn [h_ver h_cc h_csrc h_pt h_seq h_ts h_ssrc h_ext length].
    repeat split; try lia; reflexivity.
  - unfold pad_ok, ex_hdr. cbn [h_pad]. intros _. now exists [18; 52; 9; 8; 7; 0; 0].
Qed.
