(* Proofs about the Annex-B reader model (C34). *)
From Coq Require Import List ZArith NArith String Bool Lia ZifyBool ZifyNat ZifyN.
Import ListNotations.
From Verif Require Import Common.V Common.Base Common.Media1Util Model.AnnexB Proofs.Media1Util.
Open Scope N_scope.

(* ================================================================== *)
(* Part 1: the reader over the plain byte string                       *)
(* ================================================================== *)

Lemma rev_append_nil : forall {A} (l : list A), rev_append l [] = rev l.
Proof. intros. rewrite rev_append_rev, app_nil_r. reflexivity. Qed.

(* leading zeros of the reversed buffer = trailing zeros of nalBuffer *)
Fixpoint lead0 (l : list N) : N :=
  match l with
  | x :: t => if x =? 0 then N.succ (lead0 t) else 0
  | [] => 0
  end.

Lemma lead0_ge2 : forall l, 2 <= lead0 l -> exists t, l = 0 :: 0 :: t.
Proof.
  intros l H. destruct l as [|x [|y t]]; cbn [lead0] in H.
  - lia.
  - destruct (N.eqb_spec x 0); cbn [lead0] in H; lia.
  - destruct (N.eqb_spec x 0); [|lia]. destruct (N.eqb_spec y 0); [|lia].
    subst. eexists. reflexivity.
Qed.

Lemma has_sc_mid : forall x c y, (c = 0 \/ c = 1) -> has_sc (x ++ 0 :: 0 :: c :: y) = true.
Proof.
  induction x as [|a x IH]; intros c y Hc.
  - cbn [app has_sc]. destruct Hc; subst; reflexivity.
  - cbn [app]. cbn [has_sc]. rewrite (IH c y Hc). apply orb_true_r.
Qed.

Section Flat.
Variable sk : N -> bool.

(* scanning bytes that complete no start code: nothing is found *)
Lemma floop_scan : forall m nb z rest,
  z <= lead0 nb -> has_sc (rev nb ++ m) = false ->
  exists z', floop sk (m ++ rest) nb z = floop sk rest (rev m ++ nb) z' /\ z' <= lead0 (rev m ++ nb).
Proof.
  induction m as [|b m IH]; intros nb z rest Hz Hsc.
  - exists z. split; [reflexivity|exact Hz].
  - assert (Hsc' : has_sc (rev (b :: nb) ++ m) = false).
    { cbn [rev]. rewrite <- app_assoc. exact Hsc. }
    cbn [app floop]. unfold process_byte.
    destruct (N.eqb_spec b 0) as [E0|E0].
    + subst b.
      destruct (IH (0 :: nb) (z + 1) rest) as (z' & H1 & H2).
      { cbn [lead0]. change (0 =? 0) with true. cbv iota. lia. }
      { exact Hsc'. }
      exists z'. cbn [rev]. rewrite <- app_assoc. cbn [app]. split; assumption.
    + destruct (N.eqb_spec b 1) as [E1|E1].
      * subst b. destruct (N.leb_spec 2 z) as [Hge|Hlt].
        { exfalso. destruct (lead0_ge2 nb ltac:(lia)) as (t & ->).
          cbn [rev] in Hsc. rewrite <- !app_assoc in Hsc. cbn [app] in Hsc.
          rewrite has_sc_mid in Hsc by auto. discriminate. }
        destruct (IH (1 :: nb) 0 rest) as (z' & H1 & H2); [lia|exact Hsc'|].
        exists z'. cbn [rev]. rewrite <- app_assoc. cbn [app]. split; assumption.
      * destruct (IH (b :: nb) 0 rest) as (z' & H1 & H2); [lia|exact Hsc'|].
        exists z'. cbn [rev]. rewrite <- app_assoc. cbn [app]. split; assumption.
Qed.

Lemma last_nonzero_rev : forall n, last_nonzero n = true ->
  exists x t, rev n = x :: t /\ x <> 0.
Proof.
  intros n H. unfold last_nonzero in H. rewrite rev_append_nil in H.
  destruct (rev n) as [|x t]; [discriminate|].
  exists x, t. split; [reflexivity|]. destruct (N.eqb_spec x 0); [discriminate|assumption].
Qed.

Lemma nal_ok_parts : forall n, nal_ok n = true -> last_nonzero n = true /\ has_sc n = false.
Proof.
  intros n H. unfold nal_ok in H. apply andb_prop in H. destruct H as [H1 H2].
  split; [assumption|]. destruct (has_sc n); [discriminate|reflexivity].
Qed.

Lemma skip_unit_rev : forall n, n <> [] -> skip_unit sk (rev n) = Ok (unit_skipped sk n).
Proof.
  intros n Hn. unfold skip_unit. rewrite rev_append_nil, rev_involutive.
  destruct n; [contradiction|reflexivity].
Qed.

(* a start code after a complete unit: the unit is found with the code cut off *)
Lemma floop_start_code : forall four nbn rest,
  nbn <> [] ->
  floop sk (start_code four ++ rest) nbn 0 =
  match skip_unit sk nbn with
  | Ok true => floop sk rest [] 0
  | Ok false => Some (nbn, 0, rest)
  | _ => None
  end.
Proof.
  intros four nbn rest Hne.
  assert (Hl : 1 <= lenN nbn) by (destruct nbn; [contradiction|cbn [lenN]; lia]).
  destruct four; cbn [start_code app floop]; unfold process_byte;
    cbn [N.eqb N.add N.leb N.ltb N.compare Pos.compare Pos.compare_cont Pos.eqb Pos.add Pos.succ].
  - destruct (N.ltb_spec 3 (lenN (0 :: 0 :: 0 :: nbn))) as [_|H]; [|cbn [lenN] in H; lia].
    cbn [dropN N.eqb N.pred Pos.pred_N Pos.pred_double]. rewrite dropN_0. reflexivity.
  - destruct (N.ltb_spec 2 (lenN (0 :: 0 :: nbn))) as [_|H]; [|cbn [lenN] in H; lia].
    cbn [dropN N.eqb N.pred Pos.pred_N Pos.pred_double]. rewrite dropN_0. reflexivity.
Qed.

(* the unread part n' of a unit n (rev nb0 already in the buffer), then a start code *)
Lemma floop_unit : forall n' nb0 z0 n four rest,
  rev nb0 ++ n' = n -> nal_ok n = true -> z0 <= lead0 nb0 ->
  floop sk (n' ++ start_code four ++ rest) nb0 z0 =
  if unit_skipped sk n then floop sk rest [] 0 else Some (rev n, 0, rest).
Proof.
  intros n' nb0 z0 n four rest Hn Hok Hz.
  destruct (nal_ok_parts n Hok) as [Hlast Hsc].
  destruct (floop_scan n' nb0 z0 (start_code four ++ rest) Hz ltac:(rewrite Hn; exact Hsc))
    as (z' & Hf & Hz').
  assert (Hrev : rev n' ++ nb0 = rev n).
  { rewrite <- Hn, rev_app_distr, rev_involutive. reflexivity. }
  rewrite Hrev in *.
  destruct (last_nonzero_rev n Hlast) as (x & t & Hx & Hx0).
  assert (Ez : z' = 0).
  { rewrite Hx in Hz'. cbn [lead0] in Hz'. destruct (N.eqb_spec x 0); [contradiction|lia]. }
  subst z'. rewrite Hf.
  assert (Hne : n <> []) by (intros ->; discriminate).
  rewrite floop_start_code by (rewrite Hx; discriminate).
  rewrite skip_unit_rev by exact Hne.
  destruct (unit_skipped sk n); reflexivity.
Qed.

(* ... then the end of the stream *)
Lemma floop_last_unit : forall n' nb0 z0 n,
  rev nb0 ++ n' = n -> nal_ok n = true -> z0 <= lead0 nb0 ->
  floop sk n' nb0 z0 = Some (rev n, 0, []).
Proof.
  intros n' nb0 z0 n Hn Hok Hz.
  destruct (nal_ok_parts n Hok) as [Hlast Hsc].
  destruct (floop_scan n' nb0 z0 [] Hz ltac:(rewrite Hn; exact Hsc)) as (z' & Hf & Hz').
  rewrite app_nil_r in Hf.
  assert (Hrev : rev n' ++ nb0 = rev n).
  { rewrite <- Hn, rev_app_distr, rev_involutive. reflexivity. }
  rewrite Hrev in *.
  destruct (last_nonzero_rev n Hlast) as (x & t & Hx & Hx0).
  assert (Ez : z' = 0).
  { rewrite Hx in Hz'. cbn [lead0] in Hz'. destruct (N.eqb_spec x 0); [contradiction|lia]. }
  subst z'. rewrite Hf. reflexivity.
Qed.

Definition units_ok (tail : list (bool * list N)) : Prop :=
  Forall (fun wn => nal_ok (snd wn) = true) tail.

Lemma frame_cons : forall w m t, frame ((w, m) :: t) = start_code w ++ m ++ frame t.
Proof. intros. unfold frame. cbn [flat_map fst snd]. rewrite <- app_assoc. reflexivity. Qed.

(* where one NextNAL stops: the unit it ends on and the bytes left *)
Fixpoint stop (n : list N) (tail : list (bool * list N)) : list N * list N :=
  match tail with
  | [] => (n, [])
  | (w, m) :: t => if unit_skipped sk n then stop m t else (n, m ++ frame t)
  end.

Lemma floop_units : forall tail n' nb0 z0 n,
  rev nb0 ++ n' = n -> nal_ok n = true -> units_ok tail -> z0 <= lead0 nb0 ->
  floop sk (n' ++ frame tail) nb0 z0 = Some (rev (fst (stop n tail)), 0, snd (stop n tail)).
Proof.
  induction tail as [|[w m] t IH]; intros n' nb0 z0 n Hn Hok Ht Hz.
  - cbn [frame flat_map stop fst snd]. rewrite app_nil_r. apply floop_last_unit; assumption.
  - rewrite frame_cons. rewrite (floop_unit n' nb0 z0 n w (m ++ frame t) Hn Hok Hz).
    cbn [stop]. pose proof (Forall_inv Ht) as Hm; pose proof (Forall_inv_tail Ht) as Ht'. cbn [snd] in Hm.
    destruct (unit_skipped sk n); [|reflexivity].
    apply IH; try assumption; [reflexivity|cbn [lead0]; lia].
Qed.

Lemma stop_ok : forall tail n, nal_ok n = true -> units_ok tail -> nal_ok (fst (stop n tail)) = true.
Proof.
  induction tail as [|[w m] t IH]; intros n Hok Ht; cbn [stop].
  - exact Hok.
  - pose proof (Forall_inv Ht) as Hm; pose proof (Forall_inv_tail Ht) as Ht'. cbn [snd] in Hm.
    destruct (unit_skipped sk n); [apply IH; assumption|exact Hok].
Qed.

Lemma nal_ok_nonempty : forall n, nal_ok n = true -> exists b t, n = b :: t.
Proof.
  intros n H. destruct n as [|b t]; [discriminate|]. eauto.
Qed.

Lemma fafter_units : forall tail n' nb0 z0 n,
  rev nb0 ++ n' = n -> nal_ok n = true -> units_ok tail -> z0 <= lead0 nb0 ->
  fafter sk (n' ++ frame tail) nb0 z0 =
  let nk := fst (stop n tail) in
  if unit_skipped sk nk then (Err "eof"%string, (snd (stop n tail), [], 0, true))
  else (Ok nk, (snd (stop n tail), [], 0, true)).
Proof.
  intros tail n' nb0 z0 n Hn Hok Ht Hz. unfold fafter.
  rewrite (floop_units tail n' nb0 z0 n Hn Hok Ht Hz).
  rewrite rev_append_nil, rev_involutive.
  destruct (nal_ok_nonempty _ (stop_ok tail n Hok Ht)) as (b & t & E).
  cbv zeta. rewrite E. cbn [unit_skipped]. destruct (sk b); reflexivity.
Qed.

Definition kept (n : list N) : bool := negb (unit_skipped sk n).

(* the successive calls from a unit boundary on *)
Lemma fread_units : forall tail fuel n' nb0 z0 n,
  rev nb0 ++ n' = n -> nal_ok n = true -> units_ok tail -> z0 <= lead0 nb0 ->
  (S (List.length tail) < fuel)%nat ->
  fread_nals fuel sk (n' ++ frame tail, nb0, z0, true)
  = (filter kept (n :: map snd tail), "eof"%string).
Proof.
  induction tail as [|[w m] t IH]; intros fuel n' nb0 z0 n Hn Hok Ht Hz Hf.
  - destruct fuel as [|fuel]; [lia|]. cbn [fread_nals fnext].
    rewrite (fafter_units [] n' nb0 z0 n Hn Hok Ht Hz). cbn [stop fst snd map filter].
    unfold kept. destruct (unit_skipped sk n); cbn [negb]; [reflexivity|].
    destruct fuel as [|fuel]; [cbn [List.length] in Hf; lia|].
    cbn [fread_nals fnext fafter floop rev_append fst snd]. reflexivity.
  - pose proof (Forall_inv Ht) as Hm; pose proof (Forall_inv_tail Ht) as Ht'. cbn [snd] in Hm.
    destruct fuel as [|fuel]; [lia|]. cbn [List.length] in Hf.
    cbn [fread_nals fnext].
    rewrite (fafter_units ((w, m) :: t) n' nb0 z0 n Hn Hok Ht Hz).
    cbn [stop map filter snd]. unfold kept at 1.
    destruct (unit_skipped sk n) eqn:Esk; cbn [negb].
    + (* skipped: the same call goes on with the next unit *)
      specialize (IH (S fuel) m [] 0 m eq_refl Hm Ht' ltac:(cbn [lead0]; lia) ltac:(lia)).
      cbn [fread_nals fnext] in IH. cbn [app] in IH.
      rewrite (fafter_units t m [] 0 m eq_refl Hm Ht' ltac:(cbn [lead0]; lia)) in IH.
      exact IH.
    + cbn [fst snd]. rewrite Esk.
      rewrite (IH fuel m [] 0 m eq_refl Hm Ht' ltac:(cbn [lead0]; lia) ltac:(lia)).
      reflexivity.
Qed.

Lemma lenN_start_code : forall w, 3 <= lenN (start_code w).
Proof. destruct w; cbn; lia. Qed.

Lemma fprefix_frame : forall w n t,
  nal_ok n = true ->
  exists n' nb0, fprefix (frame ((w, n) :: t)) [] = (Ok nb0, n' ++ frame t)
                 /\ rev nb0 ++ n' = n /\ 0 <= lead0 nb0.
Proof.
  intros w n t Hok. destruct (nal_ok_nonempty n Hok) as (b & r & ->).
  rewrite frame_cons. unfold fprefix.
  assert (Hlen : forall x y z l, (lenN (x :: y :: z :: b :: l) <? 4) = false).
  { intros. cbn [lenN]. destruct (N.ltb_spec (N.succ (N.succ (N.succ (N.succ (lenN l))))) 4); [lia|reflexivity]. }
  destruct w; cbn [start_code app].
  - exists (b :: r), []. split; [|split; [reflexivity|lia]].
    assert (Hl4 : forall l, (lenN (0 :: 0 :: 0 :: 1 :: l) <? 4) = false).
    { intros. cbn [lenN]. destruct (N.ltb_spec (N.succ (N.succ (N.succ (N.succ (lenN l))))) 4); [lia|reflexivity]. }
    rewrite Hl4. cbn. rewrite ?dropN_0. reflexivity.
  - exists r, [b]. split; [|split; [reflexivity|lia]].
    rewrite Hlen. cbn. rewrite ?dropN_0. reflexivity.
Qed.

Lemma length_frame : forall ws, (List.length ws <= List.length (frame ws))%nat.
Proof.
  induction ws as [|[w n] t IH]; [cbn; lia|].
  rewrite frame_cons, !app_length. cbn [List.length].
  destruct w; cbn [start_code List.length]; lia.
Qed.

(* the whole stream: exactly the units the skip rule keeps, then EOF *)
Theorem flat_read_frame : forall ws,
  units_ok ws -> flat_read_all sk (frame ws) = (filter kept (map snd ws), "eof"%string).
Proof.
  intros ws Hok. unfold flat_read_all. destruct ws as [|[w n] t].
  - reflexivity.
  - pose proof (Forall_inv Hok) as Hn; pose proof (Forall_inv_tail Hok) as Ht. cbn [snd] in Hn.
    destruct (fprefix_frame w n t Hn) as (n' & nb0 & Hp & Hrev & Hz).
    pose proof (length_frame ((w, n) :: t)) as Hlen. cbn [List.length] in Hlen.
    set (fuel := List.length (frame ((w, n) :: t))) in *.
    pose proof (fread_units t (S (S fuel)) n' nb0 0 n Hrev Hn Ht Hz ltac:(lia)) as H.
    cbn [fread_nals fnext] in H |- *. rewrite Hp. exact H.
Qed.

End Flat.

(* ================================================================== *)
(* Part 2: chunked delivery does not matter                            *)
(* ================================================================== *)

Definition chunks_ok (cs : list (list N)) : Prop := Forall (fun c => c <> []) cs.

(* the bytes still to come *)
Definition pending (s : rstate) : list N := rbuf s ++ List.concat (chunks s).

Lemma at_least_spec : forall {A} (l : list A) k, at_least k l = (k <=? lenN l).
Proof.
  induction l as [|x t IH]; intros k; cbn [at_least lenN].
  - destruct (N.eqb_spec k 0), (N.leb_spec k 0); try reflexivity; lia.
  - destruct (N.eqb_spec k 0) as [E|E].
    + destruct (N.leb_spec k (N.succ (lenN t))); [reflexivity|lia].
    + rewrite IH. destruct (N.leb_spec (N.pred k) (lenN t)), (N.leb_spec k (N.succ (lenN t))); try reflexivity; lia.
Qed.

Lemma refill_spec : forall cs k rb,
  chunks_ok cs ->
  match refill k rb cs with
  | (ok, rb', cs') =>
      rb' ++ List.concat cs' = rb ++ List.concat cs /\ chunks_ok cs' /\
      (if ok then k <= lenN rb' else cs' = [] /\ lenN rb' < k)
  end.
Proof.
  induction cs as [|c cs IH]; intros k rb Hok; cbn [refill]; rewrite at_least_spec.
  - destruct (N.leb_spec k (lenN rb)); repeat split; auto.
  - destruct (N.leb_spec k (lenN rb)); [repeat split; auto|].
    inversion Hok as [|? ? Hc Hcs]; subst.
    destruct c as [|x c]; [contradiction|].
    specialize (IH k (rb ++ x :: c) Hcs).
    destruct (refill k (rb ++ x :: c) cs) as [[ok rb'] cs'].
    destruct IH as (I1 & I2 & I3). repeat split; try assumption.
    rewrite I1. cbn [List.concat]. rewrite <- app_assoc. reflexivity.
Qed.

Lemma takeN_app_ge : forall {A} (a b : list A) k, k <= lenN a -> takeN k (a ++ b) = takeN k a.
Proof.
  induction a as [|x a IH]; intros b k H; cbn [lenN] in H.
  - assert (k = 0) by lia. subst. cbn [app]. rewrite takeN_0. reflexivity.
  - cbn [app takeN]. destruct (N.eqb_spec k 0); [reflexivity|]. f_equal. apply IH. lia.
Qed.

Lemma dropN_app_ge : forall {A} (a b : list A) k, k <= lenN a -> dropN k (a ++ b) = dropN k a ++ b.
Proof.
  induction a as [|x a IH]; intros b k H; cbn [lenN] in H.
  - assert (k = 0) by lia. subst. cbn [app]. rewrite dropN_0. reflexivity.
  - cbn [app dropN]. destruct (N.eqb_spec k 0); [reflexivity|]. apply IH. lia.
Qed.

(* read k over well-formed chunks is reading from the pending bytes *)
Lemma read_spec : forall k s,
  chunks_ok (chunks s) ->
  match read k s with
  | (r, s') =>
      chunks_ok (chunks s') /\ nalrev s' = nalrev s /\ zeros s' = zeros s /\ parsed s' = parsed s /\
      (if k <=? lenN (pending s)
       then r = Some (takeN k (pending s)) /\ pending s' = dropN k (pending s)
       else r = None /\ pending s' = pending s)
  end.
Proof.
  intros k s Hok. unfold read. pose proof (refill_spec (chunks s) k (rbuf s) Hok) as H.
  destruct (refill k (rbuf s) (chunks s)) as [[ok rb'] cs']. destruct H as (H1 & H2 & H3).
  fold (pending s) in H1.
  destruct ok; cbn [chunks nalrev zeros parsed]; repeat split; try assumption.
  - destruct (N.leb_spec k (lenN (pending s))) as [_|Hlt].
    + rewrite <- H1.
      rewrite takeN_app_ge, dropN_app_ge by exact H3. split; reflexivity.
    + rewrite <- H1, lenN_app in Hlt. lia.
  - destruct H3 as [-> H3]. destruct (N.leb_spec k (lenN (pending s))) as [Hge|_].
    + rewrite <- H1 in Hge. cbn [List.concat] in Hge. rewrite app_nil_r in Hge. lia.
    + split; [reflexivity|]. exact H1.
Qed.

Section Chunked.
Variable sk : N -> bool.

Lemma read1_spec : forall s,
  chunks_ok (chunks s) ->
  match pending s with
  | [] => exists s', read 1 s = (None, s') /\ pending s' = [] /\ chunks_ok (chunks s') /\
                     nalrev s' = nalrev s /\ zeros s' = zeros s /\ parsed s' = parsed s
  | b :: t => exists s', read 1 s = (Some [b], s') /\ pending s' = t /\ chunks_ok (chunks s') /\
                         nalrev s' = nalrev s /\ zeros s' = zeros s /\ parsed s' = parsed s
  end.
Proof.
  intros s Hok. pose proof (read_spec 1 s Hok) as H.
  destruct (read 1 s) as [r s']. destruct H as (H1 & H2 & H3 & H4 & H5).
  destruct (pending s) as [|b t] eqn:Ep.
  - cbn [lenN] in H5. change (1 <=? 0) with false in H5. destruct H5 as [-> H5].
    exists s'. repeat split; assumption.
  - cbn [lenN] in H5. destruct (N.leb_spec 1 (N.succ (lenN t))) as [_|Hc]; [|lia].
    destruct H5 as [-> H5]. exists s'. cbn [takeN dropN N.eqb N.pred] in *.
    rewrite takeN_0. rewrite dropN_0 in H5. repeat split; assumption.
Qed.

Lemma pending_set_nal : forall s nb z, pending (set_nal s nb z) = pending s.
Proof. reflexivity. Qed.

(* the loop of NextNAL against the loop over the pending bytes *)
Lemma nal_loop_sim : forall fuel s,
  chunks_ok (chunks s) -> (List.length (pending s) < fuel)%nat ->
  match floop sk (pending s) (nalrev s) (zeros s) with
  | None => nal_loop fuel sk s = LoopPanic
  | Some (nb, z, rest) =>
      exists s', nal_loop fuel sk s = Broke s' /\ pending s' = rest /\ nalrev s' = nb /\
                 zeros s' = z /\ parsed s' = parsed s /\ chunks_ok (chunks s')
  end.
Proof.
  induction fuel as [|fuel IH]; intros s Hok Hf; [lia|].
  pose proof (read1_spec s Hok) as Hr. cbn [nal_loop].
  destruct (pending s) as [|b t] eqn:Ep.
  - destruct Hr as (s' & -> & P1 & P2 & P3 & P4 & P5). cbn [floop].
    exists s'. repeat split; congruence.
  - destruct Hr as (s' & -> & P1 & P2 & P3 & P4 & P5). cbn [floop].
    rewrite P3, P4.
    destruct (process_byte b (nalrev s) (zeros s)) as [[found nb] z].
    destruct found.
    + destruct (skip_unit sk nb) as [[|]| |].
      * specialize (IH (set_nal s' [] z) P2).
        rewrite pending_set_nal, P1 in IH. cbn [List.length] in Hf.
        specialize (IH ltac:(lia)). cbn [set_nal nalrev zeros parsed chunks] in IH.
        destruct (floop sk t [] z) as [[[nb2 z2] rest]|]; [|exact IH].
        destruct IH as (s2 & I1 & I2 & I3 & I4 & I5 & I6).
        exists s2. repeat split; try assumption. congruence.
      * exists (set_nal s' nb z). rewrite pending_set_nal.
        cbn [set_nal nalrev zeros parsed chunks]. repeat split; assumption.
      * reflexivity.
      * reflexivity.
    + specialize (IH (set_nal s' (b :: nb) z) P2).
      rewrite pending_set_nal, P1 in IH. cbn [List.length] in Hf.
      specialize (IH ltac:(lia)). cbn [set_nal nalrev zeros parsed chunks] in IH.
      destruct (floop sk t (b :: nb) z) as [[[nb2 z2] rest]|]; [|exact IH].
      destruct IH as (s2 & I1 & I2 & I3 & I4 & I5 & I6).
      exists s2. repeat split; try assumption. congruence.
Qed.

(* states of the chunked reader and of the flat one that correspond *)
Definition sim (s : rstate) (f : fstate) : Prop :=
  chunks_ok (chunks s) /\ f = (pending s, nalrev s, zeros s, parsed s).

Lemma remaining_pending : forall s, remaining s = List.length (pending s).
Proof. intros. unfold remaining, pending. rewrite app_length. reflexivity. Qed.

Lemma lenN_takeN_le : forall {A} (l : list A) k, k <= lenN l -> lenN (takeN k l) = k.
Proof. intros. rewrite lenN_takeN. lia. Qed.

Lemma prefix_sim : forall s,
  chunks_ok (chunks s) ->
  match starts_with_prefix s, fprefix (pending s) (nalrev s) with
  | (r1, s1), (r2, bytes2) =>
      chunks_ok (chunks s1) /\ pending s1 = bytes2 /\ zeros s1 = zeros s /\ parsed s1 = parsed s /\
      match r1, r2 with
      | Ok _, Ok nb2 => nalrev s1 = nb2
      | Err e1, Err e2 => e1 = e2 /\ nalrev s1 = nalrev s
      | Panic, Panic => True
      | _, _ => False
      end
  end.
Proof.
  intros s Hok. unfold starts_with_prefix, fprefix.
  pose proof (read_spec 4 s Hok) as H.
  destruct (read 4 s) as [r s1]. destruct H as (H1 & H2 & H3 & H4 & H5).
  destruct (N.leb_spec 4 (lenN (pending s))) as [Hge|Hlt].
  - destruct H5 as [-> H5].
    destruct (N.ltb_spec (lenN (pending s)) 4) as [|_]; [lia|].
    rewrite lenN_takeN_le by exact Hge.
    change (4 =? 0) with false. change (4 <? 3) with false. change (4 =? 3) with false. cbv iota.
    destruct (bytes_eqb [0; 0; 1] (takeN 3 (takeN 4 (pending s)))).
    + destruct (dropN 3 (takeN 4 (pending s))) as [|b ?].
      * repeat split; assumption.
      * cbn [set_nal chunks nalrev zeros parsed]. rewrite pending_set_nal.
        repeat split; try assumption. congruence.
    + destruct (bytes_eqb [0; 0; 0; 1] (takeN 4 (pending s))); repeat split; assumption.
  - destruct H5 as [-> H5].
    destruct (N.ltb_spec (lenN (pending s)) 4) as [_|]; [|lia].
    repeat split; assumption.
Qed.

Lemma next_nal_sim : forall s f,
  sim s f ->
  match next_nal sk s, fnext sk f with
  | (r1, s1), (r2, f1) => r1 = r2 /\ (forall n, r1 = Ok n -> sim s1 f1)
  end.
Proof.
  intros s f [Hok ->]. unfold next_nal, fnext.
  assert (Hafter : forall s1, chunks_ok (chunks s1) -> parsed s1 = true ->
    match (match nal_loop (S (S (remaining s1))) sk s1 with
           | Broke s2 =>
               match rev_append (nalrev s2) [] with
               | [] => (Err "eof"%string, s2)
               | b :: t => let s3 := set_nal s2 [] (zeros s2) in
                           if sk b then (Err "eof"%string, s3) else (Ok (b :: t), s3)
               end
           | LoopPanic => (Panic, s1)
           | OutOfFuel => (Err "out-of-fuel"%string, s1)
           end), fafter sk (pending s1) (nalrev s1) (zeros s1) with
    | (r1, s1'), (r2, f1) => r1 = r2 /\ (forall n, r1 = Ok n -> sim s1' f1)
    end).
  { intros s1 Hok1 Hp1. unfold fafter.
    pose proof (nal_loop_sim (S (S (remaining s1))) s1 Hok1 ltac:(rewrite remaining_pending; lia)) as Hl.
    destruct (floop sk (pending s1) (nalrev s1) (zeros s1)) as [[[nb2 z2] rest]|].
    - destruct Hl as (s2 & -> & L1 & L2 & L3 & L4 & L5). rewrite L2.
      destruct (rev_append nb2 []) as [|b t].
      + split; [reflexivity|]. intros n Hn. discriminate.
      + cbv zeta. destruct (sk b).
        * split; [reflexivity|]. intros n Hn. discriminate.
        * split; [reflexivity|]. intros n _. split.
          -- exact L5.
          -- rewrite pending_set_nal. cbn [set_nal nalrev zeros parsed]. congruence.
    - rewrite Hl. split; [reflexivity|]. intros n Hn. discriminate. }
  destruct (parsed s) eqn:Ep.
  - exact (Hafter s Hok Ep).
  - pose proof (prefix_sim s Hok) as Hp.
    destruct (starts_with_prefix s) as [r1 s1]. destruct (fprefix (pending s) (nalrev s)) as [r2 bytes2].
    destruct Hp as (P1 & P2 & P3 & P4 & P5).
    destruct r1 as [[]|e1|], r2 as [nb2|e2|]; try contradiction.
    + pose proof (Hafter (set_parsed s1) P1 eq_refl) as H.
      change (pending (set_parsed s1)) with (pending s1) in H.
      change (nalrev (set_parsed s1)) with (nalrev s1) in H.
      change (zeros (set_parsed s1)) with (zeros s1) in H.
      rewrite P2, P5, P3 in H. exact H.
    + destruct P5 as [-> P5]. split; [reflexivity|]. intros n Hn. discriminate.
    + split; [reflexivity|]. intros n Hn. discriminate.
Qed.

Lemma read_nals_sim : forall fuel s f,
  sim s f -> read_nals fuel sk s = fread_nals fuel sk f.
Proof.
  induction fuel as [|fuel IH]; intros s f Hs; [reflexivity|].
  cbn [read_nals fread_nals]. pose proof (next_nal_sim s f Hs) as H.
  destruct (next_nal sk s) as [r1 s1]. destruct (fnext sk f) as [r2 f1].
  destruct H as [<- H]. destruct r1 as [n|e|]; [|reflexivity|reflexivity].
  rewrite (IH s1 f1 (H n eq_refl)). reflexivity.
Qed.

(* whatever sizes the stream's reads have (at least one byte each), the result
   is that of reading the concatenation *)
Theorem chunking : forall cs,
  chunks_ok cs -> read_all sk cs = flat_read_all sk (List.concat cs).
Proof.
  intros cs Hok. unfold read_all, flat_read_all. apply read_nals_sim.
  split; [exact Hok|reflexivity].
Qed.

End Chunked.

(* ================================================================== *)
(* The theorems of C34                                                 *)
(* ================================================================== *)

Theorem skip_all : forall sk cs ws,
  chunks_ok cs -> List.concat cs = frame ws -> units_ok ws ->
  read_all sk cs = (filter (kept sk) (map snd ws), "eof"%string).
Proof.
  intros sk cs ws Hcs Hcat Hws. rewrite chunking by exact Hcs. rewrite Hcat.
  apply flat_read_frame. exact Hws.
Qed.

Lemma filter_all : forall {A} (f : A -> bool) l, (forall x, f x = true) -> filter f l = l.
Proof. induction l as [|x t IH]; intros H; cbn [filter]; [reflexivity|]. rewrite H, IH by assumption. reflexivity. Qed.

Theorem roundtrip_all : forall sk cs ws,
  (forall b, sk b = false) ->
  chunks_ok cs -> List.concat cs = frame ws -> units_ok ws ->
  read_all sk cs = (map snd ws, "eof"%string).
Proof.
  intros sk cs ws Hsk Hcs Hcat Hws. rewrite (skip_all sk cs ws Hcs Hcat Hws).
  rewrite filter_all; [reflexivity|].
  intros n. unfold kept, unit_skipped. destruct n; [reflexivity|]. rewrite Hsk. reflexivity.
Qed.

Lemma sk264_included : forall b, sk264 true b = false.
Proof. reflexivity. Qed.
Lemma sk265_included : forall b, sk265 true b = false.
Proof. reflexivity. Qed.

(* ---------- header fields: every header value ---------- *)

Definition bytes256 : list N := map N.of_nat (seq 0 256).

Lemma in_bytes256 : forall b, b < 256 -> In b bytes256.
Proof.
  intros b H. unfold bytes256. rewrite <- (N2Nat.id b). apply in_map. apply in_seq. lia.
Qed.

Definition hdr264_ok (b : N) : bool :=
  match parse_header264 [b] with
  | Ok h => Bool.eqb (forbidden264 h) (128 <=? b) && (ref_idc h =? (b / 32) mod 4) && (unit_type264 h =? b mod 32)
  | _ => false
  end.

Lemma hdr264_all : forallb hdr264_ok bytes256 = true.
Proof. vm_compute. reflexivity. Qed.

Theorem header_fields_264 : forall b rest, b < 256 ->
  exists h, parse_header264 (b :: rest) = Ok h /\
            forbidden264 h = (128 <=? b) /\ ref_idc h = (b / 32) mod 4 /\ unit_type264 h = b mod 32.
Proof.
  intros b rest Hb. pose proof hdr264_all as H. rewrite forallb_forall in H.
  specialize (H b (in_bytes256 b Hb)). unfold hdr264_ok in H.
  cbn [parse_header264] in *. eexists. split; [reflexivity|].
  cbn [forbidden264 ref_idc unit_type264] in *.
  apply andb_prop in H. destruct H as [H H3]. apply andb_prop in H. destruct H as [H1 H2].
  apply Bool.eqb_prop in H1. apply N.eqb_eq in H2. apply N.eqb_eq in H3. auto.
Qed.

Definition hdr265_ok (b0 b1 : N) : bool :=
  let h := parse_header265 [b0; b1] in
  Bool.eqb (forbidden265 h) (128 <=? b0) && (unit_type265 h =? (b0 / 2) mod 64)
  && (layer_id h =? (b0 mod 2) * 32 + b1 / 8) && (tid_plus1 h =? b1 mod 8).

Lemma hdr265_all : forallb (fun b0 => forallb (hdr265_ok b0) bytes256) bytes256 = true.
Proof. vm_compute. reflexivity. Qed.

Theorem header_fields_265 : forall b0 b1 rest, b0 < 256 -> b1 < 256 ->
  let h := parse_header265 (b0 :: b1 :: rest) in
  forbidden265 h = (128 <=? b0) /\ unit_type265 h = (b0 / 2) mod 64 /\
  layer_id h = (b0 mod 2) * 32 + b1 / 8 /\ tid_plus1 h = b1 mod 8.
Proof.
  intros b0 b1 rest H0 H1. pose proof hdr265_all as H. rewrite forallb_forall in H.
  specialize (H b0 (in_bytes256 b0 H0)). rewrite forallb_forall in H.
  specialize (H b1 (in_bytes256 b1 H1)). unfold hdr265_ok in H.
  cbn [parse_header265] in *. cbn [forbidden265 unit_type265 layer_id tid_plus1] in *.
  apply andb_prop in H. destruct H as [H H4]. apply andb_prop in H. destruct H as [H H3].
  apply andb_prop in H. destruct H as [Ha Hb].
  apply Bool.eqb_prop in Ha. apply N.eqb_eq in Hb. apply N.eqb_eq in H3. apply N.eqb_eq in H4. auto.
Qed.

(* the skip rules are the SEI types of the codecs *)
Lemma sk264_is_sei : forall b, b < 256 -> sk264 false b = (b mod 32 =? 6).
Proof.
  intros b Hb.
  assert (H : forallb (fun b => Bool.eqb (sk264 false b) (b mod 32 =? 6)) bytes256 = true) by (vm_compute; reflexivity).
  rewrite forallb_forall in H. apply Bool.eqb_prop. apply H. apply in_bytes256. exact Hb.
Qed.
Lemma sk265_is_sei : forall b, b < 256 ->
  sk265 false b = (((b / 2) mod 64 =? 39) || ((b / 2) mod 64 =? 40)).
Proof.
  intros b Hb.
  assert (H : forallb (fun b => Bool.eqb (sk265 false b) (((b / 2) mod 64 =? 39) || ((b / 2) mod 64 =? 40))) bytes256 = true)
    by (vm_compute; reflexivity).
  rewrite forallb_forall in H. apply Bool.eqb_prop. apply H. apply in_bytes256. exact Hb.
Qed.
