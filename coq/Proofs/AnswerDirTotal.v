(* C08, totality: after SetRemoteDescription(offer) and any local operations
   CreateAnswer finds a transceiver for every offered section, so the
   legality theorems are not vacuous. *)
From Coq Require Import List Bool Arith Lia String.
Import ListNotations.
From Verif Require Import Common.Base Model.AnswerDir Proofs.AnswerDir.

(* every known offered section below m has a transceiver carrying its mid *)
Definition bound (secs : list (kind * dir)) (m : nat) (p : pc) : Prop :=
  forall j k d, j < m -> nth_error secs j = Some (k, d) -> d <> DUnk ->
    exists i t, tr_at p i t /\ t_mid t = Some j.

Lemma has_mid_update : forall p i t t' j,
  (exists i0 t0, tr_at p i0 t0 /\ t_mid t0 = Some j) ->
  tr_at p i t -> (t_mid t = Some j -> t_mid t' = Some j) ->
  exists i0 t0, tr_at (update p i t') i0 t0 /\ t_mid t0 = Some j.
Proof.
  intros p i t t' j (i0 & t0 & H0 & M0) Hi Hk. unfold tr_at in *.
  destruct (Nat.eq_dec i i0) as [->|N].
  - exists i0, t'. split; [eapply nth_update_eq; eauto|]. apply Hk. congruence.
  - exists i0, t0. split; auto. now rewrite nth_update_neq.
Qed.

Lemma has_mid_app : forall p t' j,
  (exists i0 t0, tr_at p i0 t0 /\ t_mid t0 = Some j) ->
  exists i0 t0, tr_at (p ++ [t']) i0 t0 /\ t_mid t0 = Some j.
Proof.
  intros p t' j (i0 & t0 & H0 & M0). exists i0, t0. split; auto. unfold tr_at in *.
  rewrite nth_error_app1; auto. apply nth_error_Some. congruence.
Qed.

Lemma bound_section : forall secs m p cands sec,
  bound secs m p -> nth_error secs m = Some sec ->
  bound secs (S m) (fst (remote_section (p, cands) m sec)).
Proof.
  intros secs m p cands [k d] B Hsec.
  destruct (dir_eqb d DUnk) eqn:Ed.
  { apply dir_eqb_eq in Ed. subst d. cbn. intros j k' d' Hlt Hs Hd.
    assert (j <> m) by (intros ->; rewrite Hsec in Hs; injection Hs as _ <-; congruence).
    apply (B j k' d'); auto. lia. }
  assert (Hd : d <> DUnk) by (intros ->; discriminate).
  rewrite remote_section_unfold by auto. unfold remote_section_known.
  (* the transceiver that ends up at a position: mid m, and nobody else loses a mid *)
  assert (Upd : forall i t t', tr_at p i t -> (t_mid t = Some m \/ t_mid t = None) ->
            t_mid t' = Some m -> bound secs (S m) (update p i t')).
  { intros i t t' Hi Hm Hm' j k' d' Hlt Hs Hd'.
    destruct (Nat.eq_dec j m) as [->|N].
    - exists i, t'. split; auto. unfold tr_at in *. eapply nth_update_eq; eauto.
    - eapply has_mid_update; eauto.
      + apply (B j k' d'); auto. lia.
      + intros E. destruct Hm as [Hm|Hm]; rewrite Hm in E; congruence. }
  destruct (find_by_mid p m cands) as [[i|] rest] eqn:F;
    pose proof (find_by_mid_spec _ _ _ _ _ F) as FS; cbn beta iota in FS.
  - destruct FS as [(t & Ht & Hm) _]. rewrite Ht. cbn [fst].
    eapply (Upd i t); eauto.
    set (t0 := if dir_eqb d Inactive then stop_tr t else t).
    assert (M0 : t_mid t0 = Some m) by (unfold t0; destruct (dir_eqb d Inactive); cbn; auto).
    destruct (adjust_fields d (set_rem t0 d)) as (Fm & _).
    unfold set_mid_if_empty. rewrite Fm. cbn [t_mid set_rem]. rewrite M0, Fm. exact M0.
  - unfold satisfy.
    destruct (satisfy_dirs p k (preferred d) cands) as [[i|] rest'] eqn:S;
      pose proof (satisfy_dirs_spec _ _ _ _ _ _ S) as [_ SB].
    + destruct SB as (t & Ht & Hmid & _). rewrite Ht. cbn [fst].
      eapply (Upd i t); eauto.
      destruct (adjust_fields d (set_rem t d)) as (Fm & _).
      unfold set_mid_if_empty. rewrite Fm. cbn [t_mid set_rem]. rewrite Hmid. reflexivity.
    + cbn [fst]. intros j k' d' Hlt Hs Hd'.
      destruct (Nat.eq_dec j m) as [->|N].
      * exists (List.length p), (set_mid (set_rem (new_tr k (new_local_dir d) false) d) m).
        split; auto. unfold tr_at. rewrite nth_error_app2 by lia. now rewrite Nat.sub_diag.
      * apply has_mid_app. apply (B j k' d'); auto. lia.
Qed.

Lemma bound_sections : forall secs rest m st,
  (forall j, nth_error secs (m + j) = nth_error rest j) ->
  bound secs m (fst st) ->
  bound secs (m + List.length rest) (fst (remote_sections st m rest)).
Proof.
  intros secs. induction rest as [|s more IH]; intros m st Hn B; cbn.
  - now rewrite Nat.add_0_r.
  - replace (m + S (List.length more)) with (S m + List.length more) by lia.
    apply IH.
    + intros j. specialize (Hn (S j)). cbn in Hn. rewrite <- Hn. f_equal. lia.
    + destruct st as [p cands]. apply bound_section; auto.
      specialize (Hn 0). cbn in Hn. now rewrite Nat.add_0_r in Hn.
Qed.

Definition bound_all (secs : list (kind * dir)) (p : pc) : Prop := bound secs (List.length secs) p.

Lemma set_remote_bound : forall p secs, bound_all secs (set_remote p secs).
Proof.
  intros p secs. unfold bound_all, set_remote.
  apply (bound_sections secs secs 0 (p, seq 0 (List.length p)) (fun j => eq_refl)).
  intros j k d Hlt. lia.
Qed.

(* local operations never take a mid away *)
Lemma local_op_bound : forall secs p o, bound_all secs p -> bound_all secs (fst (local_op p o)).
Proof.
  intros secs p o B.
  assert (Upd : forall i t t', tr_at p i t -> t_mid t' = t_mid t -> bound_all secs (update p i t')).
  { intros i t t' Hi Hm j k d Hlt Hs Hd. eapply has_mid_update; eauto. congruence. }
  assert (App : forall t', bound_all secs (p ++ [t'])).
  { intros t' j k d Hlt Hs Hd. apply has_mid_app. eauto. }
  destruct o as [k d|k|i|i|i]; cbn [local_op].
  - destruct d; cbn [fst]; auto.
  - cbn [fst]. destruct (add_track_cases p k) as [(i & t & Hi & Ha & ->) | ->]; auto.
    eapply Upd; eauto. apply with_track_fields.
  - destruct (nth_error p i) as [t|] eqn:Hi; cbn [fst]; auto.
    destruct (t_sender t); cbn [fst]; auto.
    cbn [t_dir set_sender]. destruct (t_dir t); cbn [fst]; eapply Upd; eauto.
  - destruct (nth_error p i) as [t|] eqn:Hi; cbn [fst]; auto. eapply Upd; eauto.
  - destruct (nth_error p i) as [t|] eqn:Hi; cbn [fst]; auto.
    eapply Upd; eauto. apply with_track_fields.
Qed.

Lemma local_ops_bound : forall secs os p, bound_all secs p -> bound_all secs (fst (local_ops p os)).
Proof.
  intros secs. induction os as [|o more IH]; intros p B; [exact B|].
  rewrite local_ops_fst. apply IH. now apply local_op_bound.
Qed.

(* CreateAnswer's lookup succeeds for every section *)
Lemma answer_dirs_total : forall secs p,
  bound_all secs p ->
  forall rest m cands,
  (forall j, nth_error secs (m + j) = nth_error rest j) ->
  used p cands m ->
  exists ds, answer_dirs p cands m rest = Ok ds.
Proof.
  intros secs p B. induction rest as [|[k d] more IH]; intros m cands Hn Us.
  - exists []. reflexivity.
  - assert (Hn' : forall j, nth_error secs (S m + j) = nth_error more j).
    { intros j. specialize (Hn (S j)). cbn in Hn. rewrite <- Hn. f_equal. lia. }
    assert (Hm : nth_error secs m = Some (k, d)).
    { specialize (Hn 0). rewrite Nat.add_0_r in Hn. exact Hn. }
    assert (Us' : used p cands (S m)).
    { intros i t Hi Hnin. destruct (Us i t Hi Hnin) as (j & ? & ?). exists j. split; auto. }
    destruct (dir_eqb d DUnk) eqn:Ed.
    { apply dir_eqb_eq in Ed. subst d. cbn. apply IH; auto. }
    assert (Hd : d <> DUnk) by (intros ->; discriminate).
    assert (E : answer_dirs p cands m ((k, d) :: more) =
                match find_by_mid p m cands with
                | (Some i, rest) =>
                    match nth_error p i with
                    | Some t => rbind (answer_dirs p rest (S m) more) (fun l => Ok (t_dir t :: l))
                    | None => Panic
                    end
                | (None, _) => Err "errPeerConnTranscieverMidNil"%string
                end) by (destruct d; congruence || reflexivity).
    rewrite E. clear E.
    assert (Hlt : m < List.length secs) by (apply nth_error_Some; congruence).
    destruct (B m k d Hlt Hm Hd) as (i0 & t0 & H0 & M0).
    destruct (find_by_mid p m cands) as [[i|] rest'] eqn:F;
      pose proof (find_by_mid_spec _ _ _ _ _ F) as FS; cbn beta iota in FS.
    + destruct FS as [(t & Ht & Hmid) Hrest]. rewrite Ht.
      destruct (IH (S m) rest' Hn') as (l & Hl).
      * intros x tx Hx Hnin. destruct (Nat.eq_dec x i) as [->|N].
        -- exists m. unfold tr_at in Hx. rewrite Ht in Hx. injection Hx as <-. split; auto.
        -- apply (Us' x tx Hx). eapply not_in_rest; eauto.
      * rewrite Hl. cbn. eauto.
    + exfalso. destruct FS as [Hnone _].
      destruct (in_dec Nat.eq_dec i0 cands) as [Hin|Hnin].
      * eapply Hnone; eauto.
      * destruct (Us i0 t0 H0 Hnin) as (j & Hj & Hjm). rewrite M0 in Hj. injection Hj as <-. lia.
Qed.

Lemma create_answer_total : forall secs p, bound_all secs p -> exists ds, create_answer p secs = Ok ds.
Proof.
  intros secs p B. unfold create_answer.
  apply (answer_dirs_total secs p B secs 0 _ (fun j => eq_refl)).
  intros i t Hi Hn. exfalso. apply Hn. apply in_seq. split; [lia|].
  cbn. apply nth_error_Some. unfold tr_at in Hi. congruence.
Qed.

Lemma answer_total : forall p secs mid, exists ds, answer_of p secs mid = Ok ds.
Proof.
  intros p secs mid. rewrite exchange_answer. apply create_answer_total.
  apply local_ops_bound. apply set_remote_bound.
Qed.

(* legality and totality together *)
Lemma history_answer_exists_legal : forall os secs mid,
  reoffer_ok (run_history os) secs = true ->
  setsender_guarded (set_remote (run_history os) secs) mid = true ->
  exists ds, answer_of (run_history os) secs mid = Ok ds /\ all_legal secs ds = true.
Proof.
  intros os secs mid Hr G. destruct (answer_total (run_history os) secs mid) as (ds & H).
  exists ds. split; auto. eapply history_answer_legal; eauto.
Qed.
