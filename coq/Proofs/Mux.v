(* C27 proofs: classification (range lemmas) and delivery order (invariant
   over arbitrary schedules, packet lists and NewEndpoint calls). *)
From Coq Require Import List NArith Bool Arith Lia ZifyBool ZifyNat ZifyN.
Import ListNotations.
From Verif Require Import Common.Base Model.Mux.

(* ---------------- Part A ---------------- *)

Lemma in_range_spec : forall lo hi b,
  in_range lo hi b = true <-> (lo <= b /\ b <= hi)%N.
Proof. intros lo hi b. unfold in_range. lia. Qed.

Lemma in_range_false : forall lo hi b,
  in_range lo hi b = false <-> (b < lo \/ hi < b)%N.
Proof. intros lo hi b. unfold in_range. lia. Qed.

Lemma ranges_disjoint : forall b,
  in_range 20 63 b = true -> in_range 128 191 b = false.
Proof. intros b H. apply in_range_spec in H. apply in_range_false. lia. Qed.

Lemma is_rtcp_no_panic : forall buf, is_rtcp buf <> Panic.
Proof.
  intros buf. unfold is_rtcp.
  destruct buf as [|b0 [|b1 [|b2 [|b3 rest]]]]; cbn; discriminate.
Qed.

Lemma match_srtp_no_panic : forall buf, match_srtp buf <> Panic.
Proof.
  intros buf. unfold match_srtp.
  destruct (match_srtp_or_srtcp buf); [|discriminate].
  pose proof (is_rtcp_no_panic buf) as Hn.
  destruct (is_rtcp buf); cbn; congruence.
Qed.

Lemma match_srtcp_no_panic : forall buf, match_srtcp buf <> Panic.
Proof.
  intros buf. unfold match_srtcp.
  destruct (match_srtp_or_srtcp buf); [|discriminate].
  apply is_rtcp_no_panic.
Qed.

Lemma pion_class_is_rfc : forall buf, pion_class buf = Some (rfc_class buf).
Proof.
  intros buf.
  destruct buf as [|b0 [|b1 [|b2 [|b3 rest]]]];
    unfold pion_class, rfc_class, match_srtp, match_srtcp, match_dtls,
      match_srtp_or_srtcp, match_range, is_rtcp; cbn [length Nat.ltb Nat.leb nth_error];
    try reflexivity;
    destruct (in_range 20 63 b0) eqn:Hd;
    try (rewrite (ranges_disjoint b0 Hd)); cbn; try reflexivity;
    destruct (in_range 128 191 b0) eqn:Hr; cbn; try reflexivity;
    destruct (in_range 192 223 b1); reflexivity.
Qed.

(* the three functions, each as a statement about bytes *)
Lemma match_dtls_spec : forall buf,
  match_dtls buf = true <-> exists b0 rest, buf = b0 :: rest /\ (20 <= b0 /\ b0 <= 63)%N.
Proof.
  intros buf. unfold match_dtls, match_range. destruct buf as [|b0 rest].
  - split; [discriminate|]. intros (b & r & He & _). discriminate.
  - rewrite in_range_spec. split.
    + intros H. exists b0, rest. auto.
    + intros (b & r & He & H). inversion He. subst. exact H.
Qed.

Lemma match_srtcp_spec : forall buf,
  match_srtcp buf = Ok true <->
  exists b0 b1 b2 b3 rest, buf = b0 :: b1 :: b2 :: b3 :: rest /\
    (128 <= b0 /\ b0 <= 191)%N /\ (192 <= b1 /\ b1 <= 223)%N.
Proof.
  intros buf. unfold match_srtcp, match_srtp_or_srtcp, match_range, is_rtcp.
  destruct buf as [|b0 [|b1 [|b2 [|b3 rest]]]]; cbn [length Nat.ltb Nat.leb nth_error].
  1-4: split; [ try destruct (in_range 128 191 b0); discriminate
              | intros (x0 & x1 & x2 & x3 & r & He & _); discriminate ].
  split.
  - destruct (in_range 128 191 b0) eqn:H0; [|discriminate].
    intros H. injection H as H1. apply in_range_spec in H0, H1.
    exists b0, b1, b2, b3, rest. auto.
  - intros (x0 & x1 & x2 & x3 & r & He & H0 & H1). inversion He. subst.
    apply in_range_spec in H0, H1. rewrite H0, H1. reflexivity.
Qed.

Lemma match_srtp_spec : forall buf,
  match_srtp buf = Ok true <->
  exists b0 rest, buf = b0 :: rest /\ (128 <= b0 /\ b0 <= 191)%N /\
    ~ (exists b1 b2 b3 r, rest = b1 :: b2 :: b3 :: r /\ (192 <= b1 /\ b1 <= 223)%N).
Proof.
  intros buf. unfold match_srtp, match_srtp_or_srtcp, match_range, is_rtcp.
  destruct buf as [|b0 rest].
  { split; [discriminate|]. intros (x0 & r & He & _). discriminate. }
  destruct (in_range 128 191 b0) eqn:H0.
  2:{ split; [discriminate|]. intros (x0 & r & He & Hr & _). inversion He. subst.
      apply in_range_false in H0. lia. }
  apply in_range_spec in H0.
  destruct rest as [|b1 [|b2 [|b3 rest]]]; cbn [length Nat.ltb Nat.leb nth_error rbind].
  1-3: split; [ intros _; exists b0; eexists; split; [reflexivity|]; split; [exact H0|];
                intros (x1 & x2 & x3 & r & He & _); discriminate
              | reflexivity ].
  split.
  - intros H. injection H as H1. exists b0. eexists. split; [reflexivity|]. split; [exact H0|].
    intros (x1 & x2 & x3 & r & He & Hx). inversion He. subst.
    apply in_range_spec in Hx. rewrite Hx in H1. discriminate.
  - intros (x0 & r & He & _ & Hn). inversion He. subst.
    destruct (in_range 192 223 b1) eqn:H1; [|reflexivity].
    exfalso. apply Hn. apply in_range_spec in H1. exists b1, b2, b3, rest. auto.
Qed.

Lemma classes_exclusive : forall buf,
  ~ (match_dtls buf = true /\ match_srtp buf = Ok true) /\
  ~ (match_dtls buf = true /\ match_srtcp buf = Ok true) /\
  ~ (match_srtp buf = Ok true /\ match_srtcp buf = Ok true).
Proof.
  intros buf. pose proof (pion_class_is_rfc buf) as H. unfold pion_class in H.
  destruct (is_panic (match_srtp buf) || is_panic (match_srtcp buf)); [discriminate|].
  repeat split; intros [H1 H2]; rewrite ?H1, ?H2 in H; cbn in H;
    destruct (match_dtls buf); try discriminate;
    destruct (is_true (match_srtp buf)); try discriminate;
    destruct (is_true (match_srtcp buf)); discriminate.
Qed.

(* ---------------- Part B ---------------- *)

Lemma length_app_at : forall A i (xs : list A) l, length (app_at i xs l) = length l.
Proof.
  intros A i xs l. revert i. induction l as [|b t IH]; intros i; [reflexivity|].
  destruct i; cbn; [reflexivity|]. rewrite IH. reflexivity.
Qed.

Lemma nth_app_at_same : forall A i (xs : list A) l b,
  nth_error l i = Some b -> nth_error (app_at i xs l) i = Some (b ++ xs).
Proof.
  intros A i xs l. revert i. induction l as [|c t IH]; intros i b H.
  - destruct i; discriminate.
  - destruct i; cbn in *.
    + injection H as ->. reflexivity.
    + apply IH. exact H.
Qed.

Lemma nth_app_at_other : forall A i j (xs : list A) l,
  i <> j -> nth_error (app_at i xs l) j = nth_error l j.
Proof.
  intros A i j xs l. revert i j. induction l as [|c t IH]; intros i j Hne.
  - destruct i; reflexivity.
  - destruct i, j; cbn; try reflexivity; try congruence.
    apply IH. congruence.
Qed.

Lemma map_fst_set_done : forall i l, map fst (set_done i l) = map fst l.
Proof.
  intros i l. revert i. induction l as [|[m d] t IH]; intros i; [reflexivity|].
  destruct i; cbn; [reflexivity|]. rewrite IH. reflexivity.
Qed.

Lemma nth_set_done_same : forall i l m d,
  nth_error l i = Some (m, d) -> nth_error (set_done i l) i = Some (m, true).
Proof.
  intros i l. revert i. induction l as [|[m0 d0] t IH]; intros i m d H.
  - destruct i; discriminate.
  - destruct i; cbn in *.
    + injection H as -> _. reflexivity.
    + eapply IH. exact H.
Qed.

Lemma nth_set_done_other : forall i j l,
  i <> j -> nth_error (set_done i l) j = nth_error l j.
Proof.
  intros i j l. revert i j. induction l as [|[m0 d0] t IH]; intros i j Hne.
  - destruct i; reflexivity.
  - destruct i, j; cbn; try reflexivity; try congruence.
    apply IH. congruence.
Qed.

Lemma filter_filter : forall A (f g : A -> bool) l,
  filter f (filter g l) = filter (fun x => g x && f x) l.
Proof.
  intros A f g l. induction l as [|a t IH]; [reflexivity|].
  cbn. destruct (g a); cbn; [destruct (f a)|]; rewrite ?IH; reflexivity.
Qed.

Lemma filter_length_split : forall A (f : A -> bool) l,
  length (filter f l) + length (filter (fun x => negb (f x)) l) = length l.
Proof.
  intros A f l. induction l as [|a t IH]; [reflexivity|].
  cbn. destruct (f a); cbn; lia.
Qed.

Lemma filter_len_le : forall A (f : A -> bool) l, length (filter f l) <= length l.
Proof. intros A f l. pose proof (filter_length_split A f l). lia. Qed.

Lemma nth_error_map_fst : forall A B (l : list (A * B)) i a b,
  nth_error l i = Some (a, b) -> nth_error (map fst l) i = Some a.
Proof.
  intros A B l i a b H. rewrite nth_error_map, H. reflexivity.
Qed.

(* no registered endpoint accepts p *)
Definition unmatched (r : list (nat * matcher)) (p : pkt) : bool :=
  negb (existsb (fun e => snd e p) r).

Lemma find_ep_some : forall r p i,
  find_ep r p = Some i -> exists m, In (i, m) r /\ m p = true.
Proof.
  intros r p i H. unfold find_ep in H.
  destruct (find (fun e => snd e p) r) as [[j m]|] eqn:Hf; [|discriminate].
  injection H as <-. apply find_some in Hf. exists m. exact Hf.
Qed.

Lemma find_ep_none : forall r p, find_ep r p = None -> unmatched r p = true.
Proof.
  intros r p H. unfold find_ep in H. unfold unmatched.
  destruct (find (fun e => snd e p) r) eqn:Hf; [discriminate|].
  apply negb_true_iff. apply not_true_iff_false. intros Hex.
  apply existsb_exists in Hex. destruct Hex as (e & Hin & He).
  pose proof (find_none _ _ Hf e Hin) as Hn. cbn in Hn. congruence.
Qed.

Definition total_buffered (s : st) : nat :=
  fold_right (fun b n => length b + n) 0 (bufs s).
Definition inflight_count (s : st) : nat :=
  match rd_sel s with Some _ => 1 | None => 0 end.

Lemma total_app_at : forall i (xs : list pkt) l,
  i < length l ->
  fold_right (fun b n => length b + n) 0 (app_at i xs l)
  = fold_right (fun b n => length b + n) 0 l + length xs.
Proof.
  intros i xs l. revert i. induction l as [|b t IH]; intros i Hi; [cbn in Hi; lia|].
  destruct i; cbn.
  - rewrite app_length. lia.
  - rewrite IH; [lia|]. cbn in Hi. lia.
Qed.

Definition has_full (s : st) : Prop := exists p, In (p, DroppedFull) (arr s).

Record inv (ms : list matcher) (ps : list pkt) (s : st) : Prop := {
  i_len : length (bufs s) = length ms;
  i_crs : map fst (crs s) = ms;
  i_reg : forall i m, In (i, m) (regd s) -> nth_error (crs s) i = Some (m, true);
  i_sel : forall i p, rd_sel s = Some (i, p) -> exists m, In (i, m) (regd s);
  i_arr : arrived s ++ rd_rest s = ps;
  i_pend : pendq s = filter (unmatched (regd s)) (accepted s);
  i_buf : forall i m, In (i, m) (regd s) ->
          delivered s i ++ inflight s i = filter m (accepted s);
  i_unreg : forall i m, nth_error (crs s) i = Some (m, false) -> delivered s i = [];
  i_count : total_buffered s + length (pendq s) + inflight_count s = length (accepted s);
  i_empty : forall p f, In (p, f) (arr s) -> (f = DroppedEmpty <-> p = []);
  i_full : has_full s -> max_pending <= length (accepted s);
  i_done : forall i m, nth_error (crs s) i = Some (m, true) -> In (i, m) (regd s)
}.

Lemma inv_init : forall ms ps, inv ms ps (init ms ps).
Proof.
  intros ms ps. constructor; cbn.
  - apply map_length.
  - rewrite map_map. cbn. apply map_id.
  - intros i m [].
  - intros i p H. discriminate.
  - reflexivity.
  - reflexivity.
  - intros i m [].
  - intros i m H. unfold delivered. cbn.
    destruct (nth_error (map (fun _ : matcher => []) ms) i) eqn:Hn; [|reflexivity].
    rewrite nth_error_map in Hn. destruct (nth_error ms i); cbn in Hn; congruence.
  - unfold total_buffered, inflight_count, accepted. cbn.
    induction ms; cbn; auto.
  - intros p f [].
  - intros [p []].
  - intros i m H. rewrite nth_error_map in H. destruct (nth_error ms i); cbn in H; congruence.
Qed.

Lemma accepted_snoc : forall a p f,
  map fst (filter (fun e : pkt * fate => fate_accepted (snd e)) (a ++ [(p, f)]))
  = map fst (filter (fun e : pkt * fate => fate_accepted (snd e)) a)
    ++ (if fate_accepted f then [p] else []).
Proof.
  intros a p f. rewrite filter_app, map_app. cbn. destruct (fate_accepted f); reflexivity.
Qed.

Lemma reg_nth_ms : forall ms ps s i m,
  inv ms ps s -> In (i, m) (regd s) -> nth_error ms i = Some m.
Proof.
  intros ms ps s i m I Hin. rewrite <- (i_crs _ _ _ I).
  eapply nth_error_map_fst. eapply i_reg; eauto.
Qed.

Lemma reg_excl : forall ms ps s i mi j mj p,
  exclusive ms -> inv ms ps s -> In (i, mi) (regd s) -> In (j, mj) (regd s) ->
  i <> j -> mi p = true -> mj p = false.
Proof.
  intros ms ps s i mi j mj p Hex I Hi Hj Hne Hp.
  apply (Hex i j mi mj p); auto; eapply reg_nth_ms; eauto.
Qed.

Lemma reg_fun : forall ms ps s i m m',
  inv ms ps s -> In (i, m) (regd s) -> In (i, m') (regd s) -> m = m'.
Proof.
  intros ms ps s i m m' I H1 H2.
  pose proof (i_reg _ _ _ I _ _ H1) as E1. pose proof (i_reg _ _ _ I _ _ H2) as E2.
  rewrite E1 in E2. injection E2 as E. exact E.
Qed.

Lemma unmatched_in : forall r p i m, unmatched r p = true -> In (i, m) r -> m p = false.
Proof.
  intros r p i m Hu Hin. unfold unmatched in Hu. apply negb_true_iff in Hu.
  apply not_true_iff_false. intros Hm.
  assert (existsb (fun e : nat * matcher => snd e p) r = true) as Hx.
  { apply existsb_exists. exists (i, m). auto. }
  unfold matcher in *. rewrite Hx in Hu. discriminate.
Qed.

Lemma delivered_app_same : forall s i xs b bufs',
  nth_error (bufs s) i = Some b -> bufs' = app_at i xs (bufs s) ->
  nth_error bufs' i = Some (b ++ xs).
Proof. intros s i xs b bufs' H ->. apply nth_app_at_same. exact H. Qed.

Lemma reg_lt : forall ms ps s i m, inv ms ps s -> In (i, m) (regd s) -> i < length (bufs s).
Proof.
  intros ms ps s i m I Hin. rewrite (i_len _ _ _ I).
  apply nth_error_Some. rewrite (reg_nth_ms _ _ _ _ _ I Hin). discriminate.
Qed.

Lemma inv_write : forall ms ps s i p,
  inv ms ps s -> rd_sel s = Some (i, p) -> inv ms ps (rd_write s i p).
Proof.
  intros ms ps s i p I Hsel.
  destruct (i_sel _ _ _ I _ _ Hsel) as [mi Hmi].
  pose proof (reg_lt _ _ _ _ _ I Hmi) as Hlt.
  destruct (nth_error (bufs s) i) as [bi|] eqn:Hbi; [|apply nth_error_None in Hbi; lia].
  constructor; cbn.
  - rewrite length_app_at. apply (i_len _ _ _ I).
  - apply (i_crs _ _ _ I).
  - apply (i_reg _ _ _ I).
  - intros j q H. discriminate.
  - apply (i_arr _ _ _ I).
  - apply (i_pend _ _ _ I).
  - intros j m Hin. pose proof (i_buf _ _ _ I j m Hin) as Hb.
    unfold delivered, inflight in *. cbn. rewrite Hsel in Hb.
    destruct (Nat.eq_dec i j) as [->|Hne].
    + rewrite (nth_app_at_same _ _ _ _ _ Hbi). rewrite Hbi, Nat.eqb_refl in Hb.
      rewrite app_nil_r. exact Hb.
    + rewrite nth_app_at_other by exact Hne.
      assert (Nat.eqb j i = false) as E by (apply Nat.eqb_neq; congruence).
      rewrite E in Hb. exact Hb.
  - intros j m Hj. pose proof (i_unreg _ _ _ I j m Hj) as Hu.
    unfold delivered in *. cbn.
    destruct (Nat.eq_dec i j) as [->|Hne].
    + pose proof (i_reg _ _ _ I _ _ Hmi) as Hd. congruence.
    + rewrite nth_app_at_other by exact Hne. exact Hu.
  - pose proof (i_count _ _ _ I) as Hc. unfold total_buffered, inflight_count in *. cbn.
    rewrite Hsel in Hc. rewrite total_app_at by exact Hlt. cbn. unfold accepted in *. cbn. lia.
  - apply (i_empty _ _ _ I).
  - apply (i_full _ _ _ I).
  - apply (i_done _ _ _ I).
Qed.

Lemma arrived_snoc : forall (a : list (pkt * fate)) p f, map fst (a ++ [(p, f)]) = map fst a ++ [p].
Proof. intros. rewrite map_app. reflexivity. Qed.

Lemma inv_lookup : forall ms ps s p rest,
  exclusive ms -> inv ms ps s -> rd_sel s = None -> rd_rest s = p :: rest ->
  inv ms ps (rd_lookup s p rest).
Proof.
  intros ms ps s p rest Hex I Hsel Hrest.
  pose proof (i_arr _ _ _ I) as Harr. rewrite Hrest in Harr.
  assert (forall (a : list (pkt * fate)) f, map fst (a ++ [(p, f)]) ++ rest = map fst a ++ p :: rest) as Hsn.
  { intros a f. rewrite arrived_snoc, <- app_assoc. reflexivity. }
  unfold rd_lookup. destruct p as [|b0 pt].
  { (* empty datagram *)
    constructor; cbn; try (apply I).
    - intros j q H. discriminate.
    - unfold arrived. cbn. rewrite Hsn. exact Harr.
    - unfold accepted. cbn. rewrite accepted_snoc. cbn. rewrite ?app_nil_r. apply (i_pend _ _ _ I).
    - intros j m Hin. unfold delivered, inflight, accepted. cbn. rewrite accepted_snoc. cbn.
      rewrite ?app_nil_r. pose proof (i_buf _ _ _ I j m Hin) as Hb.
      unfold delivered, inflight, accepted in Hb. rewrite Hsel in Hb. rewrite ?app_nil_r in Hb. exact Hb.
    - pose proof (i_count _ _ _ I) as Hc. unfold total_buffered, inflight_count, accepted in *. cbn.
      rewrite Hsel in Hc. rewrite accepted_snoc. cbn. rewrite ?app_nil_r. exact Hc.
    - intros q f Hin. apply in_app_or in Hin. destruct Hin as [Hin|[Hq|[]]].
      + apply (i_empty _ _ _ I _ _ Hin).
      + injection Hq as <- <-. tauto.
    - intros [q Hq]. unfold accepted. cbn. rewrite accepted_snoc. cbn. rewrite ?app_nil_r.
      apply (i_full _ _ _ I). apply in_app_or in Hq. destruct Hq as [Hq|[Hq|[]]]; [|discriminate].
      exists q. exact Hq. }
  set (p := b0 :: pt) in *.
  destruct (find_ep (regd s) p) as [i|] eqn:Hf.
  { (* an endpoint matches *)
    destruct (find_ep_some _ _ _ Hf) as (mi & Hmi & Hmp).
    constructor; cbn; try (apply I).
    - intros j q H. injection H as <- <-. exists mi. exact Hmi.
    - unfold arrived. cbn. rewrite Hsn. exact Harr.
    - unfold accepted. cbn. rewrite accepted_snoc. cbn. rewrite filter_app. cbn.
      assert (unmatched (regd s) p = false) as Hu.
      { unfold unmatched. apply negb_false_iff. apply existsb_exists. exists (i, mi). auto. }
      rewrite Hu, ?app_nil_r. apply (i_pend _ _ _ I).
    - intros j m Hin. unfold delivered, inflight, accepted. cbn. rewrite accepted_snoc. cbn.
      rewrite filter_app. cbn.
      pose proof (i_buf _ _ _ I j m Hin) as Hb.
      unfold delivered, inflight, accepted in Hb. rewrite Hsel in Hb. rewrite ?app_nil_r in Hb.
      destruct (Nat.eq_dec j i) as [->|Hne].
      + rewrite Nat.eqb_refl. rewrite (reg_fun _ _ _ _ _ _ I Hin Hmi), Hmp.
        rewrite (reg_fun _ _ _ _ _ _ I Hin Hmi) in Hb. rewrite Hb. reflexivity.
      + assert (Nat.eqb j i = false) as E by (apply Nat.eqb_neq; exact Hne). rewrite E.
        assert (m p = false) as Hm.
        { apply (reg_excl _ _ _ _ _ _ _ p Hex I Hmi Hin); auto. }
        rewrite Hm. rewrite ?app_nil_r. exact Hb.
    - pose proof (i_count _ _ _ I) as Hc. unfold total_buffered, inflight_count, accepted in *. cbn.
      rewrite Hsel in Hc. rewrite accepted_snoc. cbn. rewrite app_length. cbn. lia.
    - intros q f Hin. apply in_app_or in Hin. destruct Hin as [Hin|[Hq|[]]].
      + apply (i_empty _ _ _ I _ _ Hin).
      + injection Hq as <- <-. split; discriminate.
    - intros [q Hq]. unfold accepted. cbn. rewrite accepted_snoc. cbn. rewrite app_length.
      apply in_app_or in Hq. destruct Hq as [Hq|[Hq|[]]]; [|discriminate].
      assert (has_full s) as Hfu by (exists q; exact Hq).
      pose proof (i_full _ _ _ I Hfu) as Hl. unfold accepted in Hl. lia. }
  (* no endpoint *)
  pose proof (find_ep_none _ _ Hf) as Hu.
  destruct (Nat.leb max_pending (length (pendq s))) eqn:Hcap.
  { (* queue full: dropped *)
    apply Nat.leb_le in Hcap.
    constructor; cbn; try (apply I).
    - intros j q H. discriminate.
    - unfold arrived. cbn. rewrite Hsn. exact Harr.
    - unfold accepted. cbn. rewrite accepted_snoc. cbn. rewrite ?app_nil_r. apply (i_pend _ _ _ I).
    - intros j m Hin. unfold delivered, inflight, accepted. cbn. rewrite accepted_snoc. cbn.
      rewrite ?app_nil_r. pose proof (i_buf _ _ _ I j m Hin) as Hb.
      unfold delivered, inflight, accepted in Hb. rewrite Hsel in Hb. rewrite ?app_nil_r in Hb. exact Hb.
    - pose proof (i_count _ _ _ I) as Hc. unfold total_buffered, inflight_count, accepted in *. cbn.
      rewrite Hsel in Hc. rewrite accepted_snoc. cbn. rewrite ?app_nil_r. exact Hc.
    - intros q f Hin. apply in_app_or in Hin. destruct Hin as [Hin|[Hq|[]]].
      + apply (i_empty _ _ _ I _ _ Hin).
      + injection Hq as <- <-. split; discriminate.
    - intros _. unfold accepted. cbn. rewrite accepted_snoc. cbn. rewrite ?app_nil_r.
      pose proof (i_pend _ _ _ I) as Hp. unfold accepted in Hp.
      assert (length (pendq s) <= length (map fst (filter (fun e : pkt * fate => fate_accepted (snd e)) (arr s)))) as Hle.
      { rewrite Hp. apply filter_len_le. }
      lia. }
  (* queued *)
  constructor; cbn; try (apply I).
  - intros j q H. discriminate.
  - unfold arrived. cbn. rewrite Hsn. exact Harr.
  - unfold accepted. cbn. rewrite accepted_snoc. cbn. rewrite filter_app. cbn.
    rewrite Hu. f_equal. apply (i_pend _ _ _ I).
  - intros j m Hin. unfold delivered, inflight, accepted. cbn. rewrite accepted_snoc. cbn.
    rewrite filter_app. cbn. rewrite (unmatched_in _ _ _ _ Hu Hin). rewrite ?app_nil_r.
    pose proof (i_buf _ _ _ I j m Hin) as Hb.
    unfold delivered, inflight, accepted in Hb. rewrite Hsel in Hb. rewrite ?app_nil_r in Hb. exact Hb.
  - pose proof (i_count _ _ _ I) as Hc. unfold total_buffered, inflight_count, accepted in *. cbn.
    rewrite Hsel in Hc. rewrite accepted_snoc. cbn. rewrite !app_length. cbn. lia.
  - intros q f Hin. apply in_app_or in Hin. destruct Hin as [Hin|[Hq|[]]].
    + apply (i_empty _ _ _ I _ _ Hin).
    + injection Hq as <- <-. split; discriminate.
  - intros [q Hq]. unfold accepted. cbn. rewrite accepted_snoc. cbn. rewrite app_length.
    apply in_app_or in Hq. destruct Hq as [Hq|[Hq|[]]]; [|discriminate].
    assert (has_full s) as Hfu by (exists q; exact Hq).
    pose proof (i_full _ _ _ I Hfu) as Hl. unfold accepted in Hl. lia.
Qed.

Lemma unmatched_snoc : forall r i (m : matcher) p,
  unmatched (r ++ [(i, m)]) p = unmatched r p && negb (m p).
Proof.
  intros r i m p. unfold unmatched. rewrite existsb_app. cbn.
  rewrite orb_false_r, negb_orb. reflexivity.
Qed.

Lemma inv_create : forall ms ps s i m,
  exclusive ms -> inv ms ps s -> nth_error (crs s) i = Some (m, false) ->
  inv ms ps (ne_create s i m).
Proof.
  intros ms ps s i m Hex I Hcr.
  assert (nth_error ms i = Some m) as Hmi.
  { rewrite <- (i_crs _ _ _ I). eapply nth_error_map_fst. exact Hcr. }
  assert (i < length (bufs s)) as Hlt.
  { rewrite (i_len _ _ _ I). apply nth_error_Some. rewrite Hmi. discriminate. }
  assert (forall m', ~ In (i, m') (regd s)) as Hnot.
  { intros m' Hin. pose proof (i_reg _ _ _ I _ _ Hin) as Hd. rewrite Hd in Hcr. discriminate. }
  pose proof (i_unreg _ _ _ I _ _ Hcr) as Hempty.
  destruct (nth_error (bufs s) i) as [bi|] eqn:Hbi; [|apply nth_error_None in Hbi; lia].
  unfold delivered in Hempty. rewrite Hbi in Hempty. subst bi.
  assert (forall j mj p, In (j, mj) (regd s) -> m p = true -> mj p = false) as Hexcl.
  { intros j mj p Hin Hp. apply (Hex i j m mj p); auto.
    - eapply reg_nth_ms; eauto.
    - intros ->. exact (Hnot _ Hin). }
  constructor; cbn.
  - rewrite length_app_at. apply (i_len _ _ _ I).
  - rewrite map_fst_set_done. apply (i_crs _ _ _ I).
  - intros j mj Hin. apply in_app_or in Hin. destruct Hin as [Hin|[Hj|[]]].
    + assert (i <> j) as Hne by (intros ->; exact (Hnot _ Hin)).
      rewrite nth_set_done_other by exact Hne. apply (i_reg _ _ _ I _ _ Hin).
    + injection Hj as <- <-. eapply nth_set_done_same. exact Hcr.
  - intros j q Hs. destruct (i_sel _ _ _ I _ _ Hs) as [mj Hin]. exists mj.
    apply in_or_app. left. exact Hin.
  - apply (i_arr _ _ _ I).
  - rewrite (i_pend _ _ _ I). rewrite filter_filter. apply filter_ext.
    intros p. rewrite unmatched_snoc. reflexivity.
  - intros j mj Hin. unfold delivered, inflight, accepted. cbn.
    apply in_app_or in Hin. destruct Hin as [Hin|[Hj|[]]].
    + assert (i <> j) as Hne by (intros ->; exact (Hnot _ Hin)).
      rewrite nth_app_at_other by exact Hne. apply (i_buf _ _ _ I _ _ Hin).
    + injection Hj as <- <-. rewrite (nth_app_at_same _ _ _ _ _ Hbi). cbn.
      assert (match rd_sel s with
              | Some (j, p) => if Nat.eqb i j then [p] else []
              | None => []
              end = []) as Hfl.
      { destruct (rd_sel s) as [[j q]|] eqn:Hs; [|reflexivity].
        destruct (Nat.eqb i j) eqn:E; [|reflexivity].
        apply Nat.eqb_eq in E. subst j. destruct (i_sel _ _ _ I _ _ Hs) as [mj Hin].
        exfalso. exact (Hnot _ Hin). }
      rewrite Hfl, app_nil_r. rewrite (i_pend _ _ _ I). rewrite filter_filter.
      apply filter_ext_in. intros p Hp. destruct (m p) eqn:Hmp; [|apply andb_false_r].
      rewrite andb_true_r. unfold unmatched. apply negb_true_iff. apply not_true_iff_false.
      intros Hx. apply existsb_exists in Hx. destruct Hx as ([j mj] & Hin & Hj). cbn in Hj.
      rewrite (Hexcl _ _ _ Hin Hmp) in Hj. discriminate.
  - intros j mj Hj. unfold delivered. cbn.
    destruct (Nat.eq_dec i j) as [->|Hne].
    + erewrite nth_set_done_same in Hj by exact Hcr. discriminate.
    + rewrite nth_set_done_other in Hj by exact Hne. rewrite nth_app_at_other by exact Hne.
      apply (i_unreg _ _ _ I _ _ Hj).
  - pose proof (i_count _ _ _ I) as Hc. unfold total_buffered, inflight_count, accepted in *. cbn.
    rewrite total_app_at by exact Hlt.
    pose proof (filter_length_split _ m (pendq s)) as Hs. lia.
  - apply (i_empty _ _ _ I).
  - apply (i_full _ _ _ I).
  - intros j mj Hj. apply in_or_app. destruct (Nat.eq_dec i j) as [->|Hne].
    + right. erewrite nth_set_done_same in Hj by exact Hcr. injection Hj as <-. left. reflexivity.
    + left. rewrite nth_set_done_other in Hj by exact Hne. apply (i_done _ _ _ I _ _ Hj).
Qed.

Lemma inv_step : forall ms ps s t s',
  exclusive ms -> inv ms ps s -> step s t = Some s' -> inv ms ps s'.
Proof.
  intros ms ps s t s' Hex I Hs. unfold step in Hs. destruct t as [|i].
  - destruct (rd_sel s) as [[i p]|] eqn:Hsel.
    + injection Hs as <-. apply inv_write; assumption.
    + destruct (rd_rest s) as [|p rest] eqn:Hr; [discriminate|].
      injection Hs as <-. apply inv_lookup; assumption.
  - destruct (nth_error (crs s) i) as [[m [|]]|] eqn:Hc; try discriminate.
    injection Hs as <-. apply inv_create; assumption.
Qed.

Lemma inv_run : forall ms ps sch s,
  exclusive ms -> inv ms ps s -> inv ms ps (run s sch).
Proof.
  intros ms ps sch. induction sch as [|t rest IH]; intros s Hex I; [exact I|].
  cbn. destruct (step s t) as [s'|] eqn:Hs.
  - apply IH; [exact Hex|]. eapply inv_step; eauto.
  - apply IH; assumption.
Qed.

(* ---------------- statements ---------------- *)

Lemma order_all_schedules : forall ms ps sch,
  exclusive ms ->
  let s := run (init ms ps) sch in
  arrived s ++ rd_rest s = ps /\
  (forall i m, nth_error (crs s) i = Some (m, true) ->
     delivered s i ++ inflight s i = filter m (accepted s)) /\
  (forall i m, nth_error (crs s) i = Some (m, false) -> delivered s i = []) /\
  pendq s = filter (unmatched (regd s)) (accepted s).
Proof.
  intros ms ps sch Hex s.
  assert (inv ms ps s) as I by (apply inv_run; [exact Hex|apply inv_init]).
  split; [apply (i_arr _ _ _ I)|]. split; [|split].
  - intros i m Hd. apply (i_buf _ _ _ I). apply (i_done _ _ _ I). exact Hd.
  - apply (i_unreg _ _ _ I).
  - apply (i_pend _ _ _ I).
Qed.

Lemma order_quiescent : forall ms ps sch,
  exclusive ms ->
  let s := run (init ms ps) sch in
  rd_sel s = None ->
  forall i m, nth_error (crs s) i = Some (m, true) ->
    delivered s i = filter m (accepted s).
Proof.
  intros ms ps sch Hex s Hsel i m Hd.
  destruct (order_all_schedules ms ps sch Hex) as (_ & Hb & _).
  specialize (Hb i m Hd). fold s in Hb. unfold inflight in Hb. rewrite Hsel, app_nil_r in Hb.
  exact Hb.
Qed.

Lemma no_duplication : forall ms ps sch,
  exclusive ms ->
  let s := run (init ms ps) sch in
  total_buffered s + length (pendq s) + inflight_count s = length (accepted s) /\
  length (accepted s) <= length (arrived s).
Proof.
  intros ms ps sch Hex s.
  assert (inv ms ps s) as I by (apply inv_run; [exact Hex|apply inv_init]).
  split; [apply (i_count _ _ _ I)|].
  unfold accepted, arrived. rewrite !map_length. apply filter_len_le.
Qed.

Lemma filter_all : forall A (f : A -> bool) l,
  (forall x, In x l -> f x = true) -> filter f l = l.
Proof.
  intros A f l. induction l as [|a t IH]; intros H; [reflexivity|].
  cbn. rewrite (H a (or_introl eq_refl)). f_equal. apply IH. intros x Hx. apply H. right. exact Hx.
Qed.

Lemma filter_lt : forall A (f : A -> bool) l x,
  In x l -> f x = false -> length (filter f l) < length l.
Proof.
  intros A f l. induction l as [|a t IH]; intros x Hin Hf; [destruct Hin|].
  cbn. destruct Hin as [->|Hin].
  - rewrite Hf. pose proof (filter_len_le A f t). lia.
  - specialize (IH x Hin Hf). destruct (f a); cbn; lia.
Qed.

Lemma loss_characterised : forall ms ps sch,
  exclusive ms ->
  let s := run (init ms ps) sch in
  (forall p f, In (p, f) (arr s) -> (f = DroppedEmpty <-> p = [])) /\
  ((exists p, In (p, DroppedFull) (arr s)) -> max_pending <= length (accepted s)).
Proof.
  intros ms ps sch Hex s.
  assert (inv ms ps s) as I by (apply inv_run; [exact Hex|apply inv_init]).
  split; [apply (i_empty _ _ _ I)|apply (i_full _ _ _ I)].
Qed.

Lemma no_loss_below_cap : forall ms ps sch,
  exclusive ms -> length ps <= max_pending -> (forall p, In p ps -> p <> []) ->
  let s := run (init ms ps) sch in
  accepted s = arrived s.
Proof.
  intros ms ps sch Hex Hlen Hne s.
  assert (inv ms ps s) as I by (apply inv_run; [exact Hex|apply inv_init]).
  unfold accepted, arrived. f_equal. apply filter_all. intros [p f] Hin. cbn.
  assert (length (arr s) <= length ps) as Hal.
  { rewrite <- (i_arr _ _ _ I). unfold arrived. rewrite app_length, map_length. lia. }
  destruct f; [reflexivity| |].
  - exfalso. apply (Hne p).
    + rewrite <- (i_arr _ _ _ I). apply in_or_app. left. unfold arrived.
      change p with (fst (p, DroppedEmpty)). apply in_map. exact Hin.
    + apply (i_empty _ _ _ I _ _ Hin). reflexivity.
  - exfalso. assert (has_full s) as Hf by (exists p; exact Hin).
    pose proof (i_full _ _ _ I Hf) as Hfl. unfold accepted in Hfl. rewrite map_length in Hfl.
    pose proof (filter_lt _ (fun e : pkt * fate => fate_accepted (snd e)) _ _ Hin eq_refl) as Hlt.
    lia.
Qed.

Definition real_matchers : list matcher :=
  [match_dtls; (fun b => is_true (match_srtp b)); (fun b => is_true (match_srtcp b))].

Lemma is_true_ok : forall r, is_true r = true -> r = Ok true.
Proof. intros [[|]|e|]; cbn; congruence. Qed.

Lemma real_matchers_exclusive : exclusive real_matchers.
Proof.
  intros i j mi mj p Hi Hj Hne Hp.
  destruct (classes_exclusive p) as (H1 & H2 & H3).
  apply not_true_iff_false. intros Hq.
  destruct i as [|[|[|i]]]; cbn in Hi; try (destruct i; discriminate);
  destruct j as [|[|[|j]]]; cbn in Hj; try (destruct j; discriminate);
  try congruence;
  injection Hi as <-; injection Hj as <-;
  try apply is_true_ok in Hp; try apply is_true_ok in Hq; tauto.
Qed.

(* the race of the code before the repair, on the model of Part C: P1 queued,
   endpoint registered, P2 dispatched and written, then the flush goroutine *)
Lemma legacy_race :
  o_buf (run0 (init0 match_dtls [[20; 1]; [20; 2]]%N) [0; 1; 0; 0; 1; 2])
  = [[20; 2]; [20; 1]]%N.
Proof. vm_compute. reflexivity. Qed.

Lemma matchers_no_panic : forall buf,
  match_srtp buf <> Panic /\ match_srtcp buf <> Panic.
Proof. intros buf. split; [apply match_srtp_no_panic|apply match_srtcp_no_panic]. Qed.
