(* Proofs about the rtpdump model (C36). *)
From Coq Require Import List ZArith NArith String Bool Lia ZifyBool ZifyNat ZifyN.
Import ListNotations.
From Verif Require Import Common.V Common.Base Common.Media1Util Model.RtpDump Proofs.Media1Util.
Open Scope N_scope.

Ltac bdestr :=
  repeat match goal with
         | |- context [N.ltb ?a ?b] => destruct (N.ltb_spec a b)
         | |- context [N.leb ?a ?b] => destruct (N.leb_spec a b)
         | |- context [N.eqb ?a ?b] => destruct (N.eqb_spec a b)
         | |- context [Z.ltb ?a ?b] => destruct (Z.ltb_spec a b)
         | |- context [Z.leb ?a ?b] => destruct (Z.leb_spec a b)
         | |- context [Z.eqb ?a ?b] => destruct (Z.eqb_spec a b)
         end.

(* ---------- writer ---------- *)

(* the record Packet.Marshal produces for a packet it accepts *)
Definition enc (p : packet) : list N :=
  let n := lenN (p_payload p) in
  be_bytes 2 (u16 (u16 n + 8)) ++ be_bytes 2 (u16 (if p_rtcp p then 0 else n))
  ++ be_bytes 4 (u32z (ms_of (p_off p))) ++ p_payload p.

Lemma packet_marshal_spec : forall p,
  packet_marshal p = if fit_packet p then Ok (enc p) else Err "refused"%string.
Proof.
  intros p. unfold packet_marshal, fit_packet, enc.
  destruct (p_rtcp p); cbn [negb andb orb]; bdestr; cbn [negb andb orb]; try reflexivity; lia.
Qed.

Lemma write_packets_spec : forall ps out,
  write_packets out ps = (out ++ flat_map enc (filter fit_packet ps), map fit_packet ps).
Proof.
  induction ps as [|p t IH]; intros out; cbn [write_packets filter flat_map map].
  - rewrite app_nil_r. reflexivity.
  - rewrite packet_marshal_spec. destruct (fit_packet p); rewrite IH; cbn [fst snd flat_map].
    + rewrite app_assoc. reflexivity.
    + reflexivity.
Qed.

Definition file_head (h : header) : list N :=
  preamble (to4 (h_src h)) (h_port h) ++ header_marshal h.

Lemma new_writer_spec : forall h,
  new_writer h = if fit_header h then Ok (file_head h) else Err "refused"%string.
Proof.
  intros h. unfold new_writer, fit_header, file_head.
  destruct (to4 (h_src h)); cbn [andb]; bdestr; cbn [andb orb]; try reflexivity; lia.
Qed.

Lemma write_file_spec : forall h ps,
  write_file h ps =
  if fit_header h
  then Ok (file_head h ++ flat_map enc (filter fit_packet ps), map fit_packet ps)
  else Err "refused"%string.
Proof.
  intros. unfold write_file. rewrite new_writer_spec.
  destruct (fit_header h); [rewrite write_packets_spec|]; reflexivity.
Qed.

(* ---------- decimal rendering and the preamble expression ---------- *)

Lemma is_digit_lo : forall n, n < 10 -> is_digit (48 + n) = true.
Proof. intros. unfold is_digit. lia. Qed.

Lemma dec_fuel_digits : forall f n, forallb is_digit (dec_fuel f n) = true.
Proof.
  induction f as [|f IH]; intros n; cbn [dec_fuel]; [reflexivity|].
  destruct (N.ltb_spec n 10).
  - cbn [forallb]. rewrite is_digit_lo by assumption. reflexivity.
  - rewrite forallb_app, IH. cbn [forallb].
    rewrite is_digit_lo by (apply N.mod_upper_bound; lia). reflexivity.
Qed.

Lemma dec_fuel_len : forall f n k,
  (1 <= k)%nat -> (k <= f)%nat -> n < 10 ^ N.of_nat k ->
  (1 <= List.length (dec_fuel f n) <= k)%nat.
Proof.
  induction f as [|f IH]; intros n k Hk Hf Hn; [lia|].
  cbn [dec_fuel]. destruct (N.ltb_spec n 10) as [Hlt|Hge].
  - cbn [List.length]. lia.
  - rewrite app_length. cbn [List.length].
    destruct k as [|k]; [lia|]. destruct k as [|k].
    + change (10 ^ N.of_nat 1) with 10 in Hn. lia.
    + assert (Hd : n / 10 < 10 ^ N.of_nat (S k)).
      { apply N.div_lt_upper_bound; [lia|].
        replace (N.of_nat (S (S k))) with (N.succ (N.of_nat (S k))) in Hn by lia.
        rewrite N.pow_succ_r' in Hn. exact Hn. }
      specialize (IH (n / 10) (S k) ltac:(lia) ltac:(lia) Hd). lia.
Qed.

Lemma dec_digits : forall n, forallb is_digit (dec n) = true.
Proof. intros. apply dec_fuel_digits. Qed.

Lemma dec_len3 : forall n, n < 256 -> (1 <= List.length (dec n) <= 3)%nat.
Proof. intros n H. apply dec_fuel_len; try lia; change (10 ^ N.of_nat 3) with 1000; lia. Qed.

Lemma dec_len5 : forall n, n < 65536 -> (1 <= List.length (dec n) <= 5)%nat.
Proof. intros n H. apply dec_fuel_len; try lia; change (10 ^ N.of_nat 5) with 100000; lia. Qed.

Lemma digits_upto_run : forall ds k c rest,
  forallb is_digit ds = true -> (List.length ds <= k)%nat -> is_digit c = false ->
  digits_upto k (ds ++ c :: rest) = c :: rest.
Proof.
  induction ds as [|d t IH]; intros k c rest Hd Hl Hc; cbn [app].
  - destruct k; cbn [digits_upto]; [reflexivity|]. rewrite Hc. reflexivity.
  - cbn [forallb] in Hd. apply andb_prop in Hd. destruct Hd as [Hd Ht].
    cbn [List.length] in Hl. destruct k as [|k]; [lia|].
    cbn [digits_upto]. rewrite Hd. apply IH; [assumption|lia|assumption].
Qed.

Lemma digits1_run : forall ds k c rest,
  forallb is_digit ds = true -> (1 <= List.length ds <= k)%nat -> is_digit c = false ->
  digits1 k (ds ++ c :: rest) = Some (c :: rest).
Proof.
  intros ds k c rest Hd Hl Hc. destruct ds as [|d t]; [cbn [List.length] in Hl; lia|].
  cbn [forallb] in Hd. apply andb_prop in Hd. destruct Hd as [Hd Ht].
  cbn [app digits1]. rewrite Hd. f_equal.
  cbn [List.length] in Hl. apply digits_upto_run; [assumption|lia|assumption].
Qed.

Lemma lit_app : forall s rest, lit s (s ++ rest) = Some rest.
Proof.
  induction s as [|c s IH]; intros rest; cbn [app lit]; [reflexivity|].
  rewrite N.eqb_refl. apply IH.
Qed.

Lemma lit1 : forall c rest, lit [c] (c :: rest) = Some rest.
Proof. intros. cbn [lit]. rewrite N.eqb_refl. reflexivity. Qed.

(* the preamble followed by anything, written with the separators as conses *)
Definition pre_tail (a b c d port : N) (rest : list N) : list N :=
  magic ++ (dec a ++ 46 :: (dec b ++ 46 :: (dec c ++ 46 :: (dec d ++ 47 :: (dec port ++ 10 :: rest))))).

Lemma preamble_tail : forall a b c d port rest,
  preamble (Some [a; b; c; d]) port ++ rest = pre_tail a b c d port rest.
Proof.
  intros. unfold preamble, ip_string, pre_tail.
  repeat (rewrite <- app_assoc; cbn [app]). reflexivity.
Qed.

Lemma match_here_preamble : forall a b c d port rest,
  a < 256 -> b < 256 -> c < 256 -> d < 256 -> port < 65536 ->
  match_here (pre_tail a b c d port rest) = true.
Proof.
  intros a b c d port rest Ha Hb Hc Hd Hp. unfold match_here, pre_tail.
  rewrite lit_app. cbn [obind].
  rewrite (digits1_run (dec a) 3) by (try apply dec_digits; try apply dec_len3; auto).
  cbn [obind]. rewrite lit1. cbn [obind].
  rewrite (digits1_run (dec b) 3) by (try apply dec_digits; try apply dec_len3; auto).
  cbn [obind]. rewrite lit1. cbn [obind].
  rewrite (digits1_run (dec c) 3) by (try apply dec_digits; try apply dec_len3; auto).
  cbn [obind]. rewrite lit1. cbn [obind].
  rewrite (digits1_run (dec d) 3) by (try apply dec_digits; try apply dec_len3; auto).
  cbn [obind]. rewrite lit1. cbn [obind].
  rewrite (digits1_run (dec port) 5) by (try apply dec_digits; try apply dec_len5; auto).
  cbn [obind]. rewrite lit1. reflexivity.
Qed.

Lemma match_any_here : forall l, match_here l = true -> match_any l = true.
Proof. intros l H. destruct l; cbn [match_any]; rewrite H; reflexivity. Qed.

Lemma takeN_app_le : forall {A} (a b : list A) n,
  lenN a <= n -> takeN n (a ++ b) = a ++ takeN (n - lenN a) b.
Proof.
  induction a as [|x t IH]; intros b n H; cbn [lenN] in *.
  - cbn [app]. rewrite N.sub_0_r. reflexivity.
  - cbn [app takeN]. destruct (N.eqb_spec n 0); [lia|]. f_equal.
    rewrite IH by lia. f_equal. f_equal. lia.
Qed.

Definition not10 (x : N) : bool := negb (x =? 10).

Lemma digits_not10 : forall ds, forallb is_digit ds = true -> forallb not10 ds = true.
Proof.
  induction ds as [|d t IH]; intros H; [reflexivity|].
  cbn [forallb] in *. apply andb_prop in H. destruct H as [Hd Ht].
  rewrite IH by assumption. unfold is_digit in Hd. unfold not10. lia.
Qed.

Lemma drop_line_app : forall body rest,
  forallb not10 body = true -> drop_line (body ++ 10 :: rest) = rest.
Proof.
  induction body as [|x t IH]; intros rest H; cbn [app drop_line].
  - reflexivity.
  - cbn [forallb] in H. apply andb_prop in H. destruct H as [Hx Ht].
    unfold not10 in Hx. destruct (N.eqb_spec x 10); [discriminate|]. apply IH. assumption.
Qed.

Definition pre_body (a b c d port : N) : list N :=
  magic ++ dec a ++ 46 :: dec b ++ 46 :: dec c ++ 46 :: dec d ++ 47 :: dec port.

Lemma pre_tail_body : forall a b c d port rest,
  pre_tail a b c d port rest = pre_body a b c d port ++ 10 :: rest.
Proof.
  intros. unfold pre_tail, pre_body.
  repeat (rewrite <- app_assoc; cbn [app]). reflexivity.
Qed.

Lemma pre_body_not10 : forall a b c d port, forallb not10 (pre_body a b c d port) = true.
Proof.
  intros. unfold pre_body.
  repeat (rewrite forallb_app || cbn [forallb]).
  rewrite (digits_not10 (dec a)), (digits_not10 (dec b)), (digits_not10 (dec c)),
    (digits_not10 (dec d)), (digits_not10 (dec port)) by apply dec_digits. reflexivity.
Qed.

Lemma pre_body_len : forall a b c d port,
  a < 256 -> b < 256 -> c < 256 -> d < 256 -> port < 65536 ->
  22 <= lenN (pre_body a b c d port) <= 34.
Proof.
  intros a b c d port Ha Hb Hc Hd Hp. unfold pre_body.
  rewrite lenN_nat. repeat (rewrite app_length || cbn [List.length]).
  pose proof (dec_len3 a Ha). pose proof (dec_len3 b Hb). pose proof (dec_len3 c Hc).
  pose proof (dec_len3 d Hd). pose proof (dec_len5 port Hp).
  change (List.length magic) with 13%nat. lia.
Qed.

(* ---------- header ---------- *)

Definition wf_header (h : header) : bool :=
  (0 <=? h_nsec h)%Z && (h_nsec h <? 1000000000)%Z && (h_port h <? 65536) && bytes_ok (h_src h).

Lemma to4_shape : forall ip x, to4 ip = Some x -> bytes_ok ip = true ->
  exists a b c d, x = [a; b; c; d] /\ a < 256 /\ b < 256 /\ c < 256 /\ d < 256.
Proof.
  intros ip x H Hok. unfold to4 in H.
  destruct ip as [|x0 [|x1 [|x2 [|x3 [|x4 r]]]]]; try discriminate.
  - inversion H; subst. unfold bytes_ok in Hok. cbn [forallb] in Hok.
    do 4 eexists. split; [reflexivity|]. lia.
  - destruct r as [|x5 [|x6 [|x7 [|x8 [|x9 [|x10 [|x11 [|x12 [|x13 [|x14 [|x15 [|x16 r]]]]]]]]]]]];
      try discriminate.
    destruct (forallb (N.eqb 0) [x0; x1; x2; x3; x4; x5; x6; x7; x8; x9] && (x10 =? 255) && (x11 =? 255));
      [|discriminate].
    inversion H; subst. unfold bytes_ok in Hok. cbn [forallb] in Hok.
    do 4 eexists. split; [reflexivity|]. lia.
Qed.

Lemma i64_small : forall z, (-9223372036854775808 <= z < 9223372036854775808)%Z -> i64 z = z.
Proof. intros z H. unfold i64. rewrite Z.mod_small; lia. Qed.

Lemma u32z_small : forall z, (0 <= z < 4294967296)%Z -> u32z z = Z.to_N z.
Proof. intros z H. unfold u32z. rewrite Z.mod_small; lia. Qed.

Lemma header_marshal_fit : forall h a b c d,
  fit_header h = true -> wf_header h = true -> to4 (h_src h) = Some [a; b; c; d] ->
  header_marshal h =
  be_bytes 4 (Z.to_N (h_sec h)) ++ be_bytes 4 (Z.to_N (h_nsec h / 1000))
  ++ [a; b; c; d] ++ be_bytes 2 (h_port h) ++ [0; 0].
Proof.
  intros h a b c d Hfit Hwf H4. unfold header_marshal. rewrite H4.
  unfold fit_header in Hfit. unfold wf_header in Hwf.
  assert (Hs : (0 <= h_sec h <= 4294967295)%Z) by lia.
  assert (Hn : (0 <= h_nsec h < 1000000000)%Z) by lia.
  rewrite i64_small by lia.
  rewrite Z.quot_div_nonneg by lia. rewrite Z.rem_mod_nonneg by lia.
  replace ((h_sec h * 1000000000 + h_nsec h) / 1000000000)%Z with (h_sec h)
    by (apply Z.div_unique with (r := h_nsec h); lia).
  replace ((h_sec h * 1000000000 + h_nsec h) mod 1000000000)%Z with (h_nsec h)
    by (apply Z.mod_unique with (q := h_sec h); lia).
  rewrite Z.quot_div_nonneg by lia.
  assert (Hu : (0 <= h_nsec h / 1000 < 1000000)%Z).
  { split; [apply Z.div_pos; lia|apply Z.div_lt_upper_bound; lia]. }
  rewrite !u32z_small by lia. reflexivity.
Qed.

Lemma header_unmarshal_marshal : forall sec usec a b c d port,
  sec < 4294967296 -> usec < 1000000 -> port < 65536 ->
  header_unmarshal (be_bytes 4 sec ++ be_bytes 4 usec ++ [a; b; c; d] ++ be_bytes 2 port ++ [0; 0])
  = Ok {| h_sec := Z.of_N sec; h_nsec := (Z.of_N usec * 1000)%Z;
          h_src := ipv4_16 a b c d; h_port := port |}.
Proof.
  intros sec usec a b c d port Hs Hu Hp. unfold header_unmarshal.
  set (A := be_bytes 4 sec). set (B := be_bytes 4 usec). set (P := be_bytes 2 port).
  assert (HA : lenN A = 4) by apply lenN_be_bytes.
  assert (HB : lenN B = 4) by apply lenN_be_bytes.
  assert (HP : lenN P = 2) by apply lenN_be_bytes.
  assert (Hlen : lenN (A ++ B ++ [a; b; c; d] ++ P ++ [0; 0]) = 16).
  { rewrite !lenN_app, HA, HB, HP. reflexivity. }
  rewrite Hlen. change (16 <? 16) with false. cbv iota.
  rewrite (takeN_app_exact A) by exact HA.
  rewrite (dropN_app_exact A _ 4) by exact HA.
  rewrite (takeN_app_exact B) by exact HB.
  replace (dropN 8 (A ++ B ++ [a; b; c; d] ++ P ++ [0; 0])) with ([a; b; c; d] ++ P ++ [0; 0]).
  2:{ rewrite (app_assoc A B). rewrite dropN_app_exact; [reflexivity|]. rewrite lenN_app, HA, HB. reflexivity. }
  replace (dropN 12 (A ++ B ++ [a; b; c; d] ++ P ++ [0; 0])) with (P ++ [0; 0]).
  2:{ rewrite (app_assoc A B), (app_assoc (A ++ B)). rewrite dropN_app_exact; [reflexivity|].
      rewrite !lenN_app, HA, HB. reflexivity. }
  rewrite (takeN_app_exact P) by exact HP.
  cbn [app]. subst A B P.
  rewrite !be_val_be_bytes by (cbn; lia).
  f_equal. f_equal.
  - rewrite Z.div_small by lia. lia.
  - rewrite Z.mod_small by lia. reflexivity.
Qed.

Lemma trunc_header_eq : forall h a b c d,
  fit_header h = true -> wf_header h = true -> to4 (h_src h) = Some [a; b; c; d] ->
  {| h_sec := Z.of_N (Z.to_N (h_sec h)); h_nsec := (Z.of_N (Z.to_N (h_nsec h / 1000)) * 1000)%Z;
     h_src := ipv4_16 a b c d; h_port := h_port h |} = trunc_header h.
Proof.
  intros h a b c d Hfit Hwf H4. unfold trunc_header. rewrite H4.
  unfold fit_header in Hfit. unfold wf_header in Hwf.
  assert (Hu : (0 <= h_nsec h / 1000)%Z) by (apply Z.div_pos; lia).
  rewrite !Z2N.id by lia. reflexivity.
Qed.

(* NewReader on the writer's head followed by anything *)
Lemma new_reader_head : forall h rest,
  fit_header h = true -> wf_header h = true ->
  new_reader (file_head h ++ rest) = Ok (trunc_header h, rest).
Proof.
  intros h rest Hfit Hwf.
  assert (Hfit' := Hfit). unfold fit_header in Hfit'.
  destruct (to4 (h_src h)) as [x|] eqn:H4; [|cbn in Hfit'; discriminate].
  assert (Hwf' := Hwf). unfold wf_header in Hwf'.
  destruct (to4_shape _ _ H4 ltac:(lia)) as (a & b & c & d & -> & Ha & Hb & Hc & Hd).
  assert (Hp : h_port h < 65536) by lia.
  unfold file_head. rewrite H4.
  rewrite (header_marshal_fit h a b c d Hfit Hwf H4).
  set (HM := be_bytes 4 (Z.to_N (h_sec h)) ++ be_bytes 4 (Z.to_N (h_nsec h / 1000))
             ++ [a; b; c; d] ++ be_bytes 2 (h_port h) ++ [0; 0]).
  assert (HMlen : lenN HM = 16).
  { subst HM. rewrite !lenN_app, !lenN_be_bytes. reflexivity. }
  rewrite <- app_assoc. rewrite preamble_tail, pre_tail_body.
  set (body := pre_body a b c d (h_port h)).
  assert (Hbl : 22 <= lenN body <= 34) by (apply pre_body_len; assumption).
  unfold new_reader.
  assert (Hlen : 36 <= lenN (body ++ 10 :: HM ++ rest)).
  { rewrite lenN_app, lenN_cons, lenN_app, HMlen. lia. }
  destruct (N.ltb_spec (lenN (body ++ 10 :: HM ++ rest)) 36) as [Hlt|_]; [lia|].
  (* the expression matches at offset 0 of the peeked bytes *)
  assert (Hm : match_any (takeN 36 (body ++ 10 :: HM ++ rest)) = true).
  { apply match_any_here.
    change (body ++ 10 :: HM ++ rest) with (body ++ [10] ++ (HM ++ rest)).
    rewrite app_assoc. rewrite takeN_app_le by (rewrite lenN_app; cbn [lenN]; lia).
    rewrite <- app_assoc. cbn [app].
    unfold body. rewrite <- pre_tail_body. apply match_here_preamble; assumption. }
  rewrite Hm. cbn [negb].
  rewrite drop_line_app by apply pre_body_not10.
  destruct (N.ltb_spec (lenN (HM ++ rest)) 16) as [Hlt|_]; [rewrite lenN_app in Hlt; lia|].
  rewrite takeN_app_exact by exact HMlen.
  rewrite dropN_app_exact by exact HMlen.
  subst HM. rewrite header_unmarshal_marshal.
  - cbn [rbind]. rewrite (trunc_header_eq h a b c d Hfit Hwf H4). reflexivity.
  - lia.
  - assert ((h_nsec h / 1000 < 1000000)%Z) by (apply Z.div_lt_upper_bound; lia).
    assert ((0 <= h_nsec h / 1000)%Z) by (apply Z.div_pos; lia). lia.
  - exact Hp.
Qed.

(* ---------- records ---------- *)

Lemma ms_nonneg : forall off, (0 <= off)%Z -> (0 <= ms_of off)%Z.
Proof. intros. unfold ms_of. rewrite Z.quot_div_nonneg by lia. apply Z.div_pos; lia. Qed.

Lemma next_enc : forall p rest,
  fit_packet p = true -> next (enc p ++ rest) = Ok (trunc_packet p, rest).
Proof.
  intros p rest Hfit. unfold fit_packet in Hfit.
  set (n := lenN (p_payload p)) in *.
  assert (Hn : n <= 65527) by lia.
  assert (Hoff : (0 <= p_off p)%Z) by lia.
  assert (Hms : (0 <= ms_of (p_off p) <= 4294967295)%Z) by (pose proof (ms_nonneg _ Hoff); lia).
  unfold enc. fold n.
  assert (E1 : u16 (u16 n + 8) = n + 8).
  { unfold u16. rewrite (N.mod_small n) by lia. apply N.mod_small. lia. }
  rewrite E1.
  set (plen := u16 (if p_rtcp p then 0 else n)).
  assert (Hplen : plen < 65536) by (subst plen; unfold u16; apply N.mod_upper_bound; lia).
  assert (Hrt : (plen =? 0) = p_rtcp p).
  { subst plen. destruct (p_rtcp p); [reflexivity|].
    unfold u16. rewrite N.mod_small by lia. cbn [orb] in Hfit. lia. }
  rewrite u32z_small by lia.
  set (L := be_bytes 2 (n + 8)). set (Q := be_bytes 2 plen).
  set (O := be_bytes 4 (Z.to_N (ms_of (p_off p)))).
  assert (HL : lenN L = 2) by apply lenN_be_bytes.
  assert (HQ : lenN Q = 2) by apply lenN_be_bytes.
  assert (HO : lenN O = 4) by apply lenN_be_bytes.
  rewrite <- !app_assoc.
  unfold next.
  destruct (L ++ Q ++ O ++ p_payload p ++ rest) as [|x0 t0] eqn:Hdata.
  { apply (f_equal lenN) in Hdata. rewrite lenN_app, HL in Hdata. cbn [lenN] in Hdata. lia. }
  rewrite <- Hdata. clear Hdata x0 t0.
  destruct (N.ltb_spec (lenN (L ++ Q ++ O ++ p_payload p ++ rest)) 8) as [Hlt|_].
  { rewrite !lenN_app, HL, HQ, HO in Hlt. lia. }
  rewrite (takeN_app_exact L) by exact HL.
  rewrite (dropN_app_exact L _ 2) by exact HL.
  rewrite (takeN_app_exact Q) by exact HQ.
  replace (dropN 4 (L ++ Q ++ O ++ p_payload p ++ rest)) with (O ++ p_payload p ++ rest).
  2:{ rewrite (app_assoc L Q). rewrite dropN_app_exact; [reflexivity|]. rewrite lenN_app, HL, HQ. reflexivity. }
  rewrite (takeN_app_exact O) by exact HO.
  replace (dropN 8 (L ++ Q ++ O ++ p_payload p ++ rest)) with (p_payload p ++ rest).
  2:{ rewrite (app_assoc L Q), (app_assoc (L ++ Q) O). rewrite dropN_app_exact; [reflexivity|].
      rewrite !lenN_app, HL, HQ, HO. reflexivity. }
  subst L Q O.
  rewrite !be_val_be_bytes by (cbn; lia).
  destruct (N.ltb_spec (n + 8) 8) as [Hlt|_]; [lia|].
  assert (Hsub : subw 65536 (n + 8) 8 = n).
  { unfold subw. change (8 mod 65536) with 8.
    replace (n + 8 + 65536 - 8) with (n + 65536) by lia.
    rewrite <- (N.mul_1_l 65536) at 1. rewrite N.mod_add by lia. apply N.mod_small. lia. }
  rewrite Hsub, Hrt.
  assert (Hto : (Z.of_N (Z.to_N (ms_of (p_off p))) * 1000000)%Z = (ms_of (p_off p) * 1000000)%Z)
    by (rewrite Z2N.id by lia; reflexivity).
  rewrite Hto.
  destruct (N.eqb_spec n 0) as [E0|E0].
  - assert (Hnil : p_payload p = []) by (apply lenN_nil_inv; exact E0).
    rewrite Hnil. cbn [app]. unfold trunc_packet. rewrite Hnil. reflexivity.
  - destruct (p_payload p ++ rest) as [|y0 t1] eqn:Hpr.
    { apply (f_equal lenN) in Hpr. rewrite lenN_app in Hpr. cbn [lenN] in Hpr. fold n in Hpr. lia. }
    rewrite <- Hpr. clear Hpr y0 t1.
    destruct (N.ltb_spec (lenN (p_payload p ++ rest)) n) as [Hlt|_].
    { rewrite lenN_app in Hlt. fold n in Hlt. lia. }
    rewrite takeN_app_exact by reflexivity.
    rewrite dropN_app_exact by reflexivity.
    reflexivity.
Qed.

Lemma enc_len : forall p, 8 <= lenN (enc p).
Proof. intros. unfold enc. rewrite !lenN_app, !lenN_be_bytes. lia. Qed.

Lemma read_packets_encs : forall ps fuel,
  forallb fit_packet ps = true -> (List.length ps < fuel)%nat ->
  read_packets fuel (flat_map enc ps) = (map trunc_packet ps, "eof"%string).
Proof.
  induction ps as [|p t IH]; intros fuel Hfit Hf.
  - destruct fuel; [lia|]. reflexivity.
  - cbn [forallb] in Hfit. apply andb_prop in Hfit. destruct Hfit as [Hp Ht].
    destruct fuel as [|fuel]; [cbn [List.length] in Hf; lia|].
    cbn [flat_map read_packets]. rewrite next_enc by exact Hp.
    rewrite IH by (try assumption; cbn [List.length] in Hf; lia). reflexivity.
Qed.

Lemma flat_enc_len : forall ps, 8 * N.of_nat (List.length ps) <= lenN (flat_map enc ps).
Proof.
  induction ps as [|p t IH]; cbn [flat_map List.length lenN]; [lia|].
  rewrite lenN_app. pose proof (enc_len p). lia.
Qed.

Lemma read_fuel_enough : forall ps, (List.length ps < read_fuel (flat_map enc ps))%nat.
Proof.
  intros ps. unfold read_fuel. pose proof (flat_enc_len ps) as H.
  assert (N.of_nat (List.length ps) <= lenN (flat_map enc ps) / 8).
  { apply N.div_le_lower_bound; lia. }
  lia.
Qed.

Lemma filter_fit_all : forall ps, forallb fit_packet (filter fit_packet ps) = true.
Proof.
  induction ps as [|p t IH]; [reflexivity|]. cbn [filter].
  destruct (fit_packet p) eqn:E; [cbn [forallb]; rewrite E, IH; reflexivity|exact IH].
Qed.

(* ---------- the theorems of C36 ---------- *)

(* every header the writer accepts, every packet list: the flags say which
   packets were refused, and the reader returns the accepted ones at the
   format's resolution, then EOF *)
Theorem roundtrip_resolution : forall h ps,
  wf_header h = true -> fit_header h = true ->
  exists out,
    write_file h ps = Ok (out, map fit_packet ps) /\
    read_file out = Ok (trunc_header h, map trunc_packet (filter fit_packet ps), "eof"%string).
Proof.
  intros h ps Hwf Hfit. eexists. split.
  - rewrite write_file_spec, Hfit. reflexivity.
  - unfold read_file. rewrite new_reader_head by assumption. cbn [rbind fst snd].
    rewrite read_packets_encs; [reflexivity|apply filter_fit_all|apply read_fuel_enough].
Qed.

Lemma rep_packet_trunc : forall p, rep_packet p = true -> trunc_packet p = p.
Proof.
  intros [off rtcp pl] H. unfold rep_packet, fit_packet in H. cbn [p_off p_rtcp p_payload] in H.
  unfold trunc_packet. cbn [p_off p_rtcp p_payload]. f_equal.
  unfold ms_of. rewrite Z.quot_div_nonneg by lia.
  assert (Hm : (off mod 1000000 = 0)%Z) by lia.
  pose proof (Z.div_mod off 1000000 ltac:(lia)). lia.
Qed.

Lemma rep_packets_id : forall ps, forallb rep_packet ps = true ->
  filter fit_packet ps = ps /\ map trunc_packet ps = ps /\ map fit_packet ps = map (fun _ => true) ps.
Proof.
  induction ps as [|p t IH]; intros H; [repeat split|].
  cbn [forallb] in H. apply andb_prop in H. destruct H as [Hp Ht].
  destruct (IH Ht) as (I1 & I2 & I3).
  assert (Hf : fit_packet p = true) by (unfold rep_packet in Hp; lia).
  cbn [filter map]. rewrite Hf, I1, I2, I3, rep_packet_trunc by assumption. repeat split.
Qed.

Theorem roundtrip : forall h ps,
  rep h ps = true ->
  exists out h',
    write_file h ps = Ok (out, map (fun _ => true) ps) /\
    read_file out = Ok (h', ps, "eof"%string) /\
    h_sec h' = h_sec h /\ h_nsec h' = h_nsec h /\ h_port h' = h_port h /\
    to4 (h_src h') = to4 (h_src h).
Proof.
  intros h ps H. unfold rep in H. apply andb_prop in H. destruct H as [Hh Hps].
  assert (Hfit : fit_header h = true) by (unfold rep_header in Hh; lia).
  assert (Hwf : wf_header h = true) by (unfold rep_header in Hh; unfold wf_header; lia).
  destruct (roundtrip_resolution h ps Hwf Hfit) as (out & Hw & Hr).
  destruct (rep_packets_id ps Hps) as (I1 & I2 & I3).
  rewrite I1, I2 in Hr. rewrite I3 in Hw.
  exists out, (trunc_header h). repeat split; try assumption.
  - unfold trunc_header. cbn [h_nsec]. unfold rep_header in Hh.
    assert (Hm : (h_nsec h mod 1000 = 0)%Z) by lia.
    pose proof (Z.div_mod (h_nsec h) 1000 ltac:(lia)). lia.
  - unfold trunc_header. cbn [h_src].
    unfold fit_header in Hfit.
    destruct (to4 (h_src h)) as [x|] eqn:H4; [|cbn in Hfit; discriminate].
    unfold wf_header in Hwf.
    destruct (to4_shape _ _ H4 ltac:(lia)) as (a & b & c & d & -> & _). reflexivity.
Qed.

(* the writer refuses what the format cannot hold, and a refusal writes nothing:
   the output is exactly the file of the accepted packets *)
Theorem writer_refuses : forall h ps,
  (fit_header h = false -> write_file h ps = Err "refused"%string) /\
  (fit_header h = true ->
   exists out, write_file h ps = Ok (out, map fit_packet ps) /\
               write_file h (filter fit_packet ps)
               = Ok (out, map (fun _ => true) (filter fit_packet ps))).
Proof.
  intros h ps. split; intros Hf.
  - rewrite write_file_spec, Hf. reflexivity.
  - eexists. split; [rewrite write_file_spec, Hf; reflexivity|].
    rewrite write_file_spec, Hf. f_equal. f_equal.
    + f_equal. f_equal. induction ps as [|p t IH]; [reflexivity|].
      cbn [filter]. destruct (fit_packet p) eqn:E; [cbn [filter]; rewrite E, IH; reflexivity|exact IH].
    + induction ps as [|p t IH]; [reflexivity|].
      cbn [filter]. destruct (fit_packet p) eqn:E; [cbn [map]; rewrite E, IH; reflexivity|exact IH].
Qed.

(* a record whose length field is below the record header is rejected *)
Theorem reader_rejects : forall data,
  8 <= lenN data -> be_val (takeN 2 data) < 8 -> next data = Err "malformed"%string.
Proof.
  intros data Hlen Hl. unfold next.
  destruct data as [|x t]; [cbn [lenN] in Hlen; lia|].
  destruct (N.ltb_spec (lenN (x :: t)) 8); [lia|].
  destruct (N.ltb_spec (be_val (takeN 2 (x :: t))) 8); [reflexivity|lia].
Qed.

Lemma read_packets_app_bad : forall ps fuel bad,
  forallb fit_packet ps = true -> (List.length ps < fuel)%nat ->
  next bad = Err "malformed"%string ->
  read_packets fuel (flat_map enc ps ++ bad) = (map trunc_packet ps, "malformed"%string).
Proof.
  induction ps as [|p t IH]; intros fuel bad Hfit Hf Hbad.
  - destruct fuel; [lia|]. cbn [flat_map app read_packets]. rewrite Hbad. reflexivity.
  - cbn [forallb] in Hfit. apply andb_prop in Hfit. destruct Hfit as [Hp Ht].
    destruct fuel as [|fuel]; [cbn [List.length] in Hf; lia|].
    cbn [flat_map read_packets]. rewrite <- app_assoc. rewrite next_enc by exact Hp.
    rewrite IH by (try assumption; cbn [List.length] in Hf; lia). reflexivity.
Qed.

(* ... also in the middle of a file: the packets before it are returned, then
   the error, whatever follows the bad record *)
Theorem reader_rejects_in_stream : forall h ps bad,
  wf_header h = true -> fit_header h = true -> forallb fit_packet ps = true ->
  8 <= lenN bad -> be_val (takeN 2 bad) < 8 ->
  read_file (file_head h ++ flat_map enc ps ++ bad)
  = Ok (trunc_header h, map trunc_packet ps, "malformed"%string).
Proof.
  intros h ps bad Hwf Hfit Hps Hlen Hl.
  unfold read_file. rewrite new_reader_head by assumption. cbn [rbind fst snd].
  rewrite read_packets_app_bad; [reflexivity|assumption| |apply reader_rejects; assumption].
  unfold read_fuel. pose proof (flat_enc_len ps) as H.
  rewrite lenN_app.
  assert (N.of_nat (List.length ps) <= (lenN (flat_map enc ps) + lenN bad) / 8).
  { apply N.div_le_lower_bound; lia. }
  lia.
Qed.

(* ---------- totality: no panic, fuel suffices ---------- *)

Lemma header_unmarshal_no_panic : forall d, header_unmarshal d <> Panic.
Proof.
  intros d. unfold header_unmarshal.
  destruct (N.ltb_spec (lenN d) 16) as [|H]; [discriminate|].
  pose proof (lenN_dropN d 8) as Hd.
  destruct (dropN 8 d) as [|a [|b [|c [|e r]]]]; cbn [lenN] in Hd; try lia; discriminate.
Qed.

Lemma new_reader_no_panic : forall data, new_reader data <> Panic.
Proof.
  intros data. unfold new_reader.
  destruct (lenN data <? 36); [discriminate|].
  destruct (negb _); [discriminate|].
  destruct (lenN (drop_line data) <? 16); [discriminate|].
  pose proof (header_unmarshal_no_panic (takeN 16 (drop_line data))).
  destruct (header_unmarshal _); cbn [rbind]; congruence.
Qed.

Lemma next_no_panic : forall data, next data <> Panic.
Proof.
  intros data. unfold next. destruct data; [discriminate|].
  repeat match goal with
         | |- context [if ?c then _ else _] => destruct c; try discriminate
         | |- context [match ?l with [] => _ | _ :: _ => _ end] => destruct l; try discriminate
         end.
Qed.

(* progress: a successful Next consumes at least the 8-byte record header *)
Lemma next_progress : forall data p rest,
  next data = Ok (p, rest) -> lenN rest + 8 <= lenN data.
Proof.
  intros data p rest H. unfold next in H.
  destruct data as [|x t] eqn:Ed; [discriminate|]. rewrite <- Ed in *. clear Ed x t.
  destruct (N.ltb_spec (lenN data) 8) as [|Hl]; [discriminate|].
  destruct (be_val (takeN 2 data) <? 8); [discriminate|].
  destruct (subw 65536 (be_val (takeN 2 data)) 8 =? 0).
  - inversion H; subst. rewrite lenN_dropN. lia.
  - destruct (dropN 8 data) as [|y u] eqn:Er; [discriminate|]. rewrite <- Er in *.
    destruct (N.ltb_spec (lenN (dropN 8 data)) (subw 65536 (be_val (takeN 2 data)) 8)); [discriminate|].
    inversion H; subst. rewrite !lenN_dropN. lia.
Qed.

Lemma next_err_class : forall data e, next data = Err e -> e = "eof"%string \/ e = "malformed"%string.
Proof.
  intros data e En. unfold next in En.
  destruct data; [inversion En; auto|].
  repeat match type of En with
         | context [if ?c then _ else _] => destruct c; try (inversion En; auto; fail)
         | context [match ?l with [] => _ | _ :: _ => _ end] => destruct l; try (inversion En; auto; fail)
         end.
Qed.

Lemma read_packets_fuel : forall fuel data,
  (N.to_nat (lenN data / 8) < fuel)%nat -> snd (read_packets fuel data) <> "out-of-fuel"%string.
Proof.
  induction fuel as [|fuel IH]; intros data Hf; [lia|].
  cbn [read_packets]. destruct (next data) as [[p rest]|e|] eqn:En.
  - cbn [snd]. apply IH. apply next_progress in En.
    assert (lenN rest / 8 + 1 <= lenN data / 8).
    { replace (lenN rest / 8 + 1) with ((lenN rest + 1 * 8) / 8) by (rewrite N.div_add by lia; reflexivity).
      apply N.div_le_mono; lia. }
    lia.
  - cbn [snd]. destruct (next_err_class _ _ En) as [-> | ->]; discriminate.
  - exfalso. exact (next_no_panic data En).
Qed.

Lemma read_packets_no_panic : forall fuel data, snd (read_packets fuel data) <> "panic"%string.
Proof.
  induction fuel as [|fuel IH]; intros data; [discriminate|].
  cbn [read_packets]. destruct (next data) as [[p rest]|e|] eqn:En.
  - cbn [snd]. apply IH.
  - cbn [snd]. destruct (next_err_class _ _ En) as [-> | ->]; discriminate.
  - exfalso. exact (next_no_panic data En).
Qed.

Theorem read_file_total : forall data,
  read_file data <> Panic /\
  (forall h ps e, read_file data = Ok (h, ps, e) -> e <> "out-of-fuel"%string /\ e <> "panic"%string).
Proof.
  intros data. split.
  - unfold read_file. pose proof (new_reader_no_panic data).
    destruct (new_reader data); cbn [rbind]; congruence.
  - intros h ps e H. unfold read_file in H.
    destruct (new_reader data) as [[h0 rest]|?|]; cbn [rbind fst snd] in H; try discriminate.
    assert (He : e = snd (read_packets (read_fuel rest) rest)) by congruence.
    rewrite He. split.
    + apply read_packets_fuel. unfold read_fuel. lia.
    + apply read_packets_no_panic.
Qed.
