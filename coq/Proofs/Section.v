(* Lemmas for C10 (and the filter facts C16 needs): filterUnattachedRTX,
   payload-type uniqueness, attribute owners, local extension ids. *)
From Coq Require Import List ZArith NArith String Ascii Bool Lia.
Import ListNotations.
From Verif Require Import Common.Base Model.Fmtp Model.Codec Model.HeaderExt Model.Section Proofs.Codec.
Open Scope string_scope.

(* ---------- filterUnattachedRTX ---------- *)

Lemma rtx_primary_not_rtx : forall c hay, is_rtx c = false -> rtx_primary c hay = (false, false).
Proof. intros c hay H. unfold rtx_primary. now rewrite H. Qed.

Lemma filter_go_in : forall rp suf x,
  In x (filter_rtx_go rp suf) -> In x rp \/ In x suf.
Proof.
  induction rp as [|c rp IH]; intros suf x H; [right; exact H|].
  cbn [filter_rtx_go] in H.
  destruct (rtx_primary c (rev rp ++ c :: suf)) as [isr prim].
  destruct (isr && negb prim).
  - apply IH in H. destruct H; [left; now right|now right].
  - apply IH in H. destruct H as [H|[H|H]]; [left; now right|left; now left|now right].
Qed.

Lemma filter_go_keeps_suffix : forall rp suf x, In x suf -> In x (filter_rtx_go rp suf).
Proof.
  induction rp as [|c rp IH]; intros suf x H; [exact H|].
  cbn [filter_rtx_go].
  destruct (rtx_primary c (rev rp ++ c :: suf)) as [isr prim].
  destruct (isr && negb prim); apply IH; [assumption|now right].
Qed.

Lemma filter_go_keeps_plain : forall rp suf x,
  In x rp -> is_rtx x = false -> In x (filter_rtx_go rp suf).
Proof.
  induction rp as [|c rp IH]; intros suf x H Hx; [destruct H|].
  cbn [filter_rtx_go]. destruct H as [->|H].
  - rewrite (rtx_primary_not_rtx x _ Hx). cbn. apply filter_go_keeps_suffix. now left.
  - destruct (rtx_primary c (rev rp ++ c :: suf)) as [isr prim].
    destruct (isr && negb prim); now apply IH.
Qed.

(* an RTX entry that survives had, at its turn, a payload type matching its apt
   among the entries not yet visited, itself, or the ones already kept *)
Lemma filter_go_rtx : forall rp suf c,
  In c (filter_rtx_go rp suf) ->
  In c suf \/
  (In c rp /\ (is_rtx c = true ->
     exists a p, apt_of c = Some a /\ parse_atoi_pt a = Some p /\
       exists q, (In q rp \/ In q suf) /\ c_pt q = p)).
Proof.
  induction rp as [|d rp IH]; intros suf c H; [left; exact H|].
  cbn [filter_rtx_go] in H.
  destruct (rtx_primary d (rev rp ++ d :: suf)) as [isr prim] eqn:Hrp.
  destruct (isr && negb prim) eqn:Hrm.
  - apply IH in H. destruct H as [H|[H1 H2]]; [now left|right]. split; [now right|].
    intros Hr. destruct (H2 Hr) as [a [p [Ha [Hp [q [Hq Hpt]]]]]].
    exists a, p. split; [assumption|]. split; [assumption|]. exists q. split; [|assumption].
    destruct Hq; [left; now right|now right].
  - apply IH in H. destruct H as [[->|H]|[H1 H2]].
    + (* c = d was kept *)
      right. split; [now left|]. intros Hr.
      unfold rtx_primary in Hrp. rewrite Hr in Hrp. cbn [negb] in Hrp. fold (apt_of c) in Hrp.
      destruct (apt_of c) as [a|] eqn:Ha; [|inversion Hrp; subst; discriminate].
      destruct (parse_atoi_pt a) as [p|] eqn:Hp; [|inversion Hrp; subst; discriminate].
      inversion Hrp; subst isr prim. cbn in Hrm. apply negb_false_iff in Hrm.
      apply existsb_exists in Hrm. destruct Hrm as [q [Hq Hpt]].
      exists a, p. split; [reflexivity|]. split; [exact Hp|]. exists q. split.
      * apply in_app_or in Hq. destruct Hq as [Hq|[Hq|Hq]].
        -- left. right. now apply in_rev.
        -- left. left. assumption.
        -- now right.
      * unfold pt_is in Hpt. now apply N.eqb_eq.
    + now left.
    + right. split; [now right|]. intros Hr.
      destruct (H2 Hr) as [a [p [Ha [Hp [q [Hq Hpt]]]]]].
      exists a, p. split; [assumption|]. split; [assumption|]. exists q. split; [|assumption].
      destruct Hq as [Hq|[Hq|Hq]]; [left; now right|left; now left|now right].
Qed.

Lemma filter_rtx_incl : forall l x, In x (filter_unattached_rtx l) -> In x l.
Proof.
  intros l x H. unfold filter_unattached_rtx in H. apply filter_go_in in H.
  destruct H as [H|[]]. now apply in_rev.
Qed.

Lemma filter_rtx_keeps_plain : forall l x,
  In x l -> is_rtx x = false -> In x (filter_unattached_rtx l).
Proof.
  intros l x H Hx. unfold filter_unattached_rtx. apply filter_go_keeps_plain; [|assumption].
  now apply -> in_rev.
Qed.

(* the guard: no RTX entry's apt names the payload type of another RTX entry *)
Definition no_rtx_chain (l : list codec) : Prop :=
  forall c a p q, In c l -> is_rtx c = true -> apt_of c = Some a -> parse_atoi_pt a = Some p ->
                  In q l -> c_pt q = p -> is_rtx q = false \/ q = c.

Lemma filter_rtx_apt_listed : forall l c,
  no_rtx_chain l ->
  In c (filter_unattached_rtx l) -> is_rtx c = true ->
  exists a p, apt_of c = Some a /\ parse_atoi_pt a = Some p /\ has_pt p (filter_unattached_rtx l).
Proof.
  intros l c Hg Hc Hr. pose proof Hc as Hc0.
  unfold filter_unattached_rtx in Hc. apply filter_go_rtx in Hc.
  destruct Hc as [[]|[Hin H]]. destruct (H Hr) as [a [p [Ha [Hp [q [Hq Hpt]]]]]].
  exists a, p. split; [assumption|]. split; [assumption|].
  assert (Hql : In q l) by (destruct Hq as [Hq|[]]; now apply in_rev).
  assert (Hcl : In c l) by (now apply in_rev).
  destruct (Hg c a p q Hcl Hr Ha Hp Hql Hpt) as [Hplain| ->].
  - exists q. split; [now apply filter_rtx_keeps_plain|assumption].
  - exists c. split; assumption.
Qed.

(* the full statement fails: an RTX naming an RTX that has no primary *)
Definition chain_witness : list codec :=
  [ mkCodec "video/rtx" 90000 0 "apt=99" [] 97; mkCodec "video/rtx" 90000 0 "apt=97" [] 98 ].

Lemma filter_rtx_apt_refuted :
  exists l c, In c (filter_unattached_rtx l) /\ is_rtx c = true /\
    forall a p, apt_of c = Some a -> parse_atoi_pt a = Some p -> ~ has_pt p (filter_unattached_rtx l).
Proof.
  exists chain_witness, (mkCodec "video/rtx" 90000 0 "apt=97" [] 98).
  split; [vm_compute; now left|]. split; [reflexivity|].
  intros a p Ha Hp [q [Hq Hq2]].
  vm_compute in Ha. injection Ha as Ha'. rewrite <- Ha' in Hp. vm_compute in Hp. injection Hp as Hp'.
  vm_compute in Hq. destruct Hq as [Hq|[]]. rewrite <- Hq, <- Hp' in Hq2. vm_compute in Hq2. discriminate.
Qed.

(* ---------- payload types listed once ---------- *)

Lemma filter_go_nodup : forall rp suf,
  NoDup (map c_pt (rev rp ++ suf)) -> NoDup (map c_pt (filter_rtx_go rp suf)).
Proof.
  induction rp as [|c rp IH]; intros suf H; [exact H|].
  cbn [filter_rtx_go]. cbn [rev] in H. rewrite <- app_assoc in H. cbn [app] in H.
  destruct (rtx_primary c (rev rp ++ c :: suf)) as [isr prim].
  destruct (isr && negb prim).
  - apply IH. rewrite map_app in *. cbn [map] in H. now apply NoDup_remove_1 in H.
  - apply IH. exact H.
Qed.

Lemma filter_rtx_nodup : forall l, NoDup (map c_pt l) -> NoDup (map c_pt (filter_unattached_rtx l)).
Proof.
  intros l H. unfold filter_unattached_rtx. apply filter_go_nodup.
  rewrite rev_involutive, app_nil_r. exact H.
Qed.

Definition pref_out (engine_codecs : list codec) (pref : codec) : list codec :=
  let '(c, m) := fuzzy_search pref engine_codecs in
  match m with
  | MNone => []
  | _ => let codec1 := if N.eqb (c_pt pref) 0 then set_pt pref (c_pt c) else pref in
         [set_fb codec1 (fb_intersection (c_fb codec1) (c_fb c))]
  end.

Lemma get_codecs_prefs : forall e p ps,
  get_codecs e (p :: ps) = filter_unattached_rtx (flat_map (pref_out e) (p :: ps)).
Proof. reflexivity. Qed.

Lemma pref_out_pt : forall e p o, c_pt p <> 0%N -> In o (pref_out e p) -> c_pt o = c_pt p.
Proof.
  intros e p o Hnz H. unfold pref_out in H. destruct (fuzzy_search p e) as [c m].
  apply N.eqb_neq in Hnz.
  destruct m; [destruct H| |]; rewrite Hnz in H; destruct H as [<-|[]]; reflexivity.
Qed.

Lemma pref_out_length : forall e p, (List.length (pref_out e p) <= 1)%nat.
Proof.
  intros e p. unfold pref_out. destruct (fuzzy_search p e) as [c m]. destruct m; cbn; lia.
Qed.

Lemma flat_pref_nodup : forall e ps,
  (forall p, In p ps -> c_pt p <> 0%N) -> NoDup (map c_pt ps) ->
  NoDup (map c_pt (flat_map (pref_out e) ps)).
Proof.
  induction ps as [|p ps IH]; intros Hnz Hnd; [constructor|].
  cbn [flat_map]. rewrite map_app. cbn [map] in Hnd. inversion Hnd as [|x xs Hnotin Hnd']; subst.
  assert (IH' : NoDup (map c_pt (flat_map (pref_out e) ps))).
  { apply IH; [intros q Hq; apply Hnz; now right|assumption]. }
  pose proof (pref_out_length e p) as Hlen.
  destruct (pref_out e p) as [|o [|o2 rest]] eqn:Hpo; [exact IH'| |cbn in Hlen; lia].
  cbn [map app]. constructor; [|exact IH'].
  assert (Ho : c_pt o = c_pt p).
  { apply (pref_out_pt e p o); [apply Hnz; now left|rewrite Hpo; now left]. }
  rewrite Ho. intros Hin. apply Hnotin.
  apply in_map_iff in Hin. destruct Hin as [o' [Hpt Ho']].
  apply in_flat_map in Ho'. destruct Ho' as [q [Hq Hoq]].
  apply in_map_iff. exists q. split; [|assumption].
  rewrite <- Hpt. symmetry. apply (pref_out_pt e q o'); [apply Hnz; now right|assumption].
Qed.

Lemma get_codecs_pt_nodup : forall e prefs,
  NoDup (map c_pt e) ->
  (prefs = [] \/ ((forall p, In p prefs -> c_pt p <> 0%N) /\ NoDup (map c_pt prefs))) ->
  NoDup (map c_pt (get_codecs e prefs)).
Proof.
  intros e prefs He [->|[Hnz Hnd]].
  - cbn. now apply filter_rtx_nodup.
  - destruct prefs as [|p ps]; [cbn; now apply filter_rtx_nodup|].
    rewrite get_codecs_prefs. apply filter_rtx_nodup. now apply flat_pref_nodup.
Qed.

Lemma NoDup_snoc : forall (A : Type) (l : list A) (a : A), NoDup l -> ~ In a l -> NoDup (l ++ [a]).
Proof.
  induction l as [|h t IH]; intros a Hnd Hni; cbn.
  - constructor; [intros []|constructor].
  - inversion Hnd as [|x xs Hh Ht]; subst. constructor.
    + intros Hin. apply in_app_or in Hin. destruct Hin as [Hin|[Hin|[]]]; [contradiction|].
      apply Hni. now left.
    + apply IH; [assumption|]. intros Hin. apply Hni. now right.
Qed.

(* the engine's own lists never hold a payload type twice *)
Lemma add_codec_nodup : forall l c, NoDup (map c_pt l) -> NoDup (map c_pt (fst (add_codec l c))).
Proof.
  intros l c H. unfold add_codec.
  destruct (find (fun x => N.eqb (c_pt x) (c_pt c)) l) as [x|] eqn:Hf.
  - destruct (same_codec_for_add x c); exact H.
  - cbn [fst]. rewrite map_app. cbn [map].
    apply NoDup_snoc; [exact H|].
    intros Hin. apply in_map_iff in Hin. destruct Hin as [y [Hpt Hy]].
    pose proof (find_none _ _ Hf y Hy) as Hn. cbn in Hn. rewrite Hpt, N.eqb_refl in Hn. discriminate.
Qed.
