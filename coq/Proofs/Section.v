(* Lemmas for C10 (and the filter facts C16 needs): filterUnattachedRTX,
   payload-type uniqueness, attribute owners, local extension ids. *)
From Coq Require Import List ZArith NArith String Ascii Bool Lia.
Import ListNotations.
From Verif Require Import Common.Base Model.Fmtp Model.Codec Model.HeaderExt Model.Section Proofs.Codec.
Open Scope string_scope.

(* ---------- filterUnattachedRTX ---------- *)

Lemma rtx_primary_not_rtx : forall c hay, is_rtx c = false -> rtx_primary c hay = (false, false).
Proof. intros c hay H. unfold rtx_primary. now rewrite H. Qed.

Lemma filter_go_in : forall rp suf x,
  In x (filter_rtx_go rp suf) -> In x rp \/ In x suf.
Proof.
  induction rp as [|c rp IH]; intros suf x H; [right; exact H|].
  cbn [filter_rtx_go] in H.
  destruct (rtx_primary c (rev rp ++ c :: suf)) as [isr prim].
  destruct (isr && negb prim).
  - apply IH in H. destruct H; [left; now right|now right].
  - apply IH in H. destruct H as [H|[H|H]]; [left; now right|left; now left|now right].
Qed.

Lemma filter_go_keeps_suffix : forall rp suf x, In x suf -> In x (filter_rtx_go rp suf).
Proof.
  induction rp as [|c rp IH]; intros suf x H; [exact H|].
  cbn [filter_rtx_go].
  destruct (rtx_primary c (rev rp ++ c :: suf)) as [isr prim].
  destruct (isr && negb prim); apply IH; [assumption|now right].
Qed.

Lemma filter_go_keeps_plain : forall rp suf x,
  In x rp -> is_rtx x = false -> In x (filter_rtx_go rp suf).
Proof.
  induction rp as [|c rp IH]; intros suf x H Hx; [destruct H|].
  cbn [filter_rtx_go]. destruct H as [->|H].
  - rewrite (rtx_primary_not_rtx x _ Hx). cbn. apply filter_go_keeps_suffix. now left.
  - destruct (rtx_primary c (rev rp ++ c :: suf)) as [isr prim].
    destruct (isr && negb prim); now apply IH.
Qed.

(* an RTX entry that survives had, at its turn, a non-RTX entry with the payload
   type its apt names among the entries not yet visited or the ones already kept *)
Lemma filter_go_rtx : forall rp suf c,
  In c (filter_rtx_go rp suf) ->
  In c suf \/
  (In c rp /\ (is_rtx c = true ->
     exists a p, apt_of c = Some a /\ parse_atoi_pt a = Some p /\
       exists q, (In q rp \/ In q suf) /\ c_pt q = p /\ is_rtx q = false)).
Proof.
  induction rp as [|d rp IH]; intros suf c H; [left; exact H|].
  cbn [filter_rtx_go] in H.
  destruct (rtx_primary d (rev rp ++ d :: suf)) as [isr prim] eqn:Hrp.
  destruct (isr && negb prim) eqn:Hrm.
  - apply IH in H. destruct H as [H|[H1 H2]]; [now left|right]. split; [now right|].
    intros Hr. destruct (H2 Hr) as [a [p [Ha [Hp [q [Hq Hpt]]]]]].
    exists a, p. split; [assumption|]. split; [assumption|]. exists q. split; [|assumption].
    destruct Hq; [left; now right|now right].
  - apply IH in H. destruct H as [[->|H]|[H1 H2]].
    + (* c = d was kept *)
      right. split; [now left|]. intros Hr.
      unfold rtx_primary in Hrp. rewrite Hr in Hrp. cbn [negb] in Hrp. fold (apt_of c) in Hrp.
      destruct (apt_of c) as [a|] eqn:Ha; [|inversion Hrp; subst; discriminate].
      destruct (parse_atoi_pt a) as [p|] eqn:Hp; [|inversion Hrp; subst; discriminate].
      inversion Hrp; subst isr prim. cbn in Hrm. apply negb_false_iff in Hrm.
      apply existsb_exists in Hrm. destruct Hrm as [q [Hq Hpt]].
      unfold primary_pt in Hpt. apply andb_true_iff in Hpt. destruct Hpt as [Hpt Hplain].
      apply negb_true_iff in Hplain.
      exists a, p. split; [reflexivity|]. split; [exact Hp|]. exists q. split.
      * apply in_app_or in Hq. destruct Hq as [Hq|[Hq|Hq]].
        -- left. right. now apply in_rev.
        -- subst q. congruence.
        -- now right.
      * split; [unfold pt_is in Hpt; now apply N.eqb_eq|exact Hplain].
    + now left.
    + right. split; [now right|]. intros Hr.
      destruct (H2 Hr) as [a [p [Ha [Hp [q [Hq Hpt]]]]]].
      exists a, p. split; [assumption|]. split; [assumption|]. exists q. split; [|assumption].
      destruct Hq as [Hq|[Hq|Hq]]; [left; now right|left; now left|now right].
Qed.

Lemma filter_rtx_incl : forall l x, In x (filter_unattached_rtx l) -> In x l.
Proof.
  intros l x H. unfold filter_unattached_rtx in H. apply filter_go_in in H.
  destruct H as [H|[]]. now apply in_rev.
Qed.

Lemma filter_rtx_keeps_plain : forall l x,
  In x l -> is_rtx x = false -> In x (filter_unattached_rtx l).
Proof.
  intros l x H Hx. unfold filter_unattached_rtx. apply filter_go_keeps_plain; [|assumption].
  now apply -> in_rev.
Qed.

(* after the filter every RTX entry's apt names the payload type of a kept
   entry that is not itself an RTX entry: for all lists *)
Lemma filter_rtx_apt_listed : forall l c,
  In c (filter_unattached_rtx l) -> is_rtx c = true ->
  exists a p q, apt_of c = Some a /\ parse_atoi_pt a = Some p /\
    In q (filter_unattached_rtx l) /\ c_pt q = p /\ is_rtx q = false.
Proof.
  intros l c Hc Hr. unfold filter_unattached_rtx in Hc. apply filter_go_rtx in Hc.
  destruct Hc as [[]|[Hin H]]. destruct (H Hr) as [a [p [Ha [Hp [q [Hq [Hpt Hplain]]]]]]].
  exists a, p, q. split; [assumption|]. split; [assumption|].
  assert (Hql : In q l) by (destruct Hq as [Hq|[]]; now apply in_rev).
  split; [now apply filter_rtx_keeps_plain|]. auto.
Qed.

(* the list that used to keep an RTX whose target was removed *)
Definition chain_witness : list codec :=
  [ mkCodec "video/rtx" 90000 0 "apt=99" [] 97; mkCodec "video/rtx" 90000 0 "apt=97" [] 98 ].

Lemma chain_witness_filtered : filter_unattached_rtx chain_witness = [].
Proof. vm_compute. reflexivity. Qed.

(* ---------- payload types listed once ---------- *)

Lemma filter_go_nodup : forall rp suf,
  NoDup (map c_pt (rev rp ++ suf)) -> NoDup (map c_pt (filter_rtx_go rp suf)).
Proof.
  induction rp as [|c rp IH]; intros suf H; [exact H|].
  cbn [filter_rtx_go]. cbn [rev] in H. rewrite <- app_assoc in H. cbn [app] in H.
  destruct (rtx_primary c (rev rp ++ c :: suf)) as [isr prim].
  destruct (isr && negb prim).
  - apply IH. rewrite map_app in *. cbn [map] in H. now apply NoDup_remove_1 in H.
  - apply IH. exact H.
Qed.

Lemma filter_rtx_nodup : forall l, NoDup (map c_pt l) -> NoDup (map c_pt (filter_unattached_rtx l)).
Proof.
  intros l H. unfold filter_unattached_rtx. apply filter_go_nodup.
  rewrite rev_involutive, app_nil_r. exact H.
Qed.

Definition pref_out (engine_codecs : list codec) (pref : codec) : list codec :=
  let '(c, m) := fuzzy_search pref engine_codecs in
  match m with
  | MNone => []
  | _ => let codec1 := if N.eqb (c_pt pref) 0 then set_pt pref (c_pt c) else pref in
         [set_fb codec1 (fb_intersection (c_fb codec1) (c_fb c))]
  end.

Lemma get_codecs_prefs : forall e p ps,
  get_codecs e (p :: ps) = filter_unattached_rtx (flat_map (pref_out e) (p :: ps)).
Proof. reflexivity. Qed.

Lemma pref_out_pt : forall e p o, c_pt p <> 0%N -> In o (pref_out e p) -> c_pt o = c_pt p.
Proof.
  intros e p o Hnz H. unfold pref_out in H. destruct (fuzzy_search p e) as [c m].
  apply N.eqb_neq in Hnz.
  destruct m; [destruct H| |]; rewrite Hnz in H; destruct H as [<-|[]]; reflexivity.
Qed.

Lemma pref_out_length : forall e p, (List.length (pref_out e p) <= 1)%nat.
Proof.
  intros e p. unfold pref_out. destruct (fuzzy_search p e) as [c m]. destruct m; cbn; lia.
Qed.

Lemma flat_pref_nodup : forall e ps,
  (forall p, In p ps -> c_pt p <> 0%N) -> NoDup (map c_pt ps) ->
  NoDup (map c_pt (flat_map (pref_out e) ps)).
Proof.
  induction ps as [|p ps IH]; intros Hnz Hnd; [constructor|].
  cbn [flat_map]. rewrite map_app. cbn [map] in Hnd. inversion Hnd as [|x xs Hnotin Hnd']; subst.
  assert (IH' : NoDup (map c_pt (flat_map (pref_out e) ps))).
  { apply IH; [intros q Hq; apply Hnz; now right|assumption]. }
  pose proof (pref_out_length e p) as Hlen.
  destruct (pref_out e p) as [|o [|o2 rest]] eqn:Hpo; [exact IH'| |cbn in Hlen; lia].
  cbn [map app]. constructor; [|exact IH'].
  assert (Ho : c_pt o = c_pt p).
  { apply (pref_out_pt e p o); [apply Hnz; now left|rewrite Hpo; now left]. }
  rewrite Ho. intros Hin. apply Hnotin.
  apply in_map_iff in Hin. destruct Hin as [o' [Hpt Ho']].
  apply in_flat_map in Ho'. destruct Ho' as [q [Hq Hoq]].
  apply in_map_iff. exists q. split; [|assumption].
  rewrite <- Hpt. symmetry. apply (pref_out_pt e q o'); [apply Hnz; now right|assumption].
Qed.

Lemma get_codecs_pt_nodup : forall e prefs,
  NoDup (map c_pt e) ->
  (prefs = [] \/ ((forall p, In p prefs -> c_pt p <> 0%N) /\ NoDup (map c_pt prefs))) ->
  NoDup (map c_pt (get_codecs e prefs)).
Proof.
  intros e prefs He [->|[Hnz Hnd]].
  - cbn. now apply filter_rtx_nodup.
  - destruct prefs as [|p ps]; [cbn; now apply filter_rtx_nodup|].
    rewrite get_codecs_prefs. apply filter_rtx_nodup. now apply flat_pref_nodup.
Qed.

Lemma NoDup_snoc : forall (A : Type) (l : list A) (a : A), NoDup l -> ~ In a l -> NoDup (l ++ [a]).
Proof.
  induction l as [|h t IH]; intros a Hnd Hni; cbn.
  - constructor; [intros []|constructor].
  - inversion Hnd as [|x xs Hh Ht]; subst. constructor.
    + intros Hin. apply in_app_or in Hin. destruct Hin as [Hin|[Hin|[]]]; [contradiction|].
      apply Hni. now left.
    + apply IH; [assumption|]. intros Hin. apply Hni. now right.
Qed.

(* the engine's own lists never hold a payload type twice *)
Lemma add_codec_nodup : forall l c, NoDup (map c_pt l) -> NoDup (map c_pt (fst (add_codec l c))).
Proof.
  intros l c H. unfold add_codec.
  destruct (find (fun x => N.eqb (c_pt x) (c_pt c)) l) as [x|] eqn:Hf.
  - destruct (same_codec_for_add x c); exact H.
  - cbn [fst]. rewrite map_app. cbn [map].
    apply NoDup_snoc; [exact H|].
    intros Hin. apply in_map_iff in Hin. destruct Hin as [y [Hpt Hy]].
    pose proof (find_none _ _ Hf y Hy) as Hn. cbn in Hn. rewrite Hpt, N.eqb_refl in Hn. discriminate.
Qed.

(* ---------- attribute owners ---------- *)

Lemma codec_lines_owner : forall c kv,
  In kv (codec_lines c) ->
  (fst kv = "rtpmap" \/ fst kv = "fmtp" \/ fst kv = "rtcp-fb") /\
  exists rest, snd kv = dec_of_N (c_pt c) ++ " " ++ rest.
Proof.
  intros c kv H. unfold codec_lines in H. apply in_app_or in H. destruct H as [H|H].
  - destruct H as [<-|H].
    + split; [now left|]. eexists. reflexivity.
    + destruct (String.eqb (c_line c) ""); [destruct H|]. destruct H as [<-|[]].
      split; [right; now left|]. eexists. reflexivity.
  - apply in_map_iff in H. destruct H as [f [<- _]].
    split; [right; now right|]. eexists. reflexivity.
Qed.

Lemma attr_owner_listed : forall s kv,
  In kv (sec_attr_lines s) ->
  exists c rest, In c (l_codecs s) /\ In (c_pt c) (sec_formats s) /\
    (fst kv = "rtpmap" \/ fst kv = "fmtp" \/ fst kv = "rtcp-fb") /\
    snd kv = dec_of_N (c_pt c) ++ " " ++ rest.
Proof.
  intros s kv H. unfold sec_attr_lines in H. apply in_flat_map in H.
  destruct H as [c [Hc Hkv]]. destruct (codec_lines_owner c kv Hkv) as [Hk [rest Hr]].
  exists c, rest. repeat split; try assumption.
  unfold sec_formats. now apply in_map.
Qed.

(* ---------- local extension ids (nothing negotiated yet) ---------- *)

From Coq Require Import Permutation.
Open Scope list_scope.

Lemma id_lookup_none_notin : forall id m, id_lookup id m = None -> ~ In id (map fst m).
Proof.
  induction m as [|[i h] t IH]; intros H Hin; [destruct Hin|].
  cbn in H. destruct (Z.eqb i id) eqn:He; [discriminate|].
  destruct Hin as [Hin|Hin]; [cbn in Hin; subst; rewrite Z.eqb_refl in He; discriminate|].
  now apply IH.
Qed.

Lemma id_set_fresh_perm : forall id h m,
  id_lookup id m = None -> Permutation (id_set id h m) ((id, h) :: m).
Proof.
  induction m as [|[i h'] t IH]; intros H; [apply Permutation_refl|].
  cbn in H. destruct (Z.eqb i id) eqn:He; [discriminate|].
  cbn [id_set]. rewrite He. destruct (Z.ltb id i).
  - apply Permutation_refl.
  - eapply Permutation_trans; [apply perm_skip, IH, H|]. apply perm_swap.
Qed.

Lemma first_free_spec : forall ids media neg id,
  first_free ids media neg = Some id ->
  In id ids /\ id_lookup id media = None /\ id_lookup id neg = None.
Proof.
  induction ids as [|i t IH]; intros media neg id H; [discriminate|].
  cbn in H. destruct (id_lookup i media) eqn:H1.
  - destruct (IH _ _ _ H) as [Hin Hl]. split; [now right|exact Hl].
  - destruct (id_lookup i neg) eqn:H2.
    + destruct (IH _ _ _ H) as [Hin Hl]. split; [now right|exact Hl].
    + inversion H; subst. split; [now left|auto].
Qed.

Definition assign_step (neg : idmap) (media : idmap) (ext : hext) : idmap :=
  match neg_id_of_uri (h_uri ext) neg with
  | Some id => id_set id ext media
  | None => match first_free one_byte_ids media neg with
            | Some id => id_set id ext media
            | None => media
            end
  end.

Lemma assign_ids_fold : forall x, assign_ids x = fold_left (assign_step (neg_of x)) (x_ext x) [].
Proof. reflexivity. Qed.

Definition media_ok (media : idmap) (seen : list hext) : Prop :=
  NoDup (map fst media) /\
  (forall i h, In (i, h) media -> (1 <= i <= 14)%Z /\ In h seen).

Lemma one_byte_range : forall i, In i one_byte_ids -> (1 <= i <= 14)%Z.
Proof. intros i H. unfold one_byte_ids in H. repeat (destruct H as [<-|H]; [lia|]). destruct H. Qed.

Lemma assign_fold_ok : forall exts media seen,
  media_ok media seen ->
  media_ok (fold_left (assign_step []) exts media) (seen ++ exts).
Proof.
  induction exts as [|e t IH]; intros media seen H.
  - cbn. now rewrite app_nil_r.
  - cbn [fold_left]. replace (seen ++ e :: t) with ((seen ++ [e]) ++ t) by (rewrite <- app_assoc; reflexivity).
    apply IH. unfold assign_step. cbn [neg_id_of_uri find].
    destruct H as [Hnd Hin].
    destruct (first_free one_byte_ids media []) as [id|] eqn:Hf.
    + destruct (first_free_spec _ _ _ _ Hf) as [Hid [Hnone _]].
      pose proof (id_set_fresh_perm id e media Hnone) as Hperm. split.
      * eapply Permutation_NoDup; [apply Permutation_sym, Permutation_map, Hperm|].
        cbn [map fst]. constructor; [now apply id_lookup_none_notin|assumption].
      * intros i h Hih. apply (Permutation_in _ Hperm) in Hih. destruct Hih as [Hih|Hih].
        -- inversion Hih; subst. split; [now apply one_byte_range|]. apply in_or_app. right. now left.
        -- destruct (Hin i h Hih) as [Hr Hs]. split; [assumption|]. apply in_or_app. now left.
    + split; [assumption|]. intros i h Hih. destruct (Hin i h Hih) as [Hr Hs].
      split; [assumption|]. apply in_or_app. now left.
Qed.

(* distinct URIs: every extension is entered at most once *)
Lemma assign_fold_uris : forall exts media seen,
  NoDup (map h_uri (seen ++ exts)) ->
  media_ok media seen ->
  NoDup (map (fun ih => h_uri (snd ih)) media) ->
  NoDup (map (fun ih => h_uri (snd ih)) (fold_left (assign_step []) exts media)).
Proof.
  induction exts as [|e t IH]; intros media seen Hu Hok Hm; [exact Hm|].
  cbn [fold_left].
  assert (Hu' : NoDup (map h_uri ((seen ++ [e]) ++ t))) by (rewrite <- app_assoc; exact Hu).
  assert (Hok' : media_ok (assign_step [] media e) (seen ++ [e])).
  { pose proof (assign_fold_ok [e] media seen Hok) as H. exact H. }
  apply (IH _ (seen ++ [e]) Hu' Hok').
  unfold assign_step. cbn [neg_id_of_uri find].
  destruct (first_free one_byte_ids media []) as [id|] eqn:Hf; [|exact Hm].
  destruct (first_free_spec _ _ _ _ Hf) as [_ [Hnone _]].
  pose proof (id_set_fresh_perm id e media Hnone) as Hperm.
  eapply Permutation_NoDup; [apply Permutation_sym, Permutation_map, Hperm|].
  cbn [map snd]. constructor; [|exact Hm].
  (* e's URI is not among the seen ones *)
  intros Hin. apply in_map_iff in Hin. destruct Hin as [[i h] [Hhu Hih]]. cbn [snd] in Hhu.
  destruct Hok as [_ Hseen]. destruct (Hseen i h Hih) as [_ Hs].
  rewrite map_app in Hu. cbn [map] in Hu.
  apply NoDup_remove_2 in Hu. apply Hu. apply in_or_app. left.
  rewrite <- Hhu. now apply in_map.
Qed.

(* selection keeps a sub-collection *)
Lemma select_exts_in : forall m k dirs iu,
  In iu (select_exts m k dirs) -> exists h, In (fst iu, h) m /\ snd iu = h_uri h.
Proof.
  intros m k dirs iu H. unfold select_exts in H. apply in_flat_map in H.
  destruct H as [[i h] [Hm Hx]]. cbn [fst snd] in Hx.
  destruct (dirs_intersect (h_dirs h) dirs && kind_flag h k); [|destruct Hx].
  destruct Hx as [<-|[]]. exists h. cbn. auto.
Qed.

Lemma select_exts_nodup : forall m k dirs,
  (NoDup (map fst m) -> NoDup (map fst (select_exts m k dirs))) /\
  (NoDup (map (fun ih => h_uri (snd ih)) m) -> NoDup (map snd (select_exts m k dirs))).
Proof.
  induction m as [|[i h] t IH]; intros k dirs; [split; intros; constructor|].
  destruct (IH k dirs) as [IH1 IH2]. unfold select_exts in *. cbn [flat_map fst snd].
  split; intros H; cbn [map fst snd] in H; inversion H as [|x xs Hni Hnd]; subst;
    (destruct (dirs_intersect (h_dirs h) dirs && kind_flag h k); cbn [app map fst snd];
     [constructor; [|auto]|auto]).
  - intros Hin. apply Hni. apply in_map_iff in Hin. destruct Hin as [iu [Hf Hin]].
    destruct (select_exts_in t k dirs iu Hin) as [h' [Hm _]].
    apply in_map_iff. exists (fst iu, h'). split; [exact Hf|exact Hm].
  - intros Hin. apply Hni. apply in_map_iff in Hin. destruct Hin as [iu [Hf Hin]].
    destruct (select_exts_in t k dirs iu Hin) as [h' [Hm Hu]].
    apply in_map_iff. exists (fst iu, h'). split; [cbn; now rewrite <- Hu|exact Hm].
Qed.

Lemma local_ext_ids : forall x k dirs,
  neg_of x = [] ->
  let l := ext_params x false k dirs in
  NoDup (map fst l) /\
  (forall iu, In iu l -> (1 <= fst iu <= 14)%Z) /\
  (NoDup (map h_uri (x_ext x)) -> NoDup (map snd l)).
Proof.
  intros x k dirs Hneg l. unfold l, ext_params.
  assert (Hok0 : media_ok [] []) by (split; [constructor|intros i h []]).
  pose proof (assign_fold_ok (x_ext x) [] [] Hok0) as Hok. cbn [app] in Hok.
  rewrite assign_ids_fold, Hneg. destruct Hok as [Hnd Hin].
  destruct (select_exts_nodup (fold_left (assign_step []) (x_ext x) []) k dirs) as [S1 S2].
  split; [now apply S1|]. split.
  - intros iu Hiu. destruct (select_exts_in _ _ _ _ Hiu) as [h [Hm _]]. exact (proj1 (Hin _ _ Hm)).
  - intros Hu. apply S2. apply (assign_fold_uris (x_ext x) [] []); [exact Hu|exact Hok0|constructor].
Qed.

(* ---------- the full statement fails: witnesses (replayed in the harness corpus) ---------- *)

Definition w_vp8 := mkCodec "video/VP8" 90000 0 "" [] 96.
Definition w_vp9 := mkCodec "video/VP9" 90000 0 "profile-id=0" [] 98.
Definition w_mid := "urn:ietf:params:rtp-hdrext:sdes:mid".

(* answer to a remote offer: engine tables, header-extension registrations
   (uri, kind), remote sections each with the local transceiver it is given *)
Definition answer_of (video audio : list codec) (xregs : list (string * kind))
           (remote : list (rsec_x * option trans)) : result (list lsection) :=
  let e0 := new_engine video audio true in
  let x0 := fold_left (fun x r => register_ext x (fst r) (snd r) []) xregs x_empty in
  match update_remote_x e0 x0 (map fst remote) with
  | (e1, x1, Ok _) => answer_sections e1 x1 remote
  | (_, _, Err e) => Err e
  | (_, _, Panic) => Panic
  end.

(* remote extmap id 20 is echoed *)
Definition w_ext20 := answer_of [w_vp8] [] [(w_mid, KVideo)]
                        [(mkRsec KVideo [w_vp8] [(20%Z, w_mid)], None)].
Lemma w_ext20_fails : exists l, w_ext20 = Ok l /\ forallb section_ok l = false /\
  existsb (fun s => existsb (fun iu => Z.ltb 14 (fst iu)) (l_exts s)) l = true.
Proof. eexists. vm_compute. repeat split. Qed.

(* the same URI at ids 20 and 3 after a remote remap *)
Definition w_remap := answer_of [w_vp8] [] [(w_mid, KVideo)]
                        [(mkRsec KVideo [w_vp8] [(20%Z, w_mid)], None);
                         (mkRsec KVideo [w_vp8] [(3%Z, w_mid)], None)].
Lemma w_remap_fails : exists l, w_remap = Ok l /\ forallb section_ok l = false /\
  existsb (fun s => negb (nodup_str (map snd (l_exts s)))) l = true.
Proof. eexists. vm_compute. repeat split. Qed.

(* two preferences under one payload type *)
Definition w_dup_pt := answer_of [w_vp8; w_vp9] [] []
                        [(mkRsec KVideo [w_vp8; w_vp9] [],
                          Some (mkTrans KVideo [w_vp8; set_pt w_vp9 96] false true))].
Lemma w_dup_pt_fails : exists l, w_dup_pt = Ok l /\ forallb section_ok l = false /\
  existsb (fun s => negb (nodup_N (sec_formats s))) l = true.
Proof. eexists. vm_compute. repeat split. Qed.

(* an RTX whose apt names an RTX without primary, in a first offer: both are
   dropped now (this used to keep the second one) *)
Definition w_chain :=
  sections_of (new_engine (w_vp8 :: chain_witness) [] true) x_empty
              [(mkTrans KVideo [] false true, None)].
Lemma w_chain_ok : exists l, w_chain = Ok l /\ forallb section_ok l = true /\
  map sec_formats l = [[96%N]].
Proof. eexists. vm_compute. repeat split. Qed.

(* and sections that satisfy everything exist, so section_ok is not vacuous *)
Lemma w_good : exists l,
  answer_of [w_vp8; mkCodec "video/rtx" 90000 0 "apt=96" [] 97] [] [(w_mid, KVideo)]
            [(mkRsec KVideo [set_pt w_vp8 100; mkCodec "video/rtx" 90000 0 "apt=100" [] 101] [(3%Z, w_mid)], None)]
  = Ok l /\ forallb section_ok l = true /\ map sec_formats l = [[100%N; 101%N]].
Proof. eexists. vm_compute. repeat split. Qed.

(* ---------- RegisterHeaderExtension keeps one entry per URI ---------- *)

Lemma last_index_none : forall uri l i found,
  last_index_of uri l i found = None ->
  found = None /\ forall h, In h l -> h_uri h <> uri.
Proof.
  induction l as [|h t IH]; intros i found H; cbn in H.
  - split; [assumption|intros h []].
  - apply IH in H. destruct H as [Hf Hall].
    destruct (String.eqb uri (h_uri h)) eqn:He; [discriminate|].
    split; [assumption|]. intros h' [<-|Hin]; [|now apply Hall].
    intros Heq. rewrite Heq, String.eqb_refl in He. discriminate.
Qed.

Lemma last_index_some : forall uri l i found j,
  last_index_of uri l i found = Some j ->
  found = Some j \/ (i <= j /\ exists h, nth_error l (j - i) = Some h /\ h_uri h = uri)%nat.
Proof.
  induction l as [|h t IH]; intros i found j H; cbn in H; [now left|].
  apply IH in H. destruct H as [H|[Hle [h' [Hn Hu]]]].
  - destruct (String.eqb uri (h_uri h)) eqn:He; [|now left].
    inversion H; subst j. right. split; [lia|]. exists h. rewrite Nat.sub_diag. cbn.
    split; [reflexivity|]. apply String.eqb_eq in He. now symmetry.
  - right. split; [lia|]. exists h'. split; [|assumption].
    replace (j - i)%nat with (S (j - S i)) by lia. exact Hn.
Qed.

Lemma update_nth_uris : forall (f : hext -> hext) l n h,
  nth_error l n = Some h -> h_uri (f h) = h_uri h ->
  map h_uri (update_nth n f l) = map h_uri l.
Proof.
  induction l as [|a t IH]; intros n h Hn Hf; [destruct n; discriminate|].
  destruct n; cbn in *.
  - inversion Hn; subst. now rewrite Hf.
  - f_equal. now apply (IH n h).
Qed.

Lemma update_nth_last : forall (f : hext -> hext) l b,
  update_nth (List.length l) f (l ++ [b]) = l ++ [f b].
Proof. induction l as [|a t IH]; intros b; cbn; [reflexivity|]. now rewrite IH. Qed.

Lemma register_ext_uris : forall x uri k dirs,
  NoDup (map h_uri (x_ext x)) -> NoDup (map h_uri (x_ext (register_ext x uri k dirs))).
Proof.
  intros x uri k dirs H. unfold register_ext.
  destruct (last_index_of uri (x_ext x) 0 None) as [i|] eqn:Hl; cbn [x_ext].
  - destruct (last_index_some _ _ _ _ _ Hl) as [Hf|[_ [h [Hn Hu]]]]; [discriminate|].
    rewrite Nat.sub_0_r in Hn.
    erewrite update_nth_uris; [exact H|exact Hn|]. cbn. now symmetry.
  - destruct (last_index_none _ _ _ _ Hl) as [_ Hall].
    rewrite update_nth_last, map_app. cbn [map h_uri].
    apply NoDup_snoc; [exact H|].
    intros Hin. apply in_map_iff in Hin. destruct Hin as [h [Hu Hh]]. exact (Hall h Hh Hu).
Qed.

Lemma register_ext_neg : forall x uri k dirs,
  neg_of x = [] -> neg_of (register_ext x uri k dirs) = [].
Proof.
  intros x uri k dirs H. unfold register_ext, neg_of in *.
  destruct (last_index_of uri (x_ext x) 0 None); cbn [x_neg]; destruct (x_neg x); auto.
Qed.

(* any sequence of registrations on a fresh engine *)
Definition registered (regs : list (string * kind * list tdir)) : xstate :=
  fold_left (fun x r => register_ext x (fst (fst r)) (snd (fst r)) (snd r)) regs x_empty.

Lemma registered_ok : forall regs,
  NoDup (map h_uri (x_ext (registered regs))) /\ neg_of (registered regs) = [].
Proof.
  intros regs. unfold registered.
  assert (G : forall x, NoDup (map h_uri (x_ext x)) /\ neg_of x = [] ->
              NoDup (map h_uri (x_ext (fold_left (fun x r => register_ext x (fst (fst r)) (snd (fst r)) (snd r)) regs x))) /\
              neg_of (fold_left (fun x r => register_ext x (fst (fst r)) (snd (fst r)) (snd r)) regs x) = []).
  { induction regs as [|r t IH]; intros x Hx; [exact Hx|].
    cbn [fold_left]. apply IH. destruct Hx as [H1 H2].
    split; [now apply register_ext_uris|now apply register_ext_neg]. }
  apply G. split; [constructor|reflexivity].
Qed.

Lemma local_ext_ids_registered : forall regs k dirs,
  let l := ext_params (registered regs) false k dirs in
  NoDup (map fst l) /\ (forall iu, In iu l -> (1 <= fst iu <= 14)%Z) /\ NoDup (map snd l).
Proof.
  intros regs k dirs l. destruct (registered_ok regs) as [Hu Hn].
  destruct (local_ext_ids (registered regs) k dirs Hn) as [H1 [H2 H3]].
  split; [exact H1|]. split; [exact H2|]. now apply H3.
Qed.

Lemma filter_rtx_sound : forall l x,
  (In x (filter_unattached_rtx l) -> In x l) /\
  (In x l -> is_rtx x = false -> In x (filter_unattached_rtx l)).
Proof. intros l x. split; [apply filter_rtx_incl | apply filter_rtx_keeps_plain]. Qed.
