(* C28: facts about the binary64 rounding [rnd64] of Model/SampleTrack.v, on Q
   and without axioms: relative error at most 2^-53 for every rational, and
   exactness on integers below 2^53. *)
From Coq Require Import ZArith QArith Qround Qabs Bool Lia Lra Psatz ZifyBool.
From Verif Require Import Model.SampleTrack.

Open Scope Z_scope.

(* the two local functions of [rnd_pos], restated so that they can be named *)
Definition rp_quo (n d : positive) (e : Z) : Z * Z * Z :=
  let a := if (e <? 0)%Z then (Zpos n * 2 ^ (- e))%Z else Zpos n in
  let b := if (e <? 0)%Z then Zpos d else (Zpos d * 2 ^ e)%Z in
  (a / b, a mod b, b)%Z.

Definition rp_pick (n d : positive) (e : Z) : option Q :=
  match rp_quo n d e with
  | (m, r, b) =>
      if andb (2 ^ 52 <=? m)%Z (m <? 2 ^ 53)%Z then
        let m' := if (b <? 2 * r)%Z then (m + 1)%Z
                  else if (2 * r =? b)%Z then (if Z.odd m then m + 1 else m)%Z
                  else m in
        Some (Qred (inject_Z m' * two_p e)%Q)
      else None
  end.

Definition rp_e0 (n d : positive) : Z := Z.log2 (Zpos n) - Z.log2 (Zpos d) - 52.

Lemma rnd_pos_eq : forall n d,
  rnd_pos n d =
  match rp_pick n d (rp_e0 n d) with
  | Some q => q
  | None => match rp_pick n d (rp_e0 n d + 1) with
            | Some q => q
            | None => match rp_pick n d (rp_e0 n d - 1) with Some q => q | None => 0%Q end
            end
  end.
Proof. reflexivity. Qed.

Definition ulp53 : Q := 1 # 9007199254740992.   (* 2^-53 *)

Lemma two_p_pos : forall e, (0 < two_p e)%Q.
Proof.
  intros e. unfold two_p. destruct (0 <=? e) eqn:E.
  - change 0%Q with (inject_Z 0). rewrite <- Zlt_Qlt. apply Z.pow_pos_nonneg; lia.
  - apply Qinv_lt_0_compat. change 0%Q with (inject_Z 0). rewrite <- Zlt_Qlt. apply Z.pow_pos_nonneg; lia.
Qed.

(* a/b * 2^e is n/d *)
Lemma rp_quo_value : forall n d e,
  let a := if (e <? 0)%Z then (Zpos n * 2 ^ (- e))%Z else Zpos n in
  let b := if (e <? 0)%Z then Zpos d else (Zpos d * 2 ^ e)%Z in
  0 < a /\ 0 < b /\ (inject_Z a * two_p e == (Zpos n # d) * inject_Z b)%Q.
Proof.
  intros n d e. cbv zeta. unfold two_p.
  assert (Hnd : (Zpos n # d == inject_Z (Zpos n) / inject_Z (Zpos d))%Q) by apply Qmake_Qdiv.
  assert (Hd : ~ (inject_Z (Zpos d) == 0)%Q).
  { change 0%Q with (inject_Z 0). rewrite inject_Z_injective. discriminate. }
  destruct (e <? 0) eqn:E.
  - assert (Hp : 0 < 2 ^ (- e)) by (apply Z.pow_pos_nonneg; lia).
    replace (0 <=? e) with false by lia.
    split; [lia|split; [lia|]]. rewrite Hnd, inject_Z_mult.
    assert (~ (inject_Z (2 ^ (- e)) == 0)%Q).
    { change 0%Q with (inject_Z 0). rewrite inject_Z_injective. lia. }
    field. split; assumption.
  - assert (Hp : 0 < 2 ^ e) by (apply Z.pow_pos_nonneg; lia).
    replace (0 <=? e) with true by lia.
    split; [lia|split; [lia|]]. rewrite Hnd, inject_Z_mult. field. assumption.
Qed.

(* any successful pick is within relative distance 2^-53 of n/d *)
Lemma rp_pick_rel : forall n d e q,
  rp_pick n d e = Some q ->
  ((1 - ulp53) * (Zpos n # d) <= q /\ q <= (1 + ulp53) * (Zpos n # d))%Q.
Proof.
  intros n d e q. unfold rp_pick, rp_quo.
  destruct (rp_quo_value n d e) as (Ha & Hb & Hv). cbv zeta in Ha, Hb, Hv.
  set (a := if e <? 0 then Z.pos n * 2 ^ (- e) else Z.pos n) in *.
  set (b := if e <? 0 then Z.pos d else Z.pos d * 2 ^ e) in *.
  destruct ((2 ^ 52 <=? a / b) && (a / b <? 2 ^ 53)) eqn:Erange; [|discriminate].
  match goal with |- Some ?t = _ -> _ => set (res := t) end.
  intros Hq. injection Hq as <-. subst res. rewrite Qred_correct.
  set (m := a / b) in *. set (r := a mod b) in *.
  set (m' := if b <? 2 * r then m + 1 else if 2 * r =? b then if Z.odd m then m + 1 else m else m).
  assert (Hab : a = b * m + r /\ 0 <= r < b).
  { subst m r. split; [apply Z.div_mod; lia|apply Z.mod_pos_bound; lia]. }
  assert (Hm : 2 ^ 52 <= m) by lia.
  (* integer core: |m' b - a| <= a / 2^53 *)
  assert (Hcore : - a <= 9007199254740992 * (m' * b - a) <= a).
  { change (2 ^ 52) with 4503599627370496 in Hm.
    assert (Hmb : 4503599627370496 * b <= m * b) by nia.
    subst m'. destruct (b <? 2 * r) eqn:E1; [nia|].
    destruct (2 * r =? b) eqn:E2; [destruct (Z.odd m)|]; nia. }
  clearbody m'. clear Erange.
  (* lift to Q *)
  set (P := two_p e) in *. assert (HP : (0 < P)%Q) by apply two_p_pos.
  set (X := (Zpos n # d)%Q) in *.
  assert (HB : (0 < inject_Z b)%Q) by (change 0%Q with (inject_Z 0); rewrite <- Zlt_Qlt; exact Hb).
  set (B := inject_Z b) in *. set (A := inject_Z a) in *. set (M := inject_Z m').
  assert (HcoreQ : (- A <= 9007199254740992 * (M * B - A) /\ 9007199254740992 * (M * B - A) <= A)%Q).
  { subst A B M. destruct Hcore as [H1 H2]. split.
    - rewrite <- inject_Z_mult, <- inject_Z_opp.
      change 9007199254740992%Q with (inject_Z 9007199254740992).
      unfold Qminus. rewrite <- inject_Z_opp, <- inject_Z_plus, <- inject_Z_mult, <- Zle_Qle. lia.
    - rewrite <- inject_Z_mult.
      change 9007199254740992%Q with (inject_Z 9007199254740992).
      unfold Qminus. rewrite <- inject_Z_opp, <- inject_Z_plus, <- inject_Z_mult, <- Zle_Qle. lia. }
  (* X = A*P/B, so  M*P - X = (M*B - A) * (P/B) *)
  set (K := (P / B)%Q).
  assert (HK : (0 < K)%Q) by (subst K; apply Qlt_shift_div_l; [exact HB|lra]).
  assert (HBnz : ~ (B == 0)%Q) by lra.
  assert (EX : (X == A * K)%Q).
  { subst K. setoid_replace (A * (P / B))%Q with (A * P / B)%Q by (field; exact HBnz).
    rewrite Hv. field. exact HBnz. }
  assert (EM : (M * P == (M * B) * K)%Q) by (subst K; field; exact HBnz).
  rewrite EM, EX. unfold ulp53. destruct HcoreQ as [H1 H2].
  split; nra.
Qed.

(* one of the exponents e0, e0-1 puts the mantissa into [2^52, 2^53) *)
Lemma rp_pick_total : forall n d,
  rp_pick n d (rp_e0 n d) <> None \/ rp_pick n d (rp_e0 n d - 1) <> None.
Proof.
  intros n d. unfold rp_e0.
  destruct (Z.log2_spec (Zpos n)) as [Hn1 Hn2]; [lia|].
  destruct (Z.log2_spec (Zpos d)) as [Hd1 Hd2]; [lia|].
  pose proof (Z.log2_nonneg (Zpos n)) as Hln. pose proof (Z.log2_nonneg (Zpos d)) as Hld.
  set (ln := Z.log2 (Zpos n)) in *. set (ld := Z.log2 (Zpos d)) in *.
  set (N := Zpos n) in *. set (D := Zpos d) in *.
  rewrite Z.pow_succ_r in Hn2, Hd2 by lia.
  set (Pn := 2 ^ ln) in *. set (Pd := 2 ^ ld) in *.
  assert (range : forall a b, 0 < b -> 4503599627370496 * b <= a < 9007199254740992 * b ->
            (2 ^ 52 <=? a / b) && (a / b <? 2 ^ 53) = true).
  { intros a b Hb Hab. change (2 ^ 52) with 4503599627370496. change (2 ^ 53) with 9007199254740992.
    assert (4503599627370496 <= a / b) by (apply Z.div_le_lower_bound; lia).
    assert (a / b < 9007199254740992) by (apply Z.div_lt_upper_bound; lia). lia. }
  assert (some : forall e a b, 0 < b ->
            a = (if e <? 0 then N * 2 ^ (- e) else N) -> b = (if e <? 0 then D else D * 2 ^ e) ->
            4503599627370496 * b <= a < 9007199254740992 * b -> rp_pick n d e <> None).
  { intros e a b Hb Ea Eb Hab. unfold rp_pick, rp_quo. fold N D. rewrite <- Ea, <- Eb.
    rewrite (range a b Hb Hab). discriminate. }
  set (e0 := ln - ld - 52).
  destruct (Z.ltb_spec e0 0) as [Hneg|Hpos].
  - (* e0 < 0: scale the numerator by W = 2^(-e0); Pn * W = 2^52 * Pd *)
    set (W := 2 ^ (- e0)).
    assert (HW : 0 < W) by (apply Z.pow_pos_nonneg; lia).
    assert (HPW : Pn * W = 4503599627370496 * Pd).
    { subst Pn W Pd. rewrite <- Z.pow_add_r by lia. change 4503599627370496 with (2 ^ 52).
      rewrite <- Z.pow_add_r by lia. f_equal. lia. }
    assert (HNW1 : 4503599627370496 * Pd <= N * W) by nia.
    assert (HNW2 : N * W < 2 * 4503599627370496 * Pd) by nia.
    destruct (Z.le_gt_cases (4503599627370496 * D) (N * W)) as [Hge|Hlt].
    + left. apply (some e0 (N * W) D); [lia| | |lia].
      * replace (e0 <? 0) with true by lia. reflexivity.
      * replace (e0 <? 0) with true by lia. reflexivity.
    + right. apply (some (e0 - 1) (N * (2 * W)) D); [lia| | |lia].
      * replace (e0 - 1 <? 0) with true by lia. f_equal. subst W.
        replace (- (e0 - 1)) with (Z.succ (- e0)) by lia. rewrite Z.pow_succ_r by lia. reflexivity.
      * replace (e0 - 1 <? 0) with true by lia. reflexivity.
  - (* e0 >= 0: scale the denominator; Pn = 2^52 * Pd * 2^e0 *)
    set (W := 2 ^ e0).
    assert (HW : 0 < W) by (apply Z.pow_pos_nonneg; lia).
    assert (HPW : Pn = 4503599627370496 * Pd * W).
    { subst Pn W Pd. change 4503599627370496 with (2 ^ 52).
      rewrite <- !Z.pow_add_r by lia. f_equal. lia. }
    assert (HDW1 : Pd * W <= D * W) by nia.
    assert (HDW2 : D * W < 2 * Pd * W) by nia.
    destruct (Z.le_gt_cases (4503599627370496 * (D * W)) N) as [Hge|Hlt].
    + left. apply (some e0 N (D * W)); [lia| | |lia].
      * replace (e0 <? 0) with false by lia. reflexivity.
      * replace (e0 <? 0) with false by lia. reflexivity.
    + right. destruct (Z.eq_dec e0 0) as [E0|E0].
      * (* e0 = 0: e0 - 1 = -1 doubles the numerator *)
        assert (HW1 : W = 1) by (subst W; rewrite E0; reflexivity).
        apply (some (e0 - 1) (N * 2) D); [lia| | |lia].
        -- replace (e0 - 1 <? 0) with true by lia. rewrite E0. reflexivity.
        -- replace (e0 - 1 <? 0) with true by lia. reflexivity.
      * (* e0 >= 1: halve the denominator's scale *)
        set (W' := 2 ^ (e0 - 1)).
        assert (HW' : W = 2 * W').
        { subst W W'. replace e0 with (Z.succ (e0 - 1)) at 1 by lia. rewrite Z.pow_succ_r by lia. reflexivity. }
        assert (0 < W') by lia.
        apply (some (e0 - 1) N (D * W')); [nia| | |nia].
        -- replace (e0 - 1 <? 0) with false by lia. reflexivity.
        -- replace (e0 - 1 <? 0) with false by lia. reflexivity.
Qed.

Lemma rnd_pos_rel : forall n d,
  ((1 - ulp53) * (Zpos n # d) <= rnd_pos n d /\ rnd_pos n d <= (1 + ulp53) * (Zpos n # d))%Q.
Proof.
  intros n d. rewrite rnd_pos_eq.
  destruct (rp_pick n d (rp_e0 n d)) as [q|] eqn:E0; [exact (rp_pick_rel _ _ _ _ E0)|].
  destruct (rp_pick n d (rp_e0 n d + 1)) as [q|] eqn:E1; [exact (rp_pick_rel _ _ _ _ E1)|].
  destruct (rp_pick n d (rp_e0 n d - 1)) as [q|] eqn:E2; [exact (rp_pick_rel _ _ _ _ E2)|].
  exfalso. destruct (rp_pick_total n d) as [H|H]; [apply H; exact E0|apply H; exact E2].
Qed.

(* ---------------------------------------------------------------- rnd64 *)
Open Scope Q_scope.

(* relative error 2^-53, non-negative argument *)
Lemma rnd64_rel_nonneg : forall q, 0 <= q ->
  (1 - ulp53) * q <= rnd64 q /\ rnd64 q <= (1 + ulp53) * q.
Proof.
  intros [qn qd] Hq. unfold rnd64. cbn [Qnum Qden]. destruct qn as [|p|p].
  - setoid_replace (0 # qd) with 0 by reflexivity. lra.
  - apply rnd_pos_rel.
  - exfalso. unfold Qle in Hq. cbn in Hq. lia.
Qed.

(* relative error 2^-53, any sign *)
Lemma rnd64_rel : forall q, Qabs (rnd64 q - q) <= ulp53 * Qabs q.
Proof.
  intros [qn qd]. unfold rnd64. cbn [Qnum Qden]. destruct qn as [|p|p].
  - setoid_replace (0 # qd) with 0 by reflexivity. cbn. lra.
  - pose proof (rnd_pos_rel p qd) as [H1 H2].
    assert (0 < Zpos p # qd) by reflexivity.
    rewrite (Qabs_pos (Zpos p # qd)) by lra. apply Qabs_Qle_condition. unfold ulp53 in *. lra.
  - pose proof (rnd_pos_rel p qd) as [H1 H2].
    assert (Hneg : Zneg p # qd == - (Zpos p # qd)) by reflexivity.
    assert (0 < Zpos p # qd) by reflexivity.
    rewrite Hneg. rewrite Qabs_opp. rewrite (Qabs_pos (Zpos p # qd)) by lra.
    apply Qabs_Qle_condition. unfold ulp53 in *. lra.
Qed.

(* integers below 2^53 are representable: float64(n) is exact *)
Lemma rnd64_int_exact : forall z : Z, (0 <= z < 9007199254740992)%Z -> rnd64 (inject_Z z) == inject_Z z.
Proof.
  intros z Hz. unfold rnd64, inject_Z. cbn [Qnum Qden]. destruct z as [|p|p]; [reflexivity| |lia].
  rewrite rnd_pos_eq. unfold rp_e0. change (Z.log2 1) with 0%Z.
  destruct (Z.log2_spec (Zpos p)) as [Hn1 Hn2]; [lia|].
  pose proof (Z.log2_nonneg (Zpos p)) as Hln.
  set (ln := Z.log2 (Zpos p)) in *. rewrite Z.pow_succ_r in Hn2 by lia.
  assert (Hln53 : (ln < 53)%Z).
  { destruct (Z.lt_ge_cases ln 53) as [|Hge]; [assumption|exfalso].
    assert (2 ^ 53 <= 2 ^ ln)%Z by (apply Z.pow_le_mono_r; lia).
    change (2 ^ 53)%Z with 9007199254740992%Z in *. lia. }
  set (e := (ln - 0 - 52)%Z).
  assert (Hpick : rp_pick p 1 e = Some (Qred (inject_Z (Zpos p * 2 ^ (- e)) * two_p e))).
  { unfold rp_pick, rp_quo.
    assert (Hpw : (Zpos p * 2 ^ (- e) = if e <? 0 then Zpos p * 2 ^ (- e) else Zpos p)%Z).
    { destruct (e <? 0)%Z eqn:E; [reflexivity|]. replace e with 0%Z by lia. cbn. lia. }
    assert (Hb : ((if e <? 0 then 1 else 1 * 2 ^ e) = 1)%Z).
    { destruct (e <? 0)%Z eqn:E; [reflexivity|]. replace e with 0%Z by lia. reflexivity. }
    change (Z.pos 1) with 1%Z. rewrite <- Hpw, Hb. rewrite Z.div_1_r, Z.mod_1_r.
    assert (Hr : (2 ^ ln * 2 ^ (- e) = 4503599627370496)%Z).
    { rewrite <- Z.pow_add_r by lia. replace (ln + - e)%Z with 52%Z by lia. reflexivity. }
    assert (Hw : (0 < 2 ^ (- e))%Z) by (apply Z.pow_pos_nonneg; lia).
    change (2 ^ 52)%Z with 4503599627370496%Z. change (2 ^ 53)%Z with 9007199254740992%Z.
    replace ((4503599627370496 <=? Zpos p * 2 ^ (- e))%Z && (Zpos p * 2 ^ (- e) <? 9007199254740992)%Z) with true by nia.
    cbn [Z.mul Z.ltb Z.compare Z.eqb]. reflexivity. }
  rewrite Hpick. rewrite Qred_correct, inject_Z_mult. unfold two_p.
  assert (Hw : (0 < 2 ^ (- e))%Z) by (apply Z.pow_pos_nonneg; lia).
  destruct (0 <=? e)%Z eqn:E.
  - replace e with 0%Z by lia. cbn. unfold Qeq. cbn. lia.
  - assert (~ inject_Z (2 ^ (- e)) == 0).
    { change 0 with (inject_Z 0). rewrite inject_Z_injective. lia. }
    change (Z.pos p # 1) with (inject_Z (Zpos p)). field. assumption.
Qed.
