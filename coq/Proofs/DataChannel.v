(* C19: lemmas about Model/DataChannel.v *)
From Coq Require Import List ZArith NArith String Bool Lia ZifyBool ZifyNat ZifyN.
Import ListNotations.
From Verif Require Import Common.V Common.Base Model.DataChannel.
Open Scope N_scope.

(* ---------- parameter mapping ---------- *)

Lemma u16_u32_small : forall v, v < 65536 -> u16 (u32 v) = v.
Proof.
  intros v Hv. unfold u16, u32.
  rewrite (N.mod_small v 4294967296) by lia. apply N.mod_small; lia.
Qed.

Lemma params_roundtrip : forall p,
  params_ok p -> both_limits p = false -> accept_params (open_params p) = p.
Proof.
  intros [lab pro ord plt rtx neg] [Hplt Hrtx] Hboth.
  unfold both_limits in Hboth; cbn in *.
  destruct plt as [t|], rtx as [r|]; try discriminate; destruct ord;
    unfold accept_params, open_params, open_type_rel; cbn;
    rewrite ?u16_u32_small by assumption; reflexivity.
Qed.

(* both limits set (reachable through the ORTC constructor only): the code's
   case order makes maxRetransmits win; maxPacketLifeTime is not signalled *)
Lemma params_both_limits : forall p,
  params_ok p -> both_limits p = true ->
  accept_params (open_params p) =
  {| p_label := p_label p; p_protocol := p_protocol p; p_ordered := p_ordered p;
     p_max_plt := None; p_max_rtx := p_max_rtx p; p_negotiated := p_negotiated p |}.
Proof.
  intros [lab pro ord plt rtx neg] [Hplt Hrtx] Hboth.
  unfold both_limits in Hboth; cbn in *.
  destruct plt as [t|], rtx as [r|]; try discriminate; destruct ord;
    unfold accept_params, open_params, open_type_rel; cbn;
    rewrite ?u16_u32_small by assumption; reflexivity.
Qed.

Lemma create_check_spec : forall p,
  (both_limits p = true -> create_check p = Err "retransmits-or-packet-lifetime") /\
  (both_limits p = false -> create_check p = Ok p).
Proof. intros p; unfold create_check; split; intros ->; reflexivity. Qed.

(* with the DCEP carriage contract: what the remote peer's channel reports *)
Lemma remote_sees_params : forall p,
  params_ok p -> both_limits p = false ->
  (p_negotiated p = false ->
     option_map accept_params (dcep_wire (open_params p)) = Some p) /\
  (p_negotiated p = true -> dcep_wire (open_params p) = None).
Proof.
  intros [lab pro ord plt rtx neg] [Hplt Hrtx] Hboth.
  unfold both_limits in Hboth; cbn in *. split; intros ->.
  - destruct plt as [t|], rtx as [r|]; try discriminate; destruct ord;
      unfold dcep_wire, accept_params, open_params, open_type_rel; cbn;
      rewrite ?u16_u32_small by assumption; reflexivity.
  - reflexivity.
Qed.

(* whatever arrives on the wire, the accepted parameters are representable
   and never carry both limits *)
Lemma accept_total : forall c,
  params_ok (accept_params c) /\ both_limits (accept_params c) = false.
Proof.
  intros c. unfold accept_params.
  assert (Hu : u16 (c_rel c) < 65536) by (unfold u16; apply N.mod_lt; lia).
  repeat match goal with |- context [if ?b then _ else _] => destruct b end;
    unfold params_ok, both_limits; cbn; auto.
Qed.

Definition cfg_wf (c : dcep_cfg) : Prop :=
  ((c_type c = ChReliable \/ c_type c = ChReliableUnordered) /\ c_rel c = 0) \/
  ((c_type c = ChRexmit \/ c_type c = ChRexmitUnordered \/
    c_type c = ChTimed \/ c_type c = ChTimedUnordered) /\ c_rel c < 65536).

(* the other composition: on well-formed DCEP configurations open is the
   inverse of accept as well, so the two maps are mutually inverse *)
Lemma open_accept_roundtrip : forall c, cfg_wf c -> open_params (accept_params c) = c.
Proof.
  intros [t r lab pro neg] Hwf. unfold cfg_wf in Hwf; cbn in Hwf.
  unfold ChReliable, ChReliableUnordered, ChRexmit, ChRexmitUnordered, ChTimed, ChTimedUnordered in Hwf.
  assert (Hsmall : forall v, v < 65536 -> u32 (u16 v) = v).
  { intros v Hv. unfold u16, u32. rewrite (N.mod_small v 65536) by lia. apply N.mod_small; lia. }
  destruct Hwf as [[[-> | ->] ->] | [[-> | [-> | [-> | ->]]] Hr]];
    unfold accept_params, open_params, open_type_rel; cbn;
    rewrite ?Hsmall by assumption; reflexivity.
Qed.

(* ---------- empty-message encoding of pion/datachannel ---------- *)

Lemma ppid_roundtrip : forall m, ppid_decode (ppid_encode m) = m.
Proof. intros [[|b d] [|]]; reflexivity. Qed.

Lemma ppid_never_empty_payload : forall m, snd (ppid_encode m) <> [].
Proof. intros [[|b d] [|]]; cbn; discriminate. Qed.

(* ---------- FIFO ---------- *)

Section FifoProofs.
  Variable A : Type.
  Variable plen : A -> N.
  Variable T : Type.
  Variable t_write : T -> msg A -> T.
  Variable t_peek : T -> option (msg A).
  Variable t_pop : T -> T.
  Variable contents : T -> list (msg A).
  Variable short_n max_msg : N.
  Hypothesis contract : fifo_contract t_write t_peek t_pop contents.

  Notation chan := (chan A T).
  Notation step := (step A plen T t_write t_peek t_pop short_n max_msg).
  Notation run := (run A plen T t_write t_peek t_pop short_n max_msg).
  Notation do_read := (do_read A plen T t_peek t_pop short_n max_msg).
  Notation reads := (reads A plen T t_peek t_pop short_n max_msg).
  Notation do_send := (do_send A T t_write).

  Definition inv (c : chan) : Prop :=
    ch_accepted c = ch_delivered c ++ contents (ch_stream c).

  Lemma step_inv : forall c o, inv c -> inv (step c o).
  Proof.
    intros c o Hinv. unfold inv in *. destruct o as [m | s | | ]; cbn [DataChannel.step].
    - unfold DataChannel.do_send. destruct (dc_state_eqb (ch_send_state c) DcOpen); cbn.
      + rewrite (fc_write _ _ _ _ contract), Hinv, app_assoc. reflexivity.
      + exact Hinv.
    - exact Hinv.
    - unfold DataChannel.do_read. destruct (ch_loop_live c); cbn [negb]; [|exact Hinv].
      rewrite (fc_peek _ _ _ _ contract).
      destruct (contents (ch_stream c)) as [|[a s] rest] eqn:Hc; cbn [hd_error]; [rewrite Hc; exact Hinv|].
      destruct (plen a <=? ch_buf c); cbn.
      + rewrite (fc_pop _ _ _ _ contract), Hc, Hinv. cbn. rewrite <- app_assoc. reflexivity.
      + destruct (short_n <? max_msg); cbn; rewrite Hc; exact Hinv.
    - unfold DataChannel.do_read_err. destruct (ch_loop_live c); exact Hinv.
  Qed.

  Lemma run_inv : forall ops c, inv c -> inv (run c ops).
  Proof.
    induction ops as [|o ops IH]; intros c Hc; [exact Hc|].
    cbn. apply IH, step_inv, Hc.
  Qed.

  (* the accepted list and the per-call results are determined by the
     operation list alone: exactly the sends made while readyState = open *)
  Lemma run_accepted : forall ops c,
    ch_accepted (run c ops) = ch_accepted c ++ sent_while_open A (ch_send_state c) ops.
  Proof.
    induction ops as [|o ops IH]; intros c; cbn [DataChannel.run fold_left sent_while_open].
    - rewrite app_nil_r. reflexivity.
    - change (fold_left step ops (step c o)) with (run (step c o) ops). rewrite IH.
      destruct o as [m | s | | ]; cbn [DataChannel.step].
      + unfold DataChannel.do_send. destruct (dc_state_eqb (ch_send_state c) DcOpen) eqn:He; cbn.
        * rewrite ?He, <- app_assoc. reflexivity.
        * rewrite ?He. reflexivity.
      + reflexivity.
      + unfold DataChannel.do_read. destruct (ch_loop_live c); cbn [negb]; [|reflexivity].
        destruct (t_peek (ch_stream c)) as [[a s]|]; [|reflexivity].
        destruct (plen a <=? ch_buf c); [reflexivity|].
        destruct (short_n <? max_msg); reflexivity.
      + unfold DataChannel.do_read_err. destruct (ch_loop_live c); reflexivity.
  Qed.

  Lemma fifo_safety : forall t0 ops,
    contents t0 = [] ->
    let c := run (chan_init A T t0) ops in
    ch_delivered c ++ contents (ch_stream c) = sent_while_open A DcConnecting ops.
  Proof.
    intros t0 ops Ht0 c.
    assert (Hinv : inv c).
    { apply run_inv. unfold inv, chan_init; cbn. rewrite Ht0. reflexivity. }
    unfold inv in Hinv. rewrite <- Hinv. unfold c. rewrite run_accepted. reflexivity.
  Qed.

  (* the read loop stays alive when no transport error arrives and the
     short-buffer retry is always taken *)
  Lemma run_live : forall ops c,
    short_n < max_msg -> no_read_err A ops -> ch_loop_live c = true ->
    ch_loop_live (run c ops) = true.
  Proof.
    induction ops as [|o ops IH]; intros c Hs Hno Hl; [exact Hl|].
    cbn. apply IH; [exact Hs| intros Hin; apply Hno; right; exact Hin |].
    destruct o as [m | s | | ]; cbn [DataChannel.step].
    - unfold DataChannel.do_send. destruct (dc_state_eqb _ _); exact Hl.
    - exact Hl.
    - unfold DataChannel.do_read. rewrite Hl; cbn [negb].
      destruct (t_peek (ch_stream c)) as [[a s]|]; [|exact Hl].
      destruct (plen a <=? ch_buf c); [reflexivity|].
      apply N.ltb_lt in Hs. rewrite Hs. reflexivity.
    - exfalso. apply Hno. left. reflexivity.
  Qed.

  Lemma run_buf_pos : forall ops c, 1 <= ch_buf c -> 1 <= ch_buf (run c ops).
  Proof.
    induction ops as [|o ops IH]; intros c Hb; [exact Hb|].
    cbn. apply IH. destruct o as [m | s | | ]; cbn [DataChannel.step].
    - unfold DataChannel.do_send. destruct (dc_state_eqb _ _); exact Hb.
    - exact Hb.
    - unfold DataChannel.do_read. destruct (ch_loop_live c); cbn [negb]; [|exact Hb].
      destruct (t_peek (ch_stream c)) as [[a s]|]; [|exact Hb].
      destruct (plen a <=? ch_buf c); [exact Hb|].
      destruct (short_n <? max_msg); cbn; lia.
    - unfold DataChannel.do_read_err. destruct (ch_loop_live c); exact Hb.
  Qed.

  Lemma reads_add : forall a b c, reads (a + b) c = reads b (reads a c).
  Proof. induction a as [|a IH]; intros b c; cbn; [reflexivity | apply IH]. Qed.

  Lemma do_read_empty : forall c, contents (ch_stream c) = [] -> do_read c = c.
  Proof.
    intros c Hc. unfold DataChannel.do_read. destruct (ch_loop_live c); cbn [negb]; [|reflexivity].
    rewrite (fc_peek _ _ _ _ contract), Hc. reflexivity.
  Qed.

  Lemma reads_empty : forall k c, contents (ch_stream c) = [] -> reads k c = c.
  Proof.
    induction k as [|k IH]; intros c Hc; cbn; [reflexivity|].
    rewrite do_read_empty by exact Hc. apply IH, Hc.
  Qed.

  (* the head message is delivered within k doublings when it fits k
     doublings of the buffer *)
  Lemma deliver_head : forall k c a s rest,
    short_n < max_msg -> ch_loop_live c = true ->
    contents (ch_stream c) = (a, s) :: rest ->
    plen a < ch_buf c * 2 ^ N.of_nat k ->
    exists j, (j <= k)%nat /\
      let c' := reads (S j) c in
      ch_delivered c' = ch_delivered c ++ [(a, s)] /\
      contents (ch_stream c') = rest /\
      ch_loop_live c' = true /\ ch_buf c <= ch_buf c'.
  Proof.
    induction k as [|k IH]; intros c a s rest Hs Hl Hc Hfit.
    - exists O. split; [lia|]. cbn [DataChannel.reads]. unfold DataChannel.do_read.
      rewrite Hl; cbn [negb]. rewrite (fc_peek _ _ _ _ contract), Hc; cbn [hd_error].
      assert (Hle : plen a <=? ch_buf c = true) by (apply N.leb_le; cbn in Hfit; lia).
      rewrite Hle; cbn. rewrite (fc_pop _ _ _ _ contract), Hc. cbn. repeat split; lia.
    - destruct (plen a <=? ch_buf c) eqn:Hle.
      + exists O. split; [lia|]. cbn [DataChannel.reads]. unfold DataChannel.do_read.
        rewrite Hl; cbn [negb]. rewrite (fc_peek _ _ _ _ contract), Hc; cbn [hd_error].
        rewrite Hle; cbn. rewrite (fc_pop _ _ _ _ contract), Hc. cbn. repeat split; lia.
      + set (c1 := do_read c).
        assert (Hc1 : c1 = {| ch_send_state := ch_send_state c; ch_stream := ch_stream c;
             ch_buf := ch_buf c + ch_buf c; ch_loop_live := true;
             ch_recv_state := ch_recv_state c; ch_delivered := ch_delivered c;
             ch_accepted := ch_accepted c; ch_results := ch_results c |}).
        { unfold c1, DataChannel.do_read. rewrite Hl; cbn [negb].
          rewrite (fc_peek _ _ _ _ contract), Hc; cbn [hd_error]. rewrite Hle.
          apply N.ltb_lt in Hs. rewrite Hs. reflexivity. }
        assert (Hfit1 : plen a < ch_buf c1 * 2 ^ N.of_nat k).
        { rewrite Hc1; cbn [ch_buf].
          replace (N.of_nat (S k)) with (N.succ (N.of_nat k)) in Hfit by lia.
          rewrite N.pow_succ_r' in Hfit. lia. }
        destruct (IH c1 a s rest Hs) as [j [Hj Hres]];
          [rewrite Hc1; reflexivity | rewrite Hc1; exact Hc | exact Hfit1 |].
        exists (S j). split; [lia|].
        change (reads (S (S j)) c) with (reads (S j) c1).
        destruct Hres as [Hd [Hr [Hlv Hb]]].
        assert (Hd1 : ch_delivered c1 = ch_delivered c) by (rewrite Hc1; reflexivity).
        assert (Hb1 : ch_buf c1 = ch_buf c + ch_buf c) by (rewrite Hc1; reflexivity).
        rewrite Hd1 in Hd. rewrite Hb1 in Hb.
        split; [exact Hd|]. split; [exact Hr|]. split; [exact Hlv|]. lia.
  Qed.

  Lemma drain : forall ms c k,
    short_n < max_msg -> ch_loop_live c = true -> 1 <= ch_buf c ->
    contents (ch_stream c) = ms ->
    (drain_fuel A plen ms <= k)%nat ->
    let c' := reads k c in
    ch_delivered c' = ch_delivered c ++ ms /\ contents (ch_stream c') = [].
  Proof.
    induction ms as [|[a s] rest IH]; intros c k Hs Hl Hb Hc Hk.
    - cbn zeta. rewrite reads_empty by exact Hc. rewrite app_nil_r. split; [reflexivity|exact Hc].
    - cbn [drain_fuel fold_right fst] in Hk.
      change (fold_right (fun m acc => (S (N.to_nat (N.size (plen (fst m)))) + acc)%nat) O rest)
        with (drain_fuel A plen rest) in Hk.
      assert (Hfit : plen a < ch_buf c * 2 ^ N.of_nat (N.to_nat (N.size (plen a)))).
      { rewrite N2Nat.id. pose proof (N.size_gt (plen a)) as Hsz.
        assert (2 ^ N.size (plen a) <> 0) by (apply N.pow_nonzero; lia). nia. }
      destruct (deliver_head _ c a s rest Hs Hl Hc Hfit) as [j [Hj [Hd [Hr [Hlv Hbuf]]]]].
      cbn zeta.
      replace k with (S j + (k - S j))%nat by lia. rewrite reads_add.
      destruct (IH (reads (S j) c) (k - S j)%nat Hs Hlv) as [Hd2 He2]; [lia | exact Hr | lia |].
      cbn zeta in Hd2, He2. split; [|exact He2].
      rewrite Hd2, Hd, <- app_assoc. reflexivity.
  Qed.

  (* completeness: once sending has stopped and the read loop has run for
     drain_fuel more iterations (or any larger number), everything sent while
     open has been delivered, in order, once, with its flag *)
  Lemma fifo_complete : forall t0 ops k,
    contents t0 = [] -> short_n < max_msg -> no_read_err A ops ->
    let c := run (chan_init A T t0) ops in
    (drain_fuel A plen (contents (ch_stream c)) <= k)%nat ->
    ch_delivered (reads k c) = sent_while_open A DcConnecting ops /\
    contents (ch_stream (reads k c)) = [].
  Proof.
    intros t0 ops k Ht0 Hs Hno c Hk.
    assert (Hl : ch_loop_live c = true) by (apply run_live; [exact Hs|exact Hno|reflexivity]).
    assert (Hb : 1 <= ch_buf c).
    { apply run_buf_pos. cbn. unfold readloop_initial_buffer. lia. }
    destruct (drain (contents (ch_stream c)) c k Hs Hl Hb eq_refl Hk) as [Hd He].
    cbn zeta in Hd, He. split; [|exact He].
    rewrite Hd. apply fifo_safety, Ht0.
  Qed.

  (* send results: a send returns nil exactly when the sender was open *)
  Lemma results_count : forall ops c,
    List.length (filter (fun b => b) (ch_results (run c ops))) =
    (List.length (filter (fun b => b) (ch_results c)) +
     List.length (sent_while_open A (ch_send_state c) ops))%nat.
  Proof.
    induction ops as [|o ops IH]; intros c; cbn [DataChannel.run fold_left sent_while_open].
    - cbn. lia.
    - change (fold_left step ops (step c o)) with (run (step c o) ops). rewrite IH.
      destruct o as [m | s | | ]; cbn [DataChannel.step].
      + unfold DataChannel.do_send. destruct (dc_state_eqb (ch_send_state c) DcOpen) eqn:He; cbn.
        * rewrite ?He, filter_app, app_length. cbn. lia.
        * rewrite ?He, filter_app, app_length. cbn. lia.
      + reflexivity.
      + unfold DataChannel.do_read. destruct (ch_loop_live c); cbn [negb]; [|reflexivity].
        destruct (t_peek (ch_stream c)) as [[a s]|]; [|reflexivity].
        destruct (plen a <=? ch_buf c); [reflexivity|].
        destruct (short_n <? max_msg); reflexivity.
      + unfold DataChannel.do_read_err. destruct (ch_loop_live c); reflexivity.
  Qed.
End FifoProofs.

(* the list transport of the runner satisfies the contract (so the contract
   is satisfiable) *)
Lemma list_fifo_contract : forall M, @fifo_contract M (list M) lw lpeek lpop (fun t => t).
Proof. intros M. split; reflexivity. Qed.
