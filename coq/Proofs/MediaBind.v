(* C23 proofs for Model/MediaBind.v *)
From Coq Require Import List NArith String Bool Lia.
Import ListNotations.
From Verif Require Import Common.Base Model.Fmtp Model.MediaBind.
From Verif Require Model.Codec Model.MediaPath.
Open Scope N_scope.

Lemma find_split {A} (p : A -> bool) l c :
  find p l = Some c ->
  exists l1 l2, l = (l1 ++ c :: l2)%list /\ p c = true /\ forall x, In x l1 -> p x = false.
Proof.
  induction l as [|a r IH]; [discriminate|]. cbn. destruct (p a) eqn:E.
  - intro H. injection H as <-. exists [], r. repeat split; auto. intros x [].
  - intro H. destruct (IH H) as (l1 & l2 & -> & Hc & Hn). exists (a :: l1), l2.
    repeat split; auto. intros x [<-|Hx]; auto.
Qed.

(* ---------- the class vector is codecParametersFuzzySearch ---------- *)
Lemma first_exact needle hay :
  MediaPath.first_class 2 (class_vector needle hay) =
  option_map Codec.c_pt (find (Codec.exact_ok needle) hay).
Proof.
  induction hay as [|c r IH]; [reflexivity|].
  cbn [class_vector map MediaPath.first_class find]. unfold match_class at 1.
  destruct (Codec.exact_ok needle c); [reflexivity|].
  destruct (Codec.partial_ok needle c); cbn; exact IH.
Qed.

Lemma first_partial needle hay :
  find (Codec.exact_ok needle) hay = None ->
  MediaPath.first_class 1 (class_vector needle hay) =
  option_map Codec.c_pt (find (Codec.partial_ok needle) hay).
Proof.
  induction hay as [|c r IH]; [reflexivity|].
  cbn [class_vector map MediaPath.first_class find]. unfold match_class at 1.
  destruct (Codec.exact_ok needle c); [discriminate|]. intro H.
  destruct (Codec.partial_ok needle c); cbn; [reflexivity|]. exact (IH H).
Qed.

Lemma fuzzy_pt_is_fuzzy_search needle hay :
  MediaPath.fuzzy_pt (class_vector needle hay) =
  match Codec.fuzzy_search needle hay with
  | (_, Codec.MNone) => None
  | (c, _) => Some (Codec.c_pt c)
  end.
Proof.
  unfold MediaPath.fuzzy_pt, Codec.fuzzy_search. rewrite first_exact.
  destruct (find (Codec.exact_ok needle) hay) as [c|] eqn:E; [reflexivity|].
  cbn [option_map]. rewrite (first_partial _ _ E).
  destruct (find (Codec.partial_ok needle) hay); reflexivity.
Qed.

Lemma bind_codec_is_fuzzy_search ctx needle hay :
  bind_codec ctx needle hay =
  match Codec.fuzzy_search needle hay with
  | (_, Codec.MNone) => None
  | (c, _) => Some {| MediaPath.b_ssrc := ctx; MediaPath.b_pt := Codec.c_pt c |}
  end.
Proof.
  unfold bind_codec, MediaPath.bind. rewrite fuzzy_pt_is_fuzzy_search.
  destruct (Codec.fuzzy_search needle hay) as [c []]; reflexivity.
Qed.

(* the bound payload type is that of an entry of the list that matches the
   track's codec: the first exact match, or without any the first partial *)
Lemma bind_codec_entry ctx needle hay b :
  bind_codec ctx needle hay = Some b ->
  MediaPath.b_ssrc b = ctx /\
  exists l1 c l2, hay = (l1 ++ c :: l2)%list /\ Codec.c_pt c = MediaPath.b_pt b /\
    ((Codec.exact_ok needle c = true /\ forall x, In x l1 -> Codec.exact_ok needle x = false) \/
     (Codec.partial_ok needle c = true /\ (forall x, In x hay -> Codec.exact_ok needle x = false) /\
      forall x, In x l1 -> Codec.partial_ok needle x = false)).
Proof.
  rewrite bind_codec_is_fuzzy_search. unfold Codec.fuzzy_search.
  destruct (find (Codec.exact_ok needle) hay) as [c|] eqn:E.
  - intro H. injection H as <-. split; [reflexivity|].
    destruct (find_split _ _ _ E) as (l1 & l2 & Hh & Hc & Hn).
    exists l1, c, l2. repeat split; auto.
  - destruct (find (Codec.partial_ok needle) hay) as [c|] eqn:P; [|discriminate].
    intro H. injection H as <-. split; [reflexivity|].
    destruct (find_split _ _ _ P) as (l1 & l2 & Hh & Hc & Hn).
    exists l1, c, l2. repeat split; auto. right. repeat split; auto.
    intros x Hx. exact (find_none _ _ E x Hx).
Qed.

(* ---------- H264: profile-iop is part of the comparison ---------- *)
Lemma plid_match_iff a b :
  profile_level_id_matches a b = true <->
  exists a0 a1 ar b0 b1 br,
    hex_decode_go a = Some (a0 :: a1 :: ar) /\ hex_decode_go b = Some (b0 :: b1 :: br) /\
    a0 = b0 /\ a1 = b1.
Proof.
  unfold profile_level_id_matches. split.
  - destruct (hex_decode_go a) as [[|a0 [|a1 ar]]|]; try discriminate.
    destruct (hex_decode_go b) as [[|b0 [|b1 br]]|]; try discriminate.
    intro H. apply andb_true_iff in H as [H0 H1]. apply N.eqb_eq in H0, H1.
    exists a0, a1, ar, b0, b1, br. auto.
  - intros (a0 & a1 & ar & b0 & b1 & br & Ha & Hb & -> & ->). rewrite Ha, Hb.
    now rewrite !N.eqb_refl.
Qed.

Lemma plid_iop_differs a b a0 a1 ar b0 b1 br :
  hex_decode_go a = Some (a0 :: a1 :: ar) -> hex_decode_go b = Some (b0 :: b1 :: br) ->
  a1 <> b1 -> profile_level_id_matches a b = false.
Proof.
  intros Ha Hb Hne. destruct (profile_level_id_matches a b) eqn:M; [|reflexivity].
  apply plid_match_iff in M as (x0 & x1 & xr & y0 & y1 & yr & Ha' & Hb' & _ & E).
  rewrite Ha in Ha'. rewrite Hb in Hb'. injection Ha' as _ <- _. injection Hb' as _ <- _.
  contradiction.
Qed.

Lemma h264_match_needs_plid h c x y :
  plookup "profile-level-id" h = Some x -> plookup "profile-level-id" c = Some y ->
  profile_level_id_matches x y = false -> h264_match h c = false.
Proof.
  intros Hx Hy M. unfold h264_match. rewrite Hx, Hy, M.
  destruct (plookup "packetization-mode" h); [|reflexivity].
  destruct (plookup "packetization-mode" c); [|reflexivity].
  destruct (negb _); reflexivity.
Qed.

Lemma exact_ok_h264 needle c :
  is_h264 needle = true -> is_h264 c = true ->
  Codec.exact_ok needle c =
  h264_match (parse_parameters (Codec.c_line needle)) (parse_parameters (Codec.c_line c)).
Proof.
  unfold is_h264, Codec.exact_ok, Codec.codec_fmtp, fmtp_parse, kind_of_mime.
  intros Hn Hc. rewrite Hn, Hc. reflexivity.
Qed.

(* two H264 formats whose profile-level-ids differ in the profile-iop byte
   (second byte) are never an exact match, whatever else their fmtp lines say *)
Lemma h264_iop_not_exact needle c x y x0 x1 xr y0 y1 yr :
  is_h264 needle = true -> is_h264 c = true ->
  plid_of needle = Some x -> plid_of c = Some y ->
  hex_decode_go x = Some (x0 :: x1 :: xr) -> hex_decode_go y = Some (y0 :: y1 :: yr) ->
  x1 <> y1 -> Codec.exact_ok needle c = false /\ match_class needle c <> 2.
Proof.
  intros Hn Hc Px Py Dx Dy Hne.
  assert (E : Codec.exact_ok needle c = false).
  { rewrite (exact_ok_h264 _ _ Hn Hc). eapply h264_match_needs_plid; eauto.
    eapply plid_iop_differs; eauto. }
  split; [exact E|]. unfold match_class. rewrite E.
  destruct (Codec.partial_ok needle c); discriminate.
Qed.

(* the same for profile_idc (first byte) *)
Lemma h264_idc_not_exact needle c x y x0 x1 xr y0 y1 yr :
  is_h264 needle = true -> is_h264 c = true ->
  plid_of needle = Some x -> plid_of c = Some y ->
  hex_decode_go x = Some (x0 :: x1 :: xr) -> hex_decode_go y = Some (y0 :: y1 :: yr) ->
  x0 <> y0 -> Codec.exact_ok needle c = false.
Proof.
  intros Hn Hc Px Py Dx Dy Hne.
  rewrite (exact_ok_h264 _ _ Hn Hc). eapply h264_match_needs_plid; eauto.
  destruct (profile_level_id_matches x y) eqn:M; [|reflexivity].
  apply plid_match_iff in M as (a0 & a1 & ar & b0 & b1 & br & Ha & Hb & E & _).
  rewrite Dx in Ha. rewrite Dy in Hb. injection Ha as <- _ _. injection Hb as <- _ _. contradiction.
Qed.

(* exact H264 match, spelled out: both name a packetization-mode, the same one,
   and profile-level-ids whose first two bytes agree (the level byte is free) *)
Lemma h264_exact_iff needle c :
  is_h264 needle = true -> is_h264 c = true ->
  (Codec.exact_ok needle c = true <->
   exists pm x y, pmode_of needle = Some pm /\ pmode_of c = Some pm /\
     plid_of needle = Some x /\ plid_of c = Some y /\ profile_level_id_matches x y = true).
Proof.
  intros Hn Hc. rewrite (exact_ok_h264 _ _ Hn Hc). unfold h264_match, pmode_of, plid_of. split.
  - destruct (plookup "packetization-mode" (parse_parameters (Codec.c_line needle))) as [pm|]; [|discriminate].
    destruct (plookup "packetization-mode" (parse_parameters (Codec.c_line c))) as [pm'|]; [|discriminate].
    destruct (String.eqb pm pm') eqn:E; cbn [negb]; [|discriminate]. apply String.eqb_eq in E. subst.
    destruct (plookup "profile-level-id" (parse_parameters (Codec.c_line needle))) as [x|]; [|discriminate].
    destruct (plookup "profile-level-id" (parse_parameters (Codec.c_line c))) as [y|]; [|discriminate].
    intro M. exists pm', x, y. auto.
  - intros (pm & x & y & A & B & C & D & M). rewrite A, B, C, D, String.eqb_refl. exact M.
Qed.

Lemma h264_exact_bytes needle c :
  is_h264 needle = true -> is_h264 c = true ->
  (Codec.exact_ok needle c = true <->
   exists pm x y, pmode_of needle = Some pm /\ pmode_of c = Some pm /\
     plid_of needle = Some x /\ plid_of c = Some y /\
     exists x0 x1 xr y0 y1 yr,
       hex_decode_go x = Some (x0 :: x1 :: xr) /\ hex_decode_go y = Some (y0 :: y1 :: yr) /\
       x0 = y0 /\ x1 = y1).
Proof.
  intros Hn Hc. rewrite (h264_exact_iff needle c Hn Hc). split.
  - intros (pm & x & y & A & B & C & D & M). exists pm, x, y. repeat split; auto.
    now apply plid_match_iff.
  - intros (pm & x & y & A & B & C & D & M). exists pm, x, y. repeat split; auto.
    now apply plid_match_iff.
Qed.
