(* C30: the in-repo walkers never reach a panicking index/slice expression.
   Part 1: string helpers, getRids, trackDetailsFromSDP and what is built on
   it.  (Part 2, byte-level walkers: Proofs/WalkersBytes.v.) *)
From Coq Require Import List ZArith NArith String Ascii Bool Lia Arith.
Import ListNotations.
From Verif Require Import Common.V Common.Base Model.Walkers.
Open Scope string_scope.
Open Scope nat_scope.
Open Scope list_scope.

(* ---------- generic ---------- *)

Lemma rbind_no_panic {A B} (r : result A) (f : A -> result B) :
  r <> Panic -> (forall a, r = Ok a -> f a <> Panic) -> rbind r f <> Panic.
Proof.
  intros Hr Hf. destruct r as [a | e |]; cbn.
  - apply Hf; reflexivity.
  - discriminate.
  - contradiction.
Qed.

Lemma nth_error_lt {A} (l : list A) n : n < List.length l -> exists x, nth_error l n = Some x.
Proof.
  intros Hlt. destruct (nth_error l n) as [x |] eqn:E.
  - eauto.
  - apply nth_error_None in E. lia.
Qed.

(* ---------- strings ---------- *)

Lemma split_on_length sep s : 1 <= List.length (split_on sep s).
Proof.
  induction s as [| c r IH]; cbn.
  - lia.
  - destruct (Ascii.eqb c sep); cbn.
    + lia.
    + destruct (split_on sep r); cbn in *; lia.
Qed.

Lemma split_on_head sep s : exists x, nth_error (split_on sep s) 0 = Some x.
Proof. apply nth_error_lt. pose proof (split_on_length sep s). lia. Qed.

Lemma str_drop_le n : forall s, n <= String.length s -> exists t, str_drop n s = Some t.
Proof.
  induction n as [| k IH]; intros s Hle; cbn.
  - eauto.
  - destruct s as [| c r]; cbn in Hle; [lia |]. apply IH. lia.
Qed.

Lemma str_take_le n : forall s, n <= String.length s -> exists t, str_take n s = Some t.
Proof.
  induction n as [| k IH]; intros s Hle; cbn.
  - eauto.
  - destruct s as [| c r]; cbn in Hle; [lia |].
    destruct (IH r) as [t Ht]; [lia |]. rewrite Ht. eauto.
Qed.

Lemma index_of_lt c : forall s i, index_of c s = Some i -> i < String.length s.
Proof.
  induction s as [| a r IH]; intros i H; cbn in H.
  - discriminate.
  - destruct (Ascii.eqb a c).
    + inversion H; subst. cbn. lia.
    + destruct (index_of c r) as [j |] eqn:E; [| discriminate].
      inversion H; subst. cbn. specialize (IH j eq_refl). lia.
Qed.

Lemma prefix_length p : forall s, String.prefix p s = true -> String.length p <= String.length s.
Proof.
  induction p as [| a p IH]; intros s H; cbn.
  - lia.
  - destruct s as [| b s]; cbn in H; [discriminate |].
    destruct (Ascii.ascii_dec a b); [| discriminate]. cbn. specialize (IH s H). lia.
Qed.

(* ---------- getRids ---------- *)

Lemma rids_scan_no_panic : forall l acc sim, rids_scan l acc sim <> Panic.
Proof.
  induction l as [| [k v] t IH]; intros acc sim; cbn [rids_scan].
  - discriminate.
  - destruct (String.eqb k "rid").
    + destruct (split_on_head sp v) as [x Hx]. rewrite Hx. apply IH.
    + destruct (String.eqb k "simulcast"); apply IH.
Qed.

Lemma rid_state_no_panic rids st : rid_state rids st <> Panic.
Proof.
  unfold rid_state. destruct (Nat.ltb 0 (String.length st)) eqn:E; [| discriminate].
  apply Nat.ltb_lt in E.
  destruct (str_take_le 1 st) as [h Hh]; [lia |]. rewrite Hh.
  destruct (String.eqb h "~"); [| discriminate].
  destruct (str_drop_le 1 st) as [d Hd]; [lia |]. rewrite Hd. discriminate.
Qed.

Lemma rid_states_no_panic : forall l rids, rid_states rids l <> Panic.
Proof.
  induction l as [| st t IH]; intros rids; cbn.
  - discriminate.
  - apply rbind_no_panic; [apply rid_state_no_panic | intros; apply IH].
Qed.

Theorem get_rids_no_panic : forall m, get_rids m <> Panic.
Proof.
  intros m. unfold get_rids. apply rbind_no_panic; [apply rids_scan_no_panic |].
  intros [rids sim] _. destruct (is_empty sim); [discriminate |].
  apply rbind_no_panic; [| intros; apply rid_states_no_panic].
  destruct (index_of sp sim) as [space |] eqn:E; [| discriminate].
  destruct (Nat.ltb 0 space); [| discriminate].
  apply index_of_lt in E.
  destruct (str_drop_le (space + 1) sim) as [d Hd]; [lia |]. rewrite Hd. discriminate.
Qed.

(* ---------- trackDetailsFromSDP ---------- *)

(* the invariant of the per-section loop: every track collected from a=ssrc
   lines carries at least one SSRC, which is what makes ssrcs[0] safe *)
Definition has_one (t : td) : Prop := td_ssrcs t <> [].
Definition tracks_ok (ts : list td) : Prop := Forall has_one ts.

Lemma mark_repair_ok set (Hset : forall t r, td_ssrcs (set t r) = td_ssrcs t) :
  forall ts base r, tracks_ok ts ->
    exists ts', mark_repair set ts base r = Ok ts' /\ tracks_ok ts'.
Proof.
  induction ts as [| t rest IH]; intros base r Hok; cbn.
  - exists []. split; [reflexivity | constructor].
  - inversion Hok as [| ? ? Ht Hrest]; subst.
    destruct (td_ssrcs t) as [| s0 more] eqn:Es; [exfalso; apply Ht; exact Es |]. cbn.
    destruct (IH base r Hrest) as [rest' [Hm Hok']]. rewrite Hm. cbn.
    eexists. split; [reflexivity |]. constructor; [| exact Hok'].
    unfold has_one. destruct (N.eqb s0 base); [rewrite Hset |]; rewrite Es; discriminate.
Qed.

Lemma filter_ssrc_ok ts s : tracks_ok ts -> tracks_ok (filter_ssrc ts s).
Proof.
  unfold tracks_ok, filter_ssrc. intros H. apply Forall_forall. intros x Hx.
  apply filter_In in Hx. destruct Hx as [Hin _]. rewrite Forall_forall in H. apply H; exact Hin.
Qed.

Definition st_ok (st : sec_st) : Prop := tracks_ok (s_tracks st).

Lemma step_group_ok st v : st_ok st -> exists st', step_group st v = Ok st' /\ st_ok st'.
Proof.
  intros Hok. unfold step_group.
  destruct (split_on_head sp v) as [s0 Hs0]. rewrite Hs0.
  destruct (orb (String.eqb s0 "FID") (String.eqb s0 "FEC-FR")); [| eauto].
  destruct (Nat.eqb (List.length (split_on sp v)) 3) eqn:El; [| eauto].
  apply Nat.eqb_eq in El.
  destruct (nth_error_lt (split_on sp v) 1) as [a Ha]; [lia |]. rewrite Ha.
  destruct (parse_uint 32 a) as [base |]; [| eauto].
  destruct (nth_error_lt (split_on sp v) 2) as [b Hb]; [lia |]. rewrite Hb.
  destruct (parse_uint 32 b) as [r |]; [| eauto].
  destruct (String.eqb s0 "FID").
  - destruct (mark_repair_ok td_set_rtx (fun _ _ => eq_refl) (filter_ssrc (s_tracks st) r) base r)
      as [ts' [Hm Hok']]; [apply filter_ssrc_ok; exact Hok |].
    rewrite Hm. cbn. eexists. split; [reflexivity | exact Hok'].
  - destruct (mark_repair_ok td_set_fec (fun _ _ => eq_refl) (filter_ssrc (s_tracks st) r) base r)
      as [ts' [Hm Hok']]; [apply filter_ssrc_ok; exact Hok |].
    rewrite Hm. cbn. eexists. split; [reflexivity | exact Hok'].
Qed.

Lemma step_msid_ok st v : st_ok st -> exists st', step_msid st v = Ok st' /\ st_ok st'.
Proof.
  intros Hok. unfold step_msid.
  destruct (Nat.eqb (List.length (split_on sp v)) 2) eqn:El; [| eauto].
  apply Nat.eqb_eq in El.
  destruct (nth_error_lt (split_on sp v) 0) as [a Ha]; [lia |].
  destruct (nth_error_lt (split_on sp v) 1) as [b Hb]; [lia |].
  rewrite Ha, Hb. eexists. split; [reflexivity | exact Hok].
Qed.

Lemma upd_nth_ok : forall (ts : list td) i t, tracks_ok ts -> has_one t -> tracks_ok (upd_nth i t ts).
Proof.
  induction ts as [| h rest IH]; intros i t Hok Ht; cbn.
  - destruct i; constructor.
  - inversion Hok; subst. destruct i; constructor; auto. apply IH; auto.
Qed.

Lemma step_ssrc_ok mid kind st v : st_ok st -> exists st', step_ssrc mid kind st v = Ok st' /\ st_ok st'.
Proof.
  intros Hok. unfold step_ssrc.
  destruct (split_on_head sp v) as [s0 Hs0]. rewrite Hs0.
  destruct (parse_uint 32 s0) as [ssrc |]; [| eauto].
  destruct (flow_has ssrc (s_rtx st)); [eauto |].
  destruct (flow_has ssrc (s_fec st)); [eauto |].
  set (names := if Nat.eqb (List.length (split_on sp v)) 3 then _ else _).
  assert (Hnames : exists p, names = Ok p).
  { subst names. destruct (Nat.eqb (List.length (split_on sp v)) 3) eqn:El; [| eauto].
    apply Nat.eqb_eq in El.
    destruct (nth_error_lt (split_on sp v) 1) as [s1 H1]; [lia |]. rewrite H1.
    destruct (String.prefix "msid:" s1) eqn:Ep; [| eauto].
    apply prefix_length in Ep. cbn in Ep.
    destruct (str_drop_le 5 s1) as [sid Hsid]; [lia |]. rewrite Hsid.
    destruct (nth_error_lt (split_on sp v) 2) as [tid Htid]; [lia |]. rewrite Htid. eauto. }
  destruct Hnames as [[stream tid] Hn]. rewrite Hn. cbn.
  eexists. split; [reflexivity |]. unfold st_ok. cbn.
  destruct (last_with_ssrc (s_tracks st) ssrc 0 None).
  - apply upd_nth_ok; [exact Hok | unfold has_one; cbn; discriminate].
  - unfold tracks_ok. apply Forall_app. split; [exact Hok |].
    constructor; [unfold has_one; cbn; discriminate | constructor].
Qed.

Lemma step_attr_ok mid kind st a : st_ok st -> exists st', step_attr mid kind st a = Ok st' /\ st_ok st'.
Proof.
  intros Hok. destruct a as [k v]. unfold step_attr.
  destruct (String.eqb k "ssrc-group"); [apply step_group_ok; exact Hok |].
  destruct (String.eqb k "msid"); [apply step_msid_ok; exact Hok |].
  destruct (String.eqb k "ssrc"); [apply step_ssrc_ok; exact Hok |].
  eauto.
Qed.

Lemma fold_attrs_ok mid kind : forall l st, st_ok st ->
  exists st', fold_attrs mid kind st l = Ok st' /\ st_ok st'.
Proof.
  induction l as [| a t IH]; intros st Hok; cbn.
  - eauto.
  - destruct (step_attr_ok mid kind st a Hok) as [st1 [H1 Hok1]]. rewrite H1. cbn.
    apply IH; exact Hok1.
Qed.

Lemma media_tracks_no_panic m : media_tracks m <> Panic.
Proof.
  unfold media_tracks.
  destruct (has_key "recvonly" (m_attrs m)); [discriminate |].
  destruct (has_key "inactive" (m_attrs m)); [discriminate |].
  destruct (is_empty (get_mid m)); [discriminate |].
  destruct (N.eqb (codec_type (m_kind m)) 0); [discriminate |].
  destruct (fold_attrs_ok (get_mid m) (codec_type (m_kind m)) (m_attrs m) sec_init) as [st [Hf _]];
    [constructor |].
  rewrite Hf. cbn.
  apply rbind_no_panic; [apply get_rids_no_panic |].
  intros rids _. match goal with |- (if ?c then _ else _) <> _ => destruct c end; discriminate.
Qed.

Lemma tracks_of_media_no_panic : forall l, tracks_of_media l <> Panic.
Proof.
  induction l as [| m t IH]; cbn.
  - discriminate.
  - apply rbind_no_panic; [apply media_tracks_no_panic |]. intros a _.
    apply rbind_no_panic; [exact IH |]. intros; discriminate.
Qed.

Theorem track_details_no_panic : forall d, track_details d <> Panic.
Proof. intros d. apply tracks_of_media_no_panic. Qed.

Theorem description_is_planb_no_panic : forall d, description_is_planb d <> Panic.
Proof.
  intros d. unfold description_is_planb.
  apply rbind_no_panic; [apply track_details_no_panic | intros; discriminate].
Qed.

(* ---------- trackDetailsToRTPReceiveParameters ---------- *)

Lemma encoding_at_no_panic t i : encoding_at t i <> Panic.
Proof.
  unfold encoding_at. apply rbind_no_panic.
  - destruct (Nat.ltb i (List.length (td_rids t))) eqn:E; [| discriminate].
    apply Nat.ltb_lt in E. destruct (nth_error_lt _ _ E) as [x Hx]. rewrite Hx. discriminate.
  - intros r _. apply rbind_no_panic; [| intros; discriminate].
    destruct (Nat.ltb i (List.length (td_ssrcs t))) eqn:E; [| discriminate].
    apply Nat.ltb_lt in E. destruct (nth_error_lt _ _ E) as [x Hx]. rewrite Hx. discriminate.
Qed.

Lemma encodings_from_no_panic t : forall n i, encodings_from t i n <> Panic.
Proof.
  induction n as [| k IH]; intros i; cbn.
  - discriminate.
  - apply rbind_no_panic; [apply encoding_at_no_panic |]. intros e _.
    apply rbind_no_panic; [apply IH | intros; discriminate].
Qed.

Theorem receive_parameters_no_panic : forall t, receive_parameters t <> Panic.
Proof. intros t. apply encodings_from_no_panic. Qed.

(* ---------- extractBundleID / extractFingerprint / extractICEDetails ---------- *)

Theorem extract_bundle_id_no_panic : forall d, extract_bundle_id d <> Panic.
Proof.
  intros d. unfold extract_bundle_id.
  match goal with |- (if ?c then _ else _) <> _ => destruct c end; [discriminate |].
  match goal with |- (if Nat.ltb ?a 2 then _ else _) <> _ => destruct (Nat.ltb a 2) eqn:E end;
    [discriminate |].
  apply Nat.ltb_ge in E.
  match goal with |- context [nth_error ?l 1] => destruct (nth_error_lt l 1) as [x Hx]; [lia |] end.
  rewrite Hx. discriminate.
Qed.

Theorem extract_fingerprint_no_panic : forall d, extract_fingerprint d <> Panic.
Proof.
  intros d. unfold extract_fingerprint. apply rbind_no_panic.
  - match goal with |- (if ?c then _ else _) <> _ => destruct c end; [| discriminate].
    apply rbind_no_panic; [apply extract_bundle_id_no_panic |].
    intros b _. destruct (negb (is_empty b)); discriminate.
  - intros fp _. destruct (is_empty fp); [discriminate |].
    destruct (Nat.eqb (List.length (split_on sp fp)) 2) eqn:E; cbn [negb]; [| discriminate].
    apply Nat.eqb_eq in E.
    destruct (nth_error_lt (split_on sp fp) 1) as [a Ha]; [lia |].
    destruct (nth_error_lt (split_on sp fp) 0) as [b Hb]; [lia |].
    rewrite Ha, Hb. discriminate.
Qed.

Theorem extract_ice_details_no_panic :
  forall (classify : string -> cand_class) d, extract_ice_details classify d <> Panic.
Proof.
  intros classify d. unfold extract_ice_details.
  apply rbind_no_panic; [apply extract_bundle_id_no_panic |]. intros bundle _.
  apply rbind_no_panic.
  - destruct (select_section bundle (d_media d)) as [m |]; [| discriminate].
    destruct (scan_candidates classify (m_attrs m) 0 false) as [n bad].
    repeat match goal with |- (if ?c then _ else _) <> _ => destruct c end; discriminate.
  - intros [[uf pw] n] _.
    repeat match goal with |- (if ?c then _ else _) <> _ => destruct c end; discriminate.
Qed.

(* ---------- startRTPReceivers ---------- *)

Lemma planb_add_no_panic add_ok : forall l, planb_add add_ok l <> Panic.
Proof.
  induction l as [| t r IH]; cbn.
  - discriminate.
  - destruct (add_ok (td_kind t)); [| exact IH].
    apply rbind_no_panic; [apply receive_parameters_no_panic |]. intros _ _.
    apply rbind_no_panic; [exact IH | intros; discriminate].
Qed.

Theorem start_rtp_receivers_no_panic :
  forall (handled : td -> bool) (add_ok : N -> bool) sem d,
    start_rtp_receivers handled add_ok sem d <> Panic.
Proof.
  intros handled add_ok sem d. unfold start_rtp_receivers, start_rtp_receivers_with.
  apply rbind_no_panic; [apply track_details_no_panic |]. intros tracks _.
  destruct (Nat.eqb (List.length tracks) 0); [discriminate |].
  match goal with |- (if ?c then _ else _) <> _ => destruct c end;
    [apply planb_add_no_panic | discriminate].
Qed.

(* the guard of the repaired log line is load-bearing: the loop as it was
   panics on a simulcast (rid-only) section when no transceiver can be added *)
Definition planb_witness : desc :=
  {| d_attrs := [];
     d_media := [ {| m_kind := "video"; m_formats := ["96"];
                     m_attrs := [("mid", "0"); ("msid", "s t"); ("rid", "hi send")] |} ] |}.

Theorem start_rtp_receivers_unfixed_panics :
  start_rtp_receivers_unfixed (fun _ => false) (fun _ => false) PlanB planb_witness = Panic.
Proof. vm_compute. reflexivity. Qed.

(* ---------- handleUndeclaredSSRC ---------- *)

Lemma undeclared_scan_no_panic : forall l s i hr hs, undeclared_scan l s i hr hs <> Panic.
Proof.
  induction l as [| [k v] t IH]; intros s i hr hs; cbn [undeclared_scan].
  - discriminate.
  - destruct (String.eqb k "msid").
    + destruct (Nat.eqb (List.length (split_on sp v)) 2) eqn:E; [| apply IH].
      apply Nat.eqb_eq in E.
      destruct (nth_error_lt (split_on sp v) 0) as [a Ha]; [lia |].
      destruct (nth_error_lt (split_on sp v) 1) as [b Hb]; [lia |].
      rewrite Ha, Hb. apply IH.
    + destruct (String.eqb k "ssrc"); [apply IH |].
      destruct (String.eqb k "rid"); apply IH.
Qed.

Theorem handle_undeclared_ssrc_no_panic :
  forall add_ok m, handle_undeclared_ssrc add_ok m <> Panic.
Proof.
  intros add_ok m. unfold handle_undeclared_ssrc.
  apply rbind_no_panic; [apply undeclared_scan_no_panic |].
  intros [[[s i] hr] hs] _.
  repeat match goal with |- (if ?c then _ else _) <> _ => destruct c end; discriminate.
Qed.
